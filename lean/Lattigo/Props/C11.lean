/-
  Property C11 — rotations and slot sums follow the Galois algebra; advertised key lists suffice.

  All theorems are about the executable models `Lattigo.Model.Galois` / `Lattigo.Model.InnerSum` (the
  definitions the driver runs and the harness ties to the real code; `galel`, `modinv`, `dlog`, `ordertwo` are
  executed from the REGENERATED `Gen/Galois.lean`, proved equal to the hand-written model in `Props/C11Gen`),
  and — §6 — about C04's executable key-switching model (`KS.scaleByP`, `KS.modDownR`,
  `KS.automorphismHoistedLazy`).  `nthRoot = 2^m` everywhere (`m = logN+1` standard ring, `logN+2`
  conjugate-invariant ring).  The model follows the code after the fixes `/verif/fixes/C11-1 … C11-6`.

  PROVED FOR ALL INPUTS
  §1  Galois-element arithmetic of `core/rlwe/params.go`: `galEl_eq`, `galEl_add(_wrap)`, `galEl_mod_slots`,
      `galEl_eq_iff`, `modInv_spec`, `modInv_galEl`, `dlog_galEl`, `galEl_dlog`, `orderTwo_spec`, with
      `orderOf_five` proved, not assumed; `AutomorphismNTTIndex` is a permutation of `[0,N)` for the standard
      ring (`nttIndex_perm`, every odd `g`) and for the conjugate-invariant ring (`nttIndex_perm_ci`, every
      `g ≡ 1 mod 4`, i.e. every rotation).
  §2  `PartialTracesSum` (= `RotateAndAdd`), `InnerFunction(Add)`, `Replicate`, `ckks/bgv InnerSum`, `Trace` on
      both ring types compute the documented sums of rotated inputs over EVERY carrier on which `aut` is a lawful
      action (`Lawful`), independently of stale buffers and of `int` overflow; arguments outside the accepted
      range are rejected (`…_rejected`).  `Lawful` is instantiated (no hypothesis left) by the executable slot
      carrier (§5, `*_slots`) and by the ring of RNS polynomials (`C11Ring.wfOps_lawful`, `…_rpoly`).
  §3  every key these operations look up is in the list advertised for the same arguments (all `(batch, n)`, all
      `logN`, bgv two-row list included): `keys_sufficient_*`.
  §4  `rotate_slots`: over any commutative ring and any `ζ` with `ζ^N = −1`, `X ↦ X^g` (`sigma`, and the
      executable `RPoly.rowAut`, `rowAut_is_sigma`) moves slot `a(ζ^u)` to `a(ζ^(u·g))`; `GaloisElement(k)`
      rotates each slot row by exactly `k` (every Go `int`), `2N−1` swaps the rows (`orderTwo_swaps_rows`) and, for
      an endomorphism `c` with `c ζ = ζ⁻¹` fixing the coefficients, conjugates every slot (`orderTwo_conjugates`);
      the CKKS case is PROVED in `ℂ` (`orderTwo_conjugates_complex`: `ζ = e^{iπ/N}`, real coefficients, complex
      conjugation), a second non-degenerate instance lives in `ZMod 17 × ZMod 17`; no such `c` exists on a prime
      field (`C11Ring.orderTwo_conjugates_hyps_unsatisfiable_zmod`).  BGV: decoding after `rowAut g` is
      `slotAut .bgv g` of the decoding (`rotate_slots_bgv`, `rotateRows_bgv`, `rotate_decode`).
      NTT domain: `ring.AutomorphismNTT` (index permutation) is `NTT ∘ rowAut g ∘ NTT⁻¹` on the standard
      transform (`automorphismNTT_spec`), and on the CONJUGATE-INVARIANT transform position `index[i]` holds the
      value of `a_0 + Σ a_m (X^m + X^{-m})` at `x_i^g`, `x_i` the evaluation point of position `i`
      (`automorphismNTT_ci`, with `nttCI_entry`: position `t` of `nttCI` is the value at `ψ^(2·brv(t)+1)`).
  §5  the executable slot carrier `slotOps` is the homomorphic image of a lawful carrier; `*_slots` = §2 without
      hypothesis on well-formed slot vectors.
  §6  hoisted-lazy rotation (`AutomorphismHoistedLazy` + `ModDown`, the path of `RotateHoistedLazyNew` and of the
      linear transformations) on C04's `RPoly` model: `ModDown(x + F·c0|_Q) = ModDown(x) + F·P_key⁻¹·c0` for every
      factor `F` (`hoistedLazy_any_factor`), hence `= ModDown(x) + c0` exactly for `F = P_key`, the product of the
      auxiliary primes OF THE KEY (`hoistedLazy_P_factor`), and `= ModDown(x) + P'·c0` for `F = P_key·P'`
      (`hoistedLazy_wrong_factor`: what the seeded regression `PBigInt()` computes).
  PROVED UNDER A NAMED HYPOTHESIS
  * `rotate_slots_ciphertext`, `automorphism_slots_ciphertext`: hypothesis `hks` = the conclusion of C04's
    `automorphism_phase` (key-switch correctness up to noise `ν`); discharged for the `RPoly` model in
    `C04Ring.automorphism_phase_rpoly`, for the word-level gadget product it is C04/C08's business.
  * `hoistedLazy_eq_hoisted`: pointwise hypotheses `h0 h1` "`ModDown` commutes with `σ` on these two
    polynomials".  True (the auxiliary modulus is odd, so the centred remainder is sign-symmetric) but not proved:
    C04's `modDownR` goes through the IEEE index of `reconstructRNS`; probed bit-exactly on the real code
    (`keylevel_lazy_eq_hoisted`).
  TIED ONLY: the slot-vector evaluation of the algorithms (`pts`, `replicate`, `innerfunction`, `innersum-*`,
  `trace`, `rotate`, `conj`, `rothoisted`), the request traces and the advertised lists on the explored inputs.
  NOT COVERED: the CKKS encoder (float FFT) is connected to the slots `a(ζ^(5^j))` only through §4 over `ℂ`;
  sparse packing and result metadata are probed (`metadata_*`), not modelled; the coefficient-domain
  `ring.Automorphism` of the conjugate-invariant ring is not modelled (§4 covers its NTT-domain form);
  `GaloisElementsForExpand` / `…ForPack` are not modelled.  (`ring.BRed` inside `ModExp`: the hand-written model
  uses `x·y mod p`; `Props/C11Gen` proves the regenerated code with the word-level `Gen.BRed` equal to it.)
-/
import Lattigo.Proofs.GaloisDlog
import Lattigo.Proofs.GaloisNTTIndex
import Lattigo.Proofs.InnerSumTrace
import Lattigo.Proofs.InnerSumSchemes
import Lattigo.Proofs.SlotLawful
import Lattigo.Proofs.RotateSlots
import Lattigo.Proofs.RotateSlotsComplex
import Lattigo.Proofs.RotateSlotsCI
import Lattigo.Proofs.GaloisHoistedLazy
import Lattigo.Props.C11Gen
import Lattigo.Props.C11Ring
import Mathlib.Tactic.NormNum.Prime

namespace Lattigo.Props.C11
open Lattigo Lattigo.Model.Galois Lattigo.Model.InnerSum
open Lattigo.Proofs.Galois Lattigo.Proofs.InnerSum
open Finset

/-! ## carriers used for the non-vacuity examples -/

/-- Evaluation vectors: `f j` is the value of a polynomial at `ζ^j` (`ζ` a primitive `N`-th root);
    the automorphism `X ↦ X^g` acts by `(σ_g f)(j) = f(j·g)`.  This is the true semantics of slots. -/
def evalOps (N : Nat) : Ops (ZMod N → Int) where
  add a b := a + b
  aut g f := fun j => f (j * (g : ZMod N))
  scaleInv _ f := f

theorem evalOps_lawful (N : Nat) : Lawful (evalOps N) N where
  add_eq _ _ := rfl
  aut_add _ _ _ := rfl
  aut_zero _ := rfl
  aut_one a := by funext j; simp [evalOps]
  aut_mul g h a := by
    funext j
    simp only [evalOps, ZMod.natCast_mod, Nat.cast_mul]
    rw [mul_assoc]

/-- the trivial action on `Int` (every automorphism is the identity): lawful, executable. -/
def trivOps : Ops Int where
  add a b := a + b
  aut _ x := x
  scaleInv _ x := x

theorem trivOps_lawful (N : Nat) : Lawful trivOps N where
  add_eq _ _ := rfl
  aut_add _ _ _ := rfl
  aut_zero _ := rfl
  aut_one _ := rfl
  aut_mul _ _ _ := rfl

/-! ## 1. Galois elements -/

/-- `5` has order `nthRoot/4` in `(ℤ/nthRoot)ˣ`, `nthRoot = 2^(t+3)`. -/
theorem orderOf_five (t : Nat) : orderOf (five (t + 3)) = 2 ^ (t + 1) :=
  Proofs.Galois.orderOf_five t

/-- `GaloisElement(k) = 5^(k mod nthRoot) mod nthRoot` for every Go `int` `k` (negative `k` go
    through `uint64(k) & (nthRoot-1)`). -/
theorem galEl_eq (m : Nat) (hm1 : 1 ≤ m) (hm : m ≤ 64) (k : Int) :
    galEl (2 ^ m) k = 5 ^ (k % ((2 ^ m : Nat) : Int)).toNat % 2 ^ m :=
  Proofs.Galois.galEl_eq m hm1 hm k

/-- element(a)·element(b) = element(a+b). -/
theorem galEl_add (m : Nat) (hm1 : 1 ≤ m) (hm : m ≤ 64) (a b : Int) :
    (galEl (2 ^ m) a * galEl (2 ^ m) b) % 2 ^ m = galEl (2 ^ m) (a + b) :=
  Proofs.Galois.galEl_add m hm1 hm a b

example : (galEl 32 (-3) * galEl 32 9223372036854775807) % 32 = galEl 32 (-3 + 9223372036854775807) :=
  galEl_add 5 (by norm_num) (by norm_num) _ _

/-- the sum may be formed in Go `int` arithmetic (wrapping): same element. -/
theorem galEl_add_wrap (m : Nat) (hm1 : 1 ≤ m) (hm : m ≤ 64) (a b : Int) :
    (galEl (2 ^ m) a * galEl (2 ^ m) b) % 2 ^ m = galEl (2 ^ m) (wrapInt (a + b)) := by
  rw [galEl_wrapInt]; exact Proofs.Galois.galEl_add m hm1 hm a b

/-- `k` and `k mod slots` coincide (`slots = nthRoot/4`). -/
theorem galEl_mod_slots (t : Nat) (ht : t + 3 ≤ 64) (k : Int) :
    galEl (2 ^ (t + 3)) k = galEl (2 ^ (t + 3)) (k % ((2 ^ (t + 1) : Nat) : Int)) :=
  Proofs.Galois.galEl_mod_slots t ht k

example : galEl 32 (-9223372036854775808) = galEl 32 ((-9223372036854775808) % ((2 ^ 3 : Nat) : Int)) :=
  galEl_mod_slots 2 (by norm_num) _

/-- … and nothing else coincides. -/
theorem galEl_eq_iff (t : Nat) (ht : t + 3 ≤ 64) (a b : Int) :
    galEl (2 ^ (t + 3)) a = galEl (2 ^ (t + 3)) b ↔ a ≡ b [ZMOD ((2 ^ (t + 1) : Nat) : Int)] :=
  Proofs.Galois.galEl_eq_iff t ht a b

/-- `g · ModInvGaloisElement(g) ≡ 1` for every odd `g`. -/
theorem modInv_spec (m : Nat) (hm1 : 1 ≤ m) (hm : m ≤ 64) (g : Nat) (hg : g % 2 = 1) :
    (g * modInv (2 ^ m) g) % 2 ^ m = 1 :=
  Proofs.Galois.modInv_spec m hm1 hm g hg

example : (31 * modInv 32 31) % 32 = 1 := modInv_spec 5 (by norm_num) (by norm_num) 31 (by norm_num)

/-- the inverse of element(k) is element(-k). -/
theorem modInv_galEl (m : Nat) (hm1 : 1 ≤ m) (hm : m ≤ 64) (k : Int) :
    modInv (2 ^ m) (galEl (2 ^ m) k) = galEl (2 ^ m) (-k) :=
  Proofs.Galois.modInv_galEl m hm1 hm k

/-- `SolveDiscreteLogGaloisElement(GaloisElement(k)) = k mod slots`: the bit-by-bit loop is
    correct for every `nthRoot = 2^(t+3)` up to `2^64`. -/
theorem dlog_galEl (t : Nat) (ht : t + 3 ≤ 64) (k : Int) :
    solveDiscreteLog (2 ^ (t + 3)) (galEl (2 ^ (t + 3)) k)
      = some (k % ((2 ^ (t + 1) : Nat) : Int)).toNat :=
  Proofs.Galois.dlog_galEl t ht k

example : solveDiscreteLog 32 (galEl 32 (-1)) = some 7 := by
  have := dlog_galEl 2 (by norm_num) (-1); simpa using this

/-- mutual inverse, other direction: on the image of `GaloisElement`,
    `GaloisElement(SolveDiscreteLogGaloisElement(g)) = g`. -/
theorem galEl_dlog (t : Nat) (ht : t + 3 ≤ 64) (k : Int) :
    ∃ d, solveDiscreteLog (2 ^ (t + 3)) (galEl (2 ^ (t + 3)) k) = some d ∧
      galEl (2 ^ (t + 3)) (d : Int) = galEl (2 ^ (t + 3)) k := by
  refine ⟨_, dlog_galEl t ht k, ?_⟩
  rw [galEl_mod_slots t ht k]
  congr 1
  have hpos : (0 : Int) < ((2 ^ (t + 1) : Nat) : Int) := by positivity
  have := Int.emod_nonneg k (by omega : ((2 ^ (t + 1) : Nat) : Int) ≠ 0)
  omega

/-- **`nttIndex_perm`**: `ring.AutomorphismNTTIndex(N, 2N, g)` is a permutation of `[0, N)` for
    every odd `g` (table of length `N`, no repetition, entries `< N`). -/
theorem nttIndex_perm (m : Nat) (hm1 : 1 ≤ m) (hm : m ≤ 64) (g : Nat) (hg : g % 2 = 1) :
    ∃ l, automorphismNTTIndex (2 ^ (m - 1)) (2 ^ m) g = some l ∧ l.length = 2 ^ (m - 1) ∧
      l.Nodup ∧ ∀ x ∈ l, x < 2 ^ (m - 1) :=
  Proofs.Galois.nttIndex_perm m hm1 hm g hg

example : automorphismNTTIndex 16 32 5 = some [4, 5, 6, 7, 3, 2, 0, 1, 14, 15, 13, 12, 8, 9, 10, 11] := by
  decide +kernel

/-- for `nthRoot < 8` the Go loop of `SolveDiscreteLogGaloisElement` never terminates
    (`x = N>>3 = 0`): the model runs out of fuel.  Not reachable (`MinLogN = 4`). -/
theorem dlog_diverges_small : solveDiscreteLog 4 1 = none := by decide +kernel

/-- the order-two element squares to one and is not a rotation. -/
theorem orderTwo_spec (m : Nat) (hm2 : 2 ≤ m) (hm : m ≤ 64) :
    ((2 ^ m - 1) * (2 ^ m - 1)) % 2 ^ m = 1 ∧ ∀ k : Int, galEl (2 ^ m) k ≠ 2 ^ m - 1 :=
  ⟨orderTwo_sq _ (by
      have : 2 ^ 2 ≤ 2 ^ m := Nat.pow_le_pow_right (by norm_num) hm2
      omega),
   orderTwo_not_rotation m hm2 hm⟩

/-! ## 2. rotate-and-accumulate sums -/

/-- **`innerSum_spec`.**  For every lawful carrier, every `offset ≠ 0` and every `n ≥ 1` (Go `int`s),
    on parameters with an auxiliary modulus, `PartialTracesSum(ct, offset, n)` (= `RotateAndAdd`) is
    `Σ_{r<n} rot(r·offset) ct`, independently of the stale contents of `opOut` and of the
    accumulator buffer, and however `r·offset` wraps in `int` arithmetic. -/
theorem innerSum_spec {α : Type} [AddCommMonoid α] {S : Ops α} {m : Nat}
    (hS : Lawful S (2 ^ m)) (hm1 : 1 ≤ m) (hm : m ≤ 64)
    (v out0 acc0 : α) (offset n : Int) (hn : 1 ≤ n) (hn63 : n < 9223372036854775808)
    (hoff : offset ≠ 0) :
    (partialTracesSum S (2 ^ m) true v out0 acc0 offset n).val?
      = some (∑ r ∈ range n.toNat, rot S (2 ^ m) ((r : Int) * offset) v) :=
  partialTracesSum_spec hS hm1 hm v out0 acc0 offset n hn hn63 hoff

/-- non-vacuity: `n = 7` (three set bits), `offset = -3`, on evaluation vectors mod 64. -/
example (v out0 acc0 : ZMod 64 → Int) :
    (partialTracesSum (evalOps 64) 64 true v out0 acc0 (-3) 7).val?
      = some (∑ r ∈ range 7, rot (evalOps 64) 64 ((r : Int) * (-3)) v) := by
  have := innerSum_spec (m := 6) (evalOps_lawful 64) (by norm_num) (by norm_num) v out0 acc0 (-3) 7
    (by norm_num) (by norm_num) (by norm_num)
  simpa using this

/-- the former overflow counterexample (`offset = 2^62`, `n = 5`: `4·2^62` wraps to `0`) is now
    an instance of the theorem: `5·ct`, even with dirty buffers. -/
example : (partialTracesSum trivOps 32 true 1 77 99 4611686018427387904 5).val? = some 5 := by
  decide +kernel

/-- `PartialTracesSum` rejects `n ≤ 0` and `offset = 0` … -/
theorem partialTracesSum_nonpositive_rejected {α : Type} (S : Ops α) (N : Nat) (hasP : Bool)
    (v out0 acc0 : α) (offset n : Int) (h : n ≤ 0 ∨ offset = 0) :
    partialTracesSum S N hasP v out0 acc0 offset n = .err := by
  unfold partialTracesSum
  rw [if_pos h]

/-- … and parameters without auxiliary modulus `P` (error, no nil dereference).  Same for
    `Replicate`, `RotateAndAdd`, and the scheme-level `InnerSum`s, which all go through it. -/
theorem partialTracesSum_noP_rejected {α : Type} (S : Ops α) (N : Nat)
    (v out0 acc0 : α) (offset n : Int) :
    partialTracesSum S N false v out0 acc0 offset n = .err := by
  unfold partialTracesSum
  split <;> rfl

/-- **`InnerFunction` with `f = Add`** computes the same sum for every `batchSize` (zero and
    overflowing ones included) and every `n ≥ 1`; it does not need `P`. -/
theorem innerFunction_spec {α : Type} [AddCommMonoid α] {S : Ops α} {m : Nat}
    (hS : Lawful S (2 ^ m)) (hm1 : 1 ≤ m) (hm : m ≤ 64)
    (v out0 acc0 : α) (batch n : Int) (hn : 1 ≤ n) (hn63 : n < 9223372036854775808) :
    (innerFunction S S.add (2 ^ m) v out0 acc0 batch n).val?
      = some (∑ r ∈ range n.toNat, rot S (2 ^ m) ((r : Int) * batch) v) :=
  innerFunction_add_spec hS hm1 hm v out0 acc0 batch n hn hn63

example (v out0 acc0 : ZMod 64 → Int) :
    (innerFunction (evalOps 64) (evalOps 64).add 64 v out0 acc0 2 6).val?
      = some (∑ r ∈ range 6, rot (evalOps 64) 64 ((r : Int) * 2) v) := by
  have := innerFunction_spec (m := 6) (evalOps_lawful 64) (by norm_num) (by norm_num) v out0 acc0 2 6
    (by norm_num) (by norm_num)
  simpa using this

/-- the former `batchSize = 0` counterexample: now `3·ct`. -/
example : (innerFunction trivOps trivOps.add 32 1 77 99 0 3).val? = some 3 := by decide +kernel

/-- `InnerFunction` rejects `n ≤ 0`. -/
theorem innerFunction_nonpositive_rejected {α : Type} (S : Ops α) (f : α → α → α) (N : Nat)
    (v out0 acc0 : α) (batch n : Int) (hn : n ≤ 0) :
    innerFunction S f N v out0 acc0 batch n = .err := by
  unfold innerFunction
  rw [if_pos hn]

/-- **`replicate_spec`.** `Replicate(ct, batch, n) = Σ_{r<n} rot(-r·batch) ct`. -/
theorem replicate_spec {α : Type} [AddCommMonoid α] {S : Ops α} {m : Nat}
    (hS : Lawful S (2 ^ m)) (hm1 : 1 ≤ m) (hm : m ≤ 64)
    (v out0 acc0 : α) (batch n : Int) (hn : 1 ≤ n) (hb : batch ≠ 0)
    (hsmall : n * |batch| < 9223372036854775808) :
    (replicate S (2 ^ m) true v out0 acc0 batch n).val?
      = some (∑ r ∈ range n.toNat, rot S (2 ^ m) (-((r : Int) * batch)) v) :=
  Proofs.InnerSum.replicate_spec hS hm1 hm v out0 acc0 batch n hn hb hsmall

example (v out0 acc0 : ZMod 64 → Int) :
    (replicate (evalOps 64) 64 true v out0 acc0 2 5).val?
      = some (∑ r ∈ range 5, rot (evalOps 64) 64 (-((r : Int) * 2)) v) := by
  have := replicate_spec (m := 6) (evalOps_lawful 64) (by norm_num) (by norm_num) v out0 acc0 2 5
    (by norm_num) (by norm_num) (by norm_num)
  simpa using this

/-- **`ckks.Evaluator.InnerSum`**: every accepted call returns the documented sum. -/
theorem innerSumCKKS_spec {α : Type} [AddCommMonoid α] {S : Ops α} {m : Nat}
    (hS : Lawful S (2 ^ m)) (hm1 : 1 ≤ m) (hm : m ≤ 64) (slots : Nat)
    (v out0 acc0 : α) (batch n : Int) (hn : 0 < n) (hb : 0 < batch)
    (hnb : n * batch < 9223372036854775808) :
    ∀ x, (innerSumCKKS S (2 ^ m) slots true v out0 acc0 batch n).val? = some x →
      x = ∑ r ∈ range n.toNat, rot S (2 ^ m) ((r : Int) * batch) v :=
  Proofs.InnerSum.innerSumCKKS_spec hS hm1 hm slots v out0 acc0 batch n hn hb hnb

/-- non-vacuity: `(batch, n) = (2, 4)` on 8 slots is accepted. -/
example : ∃ x, (innerSumCKKS trivOps 32 8 true 1 0 0 2 4).val? = some x := ⟨4, by decide +kernel⟩

/-- **`bgv.Evaluator.InnerSum`** (two rows): row-wise sum, and for `n·batch = slots` the sum over
    both rows obtained from `(batch, n/2)` plus the row swap. -/
theorem innerSumBGV_spec {α : Type} [AddCommMonoid α] {S : Ops α} {m : Nat}
    (hS : Lawful S (2 ^ m)) (hm1 : 1 ≤ m) (hm : m ≤ 64) (slots : Nat)
    (v out0 acc0 : α) (batch n : Int) (hn : 0 < n) (hb : 0 < batch)
    (hnb : n * batch < 9223372036854775808) :
    ∀ x, (innerSumBGV S (2 ^ m) slots true v out0 acc0 batch n).val? = some x →
      x = if n * batch = slots ∧ n ≠ 1 then
            (let u := ∑ r ∈ range (n / 2).toNat, rot S (2 ^ m) ((r : Int) * batch) v
             u + S.aut (2 ^ m - 1) u)
          else ∑ r ∈ range n.toNat, rot S (2 ^ m) ((r : Int) * batch) v :=
  Proofs.InnerSum.innerSumBGV_spec hS hm1 hm slots v out0 acc0 batch n hn hb hnb

/-- non-vacuity: the boundary case `n·batch = slots` (`(2, 8)` on 16 slots) is accepted. -/
example : ∃ x, (innerSumBGV trivOps 32 16 true 1 0 0 2 8).val? = some x := ⟨8, by decide +kernel⟩

/-- **`trace_spec` (standard ring, `0 < logN < L-1`)**: normalised sum over the rotations by
    multiples of `2^logN`. -/
theorem trace_spec_standard {α : Type} [AddCommMonoid α] {S : Ops α} (L : Nat)
    (hS : Lawful S (2 ^ (L + 1))) (hL : L ≤ 62) (v : α) (logN : Nat) (h0 : 0 < logN) (hlt : logN + 1 < L) :
    (trace S .standard L v (logN : Int)).val?
      = some (∑ j ∈ range (2 ^ (L - 1 - logN)),
          rot S (2 ^ (L + 1)) ((j : Int) * ((2 ^ logN : Nat) : Int)) (S.scaleInv (2 ^ (L - 1 - logN)) v)) :=
  trace_spec_pos L hS hL v logN h0 hlt

example (v : ZMod 32 → Int) :
    (trace (evalOps 32) .standard 4 v 1).val?
      = some (∑ j ∈ range 4, rot (evalOps 32) 32 ((j : Int) * 2) v) := by
  have := trace_spec_standard (S := evalOps 32) 4 (evalOps_lawful 32) (by norm_num) v 1 (by norm_num) (by norm_num)
  simpa [evalOps] using this

/-- **`trace_spec` (conjugate-invariant ring, `0 ≤ logN < L`)**: normalised sum over the
    `2^(L-logN)` rotations by multiples of `2^logN` (`nthRoot = 4N`, the rotation group has
    order `N = 2^L`; no order-two element). -/
theorem trace_spec_ci {α : Type} [AddCommMonoid α] {S : Ops α} (L : Nat)
    (hS : Lawful S (2 ^ (L + 2))) (hL : L ≤ 62) (v : α) (logN : Nat) (hlt : logN < L) :
    (trace S .conjugateInvariant L v (logN : Int)).val?
      = some (∑ j ∈ range (2 ^ (L - logN)),
          rot S (2 ^ (L + 2)) ((j : Int) * ((2 ^ logN : Nat) : Int)) (S.scaleInv (2 ^ (L - logN)) v)) :=
  Proofs.InnerSum.trace_spec_ci L hS hL v logN hlt

example (v : ZMod 64 → Int) :
    (trace (evalOps 64) .conjugateInvariant 4 v 2).val?
      = some (∑ j ∈ range 4, rot (evalOps 64) 64 ((j : Int) * 4) v) := by
  have := trace_spec_ci (S := evalOps 64) 4 (evalOps_lawful 64) (by norm_num) v 2 (by norm_num)
  simpa [evalOps] using this

/-- the former conjugate-invariant counterexample (degree 16, `logN = 2`), on slot vectors: the
    result is now the 4-periodic average, invariant under `rot(4)`. -/
example :
    (trace (slotOps .single 64 0) .conjugateInvariant 4
        [4,8,12,16,20,24,28,32,36,40,44,48,52,56,60,64] 2).val?
      = some [28, 32, 36, 40, 28, 32, 36, 40, 28, 32, 36, 40, 28, 32, 36, 40] ∧
    slotAut .single 64 (galEl 64 4) [28, 32, 36, 40, 28, 32, 36, 40, 28, 32, 36, 40, 28, 32, 36, 40]
      = [28, 32, 36, 40, 28, 32, 36, 40, 28, 32, 36, 40, 28, 32, 36, 40] :=
  ⟨by decide +kernel, by decide +kernel⟩

/-- `logN = 0` (standard ring): all rotations, then the order-two element, normalised by `N`. -/
theorem trace_spec_zero_standard {α : Type} [AddCommMonoid α] {S : Ops α} (L : Nat)
    (hS : Lawful S (2 ^ (L + 1))) (hL1 : 1 ≤ L) (hL : L ≤ 62) (v : α) :
    (trace S .standard L v 0).val?
      = some (let u := ∑ j ∈ range (2 ^ (L - 1)),
                rot S (2 ^ (L + 1)) ((j : Int) * ((2 ^ 0 : Nat) : Int)) (S.scaleInv (2 ^ L) v)
              u + S.aut (2 ^ (L + 1) - 1) u) :=
  Proofs.InnerSum.trace_spec_zero L hS hL1 hL v

/-- `logN = log2 #rotations` (`L-1` standard, `L` conjugate-invariant): identity. -/
theorem trace_spec_top {α : Type} (S : Ops α) (rt : RingType) (L : Nat) (v : α) (logN : Int)
    (h : logN = logRot rt L) (h0 : 0 ≤ logN) (hnz : ¬ (logN = 0 ∧ rt = .standard)) :
    (trace S rt L v logN).val? = some v :=
  Proofs.InnerSum.trace_spec_top S rt L v logN h h0 hnz

example : (trace trivOps .conjugateInvariant 4 7 4).val? = some 7 :=
  trace_spec_top trivOps .conjugateInvariant 4 7 4 (by decide) (by decide) (by decide)

/-- `logN` outside `[0, log2 #rotations]` is rejected by `Trace` (error) and by
    `GaloisElementsForTrace` (sanity-check panic) alike. -/
theorem trace_rejected {α : Type} (S : Ops α) (rt : RingType) (L : Nat) (v : α) (logN : Int)
    (h : logN < 0 ∨ logN > logRot rt L) :
    trace S rt L v logN = .err ∧ galoisElementsForTrace rt L logN = none :=
  Proofs.InnerSum.trace_rejected S rt L v logN h

/-! ## 3. advertised key lists suffice -/

/-- **`keys_sufficient` (PartialTracesSum / RotateAndAdd).**  For all Go `int`s `offset`, `n ≤ 2^62`:
    `GaloisElementsForInnerSum(offset, n)` terminates and contains every key looked up. -/
theorem keys_sufficient_partialTracesSum {α : Type} (S : Ops α) (N : Nat) (hasP : Bool) (v out0 acc0 : α)
    (offset n : Int) (hn : n ≤ 4611686018427387904) :
    ∃ l, galoisElementsForInnerSum N offset n = some l ∧
      ∀ r ∈ (partialTracesSum S N hasP v out0 acc0 offset n).reqs, r ∈ l :=
  partialTracesSum_keys S N hasP v out0 acc0 offset n hn

/-- non-vacuity: the requests of `(3, 13)` are non-empty. -/
example : (partialTracesSum trivOps 64 true 1 0 0 3 13).reqs ≠ [] := by decide +kernel

theorem keys_sufficient_innerFunction {α : Type} (S : Ops α) (f : α → α → α) (N : Nat)
    (v out0 acc0 : α) (batch n : Int) (hn : n ≤ 4611686018427387904) :
    ∃ l, galoisElementsForInnerSum N batch n = some l ∧
      ∀ r ∈ (innerFunction S f N v out0 acc0 batch n).reqs, r ∈ l :=
  innerFunction_keys S f N v out0 acc0 batch n hn

theorem keys_sufficient_replicate {α : Type} (S : Ops α) (N : Nat) (hasP : Bool) (v out0 acc0 : α)
    (batch n : Int) (hn : n ≤ 4611686018427387904) :
    ∃ l, galoisElementsForReplicate N batch n = some l ∧
      ∀ r ∈ (replicate S N hasP v out0 acc0 batch n).reqs, r ∈ l :=
  replicate_keys S N hasP v out0 acc0 batch n hn

theorem keys_sufficient_innerSumCKKS {α : Type} (S : Ops α) (N slots : Nat) (hasP : Bool) (v out0 acc0 : α)
    (batch n : Int) (hn : n ≤ 4611686018427387904) :
    ∃ l, galoisElementsForInnerSum N batch n = some l ∧
      ∀ r ∈ (innerSumCKKS S N slots hasP v out0 acc0 batch n).reqs, r ∈ l :=
  innerSumCKKS_keys S N slots hasP v out0 acc0 batch n hn

/-- **bgv two-row layout**: `bgv.Parameters.GaloisElementsForInnerSum(batch, n)` suffices for
    `bgv.Evaluator.InnerSum(ct, batch, n)`, including the case `n·batch = slots` where the
    evaluator runs `(batch, n/2)` and swaps the rows. -/
theorem keys_sufficient_innerSumBGV {α : Type} (S : Ops α) (N maxSlots : Nat) (hms : 1 ≤ maxSlots)
    (hasP : Bool) (v out0 acc0 : α) (batch n : Int) (hn : 0 < n) (hb : 0 < batch)
    (hnb : n * batch < 4611686018427387904) :
    ∃ l, galoisElementsForInnerSumBGV N maxSlots batch n = some l ∧
      ∀ r ∈ (innerSumBGV S N maxSlots hasP v out0 acc0 batch n).reqs, r ∈ l :=
  innerSumBGV_keys S N maxSlots hms hasP v out0 acc0 batch n hn hb hnb

/-- non-vacuity: at the boundary the row-swap key `nthRoot-1 = 31` is requested. -/
example : 31 ∈ (innerSumBGV trivOps 32 16 true 1 0 0 2 8).reqs := by decide +kernel

theorem keys_sufficient_replicateBGV {α : Type} (S : Ops α) (N ringN : Nat) (hasP : Bool) (v out0 acc0 : α)
    (batch n : Int) (hn : n ≤ 4611686018427387904) :
    ∃ l, galoisElementsForReplicateBGV N ringN batch n = some l ∧
      ∀ r ∈ (replicate S N hasP v out0 acc0 batch n).reqs, r ∈ l :=
  replicateBGV_keys S N ringN hasP v out0 acc0 batch n hn

/-- **`Trace`**: for every ring type and degree and every accepted `logN` the advertised list is
    defined and suffices (rejected `logN`: see `trace_rejected`). -/
theorem keys_sufficient_trace {α : Type} (S : Ops α) (rt : RingType) (L : Nat) (v : α) (logN : Int)
    (h0 : 0 ≤ logN) (h1 : logN ≤ logRot rt L) :
    ∃ l, galoisElementsForTrace rt L logN = some l ∧
      ∀ r ∈ (trace S rt L v logN).reqs, r ∈ l :=
  trace_keys S rt L v logN h0 h1

example : galoisElementsForTrace .standard 4 0 = some [5, 25, 17, 31] := by decide +kernel

/-- the former conjugate-invariant counterexample: the list for `logN = 0` is defined and is what
    `Trace(ct, 0)` looks up (4 rotations, no order-two element). -/
example : galoisElementsForTrace .conjugateInvariant 4 0 = some [5, 25, 49, 33] ∧
    (trace trivOps .conjugateInvariant 4 1 0).reqs = [5, 25, 49, 33] :=
  ⟨by decide +kernel, by decide +kernel⟩

/-- single rotations / conjugation / hoisted rotations only look up the keys of their arguments. -/
theorem keys_sufficient_rotate {α : Type} (S : Ops α) (N : Nat) (v : α) (k : Int) :
    ∀ r ∈ (rotate S N v k).reqs, r = galEl N k :=
  rotate_keys S N v k

theorem keys_sufficient_rotateHoisted {α : Type} (S : Ops α) (N : Nat) (hasP : Bool) (v : α) (ks : List Int) :
    ∀ res, rotateHoisted S N hasP v ks = some res → ∀ r ∈ res.2, r ∈ galEls N ks :=
  rotateHoisted_keys S N hasP v ks

/-- `ckks.Evaluator.RotateHoisted` returns an error on parameters without `P`. -/
theorem rotateHoisted_noP_rejected {α : Type} (S : Ops α) (N : Nat) (v : α) (ks : List Int) :
    rotateHoisted S N false v ks = none := rfl

/-! ## 4. `rotate_slots`: the automorphism `X ↦ X^g` on slots -/

section RotateSlots
open Lattigo.Proofs.RotateSlots Lattigo.Proofs.SlotLawful

/-- `(σ_g a)(x) = a(x^g)` at every root `x` of `X^N+1`, for the coefficient-level
    `sigma N g a = a(X^g) mod X^N+1` over any commutative ring, any `g`. -/
theorem sigma_eval {R : Type} [CommRing R] {N : ℕ} (g : ℕ) (a : List R) (ha : a.length = N) (x : R)
    (hx : x ^ N = -1) : evalP (sigma N g a) x = evalP a (x ^ g) :=
  evalP_sigma g a ha x hx

/-- the executable `RPoly.rowAut g q` (one RNS row of `ring.Automorphism`, coefficient domain) is
    `sigma`, read in any commutative ring where `q = 0`, for every `g` coprime to `2N`. -/
theorem rowAut_is_sigma {R : Type} [CommRing R] (q : ℕ) (hq : 0 < q) (hqR : (q : R) = 0) (g : ℕ)
    (x : List ℕ) (hg : Nat.Coprime g (2 * x.length)) :
    (RPoly.rowAut g q x).map (Nat.cast : ℕ → R) = sigma x.length g (x.map (Nat.cast : ℕ → R)) :=
  rowAut_cast q hq hqR g x hg

example : RPoly.rowAut 5 17 [1, 2, 3, 4] = [1, 15, 3, 13] := by decide

/-- **`rotate_slots`.**  `nthRoot = 2N = 2^(t+3)`, `ζ^N = -1`.  The first slot row of
    `σ_{GaloisElement(k)} a` is the first slot row of `a` rotated cyclically by `k`: slot `j`
    receives slot `(j + k) mod N/2`.  Every Go `int` `k`. -/
theorem rotate_slots {R : Type} [CommRing R] {t : ℕ} (ζ : R) (ht : t + 3 ≤ 64)
    (hζ : ζ ^ 2 ^ (t + 2) = -1) (a : List R) (ha : a.length = 2 ^ (t + 2)) (k : ℤ) (j : ℕ) :
    slot0 ζ (2 ^ (t + 3)) (sigma (2 ^ (t + 2)) (galEl (2 ^ (t + 3)) k) a) j
      = slot0 ζ (2 ^ (t + 3)) a (((j : ℤ) + k) % ((2 ^ (t + 1) : ℕ) : ℤ)).toNat :=
  Proofs.RotateSlots.rotate_slots ζ ht hζ a ha k j

/-- non-vacuity: `R = ZMod 17`, `N = 4`, `ζ = 2` (`2^4 = -1`), `k = -1`. -/
example (a : List (ZMod 17)) (ha : a.length = 4) :
    slot0 2 8 (sigma 4 (galEl 8 (-1)) a) 0 = slot0 2 8 a 1 := by
  have := rotate_slots (t := 0) (2 : ZMod 17) (by norm_num) (by decide) a ha (-1) 0
  simpa using this

/-- … and the second row (`a(ζ^(-5^j))`, the conjugate slots) is rotated in the same way. -/
theorem rotate_slots_row1 {R : Type} [CommRing R] {t : ℕ} (ζ : R) (ht : t + 3 ≤ 64)
    (hζ : ζ ^ 2 ^ (t + 2) = -1) (a : List R) (ha : a.length = 2 ^ (t + 2)) (k : ℤ) (j : ℕ) :
    slot1 ζ (2 ^ (t + 3)) (sigma (2 ^ (t + 2)) (galEl (2 ^ (t + 3)) k) a) j
      = slot1 ζ (2 ^ (t + 3)) a (((j : ℤ) + k) % ((2 ^ (t + 1) : ℕ) : ℤ)).toNat :=
  rotate_slots_neg ζ ht hζ a ha k j

/-- the order-two element `2N-1` swaps the two slot rows (BGV `RotateRows`) … -/
theorem orderTwo_swaps_rows {R : Type} [CommRing R] {t : ℕ} (ζ : R) (hζ : ζ ^ 2 ^ (t + 2) = -1)
    (a : List R) (ha : a.length = 2 ^ (t + 2)) (j : ℕ) :
    slot0 ζ (2 ^ (t + 3)) (sigma (2 ^ (t + 2)) (2 ^ (t + 3) - 1) a) j = slot1 ζ (2 ^ (t + 3)) a j
    ∧ slot1 ζ (2 ^ (t + 3)) (sigma (2 ^ (t + 2)) (2 ^ (t + 3) - 1) a) j = slot0 ζ (2 ^ (t + 3)) a j :=
  swap_slots ζ hζ a ha j

/-- … and conjugates every slot (CKKS `Conjugate`): for any ring endomorphism `c` fixing the
    coefficients and with `c ζ = ζ^(2N-1) = ζ⁻¹` (complex conjugation, real `a`, `ζ = e^{iπ/N}`). -/
theorem orderTwo_conjugates {R : Type} [CommRing R] {t : ℕ} (ζ : R) (hζ : ζ ^ 2 ^ (t + 2) = -1)
    (a : List R) (ha : a.length = 2 ^ (t + 2)) (c : R →+* R) (hc : ∀ i, c (a.getD i 0) = a.getD i 0)
    (hcζ : c ζ = ζ ^ (2 ^ (t + 3) - 1)) (u : (ZMod (2 ^ (t + 3)))ˣ) :
    E ζ (2 ^ (t + 3)) (sigma (2 ^ (t + 2)) (2 ^ (t + 3) - 1) a) u = c (E ζ (2 ^ (t + 3)) a u) :=
  conj_slots ζ hζ a ha c hc hcζ u

/-- non-vacuity, non-degenerate (characteristic 17): `R = ZMod 17 × ZMod 17`, `c` = the swap of the factors,
    `ζ = (2, 2⁻¹) = (2, 9)` (`2^4 = −1`), `N = 4`, coefficients on the diagonal.  (On a prime field `ZMod q`, `q > 2`,
    no endomorphism satisfies `c ζ = ζ⁻¹`: `C11Ring.orderTwo_conjugates_hyps_unsatisfiable_zmod`.) -/
example (u : (ZMod 8)ˣ) :
    E (((2, 9) : ZMod 17 × ZMod 17)) 8 (sigma 4 7 [(1, 1), (2, 2), (3, 3), (16, 16)]) u
      = Prod.swap (E (((2, 9) : ZMod 17 × ZMod 17)) 8 [(1, 1), (2, 2), (3, 3), (16, 16)] u) := by
  have hc : ∀ i, (RingEquiv.prodComm : ZMod 17 × ZMod 17 ≃+* ZMod 17 × ZMod 17)
      (([(1, 1), (2, 2), (3, 3), (16, 16)] : List (ZMod 17 × ZMod 17)).getD i 0)
        = ([(1, 1), (2, 2), (3, 3), (16, 16)] : List (ZMod 17 × ZMod 17)).getD i 0 := by
    intro i
    have h4 : ∀ i, i < 4 → (RingEquiv.prodComm : ZMod 17 × ZMod 17 ≃+* ZMod 17 × ZMod 17)
        (([(1, 1), (2, 2), (3, 3), (16, 16)] : List (ZMod 17 × ZMod 17)).getD i 0)
          = ([(1, 1), (2, 2), (3, 3), (16, 16)] : List (ZMod 17 × ZMod 17)).getD i 0 := by decide
    by_cases hi : i < 4
    · exact h4 i hi
    · have : ([(1, 1), (2, 2), (3, 3), (16, 16)] : List (ZMod 17 × ZMod 17)).getD i 0 = 0 := by
        rw [List.getD_eq_getElem?_getD, List.getElem?_eq_none (by simp; omega)]; rfl
      rw [this, map_zero]
  exact orderTwo_conjugates (t := 0) ((2, 9) : ZMod 17 × ZMod 17) (by decide) _ rfl
    ((RingEquiv.prodComm : ZMod 17 × ZMod 17 ≃+* ZMod 17 × ZMod 17) : ZMod 17 × ZMod 17 →+* ZMod 17 × ZMod 17)
    hc (by decide) u

/-- **CKKS `Conjugate`, in `ℂ`** — the instance `orderTwo_conjugates` is meant for, with its hypotheses
    discharged: `ζ = e^{iπ/N}` (`zetaC t`, `N = 2^(t+2)`), real coefficients, `c` = complex conjugation.  For every
    `t` and every unit `u` of `ℤ/2N`, slot `u` of `σ_{2N−1} a` is the complex conjugate of slot `u` of `a`. -/
theorem orderTwo_conjugates_complex (t : ℕ) (a : List ℝ) (ha : a.length = 2 ^ (t + 2))
    (u : (ZMod (2 ^ (t + 3)))ˣ) :
    E (zetaC t) (2 ^ (t + 3)) (sigma (2 ^ (t + 2)) (2 ^ (t + 3) - 1) (a.map (fun r : ℝ => (r : ℂ)))) u
      = (starRingEnd ℂ) (E (zetaC t) (2 ^ (t + 3)) (a.map (fun r : ℝ => (r : ℂ))) u) :=
  conj_slots_complex t a ha u

/-- … and `rotate_slots` in `ℂ`: the complex slots `a(ζ^(5^j))` of `σ_{GaloisElement(k)} a` are those of `a`
    rotated by `k`. -/
example (t : ℕ) (ht : t + 3 ≤ 64) (a : List ℂ) (ha : a.length = 2 ^ (t + 2)) (k : ℤ) (j : ℕ) :
    slot0 (zetaC t) (2 ^ (t + 3)) (sigma (2 ^ (t + 2)) (galEl (2 ^ (t + 3)) k) a) j
      = slot0 (zetaC t) (2 ^ (t + 3)) a (((j : ℤ) + k) % ((2 ^ (t + 1) : ℕ) : ℤ)).toNat :=
  rotate_slots (zetaC t) ht (zetaC_pow t) a ha k j

/-- composition: `σ_g ∘ σ_h` and `σ_{gh mod 2N}` agree on every slot (`g` odd). -/
theorem sigma_comp {R : Type} [CommRing R] {t : ℕ} (ζ : R) (hζ : ζ ^ 2 ^ (t + 2) = -1) (a : List R)
    (ha : a.length = 2 ^ (t + 2)) (g h : ℕ) (hg : g % 2 = 1) (u : (ZMod (2 ^ (t + 3)))ˣ) :
    E ζ (2 ^ (t + 3)) (sigma (2 ^ (t + 2)) g (sigma (2 ^ (t + 2)) h a)) u
      = E ζ (2 ^ (t + 3)) (sigma (2 ^ (t + 2)) (g * h % 2 ^ (t + 3)) a) u :=
  sigma_comp_slots ζ hζ a ha g h hg u

/-- the plaintext modulus `65537` with primitive root `3` satisfies `PlainOK` for `N = 8`. -/
theorem plainOK_65537 : PlainOK 1 65537 3 :=
  ⟨by norm_num, by decide, by decide, by decide +kernel⟩

/-- **`rotate_slots` for the BGV model.**  `N = 2^(e+2)`, plaintext modulus `p` (`PlainOK`), tables
    `mkTables N p 2N g₀`, the model's `permuteMatrix`: decoding all `N` slots after the plaintext
    automorphism `rowAut (GaloisElement k)` equals `slotAut .bgv (GaloisElement k)` of the decoding —
    both rows rotated left by `k mod N/2` (`slotAut_rotation`). -/
theorem rotate_slots_bgv {e p g₀ : ℕ} (h : PlainOK e p g₀) (he : e + 3 ≤ 64) (scale : ℕ) (pT : List ℕ)
    (hlen : pT.length = 2 ^ (e + 2)) (k : ℤ) :
    (EncoderT.decodeRingTU (NTT.mkTables (2 ^ (e + 2)) p (2 ^ (e + 3)) g₀) (EncoderT.permuteMatrix (e + 2))
        scale (RPoly.rowAut (galEl (2 ^ (e + 3)) k) p pT) (2 ^ (e + 2))).map Int.ofNat
      = slotAut .bgv (2 ^ (e + 3)) (galEl (2 ^ (e + 3)) k)
          ((EncoderT.decodeRingTU (NTT.mkTables (2 ^ (e + 2)) p (2 ^ (e + 3)) g₀)
            (EncoderT.permuteMatrix (e + 2)) scale pT (2 ^ (e + 2))).map Int.ofNat) :=
  decode_rowAut_galEl h he scale pT hlen k

/-- non-vacuity (and a TEST by evaluation of both sides): `N = 8`, `p = 65537`, `k = -3`. -/
example :
    (EncoderT.decodeRingTU (NTT.mkTables 8 65537 16 3) (EncoderT.permuteMatrix 3) 1
        (RPoly.rowAut (galEl 16 (-3)) 65537 [1, 2, 3, 4, 5, 6, 7, 8]) 8).map Int.ofNat
      = slotAut .bgv 16 (galEl 16 (-3))
          ((EncoderT.decodeRingTU (NTT.mkTables 8 65537 16 3) (EncoderT.permuteMatrix 3) 1
            [1, 2, 3, 4, 5, 6, 7, 8] 8).map Int.ofNat) :=
  rotate_slots_bgv plainOK_65537 (by norm_num) 1 _ rfl (-3)

/-- `RotateRows`: decoding after `rowAut (2N-1)` is the decoding with the rows swapped. -/
theorem rotateRows_bgv {e p g₀ : ℕ} (h : PlainOK e p g₀) (he : e + 3 ≤ 64) (scale : ℕ) (pT : List ℕ)
    (hlen : pT.length = 2 ^ (e + 2)) :
    (EncoderT.decodeRingTU (NTT.mkTables (2 ^ (e + 2)) p (2 ^ (e + 3)) g₀) (EncoderT.permuteMatrix (e + 2))
        scale (RPoly.rowAut (2 ^ (e + 3) - 1) p pT) (2 ^ (e + 2))).map Int.ofNat
      = slotAut .bgv (2 ^ (e + 3)) (2 ^ (e + 3) - 1)
          ((EncoderT.decodeRingTU (NTT.mkTables (2 ^ (e + 2)) p (2 ^ (e + 3)) g₀)
            (EncoderT.permuteMatrix (e + 2)) scale pT (2 ^ (e + 2))).map Int.ofNat) :=
  decode_rowAut_orderTwo h he scale pT hlen

/-- **keys level**: `RotateColumns(k)` on a decoded plaintext looks up exactly `GaloisElement(k)`
    (nothing if it is `1`) and its value is the decoding of `rowAut (GaloisElement k)`, which is the
    decoded vector with both rows rotated left by exactly `k mod N/2`. -/
theorem rotate_decode {e p g₀ : ℕ} (h : PlainOK e p g₀) (he : e + 3 ≤ 64) (scale : ℕ) (pT : List ℕ)
    (hlen : pT.length = 2 ^ (e + 2)) (k : ℤ) :
    rotate (slotOps .bgv (2 ^ (e + 3)) p) (2 ^ (e + 3))
        ((EncoderT.decodeRingTU (NTT.mkTables (2 ^ (e + 2)) p (2 ^ (e + 3)) g₀)
          (EncoderT.permuteMatrix (e + 2)) scale pT (2 ^ (e + 2))).map Int.ofNat) k
      = .ok ((EncoderT.decodeRingTU (NTT.mkTables (2 ^ (e + 2)) p (2 ^ (e + 3)) g₀)
              (EncoderT.permuteMatrix (e + 2)) scale
              (RPoly.rowAut (galEl (2 ^ (e + 3)) k) p pT) (2 ^ (e + 2))).map Int.ofNat)
            (request false (galEl (2 ^ (e + 3)) k) [])
    ∧ (EncoderT.decodeRingTU (NTT.mkTables (2 ^ (e + 2)) p (2 ^ (e + 3)) g₀) (EncoderT.permuteMatrix (e + 2))
          scale (RPoly.rowAut (galEl (2 ^ (e + 3)) k) p pT) (2 ^ (e + 2))).map Int.ofNat
        = rotL (kmod e k) ((List.range (2 ^ (e + 1))).map (fun j => Int.ofNat (dec0 e p g₀ scale pT j)))
          ++ rotL (kmod e k) ((List.range (2 ^ (e + 1))).map (fun j => Int.ofNat (dec1 e p g₀ scale pT j))) :=
  Proofs.RotateSlots.rotate_decode h he scale pT hlen k

/-- `RotateRows` at the keys level. -/
theorem rotateRows_decode {e p g₀ : ℕ} (h : PlainOK e p g₀) (he : e + 3 ≤ 64) (scale : ℕ) (pT : List ℕ)
    (hlen : pT.length = 2 ^ (e + 2)) :
    conjugate (slotOps .bgv (2 ^ (e + 3)) p) .standard (2 ^ (e + 3))
        ((EncoderT.decodeRingTU (NTT.mkTables (2 ^ (e + 2)) p (2 ^ (e + 3)) g₀)
          (EncoderT.permuteMatrix (e + 2)) scale pT (2 ^ (e + 2))).map Int.ofNat)
      = .ok ((EncoderT.decodeRingTU (NTT.mkTables (2 ^ (e + 2)) p (2 ^ (e + 3)) g₀)
              (EncoderT.permuteMatrix (e + 2)) scale
              (RPoly.rowAut (2 ^ (e + 3) - 1) p pT) (2 ^ (e + 2))).map Int.ofNat)
            (request false (2 ^ (e + 3) - 1) []) :=
  conjugate_decode h he scale pT hlen

/-- **`ring.AutomorphismNTT` is `NTT ∘ σ_g ∘ NTT⁻¹`.**  `AutomorphismNTTWithIndex` computes
    `out[i] = in[index[i]]` with `index = AutomorphismNTTIndex(N, 2N, g)`; on the NTT of `a` (generated
    tables, any NTT-friendly prime `q`, `N = 2^K`) this is the NTT of `rowAut g q a = a(X^g) mod X^N+1`.
    This is how the automorphism is applied to ciphertext and plaintext polynomials (NTT domain). -/
theorem automorphismNTT_spec (K q g₀ : ℕ) (hK : 1 ≤ K) (hK64 : K + 1 ≤ 64) (hq : q.Prime)
    (h8 : 8 * q ≤ W) (hdiv : 2 ^ (K + 1) ∣ q - 1) (hg₀ : g₀ ^ ((q - 1) / 2) % q = q - 1)
    (a : List ℕ) (hlen : a.length = 2 ^ K) (ha : ∀ x ∈ a, x < q) (g : ℕ) (hg : g % 2 = 1) :
    ∃ idx, automorphismNTTIndex (2 ^ K) (2 ^ (K + 1)) g = some idx ∧
      NTT.nttStd (NTT.mkTables (2 ^ K) q (2 ^ (K + 1)) g₀) (RPoly.rowAut g q a)
        = idx.map (fun j => (NTT.nttStd (NTT.mkTables (2 ^ K) q (2 ^ (K + 1)) g₀) a).getD j 0) :=
  Proofs.RotateSlots.automorphismNTT_spec K q g₀ hK hK64 hq h8 hdiv hg₀ a hlen ha g hg

/-- non-vacuity: `q = 65537`, `N = 8`, `g = 5^3 mod 16 = 13`. -/
example : ∃ idx, automorphismNTTIndex 8 16 13 = some idx ∧
    NTT.nttStd (NTT.mkTables 8 65537 16 3) (RPoly.rowAut 13 65537 [1, 2, 3, 4, 5, 6, 7, 65536])
      = idx.map (fun j => (NTT.nttStd (NTT.mkTables 8 65537 16 3) [1, 2, 3, 4, 5, 6, 7, 65536]).getD j 0) :=
  automorphismNTT_spec 3 65537 3 (by norm_num) (by norm_num) (by norm_num) (by decide) (by decide)
    (by decide +kernel) _ rfl (by decide) 13 (by norm_num)

/-- **`nttIndex_perm_ci`**: on the conjugate-invariant ring (`NthRoot = 4N = 2^(K+2)`) the table
    `AutomorphismNTTIndex(N, 4N, g)` is a permutation of `[0, N)` for every `g ≡ 1 (mod 4)` — every rotation
    element `5^k`.  (For `g ≡ 3 mod 4` entries leave `[0, N)`: there is no order-two element on this ring.) -/
theorem nttIndex_perm_ci (K : ℕ) (hK : K + 2 ≤ 64) (g : ℕ) (hg : g % 4 = 1) :
    ∃ l, automorphismNTTIndex (2 ^ K) (2 ^ (K + 2)) g = some l ∧ l.length = 2 ^ K ∧
      l.Nodup ∧ ∀ x ∈ l, x < 2 ^ K :=
  Proofs.RotateSlots.nttIndex_perm_ci K hK g hg

example : automorphismNTTIndex 4 16 5 = some [2, 3, 1, 0] := by decide +kernel

/-- `GaloisElement(k)` on the conjugate-invariant ring is `≡ 1 (mod 4)`: the theorem applies to every rotation. -/
example (K : ℕ) (hK : K + 2 ≤ 64) (k : ℤ) : galEl (2 ^ (K + 2)) k % 4 = 1 :=
  galEl_mod_four (K + 2) (by omega) hK k

/-- position `t` of the conjugate-invariant NTT (`ring.NTT`, model `NTT.nttCI`, generated tables, any
    NTT-friendly prime with `4N | q−1`) is the value of `a_0 + Σ_{m≥1} a_m (X^m + X^{−m})` at
    `x_t = ψ^(2·brv_{K+1}(t)+1)`, `ψ = g₀^((q−1)/4N)` a primitive `4N`-th root of unity. -/
theorem nttCI_entry (K q g₀ : ℕ) (hq : q.Prime) (h8 : 8 * q ≤ W) (hdiv : 2 ^ (K + 2) ∣ q - 1)
    (hg₀ : g₀ ^ ((q - 1) / 2) % q = q - 1) (a : List ℕ) (hlen : a.length = 2 ^ K) (ha : ∀ x ∈ a, x < q)
    (t : ℕ) (ht : t < 2 ^ K) :
    haveI : Fact q.Prime := ⟨hq⟩
    (((NTT.nttCI (NTT.mkTables (2 ^ K) q (2 ^ (K + 2)) g₀) a).getD t 0 : ℕ) : ZMod q)
      = evalCI (a.map (Nat.cast : ℕ → ZMod q))
          ((((g₀ : ℕ) : ZMod q) ^ ((q - 1) / 2 ^ (K + 2))) ^ (2 * NTT.bitRev t (K + 1) + 1)) :=
  Proofs.RotateSlots.nttCI_entry K q g₀ hq h8 hdiv hg₀ a hlen ha t ht

/-- **`AutomorphismNTT` on the conjugate-invariant transform.**  `AutomorphismNTTWithIndex` writes
    `out[i] = in[index[i]]`, `index = AutomorphismNTTIndex(N, 4N, g)`.  For every `g ≡ 1 (mod 4)` and `i < N`,
    `index[i] < N` and `in[index[i]]` is the value of the polynomial at `x_i^g`: the index permutation is
    `X ↦ X^g` on `Z[X+X⁻¹]/(X^{2N}+1)` in the evaluation domain. -/
theorem automorphismNTT_ci (K q g₀ : ℕ) (hK : K + 2 ≤ 64) (hq : q.Prime) (h8 : 8 * q ≤ W)
    (hdiv : 2 ^ (K + 2) ∣ q - 1) (hg₀ : g₀ ^ ((q - 1) / 2) % q = q - 1) (a : List ℕ) (hlen : a.length = 2 ^ K)
    (ha : ∀ x ∈ a, x < q) (g : ℕ) (hg : g % 4 = 1) (i : ℕ) (hi : i < 2 ^ K) :
    haveI : Fact q.Prime := ⟨hq⟩
    nttIndexAt (2 ^ (K + 2)) g i < 2 ^ K ∧
    (((NTT.nttCI (NTT.mkTables (2 ^ K) q (2 ^ (K + 2)) g₀) a).getD (nttIndexAt (2 ^ (K + 2)) g i) 0 : ℕ) : ZMod q)
      = evalCI (a.map (Nat.cast : ℕ → ZMod q))
          (((((g₀ : ℕ) : ZMod q) ^ ((q - 1) / 2 ^ (K + 2))) ^ (2 * NTT.bitRev i (K + 1) + 1)) ^ g) :=
  Proofs.RotateSlots.automorphismNTT_ci K q g₀ hK hq h8 hdiv hg₀ a hlen ha g hg i hi

/-- non-vacuity: `q = 65537` (`16 | q−1`), `N = 4`, `g₀ = 3`, `g = 5`, position `i = 2`. -/
example :
    haveI : Fact (Nat.Prime 65537) := ⟨by norm_num⟩
    nttIndexAt 16 5 2 < 4 ∧
    (((NTT.nttCI (NTT.mkTables 4 65537 16 3) [1, 2, 3, 65536]).getD (nttIndexAt 16 5 2) 0 : ℕ) : ZMod 65537)
      = evalCI ([1, 2, 3, 65536].map (Nat.cast : ℕ → ZMod 65537))
          (((((3 : ℕ) : ZMod 65537) ^ ((65537 - 1) / 2 ^ (2 + 2))) ^ (2 * NTT.bitRev 2 (2 + 1) + 1)) ^ 5) :=
  automorphismNTT_ci 2 65537 3 (by norm_num) (by norm_num) (by decide) (by decide) (by decide +kernel)
    [1, 2, 3, 65536] rfl (by decide) 5 (by norm_num) 2 (by norm_num)

/-- **ciphertext level (evaluation domain), up to the key-switch noise.**  Ciphertext components as
    slot vectors `(ZMod 2N)ˣ → R`; `Automorphism(ct, g) = (σ(ks.1 + c0), σ ks.2)` (C04's model) with
    `σ = slotPerm g` the index permutation of `automorphismNTT_spec`.  Under the key-switch hypothesis
    `hks` (what Galois-key generation and the gadget product provide: C04/C08), for
    `g = GaloisElement(k) = 5^k` the decrypted slot `j` of either row of `Rotate(ct, k)` is the
    decrypted slot `(j + k) mod N/2` of the same row of `ct` plus the key-switch noise at that slot. -/
theorem rotate_slots_ciphertext {R : Type} [CommRing R] {t : ℕ} (k : ℤ)
    (ks ct : ((ZMod (2 ^ (t + 3)))ˣ → R) × ((ZMod (2 ^ (t + 3)))ˣ → R))
    (s ν : (ZMod (2 ^ (t + 3)))ˣ → R)
    (hks : KS.phase ks (slotPerm (five (t + 3) ^ k)⁻¹ s) = ct.2 * s + ν) (j : ℕ) (sgn : Bool) :
    let pt := fun (i : ℕ) => if sgn then -(five (t + 3) ^ i) else five (t + 3) ^ i
    KS.phase (KS.automorphism (slotPerm (five (t + 3) ^ k)) ks ct) s (pt j)
      = KS.phase ct s (pt (((j : ℤ) + k) % ((2 ^ (t + 1) : ℕ) : ℤ)).toNat)
        + ν (pt (((j : ℤ) + k) % ((2 ^ (t + 1) : ℕ) : ℤ)).toNat) :=
  rotate_ciphertext_slots k ks ct s ν hks j sgn

/-- non-vacuity: for any `ks`, `ct`, `s` the hypothesis holds with `ν` := the actual key-switch error. -/
example (ks ct : ((ZMod 8)ˣ → ZMod 17) × ((ZMod 8)ˣ → ZMod 17)) (s : (ZMod 8)ˣ → ZMod 17) :
    KS.phase ks (slotPerm (five 3 ^ (2 : ℤ))⁻¹ s)
      = ct.2 * s + (KS.phase ks (slotPerm (five 3 ^ (2 : ℤ))⁻¹ s) - ct.2 * s) := by ring

/-- same for the order-two element and for any other unit `g`: slot `u` ↦ slot `u·g`. -/
theorem automorphism_slots_ciphertext {R : Type} [CommRing R] {M : ℕ} (g : (ZMod M)ˣ)
    (ks ct : ((ZMod M)ˣ → R) × ((ZMod M)ˣ → R)) (s ν : (ZMod M)ˣ → R)
    (hks : KS.phase ks (slotPerm g⁻¹ s) = ct.2 * s + ν) (u : (ZMod M)ˣ) :
    KS.phase (KS.automorphism (slotPerm g) ks ct) s u = KS.phase ct s (u * g) + ν (u * g) :=
  automorphism_slots g ks ct s ν hks u

end RotateSlots

/-! ## 5. the executable slot carrier `slotOps` is lawful -/

section SlotLawful
open Lattigo.Proofs.SlotLawful

/-- the evaluation vectors (`f : ZMod nthRoot → ZMod t × ZMod t`, `f(-u) = τ(f u)`, `aut g f = f(·g)`)
    are a lawful carrier, for every layout, every `nthRoot = 2^(e+3)`, every modulus `t`. -/
theorem slot_carrier_lawful (lay : Layout) (e t : ℕ) : Lawful (evOps lay e t) (2 ^ (e + 3)) :=
  evOps_lawful lay e t

/-- reading an evaluation vector at `±5^j` is a homomorphism onto the executable `slotOps`, for `add`,
    `scaleInv` and `aut g`, `g = GaloisElement(k)` or `nthRoot-1` (`GoodG`); CKKS layout with plain
    integer entries (`t = 0`, as the driver runs it). -/
theorem slot_hom (lay : Layout) (e t : ℕ) (he : e + 3 ≤ 64) (hck : lay = .ckks → t = 0) :
    Sim (evOps lay e t) (slotOps lay (2 ^ (e + 3)) t) (toSlots lay e t) (GoodG lay e) :=
  sim_slots lay e t he hck

/-- … and it is onto the well-formed slot vectors. -/
theorem slots_surjective (lay : Layout) (e t : ℕ) (he : e + 3 ≤ 64) (v : List Int)
    (hv : SlotVec lay e t v) : toSlots lay e t (ofSlots lay e t v) = v :=
  toSlots_ofSlots lay e t he v hv

/-- **the laws of `Lawful` hold for `slotOps` on well-formed slot vectors**: closure,
    `rot a ∘ rot b = rot (a+b)`, `rot 0 = id`, additivity of every Galois element used. -/
theorem slotOps_lawful (lay : Layout) (e t : ℕ) (he : e + 3 ≤ 64) (hck : lay = .ckks → t = 0)
    (v w : List Int) (hv : SlotVec lay e t v) (hw : SlotVec lay e t w) :
    SlotVec lay e t ((slotOps lay (2 ^ (e + 3)) t).add v w)
    ∧ (∀ g, GoodG lay e g → SlotVec lay e t (slotAut lay (2 ^ (e + 3)) g v))
    ∧ (∀ a b : ℤ, slotAut lay (2 ^ (e + 3)) (galEl (2 ^ (e + 3)) a)
          (slotAut lay (2 ^ (e + 3)) (galEl (2 ^ (e + 3)) b) v)
        = slotAut lay (2 ^ (e + 3)) (galEl (2 ^ (e + 3)) (a + b)) v)
    ∧ slotAut lay (2 ^ (e + 3)) (galEl (2 ^ (e + 3)) 0) v = v
    ∧ (∀ g, GoodG lay e g → slotAut lay (2 ^ (e + 3)) g ((slotOps lay (2 ^ (e + 3)) t).add v w)
        = (slotOps lay (2 ^ (e + 3)) t).add (slotAut lay (2 ^ (e + 3)) g v) (slotAut lay (2 ^ (e + 3)) g w)) :=
  ⟨slotVec_add lay e t he hck v w hv hw,
   fun g hg => slotVec_aut lay e t he hck g hg v hv,
   fun a b => slotOps_rot_add lay e t he hck a b v hv,
   slotOps_rot_zero lay e t he hck v hv,
   fun g hg => slotOps_aut_add lay e t he hck g hg v w hv hw⟩

/-- the order-two element on slot vectors: an involution commuting with the rotations. -/
theorem slotOps_orderTwo (lay : Layout) (e t : ℕ) (he : e + 3 ≤ 64) (hlay : lay ≠ .single)
    (hck : lay = .ckks → t = 0) (v : List Int) (hv : SlotVec lay e t v) (k : ℤ) :
    slotAut lay (2 ^ (e + 3)) (2 ^ (e + 3) - 1) (slotAut lay (2 ^ (e + 3)) (2 ^ (e + 3) - 1) v) = v
    ∧ slotAut lay (2 ^ (e + 3)) (2 ^ (e + 3) - 1) (slotAut lay (2 ^ (e + 3)) (galEl (2 ^ (e + 3)) k) v)
        = slotAut lay (2 ^ (e + 3)) (galEl (2 ^ (e + 3)) k) (slotAut lay (2 ^ (e + 3)) (2 ^ (e + 3) - 1) v) :=
  Proofs.SlotLawful.slotOps_orderTwo lay e t he hlay hck v hv k

/-- `slotAut` of a rotation, explicitly: both rows rotated left by `k mod N/2` (one row for `.single`). -/
theorem slotAut_rotation (lay : Layout) (e : ℕ) (he : e + 3 ≤ 64) (k : ℤ) :
    (∀ v : List Int, slotAut .single (2 ^ (e + 3)) (galEl (2 ^ (e + 3)) k) v = rotL (kmod e k) v)
    ∧ (lay ≠ .single → ∀ r0 r1 : List Int, r0.length = r1.length →
        slotAut lay (2 ^ (e + 3)) (galEl (2 ^ (e + 3)) k) (r0 ++ r1)
          = rotL (kmod e k) r0 ++ rotL (kmod e k) r1) :=
  ⟨fun v => slotAut_galEl_single e he k v, fun hl r0 r1 h => slotAut_galEl_rows lay hl e he k r0 r1 h⟩

example : slotAut .bgv 32 (galEl 32 (-1)) [1, 2, 3, 4, 5, 6, 7, 8, 11, 12, 13, 14, 15, 16, 17, 18]
    = [8, 1, 2, 3, 4, 5, 6, 7, 18, 11, 12, 13, 14, 15, 16, 17] := by decide +kernel

/-- `slotAut` of the order-two element, explicitly. -/
theorem slotAut_orderTwo (e : ℕ) (he : e + 3 ≤ 64) (r0 r1 : List Int) (h : r0.length = r1.length) :
    slotAut .bgv (2 ^ (e + 3)) (2 ^ (e + 3) - 1) (r0 ++ r1) = r1 ++ r0
    ∧ slotAut .ckks (2 ^ (e + 3)) (2 ^ (e + 3) - 1) (r0 ++ r1) = r0 ++ r1.map (fun x => -x) :=
  ⟨slotAut_orderTwo_bgv e he r0 r1 h, slotAut_orderTwo_ckks e he r0 r1 h⟩

/-- entry `i` of a slot-level sum is the sum of the entries, reduced mod `t` (`t = 0`: not reduced). -/
theorem slotSum_entries (lay : Layout) (e t n : ℕ) (F : ℕ → List Int)
    (hF : ∀ r < n, (F r).length = (if lay = .single then 2 ^ (e + 1) else 2 * 2 ^ (e + 1))) :
    (slotSum lay e t n F).length = (if lay = .single then 2 ^ (e + 1) else 2 * 2 ^ (e + 1)) ∧
    ∀ i, i < (if lay = .single then 2 ^ (e + 1) else 2 * 2 ^ (e + 1)) →
      (slotSum lay e t n F).getD i 0 = red t (∑ r ∈ range n, (F r).getD i 0) :=
  slotSum_spec lay e t n F hF

/-- **`innerSum_spec` for the executable slot vectors — no `Lawful` hypothesis.**
    `nthRoot = 2^(e+3)`, rows of `2^(e+1)` slots. -/
theorem innerSum_spec_slots (lay : Layout) (e t : ℕ) (he : e + 3 ≤ 64) (hck : lay = .ckks → t = 0)
    (v out0 acc0 : List Int) (hv : SlotVec lay e t v) (hout : SlotVec lay e t out0)
    (hacc : SlotVec lay e t acc0) (offset n : ℤ) (hn : 1 ≤ n) (hn63 : n < 9223372036854775808)
    (hoff : offset ≠ 0) :
    (partialTracesSum (slotOps lay (2 ^ (e + 3)) t) (2 ^ (e + 3)) true v out0 acc0 offset n).val?
      = some (slotSum lay e t n.toNat
          (fun r => slotAut lay (2 ^ (e + 3)) (galEl (2 ^ (e + 3)) ((r : ℤ) * offset)) v)) :=
  Proofs.SlotLawful.innerSum_spec_slots lay e t he hck v out0 acc0 hv hout hacc offset n hn hn63 hoff

/-- non-vacuity: BGV layout, `nthRoot = 32`, `t = 97`, dirty (but well-formed) buffers. -/
example :
    (partialTracesSum (slotOps .bgv 32 97) 32 true
        [1, 2, 3, 4, 5, 6, 7, 8, 11, 12, 13, 14, 15, 16, 17, 96]
        [9, 9, 9, 9, 9, 9, 9, 9, 9, 9, 9, 9, 9, 9, 9, 9] [5, 5, 5, 5, 5, 5, 5, 5, 5, 5, 5, 5, 5, 5, 5, 5]
        (-3) 7).val?
      = some (slotSum .bgv 2 97 7 (fun r => slotAut .bgv 32 (galEl 32 ((r : ℤ) * (-3)))
          [1, 2, 3, 4, 5, 6, 7, 8, 11, 12, 13, 14, 15, 16, 17, 96])) :=
  innerSum_spec_slots .bgv 2 97 (by norm_num) (by simp) _ _ _ ⟨by decide, fun _ => by decide⟩
    ⟨by decide, fun _ => by decide⟩ ⟨by decide, fun _ => by decide⟩ (-3) 7 (by norm_num) (by norm_num)
    (by norm_num)

theorem innerFunction_spec_slots (lay : Layout) (e t : ℕ) (he : e + 3 ≤ 64) (hck : lay = .ckks → t = 0)
    (v out0 acc0 : List Int) (hv : SlotVec lay e t v) (hout : SlotVec lay e t out0)
    (hacc : SlotVec lay e t acc0) (batch n : ℤ) (hn : 1 ≤ n) (hn63 : n < 9223372036854775808) :
    (innerFunction (slotOps lay (2 ^ (e + 3)) t) (slotOps lay (2 ^ (e + 3)) t).add (2 ^ (e + 3))
        v out0 acc0 batch n).val?
      = some (slotSum lay e t n.toNat
          (fun r => slotAut lay (2 ^ (e + 3)) (galEl (2 ^ (e + 3)) ((r : ℤ) * batch)) v)) :=
  Proofs.SlotLawful.innerFunction_spec_slots lay e t he hck v out0 acc0 hv hout hacc batch n hn hn63

theorem replicate_spec_slots (lay : Layout) (e t : ℕ) (he : e + 3 ≤ 64) (hck : lay = .ckks → t = 0)
    (v out0 acc0 : List Int) (hv : SlotVec lay e t v) (hout : SlotVec lay e t out0)
    (hacc : SlotVec lay e t acc0) (batch n : ℤ) (hn : 1 ≤ n) (hb : batch ≠ 0)
    (hsmall : n * |batch| < 9223372036854775808) :
    (replicate (slotOps lay (2 ^ (e + 3)) t) (2 ^ (e + 3)) true v out0 acc0 batch n).val?
      = some (slotSum lay e t n.toNat
          (fun r => slotAut lay (2 ^ (e + 3)) (galEl (2 ^ (e + 3)) (-((r : ℤ) * batch))) v)) :=
  Proofs.SlotLawful.replicate_spec_slots lay e t he hck v out0 acc0 hv hout hacc batch n hn hb hsmall

theorem innerSumCKKS_spec_slots (lay : Layout) (e t : ℕ) (he : e + 3 ≤ 64) (hck : lay = .ckks → t = 0)
    (slots : ℕ) (v out0 acc0 : List Int) (hv : SlotVec lay e t v) (hout : SlotVec lay e t out0)
    (hacc : SlotVec lay e t acc0) (batch n : ℤ) (hn : 0 < n) (hb : 0 < batch)
    (hnb : n * batch < 9223372036854775808) :
    ∀ y, (innerSumCKKS (slotOps lay (2 ^ (e + 3)) t) (2 ^ (e + 3)) slots true v out0 acc0 batch n).val? = some y →
      y = slotSum lay e t n.toNat
          (fun r => slotAut lay (2 ^ (e + 3)) (galEl (2 ^ (e + 3)) ((r : ℤ) * batch)) v) :=
  Proofs.SlotLawful.innerSumCKKS_spec_slots lay e t he hck slots v out0 acc0 hv hout hacc batch n hn hb hnb

/-- non-vacuity: CKKS layout (`re ++ im`, plain integers), `(batch, n) = (2, 4)` on 8 slots accepted. -/
example : ((innerSumCKKS (slotOps .ckks 32 0) 32 8 true
    [1, 2, 3, 4, 5, 6, 7, 8, -1, -2, -3, -4, -5, -6, -7, -8]
    (List.replicate 16 0) (List.replicate 16 0) 2 4).val?).isSome = true := by decide +kernel

theorem innerSumBGV_spec_slots (lay : Layout) (e t : ℕ) (he : e + 3 ≤ 64) (hlay : lay ≠ .single)
    (hck : lay = .ckks → t = 0) (slots : ℕ) (v out0 acc0 : List Int) (hv : SlotVec lay e t v)
    (hout : SlotVec lay e t out0) (hacc : SlotVec lay e t acc0) (batch n : ℤ) (hn : 0 < n)
    (hb : 0 < batch) (hnb : n * batch < 9223372036854775808) :
    ∀ y, (innerSumBGV (slotOps lay (2 ^ (e + 3)) t) (2 ^ (e + 3)) slots true v out0 acc0 batch n).val? = some y →
      y = if n * batch = slots ∧ n ≠ 1 then
            (let u := slotSum lay e t (n / 2).toNat
                (fun r => slotAut lay (2 ^ (e + 3)) (galEl (2 ^ (e + 3)) ((r : ℤ) * batch)) v)
             (slotOps lay (2 ^ (e + 3)) t).add u (slotAut lay (2 ^ (e + 3)) (2 ^ (e + 3) - 1) u))
          else slotSum lay e t n.toNat
            (fun r => slotAut lay (2 ^ (e + 3)) (galEl (2 ^ (e + 3)) ((r : ℤ) * batch)) v) :=
  Proofs.SlotLawful.innerSumBGV_spec_slots lay e t he hlay hck slots v out0 acc0 hv hout hacc batch n hn hb hnb

/-- non-vacuity: the boundary `n·batch = slots` (`(2, 8)` on 16 slots, `nthRoot = 32`) is accepted. -/
example : ((innerSumBGV (slotOps .bgv 32 97) 32 16 true
    [1, 2, 3, 4, 5, 6, 7, 8, 11, 12, 13, 14, 15, 16, 17, 96]
    (List.replicate 16 0) (List.replicate 16 0) 2 8).val?).isSome = true := by decide +kernel

theorem trace_spec_standard_slots (lay : Layout) (e t : ℕ) (he : e + 3 ≤ 63) (hlay : lay ≠ .single)
    (hck : lay = .ckks → t = 0) (v : List Int) (hv : SlotVec lay e t v) (logN : ℕ) (h0 : 0 < logN)
    (hlt : logN + 1 < e + 2) :
    (trace (slotOps lay (2 ^ (e + 3)) t) .standard (e + 2) v (logN : ℤ)).val?
      = some (slotSum lay e t (2 ^ (e + 2 - 1 - logN))
          (fun j => slotAut lay (2 ^ (e + 3)) (galEl (2 ^ (e + 3)) ((j : ℤ) * ((2 ^ logN : ℕ) : ℤ)))
            ((slotOps lay (2 ^ (e + 3)) t).scaleInv (2 ^ (e + 2 - 1 - logN)) v))) :=
  Proofs.SlotLawful.trace_spec_standard_slots lay e t he hlay hck v hv logN h0 hlt

/-- non-vacuity: standard ring of degree 16 (`e = 2`), `logN = 1`. -/
example : (trace (slotOps .bgv 32 97) .standard 4
      [1, 2, 3, 4, 5, 6, 7, 8, 11, 12, 13, 14, 15, 16, 17, 96] 1).val?
    = some (slotSum .bgv 2 97 4 (fun j => slotAut .bgv 32 (galEl 32 ((j : ℤ) * ((2 ^ 1 : ℕ) : ℤ)))
        ((slotOps .bgv 32 97).scaleInv 4 [1, 2, 3, 4, 5, 6, 7, 8, 11, 12, 13, 14, 15, 16, 17, 96]))) :=
  trace_spec_standard_slots .bgv 2 97 (by norm_num) (by decide) (by simp) _
    ⟨by decide, fun _ => by decide⟩ 1 (by norm_num) (by norm_num)

theorem trace_spec_ci_slots (lay : Layout) (e t : ℕ) (he : e + 3 ≤ 64) (hck : lay = .ckks → t = 0)
    (v : List Int) (hv : SlotVec lay e t v) (logN : ℕ) (hlt : logN < e + 1) :
    (trace (slotOps lay (2 ^ (e + 3)) t) .conjugateInvariant (e + 1) v (logN : ℤ)).val?
      = some (slotSum lay e t (2 ^ (e + 1 - logN))
          (fun j => slotAut lay (2 ^ (e + 3)) (galEl (2 ^ (e + 3)) ((j : ℤ) * ((2 ^ logN : ℕ) : ℤ)))
            ((slotOps lay (2 ^ (e + 3)) t).scaleInv (2 ^ (e + 1 - logN)) v))) :=
  Proofs.SlotLawful.trace_spec_ci_slots lay e t he hck v hv logN hlt

/-- non-vacuity: the conjugate-invariant example of §2 (degree 16, `nthRoot = 64`, `e = 3`). -/
example : SlotVec .single 3 0 [4,8,12,16,20,24,28,32,36,40,44,48,52,56,60,64] :=
  ⟨by decide, fun h => absurd rfl h⟩

theorem trace_spec_zero_standard_slots (lay : Layout) (e t : ℕ) (he : e + 3 ≤ 63) (hlay : lay ≠ .single)
    (hck : lay = .ckks → t = 0) (v : List Int) (hv : SlotVec lay e t v) :
    (trace (slotOps lay (2 ^ (e + 3)) t) .standard (e + 2) v 0).val?
      = some (let u := slotSum lay e t (2 ^ (e + 2 - 1))
                (fun j => slotAut lay (2 ^ (e + 3)) (galEl (2 ^ (e + 3)) ((j : ℤ) * ((2 ^ 0 : ℕ) : ℤ)))
                  ((slotOps lay (2 ^ (e + 3)) t).scaleInv (2 ^ (e + 2)) v))
              (slotOps lay (2 ^ (e + 3)) t).add u (slotAut lay (2 ^ (e + 3)) (2 ^ (e + 3) - 1) u)) :=
  Proofs.SlotLawful.trace_spec_zero_standard_slots lay e t he hlay hck v hv

end SlotLawful

/-! ## 6. hoisted-lazy rotation: the factor of the key's own auxiliary level -/

section HoistedLazy
open Lattigo.Proofs.HoistedLazy Lattigo.RPolyRing Lattigo.Transport Lattigo.StackKS

/-- **every factor.**  `AutomorphismHoistedLazy` adds `F·c0` to the Q rows of the undivided gadget product
    `x ∈ R_{Q·P_key}` (`ps` = the auxiliary primes of the KEY, `evk.LevelP()`); the caller's `ModDown` by
    `P_key = Π ps` then yields `ModDown(x) + (F·c0)·P_key⁻¹`.  All well-formed `x`, `c0`, all `F`. -/
theorem hoistedLazy_any_factor {qs ps : List ℕ} {n : ℕ} [Good qs n] [Good (qs ++ ps) n] (hqs : qs ≠ [])
    (hps : ps ≠ []) (F : ℕ) {x c0 : RPoly} (hx : WFq (qs ++ ps) n x) (hc : WFq qs n c0) :
    KS.modDownR qs.length (x + scaleQRows F ps c0)
      = KS.modDownR qs.length x + c0.scale F * KS.pinvElt qs ps n :=
  modDown_add_scaleQRows hqs hps F hx hc

/-- **`F = P_key`** (the code at HEAD: `ringP.ModulusAtLevel[evk.LevelP()]`; the model's `KS.scaleByP ps`,
    which the driver of C04 executes): the lazy path returns `ModDown(x) + c0` — exactly what the non-lazy
    `AutomorphismHoisted` computes before applying `σ`. -/
theorem hoistedLazy_P_factor {qs ps : List ℕ} {n : ℕ} [Good qs n] [Good (qs ++ ps) n] (hqs : qs ≠ [])
    (hps : ps ≠ []) (hcop : ∀ q ∈ qs, Nat.Coprime (RPoly.prod ps) q) {x c0 : RPoly}
    (hx : WFq (qs ++ ps) n x) (hc : WFq qs n c0) :
    KS.modDownR qs.length (x + KS.scaleByP ps c0) = KS.modDownR qs.length x + c0 :=
  modDown_add_scaleByP hqs hps hcop hx hc

/-- **`F = P_key·P'`** (the seeded regression: `params.PBigInt()`, the product of ALL auxiliary primes, with a
    Galois key generated at a lower `LevelP`; `P'` = the product of the primes the key does not have): the result
    contains `P'·c0` instead of `c0`. -/
theorem hoistedLazy_wrong_factor {qs ps : List ℕ} {n : ℕ} [Good qs n] [Good (qs ++ ps) n] (hqs : qs ≠ [])
    (hps : ps ≠ []) (hcop : ∀ q ∈ qs, Nat.Coprime (RPoly.prod ps) q) (P' : ℕ) {x c0 : RPoly}
    (hx : WFq (qs ++ ps) n x) (hc : WFq qs n c0) :
    KS.modDownR qs.length (x + scaleQRows (RPoly.prod ps * P') ps c0)
      = KS.modDownR qs.length x + c0.scale P' :=
  modDown_add_scaleQRows_mul hqs hps hcop P' hx hc

/-- **lazy + `ModDown` = hoisted**, with the automorphism: `AutomorphismHoistedLazy` followed by `ModDown` of both
    components is `Automorphism{,Hoisted}` applied to the `ModDown`-ed gadget product, provided `ModDown` commutes
    with `σ` on the two polynomials at hand (`h0`, `h1`; `σ'` = `σ` at level `Q`). -/
theorem hoistedLazy_eq_hoisted {qs ps : List ℕ} {n : ℕ} [Good qs n] [Good (qs ++ ps) n] (hqs : qs ≠ [])
    (hps : ps ≠ []) (hcop : ∀ q ∈ qs, Nat.Coprime (RPoly.prod ps) q) (σ σ' : RPoly → RPoly) {x0 x1 c0 : RPoly}
    (hx0 : WFq (qs ++ ps) n x0) (hc : WFq qs n c0)
    (h0 : KS.modDownR qs.length (σ (x0 + KS.scaleByP ps c0)) = σ' (KS.modDownR qs.length (x0 + KS.scaleByP ps c0)))
    (h1 : KS.modDownR qs.length (σ x1) = σ' (KS.modDownR qs.length x1)) :
    (let r := KS.automorphismHoistedLazy σ (x0, x1) (KS.scaleByP ps c0)
     (KS.modDownR qs.length r.1, KS.modDownR qs.length r.2))
      = KS.automorphism σ' (KS.modDownR qs.length x0, KS.modDownR qs.length x1) (c0, c0) :=
  hoistedLazy_modDown hqs hps hcop σ σ' hx0 hc h0 h1

/-! non-vacuity: `Q = 97·193`, `P_key = 257`, `n = 8` -/

instance goodQ8 : Good [97, 193] 8 := ⟨by decide, by decide⟩
instance goodQP8 : Good ([97, 193] ++ [257]) 8 := ⟨by decide, by decide⟩

def xQP8 : RPoly := RPoly.ofInts ([97, 193] ++ [257]) [1000, -2000, 3000, 4, 5, -6, 70000, 8]
def c0Q8 : RPoly := RPoly.ofInts [97, 193] [1, 2, 3, 4, 5, 6, 7, -8]

theorem wf8 : WFq ([97, 193] ++ [257]) 8 xQP8 ∧ WFq [97, 193] 8 c0Q8 :=
  ⟨ofInts_wf _ rfl, ofInts_wf _ rfl⟩

example : KS.modDownR 2 (xQP8 + KS.scaleByP [257] c0Q8) = KS.modDownR 2 xQP8 + c0Q8 :=
  hoistedLazy_P_factor (qs := [97, 193]) (by decide) (by decide) (by decide) wf8.1 wf8.2

/-- with the second auxiliary prime `769` of the parameters wrongly included the result is off by the factor `769`,
    and `769·c0 ≠ c0` here. -/
example : KS.modDownR 2 (xQP8 + scaleQRows (RPoly.prod [257] * 769) [257] c0Q8)
      = KS.modDownR 2 xQP8 + c0Q8.scale 769 ∧ c0Q8.scale 769 ≠ c0Q8 :=
  ⟨hoistedLazy_wrong_factor (qs := [97, 193]) (by decide) (by decide) (by decide) 769 wf8.1 wf8.2, by decide⟩

/-- `hoistedLazy_eq_hoisted` with `σ = σ' = id` (the hypotheses `h0 h1` hold by `rfl`); for `σ = aut g` they are
    probed bit-exactly on the real code (`keylevel_lazy_eq_hoisted`). -/
example :
    (let r := KS.automorphismHoistedLazy id (xQP8, xQP8) (KS.scaleByP [257] c0Q8)
     (KS.modDownR 2 r.1, KS.modDownR 2 r.2))
      = KS.automorphism id (KS.modDownR 2 xQP8, KS.modDownR 2 xQP8) (c0Q8, c0Q8) :=
  hoistedLazy_eq_hoisted (qs := [97, 193]) (by decide) (by decide) (by decide) id id wf8.1 wf8.2 rfl rfl

end HoistedLazy

end Lattigo.Props.C11

section Axioms
open Lattigo.Props.C11
#print axioms orderOf_five
#print axioms galEl_eq
#print axioms galEl_add
#print axioms galEl_add_wrap
#print axioms galEl_mod_slots
#print axioms galEl_eq_iff
#print axioms modInv_spec
#print axioms modInv_galEl
#print axioms dlog_galEl
#print axioms galEl_dlog
#print axioms nttIndex_perm
#print axioms dlog_diverges_small
#print axioms orderTwo_spec
#print axioms innerSum_spec
#print axioms partialTracesSum_nonpositive_rejected
#print axioms partialTracesSum_noP_rejected
#print axioms innerFunction_spec
#print axioms innerFunction_nonpositive_rejected
#print axioms replicate_spec
#print axioms innerSumCKKS_spec
#print axioms innerSumBGV_spec
#print axioms trace_spec_standard
#print axioms trace_spec_ci
#print axioms trace_spec_zero_standard
#print axioms trace_spec_top
#print axioms trace_rejected
#print axioms keys_sufficient_partialTracesSum
#print axioms keys_sufficient_innerFunction
#print axioms keys_sufficient_replicate
#print axioms keys_sufficient_innerSumCKKS
#print axioms keys_sufficient_innerSumBGV
#print axioms keys_sufficient_replicateBGV
#print axioms keys_sufficient_trace
#print axioms keys_sufficient_rotate
#print axioms keys_sufficient_rotateHoisted
#print axioms rotateHoisted_noP_rejected
#print axioms sigma_eval
#print axioms rowAut_is_sigma
#print axioms rotate_slots
#print axioms rotate_slots_row1
#print axioms orderTwo_swaps_rows
#print axioms orderTwo_conjugates
#print axioms orderTwo_conjugates_complex
#print axioms sigma_comp
#print axioms plainOK_65537
#print axioms rotate_slots_bgv
#print axioms rotateRows_bgv
#print axioms rotate_decode
#print axioms rotateRows_decode
#print axioms automorphismNTT_spec
#print axioms nttIndex_perm_ci
#print axioms nttCI_entry
#print axioms automorphismNTT_ci
#print axioms rotate_slots_ciphertext
#print axioms automorphism_slots_ciphertext
#print axioms slot_carrier_lawful
#print axioms slot_hom
#print axioms slots_surjective
#print axioms slotOps_lawful
#print axioms slotOps_orderTwo
#print axioms slotAut_rotation
#print axioms slotAut_orderTwo
#print axioms slotSum_entries
#print axioms innerSum_spec_slots
#print axioms innerFunction_spec_slots
#print axioms replicate_spec_slots
#print axioms innerSumCKKS_spec_slots
#print axioms innerSumBGV_spec_slots
#print axioms trace_spec_standard_slots
#print axioms trace_spec_ci_slots
#print axioms trace_spec_zero_standard_slots
#print axioms hoistedLazy_any_factor
#print axioms hoistedLazy_P_factor
#print axioms hoistedLazy_wrong_factor
#print axioms hoistedLazy_eq_hoisted
end Axioms
