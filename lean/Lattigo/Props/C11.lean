/-
  Property C11 — rotations and slot sums follow the Galois algebra; advertised key lists suffice.

  All theorems are about the executable model `Lattigo.Model.Galois` / `Lattigo.Model.InnerSum`
  (the definitions the driver runs and the harness ties to the real code), for all inputs.
  `nthRoot = 2^m` everywhere (`m = logN+1` standard ring, `logN+2` conjugate-invariant ring).

  What is proved
  * the Galois-element arithmetic of `core/rlwe/params.go`, including the fact that `5` has order
    `nthRoot/4` (proved, not assumed);
  * `PartialTracesSum`, `InnerFunction(Add)`, `Replicate`, `ckks/bgv InnerSum`, `RotateAndAdd`,
    `Trace` (both ring types) compute the documented sums of rotated inputs, over an arbitrary
    carrier on which `aut` is a lawful action (`Lawful`);
  * every key these operations look up is in the list advertised for the same arguments
    (all `(batch, n)`, no enumeration; bgv two-row list included).
  What is *not* proved here (checked on the real code by harness probes only): that the
  ciphertext-level `Automorphism` is such a lawful action up to noise and that on encoded
  plaintexts it is the cyclic slot rotation (DESIGN §5.11 `rotate_slots`); `ring.BRed` inside
  `ModExp` is taken by its specification.
  The model follows the code *after* the fixes `/verif/fixes/C11-1 … C11-5` (conjugate-invariant
  `Trace`, error instead of a nil dereference without `P`, rejection of non-positive counts, zero
  test on the sub-vector index in `InnerFunction` / `PartialTracesSum`).  The statements that were
  counterexamples for the unfixed code are now positive theorems (`trace_spec_ci`,
  `innerSum_spec` without overflow hypothesis, `innerFunction_spec` for every `batchSize`,
  `…_rejected`).
-/
import Lattigo.Proofs.GaloisDlog
import Lattigo.Proofs.GaloisNTTIndex
import Lattigo.Proofs.InnerSumTrace
import Lattigo.Proofs.InnerSumSchemes

namespace Lattigo.Props.C11
open Lattigo Lattigo.Model.Galois Lattigo.Model.InnerSum
open Lattigo.Proofs.Galois Lattigo.Proofs.InnerSum
open Finset

/-! ## carriers used for the non-vacuity examples -/

/-- Evaluation vectors: `f j` is the value of a polynomial at `ζ^j` (`ζ` a primitive `N`-th root);
    the automorphism `X ↦ X^g` acts by `(σ_g f)(j) = f(j·g)`.  This is the true semantics of slots. -/
def evalOps (N : Nat) : Ops (ZMod N → Int) where
  add a b := a + b
  aut g f := fun j => f (j * (g : ZMod N))
  scaleInv _ f := f

theorem evalOps_lawful (N : Nat) : Lawful (evalOps N) N where
  add_eq _ _ := rfl
  aut_add _ _ _ := rfl
  aut_zero _ := rfl
  aut_one a := by funext j; simp [evalOps]
  aut_mul g h a := by
    funext j
    simp only [evalOps, ZMod.natCast_mod, Nat.cast_mul]
    rw [mul_assoc]

/-- the trivial action on `Int` (every automorphism is the identity): lawful, executable. -/
def trivOps : Ops Int where
  add a b := a + b
  aut _ x := x
  scaleInv _ x := x

theorem trivOps_lawful (N : Nat) : Lawful trivOps N where
  add_eq _ _ := rfl
  aut_add _ _ _ := rfl
  aut_zero _ := rfl
  aut_one _ := rfl
  aut_mul _ _ _ := rfl

/-! ## 1. Galois elements -/

/-- `5` has order `nthRoot/4` in `(ℤ/nthRoot)ˣ`, `nthRoot = 2^(t+3)`. -/
theorem orderOf_five (t : Nat) : orderOf (five (t + 3)) = 2 ^ (t + 1) :=
  Proofs.Galois.orderOf_five t

/-- `GaloisElement(k) = 5^(k mod nthRoot) mod nthRoot` for every Go `int` `k` (negative `k` go
    through `uint64(k) & (nthRoot-1)`). -/
theorem galEl_eq (m : Nat) (hm1 : 1 ≤ m) (hm : m ≤ 64) (k : Int) :
    galEl (2 ^ m) k = 5 ^ (k % ((2 ^ m : Nat) : Int)).toNat % 2 ^ m :=
  Proofs.Galois.galEl_eq m hm1 hm k

/-- element(a)·element(b) = element(a+b). -/
theorem galEl_add (m : Nat) (hm1 : 1 ≤ m) (hm : m ≤ 64) (a b : Int) :
    (galEl (2 ^ m) a * galEl (2 ^ m) b) % 2 ^ m = galEl (2 ^ m) (a + b) :=
  Proofs.Galois.galEl_add m hm1 hm a b

example : (galEl 32 (-3) * galEl 32 9223372036854775807) % 32 = galEl 32 (-3 + 9223372036854775807) :=
  galEl_add 5 (by norm_num) (by norm_num) _ _

/-- the sum may be formed in Go `int` arithmetic (wrapping): same element. -/
theorem galEl_add_wrap (m : Nat) (hm1 : 1 ≤ m) (hm : m ≤ 64) (a b : Int) :
    (galEl (2 ^ m) a * galEl (2 ^ m) b) % 2 ^ m = galEl (2 ^ m) (wrapInt (a + b)) := by
  rw [galEl_wrapInt]; exact Proofs.Galois.galEl_add m hm1 hm a b

/-- `k` and `k mod slots` coincide (`slots = nthRoot/4`). -/
theorem galEl_mod_slots (t : Nat) (ht : t + 3 ≤ 64) (k : Int) :
    galEl (2 ^ (t + 3)) k = galEl (2 ^ (t + 3)) (k % ((2 ^ (t + 1) : Nat) : Int)) :=
  Proofs.Galois.galEl_mod_slots t ht k

example : galEl 32 (-9223372036854775808) = galEl 32 ((-9223372036854775808) % ((2 ^ 3 : Nat) : Int)) :=
  galEl_mod_slots 2 (by norm_num) _

/-- … and nothing else coincides. -/
theorem galEl_eq_iff (t : Nat) (ht : t + 3 ≤ 64) (a b : Int) :
    galEl (2 ^ (t + 3)) a = galEl (2 ^ (t + 3)) b ↔ a ≡ b [ZMOD ((2 ^ (t + 1) : Nat) : Int)] :=
  Proofs.Galois.galEl_eq_iff t ht a b

/-- `g · ModInvGaloisElement(g) ≡ 1` for every odd `g`. -/
theorem modInv_spec (m : Nat) (hm1 : 1 ≤ m) (hm : m ≤ 64) (g : Nat) (hg : g % 2 = 1) :
    (g * modInv (2 ^ m) g) % 2 ^ m = 1 :=
  Proofs.Galois.modInv_spec m hm1 hm g hg

example : (31 * modInv 32 31) % 32 = 1 := modInv_spec 5 (by norm_num) (by norm_num) 31 (by norm_num)

/-- the inverse of element(k) is element(-k). -/
theorem modInv_galEl (m : Nat) (hm1 : 1 ≤ m) (hm : m ≤ 64) (k : Int) :
    modInv (2 ^ m) (galEl (2 ^ m) k) = galEl (2 ^ m) (-k) :=
  Proofs.Galois.modInv_galEl m hm1 hm k

/-- `SolveDiscreteLogGaloisElement(GaloisElement(k)) = k mod slots`: the bit-by-bit loop is
    correct for every `nthRoot = 2^(t+3)` up to `2^64`. -/
theorem dlog_galEl (t : Nat) (ht : t + 3 ≤ 64) (k : Int) :
    solveDiscreteLog (2 ^ (t + 3)) (galEl (2 ^ (t + 3)) k)
      = some (k % ((2 ^ (t + 1) : Nat) : Int)).toNat :=
  Proofs.Galois.dlog_galEl t ht k

example : solveDiscreteLog 32 (galEl 32 (-1)) = some 7 := by
  have := dlog_galEl 2 (by norm_num) (-1); simpa using this

/-- mutual inverse, other direction: on the image of `GaloisElement`,
    `GaloisElement(SolveDiscreteLogGaloisElement(g)) = g`. -/
theorem galEl_dlog (t : Nat) (ht : t + 3 ≤ 64) (k : Int) :
    ∃ d, solveDiscreteLog (2 ^ (t + 3)) (galEl (2 ^ (t + 3)) k) = some d ∧
      galEl (2 ^ (t + 3)) (d : Int) = galEl (2 ^ (t + 3)) k := by
  refine ⟨_, dlog_galEl t ht k, ?_⟩
  rw [galEl_mod_slots t ht k]
  congr 1
  have hpos : (0 : Int) < ((2 ^ (t + 1) : Nat) : Int) := by positivity
  have := Int.emod_nonneg k (by omega : ((2 ^ (t + 1) : Nat) : Int) ≠ 0)
  omega

/-- **`nttIndex_perm`**: `ring.AutomorphismNTTIndex(N, 2N, g)` is a permutation of `[0, N)` for
    every odd `g` (table of length `N`, no repetition, entries `< N`). -/
theorem nttIndex_perm (m : Nat) (hm1 : 1 ≤ m) (hm : m ≤ 64) (g : Nat) (hg : g % 2 = 1) :
    ∃ l, automorphismNTTIndex (2 ^ (m - 1)) (2 ^ m) g = some l ∧ l.length = 2 ^ (m - 1) ∧
      l.Nodup ∧ ∀ x ∈ l, x < 2 ^ (m - 1) :=
  Proofs.Galois.nttIndex_perm m hm1 hm g hg

example : automorphismNTTIndex 16 32 5 = some [4, 5, 6, 7, 3, 2, 0, 1, 14, 15, 13, 12, 8, 9, 10, 11] := by
  decide +kernel

/-- for `nthRoot < 8` the Go loop of `SolveDiscreteLogGaloisElement` never terminates
    (`x = N>>3 = 0`): the model runs out of fuel.  Not reachable (`MinLogN = 4`). -/
theorem dlog_diverges_small : solveDiscreteLog 4 1 = none := by decide +kernel

/-- the order-two element squares to one and is not a rotation. -/
theorem orderTwo_spec (m : Nat) (hm2 : 2 ≤ m) (hm : m ≤ 64) :
    ((2 ^ m - 1) * (2 ^ m - 1)) % 2 ^ m = 1 ∧ ∀ k : Int, galEl (2 ^ m) k ≠ 2 ^ m - 1 :=
  ⟨orderTwo_sq _ (by
      have : 2 ^ 2 ≤ 2 ^ m := Nat.pow_le_pow_right (by norm_num) hm2
      omega),
   orderTwo_not_rotation m hm2 hm⟩

/-! ## 2. rotate-and-accumulate sums -/

/-- **`innerSum_spec`.**  For every lawful carrier, every `offset ≠ 0` and every `n ≥ 1` (Go `int`s),
    on parameters with an auxiliary modulus, `PartialTracesSum(ct, offset, n)` (= `RotateAndAdd`) is
    `Σ_{r<n} rot(r·offset) ct`, independently of the stale contents of `opOut` and of the
    accumulator buffer, and however `r·offset` wraps in `int` arithmetic. -/
theorem innerSum_spec {α : Type} [AddCommMonoid α] {S : Ops α} {m : Nat}
    (hS : Lawful S (2 ^ m)) (hm1 : 1 ≤ m) (hm : m ≤ 64)
    (v out0 acc0 : α) (offset n : Int) (hn : 1 ≤ n) (hn63 : n < 9223372036854775808)
    (hoff : offset ≠ 0) :
    (partialTracesSum S (2 ^ m) true v out0 acc0 offset n).val?
      = some (∑ r ∈ range n.toNat, rot S (2 ^ m) ((r : Int) * offset) v) :=
  partialTracesSum_spec hS hm1 hm v out0 acc0 offset n hn hn63 hoff

/-- non-vacuity: `n = 7` (three set bits), `offset = -3`, on evaluation vectors mod 64. -/
example (v out0 acc0 : ZMod 64 → Int) :
    (partialTracesSum (evalOps 64) 64 true v out0 acc0 (-3) 7).val?
      = some (∑ r ∈ range 7, rot (evalOps 64) 64 ((r : Int) * (-3)) v) := by
  have := innerSum_spec (m := 6) (evalOps_lawful 64) (by norm_num) (by norm_num) v out0 acc0 (-3) 7
    (by norm_num) (by norm_num) (by norm_num)
  simpa using this

/-- the former overflow counterexample (`offset = 2^62`, `n = 5`: `4·2^62` wraps to `0`) is now
    an instance of the theorem: `5·ct`, even with dirty buffers. -/
example : (partialTracesSum trivOps 32 true 1 77 99 4611686018427387904 5).val? = some 5 := by
  decide +kernel

/-- `PartialTracesSum` rejects `n ≤ 0` and `offset = 0` … -/
theorem partialTracesSum_nonpositive_rejected {α : Type} (S : Ops α) (N : Nat) (hasP : Bool)
    (v out0 acc0 : α) (offset n : Int) (h : n ≤ 0 ∨ offset = 0) :
    partialTracesSum S N hasP v out0 acc0 offset n = .err := by
  unfold partialTracesSum
  rw [if_pos h]

/-- … and parameters without auxiliary modulus `P` (error, no nil dereference).  Same for
    `Replicate`, `RotateAndAdd`, and the scheme-level `InnerSum`s, which all go through it. -/
theorem partialTracesSum_noP_rejected {α : Type} (S : Ops α) (N : Nat)
    (v out0 acc0 : α) (offset n : Int) :
    partialTracesSum S N false v out0 acc0 offset n = .err := by
  unfold partialTracesSum
  split <;> rfl

/-- **`InnerFunction` with `f = Add`** computes the same sum for every `batchSize` (zero and
    overflowing ones included) and every `n ≥ 1`; it does not need `P`. -/
theorem innerFunction_spec {α : Type} [AddCommMonoid α] {S : Ops α} {m : Nat}
    (hS : Lawful S (2 ^ m)) (hm1 : 1 ≤ m) (hm : m ≤ 64)
    (v out0 acc0 : α) (batch n : Int) (hn : 1 ≤ n) (hn63 : n < 9223372036854775808) :
    (innerFunction S S.add (2 ^ m) v out0 acc0 batch n).val?
      = some (∑ r ∈ range n.toNat, rot S (2 ^ m) ((r : Int) * batch) v) :=
  innerFunction_add_spec hS hm1 hm v out0 acc0 batch n hn hn63

example (v out0 acc0 : ZMod 64 → Int) :
    (innerFunction (evalOps 64) (evalOps 64).add 64 v out0 acc0 2 6).val?
      = some (∑ r ∈ range 6, rot (evalOps 64) 64 ((r : Int) * 2) v) := by
  have := innerFunction_spec (m := 6) (evalOps_lawful 64) (by norm_num) (by norm_num) v out0 acc0 2 6
    (by norm_num) (by norm_num)
  simpa using this

/-- the former `batchSize = 0` counterexample: now `3·ct`. -/
example : (innerFunction trivOps trivOps.add 32 1 77 99 0 3).val? = some 3 := by decide +kernel

/-- `InnerFunction` rejects `n ≤ 0`. -/
theorem innerFunction_nonpositive_rejected {α : Type} (S : Ops α) (f : α → α → α) (N : Nat)
    (v out0 acc0 : α) (batch n : Int) (hn : n ≤ 0) :
    innerFunction S f N v out0 acc0 batch n = .err := by
  unfold innerFunction
  rw [if_pos hn]

/-- **`replicate_spec`.** `Replicate(ct, batch, n) = Σ_{r<n} rot(-r·batch) ct`. -/
theorem replicate_spec {α : Type} [AddCommMonoid α] {S : Ops α} {m : Nat}
    (hS : Lawful S (2 ^ m)) (hm1 : 1 ≤ m) (hm : m ≤ 64)
    (v out0 acc0 : α) (batch n : Int) (hn : 1 ≤ n) (hb : batch ≠ 0)
    (hsmall : n * |batch| < 9223372036854775808) :
    (replicate S (2 ^ m) true v out0 acc0 batch n).val?
      = some (∑ r ∈ range n.toNat, rot S (2 ^ m) (-((r : Int) * batch)) v) :=
  Proofs.InnerSum.replicate_spec hS hm1 hm v out0 acc0 batch n hn hb hsmall

example (v out0 acc0 : ZMod 64 → Int) :
    (replicate (evalOps 64) 64 true v out0 acc0 2 5).val?
      = some (∑ r ∈ range 5, rot (evalOps 64) 64 (-((r : Int) * 2)) v) := by
  have := replicate_spec (m := 6) (evalOps_lawful 64) (by norm_num) (by norm_num) v out0 acc0 2 5
    (by norm_num) (by norm_num) (by norm_num)
  simpa using this

/-- **`ckks.Evaluator.InnerSum`**: every accepted call returns the documented sum. -/
theorem innerSumCKKS_spec {α : Type} [AddCommMonoid α] {S : Ops α} {m : Nat}
    (hS : Lawful S (2 ^ m)) (hm1 : 1 ≤ m) (hm : m ≤ 64) (slots : Nat)
    (v out0 acc0 : α) (batch n : Int) (hn : 0 < n) (hb : 0 < batch)
    (hnb : n * batch < 9223372036854775808) :
    ∀ x, (innerSumCKKS S (2 ^ m) slots true v out0 acc0 batch n).val? = some x →
      x = ∑ r ∈ range n.toNat, rot S (2 ^ m) ((r : Int) * batch) v :=
  Proofs.InnerSum.innerSumCKKS_spec hS hm1 hm slots v out0 acc0 batch n hn hb hnb

/-- non-vacuity: `(batch, n) = (2, 4)` on 8 slots is accepted. -/
example : ∃ x, (innerSumCKKS trivOps 32 8 true 1 0 0 2 4).val? = some x := ⟨4, by decide +kernel⟩

/-- **`bgv.Evaluator.InnerSum`** (two rows): row-wise sum, and for `n·batch = slots` the sum over
    both rows obtained from `(batch, n/2)` plus the row swap. -/
theorem innerSumBGV_spec {α : Type} [AddCommMonoid α] {S : Ops α} {m : Nat}
    (hS : Lawful S (2 ^ m)) (hm1 : 1 ≤ m) (hm : m ≤ 64) (slots : Nat)
    (v out0 acc0 : α) (batch n : Int) (hn : 0 < n) (hb : 0 < batch)
    (hnb : n * batch < 9223372036854775808) :
    ∀ x, (innerSumBGV S (2 ^ m) slots true v out0 acc0 batch n).val? = some x →
      x = if n * batch = slots ∧ n ≠ 1 then
            (let u := ∑ r ∈ range (n / 2).toNat, rot S (2 ^ m) ((r : Int) * batch) v
             u + S.aut (2 ^ m - 1) u)
          else ∑ r ∈ range n.toNat, rot S (2 ^ m) ((r : Int) * batch) v :=
  Proofs.InnerSum.innerSumBGV_spec hS hm1 hm slots v out0 acc0 batch n hn hb hnb

/-- non-vacuity: the boundary case `n·batch = slots` (`(2, 8)` on 16 slots) is accepted. -/
example : ∃ x, (innerSumBGV trivOps 32 16 true 1 0 0 2 8).val? = some x := ⟨8, by decide +kernel⟩

/-- **`trace_spec` (standard ring, `0 < logN < L-1`)**: normalised sum over the rotations by
    multiples of `2^logN`. -/
theorem trace_spec_standard {α : Type} [AddCommMonoid α] {S : Ops α} (L : Nat)
    (hS : Lawful S (2 ^ (L + 1))) (hL : L ≤ 62) (v : α) (logN : Nat) (h0 : 0 < logN) (hlt : logN + 1 < L) :
    (trace S .standard L v (logN : Int)).val?
      = some (∑ j ∈ range (2 ^ (L - 1 - logN)),
          rot S (2 ^ (L + 1)) ((j : Int) * ((2 ^ logN : Nat) : Int)) (S.scaleInv (2 ^ (L - 1 - logN)) v)) :=
  trace_spec_pos L hS hL v logN h0 hlt

example (v : ZMod 32 → Int) :
    (trace (evalOps 32) .standard 4 v 1).val?
      = some (∑ j ∈ range 4, rot (evalOps 32) 32 ((j : Int) * 2) v) := by
  have := trace_spec_standard (S := evalOps 32) 4 (evalOps_lawful 32) (by norm_num) v 1 (by norm_num) (by norm_num)
  simpa [evalOps] using this

/-- **`trace_spec` (conjugate-invariant ring, `0 ≤ logN < L`)**: normalised sum over the
    `2^(L-logN)` rotations by multiples of `2^logN` (`nthRoot = 4N`, the rotation group has
    order `N = 2^L`; no order-two element). -/
theorem trace_spec_ci {α : Type} [AddCommMonoid α] {S : Ops α} (L : Nat)
    (hS : Lawful S (2 ^ (L + 2))) (hL : L ≤ 62) (v : α) (logN : Nat) (hlt : logN < L) :
    (trace S .conjugateInvariant L v (logN : Int)).val?
      = some (∑ j ∈ range (2 ^ (L - logN)),
          rot S (2 ^ (L + 2)) ((j : Int) * ((2 ^ logN : Nat) : Int)) (S.scaleInv (2 ^ (L - logN)) v)) :=
  Proofs.InnerSum.trace_spec_ci L hS hL v logN hlt

example (v : ZMod 64 → Int) :
    (trace (evalOps 64) .conjugateInvariant 4 v 2).val?
      = some (∑ j ∈ range 4, rot (evalOps 64) 64 ((j : Int) * 4) v) := by
  have := trace_spec_ci (S := evalOps 64) 4 (evalOps_lawful 64) (by norm_num) v 2 (by norm_num)
  simpa [evalOps] using this

/-- the former conjugate-invariant counterexample (degree 16, `logN = 2`), on slot vectors: the
    result is now the 4-periodic average, invariant under `rot(4)`. -/
example :
    (trace (slotOps .single 64 0) .conjugateInvariant 4
        [4,8,12,16,20,24,28,32,36,40,44,48,52,56,60,64] 2).val?
      = some [28, 32, 36, 40, 28, 32, 36, 40, 28, 32, 36, 40, 28, 32, 36, 40] ∧
    slotAut .single 64 (galEl 64 4) [28, 32, 36, 40, 28, 32, 36, 40, 28, 32, 36, 40, 28, 32, 36, 40]
      = [28, 32, 36, 40, 28, 32, 36, 40, 28, 32, 36, 40, 28, 32, 36, 40] :=
  ⟨by decide +kernel, by decide +kernel⟩

/-- `logN = 0` (standard ring): all rotations, then the order-two element, normalised by `N`. -/
theorem trace_spec_zero_standard {α : Type} [AddCommMonoid α] {S : Ops α} (L : Nat)
    (hS : Lawful S (2 ^ (L + 1))) (hL1 : 1 ≤ L) (hL : L ≤ 62) (v : α) :
    (trace S .standard L v 0).val?
      = some (let u := ∑ j ∈ range (2 ^ (L - 1)),
                rot S (2 ^ (L + 1)) ((j : Int) * ((2 ^ 0 : Nat) : Int)) (S.scaleInv (2 ^ L) v)
              u + S.aut (2 ^ (L + 1) - 1) u) :=
  Proofs.InnerSum.trace_spec_zero L hS hL1 hL v

/-- `logN = log2 #rotations` (`L-1` standard, `L` conjugate-invariant): identity. -/
theorem trace_spec_top {α : Type} (S : Ops α) (rt : RingType) (L : Nat) (v : α) (logN : Int)
    (h : logN = logRot rt L) (h0 : 0 ≤ logN) (hnz : ¬ (logN = 0 ∧ rt = .standard)) :
    (trace S rt L v logN).val? = some v :=
  Proofs.InnerSum.trace_spec_top S rt L v logN h h0 hnz

example : (trace trivOps .conjugateInvariant 4 7 4).val? = some 7 :=
  trace_spec_top trivOps .conjugateInvariant 4 7 4 (by decide) (by decide) (by decide)

/-- `logN` outside `[0, log2 #rotations]` is rejected by `Trace` (error) and by
    `GaloisElementsForTrace` (sanity-check panic) alike. -/
theorem trace_rejected {α : Type} (S : Ops α) (rt : RingType) (L : Nat) (v : α) (logN : Int)
    (h : logN < 0 ∨ logN > logRot rt L) :
    trace S rt L v logN = .err ∧ galoisElementsForTrace rt L logN = none :=
  Proofs.InnerSum.trace_rejected S rt L v logN h

/-! ## 3. advertised key lists suffice -/

/-- **`keys_sufficient` (PartialTracesSum / RotateAndAdd).**  For all Go `int`s `offset`, `n ≤ 2^62`:
    `GaloisElementsForInnerSum(offset, n)` terminates and contains every key looked up. -/
theorem keys_sufficient_partialTracesSum {α : Type} (S : Ops α) (N : Nat) (hasP : Bool) (v out0 acc0 : α)
    (offset n : Int) (hn : n ≤ 4611686018427387904) :
    ∃ l, galoisElementsForInnerSum N offset n = some l ∧
      ∀ r ∈ (partialTracesSum S N hasP v out0 acc0 offset n).reqs, r ∈ l :=
  partialTracesSum_keys S N hasP v out0 acc0 offset n hn

/-- non-vacuity: the requests of `(3, 13)` are non-empty. -/
example : (partialTracesSum trivOps 64 true 1 0 0 3 13).reqs ≠ [] := by decide +kernel

theorem keys_sufficient_innerFunction {α : Type} (S : Ops α) (f : α → α → α) (N : Nat)
    (v out0 acc0 : α) (batch n : Int) (hn : n ≤ 4611686018427387904) :
    ∃ l, galoisElementsForInnerSum N batch n = some l ∧
      ∀ r ∈ (innerFunction S f N v out0 acc0 batch n).reqs, r ∈ l :=
  innerFunction_keys S f N v out0 acc0 batch n hn

theorem keys_sufficient_replicate {α : Type} (S : Ops α) (N : Nat) (hasP : Bool) (v out0 acc0 : α)
    (batch n : Int) (hn : n ≤ 4611686018427387904) :
    ∃ l, galoisElementsForReplicate N batch n = some l ∧
      ∀ r ∈ (replicate S N hasP v out0 acc0 batch n).reqs, r ∈ l :=
  replicate_keys S N hasP v out0 acc0 batch n hn

theorem keys_sufficient_innerSumCKKS {α : Type} (S : Ops α) (N slots : Nat) (hasP : Bool) (v out0 acc0 : α)
    (batch n : Int) (hn : n ≤ 4611686018427387904) :
    ∃ l, galoisElementsForInnerSum N batch n = some l ∧
      ∀ r ∈ (innerSumCKKS S N slots hasP v out0 acc0 batch n).reqs, r ∈ l :=
  innerSumCKKS_keys S N slots hasP v out0 acc0 batch n hn

/-- **bgv two-row layout**: `bgv.Parameters.GaloisElementsForInnerSum(batch, n)` suffices for
    `bgv.Evaluator.InnerSum(ct, batch, n)`, including the case `n·batch = slots` where the
    evaluator runs `(batch, n/2)` and swaps the rows. -/
theorem keys_sufficient_innerSumBGV {α : Type} (S : Ops α) (N maxSlots : Nat) (hms : 1 ≤ maxSlots)
    (hasP : Bool) (v out0 acc0 : α) (batch n : Int) (hn : 0 < n) (hb : 0 < batch)
    (hnb : n * batch < 4611686018427387904) :
    ∃ l, galoisElementsForInnerSumBGV N maxSlots batch n = some l ∧
      ∀ r ∈ (innerSumBGV S N maxSlots hasP v out0 acc0 batch n).reqs, r ∈ l :=
  innerSumBGV_keys S N maxSlots hms hasP v out0 acc0 batch n hn hb hnb

/-- non-vacuity: at the boundary the row-swap key `nthRoot-1 = 31` is requested. -/
example : 31 ∈ (innerSumBGV trivOps 32 16 true 1 0 0 2 8).reqs := by decide +kernel

theorem keys_sufficient_replicateBGV {α : Type} (S : Ops α) (N ringN : Nat) (hasP : Bool) (v out0 acc0 : α)
    (batch n : Int) (hn : n ≤ 4611686018427387904) :
    ∃ l, galoisElementsForReplicateBGV N ringN batch n = some l ∧
      ∀ r ∈ (replicate S N hasP v out0 acc0 batch n).reqs, r ∈ l :=
  replicateBGV_keys S N ringN hasP v out0 acc0 batch n hn

/-- **`Trace`**: for every ring type and degree and every accepted `logN` the advertised list is
    defined and suffices (rejected `logN`: see `trace_rejected`). -/
theorem keys_sufficient_trace {α : Type} (S : Ops α) (rt : RingType) (L : Nat) (v : α) (logN : Int)
    (h0 : 0 ≤ logN) (h1 : logN ≤ logRot rt L) :
    ∃ l, galoisElementsForTrace rt L logN = some l ∧
      ∀ r ∈ (trace S rt L v logN).reqs, r ∈ l :=
  trace_keys S rt L v logN h0 h1

example : galoisElementsForTrace .standard 4 0 = some [5, 25, 17, 31] := by decide +kernel

/-- the former conjugate-invariant counterexample: the list for `logN = 0` is defined and is what
    `Trace(ct, 0)` looks up (4 rotations, no order-two element). -/
example : galoisElementsForTrace .conjugateInvariant 4 0 = some [5, 25, 49, 33] ∧
    (trace trivOps .conjugateInvariant 4 1 0).reqs = [5, 25, 49, 33] :=
  ⟨by decide +kernel, by decide +kernel⟩

/-- single rotations / conjugation / hoisted rotations only look up the keys of their arguments. -/
theorem keys_sufficient_rotate {α : Type} (S : Ops α) (N : Nat) (v : α) (k : Int) :
    ∀ r ∈ (rotate S N v k).reqs, r = galEl N k :=
  rotate_keys S N v k

theorem keys_sufficient_rotateHoisted {α : Type} (S : Ops α) (N : Nat) (hasP : Bool) (v : α) (ks : List Int) :
    ∀ res, rotateHoisted S N hasP v ks = some res → ∀ r ∈ res.2, r ∈ galEls N ks :=
  rotateHoisted_keys S N hasP v ks

/-- `ckks.Evaluator.RotateHoisted` returns an error on parameters without `P`. -/
theorem rotateHoisted_noP_rejected {α : Type} (S : Ops α) (N : Nat) (v : α) (ks : List Int) :
    rotateHoisted S N false v ks = none := rfl

end Lattigo.Props.C11

section Axioms
open Lattigo.Props.C11
#print axioms orderOf_five
#print axioms galEl_eq
#print axioms galEl_add
#print axioms galEl_add_wrap
#print axioms galEl_mod_slots
#print axioms galEl_eq_iff
#print axioms modInv_spec
#print axioms modInv_galEl
#print axioms dlog_galEl
#print axioms galEl_dlog
#print axioms nttIndex_perm
#print axioms dlog_diverges_small
#print axioms orderTwo_spec
#print axioms innerSum_spec
#print axioms partialTracesSum_nonpositive_rejected
#print axioms partialTracesSum_noP_rejected
#print axioms innerFunction_spec
#print axioms innerFunction_nonpositive_rejected
#print axioms replicate_spec
#print axioms innerSumCKKS_spec
#print axioms innerSumBGV_spec
#print axioms trace_spec_standard
#print axioms trace_spec_ci
#print axioms trace_spec_zero_standard
#print axioms trace_spec_top
#print axioms trace_rejected
#print axioms keys_sufficient_partialTracesSum
#print axioms keys_sufficient_innerFunction
#print axioms keys_sufficient_replicate
#print axioms keys_sufficient_innerSumCKKS
#print axioms keys_sufficient_innerSumBGV
#print axioms keys_sufficient_replicateBGV
#print axioms keys_sufficient_trace
#print axioms keys_sufficient_rotate
#print axioms keys_sufficient_rotateHoisted
#print axioms rotateHoisted_noP_rejected
end Axioms
