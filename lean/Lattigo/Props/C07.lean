/-
  C07 (integer half) — the BGV/BFV encoder is inverse to the decoder on the whole message space.

  Model: `Lattigo.EncoderT` (lean/Lattigo/Model/EncoderT.lean), executed by the driver on every `C07 bgv …`
  tie line of harness/c07_bgv.go (EncodeRingT, DecodeRingT, Encode, Decode; all levels, gap ≥ 1, batched and
  coefficient domain).  The CKKS half of C07 is in Props/C07CKKS.lean (another work package).
-/
import Lattigo.Proofs.EncoderT
import Lattigo.Props.C07CKKS

namespace Lattigo.EncoderT.C07
open Lattigo Lattigo.EncoderT

/-- **decode_encode_T** (`[]uint64`): `DecodeRingT(EncodeRingT(v, scale), scale) = v mod t`, unspecified
    slots 0, for every `len v ≤ slots`, every output length, every scale with `scale·scaleInv ≡ 1`, any stale
    buffer content.  Hypotheses, stated outright:
    * `hperm`, `hplt`: the index table has no repeated entry and stays below `n`
      (`permuteMatrix_ok_upto8` evaluates this for every ring degree up to 2^8);
    * `hntt`, `hlt`: NTT∘INTT = id on reduced vectors over Z_t, INTT returns reduced values
      (the transform-inverse theorem of the NTT work package; NOTE the direction needed here is
      `NTT (INTT x) = x`). -/
theorem decode_encode_T (T : NTT.Tables) (perm vals buf p : List Nat) (scale len : Nat)
    (ht : 1 < T.q) (hperm : perm.Nodup) (hplt : ∀ q ∈ perm, q < T.n) (hbuf : buf.length = T.n)
    (hs : scale * scaleInv T.q scale % T.q = 1)
    (hntt : ∀ x : List Nat, x.length = T.n → (∀ e ∈ x, e < T.q) → NTT.nttStd T (NTT.inttStd T x) = x)
    (hlt : ∀ x : List Nat, x.length = T.n → ∀ e ∈ NTT.inttStd T x, e < T.q)
    (hlen : len ≤ perm.length)
    (henc : encodeRingTU T perm vals scale buf = some p) :
    decodeRingTU T perm scale p len
      = ((vals.map (· % T.q)) ++ List.replicate (perm.length - vals.length) 0).take len :=
  Lattigo.EncoderT.decode_encode_T T perm vals buf p scale len ht hperm hplt hbuf hs hntt hlt hlen henc

/-- signed decode (`[]int64`): the value returned for a residue `x` is congruent to `x` modulo `t` and lies in
    `[−(t+1)/2, (t+1)/2)`; the rule in the code is `x ≥ t>>1 → x − t` (so `(t−1)/2` comes back NEGATIVE). -/
theorem decode_signed_range (t x : Nat) (hx : x < t) :
    (centerI64 t x - (x : Int)) % (t : Int) = 0
    ∧ -(((t + 1) / 2 : Nat) : Int) ≤ centerI64 t x ∧ centerI64 t x < (((t + 1) / 2 : Nat) : Int) :=
  centerI64_spec t x hx

theorem decode_signed_boundary (t : Nat) (hodd : t % 2 = 1) :
    centerI64 t ((t - 1) / 2) = -(((t + 1) / 2 : Nat) : Int) := centerI64_boundary t hodd

example : centerI64 257 128 = -129 ∧ centerI64 257 127 = 127 := by decide

/-- signed encode: every `int64` (MinInt64 included) is mapped to a residue congruent to it, in `[0, t]`. -/
theorem encode_signed (t : Nat) (c : Int) (ht : 0 < t) (hlo : -(2 ^ 63 : Int) ≤ c) (hhi : c < (2 ^ 63 : Int)) :
    ((i64Slot t c : Nat) : Int) ≡ c [ZMOD (t : Int)] ∧ i64Slot t c ≤ t := i64Slot_spec t c ht hlo hhi

/-- the residue is `t`, not `0`, for negative multiples of `t` (the value INTT receives is unreduced) -/
example : i64Slot 257 (-257) = 257 ∧ i64Slot 257 (-9223372036854775808) = 128 ∧ i64Slot 257 (-258) = 256 := by
  decide

/-- TEST (evaluation, not a general proof): for every plaintext ring degree 2^k, k ≤ 8, the table
    `permuteMatrix k` has 2^k entries, no repetition, all below 2^k. -/
theorem permuteMatrix_ok_upto8 : ∀ k < 9, 0 < k →
    (permuteMatrix k).length = 2 ^ k ∧ (permuteMatrix k).Nodup ∧ ∀ p ∈ permuteMatrix k, p < 2 ^ k := by
  decide +kernel

/-- level-0 branch of `RingQ2T ∘ RingT2Q`, per coefficient: exact whenever `2(t−1) < q0`. -/
theorem ringQ2T_ringT2Q_level0_coeff (t q0 p tinv : Nat) (ht : 0 < t) (hp : p < t) (hq : 2 * (t - 1) < q0)
    (htinv : (tinv % q0) * (t % q0) % q0 = 1) :
    (((p * (tinv % q0) % q0) * (t % q0) % q0 + q0 / 2) % q0 % t + t - q0 / 2 % t) % t = p :=
  q2t_coeff_level0 t q0 p tinv ht hp hq htinv

/-- the hypothesis `2(t−1) < q0` is necessary: with `t = 13 ≤ q0 = 17` (accepted by `bgv.NewParameters`,
    which only checks `t ≤ Q[0]`), the residue 12 is NOT recovered at level 0. -/
theorem level0_large_t_counterexample :
    ringQ2T 13 8 (ringT2Q [17] 13 8 true [12, 0, 0, 0, 0, 0, 0, 0]) ≠ [12, 0, 0, 0, 0, 0, 0, 0]
    ∧ ringQ2T 13 8 (ringT2Q [53] 13 8 true [12, 0, 0, 0, 0, 0, 0, 0]) = [12, 0, 0, 0, 0, 0, 0, 0] := by
  decide +kernel

/-! ### non-vacuity / concrete instance (n = 8, t = 17, ψ from g = 3) -/

def T8 : NTT.Tables := NTT.mkTables 8 17 16 3

example : (permuteMatrix 3).Nodup ∧ (∀ q ∈ permuteMatrix 3, q < T8.n) ∧ 5 * scaleInv T8.q 5 % T8.q = 1 := by
  decide +kernel

example : (encodeRingTU T8 (permuteMatrix 3) [3, 20, 16] 5 (List.replicate 8 9)).map
      (fun p => decodeRingTU T8 (permuteMatrix 3) 5 p 8) = some [3, 3, 16, 0, 0, 0, 0, 0] := by
  decide +kernel

end Lattigo.EncoderT.C07

#print axioms Lattigo.EncoderT.C07.decode_encode_T
#print axioms Lattigo.EncoderT.C07.decode_signed_range
#print axioms Lattigo.EncoderT.C07.decode_signed_boundary
#print axioms Lattigo.EncoderT.C07.encode_signed
#print axioms Lattigo.EncoderT.C07.permuteMatrix_ok_upto8
#print axioms Lattigo.EncoderT.C07.ringQ2T_ringT2Q_level0_coeff
#print axioms Lattigo.EncoderT.C07.level0_large_t_counterexample
