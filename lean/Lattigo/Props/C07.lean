/-
  C07 (integer half) — the BGV/BFV encoder is inverse to the decoder on the whole message space.

  Model: `Lattigo.EncoderT` (lean/Lattigo/Model/EncoderT.lean), executed by the driver on every `C07 bgv …`
  tie line of harness/c07_bgv.go (EncodeRingT, DecodeRingT, Encode, Decode; all levels, gap ≥ 1, batched and
  coefficient domain).  The CKKS half of C07 is in Props/C07CKKS.lean (another work package).

  Hypotheses that remain, stated once: `NTT.Valid T K` (C01: the plaintext modulus `t = T.q` is prime,
  `8t ≤ 2^64`, Montgomery/Barrett constants and mutually inverse root tables of the ring of degree
  `n = 2^K`; `tables_invariant` shows that the tables the code generates for a prime `t ≡ 1 (mod 2n)`
  satisfy it), `K ≥ 1`, and a scale not divisible by `t`.  Everything else (the index table is a
  permutation, NTT ∘ INTT = id, INTT returns reduced values, `scale · ModExp(scale, t−2, t) ≡ 1`) is proved.

  `RingQ2T ∘ RingT2Q = id` is proved for every level and gap (`ringQ2T_ringT2Q`; `RPoly.modInv`, `RPoly.crt` are proved
  correct), and `Decoder.Decode ∘ Encoder.Encode` through `R_Q` for batched / coefficient-domain, `[]uint64` / `[]int64`
  (`decode_encode_*`), under `ParamsOK` (pairwise coprime moduli `> 1` coprime to `t`, `N = n·g`, `2(t−1) < Q`; at
  level > 0 the size conditions follow from the `t ≤ Q[0]` check of `bgv.NewParameters`, `size_of_level_pos`).

  "Encoded plaintexts multiply slot-wise" is proved in the plaintext ring `Z_t[Y]/(Y^n+1)` (`encode_mul`, `⊛ = RPoly.rowMul t`)
  AND for the plaintexts `Encode` produces in `R_Q` (`encode_mul_RQ`: product of `R_Q`, times `T`, `Decode`; every level and gap)
  under the no-wrap bound `2·n·(t−1)² + 1 < Q` (`ringQ2T_mul`); without that bound the integer product wraps modulo `Q` and the
  statement is false (the harness probe `encode_mul` only runs levels where it holds).

  `Embed` / `EmbedScale` (the representation handed to linear transformations / polynomial evaluation): canonical rows are
  `embed` / `embedP` (tied, all four (IsNTT, IsMontgomery) combinations, ring.Poly and ringqp.Poly Q and P parts);
  `embed_scaleUp_eq_encode`, `embedScale_qp_same_integer` + `embedScale_qp_lift` (fix C07-5: Q and P parts are residues of ONE
  integer polynomial, a lift of `T⁻¹·m`), `embed_qp_plain`.  That NTT / ·2^64 are applied according to the metadata is the
  probes `embed_metadata`, `embed_mont_mul` and the tie (the harness undoes them per the metadata), not a theorem.

  NOT covered: float-free but size-dependent behaviour of `ring.ModUpExact` near ±Q/2 (modelled exact; probe `modupexact_zone`);
  known finding C07-bgv-level0-t-above-half-q0 (`t ≤ Q[0]` accepted although level-0 decoding needs `2(t−1) < Q[0]`:
  `level0_large_t_counterexample`).
-/
import Lattigo.Proofs.EncoderT
import Lattigo.Proofs.EncoderTPerm
import Lattigo.Proofs.EncoderTRound
import Lattigo.Proofs.EncoderTMul
import Lattigo.Proofs.EncoderTMulQ
import Lattigo.Props.C01NTT
import Lattigo.Props.C07CKKS
import Lattigo.Props.C07Ring

namespace Lattigo.EncoderT.C07
open Lattigo Lattigo.EncoderT

/-- **permuteMatrix_perm**: for EVERY plaintext ring degree `n = 2^K`, `K ≥ 1`, the index table built by
    `permuteMatrix` (`perm[i] = brv_K((5^i mod 2n)>>1)`, `perm[i+n/2] = n−1−perm[i]`) is a permutation of
    `[0, n)`: `5` has order `n/2` modulo `2n` and `±5^i` exhausts the odd residues. -/
theorem permuteMatrix_perm (K : ℕ) (hK : 1 ≤ K) : (permuteMatrix K).Perm (List.range (2 ^ K)) :=
  Lattigo.EncoderT.permuteMatrix_perm K hK

/-- the same, unfolded: `n` entries, pairwise distinct, all `< n` -/
theorem permuteMatrix_ok (K : ℕ) (hK : 1 ≤ K) :
    (permuteMatrix K).length = 2 ^ K ∧ (permuteMatrix K).Nodup ∧ ∀ p ∈ permuteMatrix K, p < 2 ^ K :=
  ⟨permuteMatrix_length K hK, permuteMatrix_nodup K hK, permuteMatrix_lt K hK⟩

example : permuteMatrix 4 = [0, 4, 3, 7, 1, 5, 2, 6, 15, 11, 12, 8, 14, 10, 13, 9] := by decide +kernel

/-- **ntt_intt** (the direction the decoder needs; C01's `intt_ntt` is the other one): over the
    plaintext ring, `NTT(INTT(x)) = x` for every reduced `x` of length `n`, and `INTT(x)` is reduced. -/
theorem ntt_intt (T : NTT.Tables) (K : ℕ) (hT : NTT.Valid T K) (x : List ℕ) (hlen : x.length = T.n)
    (hx : ∀ e ∈ x, e < T.q) :
    NTT.nttStd T (NTT.inttStd T x) = x ∧ (NTT.inttStd T x).length = T.n ∧ ∀ e ∈ NTT.inttStd T x, e < T.q :=
  nttStd_inttStd hT x hlen hx

/-- **modExp_fermat**: the inverse `DecodeRingT` computes, `ring.ModExp(scale, t−2, t)`, IS the inverse of
    `scale` modulo a prime `t < 2^64` whenever `t ∤ scale`. -/
theorem modExp_fermat (t s : ℕ) (ht : t.Prime) (h64 : t < 2 ^ 64) (hs : ¬ t ∣ s) :
    s * NTT.modExp s (t - 2) t % t = 1 := Lattigo.EncoderT.modExp_fermat t s ht h64 hs

example : 5 * NTT.modExp 5 (257 - 2) 257 % 257 = 1 := by decide +kernel

/-- **decode_encode_T** (`[]uint64`): `DecodeRingT(EncodeRingT(v, scale), scale) = v mod t`, unspecified
    slots 0, for every ring degree `n = 2^K ≥ 2`, every `len v ≤ n` (longer inputs are rejected: `none`), every
    output length, every scale not divisible by `t`, any stale buffer content.  Only `Valid T K` is assumed. -/
theorem decode_encode_T (T : NTT.Tables) (K : ℕ) (hT : NTT.Valid T K) (hK : 1 ≤ K)
    (vals buf p : List ℕ) (scale len : ℕ) (hbuf : buf.length = T.n) (hs : ¬ T.q ∣ scale) (hlen : len ≤ T.n)
    (henc : encodeRingTU T (permuteMatrix K) vals scale buf = some p) :
    decodeRingTU T (permuteMatrix K) scale p len
      = ((vals.map (· % T.q)) ++ List.replicate (T.n - vals.length) 0).take len := by
  have hl := permuteMatrix_length K hK
  have := decode_encode_T_valid T K hT (permuteMatrix K) vals buf p scale len (permuteMatrix_nodup K hK)
    (by intro q hq; rw [hT.n_eq]; exact permuteMatrix_lt K hK q hq) hbuf hs (by rw [hl, ← hT.n_eq]; exact hlen) henc
  rw [this, hl, hT.n_eq]

/-- the same for any index table without repetition (the form used by `encode_mul`) -/
theorem decode_encode_T_anyperm (T : NTT.Tables) (K : ℕ) (hT : NTT.Valid T K) (perm vals buf p : List ℕ)
    (scale len : ℕ) (hperm : perm.Nodup) (hplt : ∀ q ∈ perm, q < T.n) (hbuf : buf.length = T.n)
    (hs : ¬ T.q ∣ scale) (hlen : len ≤ perm.length)
    (henc : encodeRingTU T perm vals scale buf = some p) :
    decodeRingTU T perm scale p len
      = ((vals.map (· % T.q)) ++ List.replicate (perm.length - vals.length) 0).take len :=
  decode_encode_T_valid T K hT perm vals buf p scale len hperm hplt hbuf hs hlen henc

/-- **decode_encode_T with the tables the code generates**: `t` prime, `t ≡ 1 (mod 2n)`, `8t ≤ 2^64`,
    `g` the quadratic non-residue (primitive root) found by `generateNTTConstants`. -/
theorem decode_encode_T_mkTables (K t g : ℕ) (hK : 1 ≤ K) (ht : t.Prime) (h8 : 8 * t ≤ W)
    (hdiv : 2 ^ (K + 1) ∣ t - 1) (hg : g ^ ((t - 1) / 2) % t = t - 1)
    (vals buf p : List ℕ) (scale len : ℕ) (hbuf : buf.length = 2 ^ K) (hs : ¬ t ∣ scale) (hlen : len ≤ 2 ^ K)
    (henc : encodeRingTU (NTT.mkTables (2 ^ K) t (2 ^ (K + 1)) g) (permuteMatrix K) vals scale buf = some p) :
    decodeRingTU (NTT.mkTables (2 ^ K) t (2 ^ (K + 1)) g) (permuteMatrix K) scale p len
      = ((vals.map (· % t)) ++ List.replicate (2 ^ K - vals.length) 0).take len :=
  decode_encode_T (NTT.mkTables (2 ^ K) t (2 ^ (K + 1)) g) K
    (Lattigo.Props.C01NTT.tables_invariant K t g ht h8 hdiv hg).1 hK vals buf p scale len hbuf hs hlen henc

/-- **decode_encode_T, `[]int64` input, `[]uint64` output**: every Go `int64` (MinInt64 included) comes back as
    its Euclidean residue `c mod t ∈ [0,t)`.  (No `Reduce` on this path: the residue `t` produced for negative
    multiples of `t` is absorbed by the lazy range of INTT; stale buffer content is overwritten because the
    index table is a full permutation.) -/
theorem decode_encode_T_int64 (T : NTT.Tables) (K : ℕ) (hT : NTT.Valid T K) (hK : 1 ≤ K)
    (vals : List ℤ) (buf p : List ℕ) (scale len : ℕ) (hbuf : buf.length = T.n)
    (hv : ∀ c ∈ vals, -(2 ^ 63 : ℤ) ≤ c ∧ c < (2 ^ 63 : ℤ)) (hs : ¬ T.q ∣ scale) (hlen : len ≤ T.n)
    (henc : encodeRingTI T (permuteMatrix K) vals scale buf = some p) :
    decodeRingTU T (permuteMatrix K) scale p len
      = ((vals.map fun c => (c % (T.q : ℤ)).toNat) ++ List.replicate (T.n - vals.length) 0).take len := by
  have hl := permuteMatrix_length K hK
  have := decode_encode_TI_valid T K hT (permuteMatrix K) buf p vals scale len (permuteMatrix_nodup K hK)
    (by intro q hq; rw [hT.n_eq]; exact permuteMatrix_lt K hK q hq) (by rw [hl, hT.n_eq]) hbuf hv hs
    (by rw [hl, ← hT.n_eq]; exact hlen) henc
  rw [this, hl, hT.n_eq]

/-- **decode_encode_T, `[]int64` in and out**: the decoded value is `center(c mod t)`; by `decode_signed_range` it
    is congruent to `c` and lies in `[−(t+1)/2, (t+1)/2)`; by `decode_signed_exact` it IS `c` whenever
    `−(t − ⌊t/2⌋) ≤ c < ⌊t/2⌋`. -/
theorem decode_encode_T_signed (T : NTT.Tables) (K : ℕ) (hT : NTT.Valid T K) (hK : 1 ≤ K)
    (vals : List ℤ) (buf p : List ℕ) (scale len : ℕ) (hbuf : buf.length = T.n)
    (hv : ∀ c ∈ vals, -(2 ^ 63 : ℤ) ≤ c ∧ c < (2 ^ 63 : ℤ)) (hs : ¬ T.q ∣ scale) (hlen : len ≤ T.n)
    (henc : encodeRingTI T (permuteMatrix K) vals scale buf = some p) :
    decodeRingTI T (permuteMatrix K) scale p len
      = (((vals.map fun c => (c % (T.q : ℤ)).toNat) ++ List.replicate (T.n - vals.length) 0).take len).map
          (centerI64 T.q) := by
  unfold decodeRingTI
  rw [decode_encode_T_int64 T K hT hK vals buf p scale len hbuf hv hs hlen henc]

theorem decode_signed_exact (t : ℕ) (c : ℤ) (ht : 0 < t) (hlo : -((t : ℤ) - ((t / 2 : ℕ) : ℤ)) ≤ c)
    (hhi : c < ((t / 2 : ℕ) : ℤ)) : centerI64 t (c % (t : ℤ)).toNat = c := centerI64_exact t c ht hlo hhi

/-- **encode_mul** (plaintext ring): the negacyclic product `⊛ = RPoly.rowMul t` of two encodings, decoded at
    any scale `s ≡ s₁·s₂ (mod t)` with `t ∤ s`, is the slot-wise product modulo `t` (zero where either input
    is unspecified).  `hinv` is C01's table invariant (`tables_invariant` provides it together with `Valid`). -/
theorem encode_mul (T : NTT.Tables) (K : ℕ) (hT : NTT.Valid T K)
    (hinv : NTT.TableInv (NTT.rho T.q T.rootsF) (2 ^ K)) (hK : 1 ≤ K)
    (u v buf1 buf2 pu pv : List ℕ) (su sv s len : ℕ)
    (hbuf1 : buf1.length = T.n) (hbuf2 : buf2.length = T.n)
    (hs : s % T.q = su * sv % T.q) (hsd : ¬ T.q ∣ s) (hlen : len ≤ T.n)
    (hencu : encodeRingTU T (permuteMatrix K) u su buf1 = some pu)
    (hencv : encodeRingTU T (permuteMatrix K) v sv buf2 = some pv) :
    decodeRingTU T (permuteMatrix K) s (RPoly.rowMul T.q pu pv) len
      = (List.zipWith (fun a b => a * b % T.q)
          ((u.map (· % T.q)) ++ List.replicate (T.n - u.length) 0)
          ((v.map (· % T.q)) ++ List.replicate (T.n - v.length) 0)).take len := by
  have hl := permuteMatrix_length K hK
  have := encode_mul_T T K hT hinv (permuteMatrix K) u v buf1 buf2 pu pv su sv s len (permuteMatrix_nodup K hK)
    (by intro q hq; rw [hT.n_eq]; exact permuteMatrix_lt K hK q hq) hbuf1 hbuf2 hs hsd
    (by rw [hl, ← hT.n_eq]; exact hlen) hencu hencv
  rw [this, hl, hT.n_eq]

/-- signed decode (`[]int64`): the value returned for a residue `x` is congruent to `x` modulo `t` and lies in
    `[−(t+1)/2, (t+1)/2)`; the rule in the code is `x ≥ t>>1 → x − t` (so `(t−1)/2` comes back NEGATIVE). -/
theorem decode_signed_range (t x : Nat) (hx : x < t) :
    (centerI64 t x - (x : Int)) % (t : Int) = 0
    ∧ -(((t + 1) / 2 : Nat) : Int) ≤ centerI64 t x ∧ centerI64 t x < (((t + 1) / 2 : Nat) : Int) :=
  centerI64_spec t x hx

theorem decode_signed_boundary (t : Nat) (hodd : t % 2 = 1) :
    centerI64 t ((t - 1) / 2) = -(((t + 1) / 2 : Nat) : Int) := centerI64_boundary t hodd

example : centerI64 257 128 = -129 ∧ centerI64 257 127 = 127 := by decide

/-- signed encode: every `int64` (MinInt64 included) is mapped to a residue congruent to it, in `[0, t]`. -/
theorem encode_signed (t : Nat) (c : Int) (ht : 0 < t) (hlo : -(2 ^ 63 : Int) ≤ c) (hhi : c < (2 ^ 63 : Int)) :
    ((i64Slot t c : Nat) : Int) ≡ c [ZMOD (t : Int)] ∧ i64Slot t c ≤ t := i64Slot_spec t c ht hlo hhi

/-- the residue is `t`, not `0`, for negative multiples of `t` (the value INTT receives is unreduced) -/
example : i64Slot 257 (-257) = 257 ∧ i64Slot 257 (-9223372036854775808) = 128 ∧ i64Slot 257 (-258) = 256 := by
  decide

/-- TEST (evaluation, not a general proof): for every plaintext ring degree 2^k, k ≤ 8, the table
    `permuteMatrix k` has 2^k entries, no repetition, all below 2^k. -/
theorem permuteMatrix_ok_upto8 : ∀ k < 9, 0 < k →
    (permuteMatrix k).length = 2 ^ k ∧ (permuteMatrix k).Nodup ∧ ∀ p ∈ permuteMatrix k, p < 2 ^ k := by
  decide +kernel

/-- level-0 branch of `RingQ2T ∘ RingT2Q`, per coefficient: exact whenever `2(t−1) < q0`. -/
theorem ringQ2T_ringT2Q_level0_coeff (t q0 p tinv : Nat) (ht : 0 < t) (hp : p < t) (hq : 2 * (t - 1) < q0)
    (htinv : (tinv % q0) * (t % q0) % q0 = 1) :
    (((p * (tinv % q0) % q0) * (t % q0) % q0 + q0 / 2) % q0 % t + t - q0 / 2 % t) % t = p :=
  q2t_coeff_level0 t q0 p tinv ht hp hq htinv

/-- **modInv_spec** / **crt_spec**: the extended-Euclid inverse (fuel `2(log₂ m + 2)` suffices) and the CRT
    reconstruction of `Model/RPoly.lean` are correct. -/
theorem modInv_spec (a m : ℕ) (hm : 1 < m) (hc : Nat.Coprime a m) : (a * RPoly.modInv a m) % m = 1 :=
  Lattigo.EncoderT.modInv_spec a m hm hc

theorem crt_spec (qs : List ℕ) (hc : qs.Pairwise Nat.Coprime) (h1 : ∀ q ∈ qs, 1 < q) (x : ℕ)
    (hx : x < RPoly.prod qs) : RPoly.crt qs (qs.map (x % ·)) = x := Lattigo.EncoderT.crt_spec qs hc h1 x hx

/-- **RingQ2T ∘ RingT2Q = id**, every level (`qs` = the moduli at that level; one modulus: the
    `AddScalar/Reduce/SubScalar` branch, several: `ModUpExact` / `PolyToBigintCentered` via CRT), every gap
    `g = N/n ≥ 1`, every reduced plaintext polynomial.  `hQ'` concerns the branch `level > 0 ∧ gap > 1` only. -/
theorem ringQ2T_ringT2Q (qs : List ℕ) (t n g : ℕ) (p : List ℕ) (hne : qs ≠ [])
    (hc : qs.Pairwise Nat.Coprime) (h1 : ∀ q ∈ qs, 1 < q) (hct : ∀ q ∈ qs, Nat.Coprime t q)
    (ht : 0 < t) (hn : 0 < n) (hg : 0 < g) (hpl : p.length = n) (hp : ∀ e ∈ p, e < t)
    (hQ : 2 * (t - 1) < RPoly.prod qs)
    (hQ' : 1 < qs.length → g ≠ 1 → t ≤ RPoly.prod qs / 2) :
    ringQ2T t n (ringT2Q qs t (n * g) true p) = p :=
  Lattigo.EncoderT.ringQ2T_ringT2Q qs t n g p hne hc h1 hct ht hn hg hpl hp hQ hQ'

/-- at level > 0 both size conditions follow from `t ≤ Q[0]` (checked by `bgv.NewParameters`) -/
theorem size_of_level_pos (q0 q1 : ℕ) (l : List ℕ) (t : ℕ) (h1 : ∀ q ∈ q0 :: q1 :: l, 1 < q) (ht : t ≤ q0) :
    2 * (t - 1) < RPoly.prod (q0 :: q1 :: l) ∧ t ≤ RPoly.prod (q0 :: q1 :: l) / 2 := by
  have hq1 := h1 q1 (by simp)
  have hl : 0 < l.prod := by
    rw [← BasisExt.prodN_eq_prod]
    exact BasisExt.prodN_pos l (fun a ha => by have := h1 a (by simp [ha]); omega)
  have hq0 := h1 q0 (by simp)
  have h2 : 2 * t ≤ RPoly.prod (q0 :: q1 :: l) ∧ 0 < RPoly.prod (q0 :: q1 :: l) := by
    rw [rprod_eq, List.prod_cons, List.prod_cons]
    have h3 : 2 ≤ q1 * l.prod := by nlinarith
    have : q0 * 2 ≤ q0 * (q1 * l.prod) := Nat.mul_le_mul_left q0 h3
    omega
  generalize RPoly.prod (q0 :: q1 :: l) = Q at h2 ⊢
  omega

/-- MODEL-LEVEL REMARK (not reachable through `bgv.NewParameters`, which enforces `t ≤ Q[0]`): `hQ'` cannot be dropped
    from `ringQ2T_ringT2Q`.  With `t = 11`, `Q = 3·7 = 2t − 1`, gap 2, the residue `10 = ⌊Q/2⌋` is centred to `10 − 21`
    by `PolyToBigintCentered` (`x ≥ Q>>1`) and decodes to `0`; the gap-1 branch and a single modulus `23` return it. -/
theorem levelpos_gap_boundary_counterexample :
    ringQ2T 11 2 (ringT2Q [3, 7] 11 4 true [10, 3]) = [0, 3]
    ∧ ringQ2T 11 2 (ringT2Q [3, 7] 11 2 true [10, 3]) = [10, 3]
    ∧ ringQ2T 11 2 (ringT2Q [23] 11 4 true [10, 3]) = [10, 3] := by decide +kernel

/-- the hypothesis `2(t−1) < q0` is necessary: with `t = 13 ≤ q0 = 17` (accepted by `bgv.NewParameters`,
    which only checks `t ≤ Q[0]`), the residue 12 is NOT recovered at level 0. -/
theorem level0_large_t_counterexample :
    ringQ2T 13 8 (ringT2Q [17] 13 8 true [12, 0, 0, 0, 0, 0, 0, 0]) ≠ [12, 0, 0, 0, 0, 0, 0, 0]
    ∧ ringQ2T 13 8 (ringT2Q [53] 13 8 true [12, 0, 0, 0, 0, 0, 0, 0]) = [12, 0, 0, 0, 0, 0, 0, 0] := by
  decide +kernel

/-! ### Decode ∘ Encode through `R_Q` -/

/-- an encoder instance built the way `NewEncoder` does (index table = `permuteMatrix K`) satisfies `ParamsOK` -/
theorem paramsOK_mk (P : Params) (K g : ℕ) (hK : 1 ≤ K) (hT : NTT.Valid P.T K) (hperm : P.perm = permuteMatrix K)
    (hN : P.bigN = P.T.n * g) (hg : 0 < g) (hne : P.qs ≠ []) (hc : P.qs.Pairwise Nat.Coprime)
    (h1 : ∀ q ∈ P.qs, 1 < q) (hct : ∀ q ∈ P.qs, Nat.Coprime P.T.q q)
    (hQ : 2 * (P.T.q - 1) < RPoly.prod P.qs)
    (hQ' : 1 < P.qs.length → g ≠ 1 → P.T.q ≤ RPoly.prod P.qs / 2) : ParamsOK P K g where
  valid := hT
  perm_nodup := by rw [hperm]; exact permuteMatrix_nodup K hK
  perm_lt := by rw [hperm, hT.n_eq]; exact permuteMatrix_lt K hK
  perm_full := by rw [hperm, hT.n_eq]; exact permuteMatrix_length K hK
  bigN_eq := hN
  g_pos := hg
  qs_ne := hne
  qs_coprime := hc
  qs_gt := h1
  qs_t := hct
  hQ := hQ
  hQ' := hQ'

/-- **decode_encode** (`Encoder.Encode` then `Encoder.Decode`, batched, `[]uint64`): every vector no longer than the
    slot count comes back modulo `t`, zero in the unspecified slots — any level, any gap, any scale with `t ∤ scale`. -/
theorem decode_encode_batched (P : Params) (K g : ℕ) (h : ParamsOK P K g) (v : List ℕ) (scale len : ℕ)
    (a : RPoly) (hs : ¬ P.T.q ∣ scale) (hlen : len ≤ P.T.n) (henc : encode P true scale (.u v) = some a) :
    decodeU P true scale a len = ((v.map (· % P.T.q)) ++ List.replicate (P.T.n - v.length) 0).take len :=
  decode_encode_batched_U P K g h v scale len a hs hlen henc

/-- batched, `[]int64` in / `[]int64` out: `center(c mod t)` (see `decode_signed_range`, `decode_signed_exact`) -/
theorem decode_encode_batched_signed (P : Params) (K g : ℕ) (h : ParamsOK P K g) (v : List ℤ) (scale len : ℕ)
    (a : RPoly) (hv : ∀ c ∈ v, -(2 ^ 63 : ℤ) ≤ c ∧ c < (2 ^ 63 : ℤ)) (hs : ¬ P.T.q ∣ scale)
    (hlen : len ≤ P.T.n) (henc : encode P true scale (.i v) = some a) :
    decodeI P true scale a len
      = (((v.map fun c => (c % (P.T.q : ℤ)).toNat) ++ List.replicate (P.T.n - v.length) 0).take len).map
          (centerI64 P.T.q) := by
  unfold decodeI
  rw [decode_encode_batched_I P K g h v scale len a hv hs hlen henc]

/-- coefficient domain (`IsBatched = false`), `[]uint64` -/
theorem decode_encode_coeff (P : Params) (K g : ℕ) (h : ParamsOK P K g) (v : List ℕ) (scale len : ℕ)
    (a : RPoly) (hs : ¬ P.T.q ∣ scale) (henc : encode P false scale (.u v) = some a) :
    decodeU P false scale a len = ((v.map (· % P.T.q)) ++ List.replicate (P.T.n - v.length) 0).take len :=
  decode_encode_coeff_U P K g h v scale len a hs henc

/-- coefficient domain, `[]int64` in / `[]int64` out -/
theorem decode_encode_coeff_signed (P : Params) (K g : ℕ) (h : ParamsOK P K g) (v : List ℤ) (scale len : ℕ)
    (a : RPoly) (hv : ∀ c ∈ v, -(2 ^ 63 : ℤ) ≤ c ∧ c < (2 ^ 63 : ℤ)) (hs : ¬ P.T.q ∣ scale)
    (henc : encode P false scale (.i v) = some a) :
    decodeI P false scale a len
      = (((v.map fun c => (c % (P.T.q : ℤ)).toNat) ++ List.replicate (P.T.n - v.length) 0).take len).map
          (centerI64 P.T.q) := by
  unfold decodeI
  rw [decode_encode_coeff_I P K g h v scale len a hv hs henc]

/-- `Encode` on a batched plaintext IS `EmbedScale(values, scaleUp = true, pt.MetaData, pt.Value)` (encoder.go:133):
    in canonical form both are `RingT2Q(T⁻¹·EncodeRingT(values))`.  `Embed`/`EmbedScale` then only change the
    REPRESENTATION (NTT if `IsNTT`, ·2^64 if `IsMontgomery`), which the tie lines undo according to the metadata
    and the probes `embed_metadata` / `embed_mont_mul` check on the raw output. -/
theorem embed_scaleUp_eq_encode (P : Params) (scale : Nat) (vals : Vals) :
    embed P P.qs true scale vals = encode P true scale vals := by
  cases vals <;> rfl

/-! ### the product of two plaintexts in `R_Q` -/

/-- **ringQ2T_mul.**  Reduced plaintext polynomials `p₁, p₂ ∈ Z_t[Y]/(Y^n+1)` lifted to `R_Q` by `RingT2Q` (gap
    `g`, times `T⁻¹ mod Q`): `RingQ2T(T·(lift p₁ · lift p₂)) = p₁ ⊛ p₂ (mod t)`, for every level and gap, provided the
    integer negacyclic product does not wrap modulo `Q`: `2·n·(t−1)² + 1 < Q`. -/
theorem ringQ2T_mul (qs : List ℕ) (t n g : ℕ) (pa pb : List ℕ) (hne : qs ≠ [])
    (hc : qs.Pairwise Nat.Coprime) (h1 : ∀ q ∈ qs, 1 < q) (hct : ∀ q ∈ qs, Nat.Coprime t q)
    (ht : 0 < t) (hn : 0 < n) (hg : 0 < g) (hal : pa.length = n) (hbl : pb.length = n)
    (ha : ∀ e ∈ pa, e < t) (hb : ∀ e ∈ pb, e < t)
    (hB : 2 * (n * ((t - 1) * (t - 1))) + 1 < RPoly.prod qs) :
    ringQ2T t n (RPoly.scale (ringT2Q qs t (n * g) true pa * ringT2Q qs t (n * g) true pb) t)
      = RPoly.rowMul t pa pb :=
  Lattigo.EncoderT.ringQ2T_mul qs t n g pa pb hne hc h1 hct ht hn hg hal hbl ha hb hB

/-- **encode_mul_RQ** (the clause "encoded plaintexts multiply slot-wise", on the plaintexts the library produces).
    `Encode` two vectors at scales `s₁`, `s₂` into `a, b ∈ R_Q` (any level / gap satisfying `ParamsOK`); `Decode` at a
    scale `s ≡ s₁s₂ (mod t)`, `t ∤ s`, of `T·(a·b)` — product of `R_Q`, one factor `T` for the second `T⁻¹` — returns
    the slot-wise product, zero where either vector is unspecified; hypothesis: `2·n·(t−1)² + 1 < Q` (no wrap). -/
theorem encode_mul_RQ (P : Params) (K g : ℕ) (h : ParamsOK P K g)
    (hinv : NTT.TableInv (NTT.rho P.T.q P.T.rootsF) (2 ^ K))
    (hB : 2 * (P.T.n * ((P.T.q - 1) * (P.T.q - 1))) + 1 < RPoly.prod P.qs)
    (u v : List ℕ) (su sv s len : ℕ) (a b : RPoly)
    (hs : s % P.T.q = su * sv % P.T.q) (hsd : ¬ P.T.q ∣ s) (hlen : len ≤ P.T.n)
    (henca : encode P true su (.u u) = some a) (hencb : encode P true sv (.u v) = some b) :
    decodeU P true s (RPoly.scale (a * b) P.T.q) len
      = (List.zipWith (fun x y => x * y % P.T.q)
          ((u.map (· % P.T.q)) ++ List.replicate (P.T.n - u.length) 0)
          ((v.map (· % P.T.q)) ++ List.replicate (P.T.n - v.length) 0)).take len :=
  Lattigo.EncoderT.encode_mul_RQ P K g h hinv hB u v su sv s len a b hs hsd hlen henca hencb

/-! ### `EmbedScale` into a `ringqp.Poly`: the Q part and the P part hold the same integers (fix C07-5) -/

/-- **embedScale_qp_same_integer.**  With `scaleUp`, every row of the Q part (`RingT2Q`) and of the P part
    (`ringT2P`) is the residue of ONE integer polynomial `X = gapEmbed(p)·(T⁻¹ mod Q_level)`: the pair is an element
    of `R_QP` (before the fix the P part used the moduli and the inverse of `Q`). -/
theorem embedScale_qp_same_integer (qs ps : List ℕ) (t N : ℕ) (p : List ℕ) :
    (ringT2Q qs t N true p).c
      = qs.map (fun q => ((gapEmbed (N / p.length) N p).map
          (· * RPoly.modInv (t % RPoly.prod qs) (RPoly.prod qs))).map (· % q))
    ∧ (ringT2P qs ps t N true p).c
      = ps.map (fun m => ((gapEmbed (N / p.length) N p).map
          (· * RPoly.modInv (t % RPoly.prod qs) (RPoly.prod qs))).map (· % m)) := by
  unfold ringT2Q ringT2P
  simp only [if_true, List.map_map]
  refine ⟨?_, ?_⟩ <;>
  · apply List.map_congr_left
    intro m _
    apply List.map_congr_left
    intro x _
    simp only [Function.comp, Nat.mul_mod_mod]

/-- … and that integer polynomial is a lift of `T⁻¹·m`: `T·X ≡ gapEmbed(p) (mod Q_level)` coefficient-wise -/
theorem embedScale_qp_lift (qs : List ℕ) (t : ℕ) (hne : qs ≠ []) (h1 : ∀ q ∈ qs, 1 < q)
    (hct : ∀ q ∈ qs, Nat.Coprime t q) (x : ℕ) :
    (t * (x * RPoly.modInv (t % RPoly.prod qs) (RPoly.prod qs))) % RPoly.prod qs = x % RPoly.prod qs := by
  have hQ1 := rprod_gt_one qs hne h1
  have hcop : Nat.Coprime (t % RPoly.prod qs) (RPoly.prod qs) := by
    show Nat.gcd (t % RPoly.prod qs) (RPoly.prod qs) = 1
    rw [← Nat.gcd_rec, Nat.gcd_comm, rprod_eq]
    exact Nat.coprime_list_prod_right_iff.mpr hct
  have hinv := Lattigo.EncoderT.modInv_spec (t % RPoly.prod qs) (RPoly.prod qs) hQ1 hcop
  have e : t * (x * RPoly.modInv (t % RPoly.prod qs) (RPoly.prod qs))
      = x * (t * RPoly.modInv (t % RPoly.prod qs) (RPoly.prod qs)) := by ring
  have h2 : t * RPoly.modInv (t % RPoly.prod qs) (RPoly.prod qs) % RPoly.prod qs = 1 := by
    rw [← Nat.mod_mul_mod]; exact hinv
  rw [e, Nat.mul_mod, h2, Nat.mul_one, Nat.mod_mod]

/-- without `scaleUp` (`Embed`) both parts are the plain residues of the gap embedding -/
theorem embed_qp_plain (qs ps : List ℕ) (t N : ℕ) (p : List ℕ) :
    (ringT2Q qs t N false p).c = qs.map (fun q => (gapEmbed (N / p.length) N p).map (· % q))
    ∧ (ringT2P qs ps t N false p).c = ps.map (fun m => (gapEmbed (N / p.length) N p).map (· % m)) := by
  unfold ringT2Q ringT2P
  simp

/-! ### non-vacuity / concrete instances -/

/-- `n = 8`, `t = 17`, `ψ` from `g = 3`: the generated tables satisfy `Valid` and the table invariant -/
def T8 : NTT.Tables := NTT.mkTables (2 ^ 3) 17 (2 ^ 4) 3

theorem T8_valid : NTT.Valid T8 3 ∧ NTT.TableInv (NTT.rho T8.q T8.rootsF) (2 ^ 3) :=
  Lattigo.Props.C01NTT.tables_invariant 3 17 3 (by norm_num) (by decide) (by decide) (by decide)

/-- the hypotheses of `decode_encode_T` / `encode_mul` are met by a concrete instance … -/
example : NTT.Valid T8 3 ∧ (List.replicate 8 9).length = T8.n ∧ ¬ T8.q ∣ 5 ∧ 5 % T8.q = 6 * 15 % T8.q := by
  refine ⟨T8_valid.1, by decide, by decide, by decide⟩

/-- … on which the conclusions can be watched (evaluation) -/
example : (encodeRingTU T8 (permuteMatrix 3) [3, 20, 16] 5 (List.replicate 8 9)).map
      (fun p => decodeRingTU T8 (permuteMatrix 3) 5 p 8) = some [3, 3, 16, 0, 0, 0, 0, 0] := by
  decide +kernel

example : (encodeRingTI T8 (permuteMatrix 3) [-17, -1, -9223372036854775808, 8] 5 (List.replicate 8 99)).map
      (fun p => decodeRingTI T8 (permuteMatrix 3) 5 p 5) = some [0, -1, -9, -9, 0] := by
  decide +kernel

example : (do
      let pu ← encodeRingTU T8 (permuteMatrix 3) [3, 20, 16] 6 (List.replicate 8 9)
      let pv ← encodeRingTU T8 (permuteMatrix 3) [2, 5, 16, 7] 15 (List.replicate 8 1)
      pure (decodeRingTU T8 (permuteMatrix 3) 5 (RPoly.rowMul T8.q pu pv) 8))
    = some [6, 15, 1, 0, 0, 0, 0, 0] := by
  decide +kernel

/-- an encoder instance at level 1 (`Q = 97·193`), `N = 16 = 2n`: `ParamsOK` holds … -/
def P8 : Params := { T := T8, perm := permuteMatrix 3, bigN := 16, qs := [97, 193] }

example : ParamsOK P8 3 2 :=
  paramsOK_mk P8 3 2 (by decide) T8_valid.1 rfl (by decide) (by decide) (by decide) (by decide) (by decide)
    (by decide) (by decide) (by decide)

/-- … and the conclusions can be watched (evaluation) -/
example : (encode P8 true 5 (.u [3, 20, 16])).map (fun a => decodeU P8 true 5 a 8)
      = some [3, 3, 16, 0, 0, 0, 0, 0]
    ∧ (encode P8 true 5 (.i [-3, 20, -17, 8])).map (fun a => decodeI P8 true 5 a 6) = some [-3, 3, 0, -9, 0, 0]
    ∧ (encode P8 false 5 (.u [3, 20, 16])).map (fun a => decodeU P8 false 5 a 8)
      = some [3, 3, 16, 0, 0, 0, 0, 0] := by
  decide +kernel

/-- `encode_mul_RQ` on `P8` (`n = 8`, `t = 17`, `Q = 97·193 = 18721 > 2·8·16² + 1`, gap 2): an instance obtained
    FROM THE THEOREM, hypotheses discharged (`s = 5 ≡ 6·15`) -/
def a8 : RPoly := (encode P8 true 6 (.u [3, 20, 16])).getD default
def b8 : RPoly := (encode P8 true 15 (.u [2, 5, 16, 7])).getD default

example : decodeU P8 true 5 (RPoly.scale (a8 * b8) 17) 8
    = (List.zipWith (fun x y => x * y % 17)
        (([3, 20, 16] : List ℕ).map (· % 17) ++ List.replicate (8 - 3) 0)
        (([2, 5, 16, 7] : List ℕ).map (· % 17) ++ List.replicate (8 - 4) 0)).take 8 :=
  encode_mul_RQ P8 3 2
    (paramsOK_mk P8 3 2 (by decide) T8_valid.1 rfl (by decide) (by decide) (by decide) (by decide) (by decide)
      (by decide) (by decide) (by decide))
    T8_valid.2 (by decide) [3, 20, 16] [2, 5, 16, 7] 6 15 5 8 a8 b8 (by decide) (by decide) (by decide)
    (by decide +kernel) (by decide +kernel)

/-- TEST (evaluation): the decoded product, and the Q / P parts of `EmbedScale(scaleUp)` for `P = [257]` -/
example : decodeU P8 true 5 (RPoly.scale (a8 * b8) 17) 8 = [6, 15, 1, 0, 0, 0, 0, 0]
    ∧ ((embedP P8 [257] true 5 (.u [3, 20, 16])).map (·.c))
        = ((encodeRingTU T8 (permuteMatrix 3) [3, 20, 16] 5 (List.replicate 8 0)).map fun p =>
            [(gapEmbed 2 16 p).map (· * RPoly.modInv (17 % 18721) 18721 % 257)]) := by
  decide +kernel

/-- a 16-bit instance of the hypotheses: the Fermat prime `65537`, `n = 16` -/
example : NTT.Valid (NTT.mkTables (2 ^ 4) 65537 (2 ^ 5) 3) 4 :=
  (Lattigo.Props.C01NTT.tables_invariant 4 65537 3 (by norm_num) (by decide) (by decide) (by decide +kernel)).1

end Lattigo.EncoderT.C07

#print axioms Lattigo.EncoderT.C07.permuteMatrix_perm
#print axioms Lattigo.EncoderT.C07.permuteMatrix_ok
#print axioms Lattigo.EncoderT.C07.ntt_intt
#print axioms Lattigo.EncoderT.C07.modExp_fermat
#print axioms Lattigo.EncoderT.C07.decode_encode_T
#print axioms Lattigo.EncoderT.C07.decode_encode_T_anyperm
#print axioms Lattigo.EncoderT.C07.decode_encode_T_mkTables
#print axioms Lattigo.EncoderT.C07.decode_encode_T_int64
#print axioms Lattigo.EncoderT.C07.decode_encode_T_signed
#print axioms Lattigo.EncoderT.C07.decode_signed_exact
#print axioms Lattigo.EncoderT.C07.encode_mul
#print axioms Lattigo.EncoderT.C07.T8_valid
#print axioms Lattigo.EncoderT.C07.modInv_spec
#print axioms Lattigo.EncoderT.C07.crt_spec
#print axioms Lattigo.EncoderT.C07.ringQ2T_ringT2Q
#print axioms Lattigo.EncoderT.C07.size_of_level_pos
#print axioms Lattigo.EncoderT.C07.levelpos_gap_boundary_counterexample
#print axioms Lattigo.EncoderT.C07.paramsOK_mk
#print axioms Lattigo.EncoderT.C07.decode_encode_batched
#print axioms Lattigo.EncoderT.C07.decode_encode_batched_signed
#print axioms Lattigo.EncoderT.C07.decode_encode_coeff
#print axioms Lattigo.EncoderT.C07.decode_encode_coeff_signed
#print axioms Lattigo.EncoderT.C07.decode_signed_range
#print axioms Lattigo.EncoderT.C07.decode_signed_boundary
#print axioms Lattigo.EncoderT.C07.encode_signed
#print axioms Lattigo.EncoderT.C07.embed_scaleUp_eq_encode
#print axioms Lattigo.EncoderT.C07.ringQ2T_mul
#print axioms Lattigo.EncoderT.C07.encode_mul_RQ
#print axioms Lattigo.EncoderT.C07.embedScale_qp_same_integer
#print axioms Lattigo.EncoderT.C07.embedScale_qp_lift
#print axioms Lattigo.EncoderT.C07.embed_qp_plain
#print axioms Lattigo.EncoderT.C07.permuteMatrix_ok_upto8
#print axioms Lattigo.EncoderT.C07.ringQ2T_ringT2Q_level0_coeff
#print axioms Lattigo.EncoderT.C07.level0_large_t_counterexample
