import Lattigo.Proofs.RPolyRing
import Lattigo.Proofs.RPolyRefine
import Lattigo.Props.C03
import Lattigo.Props.C04
/-!
  # C01 — the abstract ring layer `RPoly` IS a commutative ring, and the word-level code implements it

  The scheme-level theorems of C03, C04, C14, C16, C20 are proved for every `[CommRing α]` and the driver
  executes the same generic models on `RPoly` (`Model/RPoly.lean`: canonical RNS polynomials, one row of
  `n` reduced coefficients per modulus, schoolbook negacyclic product).  This file closes the gap
  between the two:

  1. **rows** (`Proofs/RPolyRing.lean`): `toQuot q n : List ℕ → Z_q[X]/(X^n+1)` (`AdjoinRoot`) turns
     `rowAdd/rowSub/rowNeg/rowMul/rowScale` into `+ − neg * (k·)`, is injective and surjective on
     well-formed rows (`RowWF q n`: length `n`, entries `< q`); hence the commutative-ring laws for the
     executable row operations (`q ≥ 2`, `n ≥ 1`; primality NOT needed).
  2. **polynomials**: `WFPoly qs n = {p : RPoly // p.qs = qs ∧ p.WF n}` is closed under the model's
     `+ − * neg`, carries a `CommRing` instance whose operations ARE the model's (`val_add … : rfl`), and
     `WFPoly qs n ≃+* Π_i Z_{q_i}[X]/(X^n+1)`.  The generic theorems instantiate (`§4`).
  3. `rowAut g` is the ring automorphism `X ↦ X^g` (`g` odd, coprime to `n`), `rowMonomial k` is the
     multiplication by the unit `X^k` (`k : ℤ`); lifted to `WFPoly` (`autRingHom`, `mulMonomial_eq_mul`);
     `RQ.mont` (the driver's Montgomery pair) satisfies `IsMont` for odd moduli (`wf_mont`; uses
     `modInv_spec`: the executable extended Euclid `RPoly.modInv` IS the modular inverse).
  4. **refinement** (`Proofs/RPolyRefine.lean`): with `absRow T isNTT isMont` the abstraction function
     from stored limbs (flags `IsNTT`, `IsMontgomery`) to abstract rows, the word-level kernels
     `Add/Sub/Neg/MulCoeffsMontgomery/MForm/IMForm/NTT/INTT` (the regenerated lane functions of
     `Gen/VecLanes.lean`, the NTT of `Model/NTT.lean`) commute with `rowAdd/rowSub/rowNeg/rowMul`, for ALL
     reduced limb vectors, row-wise (`refine_*`, `refine_*_all`) and for whole RNS polynomials
     (`refine_*_poly`).  Composed with 1: the limbs, read in `Z_q[X]/(X^n+1)`, are added / multiplied
     as ring elements (`words_*` below).

  Hypotheses: `Valid T K` and the table invariant (both proved for the tables the code generates:
  `C01NTT.tables_invariant`), i.e. `n = 2^K`, `q` prime, `q ≡ 1 (2n)`, `8q ≤ 2^64`.

  REMAINING GAP (stated, not proved here):
  * lazy kernels (words in `[0, 2q)` …) are not connected to `absRow` beyond the final `% q`
    (their word-level congruences and ranges are in `C01Words`; the lazy NTTs in `C01NTT` / `C01QP §3`);
  * `MulScalar*` / `AddScalar*` are not connected to `rowScale` by a theorem (tied: driver op `ringop`; probed
    against big integers: `ringop_ref`);
  * `RPoly.crt`/`toInts` (CRT reconstruction) are not related to the ring structure here.
  CLOSED ELSEWHERE since this file was written: the NTT-domain automorphism of the standard ring is connected to
  `rowAut` by `C01Aut.autNTT_spec` (conjugate-invariant index table: `C11.nttIndex_perm_ci`); the conjugate-invariant
  carrier (`RQ` with `ci = true`, `ciRowMul`) is the subring of `WFPoly qs (2n)` fixed by `X ↦ X⁻¹`
  (`Proofs/RLWECI.lean`, C03), and its coefficient-domain automorphism is `C01QP.aut_ci_restriction / aut_ci_closed`.
-/
namespace Lattigo.Props.C01Ring
open Lattigo Lattigo.Gen Lattigo.NTT Lattigo.RPolyRing Lattigo.RPolyRefine Polynomial

/-! ## 1. Rows: `rowMul` is the product of `Z_q[X]/(X^n+1)` -/

/-- **row_hom.** On rows of length `n`, `toQuot` maps the executable row operations to the ring
operations of `Z_q[X]/(X^n+1)` (`0 < q`; no primality, no reducedness needed). -/
theorem row_hom {q n : ℕ} (hq : 0 < q) (a b : List ℕ) (ha : a.length = n) (hb : b.length = n) (k : ℕ) :
    toQuot q n (RPoly.rowAdd q a b) = toQuot q n a + toQuot q n b
    ∧ toQuot q n (RPoly.rowSub q a b) = toQuot q n a - toQuot q n b
    ∧ toQuot q n (RPoly.rowNeg q a) = -toQuot q n a
    ∧ toQuot q n (RPoly.rowMul q a b) = toQuot q n a * toQuot q n b
    ∧ toQuot q n (RPoly.rowScale k q a) = (k : Rq q n) * toQuot q n a
    ∧ toQuot q n (zeroRow n) = 0
    ∧ (1 ≤ n → toQuot q n (oneRow n) = 1) :=
  ⟨toQuot_rowAdd a b ha hb, toQuot_rowSub hq a b ha hb, toQuot_rowNeg hq a ha, toQuot_rowMul hq a b ha,
   toQuot_rowScale k a ha, toQuot_zeroRow, toQuot_oneRow⟩

/-- **row_bijective.** `toQuot` restricted to well-formed rows is a bijection onto `Z_q[X]/(X^n+1)`. -/
theorem row_bijective {q n : ℕ} (hq : 2 ≤ q) (hn : 1 ≤ n) :
    (∀ a b, RowWF q n a → RowWF q n b → toQuot q n a = toQuot q n b → a = b)
    ∧ ∀ x : Rq q n, ∃ a, RowWF q n a ∧ toQuot q n a = x :=
  ⟨fun _ _ ha hb h => toQuot_inj hq hn ha hb h, toQuot_surj hq hn⟩

/-- **row_closed.** The row operations preserve well-formedness. -/
theorem row_closed {q n : ℕ} (hq : 2 ≤ q) (hn : 1 ≤ n) (a b : List ℕ) (ha : RowWF q n a)
    (hb : RowWF q n b) (g : ℕ) (hg : Nat.Coprime g n) (k : ℤ) :
    RowWF q n (RPoly.rowAdd q a b) ∧ RowWF q n (RPoly.rowSub q a b) ∧ RowWF q n (RPoly.rowNeg q a)
    ∧ RowWF q n (RPoly.rowMul q a b) ∧ RowWF q n (zeroRow n) ∧ RowWF q n (oneRow n)
    ∧ RowWF q n (RPoly.rowAut g q a) ∧ RowWF q n (RPoly.rowMonomial k q a) :=
  ⟨ha.add (by omega) hb, ha.sub (by omega) hb, ha.neg (by omega), ha.mul b (by omega),
   RowWF.zero (by omega), RowWF.one hq, ha.aut (by omega) hn g hg, ha.monomial (by omega) hn k⟩

/-- **row_ring_laws.** The commutative-ring laws of the executable row operations on well-formed rows. -/
theorem row_ring_laws {q n : ℕ} (hq : 2 ≤ q) (hn : 1 ≤ n) (a b c : List ℕ) (ha : RowWF q n a)
    (hb : RowWF q n b) (hc : RowWF q n c) :
    RPoly.rowAdd q a b = RPoly.rowAdd q b a
    ∧ RPoly.rowAdd q (RPoly.rowAdd q a b) c = RPoly.rowAdd q a (RPoly.rowAdd q b c)
    ∧ RPoly.rowAdd q a (zeroRow n) = a
    ∧ RPoly.rowAdd q a (RPoly.rowNeg q a) = zeroRow n
    ∧ RPoly.rowSub q a b = RPoly.rowAdd q a (RPoly.rowNeg q b)
    ∧ RPoly.rowMul q a b = RPoly.rowMul q b a
    ∧ RPoly.rowMul q (RPoly.rowMul q a b) c = RPoly.rowMul q a (RPoly.rowMul q b c)
    ∧ RPoly.rowMul q a (oneRow n) = a
    ∧ RPoly.rowMul q a (zeroRow n) = zeroRow n
    ∧ RPoly.rowMul q a (RPoly.rowAdd q b c) = RPoly.rowAdd q (RPoly.rowMul q a b) (RPoly.rowMul q a c)
    ∧ RPoly.rowMul q (RPoly.rowAdd q a b) c = RPoly.rowAdd q (RPoly.rowMul q a c) (RPoly.rowMul q b c) :=
  ⟨rowAdd_comm hq hn ha hb, rowAdd_assoc hq hn ha hb hc, rowAdd_zero hq hn ha, rowAdd_neg hq hn ha,
   rowSub_eq_add_neg hq hn ha hb, rowMul_comm hq hn ha hb, rowMul_assoc hq hn ha hb, rowMul_one hq hn ha,
   rowMul_zero hq hn ha, rowMul_add hq hn ha hb hc, rowAdd_mul hq hn ha hb hc⟩

/-- non-vacuity: well-formed rows for `q = 65537`, `n = 16` -/
example : RowWF 65537 16 ((List.range 16).map (fun i => 65536 - 4000 * i))
    ∧ RowWF 65537 16 ((List.range 16).map (fun i => i * i + 1)) :=
  ⟨⟨by decide, by decide⟩, ⟨by decide, by decide⟩⟩
/-- … and for a composite modulus (primality is not needed): `q = 6`, `n = 3` -/
example : RowWF 6 3 [5, 0, 3] := ⟨by decide, by decide⟩
/-- TEST (evaluation): `(1 + X)(X^2) = X^2 + X^3 = −1 + X^2` in `Z_6[X]/(X^3+1)` -/
example : RPoly.rowMul 6 [1, 1, 0] [0, 0, 1] = [5, 0, 1] := by decide

/-! ## 2. Galois maps and monomials -/

/-- **row_aut.** `rowAut g` is the ring endomorphism `X ↦ X^g` of `Z_q[X]/(X^n+1)` (`g` odd and coprime
to `n`, e.g. `n = 2^K`), and that endomorphism is bijective. -/
theorem row_aut {q n : ℕ} (hq : 0 < q) (hn : 1 ≤ n) (g : ℕ) (hg : Odd g) (hc : Nat.Coprime g n)
    (a : List ℕ) (ha : a.length = n) :
    toQuot q n (RPoly.rowAut g q a) = autHom q n g hg (toQuot q n a)
    ∧ autHom q n g hg (AdjoinRoot.root _) = (AdjoinRoot.root (X ^ n + 1 : (ZMod q)[X])) ^ g
    ∧ Function.Bijective (autHom q n g hg) :=
  ⟨toQuot_rowAut hq hn g hg hc a ha, autHom_root g hg, autHom_bijective hn g hg hc⟩

/-- **row_monomial.** `rowMonomial k` is the multiplication by `X^k`, `k` any integer (`X` is a unit:
`X · (−X^{n−1}) = 1`). -/
theorem row_monomial {q n : ℕ} (hq : 0 < q) (hn : 1 ≤ n) (k : ℤ) (a : List ℕ) (ha : a.length = n) :
    toQuot q n (RPoly.rowMonomial k q a) = ((rootUnit q n hn ^ k : (Rq q n)ˣ) : Rq q n) * toQuot q n a
    ∧ ((rootUnit q n hn : (Rq q n)ˣ) : Rq q n) = AdjoinRoot.root _ :=
  ⟨toQuot_rowMonomial hq hn k a ha, rfl⟩

example : Odd 5 ∧ Nat.Coprime 5 16 := ⟨by decide, by decide⟩
/-- TEST (evaluation): `X ↦ X^3` on `1 + 2X + 3X^2 + 4X^3` in `Z_17[X]/(X^4+1)`:
`1 + 2X^3 + 3X^6 + 4X^9 = 1 + 4X − 3X^2 + 2X^3` -/
example : RPoly.rowAut 3 17 [1, 2, 3, 4] = [1, 4, 14, 2] := by decide
example : RPoly.rowMonomial (-1) 17 [1, 2, 3, 4] = [2, 3, 4, 16] := by decide

/-! ## 3. `RPoly`: the commutative ring `WFPoly qs n` -/

/-- **wf_ops.** The ring operations of `WFPoly qs n` are the model's operations on `RPoly`. -/
theorem wf_ops {qs : List ℕ} {n : ℕ} [Good qs n] (a b : WFPoly qs n) (k : ℕ) (g : ℕ)
    (hc : Nat.Coprime g n) (m : ℤ) :
    (a + b).1 = a.1 + b.1 ∧ (a - b).1 = a.1 - b.1 ∧ (a * b).1 = a.1 * b.1 ∧ (-a).1 = -a.1
    ∧ (0 : WFPoly qs n).1 = RPoly.zero qs n ∧ (a.scale k).1 = a.1.scale k
    ∧ (WFPoly.aut g hc a).1 = a.1.aut g ∧ (a.mulMonomial m).1 = a.1.mulMonomial m
    ∧ (WFPoly.mont.toM a).1 = (RLWE.RQ.mont.toM ⟨false, a.1⟩).p
    ∧ (WFPoly.mont.ofM a).1 = (RLWE.RQ.mont.ofM ⟨false, a.1⟩).p :=
  ⟨rfl, rfl, rfl, rfl, rfl, rfl, rfl, rfl, rfl, rfl⟩

/-- the driver's carrier `RLWE.RQ` in the standard ring (`ci = false`) is `RPoly` with a tag: its
operations are the `RPoly` operations (so everything below transfers to `RQ` values with `ci = false`) -/
theorem rq_std_ops (a b : RPoly) :
    ((⟨false, a⟩ : RLWE.RQ) + ⟨false, b⟩ = ⟨false, a + b⟩)
    ∧ ((⟨false, a⟩ : RLWE.RQ) - ⟨false, b⟩ = ⟨false, a - b⟩)
    ∧ ((⟨false, a⟩ : RLWE.RQ) * ⟨false, b⟩ = ⟨false, a * b⟩)
    ∧ (-(⟨false, a⟩ : RLWE.RQ) = ⟨false, -a⟩) := ⟨rfl, rfl, rfl, rfl⟩

/-- **wf_ring.** `WFPoly qs n` is a commutative ring (instance `WFPoly.instCommRing`) isomorphic to
`Π_i Z_{q_i}[X]/(X^n+1)`; the isomorphism is row-wise `toQuot`. -/
theorem wf_ring {qs : List ℕ} {n : ℕ} [Good qs n] (a : WFPoly qs n) (i : Fin qs.length) :
    WFPoly.ringEquiv a i = toQuot (qs.get i) n (a.1.c.getD i []) := rfl

/-- **wf_scale**, **wf_monomial**, **wf_aut**: `scale k` is the multiplication by the integer `k`,
`mulMonomial k` by the monomial `X^k`, and `aut g` is a ring endomorphism. -/
theorem wf_scale {qs : List ℕ} {n : ℕ} [Good qs n] (a : WFPoly qs n) (k : ℕ) :
    a.scale k = a * (k : WFPoly qs n) := WFPoly.scale_eq_mul_natCast a k

theorem wf_monomial {qs : List ℕ} {n : ℕ} [Good qs n] (a : WFPoly qs n) (k : ℤ) :
    a.mulMonomial k = a * (1 : WFPoly qs n).mulMonomial k := WFPoly.mulMonomial_eq_mul a k

theorem wf_aut {qs : List ℕ} {n : ℕ} [Good qs n] (g : ℕ) (hg : Odd g) (hc : Nat.Coprime g n)
    (a b : WFPoly qs n) :
    WFPoly.aut g hc (a * b) = WFPoly.aut g hc a * WFPoly.aut g hc b
    ∧ WFPoly.aut g hc (a + b) = WFPoly.aut g hc a + WFPoly.aut g hc b
    ∧ WFPoly.aut g hc (1 : WFPoly qs n) = 1 :=
  ⟨map_mul (WFPoly.autRingHom g hg hc) a b, map_add (WFPoly.autRingHom g hg hc) a b,
   map_one (WFPoly.autRingHom g hg hc)⟩

/-- **modInv_spec.** The executable `RPoly.modInv` (extended Euclid with fuel `2(log2 m + 2)`) returns
the inverse of `a` modulo `m` whenever `gcd(a, m) = 1`. -/
theorem modInv_spec (a m : ℕ) (hm : 2 ≤ m) (hc : Nat.Coprime a m) : (a * RPoly.modInv a m) % m = 1 :=
  RPolyRing.modInv_spec a m hm hc
example : Nat.Coprime 18446744073709551616 65537 := by decide +kernel

/-- **wf_mont.** For odd moduli the driver's Montgomery conversions are the multiplications by the
unit `R = 2^64` and by `R⁻¹`. -/
theorem wf_mont {qs : List ℕ} {n : ℕ} [Good qs n] (hodd : ∀ q ∈ qs, q % 2 = 1) :
    RLWE.IsMont (WFPoly.mont (qs := qs) (n := n)) (WFPoly.constNat fun q => RLWE.RQ.Rword % q)
      (WFPoly.constNat fun q => RPoly.modInv (RLWE.RQ.Rword % q) q) := WFPoly.isMont_mont_of_odd hodd

/-- non-vacuity: two NTT-friendly primes and a composite modulus, degree `16` -/
instance good16 : Good [65537, 114689, 6] 16 := ⟨by decide, by decide⟩
instance good16' : Good [65537, 114689] 16 := ⟨by decide, by decide⟩
example : ∀ q ∈ [65537, 114689], q % 2 = 1 := by decide

/-- a concrete element: `1 + 2X + … + 16 X^15` modulo each modulus -/
def sample16 : WFPoly [65537, 114689, 6] 16 :=
  WFPoly.const (fun q => (List.range 16).map fun i => (i + 1) % q)
    (fun q hq => ⟨by simp, fun x hx => by
      simp only [List.mem_map] at hx
      obtain ⟨i, _, rfl⟩ := hx
      exact Nat.mod_lt _ (by omega)⟩)

/-- the ring laws hold for the MODEL's operations on this element (from the instance, not by evaluation) -/
example : (sample16 * sample16 + sample16).1 = (sample16 * (sample16 + 1)).1 := by
  rw [mul_add, mul_one]

/-! ## 4. The generic scheme-level theorems instantiate at `WFPoly qs n` -/
section instantiate
open Lattigo.RLWE
variable {qs : List ℕ} {n : ℕ} [Good qs n] {μ : Type}

/-- C03 `dec_enc_sk` on the model's carrier, with the driver's Montgomery pair -/
example (hR : ∀ q ∈ qs, q % 2 = 1) (ntt intt : WFPoly qs n → WFPoly qs n) (pt : Pt (WFPoly qs n) μ)
    (ct : Ct (WFPoly qs n) μ) (o0 o1 : WFPoly qs n) (rest : List (WFPoly qs n))
    (hct : ct.value = o0 :: o1 :: rest) (a e s : WFPoly qs n) :
    (encrypt (ezSk WFPoly.mont a e (WFPoly.mont.toM s)) ntt intt (some pt) ct).bind
        (fun ct' => decrypt WFPoly.mont ct' (WFPoly.mont.toM s))
      = some { value := pt.value + montIf WFPoly.mont pt.md.isMont e, md := pt.md } :=
  Lattigo.Props.C03.dec_enc_sk (wf_mont hR) ntt intt pt ct o0 o1 rest hct a e s

/-- C03 `dec_enc_pk_noP` -/
example (hR : ∀ q ∈ qs, q % 2 = 1) (ntt intt : WFPoly qs n → WFPoly qs n) (pt : Pt (WFPoly qs n) μ)
    (ct : Ct (WFPoly qs n) μ) (o0 o1 : WFPoly qs n) (rest : List (WFPoly qs n))
    (hct : ct.value = o0 :: o1 :: rest) (u e0 e1 pk0 pk1 epk s : WFPoly qs n)
    (hpk : pk0 + pk1 * s = epk) :
    (encrypt (ezPkNoP WFPoly.mont u e0 e1 (WFPoly.mont.toM pk0) (WFPoly.mont.toM pk1)) ntt intt
        (some pt) ct).bind (fun ct' => decrypt WFPoly.mont ct' (WFPoly.mont.toM s))
      = some { value := pt.value + montIf WFPoly.mont pt.md.isMont (u * epk + e0 + e1 * s),
               md := pt.md } :=
  Lattigo.Props.C03.dec_enc_pk_noP (wf_mont hR) ntt intt pt ct o0 o1 rest hct u e0 e1 pk0 pk1
    epk s hpk

/-- C03 `wrong_key` -/
example (hR : ∀ q ∈ qs, q % 2 = 1) (ntt intt : WFPoly qs n → WFPoly qs n) (pt : Pt (WFPoly qs n) μ)
    (ct : Ct (WFPoly qs n) μ) (o0 o1 : WFPoly qs n) (rest : List (WFPoly qs n))
    (hct : ct.value = o0 :: o1 :: rest) (a e s s' : WFPoly qs n) :
    ∃ out, (encrypt (ezSk WFPoly.mont a e (WFPoly.mont.toM s)) ntt intt (some pt) ct).bind
          (fun ct' => decrypt WFPoly.mont ct' (WFPoly.mont.toM s')) = some out
      ∧ out.value - pt.value = montIf WFPoly.mont pt.md.isMont e + a * (s' - s) ∧ out.md = pt.md :=
  Lattigo.Props.C03.wrong_key (wf_mont hR) ntt intt pt ct o0 o1 rest hct a e s s'

open Lattigo.KS in
/-- C04 `keyswitch_phase_QP` -/
example (pg : Nat → Nat → WFPoly qs n) (P c sIn sOut : WFPoly qs n)
    (samples : List (List (WFPoly qs n × WFPoly qs n))) (d : List (List (WFPoly qs n)))
    (hG : wsumMat 0 d (pgMat pg samples) = P * c) :
    phase (dotMat 0 d (genEvaluationKey pg sIn sOut samples)) sOut
      = P * c * sIn + wsumMat 0 d (eMat samples) :=
  Lattigo.KS.C04.keyswitch_phase_QP pg P c sIn sOut samples d hG

open Lattigo.KS in
/-- C04 `automorphismHoistedLazy_phase` with the model's Galois map `RPoly.aut g` as `σ` -/
example (g : ℕ) (hg : Odd g) (hc : Nat.Coprime g n) (σinv : WFPoly qs n → WFPoly qs n)
    (pg : Nat → Nat → WFPoly qs n) (P c0 c1 s : WFPoly qs n)
    (samples : List (List (WFPoly qs n × WFPoly qs n))) (d : List (List (WFPoly qs n)))
    (hσ : WFPoly.autRingHom g hg hc (σinv s) = s) (hG : wsumMat 0 d (pgMat pg samples) = P * c1) :
    phase (automorphismHoistedLazy (WFPoly.autRingHom g hg hc)
        (dotMat 0 d (genGaloisKey σinv pg s samples)) (P * c0)) s
      = WFPoly.autRingHom g hg hc (P * phase (c0, c1) s + wsumMat 0 d (eMat samples)) :=
  Lattigo.KS.C04.automorphismHoistedLazy_phase (WFPoly.autRingHom g hg hc) σinv pg P c0 c1 s samples d hσ hG

end instantiate

/-! ## 5. Refinement: the word-level RNS/NTT/Montgomery code implements the row operations -/
section refinement
variable {T : Tables} {K : ℕ}

/-- `Red T` (the side condition of `Proofs/RPolyRefine.lean`) is `RowWF T.q T.n` -/
theorem red_iff_rowWF (T : Tables) (a : List ℕ) : Red T a ↔ RowWF T.q T.n a :=
  ⟨fun h => ⟨h.len, h.lt⟩, fun h => ⟨h.len, h.lt⟩⟩

/-- **refine_mul** (the pipeline the library uses for a ring multiplication):
`INTT (MulCoeffsMontgomery (NTT a) (MForm (NTT b))) = a ⊛ b`, word for word. -/
theorem refine_mul (hT : Valid T K) (hinv : TableInv (rho T.q T.rootsF) (2 ^ K)) (a b : List ℕ)
    (ha : RowWF T.q T.n a) (hb : RowWF T.q T.n b) :
    inttStd T (List.zipWith (fun x y => MRed x y T.q T.qinv) (nttStd T a)
        ((nttStd T b).map (fun y => MForm y T.q T.bred))) = RPoly.rowMul T.q a b :=
  RPolyRefine.refine_mul hT hinv a b ((red_iff_rowWF T a).2 ha) ((red_iff_rowWF T b).2 hb)

/-- **refine_abs_repr**: `absRow` inverts the storage map `reprRow` (and conversely on reduced limbs),
for the four flag combinations. -/
theorem refine_abs_repr (hT : Valid T K) (f g : Bool) (a : List ℕ) (ha : RowWF T.q T.n a) :
    absRow T f g (reprRow T f g a) = a ∧ reprRow T f g (absRow T f g a) = a :=
  ⟨absRow_reprRow hT f g a ((red_iff_rowWF T a).2 ha), reprRow_absRow hT f g a ((red_iff_rowWF T a).2 ha)⟩

/-- **refine_ops** (commuting squares, all reduced limb vectors `x y`, all flag combinations `f g`):
the kernels `Add`, `Sub`, `Neg` act on the abstract rows as `rowAdd`, `rowSub`, `rowNeg`;
`MulCoeffsMontgomery` of an NTT row with an NTT+Montgomery row as `rowMul`; `MForm`, `IMForm`, `NTT`,
`INTT` only change the flags. -/
theorem refine_ops (hT : Valid T K) (hinv : TableInv (rho T.q T.rootsF) (2 ^ K)) (f g : Bool)
    (x y : List ℕ) (hx : RowWF T.q T.n x) (hy : RowWF T.q T.n y) :
    absRow T f g (List.zipWith (fun u v => addvec_lane u v 0 T.q) x y)
        = RPoly.rowAdd T.q (absRow T f g x) (absRow T f g y)
    ∧ absRow T f g (List.zipWith (fun u v => subvec_lane u v 0 T.q) x y)
        = RPoly.rowSub T.q (absRow T f g x) (absRow T f g y)
    ∧ absRow T f g (List.map (fun u => negvec_lane u 0 T.q) x) = RPoly.rowNeg T.q (absRow T f g x)
    ∧ absRow T true false (List.zipWith (fun u v => mulcoeffsmontgomeryvec_lane u v 0 T.q T.qinv) x y)
        = RPoly.rowMul T.q (absRow T true false x) (absRow T true true y)
    ∧ absRow T f true (List.map (fun u => mformvec_lane u 0 T.q T.bred) x) = absRow T f false x
    ∧ absRow T f false (List.map (fun u => imformvec_lane u 0 T.q T.qinv) x) = absRow T f true x
    ∧ absRow T true false (nttStd T x) = absRow T false false x
    ∧ absRow T false false (inttStd T x) = absRow T true false x := by
  have hx' := (red_iff_rowWF T x).2 hx
  have hy' := (red_iff_rowWF T y).2 hy
  exact ⟨refine_add_all hT f g x y hx' hy', refine_sub_all hT f g x y hx' hy', refine_neg_all hT f g x hx',
    refine_mul_all hT hinv x y hx' hy', refine_mform_all hT f x hx', refine_imform_all hT f x hx',
    refine_ntt_all hT x hx', refine_intt_all hT x hx'⟩

/-- the element of `Z_q[X]/(X^n+1)` denoted by stored limbs under the flags `(IsNTT, IsMontgomery)` -/
noncomputable def denote (T : Tables) (isNTT isMont : Bool) (limbs : List ℕ) : Rq T.q T.n :=
  toQuot T.q T.n (absRow T isNTT isMont limbs)

/-- **words_ring** (1 ∘ 4): the word-level kernels compute the ring operations of `Z_q[X]/(X^n+1)` on
the denotations of their operands. -/
theorem words_ring (hT : Valid T K) (hinv : TableInv (rho T.q T.rootsF) (2 ^ K)) (f g : Bool)
    (x y : List ℕ) (hx : RowWF T.q T.n x) (hy : RowWF T.q T.n y) :
    denote T f g (List.zipWith (fun u v => addvec_lane u v 0 T.q) x y) = denote T f g x + denote T f g y
    ∧ denote T f g (List.zipWith (fun u v => subvec_lane u v 0 T.q) x y) = denote T f g x - denote T f g y
    ∧ denote T f g (List.map (fun u => negvec_lane u 0 T.q) x) = -denote T f g x
    ∧ denote T true false (List.zipWith (fun u v => mulcoeffsmontgomeryvec_lane u v 0 T.q T.qinv) x y)
        = denote T true false x * denote T true true y := by
  have hx' := (red_iff_rowWF T x).2 hx
  have hy' := (red_iff_rowWF T y).2 hy
  have hq := hT.q_pos
  obtain ⟨h1, h2, h3, h4, _⟩ := refine_ops hT hinv f g x y hx hy
  unfold denote
  rw [h1, h2, h3, h4]
  exact ⟨toQuot_rowAdd _ _ (hx'.abs hT f g).len (hy'.abs hT f g).len,
    toQuot_rowSub hq _ _ (hx'.abs hT f g).len (hy'.abs hT f g).len,
    toQuot_rowNeg hq _ (hx'.abs hT f g).len,
    toQuot_rowMul hq _ _ (hx'.abs hT true false).len⟩

/-- **refine_poly** (whole RNS polynomials, `ring.Ring.Add/Sub/Neg/MulCoeffsMontgomery` = the loop over
the sub-rings): the stored limbs denote `RPoly` values and the operations are `+ − neg *` of `RPoly`. -/
theorem refine_poly (Ts : List Tables)
    (hTs : ∀ T ∈ Ts, Valid T K ∧ TableInv (rho T.q T.rootsF) (2 ^ K)) (f g : Bool)
    (x y : List (List ℕ)) (hx : RedPoly Ts x) (hy : RedPoly Ts y) :
    absPoly Ts f g (ringOp2 (fun T => List.zipWith (fun u v => addvec_lane u v 0 T.q)) Ts x y)
        = absPoly Ts f g x + absPoly Ts f g y
    ∧ absPoly Ts f g (ringOp2 (fun T => List.zipWith (fun u v => subvec_lane u v 0 T.q)) Ts x y)
        = absPoly Ts f g x - absPoly Ts f g y
    ∧ absPoly Ts f g (ringOp1 (fun T => List.map (fun u => negvec_lane u 0 T.q)) Ts x)
        = -absPoly Ts f g x
    ∧ absPoly Ts true false
        (ringOp2 (fun T => List.zipWith (fun u v => mulcoeffsmontgomeryvec_lane u v 0 T.q T.qinv)) Ts x y)
        = absPoly Ts true false x * absPoly Ts true true y :=
  ⟨refine_add_poly Ts (fun T hT => (hTs T hT).1) f g x y hx hy,
   refine_sub_poly Ts (fun T hT => (hTs T hT).1) f g x y hx hy,
   refine_neg_poly Ts (fun T hT => (hTs T hT).1) f g x hx,
   refine_mul_poly Ts hTs x y hx hy⟩

/-- the polynomial denoted by reduced limbs is well-formed (so it is an element of the ring `WFPoly`) -/
theorem absPoly_wf (Ts : List Tables) (hTs : ∀ T ∈ Ts, Valid T K) (f g : Bool) (x : List (List ℕ))
    (hx : RedPoly Ts x) : (absPoly Ts f g x).WF (2 ^ K) := by
  unfold absPoly RPoly.WF
  induction hx with
  | nil => exact ⟨rfl, fun i hi => absurd hi (by simp)⟩
  | @cons T u Ts' x' hu _ ih =>
    obtain ⟨ihl, ihr⟩ := ih (fun T' hT' => hTs T' (List.mem_cons_of_mem _ hT'))
    refine ⟨by simpa using ihl, fun i hi => ?_⟩
    cases i with
    | zero =>
      have h := (red_iff_rowWF T _).1 (hu.abs (hTs T (List.mem_cons_self ..)) f g)
      rw [(hTs T (List.mem_cons_self ..)).n_eq] at h
      simpa using h
    | succ j =>
      have := ihr j (by simpa using hi)
      simpa using this

/-- the moduli and degree of a list of valid tables are admissible parameters -/
theorem good_of_tables (Ts : List Tables) (hTs : ∀ T ∈ Ts, Valid T K) : Good (Ts.map (·.q)) (2 ^ K) :=
  ⟨Nat.one_le_two_pow, fun q hq => by
    obtain ⟨T, hT, rfl⟩ := List.mem_map.1 hq
    exact (hTs T hT).prime.two_le⟩

/-- stored limbs as an element of the commutative ring `WFPoly` -/
def wfAbs (Ts : List Tables) (hTs : ∀ T ∈ Ts, Valid T K) (f g : Bool) (x : List (List ℕ))
    (hx : RedPoly Ts x) : WFPoly (Ts.map (·.q)) (2 ^ K) :=
  ⟨absPoly Ts f g x, rfl, absPoly_wf Ts hTs f g x hx⟩

/-- **words_poly_ring**: in the commutative ring `WFPoly qs n ≃+* Π_i Z_{q_i}[X]/(X^n+1)`, the RNS
polynomial stored after `ring.Ring.Add / Sub / Neg / MulCoeffsMontgomery` is the sum / difference /
opposite / product of the polynomials stored in the operands. -/
theorem words_poly_ring (Ts : List Tables)
    (hTs : ∀ T ∈ Ts, Valid T K ∧ TableInv (rho T.q T.rootsF) (2 ^ K)) [Good (Ts.map (·.q)) (2 ^ K)]
    (f g : Bool) (x y : List (List ℕ)) (hx : RedPoly Ts x) (hy : RedPoly Ts y) :
    let hV : ∀ T ∈ Ts, Valid T K := fun T hT => (hTs T hT).1
    absPoly Ts f g (ringOp2 (fun T => List.zipWith (fun u v => addvec_lane u v 0 T.q)) Ts x y)
        = (wfAbs Ts hV f g x hx + wfAbs Ts hV f g y hy).1
    ∧ absPoly Ts f g (ringOp2 (fun T => List.zipWith (fun u v => subvec_lane u v 0 T.q)) Ts x y)
        = (wfAbs Ts hV f g x hx - wfAbs Ts hV f g y hy).1
    ∧ absPoly Ts f g (ringOp1 (fun T => List.map (fun u => negvec_lane u 0 T.q)) Ts x)
        = (-wfAbs Ts hV f g x hx).1
    ∧ absPoly Ts true false
        (ringOp2 (fun T => List.zipWith (fun u v => mulcoeffsmontgomeryvec_lane u v 0 T.q T.qinv)) Ts x y)
        = (wfAbs Ts hV true false x hx * wfAbs Ts hV true true y hy).1 :=
  refine_poly Ts hTs f g x y hx hy

/-- non-vacuity: the tables the code generates for `q = 65537`, `N = 16` (`g = 3`) are `Valid` and
satisfy the table invariant; two concrete reduced rows -/
example : (Valid (mkTables (2 ^ 4) 65537 (2 ^ 5) 3) 4
      ∧ TableInv (rho 65537 (mkTables (2 ^ 4) 65537 (2 ^ 5) 3).rootsF) (2 ^ 4))
    ∧ RowWF (mkTables (2 ^ 4) 65537 (2 ^ 5) 3).q (mkTables (2 ^ 4) 65537 (2 ^ 5) 3).n
        ((List.range 16).map (fun i => 65536 - 4000 * i))
    ∧ RowWF (mkTables (2 ^ 4) 65537 (2 ^ 5) 3).q (mkTables (2 ^ 4) 65537 (2 ^ 5) 3).n
        ((List.range 16).map (fun i => i * i + 1)) :=
  ⟨T16_valid, ⟨by decide, by decide⟩, ⟨by decide, by decide⟩⟩

/-- an instance of `words_ring` obtained from the theorem (not by evaluation) -/
example :
    let T := mkTables (2 ^ 4) 65537 (2 ^ 5) 3
    let x := (List.range 16).map (fun i => 65536 - 4000 * i)
    let y := (List.range 16).map (fun i => i * i + 1)
    denote T true false (List.zipWith (fun u v => mulcoeffsmontgomeryvec_lane u v 0 T.q T.qinv) x y)
      = denote T true false x * denote T true true y :=
  (words_ring T16_valid.1 T16_valid.2 true false _ _ ⟨by decide, by decide⟩ ⟨by decide, by decide⟩).2.2.2

/-- TEST (evaluation): the word-level pipeline and the schoolbook product agree on these rows -/
example :
    let T := mkTables (2 ^ 4) 65537 (2 ^ 5) 3
    let a := (List.range 16).map (fun i => 65536 - 4000 * i)
    let b := (List.range 16).map (fun i => i * i + 1)
    inttStd T (List.zipWith (fun x y => MRed x y T.q T.qinv) (nttStd T a)
        ((nttStd T b).map (fun y => MForm y T.q T.bred))) = RPoly.rowMul T.q a b := by decide +kernel

end refinement

end Lattigo.Props.C01Ring

#print axioms Lattigo.Props.C01Ring.row_hom
#print axioms Lattigo.Props.C01Ring.row_bijective
#print axioms Lattigo.Props.C01Ring.row_closed
#print axioms Lattigo.Props.C01Ring.row_ring_laws
#print axioms Lattigo.Props.C01Ring.row_aut
#print axioms Lattigo.Props.C01Ring.row_monomial
#print axioms Lattigo.Props.C01Ring.wf_ops
#print axioms Lattigo.Props.C01Ring.rq_std_ops
#print axioms Lattigo.Props.C01Ring.wf_ring
#print axioms Lattigo.Props.C01Ring.wf_scale
#print axioms Lattigo.Props.C01Ring.wf_monomial
#print axioms Lattigo.Props.C01Ring.wf_aut
#print axioms Lattigo.Props.C01Ring.modInv_spec
#print axioms Lattigo.Props.C01Ring.wf_mont
#print axioms Lattigo.RPolyRing.WFPoly.instCommRing
#print axioms Lattigo.RPolyRing.WFPoly.ringEquiv
#print axioms Lattigo.RPolyRing.WFPoly.autRingHom
#print axioms Lattigo.Props.C01Ring.refine_mul
#print axioms Lattigo.Props.C01Ring.refine_abs_repr
#print axioms Lattigo.Props.C01Ring.refine_ops
#print axioms Lattigo.Props.C01Ring.words_ring
#print axioms Lattigo.Props.C01Ring.refine_poly
#print axioms Lattigo.Props.C01Ring.absPoly_wf
#print axioms Lattigo.Props.C01Ring.words_poly_ring
