/-
  C09 — operations leave their inputs intact and are insensitive to output aliasing / history.

  What is proved here is about `Lattigo/Model/Store.lean`: a transcription of the READ/WRITE ORDER of
  the Go routines that branch on pointer identity or write the output before they have finished
  reading an operand, over abstract locations (roles `op0 op1 out` mapped to objects by an aliasing
  pattern, evaluator scratch buffers with ARBITRARY prior content) and UNINTERPRETED arithmetic
  (`Interp.fn : Fn → List α → α` is universally quantified; the few algebraic laws a routine relies
  on when it swaps operands / takes the squaring path are explicit hypotheses, `TensorLaws`,
  `ScaleLaws`, and are shown to hold for the driver's `Int` interpretation).

  Theorem shape (`…_alias_sound`): for every aliasing pattern the routine accepts, every store
  (hence every scratch content and every previous content of a distinct output):
     store'[out] = F(store[op0], store[op1])  ∧  ∀ x ∉ {out} ∪ scratch, store'[x] = store[x]
  with F the closed form of the all-distinct run.

  Where the code as written is NOT alias-safe / input-preserving / history-free the negation is proved
  (`…_counterexample`) together with the exact value the code computes:
    * bgv.tensorScaleInvariant, out = op1      — output Scale = sinv(scale0, scale0)   [NEW while transcribing;
                                                 fixed: a817070; the model follows HEAD, old programs kept as `…Old`]
    * bgv.matchScaleThenEvaluateInPlace, out = op1 — op1 overwritten before it is read   [fixed: 48fb64a]
    * bgv.Add / bgv.Mul (*big.Int)             — caller's big.Int rewritten               [fixed: 914a9ce]
    * ring.DivRoundByLastModulus               — input polynomial rewritten (fixed in /repo by commit 64e1afc;
                                                 the model follows HEAD, the old program is kept as `divRoundProgOld`)
    * ct+ct Add/Sub into an output of larger previous degree — stale polynomial kept  [fix C09-2, `addIntoOld`]

    * ckks/bgv Mul, MulRelin (and MulThenAdd, MulRelinThenAdd) of two degree-1 ciphertexts into a receiver of
      degree 0 — PANIC: `c0, c1 = opOut.Value[0], opOut.Value[1]` were taken before the receiver is resized
      [found by the degree extension of this property; fixed: e9e846c (patch fixes/C09-6); the tie follows HEAD =
       `tensorGenDFixed`, the old routine is kept as `tensorGenD`; `tensor_receiver_degree0_counterexample`]
    * rlwe.Element.Resize tested the level of `Value[0]` only: a receiver whose `Value[0]` already was at the target
      level kept the other polynomials at their old level (longer: stale limbs; shorter: the operation panicked)
      [found by the level extension of this property; fixed: 114cfa0 (patch fixes/C09-7); the tie follows HEAD =
       `resizeShapeFixed` / `shapeAfterFixed`, the old code is kept as `resizeShape` / `shapeAfter`;
       `resize_level_malformed_counterexample`, hypothesis of `history_free_level`; `history_free_level_fixed` has none]
  Each is replayed on the real code by a harness probe (harness/c09.go, c09_degree.go).

  Degrees: `ckksAddProg` (ckks.Add/Sub, element operand) and `tensorGenD` (ckks.mulRelin, bgv.tensorStandard) take
  the degree of every object (0, 1 or 2) and thread it through `Element.Resize`; the `alias_sound_*_degrees`
  theorems hold for EVERY assignment of degrees ≤ 2 to the three objects (operands and previous receiver).
  Levels: `OpS.shapeAfter` follows the `Resize` calls of every modelled operation on the list of the levels of the
  receiver's polynomials; `history_free_level`: after an accepted call all of them are at the documented level.
  PartialTracesSum: alias soundness and independence from buffers/receiver for EVERY n ≥ 1 (loop invariant of
  the log n + HW(n) tree in Proofs/StorePTS.lean).

  Metadata: `initBinaryMeta` / `initUnaryMeta` (InitOutputBinaryOp / InitOutputUnaryOp) write IsNTT, IsBatched and the two
  components of LogDimensions of the receiver field by field; every binary `Op` executes them before its arithmetic
  (`Op.prog = metaProg ++ valueProg`), and the `alias` tie compares these fields too (`Op.outFields`); the harness
  runs the alias patterns with operands whose LogDimensions differ, in both orders.  `alias_sound_meta`: aliased =
  fresh for the metadata component of every such operation.

  Frame and history-freeness are GENERAL theorems over the program syntax (Proofs/StoreFrame.lean): `frame_general`
  (`Prog.writesWithin`), `history_free_general` (`Prog.readsFrom`), instantiated for EVERY modelled operation:
  `inputs_unchanged_modelled` (any objects in the roles, any store, any n, any number of digits),
  `frame_ckks_addSub_all_degrees` / `frame_tensor_all_degrees` (every degree, no bound), `history_free_modelled`.
  Operation families beyond the evaluators: `encryptSkProg` (Encrypt under a secret key into a reused receiver),
  `decryptProg` (NTT and coefficient domain), `ckgGenShareProg`, `evkGenShareProg` (with / without auxiliary modulus,
  any number of base-two digits) — transcribed from core/rlwe/encryptor.go, decryptor.go, multiparty/keygen_cpk.go,
  keygen_evk.go; ties `inputs <op>`, `hist <op>`.

  STATUS.  Proved for all inputs (uninterpreted arithmetic, every store): all `alias_sound_*`, `frame_*`,
  `inputs_unchanged_modelled`, `history_free_*`, `alias_sound_meta`, the `*_counterexample`s.  Under named hypotheses:
  `TensorLaws`, `ScaleLaws`, `DegLaws`, `hcopy` (algebraic laws of the ring / scale arithmetic the routines rely on when
  they swap operands; discharged for the driver's `Int` interpretation in Proofs/StoreInt.lean, not for RNS
  polynomials); `alias_sound_*_degrees` for degrees ≤ 2 (`hdeg`; the frame theorems have no bound);
  `history_free_modelled` for EvaluationKeyGenProtocol.GenShare with ≤ 3 digits (`hev`; frame: any number).
  Tied only (model = code on the explored calls): the outcome classes `alias`, `inputs`, `hist`, `addhist`, `aliasd`,
  `shape` — that the transcribed read/write order IS the code's is what the tie checks.
  Probed only (no model): every other public operation (rotations, rescaling, linear transformations, polynomial
  evaluators incl. two PolynomialVector evaluations with different slot mappings, rgsw, ring.Div*, encoders, key
  generator, EVERY function of every multiparty protocol: `inputs_unchanged` of all arguments incl. secret keys and
  CRPs); `alias_naming/…` (the receiver named as the SAME object through `x.El()` / an rlwe.ElementInterface);
  `output_independent/…` (no shared polynomial storage / MetaData struct between output and inputs, incl. degenerate
  arguments and the …New forms).  A SECOND HEADER over the same storage (`&rlwe.Ciphertext{Element: *x.El()}`) is another
  object: statistics `second_header_*` only (fixes/not-applied/C09-8).

  Not covered: coefficient-level aliasing inside one ring operation (C01); degrees ≥ 3 in the value theorems; the CONTENT
  of the limbs a level change drops or appends (`ring.Poly.Resize`, probes only); public-key encryption, the hoisted /
  lazy linear-transformation paths and the polynomial evaluators have no Store program; "all histories of previous
  calls" is covered by the arbitrary initial store of the theorems for modelled operations and by sampled histories
  (used + poisoned evaluator, reused receivers) for the others.
-/
import Lattigo.Proofs.StoreInt
import Lattigo.Proofs.StorePTS
import Lattigo.Proofs.StoreShape
import Lattigo.Proofs.StoreMeta
import Lattigo.Proofs.StoreFrame

namespace Lattigo.Props.C09
open Lattigo.Store

variable {α : Type}

/-- ckks.Evaluator.evaluateInPlace (Add/Sub with scale alignment): all five patterns. -/
theorem alias_sound_ckks_evaluateInPlace (I : Interp α) (h : ScaleLaws I) (al : Alias) (σ : Store α) :
    let p := al.pat
    let σ' := ckksEval I p σ
    let sa := σ (L p.op0 fScale); let sb := σ (L p.op1 fScale)
    σ' (L p.out 0) = ckksEvalF I (I.cmp sa sb) sa sb (σ (L p.op0 0)) (σ (L p.op1 0)) ∧
    σ' (L p.out 1) = ckksEvalF I (I.cmp sa sb) sa sb (σ (L p.op0 1)) (σ (L p.op1 1)) ∧
    σ' (L p.out fScale) = I.fn .smax [sa, sb] ∧
    ∀ x, Untouched p x → σ' x = σ x := ckksEval_alias_sound I h al σ

example : ScaleLaws intI := intI_scaleLaws

/-- ckks.mulRelin (relin = false), all five patterns. -/
theorem alias_sound_ckks_mul (I : Interp α) (h : TensorLaws I .mform) (al : Alias) (σ : Store α) : type_of% (tensor_alias_sound I .mform h al σ) :=
  tensor_alias_sound I .mform h al σ

/-- ckks.mulRelin (relin = true), all five patterns. -/
theorem alias_sound_ckks_mulRelin (I : Interp α) (h : TensorLaws I .mform) (al : Alias) (σ : Store α) : type_of% (tensorRelin_alias_sound I .mform h al σ) :=
  tensorRelin_alias_sound I .mform h al σ

/-- bgv.tensorStandard, without / with relinearisation, all five patterns. -/
theorem alias_sound_bgv_tensorStandard (I : Interp α) (h : TensorLaws I .mulT) (al : Alias) (σ : Store α) : type_of% (tensor_alias_sound I .mulT h al σ) :=
  tensor_alias_sound I .mulT h al σ

theorem alias_sound_bgv_tensorStandard_relin (I : Interp α) (h : TensorLaws I .mulT) (al : Alias)
    (σ : Store α) : type_of% (tensorRelin_alias_sound I .mulT h al σ) := tensorRelin_alias_sound I .mulT h al σ

example : TensorLaws intI .mform := intI_tensorLaws_mform
example : TensorLaws intI .mulT := intI_tensorLaws_mulT

/-- bgv.tensorScaleInvariant: the three polynomials are right under all five patterns … -/
theorem alias_sound_bgv_tensorScaleInvariant_poly (I : Interp α) (h : TensorLaws I .mform)
    (hM : TensorLaws I .mformM) (al : Alias) (σ : Store α) : type_of% (bgvTensorSI_poly_alias_sound I h hM al σ) := bgvTensorSI_poly_alias_sound I h hM al σ

example : TensorLaws intI .mformM := intI_tensorLaws_mformM

/-- … and so is the output scale (HEAD, commit a817070: `ct1.Scale`, not `tmp1Q0.Scale`). -/
theorem alias_sound_bgv_tensorScaleInvariant_scale (I : Interp α) (relin : Bool) (al : Alias) (σ : Store α) :
    run I (bgvTensorSIProg relin al.pat) σ (L al.pat.out fScale) =
      I.fn .sinv [σ (L al.pat.op0 fScale), σ (L al.pat.op1 fScale)] :=
  bgvTensorSI_scale_alias_sound I relin al σ

/-- BEFORE commit a817070 (`bgvTensorSIProgOld`) the scale was right under every pattern except `out = op1` … -/
theorem alias_sound_bgv_tensorScaleInvariant_scale_partial (I : Interp α) (relin : Bool) (al : Alias)
    (hal : al ≠ .outOp1) (σ : Store α) :
    run I (bgvTensorSIProgOld relin al.pat) σ (L al.pat.out fScale) =
      I.fn .sinv [σ (L al.pat.op0 fScale), σ (L al.pat.op1 fScale)] :=
  bgvTensorSIOld_scale_alias_sound I relin al hal σ

example : Alias.outOp0 ≠ Alias.outOp1 := by decide

/-- … and WRONG for `out = op1`: the full statement was false of the code before the fix. -/
theorem bgv_tensorScaleInvariant_outOp1_counterexample :
    ∃ σ : Store Int, run intI (bgvTensorSIProgOld false Alias.outOp1.pat) σ (L 1 fScale) ≠
      intI.fn .sinv [σ (L 0 fScale), σ (L 1 fScale)] := bgvTensorSIOld_outOp1_counterexample

/-- bgv.matchScaleThenEvaluateInPlace (HEAD, commit 48fb64a: `el1` is copied first when it is the
    receiver): sound for all five patterns. -/
theorem alias_sound_bgv_matchScale (I : Interp α) (hcopy : ∀ x, I.fn .copy [x] = x) (al : Alias) (σ : Store α) :
    type_of% (bgvMatchScale_alias_sound I hcopy al σ) := bgvMatchScale_alias_sound I hcopy al σ

/-- BEFORE commit 48fb64a (`bgvMatchScaleProgOld`): sound for distinct / out = op0 / op0 = op1 only … -/
theorem alias_sound_bgv_matchScale_partial (I : Interp α) (al : Alias)
    (hal : al ≠ .outOp1 ∧ al ≠ .allEq) (σ : Store α) :
    type_of% (bgvMatchScaleOld_alias_sound I al hal σ) := bgvMatchScaleOld_alias_sound I al hal σ

example : Alias.outOp0 ≠ Alias.outOp1 ∧ Alias.outOp0 ≠ Alias.allEq := by decide

/-- … FALSE for `out = op1` (which bgv.Add/Sub accepted without error). -/
theorem bgv_matchScale_outOp1_counterexample :
    ∃ σ : Store Int, run intI (bgvMatchScaleProgOld Alias.outOp1.pat) σ (L 1 0) ≠
      matchF intI (σ (L 0 fScale)) (σ (L 1 fScale)) (σ (L 0 0)) (σ (L 1 0)) :=
  bgvMatchScaleOld_outOp1_counterexample

/-- bgv.Add / bgv.Mul (*big.Int) at HEAD (commits 914a9ce, 5801a27): right result, receiver scale set,
    the caller's number intact. -/
theorem bgv_addBigInt_sound (I : Interp α) (hcopy : ∀ x, I.fn .copy [x] = x) (al : Alias)
    (hal : al = .distinct ∨ al = .outOp0) (σ : Store α) :
    type_of% (bgvAddBig_sound I hcopy al hal σ) := bgvAddBig_sound I hcopy al hal σ

theorem bgv_mulBigInt_sound (I : Interp α) (al : Alias) (hal : al = .distinct ∨ al = .outOp0) (σ : Store α) :
    type_of% (bgvMulBig_sound I al hal σ) := bgvMulBig_sound I al hal σ

/-- BEFORE commit 914a9ce (`…ProgOld`) the caller's big.Int was rewritten. -/
theorem bgv_addBigInt_inputs_counterexample :
    ∃ σ : Store Int, run intI (bgvAddBigProgOld Alias.distinct.pat) σ (L bigArg 0) ≠ σ (L bigArg 0) :=
  bgvAddBigOld_inputs_counterexample

theorem bgv_mulBigInt_inputs_counterexample :
    ∃ σ : Store Int, run intI (bgvMulBigProgOld Alias.distinct.pat) σ (L bigArg 0) ≠ σ (L bigArg 0) :=
  bgvMulBigOld_inputs_counterexample

/-- rlwe.Evaluator.Automorphism: distinct and in-place. -/
theorem alias_sound_rlwe_automorphism (I : Interp α) (al : Alias) (hal : al = .distinct ∨ al = .outOp0)
    (σ : Store α) : type_of% (rlweAut_alias_sound I al hal σ) := rlweAut_alias_sound I al hal σ

/-- rlwe.PartialTracesSum (InnerSum/Replicate): for EVERY n and pattern only `out`, BuffCt, BuffQP are written. -/
theorem rlwe_partialTracesSum_frame (I : Interp α) (n : Nat) (p : Pat) (σ : Store α) (x : Loc)
    (hx : x.obj ≠ p.out ∧ x.obj ≠ bqp ∧ x.obj ≠ bct) : run I (rlwePTSProg n p) σ x = σ x :=
  rlwePTS_frame I n p σ x hx

/-- rlwe.PartialTracesSum, EVERY n ≥ 1: the call with `opOut == ctIn` (object 0) yields in every result field
    what the call with a distinct receiver (object 2) yields; the two stores only have to agree on the INPUT
    object — the previous content of the evaluator buffers and of the distinct receiver is arbitrary in both. -/
theorem alias_sound_rlwe_partialTracesSum (I : Interp α) (hcopy : ∀ x, I.fn .copy [x] = x)
    (n : Nat) (hn : 1 ≤ n) (σ σd : Store α) (hagree : ∀ x : Loc, x.obj = 0 → σd x = σ x) (f : Nat)
    (hf : f = 0 ∨ f = 1 ∨ f = fScale ∨ f = fMeta) :
    run I (rlwePTSProg n Alias.outOp0.pat) σ (L 0 f) = run I (rlwePTSProg n Alias.distinct.pat) σd (L 2 f) :=
  rlwePTS_alias_sound' I hcopy n hn σ σd hagree f hf

/-- rlwe.PartialTracesSum is history-free, every n ≥ 1, every pattern: the result fields depend on the fields
    of the input object only (no residue of BuffCt / BuffQP / the receiver). -/
theorem history_free_rlwe_partialTracesSum (I : Interp α) (n : Nat) (hn : 1 ≤ n) (p : Pat) (σ σ' : Store α)
    (h : ∀ x : Loc, x.obj = p.op0 → σ x = σ' x) (f : Nat) (hf : f = 0 ∨ f = 1 ∨ f = fScale ∨ f = fMeta) :
    run I (rlwePTSProg n p) σ (L p.out f) = run I (rlwePTSProg n p) σ' (L p.out f) :=
  rlwePTS_history_free I n hn p σ σ' h f hf

/-- (name kept for the required-theorem list; no longer partial) the instance n ≤ 8 with stores that agree
    everywhere but on the distinct receiver. -/
theorem alias_sound_rlwe_partialTracesSum_partial (I : Interp α) (hcopy : ∀ x, I.fn .copy [x] = x)
    (n : Nat) (hn : 1 ≤ n ∧ n ≤ 8) (σ σd : Store α) (hagree : ∀ x, x.obj ≠ 2 → σd x = σ x) (f : Nat)
    (hf : f = 0 ∨ f = 1 ∨ f = fScale ∨ f = fMeta) :
    run I (rlwePTSProg n Alias.outOp0.pat) σ (L 0 f) = run I (rlwePTSProg n Alias.distinct.pat) σd (L 2 f) :=
  rlwePTS_alias_sound I hcopy n hn.1 σ σd hagree f hf

example : (1 : Nat) ≤ 4096 := by decide
example : ∀ x : Int, intI.fn .copy [x] = x := fun _ => rfl

/-- ring.DivRoundByLastModulus as of HEAD (commit 64e1afc and later): alias-sound, input intact. -/
theorem alias_sound_ring_divRound (I : Interp α) (al : Alias) (hal : al = .distinct ∨ al = .outOp0)
    (σ : Store α) : type_of% (divRound_alias_sound I al hal σ) := divRound_alias_sound I al hal σ

/-- the version before commit 64e1afc rewrote its input (finding of this property, fixed since). -/
theorem ring_divRound_pre64e1afc_inputs_counterexample :
    ∃ σ : Store Int, run intI (divRoundProgOld Alias.distinct.pat) σ (L 0 2) ≠ σ (L 0 2) :=
  divRoundOld_inputs_counterexample

/-- (name kept for the required-theorem list) the result part of `alias_sound_ring_divRound`. -/
theorem ring_divRound_result (I : Interp α) (al : Alias) (hal : al = .distinct ∨ al = .outOp0) (σ : Store α) :
    let p := al.pat
    let σ' := run I (divRoundProg p) σ
    σ' (L p.out 0) = divF I (σ (L p.op0 2)) (σ (L p.op0 0)) ∧
    σ' (L p.out 1) = divF I (σ (L p.op0 2)) (σ (L p.op0 1)) :=
  ⟨(divRound_alias_sound I al hal σ).1, (divRound_alias_sound I al hal σ).2.1⟩

/-- (name kept for the required-theorem list) = `ring_divRound_pre64e1afc_inputs_counterexample`:
    about `divRoundProgOld`, the code before the fix. -/
theorem ring_divRound_inputs_counterexample :
    ∃ σ : Store Int, run intI (divRoundProgOld Alias.distinct.pat) σ (L 0 2) ≠ σ (L 0 2) :=
  divRoundOld_inputs_counterexample

/-- ring.DivRoundByLastModulusNTT: alias-sound and input-preserving (it goes through `buff`). -/
theorem alias_sound_ring_divRoundNTT (I : Interp α) (al : Alias) (hal : al = .distinct ∨ al = .outOp0)
    (σ : Store α) : type_of% (divRoundNTT_alias_sound I al hal σ) := divRoundNTT_alias_sound I al hal σ

/-- Element.Resize never rewrites a polynomial that stays. -/
theorem resize_keeps_prefix (z : α) (d : Nat) (v : List α) (i : Nat) (hi : i < min v.length (d + 1)) :
    (resize z d v)[i]? = v[i]? := resize_prefix z d v i hi

example : (2 : Nat) < min [1, 2, 3, 4].length (2 + 1) := by decide

/-- ct+ct Add (code with fix C09-2) is history-free: the previous content and degree of the receiver
    do not matter. -/
theorem add_history_free (z : α) (add : α → α → α) (op0 op1 out : List α) (h0 : op0 ≠ []) :
    addInto z add op0 op1 out = addLists add op0 op1 := addInto_history_free z add op0 op1 out h0

example : ([1, 2] : List Int) ≠ [] := by decide

/-- BEFORE fix C09-2 (`addIntoOld`): history-free only when the receiver's previous degree does not
    exceed the operands' … -/
theorem add_history_free_partial (z : α) (add : α → α → α) (op0 op1 out : List α)
    (h : out.length ≤ max op0.length op1.length) (h0 : op0 ≠ []) :
    addIntoOld z add op0 op1 out = addLists add op0 op1 := addIntoOld_history_free z add op0 op1 out h h0

example : [7, 8].length ≤ max [1, 2].length [10, 20].length ∧ [1, 2] ≠ ([] : List Int) := by decide

/-- … and NOT otherwise (degree-2 receiver reused for a degree-1 sum kept its third polynomial). -/
theorem add_history_counterexample :
    addIntoOld (0 : Int) (· + ·) [1, 2] [10, 20] [7, 8, 9] = [11, 22, 9] ∧
    addIntoOld (0 : Int) (· + ·) [1, 2] [10, 20] [0, 0] = [11, 22] := addIntoOld_degree_residue_counterexample

/-! ### frame and history-freeness as general theorems over the program syntax -/

/-- GENERAL FRAME: a program every step of which writes into one of the listed objects leaves every location of every
    other object unchanged (one theorem over the syntax; `Prog.writesWithin` is decidable). -/
theorem frame_general (I : Interp α) (p : Prog) (objs : List Nat) (h : p.writesWithin objs = true)
    (σ : Store α) (x : Loc) (hx : x.obj ∉ objs) : run I p σ x = σ x := writesWithin_frame I p objs h σ x hx

/-- EVERY modelled operation — the evaluator routines, Encrypt under a secret key, Decrypt, PublicKeyGenProtocol.GenShare,
    EvaluationKeyGenProtocol.GenShare with any number of digits, PartialTracesSum for any n — whatever objects play
    the roles op0/op1/out (not only the five aliasing patterns) and whatever the store: only the receiver and the
    evaluator / encryptor / decryptor / protocol buffers are written. -/
theorem inputs_unchanged_modelled (I : Interp α) (op : Op) (p : Pat) (σ : Store α) (x : Loc)
    (hx : x.obj ≠ p.out) (hs : x.obj ∉ scratchObjs) : op.exec I p σ x = σ x :=
  modelled_inputs_unchanged I op p σ x hx hs

example : (3 : Nat) ≠ Alias.distinct.pat.out ∧ (3 : Nat) ∉ scratchObjs := by decide

/-- the degree-aware programs, EVERY degree of the operands and of the receiver (no bound), every role assignment. -/
theorem frame_ckks_addSub_all_degrees (sub : Bool) (p : Pat) (deg : Nat → Nat) (cmp : Ordering) :
    Prog.writesWithin (p.out :: scratchObjs) (ckksAddProg sub p deg cmp) = true := ckksAddProg_frame sub p deg cmp

theorem frame_tensor_all_degrees (bgv relin : Bool) (p : Pat) (deg : Nat → Nat) (prog : Prog) (d : Nat)
    (h : tensorGenDFixed bgv relin p deg = .ok (prog, d)) : Prog.writesWithin (p.out :: scratchObjs) prog = true :=
  tensorGenDFixed_frame bgv relin p deg prog d h

/-- GENERAL HISTORY-FREENESS: if every step reads only input objects or what an earlier step wrote
    (`Prog.readsFrom`, decidable), two runs from stores that agree on the input objects agree on every written location. -/
theorem history_free_general (I : Interp α) (p : Prog) (ins : List Nat) (h : Prog.readsFrom ins [] p = true)
    (σ σ' : Store α) (hagree : ∀ x : Loc, x.obj ∈ ins → σ x = σ' x) (x : Loc) (hx : Written p x) :
    run I p σ x = run I p σ' x := readsFrom_history_free I p ins h σ σ' hagree x hx

/-- … instantiated: every modelled operation with a fixed program, every aliasing pattern, every outcome of the scale
    comparison — the result does not depend on the previous content of the receiver or of any buffer.
    (PartialTracesSum, every n: `history_free_rlwe_partialTracesSum`; GenShare with more than 3 digits: frame only.) -/
theorem history_free_modelled (I : Interp α) (op : Op) (hop : ∀ n, op ≠ .rlwePTS n)
    (hev : ∀ b d, op = .evkGenShare b d → d ≤ 3) (al : Alias) (σ σ' : Store α)
    (hagree : ∀ x : Loc, x.obj ∈ al.pat.ins → σ x = σ' x) (x : Loc)
    (hx : Written (op.prog I al.pat σ) x) : op.exec I al.pat σ x = op.exec I al.pat σ' x :=
  modelled_history_free I op hop hev al σ σ' hagree x hx

example : Written (Op.encryptSk.prog intI Alias.distinct.pat testStore) (L 2 0) :=
  ⟨st (L 2 0) .neg [L 2 0], by decide, rfl⟩

/-- not vacuous: the in-place variant of EvaluationKeyGenProtocol.GenShare rewrites the caller's secret key. -/
theorem genShare_inplace_inputs_counterexample :
    ∃ σ : Store Int, run intI (evkGenShareProgInPlace 1 Alias.distinct.pat) σ (L 0 0) ≠ σ (L 0 0) :=
  evkGenShareInPlace_inputs_counterexample

/-! ### metadata under aliasing -/

/-- InitOutputBinaryOp: under every aliasing pattern the receiver's IsNTT, IsBatched, LogDimensions.Rows/Cols are
    `metaF` (IsNTT, IsBatched of op0; componentwise maximum of the operands' dimensions BEFORE the call), and
    nothing but these four fields of the receiver is written. -/
theorem alias_sound_meta_init (I : Interp α) (hcopy : ∀ x, I.fn .copy [x] = x) (al : Alias) (σ : Store α) :
    type_of% (initBinaryMeta_alias_sound I hcopy al σ) := initBinaryMeta_alias_sound I hcopy al σ

/-- ALIASED = FRESH FOR THE METADATA of every complete binary operation of the model (ckks Add/Sub, Mul, MulRelin;
    bgv Mul, MulRelin, MulScaleInvariant, MulRelinScaleInvariant, Add/Sub with scale matching), every pattern. -/
theorem alias_sound_meta (I : Interp α) (hcopy : ∀ x, I.fn .copy [x] = x) (op : Op) (hb : op.isBinary = true)
    (al : Alias) (σ : Store α) (f : Nat) (hf : f ∈ metaFields) :
    op.exec I al.pat σ (L al.pat.out f) = metaF I σ al.pat f := Op.exec_meta_alias_sound I hcopy op hb al σ f hf

example : Op.ckksMulRelin.isBinary = true ∧ fCols ∈ metaFields := by decide

/-- the statement is not vacuous: initialising `opOut.LogDimensions = op0.LogDimensions` first and taking the maximum
    with op1 afterwards (seeded regression C09-r3m3; never the code of /repo) is NOT alias-sound for `out = op1`. -/
theorem meta_overwrite_first_counterexample :
    ∃ σ : Store Int, run intI (initBinaryMetaOverwriteFirst Alias.outOp1.pat) σ (L 1 fCols) ≠
      metaF intI σ Alias.outOp1.pat fCols := initBinaryMetaOverwriteFirst_counterexample

/-! ### degrees 0/1/2 -/

/-- ckks.Add / ckks.Sub with an element operand: EVERY aliasing pattern, EVERY degree ≤ 2 of op0, op1 and of the
    receiver before the call (`deg`), every outcome of the scale comparison: polynomial `i ≤ max(d0, d1)` of the
    receiver is the closed form `ckksAddF` (sum/difference on the common polynomials, the scaled copy of the
    longer operand above, negated for Sub when it is op1's), the scale is the maximum, nothing but the receiver
    and the buffers is written. -/
theorem alias_sound_ckks_addSub_degrees (I : Interp α) (sub : Bool) (hS : ScaleLaws I) (hD : DegLaws I sub)
    (al : Alias) (deg : Nat → Nat) (hdeg : ∀ o, deg o ≤ 2) (σ : Store α) :
    type_of% (ckksAdd_alias_sound I sub hS hD al deg hdeg σ) := ckksAdd_alias_sound I sub hS hD al deg hdeg σ

example : DegLaws intI false ∧ DegLaws intI true := ⟨intI_degLaws false, intI_degLaws true⟩
example : ∀ o, (fun o : Nat => if o = 0 then 1 else 2) o ≤ 2 := by intro o; simp only; split <;> decide

/-- BEFORE commit e9e846c (`tensorGenD`; HEAD: `alias_sound_tensor_degrees_fixed`).
    ckks.Mul/MulRelin (`bgv = false`) and bgv.Mul/MulRelin (`bgv = true`), operands of degree 0/1/2: whenever the
    code accepts the call (`TensorAccepted`), under every pattern and whatever degree the receiver had, the
    receiver has the documented degree `tensorDegF` and the polynomials `tensorDF`. -/
theorem alias_sound_tensor_degrees (I : Interp α) (bgv relin : Bool) (hT : TensorLaws I (preOf bgv)) (al : Alias)
    (deg : Nat → Nat) (hdeg : ∀ o, deg o ≤ 2)
    (hacc : TensorAccepted bgv (deg al.pat.op0) (deg al.pat.op1) (deg al.pat.out)) (σ : Store α) :
    type_of% (tensorD_alias_sound I bgv relin hT al deg hdeg hacc σ) :=
  tensorD_alias_sound I bgv relin hT al deg hdeg hacc σ

example : TensorLaws intI (preOf false) ∧ TensorLaws intI (preOf true) :=
  ⟨intI_tensorLaws_mform, intI_tensorLaws_mulT⟩
example : TensorAccepted true 2 0 1 ∧ TensorAccepted false 0 2 0 ∧ TensorAccepted false 1 1 2 := by
  unfold TensorAccepted; decide

/-- the calls the code rejects with an error … -/
theorem tensor_degrees_rejected (bgv relin : Bool) (p : Pat) (deg : Nat → Nat)
    (h : deg p.op0 + deg p.op1 = 0 ∨ deg p.op0 + deg p.op1 > 2 ∨ (bgv = true ∧ deg p.op0 = 0)) :
    tensorGenD bgv relin p deg = .err := tensorD_err_of bgv relin p deg h

/-- … and the history dependence BEFORE commit e9e846c: the SAME operands (two degree-1 ciphertexts) were
    multiplied into a receiver that previously had degree 1 or 2, but PANICKED with a receiver of degree 0 — in
    ckks.mulRelin and in bgv.tensorStandard, with and without relinearisation
    (finding C09/mul-receiver-degree0-panics, fixed). -/
theorem tensor_receiver_degree0_counterexample (bgv relin : Bool) (p : Pat) (deg : Nat → Nat)
    (h0 : deg p.op0 = 1) (h1 : deg p.op1 = 1) (ho : deg p.out = 0) :
    tensorGenD bgv relin p deg = .panic := tensorD_panic_of bgv relin p deg h0 h1 ho

example : (fun o : Nat => if o = 2 then 0 else 1) Alias.distinct.pat.op0 = 1 ∧
    (fun o : Nat => if o = 2 then 0 else 1) Alias.distinct.pat.out = 0 := by decide

/-- nothing else panics, and with patch fixes/C09-6 nothing does -/
theorem tensor_panics_only_receiver_degree0 (bgv relin : Bool) (p : Pat) (deg : Nat → Nat)
    (h : tensorGenD bgv relin p deg = .panic) : deg p.op0 = 1 ∧ deg p.op1 = 1 ∧ deg p.out = 0 :=
  tensorD_panic_only bgv relin p deg h

theorem tensor_fixed_no_panic (bgv relin : Bool) (p : Pat) (deg : Nat → Nat) :
    tensorGenDFixed bgv relin p deg ≠ .panic := tensorDFixed_no_panic bgv relin p deg

/-- HEAD (commit e9e846c, `tensorGenDFixed`, the routine the `aliasd` tie executes): alias soundness holds for
    EVERY previous degree of the receiver — the products are history-free in the degree. -/
theorem alias_sound_tensor_degrees_fixed (I : Interp α) (bgv relin : Bool) (hT : TensorLaws I (preOf bgv))
    (al : Alias) (deg : Nat → Nat) (hdeg : ∀ o, deg o ≤ 2)
    (hacc : ¬(deg al.pat.op0 + deg al.pat.op1 = 0 ∨ deg al.pat.op0 + deg al.pat.op1 > 2) ∧
      ¬(bgv = true ∧ deg al.pat.op0 = 0)) (σ : Store α) :
    type_of% (tensorDFixed_alias_sound I bgv relin hT al deg hdeg hacc σ) :=
  tensorDFixed_alias_sound I bgv relin hT al deg hdeg hacc σ

example : ¬((1 : Nat) + 1 = 0 ∨ 1 + 1 > 2) ∧ ¬(false = true ∧ (1 : Nat) = 0) := by decide

/-! ### levels -/

/-- BEFORE commit 114cfa0 (`shapeAfter`; HEAD: `history_free_level_fixed`, without the hypothesis on the receiver).
    HISTORY-FREE LEVEL (and degree): for every modelled operation (Add/Sub, Mul/MulRelin of ckks and bgv,
    the scale-invariant products, the *big.Int operations, Automorphism, PartialTracesSum), every aliasing
    pattern and all shapes: when the call is accepted, every polynomial of the receiver is at the documented
    level `docLevel` and the receiver has the documented degree — whatever degree and level it had before,
    provided its polynomials were all at one level, or `Value[0]` was not already at the target level. -/
theorem history_free_level (op : OpS) (p : Pat) (sh : Nat → Shape) (hne : ∀ o, sh o ≠ [])
    (hrecv : Uniform (sh p.out) ∨
      (sh p.out).level ≠ op.docLevel (sh p.op0).level (sh p.op1).level (sh p.out).level)
    (r : Shape) (hr : op.shapeAfter p sh = .ok r) :
    r = List.replicate (op.docDegree (sh p.op0).degree (sh p.op1).degree (sh p.out).degree + 1)
          (op.docLevel (sh p.op0).level (sh p.op1).level (sh p.out).level) :=
  shapeAfter_documented op p sh hne hrecv r hr

example : Uniform [2, 2, 2] ∧ (OpS.ckksMul false).shapeAfter Alias.distinct.pat
    (patShape Alias.distinct.pat [2, 2] [1, 1] [2, 2, 2]) = .ok [1, 1, 1] := by
  refine ⟨?_, by decide⟩
  intro x hx; simp [Shape.level] at hx ⊢; exact hx

/-- two well-formed receivers for which the documented level is the same (e.g. both at least at the level of the
    operands) yield the same shape: level and degree of the result do not depend on the receiver's past. -/
theorem history_free_level_receivers (op : OpS) (p : Pat) (sh sh' : Nat → Shape)
    (hne : ∀ o, sh o ≠ []) (hne' : ∀ o, sh' o ≠ [])
    (h0 : sh p.op0 = sh' p.op0) (h1 : sh p.op1 = sh' p.op1)
    (hU : Uniform (sh p.out)) (hU' : Uniform (sh' p.out))
    (hl : op.docLevel (sh p.op0).level (sh p.op1).level (sh p.out).level =
          op.docLevel (sh p.op0).level (sh p.op1).level (sh' p.out).level)
    (r r' : Shape) (hr : op.shapeAfter p sh = .ok r) (hr' : op.shapeAfter p sh' = .ok r') : r = r' :=
  history_free_level' op p sh sh' hne hne' h0 h1 hU hU' hl r r' hr hr'

example : OpS.addLike.docLevel 1 1 2 = OpS.addLike.docLevel 1 1 1 := by decide

/-- the hypothesis of `history_free_level` could not be dropped for the code before commit 114cfa0: a receiver
    `[1, 2]` (`Value[0]` already at the target level 1, `Value[1]` one limb longer) kept its shape through Add; a
    receiver `[2, 1]` with operands at level 2 made the operation PANIC (finding
    C09/resize-skips-polynomials-when-first-at-level, fixed). -/
theorem resize_level_malformed_counterexample :
    OpS.addLike.shapeAfter Alias.distinct.pat (patShape Alias.distinct.pat [1, 1] [1, 1] [1, 2]) = .ok [1, 2] ∧
    OpS.addLike.shapeAfter Alias.distinct.pat (patShape Alias.distinct.pat [2, 2] [2, 2] [2, 1]) = .panic ∧
    OpS.addLike.shapeAfter Alias.distinct.pat (patShape Alias.distinct.pat [1, 1] [1, 1] [2, 2]) = .ok [1, 1] := by
  decide

/-- with patch fixes/C09-7 `Resize` yields the documented shape from ANY previous shape. -/
theorem resize_fixed_history_free (s : Shape) (degree level : Nat) :
    resizeShapeFixed s degree level = List.replicate (degree + 1) level :=
  resizeShapeFixed_replicate s degree level

/-- HEAD (commits e9e846c, 114cfa0; `shapeAfterFixed`, what the `shape` tie executes): HISTORY-FREE LEVEL AND
    DEGREE without any hypothesis on the receiver — for every modelled operation, every aliasing pattern and all
    shapes, when the call is accepted every polynomial of the receiver is at the documented level and the receiver
    has the documented degree, whatever it held before; and no modelled operation panics. -/
theorem history_free_level_fixed (op : OpS) (p : Pat) (sh : Nat → Shape) (hne : ∀ o, sh o ≠ [])
    (r : Shape) (hr : op.shapeAfterFixed p sh = .ok r) :
    r = List.replicate (op.docDegree (sh p.op0).degree (sh p.op1).degree (sh p.out).degree + 1)
          (op.docLevel (sh p.op0).level (sh p.op1).level (sh p.out).level) :=
  shapeAfterFixed_documented op p sh hne r hr

theorem shape_fixed_no_panic (op : OpS) (p : Pat) (sh : Nat → Shape) : op.shapeAfterFixed p sh ≠ .panic :=
  shapeAfterFixed_no_panic op p sh

example : (OpS.ckksMul true).shapeAfterFixed Alias.distinct.pat
    (patShape Alias.distinct.pat [2, 2] [1, 1] [1, 2]) = .ok [1, 1] := by decide

/-- the model's tie functions follow HEAD -/
theorem tie_follows_head : headFix6 = true ∧ headFix7 = true ∧
    (∀ op p sh, OpS.shapeAfterHead op p sh = OpS.shapeAfterFixed op p sh) := ⟨rfl, rfl, fun _ _ _ => rfl⟩

-- TESTS (a `decide` over samples, not theorems about all inputs): the driver's predictions
example : predictAlias .bgvMatchScale .outOp1 6 2 = .sameAsFresh := by decide
example : predictAlias .bgvTensorSI .outOp1 6 2 = .sameAsFresh := by decide
example : predictAlias .ckksEval .outOp1 2 6 = .sameAsFresh := by decide
example : predictInputs .divRound 4 4 = .sameAsFresh := by decide
example : predictAliasD .ckksSub .outOp0 1 2 1 2 6 = .sameAsFresh := by decide
example : predictAliasD .bgvMul .outOp1 2 0 0 4 4 = .sameAsFresh := by decide
example : predictAliasD .ckksMulRelin .distinct 1 1 0 4 4 = (if headFix6 then .sameAsFresh else .panic) := by decide

end Lattigo.Props.C09

open Lattigo.Props.C09 in
#print axioms alias_sound_ckks_evaluateInPlace
#print axioms Lattigo.Props.C09.alias_sound_ckks_mul
#print axioms Lattigo.Props.C09.alias_sound_ckks_mulRelin
#print axioms Lattigo.Props.C09.alias_sound_bgv_tensorStandard
#print axioms Lattigo.Props.C09.alias_sound_bgv_tensorStandard_relin
#print axioms Lattigo.Props.C09.alias_sound_bgv_tensorScaleInvariant_poly
#print axioms Lattigo.Props.C09.alias_sound_bgv_tensorScaleInvariant_scale
#print axioms Lattigo.Props.C09.alias_sound_bgv_tensorScaleInvariant_scale_partial
#print axioms Lattigo.Props.C09.bgv_tensorScaleInvariant_outOp1_counterexample
#print axioms Lattigo.Props.C09.alias_sound_bgv_matchScale
#print axioms Lattigo.Props.C09.alias_sound_bgv_matchScale_partial
#print axioms Lattigo.Props.C09.bgv_addBigInt_sound
#print axioms Lattigo.Props.C09.bgv_mulBigInt_sound
#print axioms Lattigo.Props.C09.bgv_matchScale_outOp1_counterexample
#print axioms Lattigo.Props.C09.bgv_addBigInt_inputs_counterexample
#print axioms Lattigo.Props.C09.bgv_mulBigInt_inputs_counterexample
#print axioms Lattigo.Props.C09.alias_sound_rlwe_automorphism
#print axioms Lattigo.Props.C09.rlwe_partialTracesSum_frame
#print axioms Lattigo.Props.C09.alias_sound_rlwe_partialTracesSum
#print axioms Lattigo.Props.C09.history_free_rlwe_partialTracesSum
#print axioms Lattigo.Props.C09.alias_sound_rlwe_partialTracesSum_partial
#print axioms Lattigo.Props.C09.frame_general
#print axioms Lattigo.Props.C09.inputs_unchanged_modelled
#print axioms Lattigo.Props.C09.frame_ckks_addSub_all_degrees
#print axioms Lattigo.Props.C09.frame_tensor_all_degrees
#print axioms Lattigo.Props.C09.history_free_general
#print axioms Lattigo.Props.C09.history_free_modelled
#print axioms Lattigo.Props.C09.genShare_inplace_inputs_counterexample
#print axioms Lattigo.Props.C09.alias_sound_meta_init
#print axioms Lattigo.Props.C09.alias_sound_meta
#print axioms Lattigo.Props.C09.meta_overwrite_first_counterexample
#print axioms Lattigo.Props.C09.alias_sound_ckks_addSub_degrees
#print axioms Lattigo.Props.C09.alias_sound_tensor_degrees
#print axioms Lattigo.Props.C09.tensor_degrees_rejected
#print axioms Lattigo.Props.C09.tensor_receiver_degree0_counterexample
#print axioms Lattigo.Props.C09.tensor_panics_only_receiver_degree0
#print axioms Lattigo.Props.C09.tensor_fixed_no_panic
#print axioms Lattigo.Props.C09.alias_sound_tensor_degrees_fixed
#print axioms Lattigo.Props.C09.history_free_level
#print axioms Lattigo.Props.C09.history_free_level_receivers
#print axioms Lattigo.Props.C09.resize_level_malformed_counterexample
#print axioms Lattigo.Props.C09.resize_fixed_history_free
#print axioms Lattigo.Props.C09.history_free_level_fixed
#print axioms Lattigo.Props.C09.shape_fixed_no_panic
#print axioms Lattigo.Props.C09.tie_follows_head
#print axioms Lattigo.Props.C09.alias_sound_ring_divRound
#print axioms Lattigo.Props.C09.ring_divRound_result
#print axioms Lattigo.Props.C09.ring_divRound_inputs_counterexample
#print axioms Lattigo.Props.C09.ring_divRound_pre64e1afc_inputs_counterexample
#print axioms Lattigo.Props.C09.alias_sound_ring_divRoundNTT
#print axioms Lattigo.Props.C09.resize_keeps_prefix
#print axioms Lattigo.Props.C09.add_history_free
#print axioms Lattigo.Props.C09.add_history_free_partial
#print axioms Lattigo.Props.C09.add_history_counterexample
