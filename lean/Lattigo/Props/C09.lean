/-
  C09 — operations leave their inputs intact and are insensitive to output aliasing / history.

  What is proved here is about `Lattigo/Model/Store.lean`: a transcription of the READ/WRITE ORDER of
  the Go routines that branch on pointer identity or write the output before they have finished
  reading an operand, over abstract locations (roles `op0 op1 out` mapped to objects by an aliasing
  pattern, evaluator scratch buffers with ARBITRARY prior content) and UNINTERPRETED arithmetic
  (`Interp.fn : Fn → List α → α` is universally quantified; the few algebraic laws a routine relies
  on when it swaps operands / takes the squaring path are explicit hypotheses, `TensorLaws`,
  `ScaleLaws`, and are shown to hold for the driver's `Int` interpretation).

  Theorem shape (`…_alias_sound`): for every aliasing pattern the routine accepts, every store
  (hence every scratch content and every previous content of a distinct output):
     store'[out] = F(store[op0], store[op1])  ∧  ∀ x ∉ {out} ∪ scratch, store'[x] = store[x]
  with F the closed form of the all-distinct run.

  Where the code as written is NOT alias-safe / input-preserving / history-free the negation is proved
  (`…_counterexample`) together with the exact value the code computes:
    * bgv.tensorScaleInvariant, out = op1      — output Scale = sinv(scale0, scale0)   [NEW while transcribing;
                                                 fixed: a817070; the model follows HEAD, old programs kept as `…Old`]
    * bgv.matchScaleThenEvaluateInPlace, out = op1 — op1 overwritten before it is read   [fixed: 48fb64a]
    * bgv.Add / bgv.Mul (*big.Int)             — caller's big.Int rewritten               [fixed: 914a9ce]
    * ring.DivRoundByLastModulus               — input polynomial rewritten (fixed in /repo by commit 64e1afc;
                                                 the model follows HEAD, the old program is kept as `divRoundProgOld`)
    * ct+ct Add/Sub into an output of larger previous degree — stale polynomial kept  [fix C09-2, `addIntoOld`]
  Each is replayed on the real code by a harness probe (harness/c09.go).

  Not modelled: coefficient-level aliasing inside one ring operation (the ring kernels are
  coefficient-wise or buffer their input, property C01), degrees other than 1⊗1 / 1⊕1 in the
  pointer-branching routines, `Resize` of the level (limb count).  PartialTracesSum: general `n`
  only for the frame, aliasing for n ≤ 8 (`_partial`).
-/
import Lattigo.Proofs.StoreInt

namespace Lattigo.Props.C09
open Lattigo.Store

variable {α : Type}

/-- ckks.Evaluator.evaluateInPlace (Add/Sub with scale alignment): all five patterns. -/
theorem alias_sound_ckks_evaluateInPlace (I : Interp α) (h : ScaleLaws I) (al : Alias) (σ : Store α) :
    let p := al.pat
    let σ' := ckksEval I p σ
    let sa := σ (L p.op0 fScale); let sb := σ (L p.op1 fScale)
    σ' (L p.out 0) = ckksEvalF I (I.cmp sa sb) sa sb (σ (L p.op0 0)) (σ (L p.op1 0)) ∧
    σ' (L p.out 1) = ckksEvalF I (I.cmp sa sb) sa sb (σ (L p.op0 1)) (σ (L p.op1 1)) ∧
    σ' (L p.out fScale) = I.fn .smax [sa, sb] ∧
    ∀ x, Untouched p x → σ' x = σ x := ckksEval_alias_sound I h al σ

example : ScaleLaws intI := intI_scaleLaws

/-- ckks.mulRelin (relin = false), all five patterns. -/
theorem alias_sound_ckks_mul (I : Interp α) (h : TensorLaws I .mform) (al : Alias) (σ : Store α) : type_of% (tensor_alias_sound I .mform h al σ) :=
  tensor_alias_sound I .mform h al σ

/-- ckks.mulRelin (relin = true), all five patterns. -/
theorem alias_sound_ckks_mulRelin (I : Interp α) (h : TensorLaws I .mform) (al : Alias) (σ : Store α) : type_of% (tensorRelin_alias_sound I .mform h al σ) :=
  tensorRelin_alias_sound I .mform h al σ

/-- bgv.tensorStandard, without / with relinearisation, all five patterns. -/
theorem alias_sound_bgv_tensorStandard (I : Interp α) (h : TensorLaws I .mulT) (al : Alias) (σ : Store α) : type_of% (tensor_alias_sound I .mulT h al σ) :=
  tensor_alias_sound I .mulT h al σ

theorem alias_sound_bgv_tensorStandard_relin (I : Interp α) (h : TensorLaws I .mulT) (al : Alias)
    (σ : Store α) : type_of% (tensorRelin_alias_sound I .mulT h al σ) := tensorRelin_alias_sound I .mulT h al σ

example : TensorLaws intI .mform := intI_tensorLaws_mform
example : TensorLaws intI .mulT := intI_tensorLaws_mulT

/-- bgv.tensorScaleInvariant: the three polynomials are right under all five patterns … -/
theorem alias_sound_bgv_tensorScaleInvariant_poly (I : Interp α) (h : TensorLaws I .mform)
    (hM : TensorLaws I .mformM) (al : Alias) (σ : Store α) : type_of% (bgvTensorSI_poly_alias_sound I h hM al σ) := bgvTensorSI_poly_alias_sound I h hM al σ

example : TensorLaws intI .mformM := intI_tensorLaws_mformM

/-- … and so is the output scale (HEAD, commit a817070: `ct1.Scale`, not `tmp1Q0.Scale`). -/
theorem alias_sound_bgv_tensorScaleInvariant_scale (I : Interp α) (relin : Bool) (al : Alias) (σ : Store α) :
    run I (bgvTensorSIProg relin al.pat) σ (L al.pat.out fScale) =
      I.fn .sinv [σ (L al.pat.op0 fScale), σ (L al.pat.op1 fScale)] :=
  bgvTensorSI_scale_alias_sound I relin al σ

/-- BEFORE commit a817070 (`bgvTensorSIProgOld`) the scale was right under every pattern except `out = op1` … -/
theorem alias_sound_bgv_tensorScaleInvariant_scale_partial (I : Interp α) (relin : Bool) (al : Alias)
    (hal : al ≠ .outOp1) (σ : Store α) :
    run I (bgvTensorSIProgOld relin al.pat) σ (L al.pat.out fScale) =
      I.fn .sinv [σ (L al.pat.op0 fScale), σ (L al.pat.op1 fScale)] :=
  bgvTensorSIOld_scale_alias_sound I relin al hal σ

example : Alias.outOp0 ≠ Alias.outOp1 := by decide

/-- … and WRONG for `out = op1`: the full statement was false of the code before the fix. -/
theorem bgv_tensorScaleInvariant_outOp1_counterexample :
    ∃ σ : Store Int, run intI (bgvTensorSIProgOld false Alias.outOp1.pat) σ (L 1 fScale) ≠
      intI.fn .sinv [σ (L 0 fScale), σ (L 1 fScale)] := bgvTensorSIOld_outOp1_counterexample

/-- bgv.matchScaleThenEvaluateInPlace (HEAD, commit 48fb64a: `el1` is copied first when it is the
    receiver): sound for all five patterns. -/
theorem alias_sound_bgv_matchScale (I : Interp α) (hcopy : ∀ x, I.fn .copy [x] = x) (al : Alias) (σ : Store α) :
    type_of% (bgvMatchScale_alias_sound I hcopy al σ) := bgvMatchScale_alias_sound I hcopy al σ

/-- BEFORE commit 48fb64a (`bgvMatchScaleProgOld`): sound for distinct / out = op0 / op0 = op1 only … -/
theorem alias_sound_bgv_matchScale_partial (I : Interp α) (al : Alias)
    (hal : al ≠ .outOp1 ∧ al ≠ .allEq) (σ : Store α) :
    type_of% (bgvMatchScaleOld_alias_sound I al hal σ) := bgvMatchScaleOld_alias_sound I al hal σ

example : Alias.outOp0 ≠ Alias.outOp1 ∧ Alias.outOp0 ≠ Alias.allEq := by decide

/-- … FALSE for `out = op1` (which bgv.Add/Sub accepted without error). -/
theorem bgv_matchScale_outOp1_counterexample :
    ∃ σ : Store Int, run intI (bgvMatchScaleProgOld Alias.outOp1.pat) σ (L 1 0) ≠
      matchF intI (σ (L 0 fScale)) (σ (L 1 fScale)) (σ (L 0 0)) (σ (L 1 0)) :=
  bgvMatchScaleOld_outOp1_counterexample

/-- bgv.Add / bgv.Mul (*big.Int) at HEAD (commits 914a9ce, 5801a27): right result, receiver scale set,
    the caller's number intact. -/
theorem bgv_addBigInt_sound (I : Interp α) (hcopy : ∀ x, I.fn .copy [x] = x) (al : Alias)
    (hal : al = .distinct ∨ al = .outOp0) (σ : Store α) :
    type_of% (bgvAddBig_sound I hcopy al hal σ) := bgvAddBig_sound I hcopy al hal σ

theorem bgv_mulBigInt_sound (I : Interp α) (al : Alias) (hal : al = .distinct ∨ al = .outOp0) (σ : Store α) :
    type_of% (bgvMulBig_sound I al hal σ) := bgvMulBig_sound I al hal σ

/-- BEFORE commit 914a9ce (`…ProgOld`) the caller's big.Int was rewritten. -/
theorem bgv_addBigInt_inputs_counterexample :
    ∃ σ : Store Int, run intI (bgvAddBigProgOld Alias.distinct.pat) σ (L bigArg 0) ≠ σ (L bigArg 0) :=
  bgvAddBigOld_inputs_counterexample

theorem bgv_mulBigInt_inputs_counterexample :
    ∃ σ : Store Int, run intI (bgvMulBigProgOld Alias.distinct.pat) σ (L bigArg 0) ≠ σ (L bigArg 0) :=
  bgvMulBigOld_inputs_counterexample

/-- rlwe.Evaluator.Automorphism: distinct and in-place. -/
theorem alias_sound_rlwe_automorphism (I : Interp α) (al : Alias) (hal : al = .distinct ∨ al = .outOp0)
    (σ : Store α) : type_of% (rlweAut_alias_sound I al hal σ) := rlweAut_alias_sound I al hal σ

/-- rlwe.PartialTracesSum (InnerSum/Replicate): for EVERY n and pattern only `out`, BuffCt, BuffQP are written. -/
theorem rlwe_partialTracesSum_frame (I : Interp α) (n : Nat) (p : Pat) (σ : Store α) (x : Loc)
    (hx : x.obj ≠ p.out ∧ x.obj ≠ bqp ∧ x.obj ≠ bct) : run I (rlwePTSProg n p) σ x = σ x :=
  rlwePTS_frame I n p σ x hx

/-- PARTIAL: alias soundness of PartialTracesSum for 1 ≤ n ≤ 8 (see `rlwePTS_alias_sound_partial`). -/
theorem alias_sound_rlwe_partialTracesSum_partial (I : Interp α) (hcopy : ∀ x, I.fn .copy [x] = x)
    (n : Nat) (hn : 1 ≤ n ∧ n ≤ 8) (σ σd : Store α) (hagree : ∀ x, x.obj ≠ 2 → σd x = σ x) (f : Nat)
    (hf : f = 0 ∨ f = 1 ∨ f = fScale ∨ f = fMeta) :
    run I (rlwePTSProg n Alias.outOp0.pat) σ (L 0 f) = run I (rlwePTSProg n Alias.distinct.pat) σd (L 2 f) :=
  rlwePTS_alias_sound_partial I hcopy n hn σ σd hagree f hf

example : ∀ x : Int, intI.fn .copy [x] = x := fun _ => rfl

/-- ring.DivRoundByLastModulus as of HEAD (commit 64e1afc and later): alias-sound, input intact. -/
theorem alias_sound_ring_divRound (I : Interp α) (al : Alias) (hal : al = .distinct ∨ al = .outOp0)
    (σ : Store α) : type_of% (divRound_alias_sound I al hal σ) := divRound_alias_sound I al hal σ

/-- the version before commit 64e1afc rewrote its input (finding of this property, fixed since). -/
theorem ring_divRound_pre64e1afc_inputs_counterexample :
    ∃ σ : Store Int, run intI (divRoundProgOld Alias.distinct.pat) σ (L 0 2) ≠ σ (L 0 2) :=
  divRoundOld_inputs_counterexample

/-- (name kept for the required-theorem list) the result part of `alias_sound_ring_divRound`. -/
theorem ring_divRound_result (I : Interp α) (al : Alias) (hal : al = .distinct ∨ al = .outOp0) (σ : Store α) :
    let p := al.pat
    let σ' := run I (divRoundProg p) σ
    σ' (L p.out 0) = divF I (σ (L p.op0 2)) (σ (L p.op0 0)) ∧
    σ' (L p.out 1) = divF I (σ (L p.op0 2)) (σ (L p.op0 1)) :=
  ⟨(divRound_alias_sound I al hal σ).1, (divRound_alias_sound I al hal σ).2.1⟩

/-- (name kept for the required-theorem list) = `ring_divRound_pre64e1afc_inputs_counterexample`:
    about `divRoundProgOld`, the code before the fix. -/
theorem ring_divRound_inputs_counterexample :
    ∃ σ : Store Int, run intI (divRoundProgOld Alias.distinct.pat) σ (L 0 2) ≠ σ (L 0 2) :=
  divRoundOld_inputs_counterexample

/-- ring.DivRoundByLastModulusNTT: alias-sound and input-preserving (it goes through `buff`). -/
theorem alias_sound_ring_divRoundNTT (I : Interp α) (al : Alias) (hal : al = .distinct ∨ al = .outOp0)
    (σ : Store α) : type_of% (divRoundNTT_alias_sound I al hal σ) := divRoundNTT_alias_sound I al hal σ

/-- Element.Resize never rewrites a polynomial that stays. -/
theorem resize_keeps_prefix (z : α) (d : Nat) (v : List α) (i : Nat) (hi : i < min v.length (d + 1)) :
    (resize z d v)[i]? = v[i]? := resize_prefix z d v i hi

example : (2 : Nat) < min [1, 2, 3, 4].length (2 + 1) := by decide

/-- ct+ct Add (code with fix C09-2) is history-free: the previous content and degree of the receiver
    do not matter. -/
theorem add_history_free (z : α) (add : α → α → α) (op0 op1 out : List α) (h0 : op0 ≠ []) :
    addInto z add op0 op1 out = addLists add op0 op1 := addInto_history_free z add op0 op1 out h0

example : ([1, 2] : List Int) ≠ [] := by decide

/-- BEFORE fix C09-2 (`addIntoOld`): history-free only when the receiver's previous degree does not
    exceed the operands' … -/
theorem add_history_free_partial (z : α) (add : α → α → α) (op0 op1 out : List α)
    (h : out.length ≤ max op0.length op1.length) (h0 : op0 ≠ []) :
    addIntoOld z add op0 op1 out = addLists add op0 op1 := addIntoOld_history_free z add op0 op1 out h h0

example : [7, 8].length ≤ max [1, 2].length [10, 20].length ∧ [1, 2] ≠ ([] : List Int) := by decide

/-- … and NOT otherwise (degree-2 receiver reused for a degree-1 sum kept its third polynomial). -/
theorem add_history_counterexample :
    addIntoOld (0 : Int) (· + ·) [1, 2] [10, 20] [7, 8, 9] = [11, 22, 9] ∧
    addIntoOld (0 : Int) (· + ·) [1, 2] [10, 20] [0, 0] = [11, 22] := addIntoOld_degree_residue_counterexample

-- TESTS (a `decide` over samples, not theorems about all inputs): the driver's predictions
example : predictAlias .bgvMatchScale .outOp1 6 2 = .sameAsFresh := by decide
example : predictAlias .bgvTensorSI .outOp1 6 2 = .sameAsFresh := by decide
example : predictAlias .ckksEval .outOp1 2 6 = .sameAsFresh := by decide
example : predictInputs .divRound 4 4 = .sameAsFresh := by decide

end Lattigo.Props.C09

open Lattigo.Props.C09 in
#print axioms alias_sound_ckks_evaluateInPlace
#print axioms Lattigo.Props.C09.alias_sound_ckks_mul
#print axioms Lattigo.Props.C09.alias_sound_ckks_mulRelin
#print axioms Lattigo.Props.C09.alias_sound_bgv_tensorStandard
#print axioms Lattigo.Props.C09.alias_sound_bgv_tensorStandard_relin
#print axioms Lattigo.Props.C09.alias_sound_bgv_tensorScaleInvariant_poly
#print axioms Lattigo.Props.C09.alias_sound_bgv_tensorScaleInvariant_scale
#print axioms Lattigo.Props.C09.alias_sound_bgv_tensorScaleInvariant_scale_partial
#print axioms Lattigo.Props.C09.bgv_tensorScaleInvariant_outOp1_counterexample
#print axioms Lattigo.Props.C09.alias_sound_bgv_matchScale
#print axioms Lattigo.Props.C09.alias_sound_bgv_matchScale_partial
#print axioms Lattigo.Props.C09.bgv_addBigInt_sound
#print axioms Lattigo.Props.C09.bgv_mulBigInt_sound
#print axioms Lattigo.Props.C09.bgv_matchScale_outOp1_counterexample
#print axioms Lattigo.Props.C09.bgv_addBigInt_inputs_counterexample
#print axioms Lattigo.Props.C09.bgv_mulBigInt_inputs_counterexample
#print axioms Lattigo.Props.C09.alias_sound_rlwe_automorphism
#print axioms Lattigo.Props.C09.rlwe_partialTracesSum_frame
#print axioms Lattigo.Props.C09.alias_sound_rlwe_partialTracesSum_partial
#print axioms Lattigo.Props.C09.alias_sound_ring_divRound
#print axioms Lattigo.Props.C09.ring_divRound_result
#print axioms Lattigo.Props.C09.ring_divRound_inputs_counterexample
#print axioms Lattigo.Props.C09.ring_divRound_pre64e1afc_inputs_counterexample
#print axioms Lattigo.Props.C09.alias_sound_ring_divRoundNTT
#print axioms Lattigo.Props.C09.resize_keeps_prefix
#print axioms Lattigo.Props.C09.add_history_free
#print axioms Lattigo.Props.C09.add_history_free_partial
#print axioms Lattigo.Props.C09.add_history_counterexample
