/-
  C14 — "noise below N times the single-party bound" for the collective keys.

  `Props/C14.lean` gives the exact error terms: `phase(cpk, Σ s_i) = Σ e_i` (`cpk_phase`), every evaluation / Galois
  key row is a single-party row for the ideal secrets with error `Σ_i e_i` (`evk_collective_eq_single`, `evk_row`),
  the relinearisation key row has error `s·E0 + u·E1 + E2` with `s = Σ s_i`, `u = Σ u_i`, `E_k = Σ_i e_k,i`
  (`rkg_row`).  Here their sizes over `Z[X]/(X^N+1)` = `Lattigo.ZPoly`, for ANY aggregation tree `t`
  (`n = t.leaves.length` parties; `d` the ring degree in the comments, `h ≥ ‖s_i‖₁` — `h ≤ d` for ternary secrets):

    * `cpk_noise_bound`            ‖Σ e_i‖∞ ≤ n·B                                    [n × single party]
    * `cpk_enc_noise_bound(_P)`    encryption under the collective key: ≤ B·(n·h_u + 1 + n·h)  (/P + rounding)
                                                                                       [≤ n × single party]
    * `collective_keyswitch_noise_bound`  key switch with a collective evk / Galois key:
                                   2P‖ν‖∞ ≤ 2·N·(n·B)·ΣD + P·(1 + n·h)                [≤ n × single party]
    * `rkg_noise_bound`            ‖s·E0 + u·E1 + E2‖∞ ≤ n·B·(n·h + n·h_u + 1)        [HONEST: grows like n²·h·B —
                                   NOT n × the single-party bound `B·(h + h_u + 1)`; worst case, both the secret
                                   and the error are sums of n terms.  In standard deviations the growth is n
                                   (multiparty.NoiseRelinearizationKey), the worst-case ℓ∞ bound is quadratic.]
    * `collective_relin_noise_bound`  relinearisation with the collective key:
                                   2P‖ν‖∞ ≤ 2·N·(n·B·(n·h + n·h_u + 1))·ΣD + P·(1 + n·h)

  Relation to the harness (harness/c14_probe.go, `B` there is `⌈Xe.Bound⌉+1`, `h = h_u = d`):
    cpk probe bound      n·(2dB + B + d + 1)                ≥ B·(n·d + 1 + n·d) (no P) and ≥ that/P + (1+n·d)/2 + 1
    evk/gal probe bound  n·d·B·ΣD'/P + n·(d+1) + 1, D' = 2^w resp. (k_P+1)·ΠQ_i
                                                            ≥ d·(n·B)·ΣD/P + (1 + n·d)/2 + 1
    rlk probe bound      d·ΣD'·n·B·(2dn+1)/P + n(d+1) + 1   ≥ d·(n·B·(2nd+1))·ΣD/P + (1 + n·d)/2 + 1
  — each probe bound is ≥ the theorem's bound (term by term), so the probes cannot false-alarm.
-/
import Lattigo.Proofs.NoiseNorm
import Lattigo.Model.MPShare

namespace Lattigo.Props.C14
open Lattigo.MP Lattigo.ZPoly

/-! ## Sums along an aggregation tree -/

/-- `‖Σ_{i ∈ leaves} e_i‖∞ ≤ n·B` for the aggregate along any tree -/
theorem normInf_tree_le (t : AggTree) (e : Nat → List Int) (B : Nat)
    (h : ∀ i ∈ t.leaves, normInf (e i) ≤ B) : normInf (t.eval add e) ≤ t.leaves.length * B := by
  induction t with
  | leaf i => simpa [AggTree.eval, AggTree.leaves] using h i (by simp [AggTree.leaves])
  | node l r ihl ihr =>
    have hl := ihl (fun i hi => h i (by simp [AggTree.leaves, hi]))
    have hr := ihr (fun i hi => h i (by simp [AggTree.leaves, hi]))
    have := normInf_add_le (l.eval add e) (r.eval add e)
    simp only [AggTree.eval, AggTree.leaves, List.length_append, Nat.add_mul]
    omega

/-- `‖Σ s_i‖₁ ≤ n·h` -/
theorem norm1_tree_le (t : AggTree) (s : Nat → List Int) (h : Nat)
    (hs : ∀ i ∈ t.leaves, norm1 (s i) ≤ h) : norm1 (t.eval add s) ≤ t.leaves.length * h := by
  induction t with
  | leaf i => simpa [AggTree.eval, AggTree.leaves] using hs i (by simp [AggTree.leaves])
  | node l r ihl ihr =>
    have hl := ihl (fun i hi => hs i (by simp [AggTree.leaves, hi]))
    have hr := ihr (fun i hi => hs i (by simp [AggTree.leaves, hi]))
    have := norm1_add_le (l.eval add s) (r.eval add s)
    simp only [AggTree.eval, AggTree.leaves, List.length_append, Nat.add_mul]
    omega

/-! ## Collective public key -/

/-- **cpk_noise_bound**: the collective public key's error `Σ e_i` (`cpk_phase`) is below `n` times the
    single-party bound. -/
theorem cpk_noise_bound (t : AggTree) (e : Nat → List Int) (B : Nat)
    (h : ∀ i ∈ t.leaves, normInf (e i) ≤ B) : normInf (t.eval add e) ≤ t.leaves.length * B :=
  normInf_tree_le t e B h

/-- encryption under the collective key, no auxiliary modulus: noise `u·E + e0 + s·e1` with `E = Σ e_i`,
    `s = Σ s_i`; single-party (`n = 1`): `B·(h_u + 1 + h)` (`noise_upper_pk_noP`). -/
theorem cpk_enc_noise_bound (t : AggTree) (e sk : Nat → List Int) (u e0 e1 : List Int) (B h hu : Nat)
    (he : ∀ i ∈ t.leaves, normInf (e i) ≤ B) (hs : ∀ i ∈ t.leaves, norm1 (sk i) ≤ h)
    (hu' : norm1 u ≤ hu) (h0 : normInf e0 ≤ B) (h1 : normInf e1 ≤ B) :
    normInf (add (add (mul u (t.eval add e)) e0) (mul (t.eval add sk) e1))
      ≤ B * (t.leaves.length * hu + 1 + t.leaves.length * h) := by
  have a1 := normInf_add_le (add (mul u (t.eval add e)) e0) (mul (t.eval add sk) e1)
  have a2 := normInf_add_le (mul u (t.eval add e)) e0
  have m1 := Nat.le_trans (normInf_mul_le u (t.eval add e)) (Nat.mul_le_mul hu' (normInf_tree_le t e B he))
  have m2 := Nat.le_trans (normInf_mul_le (t.eval add sk) e1) (Nat.mul_le_mul (norm1_tree_le t sk h hs) h1)
  have e : B * (t.leaves.length * hu + 1 + t.leaves.length * h)
      = hu * (t.leaves.length * B) + B + t.leaves.length * h * B := by ring
  omega

/-- … with auxiliary modulus: `P·ν = (u·E + e0 + s·e1) − δ0 − s·δ1`, centred `δ` -/
theorem cpk_enc_noise_bound_P (P : Nat) (t : AggTree) (e sk : Nat → List Int) (u e0 e1 ν δ0 δ1 : List Int)
    (B h hu : Nat)
    (hrel : smul P ν = sub (sub (add (add (mul u (t.eval add e)) e0) (mul (t.eval add sk) e1)) δ0)
      (mul (t.eval add sk) δ1))
    (hd0 : 2 * normInf δ0 ≤ P) (hd1 : 2 * normInf δ1 ≤ P)
    (he : ∀ i ∈ t.leaves, normInf (e i) ≤ B) (hs : ∀ i ∈ t.leaves, norm1 (sk i) ≤ h)
    (hu' : norm1 u ≤ hu) (h0 : normInf e0 ≤ B) (h1 : normInf e1 ≤ B) :
    2 * (P * normInf ν) ≤ 2 * (B * (t.leaves.length * hu + 1 + t.leaves.length * h))
      + P * (1 + t.leaves.length * h) :=
  rounding_bound P ν _ δ0 δ1 _ _ _ hrel hd0 hd1 (cpk_enc_noise_bound t e sk u e0 e1 B h hu he hs hu' h0 h1)
    (norm1_tree_le t sk h hs)

/-! ## Evaluation / Galois keys -/

/-- every entry of the collective key's error matrix is a sum over the parties of errors bounded by `B` -/
def CollectiveErr (t : AggTree) (B : Nat) (es : List (List (List Int))) : Prop :=
  ∀ r ∈ es, ∀ E ∈ r, ∃ e : Nat → List Int, E = t.eval add e ∧ ∀ i ∈ t.leaves, normInf (e i) ≤ B

theorem collectiveErr_bounded (t : AggTree) (B : Nat) (es : List (List (List Int)))
    (h : CollectiveErr t B es) : ErrBounded (t.leaves.length * B) es := by
  intro r hr E hE
  obtain ⟨e, rfl, he⟩ := h r hr E hE
  exact normInf_tree_le t e B he

/-- **collective_keyswitch_noise_bound**: key switching with a collective evaluation (or Galois) key — every row
    error is `Σ_i e_ij,i` (`evk_collective_eq_single`), the output secret is `Σ s_out,i`:
    `2P‖ν‖∞ ≤ 2·N·(n·B)·ΣD + P·(1 + n·h)` — at most `n` times the single-party bound `2·N·B·ΣD + P·(1 + h)`. -/
theorem collective_keyswitch_noise_bound (N P B h : Nat) (t : AggTree) (ds es : List (List (List Int)))
    (Dss : List (List Nat)) (ν ρ0 ρ1 : List Int) (sk : Nat → List Int)
    (hd : DigitsBounded N ds Dss) (he : CollectiveErr t B es)
    (hrel : smul P ν = sub (sub (dotMatZ N ds es) ρ0) (mul (t.eval add sk) ρ1))
    (h0 : 2 * normInf ρ0 ≤ P) (h1 : 2 * normInf ρ1 ≤ P) (hs : ∀ i ∈ t.leaves, norm1 (sk i) ≤ h) :
    2 * (P * normInf ν) ≤ 2 * (N * (t.leaves.length * B) * sumSum Dss) + P * (1 + t.leaves.length * h) :=
  rounding_bound P ν _ ρ0 ρ1 _ _ _ hrel h0 h1
    (normInf_dotMatZ_le_of_bounds N _ ds es Dss hd (collectiveErr_bounded t B es he)) (norm1_tree_le t sk h hs)

/-- "below `n` times the single-party bound", literally: the right-hand side above is `≤ n·(2·N·B·ΣD + P·(1 + h))` -/
theorem collective_le_n_times_single (N P B h n S : Nat) (hn : 1 ≤ n) :
    2 * (N * (n * B) * S) + P * (1 + n * h) ≤ n * (2 * (N * B * S) + P * (1 + h)) := by
  have e1 : n * (2 * (N * B * S) + P * (1 + h)) = 2 * (N * (n * B) * S) + (n * P + P * (n * h)) := by ring
  have e2 : P * (1 + n * h) = P + P * (n * h) := by ring
  have : P ≤ n * P := Nat.le_mul_of_pos_left P hn
  omega

/-! ## Relinearisation key -/

/-- **rkg_noise_bound** (what is true): the row error `s·E0 + u·E1 + E2` of the collective relinearisation key
    (`rkg_row`), with `s = Σ s_i`, `u = Σ u_i`, `E_k = Σ_i e_k,i`, satisfies
    `‖s·E0 + u·E1 + E2‖∞ ≤ n·B·(n·h + n·h_u + 1)`.  Single party: `B·(h + h_u + 1)`; the collective bound is
    `n²`-ish, not `n` times that. -/
theorem rkg_noise_bound (t : AggTree) (sk uk e0 e1 e2 : Nat → List Int) (B h hu : Nat)
    (hs : ∀ i ∈ t.leaves, norm1 (sk i) ≤ h) (hu' : ∀ i ∈ t.leaves, norm1 (uk i) ≤ hu)
    (h0 : ∀ i ∈ t.leaves, normInf (e0 i) ≤ B) (h1 : ∀ i ∈ t.leaves, normInf (e1 i) ≤ B)
    (h2 : ∀ i ∈ t.leaves, normInf (e2 i) ≤ B) :
    normInf (add (add (mul (t.eval add sk) (t.eval add e0)) (mul (t.eval add uk) (t.eval add e1))) (t.eval add e2))
      ≤ t.leaves.length * B * (t.leaves.length * h + t.leaves.length * hu + 1) := by
  have a1 := normInf_add_le (add (mul (t.eval add sk) (t.eval add e0)) (mul (t.eval add uk) (t.eval add e1)))
    (t.eval add e2)
  have a2 := normInf_add_le (mul (t.eval add sk) (t.eval add e0)) (mul (t.eval add uk) (t.eval add e1))
  have m1 := Nat.le_trans (normInf_mul_le (t.eval add sk) (t.eval add e0))
    (Nat.mul_le_mul (norm1_tree_le t sk h hs) (normInf_tree_le t e0 B h0))
  have m2 := Nat.le_trans (normInf_mul_le (t.eval add uk) (t.eval add e1))
    (Nat.mul_le_mul (norm1_tree_le t uk hu hu') (normInf_tree_le t e1 B h1))
  have m3 := normInf_tree_le t e2 B h2
  have e : t.leaves.length * B * (t.leaves.length * h + t.leaves.length * hu + 1)
      = t.leaves.length * h * (t.leaves.length * B) + t.leaves.length * hu * (t.leaves.length * B)
        + t.leaves.length * B := by ring
  omega

/-- the quadratic growth is attained (so no `n × single-party` bound can hold): `N = 1` (`Z[X]/(X+1) = ℤ`),
    `n = 2` parties with `s_i = u_i = e_k,i = 1` (`B = h = h_u = 1`): the error is `2·2 + 2·2 + 2 = 10 = n·B·(2n + 1)`,
    while `n` times the single-party bound `B·(h + h_u + 1) = 3` is `6`. -/
theorem rkg_noise_quadratic_witness :
    let t := AggTree.node (.leaf 0) (.leaf 1)
    let c : Nat → List Int := fun _ => [1]
    normInf (add (add (mul (t.eval add c) (t.eval add c)) (mul (t.eval add c) (t.eval add c))) (t.eval add c)) = 10
      ∧ t.leaves.length * (1 * (1 + 1 + 1)) = 6 := by decide

/-- **collective_relin_noise_bound**: relinearisation with the collective key (rows `w·s² + (s·E0 + u·E1 + E2)`). -/
theorem collective_relin_noise_bound (N P B h hu : Nat) (t : AggTree) (ds es : List (List (List Int)))
    (Dss : List (List Nat)) (ν ρ0 ρ1 : List Int) (sk : Nat → List Int)
    (hd : DigitsBounded N ds Dss)
    (he : ErrBounded (t.leaves.length * B * (t.leaves.length * h + t.leaves.length * hu + 1)) es)
    (hrel : smul P ν = sub (sub (dotMatZ N ds es) ρ0) (mul (t.eval add sk) ρ1))
    (h0 : 2 * normInf ρ0 ≤ P) (h1 : 2 * normInf ρ1 ≤ P) (hs : ∀ i ∈ t.leaves, norm1 (sk i) ≤ h) :
    2 * (P * normInf ν)
      ≤ 2 * (N * (t.leaves.length * B * (t.leaves.length * h + t.leaves.length * hu + 1)) * sumSum Dss)
        + P * (1 + t.leaves.length * h) :=
  rounding_bound P ν _ ρ0 ρ1 _ _ _ hrel h0 h1 (normInf_dotMatZ_le_of_bounds N _ ds es Dss hd he)
    (norm1_tree_le t sk h hs)

/-! ## Non-vacuity -/

/-- three parties on `N = 2`, tree `((0 1) 2)`, errors bounded by `B = 2`: `‖Σ e_i‖∞ = 4 ≤ 3·2` -/
example :
    let t := AggTree.node (.node (.leaf 0) (.leaf 1)) (.leaf 2)
    let e : Nat → List Int := fun i => if i = 0 then [2, -1] else if i = 1 then [1, -2] else [1, 1]
    (∀ i ∈ t.leaves, normInf (e i) ≤ 2) ∧ t.eval add e = [4, -2] ∧ t.leaves.length = 3 := by decide

/-- hypotheses of `rkg_noise_bound` on the same tree with ternary secrets of weight `≤ 1` -/
example :
    let t := AggTree.node (.node (.leaf 0) (.leaf 1)) (.leaf 2)
    let s : Nat → List Int := fun i => if i = 0 then [1, 0] else if i = 1 then [0, -1] else [1, 0]
    (∀ i ∈ t.leaves, norm1 (s i) ≤ 1) ∧ norm1 (t.eval add s) = 3 := by decide

end Lattigo.Props.C14

#print axioms Lattigo.Props.C14.cpk_noise_bound
#print axioms Lattigo.Props.C14.cpk_enc_noise_bound
#print axioms Lattigo.Props.C14.cpk_enc_noise_bound_P
#print axioms Lattigo.Props.C14.collective_keyswitch_noise_bound
#print axioms Lattigo.Props.C14.collective_le_n_times_single
#print axioms Lattigo.Props.C14.rkg_noise_bound
#print axioms Lattigo.Props.C14.rkg_noise_quadratic_witness
#print axioms Lattigo.Props.C14.collective_relin_noise_bound
