/-
  Property C11 — the REGENERATED tie for the Galois-element arithmetic.

  `Lattigo/Gen/Galois.lean` is printed by `tools/go2lean` (typed mode, `tools/go2lean/typed.go`) from
  the Go source on every `./check C11`:

      ring/utils.go        ModExp, ModExpPow2                     (loops: `loopWhile 64`, rule S)
      core/rlwe/params.go  GaloisElement, GaloisElements, ModInvGaloisElement,
                           GaloisElementOrderTwoOrthogonalSubgroup,
                           SolveDiscreteLogGaloisElement          (`for { }`: explicit `fuel`)
      ring/ring.go         GaloisGen, Standard, ConjugateInvariant

  with `p.ringQ.NthRoot()` / `p.ringType` as explicit parameters `NthRoot` / `ringType`, a Go `int`
  as its two's-complement word (`toU64 k`), and `ring.BRed` the generated word-level `Gen.BRed`.
  Below: (1) the generated definitions equal the hand-written model `Model/Galois.lean` for ALL inputs
  with `NthRoot = 2^m`, `1 ≤ m ≤ 63` (`2·NthRoot ≤ 2^64`: the range of `BRed_spec`; lattigo has
  `m ≤ 19`); (2) hence the headline theorems of `Props/C11.lean` hold of the generated code;
  (3) the fuel of every printed loop is adequate (a larger fuel changes nothing).
  The driver executes the generated definitions (`Model/GaloisGen.lean`) for the ops
  `galel`, `galels`, `modinv`, `dlog`, `ordertwo`.
  If the Go source changes, `Gen/Galois.lean` changes and these proofs are re-checked against it.
-/
import Lattigo.Proofs.GenGalois
import Lattigo.Proofs.GaloisDlog

namespace Lattigo.Props.C11
open Lattigo Lattigo.Model.Galois

private theorem dom (m : Nat) (hm1 : 1 ≤ m) (hm : m ≤ 63) : 1 < 2 ^ m ∧ 2 * 2 ^ m ≤ W := by
  constructor
  · exact Nat.one_lt_two_pow (by omega)
  · have : 2 * 2 ^ m = 2 ^ (m + 1) := by rw [Nat.pow_succ]; omega
    rw [this, W_eq]
    exact Nat.pow_le_pow_right (by norm_num) (by omega)

/-! ## 1. generated = model -/

/-- `GaloisElement(k)` as regenerated from the source is the model's `galEl`, every Go `int` `k`. -/
theorem galEl_gen (m : Nat) (hm1 : 1 ≤ m) (hm : m ≤ 63) (k : Int) :
    Gen.GaloisElement (2 ^ m) (toU64 k) = galEl (2 ^ m) k :=
  Proofs.GenGalois.GaloisElement_eq _ (dom m hm1 hm).1 (dom m hm1 hm).2 k

example : Gen.GaloisElement 32 (toU64 (-3)) = galEl 32 (-3) := galEl_gen 5 (by norm_num) (by norm_num) _

/-- `GaloisElements(ks)` as regenerated is the model's `galEls`. -/
theorem galEls_gen (m : Nat) (hm1 : 1 ≤ m) (hm : m ≤ 63) (ks : List Int) :
    Gen.GaloisElements (2 ^ m) (ks.map toU64) = galEls (2 ^ m) ks :=
  Proofs.GenGalois.galEls_gen_eq _ (dom m hm1 hm).1 (dom m hm1 hm).2 ks

/-- `ModInvGaloisElement(g)` as regenerated is the model's `modInv`, every `uint64` `g`. -/
theorem modInv_gen (m : Nat) (hm1 : 1 ≤ m) (hm : m ≤ 63) (g : Nat) (hg : g < W) :
    Gen.ModInvGaloisElement (2 ^ m) g = modInv (2 ^ m) g :=
  Proofs.GenGalois.ModInvGaloisElement_eq _ (dom m hm1 hm).1 (dom m hm1 hm).2 g hg

example : Gen.ModInvGaloisElement 32 (W - 1) = modInv 32 (W - 1) :=
  modInv_gen 5 (by norm_num) (by norm_num) _ (by decide)

/-- `SolveDiscreteLogGaloisElement(g)` as regenerated, run with fuel 64, is the model's
    `solveDiscreteLog` (`none` = the `for { }` loop does not return), every `g`. -/
theorem solveDiscreteLog_gen (m : Nat) (hm : m ≤ 64) (g : Nat) :
    Gen.SolveDiscreteLogGaloisElement 64 (2 ^ m) g = solveDiscreteLog (2 ^ m) g :=
  Proofs.GenGalois.Solve64_eq _ g (Nat.two_pow_pos m)
    (by rw [W_eq]; exact Nat.pow_le_pow_right (by norm_num) hm)

example : Gen.SolveDiscreteLogGaloisElement 64 32 7 = solveDiscreteLog 32 7 := solveDiscreteLog_gen 5 (by norm_num) _

/-- `GaloisElementOrderTwoOrthogonalSubgroup()` as regenerated (`none` = panic) is the model's `orderTwo`. -/
theorem orderTwo_gen (rt : RingType) (m : Nat) (hm : m ≤ 64) :
    Gen.GaloisElementOrderTwoOrthogonalSubgroup (Model.GaloisGen.rtCode rt) (2 ^ m) = orderTwo rt (2 ^ m) :=
  Proofs.GenGalois.orderTwo_eq rt _ (Nat.two_pow_pos m)
    (by rw [W_eq]; exact Nat.pow_le_pow_right (by norm_num) hm)

/-- `ring.ModExp` as regenerated (word-level `BRed` inside) is the model's `modExp`: `x^e mod p`. -/
theorem modExp_gen (x e p : Nat) (hp : 1 < p) (h2p : 2 * p ≤ W) (hx : x < W) (he : e < W) :
    Gen.ModExp x e p = x ^ e % p := by
  rw [Proofs.GenGalois.ModExp_eq x e p hp h2p hx]
  exact Proofs.Galois.modExp_eq x e p hp (by simpa [W] using he)

example : Gen.ModExp (W - 1) (W - 1) 1152921504606846577 = (W - 1) ^ (W - 1) % 1152921504606846577 :=
  modExp_gen _ _ _ (by decide) (by decide) (by decide) (by decide)

/-- what the driver executes for `galel`, `modinv`, `dlog`, `ordertwo` is the model. -/
theorem driver_ops_gen (m : Nat) (hm1 : 1 ≤ m) (hm : m ≤ 63) :
    (∀ k, Model.GaloisGen.galEl (2 ^ m) k = galEl (2 ^ m) k)
    ∧ (∀ ks, Model.GaloisGen.galEls (2 ^ m) ks = galEls (2 ^ m) ks)
    ∧ (∀ g, g < W → Model.GaloisGen.modInv (2 ^ m) g = modInv (2 ^ m) g)
    ∧ (∀ g, Model.GaloisGen.solveDiscreteLog (2 ^ m) g = (solveDiscreteLog (2 ^ m) g).map i64toInt)
    ∧ (∀ rt, Model.GaloisGen.orderTwo rt (2 ^ m) = orderTwo rt (2 ^ m)) :=
  ⟨galEl_gen m hm1 hm, galEls_gen m hm1 hm, modInv_gen m hm1 hm,
   fun g => Proofs.GenGalois.solveDiscreteLog_gen_eq _ g (Nat.two_pow_pos m)
     (by rw [W_eq]; exact Nat.pow_le_pow_right (by norm_num) (by omega)),
   fun rt => orderTwo_gen rt m (by omega)⟩

/-! ## 2. the headline theorems of C11, about the generated code -/

/-- element(a)·element(b) = element(a+b), for the regenerated `GaloisElement`. -/
theorem galEl_add_gen (m : Nat) (hm1 : 1 ≤ m) (hm : m ≤ 63) (a b : Int) :
    (Gen.GaloisElement (2 ^ m) (toU64 a) * Gen.GaloisElement (2 ^ m) (toU64 b)) % 2 ^ m
      = Gen.GaloisElement (2 ^ m) (toU64 (a + b)) := by
  rw [galEl_gen m hm1 hm, galEl_gen m hm1 hm, galEl_gen m hm1 hm]
  exact Proofs.Galois.galEl_add m hm1 (by omega) a b

example : (Gen.GaloisElement 32 (toU64 (-3)) * Gen.GaloisElement 32 (toU64 9223372036854775807)) % 32
    = Gen.GaloisElement 32 (toU64 (-3 + 9223372036854775807)) :=
  galEl_add_gen 5 (by norm_num) (by norm_num) _ _

/-- the same on words: the sum of the two `int`s formed by Go's wrapping `+`. -/
theorem galEl_add_words_gen (m : Nat) (hm1 : 1 ≤ m) (hm : m ≤ 63) (ka kb : Nat) (ha : ka < W) (hb : kb < W) :
    (Gen.GaloisElement (2 ^ m) ka * Gen.GaloisElement (2 ^ m) kb) % 2 ^ m
      = Gen.GaloisElement (2 ^ m) (u64add ka kb) := by
  have hka : toU64 (ka : Int) = ka := by unfold toU64; unfold W at ha; omega
  have hkb : toU64 (kb : Int) = kb := by unfold toU64; unfold W at hb; omega
  have hs : toU64 ((ka : Int) + (kb : Int)) = u64add ka kb := by
    unfold toU64 u64add; unfold W at *; omega
  have := galEl_add_gen m hm1 hm (ka : Int) (kb : Int)
  rwa [hka, hkb, hs] at this

example : (Gen.GaloisElement 32 (W - 3) * Gen.GaloisElement 32 5) % 32 = Gen.GaloisElement 32 (u64add (W - 3) 5) :=
  galEl_add_words_gen 5 (by norm_num) (by norm_num) _ _ (by decide) (by decide)

/-- `SolveDiscreteLogGaloisElement(GaloisElement(k)) = k mod slots`, for the regenerated functions. -/
theorem dlog_galEl_gen (t : Nat) (ht : t + 3 ≤ 63) (k : Int) :
    Gen.SolveDiscreteLogGaloisElement 64 (2 ^ (t + 3)) (Gen.GaloisElement (2 ^ (t + 3)) (toU64 k))
      = some (k % ((2 ^ (t + 1) : Nat) : Int)).toNat := by
  rw [galEl_gen (t + 3) (by omega) ht, solveDiscreteLog_gen (t + 3) (by omega)]
  exact Proofs.Galois.dlog_galEl t (by omega) k

example : Gen.SolveDiscreteLogGaloisElement 64 32 (Gen.GaloisElement 32 (toU64 (-1))) = some 7 := by
  have := dlog_galEl_gen 2 (by norm_num) (-1); simpa using this

/-- `g · ModInvGaloisElement(g) ≡ 1` for every odd `uint64` `g`, for the regenerated function. -/
theorem modInv_spec_gen (m : Nat) (hm1 : 1 ≤ m) (hm : m ≤ 63) (g : Nat) (hgW : g < W) (hg : g % 2 = 1) :
    (g * Gen.ModInvGaloisElement (2 ^ m) g) % 2 ^ m = 1 := by
  rw [modInv_gen m hm1 hm g hgW]
  exact Proofs.Galois.modInv_spec m hm1 (by omega) g hg

example : (31 * Gen.ModInvGaloisElement 32 31) % 32 = 1 :=
  modInv_spec_gen 5 (by norm_num) (by norm_num) 31 (by decide) (by norm_num)

/-- the inverse of element(k) is element(-k), for the regenerated functions. -/
theorem modInv_galEl_gen (m : Nat) (hm1 : 1 ≤ m) (hm : m ≤ 63) (k : Int) :
    Gen.ModInvGaloisElement (2 ^ m) (Gen.GaloisElement (2 ^ m) (toU64 k))
      = Gen.GaloisElement (2 ^ m) (toU64 (-k)) := by
  rw [galEl_gen m hm1 hm, galEl_gen m hm1 hm, modInv_gen m hm1 hm]
  · exact Proofs.Galois.modInv_galEl m hm1 (by omega) k
  · have h1 := Proofs.Galois.galEl_lt' m hm1 k
    have h2 := (dom m hm1 hm).2
    omega

/-- `k` and `k mod slots` give the same regenerated element, and nothing else coincides. -/
theorem galEl_eq_iff_gen (t : Nat) (ht : t + 3 ≤ 63) (a b : Int) :
    Gen.GaloisElement (2 ^ (t + 3)) (toU64 a) = Gen.GaloisElement (2 ^ (t + 3)) (toU64 b)
      ↔ a ≡ b [ZMOD ((2 ^ (t + 1) : Nat) : Int)] := by
  rw [galEl_gen (t + 3) (by omega) ht, galEl_gen (t + 3) (by omega) ht]
  exact Proofs.Galois.galEl_eq_iff t (by omega) a b

/-! ## 3. the fuel of the printed loops is adequate -/

/-- `SolveDiscreteLogGaloisElement`: the `for { }` loop got an explicit `fuel`; every fuel `≥ 64`
    gives the result of fuel 64, so `none` means the Go loop does not terminate. -/
theorem dlog_fuel_gen (m : Nat) (hm : m ≤ 64) (g fuel : Nat) (hf : 64 ≤ fuel) :
    Gen.SolveDiscreteLogGaloisElement fuel (2 ^ m) g = Gen.SolveDiscreteLogGaloisElement 64 (2 ^ m) g :=
  Proofs.GenGalois.Solve_fuel _ g (Nat.two_pow_pos m)
    (by rw [W_eq]; exact Nat.pow_le_pow_right (by norm_num) hm) fuel hf

/-- for `NthRoot = 4 < 8` the regenerated loop never returns, whatever the fuel (cf. `dlog_diverges_small`). -/
theorem dlog_diverges_small_gen (fuel : Nat) : Gen.SolveDiscreteLogGaloisElement fuel 4 1 = none := by
  rw [Proofs.GenGalois.Solve_eq fuel 4 1 (by norm_num) (by decide)]
  exact Proofs.GenGalois.dlogLoop_zero 4 1 fuel 0

/-- `ModExp` / `ModExpPow2` (rule S, fuel 64): the loop state after any fuel `≥ 64` is the one after 64. -/
theorem modExp_fuel_gen (x e p : Nat) (he : e < W) (fuel : Nat) (hf : 64 ≤ fuel) :
    loopWhile fuel Proofs.GenGalois.expCond (Proofs.GenGalois.modExpBody p) (e, 1, x)
      = loopWhile 64 Proofs.GenGalois.expCond (Proofs.GenGalois.modExpBody p) (e, 1, x)
    ∧ loopWhile fuel Proofs.GenGalois.expCond Proofs.GenGalois.modExpPow2Body (e, 1, x)
      = loopWhile 64 Proofs.GenGalois.expCond Proofs.GenGalois.modExpPow2Body (e, 1, x) :=
  ⟨Proofs.GenGalois.ModExp_fuel x e p he fuel hf, Proofs.GenGalois.ModExpPow2_fuel x e he fuel hf⟩

end Lattigo.Props.C11

section Axioms
open Lattigo.Props.C11
#print axioms galEl_gen
#print axioms galEls_gen
#print axioms modInv_gen
#print axioms solveDiscreteLog_gen
#print axioms orderTwo_gen
#print axioms modExp_gen
#print axioms driver_ops_gen
#print axioms galEl_add_gen
#print axioms galEl_add_words_gen
#print axioms dlog_galEl_gen
#print axioms modInv_spec_gen
#print axioms modInv_galEl_gen
#print axioms galEl_eq_iff_gen
#print axioms dlog_fuel_gen
#print axioms dlog_diverges_small_gen
#print axioms modExp_fuel_gen
end Axioms
