/-
  Property C19, clause "a parameter object survives its JSON and binary encodings as an equal object".

  `MarshalBinary` of every parameter struct is its JSON text (rlwe adds a length prefix), so a codec is determined by
  its list of JSON fields, their `omitempty` tags, and what the decoder does with an absent field.  The model
  (`Lattigo.Model.Params`: `Key`, `JV`, `encode…`/`decode…`) has exactly that: an object is the ordered list of the
  fields the real encoder writes — tied on every run by the `codec_keys` lines, which compare the key lists
  (top level, inside `Xs`/`Xe`/`IterationsParameters`, and which values are `null`) with `json.Marshal` of the real
  structs — and the decoders follow the hand-written `UnmarshalJSON`s / Go's default (absent or `null` ⇒ zero value).

  Proved for all values of all fields, optional / pointer / defaulted ones included:
    `dist_roundtrip`      ring.DistributionParameters: every Gaussian (zero fields too, fix C19-12), Uniform, Ternary
                          with exactly one of P, H set; `dist_roundtrip_fails`: the other Ternaries are refused
    `rlweLit_roundtrip`   rlwe.ParametersLiteral, all 11 fields incl. LogNthRoot (fix C19-8); up to `normalize`
                          (an empty slice comes back nil: `omitempty` cannot express the difference)
    `btp_roundtrip`       bootstrapping.Parameters, exactly: EphemeralSecretWeight = 0, IterationsParameters = nil,
                          CircuitOrder = 0 come back as they were (the seeded "omitempty + default 32" regression
                          would falsify the `codec_keys` tie, not this theorem: the theorem is about the model)
    `btpLit_roundtrip`    bootstrapping.ParametersLiteral, exactly: nil pointer ⇄ null, pointer to 0 ⇄ 0, Xs/Xe through
                          ParametersFromMap (fix C19-9)
    `params_revalidate`   Parameters objects: UnmarshalJSON = literal codec followed by the constructor; the literal of an
                          accepted object is accepted again and gives the same object
    `scaleInt_roundtrip`  the `DefaultScale` text for integer scales < 2^128 and moduli < 2^64 (decimal text exact, tied by the
                          `scale_json` lines; decoder mantissas 128 / 64 bits); `scale_mod_needs_64_bits`: a binary64 decoder
                          rounds the modulus 2^53+1 to 2^53
  Outside the model (round-trip PROBES on the real code only): non-integer scales, the text of a nested `ckks.Parameters`,
  `dft.MatrixLiteral`, `mod1.ParametersLiteral` (opaque `blob`s here), float ⇄ text exactness, ckks/bgv literals.
-/
import Lattigo.Proofs.ParamsCodec

namespace Lattigo.Params
open Lattigo

/-- **dist_roundtrip** — `ParametersFromMap(MarshalJSON(d)) = d` for every Gaussian, Uniform, and a Ternary with
    exactly one of `P`, `H` non-zero. -/
theorem dist_roundtrip (d : Dist) (h : d.codecOK = true) : decodeDist (encodeDist d) = .ok d :=
  dist_roundtrip_proof d h

/-- **dist_roundtrip_fails** — a Ternary with `P = H = 0` or with both set is refused by the decoder (and, since fix
    C19-13, "both set" is refused by `NewParameters`; `P = H = 0` is the zero-weight warning). -/
theorem dist_roundtrip_fails (d : Dist) (h : d.codecOK = false) : ∃ e, decodeDist (encodeDist d) = .error e :=
  dist_roundtrip_fails_proof d h

example : (Dist.gaussian 5 0).codecOK = true ∧ (Dist.ternary 0 8).codecOK = true ∧ (Dist.ternary 1 3).codecOK = false := by
  decide

/-- **rlweLit_roundtrip** — `UnmarshalJSON(Marshal(l)) = normalize l` for `rlwe.ParametersLiteral`. -/
theorem rlweLit_roundtrip (l : RlweLit) (hrt : l.ringType ≤ 1)
    (hxs : ∀ d, l.xs = some d → d.codecOK = true) (hxe : ∀ d, l.xe = some d → d.codecOK = true) :
    decodeRlweLit (encodeRlweLit l) = .ok l.normalize := rlweLit_roundtrip_proof l hrt hxs hxe

/-- a literal without empty slices is a fixed point of `normalize`: the round trip is then exact -/
theorem rlweLit_roundtrip_exact (l : RlweLit) (hrt : l.ringType ≤ 1)
    (hxs : ∀ d, l.xs = some d → d.codecOK = true) (hxe : ∀ d, l.xe = some d → d.codecOK = true)
    (hq : l.q ≠ some []) (hp : l.p ≠ some []) (hlq : l.logQ ≠ some []) (hlp : l.logP ≠ some []) :
    decodeRlweLit (encodeRlweLit l) = .ok l := by
  rw [rlweLit_roundtrip l hrt hxs hxe]
  have n : ∀ {α} (x : Option (List α)), x ≠ some [] → normSlice x = x := by
    intro α x hx
    cases x with
    | none => rfl
    | some v => cases v with
      | nil => exact absurd rfl hx
      | cons _ _ => rfl
  cases l with
  | mk a b q p lq lp xe xs rt sc ntt =>
    simp only [RlweLit.normalize] at *
    rw [n q hq, n p hp, n lq hlq, n lp hlp]

example : decodeRlweLit (encodeRlweLit ⟨6, 9, some [], none, some [40, 30], some [41], some (.gaussian 5 0),
      some (.ternary 0 8), 1, 3, true⟩)
    = .ok ⟨6, 9, none, none, some [40, 30], some [41], some (.gaussian 5 0), some (.ternary 0 8), 1, 3, true⟩ := by
  rfl

/-- **btp_roundtrip** — `UnmarshalJSON(MarshalJSON(p)) = p` for `bootstrapping.Parameters`, exactly. -/
theorem btp_roundtrip (p : BtpParams) : decodeBtp (encodeBtp p) = .ok p := btp_roundtrip_proof p

example : decodeBtp (encodeBtp ⟨1, 2, 3, 4, 5, none, 0, 0⟩) = .ok ⟨1, 2, 3, 4, 5, none, 0, 0⟩ ∧
    decodeBtp (encodeBtp ⟨1, 2, 3, 4, 5, some ⟨some [], 0⟩, 32, 2⟩) = .ok ⟨1, 2, 3, 4, 5, some ⟨some [], 0⟩, 32, 2⟩ := by
  constructor <;> rfl

/-- **btpLit_roundtrip** — `UnmarshalJSON(Marshal(l)) = l` for `bootstrapping.ParametersLiteral`, exactly. -/
theorem btpLit_roundtrip (l : BtpLit)
    (hxs : ∀ d, l.xs = some d → d.codecOK = true) (hxe : ∀ d, l.xe = some d → d.codecOK = true) :
    decodeBtpLit (encodeBtpLit l) = .ok l := btpLit_roundtrip_proof l hxs hxe

example : decodeBtpLit (encodeBtpLit ⟨some 0, some [], some (.ternary 0 192), none, none, some [[56], [56, 56]], none,
      some 0, some 0, some ⟨none, 28⟩, 2, none, some 16, none, some 0, none⟩)
    = .ok ⟨some 0, some [], some (.ternary 0 192), none, none, some [[56], [56, 56]], none,
      some 0, some 0, some ⟨none, 28⟩, 2, none, some 16, none, some 0, none⟩ := by
  rfl

/-! ### rlwe.Scale inside the parameter encodings (integer values and moduli) -/

theorem roundMant_id (p n : Nat) (h : n < 2 ^ p) : roundMant p n = n := by
  unfold roundMant
  have hb : roundMant.len64' n ≤ p := by
    unfold roundMant.len64'
    by_cases h0 : n = 0
    · simp [h0]
    · simp only [h0, if_false]
      have := (Nat.log2_lt h0).mpr h
      omega
  simp [hb]

/-- **scaleInt_roundtrip** — `Scale.UnmarshalJSON(Scale.MarshalJSON(s)) = s` for an integer scale below `2^128` with no
    modulus or a non-zero modulus below `2^64` (every plaintext modulus): the text holds all digits, the decoder's
    mantissas (128 bits for `Value`, 64 for `Mod`) hold all bits. This is the `DefaultScale` field of the encodings of
    rlwe / bgv `Parameters`. -/
theorem scaleInt_roundtrip (s : ScaleInt) (hv : s.value < 2 ^ 128)
    (hm : ∀ m, s.mod = some m → 0 < m ∧ m < 2 ^ 64) :
    decodeScaleInt 128 64 (encodeScaleInt s) = s := by
  cases s with
  | mk v m =>
    simp only at hv hm
    unfold decodeScaleInt encodeScaleInt
    simp only [roundMant_id 128 v hv]
    cases m with
    | none => simp [roundMant_id 64 0 (by decide)]
    | some x =>
      obtain ⟨h0, h1⟩ := hm x rfl
      have hx : roundMant 64 x = x := roundMant_id 64 x h1
      have hne : x ≠ 0 := by omega
      simp [hx, hne]

example : decodeScaleInt 128 64 (encodeScaleInt ⟨2 ^ 120 + 1, some (2 ^ 64 - 59)⟩) = ⟨2 ^ 120 + 1, some (2 ^ 64 - 59)⟩ := by
  decide +kernel

/-- **scale_mod_needs_64_bits** — the mantissa width of the `Mod` decoder matters: a decoder that goes through a binary64
    (53 bits: `strconv.ParseFloat(·, 64)`, the seeded regression) turns the modulus `2^53 + 1` into `2^53` and `2^61 − 1`
    into `2^61`, while `Value` and everything `Equal` looked at is unchanged. -/
theorem scale_mod_needs_64_bits :
    decodeScaleInt 128 53 (encodeScaleInt ⟨1, some (2 ^ 53 + 1)⟩) = ⟨1, some (2 ^ 53)⟩ ∧
    decodeScaleInt 128 53 (encodeScaleInt ⟨1, some (2 ^ 61 - 1)⟩) = ⟨1, some (2 ^ 61)⟩ ∧
    decodeScaleInt 128 53 (encodeScaleInt ⟨1, some 65537⟩) = ⟨1, some 65537⟩ := by
  decide +kernel

/-- **params_revalidate** — decoding a `Parameters` object re-runs the constructor on its literal: for an accepted
    object that literal is accepted again, by every oracle and with any fuel, and yields the same object. -/
theorem params_revalidate (o : Oracle) (fuel fuel' : Nat) (lit : Literal) (a : Accepted)
    (h : newParametersFromLiteral o fuel lit = .ok a) :
    newParametersFromLiteral o fuel' a.literal = .ok a := params_revalidate_proof o fuel fuel' lit a h

example : newParametersFromLiteral exactOracle 1000 { logN := 5, logQ := some [20, 21] }
      = .ok { logN := 5, q := [1048897, 2096449], p := [], ringType := 0 } ∧
    newParametersFromLiteral exactOracle 0 (Accepted.literal { logN := 5, q := [1048897, 2096449], p := [], ringType := 0 })
      = .ok { logN := 5, q := [1048897, 2096449], p := [], ringType := 0 } := by
  constructor <;> decide +kernel

end Lattigo.Params

#print axioms Lattigo.Params.dist_roundtrip
#print axioms Lattigo.Params.dist_roundtrip_fails
#print axioms Lattigo.Params.rlweLit_roundtrip
#print axioms Lattigo.Params.rlweLit_roundtrip_exact
#print axioms Lattigo.Params.btp_roundtrip
#print axioms Lattigo.Params.btpLit_roundtrip
#print axioms Lattigo.Params.scaleInt_roundtrip
#print axioms Lattigo.Params.scale_mod_needs_64_bits
#print axioms Lattigo.Params.params_revalidate
