/-
  C05 — BGV/BFV evaluation is an exact ring homomorphism modulo t.

  Model: `Lattigo.BGV.step` (lean/Lattigo/Model/BGV.lean), executed by the driver on every `C05 step` tie line of
  harness/c05.go.  A register carries level, degree, scale and the raw slots; `msg r = slots·scale⁻¹ ∈ Z_t^n` is what
  `Decoder.Decode(Decrypt(ct))` returns.  The model follows /repo HEAD, i.e. the code AFTER the `fix:` commits C05-1 … C05-10,
  C13-1, C09-2 and c4c05cd (scale-invariant `Rescale` copies op0).

  PROVED FOR ALL INPUTS (every prime `t < 2^64`, every chain none of whose primes is ≡ 0 mod t, every slot count, all
  register contents, every operand kind and receiver placement):
    * scale algebra: `matchScales_spec` (the Euclid loop as coded: `r0·s0 ≡ r1·s1`, both units), `match_contract`
      (MatchScalesAndLevel: EQUAL recorded scales, common level, degrees and decoded messages unchanged),
      `rescale_scale`, `rescale_scale_invariant`, `mul_scale`, `mul_scale_invariant`, `kSI_spec` (`t ∣ 1 + k·Q_ℓ`),
      `meta_*` (level/degree/scale of every result, decision logic stated outright), `inv_mul`/`modExp_fermat`;
    * `step_sound` / `program_sound`: decoding with the RECORDED scale gives the slot-wise Z_t result, for every
      single-result op and, by induction, for straight-line programs; `errors_*`: the documented refusals are `err`;
    * the link to ciphertext limbs, as identities over EVERY commutative ring — instantiated in C05Ring at the RNS ring
      `WFPoly qs n` of C01 —: `phase_add`, `phase_mul`, `phase_mul_noise`, `phase_match`, and for the scale-invariant
      (BFV) tensoring `phase_mul_si` (exact decomposition of `T·ct₀⊗ct₁` into `Q·(encoding of k·m₀m₁ + noise) +
      remainder`) with `round_div_error` / `floor_div_error` (what dividing by `Q` and rounding does to one coefficient).

  TIED ONLY (model = implementation on the explored inputs): that the real evaluator's limbs decrypt and decode to the
  register the model computes (level, degree, scale, decoded slots) — 2 400 `step` lines per quick run incl. `out=inp1`,
  malformed calls, all operand kinds; `match` lines (the pair `(r0, r1)` of `matchScalesBinary`).

  NOT COVERED: (1) no limb-level model of the evaluator: `Add/Sub/Mul/Rescale` on RNS limbs are not shown to refine
  `step` (the phase identities + C01 kernels + the C07 round trip are the ingredients; the composition, which needs the
  noise bound as an invariant, is not assembled); (2) the noise budget is a hypothesis of the property: the harness enforces
  an a-priori bound, nothing is proved about noise growth (`phase_mul_noise`, `phase_mul_si` give the exact noise TERMS,
  not norms); (3) `Err.outside` cases (`DropLevel` below 0, `Relinearize` into degree 0) are outside the model;
  (4) known finding C05-scale-matching-multiplies-by-uncentred-representative is a noise property, invisible to `step`.
-/
import Lattigo.Proofs.BGVProgram
import Lattigo.Proofs.BGVTensor
import Lattigo.Proofs.EncoderTRound
import Lattigo.Props.C05Ring
import Mathlib.Tactic.NormNum.Prime

namespace Lattigo.BGV.C05
open Lattigo.BGV

/-- a 3-prime chain with `t = 257` used in the examples -/
def cEx0 : Cfg := { t := 257, qs := [65537, 12289, 40961], n := 2, si := false, rlk := true }

/-! ## scale_algebra -/

/-- `matchScalesBinary` as coded returns `(r0, r1)` with `r0·s0 ≡ r1·s1 (mod t)`, both invertible. -/
theorem matchScales_spec {t : Nat} [Fact t.Prime] (ht : t < 2 ^ 64) (s0 s1 : Nat)
    (h0 : (s0 : ZMod t) ≠ 0) (h1 : (s1 : ZMod t) ≠ 0) :
    ((matchScales t s0 s1).1 : ZMod t) * s0 = ((matchScales t s0 s1).2 : ZMod t) * s1
    ∧ ((matchScales t s0 s1).1 : ZMod t) ≠ 0 ∧ ((matchScales t s0 s1).2 : ZMod t) ≠ 0 :=
  Lattigo.BGV.matchScales_spec ht s0 s1 h0 h1

example : (matchScales 257 3 5).1 * 3 % 257 = (matchScales 257 3 5).2 * 5 % 257 := by decide

/-- `Rescale`: scale' = scale·q_ℓ⁻¹ (mod t), level' = level − 1, degree of op0 WHATEVER the receiver's degree
    was (fix C05-6), message unchanged. -/
theorem rescale_scale (c : Cfg) [Fact c.t.Prime] (ht : c.t < 2 ^ 64) (hQ : ∀ q ∈ c.qs, (q : ZMod c.t) ≠ 0)
    (o : Out) (a r : Reg) (ha : (a.scale : ZMod c.t) ≠ 0) (hsi : c.si = false)
    (h : step c .rescale o a .none = .ok [r]) :
    (r.scale : ZMod c.t) = (a.scale : ZMod c.t) * ((c.qs.getD a.level 1 : Nat) : ZMod c.t)⁻¹
    ∧ r.level + 1 = a.level ∧ r.degree = a.degree ∧ msg c.t r = msg c.t a := by
  have := rescaleOp_sound c ht hQ o a r ha h
  exact ⟨(this.2.2.1 hsi).1, (this.2.2.1 hsi).2.1, (this.2.2.1 hsi).2.2, this.1⟩

/-- `tensorStandard`: scale' = s0·s1 (mod t); degree 2 (1 with relinearisation) for ct×ct, op0's degree otherwise. -/
theorem mul_scale (c : Cfg) (relin : Bool) (a b r : Reg) (lvl : Nat)
    (h : tensorStd c relin a b lvl = .ok [r]) :
    r.level = lvl ∧ r.scale = a.scale * b.scale % c.t
    ∧ r.degree = (if a.degree = 1 ∧ b.degree = 1 then (if relin then 1 else 2) else a.degree) := by
  unfold tensorStd at h
  split_ifs at h
  all_goals (try simp only [ok1] at h)
  all_goals (cases h)
  all_goals (simp [*])

/-- `tensorScaleInvariant`: scale' = s0·s1·(t − Q_ℓ mod t)⁻¹ (mod t) (`MulScaleInvariant` of evaluator.go:1045). -/
theorem mul_scale_invariant (c : Cfg) (relin : Bool) (a b r : Reg) (lvl : Nat)
    (h : tensorSI c relin a b lvl = .ok [r]) :
    r.level = lvl ∧ r.scale = a.scale * b.scale % c.t * inv c.t (c.t - qModT c lvl) % c.t
    ∧ r.degree = (if relin then 1 else 2) ∧ a.degree = 1 ∧ b.degree = 1 := by
  unfold tensorSI at h
  split_ifs at h
  all_goals (try simp only [ok1] at h)
  all_goals (cases h)
  all_goals simp_all

/-- `Rescale` on a scale-invariant (BFV-style) evaluator: the receiver becomes a copy of op0. -/
theorem rescale_scale_invariant (c : Cfg) [Fact c.t.Prime] (ht : c.t < 2 ^ 64) (hQ : ∀ q ∈ c.qs, (q : ZMod c.t) ≠ 0)
    (o : Out) (a r : Reg) (ha : (a.scale : ZMod c.t) ≠ 0) (hsi : c.si = true)
    (h : step c .rescale o a .none = .ok [r]) : r = a :=
  (rescaleOp_sound c ht hQ o a r ha h).2.2.2 hsi

/-! ## meta_spec: level / degree / scale of the output, decision logic stated outright -/

/-- Add/Sub of two elements with EQUAL scales: level = min of the three levels, degree = max of the
    two operand degrees (`InitOutputBinaryOp`; the receiver is resized to it), scale unchanged. -/
theorem meta_add_same (c : Cfg) (isSub : Bool) (o : Out) (a rb r : Reg) (hs : a.scale = rb.scale)
    (h : addSub c isSub o a (.reg rb) = .ok [r]) :
    r.level = min (min a.level rb.level) (outReg c o a (max a.degree rb.degree) (min a.level rb.level)).level
    ∧ r.degree = max a.degree rb.degree
    ∧ r.scale = a.scale := by
  unfold addSub at h
  simp only [Arg.reg?] at h
  split_ifs at h
  all_goals (try simp only [ok1] at h)
  all_goals (cases h)
  all_goals (exact ⟨rfl, rfl, rfl⟩)

/-- Add/Sub with DIFFERENT scales: both operands are multiplied by the `matchScalesBinary` pair and
    the output scale is `s0·r0`. -/
theorem meta_add_matched (c : Cfg) (isSub : Bool) (o : Out) (a rb r : Reg) (hs : a.scale ≠ rb.scale)
    (h : addSub c isSub o a (.reg rb) = .ok [r]) :
    r.level = min (min a.level rb.level) (outReg c o a (max a.degree rb.degree) (min a.level rb.level)).level
    ∧ r.degree = max a.degree rb.degree
    ∧ r.scale = a.scale * (matchScales c.t a.scale rb.scale).1 % c.t := by
  unfold addSub at h
  simp only [Arg.reg?] at h
  split_ifs at h
  all_goals (try simp only [ok1] at h)
  all_goals (cases h)
  all_goals (exact ⟨rfl, rfl, rfl⟩)

/-- scalar operands (`*big.Int`, `uint64`, `int64`, `int`) of Add/Sub: level = min(op0, opOut), degree and
    scale of op0 (`opOut.Scale = op0.Scale`, fix C05-2). -/
theorem meta_add_scalar (c : Cfg) (isSub : Bool) (o : Out) (a r : Reg) (x : Nat)
    (h : addSub c isSub o a (.u64 x) = .ok [r]) :
    r.level = min a.level (outReg c o a a.degree a.level).level ∧ r.degree = a.degree
    ∧ r.scale = a.scale := by
  unfold addSub at h
  simp only [Arg.reg?, Arg.isScalar, if_true] at h
  split_ifs at h
  all_goals (try simp only [ok1] at h)
  all_goals (cases h)
  all_goals (exact ⟨rfl, rfl, rfl⟩)

theorem meta_relin (c : Cfg) (o : Out) (a r : Reg) (h : step c .relin o a .none = .ok [r]) :
    r.degree = 1 ∧ r.scale = a.scale ∧ a.degree = 2 ∧ c.rlk = true ∧ msg c.t r = msg c.t a := by
  have := relinOp_sound c o a r h
  exact ⟨this.2.2.1, this.2.1, this.2.2.2.1, this.2.2.2.2, this.1⟩

theorem meta_drop (c : Cfg) (o : Out) (a r : Reg) (k : Nat) (h : step c .drop o a (.k k) = .ok [r]) :
    r.level = a.level - k ∧ k ≤ a.level ∧ r.degree = a.degree ∧ r.scale = a.scale ∧ msg c.t r = msg c.t a := by
  have := dropOp_sound c.t a k r h
  exact ⟨this.2.2.1, this.2.2.2.2, this.2.2.2.1, this.2.1, this.1⟩

/-- `MatchScalesAndLevel`: both ciphertexts end at the common level min(ℓ0, ℓ1) with EQUAL scales and
    unchanged messages. -/
theorem meta_match (c : Cfg) [Fact c.t.Prime] (ht : c.t < 2 ^ 64) (o : Out) (a b r1 r2 : Reg)
    (ha : (a.scale : ZMod c.t) ≠ 0) (hb : (b.scale : ZMod c.t) ≠ 0)
    (h : step c .matchSL o a (.reg b) = .ok [r1, r2]) :
    msg c.t r1 = msg c.t a ∧ msg c.t r2 = msg c.t b ∧ (r1.scale : ZMod c.t) = (r2.scale : ZMod c.t)
    ∧ r1.level = min a.level b.level ∧ r2.level = min a.level b.level := by
  have := matchOp_sound c ht a b r1 r2 ha hb h
  exact ⟨this.1, this.2.1, this.2.2.1, this.2.2.2.2.2.1, this.2.2.2.2.2.2⟩

/-- **match_contract** (`MatchScalesAndLevel(ct0, ct1)`): afterwards both ciphertexts carry THE SAME recorded scale
    (equal as `uint64`, not only modulo `t`), sit at the common level `min(ℓ0, ℓ1)`, keep their degrees, and decode —
    each with its new recorded scale — to the messages they held before.  (A variant recording `scale·|r|` with the
    centred factor while multiplying the limbs by `r` breaks the last clause: the tie lines and the probe
    `match_decode` exhibit it.) -/
theorem match_contract (c : Cfg) [Fact c.t.Prime] (ht : c.t < 2 ^ 64) (o : Out) (a b r1 r2 : Reg)
    (ha : (a.scale : ZMod c.t) ≠ 0) (hb : (b.scale : ZMod c.t) ≠ 0)
    (h : step c .matchSL o a (.reg b) = .ok [r1, r2]) :
    r1.scale = r2.scale ∧ r1.level = min a.level b.level ∧ r2.level = min a.level b.level
    ∧ r1.degree = a.degree ∧ r2.degree = b.degree ∧ msg c.t r1 = msg c.t a ∧ msg c.t r2 = msg c.t b := by
  have hs := matchOp_sound c ht a b r1 r2 ha hb h
  have h' : matchOp c a b = .ok [r1, r2] := h
  unfold matchOp at h'
  simp only at h'
  cases h'
  refine ⟨?_, rfl, rfl, rfl, rfl, hs.1, hs.2.1⟩
  have := (ZMod.natCast_eq_natCast_iff' _ _ _).mp hs.2.2.1
  simpa [Nat.mod_mod] using this

example : step cEx0 .matchSL .inp { level := 2, degree := 1, scale := 3, slots := [6, 9] }
      (.reg { level := 1, degree := 2, scale := 5, slots := [10, 20] })
    = .ok [{ level := 1, degree := 1, scale := 15, slots := [30, 45] },
           { level := 1, degree := 2, scale := 15, slots := [30, 60] }] := by decide +kernel

/-- `MulThenAdd` / `MulRelinThenAdd` with an element operand: level, degree and the scale bookkeeping of the
    accumulator (kept if it already equals `s0·s1`, multiplied by the `matchScalesBinary` factor otherwise) -/
theorem meta_mta (c : Cfg) (relin : Bool) (a b R r : Reg) (lvl : Nat) (h : accReg c relin a b R lvl = .ok [r]) :
    r.level = lvl ∧ r.degree = accDegree relin a b R
    ∧ r.scale = (if R.scale = a.scale * b.scale % c.t then R.scale
                 else R.scale * (matchScales c.t (a.scale * b.scale % c.t) R.scale).2 % c.t) := by
  unfold accReg at h
  by_cases h1 : a.degree = 0
  · rw [if_pos h1] at h; cases h
  · rw [if_neg h1] at h
    by_cases h2 : (a.degree = 1 ∧ b.degree = 1) ∧ relin = true ∧ c.rlk = false
    · rw [if_pos h2] at h; cases h
    · rw [if_neg h2] at h
      by_cases heq : R.scale = a.scale * b.scale % c.t
      · rw [if_pos heq] at h; simp only [ok1] at h; cases h; simp [heq]
      · rw [if_neg heq] at h; simp only [ok1] at h; cases h; simp [heq]

/-! ## errors_spec: the documented failure conditions give `err` -/

/-- plaintext-only operands (`InitOutputBinaryOp`: total degree 0) -/
theorem errors_plaintext_only (c : Cfg) (o : Out) (a rb : Reg) (ha : a.degree = 0) (hb : rb.degree = 0) :
    step c .add o a (.reg rb) = .error .err ∧ step c .sub o a (.reg rb) = .error .err
    ∧ mulStd c false o a (.reg rb) 0 = .error .err ∧ mulInv c true o a (.reg rb) 0 = .error .err := by
  refine ⟨?_, ?_, ?_, ?_⟩ <;> simp [step, addSub, mulStd, mulInv, Arg.reg?, binChk, ha, hb]

/-- operand degree too high for a product -/
theorem errors_degree_too_high (c : Cfg) (relin : Bool) (o : Out) (a rb : Reg) (d : Nat)
    (h : a.degree + rb.degree > 2) :
    mulStd c relin o a (.reg rb) d = .error .err ∧ mulInv c relin o a (.reg rb) d = .error .err := by
  have h1 : ¬ a.degree + rb.degree ≤ 2 := by omega
  refine ⟨?_, ?_⟩ <;> simp [mulStd, mulInv, Arg.reg?, binChk, h1]

/-- no level left to rescale; output too small -/
theorem errors_rescale (c : Cfg) (o : Out) (a : Reg) (hsi : c.si = false) :
    (a.level = 0 → step c .rescale o a .none = .error .err)
    ∧ ((outReg c o a a.degree a.level).level + 1 < a.level → step c .rescale o a .none = .error .err) := by
  refine ⟨?_, ?_⟩
  · intro h; simp [step, rescaleOp, hsi, h]
  · intro h
    have h0 : a.level ≠ 0 := by omega
    simp [step, rescaleOp, hsi, h, h0]

/-- missing relinearisation key -/
theorem errors_no_rlk (c : Cfg) (o : Out) (a rb : Reg) (lvl : Nat) (hk : c.rlk = false)
    (ha : a.degree = 1) (hb : rb.degree = 1) :
    tensorStd c true a rb lvl = .error .err ∧ tensorSI c true a rb lvl = .error .err
    ∧ accReg c true a rb rb lvl = .error .err ∧ step c .relin o a .none = .error .err := by
  refine ⟨?_, ?_, ?_, ?_⟩ <;> simp [tensorStd, tensorSI, accReg, step, relinOp, hk, ha, hb]

/-- vector operand longer than the slot count (`Encode` fails) -/
theorem errors_vector_too_long (c : Cfg) (o : Out) (a : Reg) (v : List Nat) (h : v.length > c.n) :
    step c .add o a (.vu v) = .error .err ∧ step c .sub o a (.vu v) = .error .err
    ∧ mulStd c false o a (.vu v) 0 = .error .err := by
  refine ⟨?_, ?_, ?_⟩ <;> simp [step, addSub, mulStd, Arg.reg?, Arg.isScalar, Arg.isVec, Arg.vec?, h]

/-! ## step_sound / program_sound -/

/-- Every operation that returns one register computes the Z_t operation on the decoded messages. -/
theorem step_sound (c : Cfg) [Fact c.t.Prime] (ht : c.t < 2 ^ 64) (hQ : ∀ q ∈ c.qs, (q : ZMod c.t) ≠ 0)
    (op : Op) (o : Out) (a : Reg) (b : Arg) (r : Reg) (H : StepHyp c op o a b)
    (h : step c op o a b = .ok [r]) :
    msg c.t r = sem c.t op (msg c.t a) (argMsg c.t c.n a b) (msg c.t (outReg c o a 0 0))
    ∧ (r.scale : ZMod c.t) ≠ 0 :=
  Lattigo.BGV.step_sound c ht hQ op o a b r H h

/-- Straight-line programs: the final decoded register file equals the Z_t interpreter's. -/
theorem program_sound (c : Cfg) [Fact c.t.Prime] (ht : c.t < 2 ^ 64) (hQ : ∀ q ∈ c.qs, (q : ZMod c.t) ≠ 0)
    (prog : List Instr) (rf rf' : List Reg) (hg : AllGood c.t rf) (h : run c prog rf = .ok rf') :
    rf'.map (msg c.t) = runZ c.t c.n prog (rf.map (msg c.t)) ∧ AllGood c.t rf' :=
  Lattigo.BGV.program_sound c ht hQ prog rf rf' hg h

/-- the scalar literals mean the integers they denote -/
theorem scalar_cast {t : Nat} [NeZero t] (z : Int) (x : Nat) :
    ((Arg.scalar t (.big z) : Nat) : ZMod t) = (z : ZMod t)
    ∧ ((Arg.scalar t (.i64 z) : Nat) : ZMod t) = (z : ZMod t)
    ∧ ((Arg.scalar t (.int z) : Nat) : ZMod t) = (z : ZMod t)
    ∧ ((Arg.scalar t (.u64 x) : Nat) : ZMod t) = (x : ZMod t) := by
  refine ⟨ofInt_cast z, ofInt_cast z, ofInt_cast z, ?_⟩
  simp [Arg.scalar, ZMod.natCast_mod]

/-! ### non-vacuity: a depth-2 program on a 3-prime chain -/

def cEx : Cfg := { t := 257, qs := [65537, 12289, 40961], n := 2, si := false, rlk := true }
def rfEx : List Reg :=
  [ { level := 2, degree := 1, scale := 1, slots := [3, 200] },
    { level := 2, degree := 1, scale := 7, slots := [35, 14] },
    { level := 0, degree := 1, scale := 1, slots := [0, 0] },
    { level := 0, degree := 1, scale := 1, slots := [0, 0] } ]          -- messages [5, 2] at scale 7
def progEx : List Instr :=
  [ { op := .mulRelin, a := 0, b := .idx 1, out := .new 2 },
    { op := .rescale, a := 2, b := .imm .none, out := .inp },
    { op := .add, a := 2, b := .imm (.i64 (-258)), out := .inp },
    { op := .mulRelin, a := 2, b := .idx 0, out := .new 3 },
    { op := .rescale, a := 3, b := .imm .none, out := .inp } ]

instance : Fact (Nat.Prime cEx.t) := ⟨by norm_num [cEx]⟩

example : ((run cEx progEx rfEx).toOption.bind fun rf => (rf.map (val cEx.t))[3]?) = some [42, 130] := by
  decide +kernel

theorem cEx_hQ : ∀ q ∈ cEx.qs, (q : ZMod cEx.t) ≠ 0 := by
  intro q hq
  simp [cEx] at hq
  rcases hq with rfl | rfl | rfl <;> decide

/-- `kSI_spec` on the example chain, FROM THE THEOREM; and the value: `k = 216` at level 1 -/
example : cEx.t ∣ 1 + inv cEx.t (cEx.t - qModT cEx 1) * (cEx.qs.take 2).prod :=
  kSI_spec cEx (by decide) cEx_hQ 1

example : inv cEx.t (cEx.t - qModT cEx 1) = 216 ∧ (1 + 216 * (65537 * 12289)) % 257 = 0 := by decide +kernel

example : AllGood cEx.t rfEx := by
  intro r hr
  simp [rfEx] at hr
  rcases hr with rfl | rfl | rfl | rfl <;> decide

example : ∀ q ∈ cEx.qs, (q : ZMod cEx.t) ≠ 0 := by
  intro q hq
  simp [cEx] at hq
  rcases hq with rfl | rfl | rfl <;> decide

/-! ## behaviours repaired by the `fix:` commits C05-1 … C05-9 and C13-1 (formerly `outside` / counterexamples) -/

/-- `AddNew(ct, 5)` with ct.Scale = 2 (message 3): the result carries op0's scale and decodes to 8
    (before fix C05-2 it carried scale 1 and decoded to 16). -/
theorem scalar_out_scale_fixed :
    step cEx .add .new { level := 2, degree := 1, scale := 2, slots := [6, 0] } (.u64 5)
      = .ok [{ level := 2, degree := 1, scale := 2, slots := [16, 10] }]
    ∧ val cEx.t { level := 2, degree := 1, scale := 2, slots := [16, 10] } = [8, 5]
    ∧ val cEx.t { level := 2, degree := 1, scale := 2, slots := [6, 0] } = [3, 0] := by
  refine ⟨?_, ?_, ?_⟩ <;> decide +kernel

/-- `Sub(ct₁, ct₂)` with equal scales and deg ct₂ > deg ct₁ is an ordinary modelled call (fix C05-3
    negates the copied limbs); its value is given by `step_sound`. -/
theorem sub_higher_degree_modelled (c : Cfg) (o : Out) (a rb : Reg) (hs : a.scale = rb.scale)
    (hd : rb.degree > a.degree) :
    (step c .sub o a (.reg rb)).toOption.map (fun l => l.map fun r => (r.scale, r.slots))
      = some [(a.scale, vsub c.t a.slots rb.slots)] := by
  have h0 : ¬ (a.degree = 0 ∧ rb.degree = 0) := by omega
  have h1 : a.degree + rb.degree ≠ 0 := by omega
  simp only [step, addSub, Arg.reg?, hs, h1, if_true, if_false, ok1, Except.toOption, Option.map_some, List.map]

/-- `MulThenAdd(op0, scalar, opOut)`: level min(ℓ0, ℓout), degree max(d0, dout), accumulator's scale
    (fix C13-1; before it the call was outside the model for ℓ0 < ℓout or dout > d0). -/
theorem mta_scalar_meta (c : Cfg) (a R : Reg) (x : Nat) :
    (step c .mta (.into R) a (.u64 x)).toOption.map (fun l => l.map fun r => (r.level, r.degree, r.scale))
      = some [(min a.level R.level, max a.degree R.degree, R.scale)] := by
  simp [step, accOp, Arg.reg?, Arg.isScalar, ok1, Except.toOption]

/-- a degree-0 `*rlwe.Ciphertext` as op0 of a product is an error (fix C05-9) -/
theorem errors_deg0_op0 (c : Cfg) (relin : Bool) (a b r : Reg) (lvl : Nat) (ha : a.degree = 0) :
    tensorStd c relin a b lvl = .error .err ∧ tensorSI c relin a b lvl = .error .err
    ∧ accReg c relin a b r lvl = .error .err := by
  refine ⟨?_, ?_, ?_⟩ <;> simp [tensorStd, tensorSI, accReg, ha]

/-! ## the inverse of the scale: `ring.ModExp(scale, t − 2, t)` (Fermat) -/

/-- the two transcriptions of `ring.ModExp` (`NTT.modExp`, used by the encoder model of C07, and `BGV.powMod`,
    used by the evaluator model) are the same function -/
theorem modExp_eq_powMod (x e m : Nat) : NTT.modExp x e m = powMod x e m := by
  have h : ∀ (f x e r : Nat), NTT.modExp.go m f x e r = powModAux f x e m r := by
    intro f
    induction f with
    | zero => intro x e r; rfl
    | succ f ih =>
      intro x e r
      unfold NTT.modExp.go powModAux
      by_cases h0 : e = 0
      · simp [h0]
      · simp only [h0, if_false]; exact ih _ _ _
  exact h 64 (x % m) e (1 % m)

/-- hence `val` (what C05's registers decode to) multiplies by exactly the factor `DecodeRingT` uses -/
theorem inv_eq_scaleInv (t s : Nat) : inv t s = EncoderT.scaleInv t s := (modExp_eq_powMod s (t - 2) t).symm

/-- **modExp_fermat**: for every prime `t < 2^64` and every `s` not divisible by `t`,
    `s · ModExp(s, t−2, t) ≡ 1 (mod t)` — no longer a hypothesis anywhere in C05 / C07. -/
theorem modExp_fermat (t s : Nat) (ht : t.Prime) (h64 : t < 2 ^ 64) (hs : ¬ t ∣ s) :
    s * NTT.modExp s (t - 2) t % t = 1 := EncoderT.modExp_fermat t s ht h64 hs

theorem inv_mul (t s : Nat) (ht : t.Prime) (h64 : t < 2 ^ 64) (hs : ¬ t ∣ s) : s * inv t s % t = 1 := by
  rw [inv_eq_scaleInv]; exact EncoderT.scaleInv_spec t s ht h64 hs

/-- decoding a register built from decoded slots returns them: `val (ofDecoded v) = v mod t` -/
theorem val_ofDecoded (t level degree scale : Nat) (v : List Nat) (ht : t.Prime) (h64 : t < 2 ^ 64)
    (hs : ¬ t ∣ scale) : val t (Reg.ofDecoded t level degree scale v) = v.map (· % t) := by
  have h := inv_mul t scale ht h64 hs
  unfold val Reg.ofDecoded vscale
  simp only [List.map_map]
  apply List.map_congr_left
  intro x _
  simp only [Function.comp]
  rw [Nat.mod_mul_mod, mul_assoc, Nat.mul_mod, h, mul_one, Nat.mod_mod]

example : 7 * inv 257 7 % 257 = 1 ∧ val 257 (Reg.ofDecoded 257 2 1 7 [5, 258]) = [5, 1] := by decide +kernel

/-! ## scale-invariant (BFV-style) tensoring -/

/-- **kSI_spec**: the factor `k = inv t (t − Q_ℓ mod t)` that `tensorScaleInvariant` / `MulScaleInvariant` put on the scale
    (`mul_scale_invariant`) is `(−Q_ℓ)⁻¹ mod t`: `t ∣ 1 + k·Q_ℓ`, so `T⁻¹ mod Q_ℓ = (1 + k·Q_ℓ)/t` as an integer. -/
theorem kSI_spec (c : Cfg) [Fact c.t.Prime] (ht : c.t < 2 ^ 64) (hQ : ∀ q ∈ c.qs, (q : ZMod c.t) ≠ 0) (l : Nat) :
    c.t ∣ 1 + inv c.t (c.t - qModT c l) * (c.qs.take (l + 1)).prod :=
  Lattigo.BGV.kSI_spec c ht hQ l

/-- **phase_mul_si** (exactness of the scale-invariant tensoring, before the division): over any commutative ring,
    with `T·T⁻¹ = 1 + k·Q` (`kSI_spec`),
    `T·(T⁻¹x₀+e₀)(T⁻¹x₁+e₁) = Q·(T⁻¹·(k·x₀x₁) + k(x₀e₁+x₁e₀)) + (T⁻¹x₀x₁ + x₀e₁+x₁e₀ + T·e₀e₁)`.
    The quotient by `Q` is the `T⁻¹`-encoding of `k·x₀x₁` (the factor `k` of `tensorSI` on slots and scale) with noise
    `k(x₀e₁+x₁e₀)`; the remainder `R` costs at most `‖R‖/Q + 1/2` per coefficient after rounding (`round_div_error`). -/
theorem phase_mul_si {α : Type} [CommRing α] (T Tinv k Q x0 x1 e0 e1 : α) (h : T * Tinv = 1 + k * Q) :
    T * (Tinv * x0 + e0) * (Tinv * x1 + e1)
      = Q * (Tinv * (k * (x0 * x1)) + k * (x0 * e1 + x1 * e0))
        + (Tinv * (x0 * x1) + (x0 * e1 + x1 * e0) + T * e0 * e1) :=
  Lattigo.BGV.phase_mul_si T Tinv k Q x0 x1 e0 e1 h

/-- rounding `A = Q·B + R` to `⌊(2A+Q)/(2Q)⌋` with `|R| ≤ M`: `2Q·|result − B| ≤ 2M + Q` -/
theorem round_div_error (A B R Q M : ℤ) (hQ : 0 < Q) (h : A = Q * B + R) (hlo : -M ≤ R) (hhi : R ≤ M) :
    -(2 * M + Q) ≤ 2 * Q * ((2 * A + Q) / (2 * Q) - B) ∧ 2 * Q * ((2 * A + Q) / (2 * Q) - B) ≤ 2 * M + Q :=
  Lattigo.BGV.round_div_error A B R Q M hQ h hlo hhi

theorem floor_div_error (A B R Q : ℤ) (hQ : 0 < Q) (h : A = Q * B + R) : A / Q = B + R / Q :=
  Lattigo.BGV.floor_div_error A B R Q hQ h

/-- instance over `ℤ`: `t = 17`, `Q = 97`, `k = 7` (`1 + 7·97 = 680 = 17·40`), messages 3, 5, noises 2, −1 -/
example : (17 : ℤ) * (40 * 3 + 2) * (40 * 5 + -1)
    = 97 * (40 * (7 * (3 * 5)) + 7 * (3 * -1 + 5 * 2)) + (40 * (3 * 5) + (3 * -1 + 5 * 2) + 17 * 2 * -1) :=
  phase_mul_si 17 40 7 97 3 5 2 (-1) (by norm_num)

/-! ## abstract phase identities (link to ciphertexts): phase(ct) = T⁻¹·Δ·m + e over any commutative ring -/

theorem phase_add {α : Type} [CommRing α] (Tinv Δ m1 m2 e1 e2 : α) :
    (Tinv * Δ * m1 + e1) + (Tinv * Δ * m2 + e2) = Tinv * Δ * (m1 + m2) + (e1 + e2) := by ring

/-- `tensorStandard` multiplies by `T`: T·(T⁻¹Δ₁m₁)(T⁻¹Δ₂m₂) = T⁻¹(Δ₁Δ₂)(m₁m₂) -/
theorem phase_mul {α : Type} [CommRing α] (T Tinv Δ1 Δ2 m1 m2 : α) (hT : T * Tinv = 1) :
    T * (Tinv * Δ1 * m1) * (Tinv * Δ2 * m2) = Tinv * (Δ1 * Δ2) * (m1 * m2) := by
  linear_combination (Tinv * Δ1 * Δ2 * m1 * m2) * hT

/-- with noise: the product's noise is Δ₁m₁e₂ + Δ₂m₂e₁ + T·e₁e₂ -/
theorem phase_mul_noise {α : Type} [CommRing α] (T Tinv Δ1 Δ2 m1 m2 e1 e2 : α) (hT : T * Tinv = 1) :
    T * (Tinv * Δ1 * m1 + e1) * (Tinv * Δ2 * m2 + e2)
      = Tinv * (Δ1 * Δ2) * (m1 * m2) + (Δ1 * m1 * e2 + Δ2 * m2 * e1 + T * e1 * e2) := by
  linear_combination (Tinv * Δ1 * Δ2 * m1 * m2 + Δ1 * m1 * e2 + Δ2 * m2 * e1) * hT

/-- scale matching: r0·(T⁻¹Δ₀m) and r1·(T⁻¹Δ₁m') live at the common scale when r0Δ₀ = r1Δ₁ -/
theorem phase_match {α : Type} [CommRing α] (Tinv Δ0 Δ1 r0 r1 m m' : α) (h : r0 * Δ0 = r1 * Δ1) :
    r0 * (Tinv * Δ0 * m) + r1 * (Tinv * Δ1 * m') = Tinv * (r0 * Δ0) * (m + m') := by
  linear_combination (Tinv * m') * (-h)

end Lattigo.BGV.C05

#print axioms Lattigo.BGV.C05.matchScales_spec
#print axioms Lattigo.BGV.C05.rescale_scale
#print axioms Lattigo.BGV.C05.rescale_scale_invariant
#print axioms Lattigo.BGV.C05.mul_scale
#print axioms Lattigo.BGV.C05.mul_scale_invariant
#print axioms Lattigo.BGV.C05.meta_add_same
#print axioms Lattigo.BGV.C05.meta_add_matched
#print axioms Lattigo.BGV.C05.meta_add_scalar
#print axioms Lattigo.BGV.C05.meta_relin
#print axioms Lattigo.BGV.C05.meta_drop
#print axioms Lattigo.BGV.C05.meta_match
#print axioms Lattigo.BGV.C05.match_contract
#print axioms Lattigo.BGV.C05.meta_mta
#print axioms Lattigo.BGV.C05.kSI_spec
#print axioms Lattigo.BGV.C05.phase_mul_si
#print axioms Lattigo.BGV.C05.round_div_error
#print axioms Lattigo.BGV.C05.floor_div_error
#print axioms Lattigo.BGV.C05.errors_plaintext_only
#print axioms Lattigo.BGV.C05.errors_degree_too_high
#print axioms Lattigo.BGV.C05.errors_rescale
#print axioms Lattigo.BGV.C05.errors_no_rlk
#print axioms Lattigo.BGV.C05.errors_vector_too_long
#print axioms Lattigo.BGV.C05.step_sound
#print axioms Lattigo.BGV.C05.program_sound
#print axioms Lattigo.BGV.C05.scalar_cast
#print axioms Lattigo.BGV.C05.scalar_out_scale_fixed
#print axioms Lattigo.BGV.C05.sub_higher_degree_modelled
#print axioms Lattigo.BGV.C05.mta_scalar_meta
#print axioms Lattigo.BGV.C05.errors_deg0_op0
#print axioms Lattigo.BGV.C05.modExp_eq_powMod
#print axioms Lattigo.BGV.C05.inv_eq_scaleInv
#print axioms Lattigo.BGV.C05.modExp_fermat
#print axioms Lattigo.BGV.C05.inv_mul
#print axioms Lattigo.BGV.C05.val_ofDecoded
#print axioms Lattigo.BGV.C05.phase_add
#print axioms Lattigo.BGV.C05.phase_mul
#print axioms Lattigo.BGV.C05.phase_mul_noise
#print axioms Lattigo.BGV.C05.phase_match
