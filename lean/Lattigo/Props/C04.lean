/-
  C04 — evaluation keys re-encrypt faithfully for every key parameterisation.

  The theorems are about the definitions of `Model/Gadget.lean` and `Model/KeySwitch.lean` (the ones
  the driver executes on `RPoly`), for EVERY commutative ring, every shape of the key (any number of
  RNS digits and of base-2^w digits per row), every digit matrix.  What is specific to lattigo's
  number representation enters through two explicit hypotheses, each discharged separately:

    (G) gadget identity  `Σ d_{ij}·P·g_{ij} = P·c`
        — `gadget_identity` proves it for the code's row layout from ROW-WISE digit recombination:
          for base-2^w digits that is `digits_recombine_code` (the digit count `⌈bitlen q/w⌉` always covers
          the modulus: `digitCount_sufficient`); for the single-prime RNS digits (keys with ≤ 1 special
          prime, `BaseTwoDecomposition = 0`, in particular keys without `P`) it is `noP_gadget_identity`.
        History (fixes C04-1/2/3 in /repo): the pre-fix digit count `⌈round(log2 q)/w⌉` did NOT always
          cover the modulus (`digitCountRoundLog2_counterexample`, `…_sufficient_iff`); the pre-fix call
          `DecomposeAndSplit(…, nbPi = levelP+1 = 0, …)` for keys without `P` read every digit from row 0
          (`decomposeRNS_nbPi0_ignores_index`, `nbPi0_gadget_identity_counterexample`); `PiOverflowMargin(-1)`
          panicked (probe `ks_completes`).  The probes that exhibited them stay and now hold.
    (R) rounding  `E − ρ₀ − ρ₁·s = P·ν`  (ν = the rounded noise; the ρ are the centred remainders
          `ModUpPtoQ` of the `P` parts) — arithmetic of C02 (`modDown_err`), kept as a hypothesis here.

  PARTIAL (stated): norm bounds on `ν` (needs the concrete ring `Z[X]/(X^N+1)` and C02's centred-lift
  bound `|ρ| ≤ P/2`); the lazy-reduction schedule (`QiOverflowMargin`) is invisible at the canonical
  level and is covered by the bit-exact tie, not by a theorem; the ring-degree switch is modelled (`embedR`/`projectR`, tied bit-exactly) but the facts
  that these two maps are a ring hom / a linear retraction are hypotheses of `degree_*_phase`;
  ring swap (standard ↔ conjugate-invariant) and ring packing are not modelled.
-/
import Lattigo.Proofs.Gadget
import Lattigo.Proofs.GadgetDigits
import Lattigo.Proofs.GadgetIdentity
import Lattigo.Proofs.KeySwitch
import Lattigo.Proofs.KeySwitchHoisted
import Lattigo.Proofs.KeySwitchDigits
import Lattigo.Props.C04Ring
import Lattigo.Props.C04Noise
import Lattigo.Props.C04Gen
import Lattigo.Props.C04Stack
import Mathlib.Data.ZMod.Basic
import Mathlib.Tactic.NormNum

set_option linter.unusedSectionVars false

namespace Lattigo.KS.C04

open Lattigo Lattigo.KS

/-! ## 1. Key material -/

/-- **gadget_row**: `phase(evk[i][j], s_out) = P·g_{ij}·s_in + e_{ij}` for the key `genEvaluationKey`
    produces — stated on the generated key itself, entry by entry. -/
theorem gadget_row {α : Type} [CommRing α] (pg : Nat → Nat → α) (sIn sOut : α)
    (samples : List (List (α × α))) :
    (genEvaluationKey pg sIn sOut samples).map (fun r => r.map fun k => phase k sOut)
      = List.zipWith (fun pr er => List.zipWith (fun p e => p * sIn + e) pr er)
          (pgMat pg samples) (eMat samples) := by
  suffices h : ∀ (i : Nat) (m : List (List (α × α))),
      (genFrom pg sIn sOut i m).map (fun r => r.map fun k => phase k sOut)
        = List.zipWith (fun pr er => List.zipWith (fun p e => p * sIn + e) pr er)
            (idxMatFrom pg i m) (eMat m) from h 0 samples
  have hrow : ∀ (i j : Nat) (row : List (α × α)),
      (genRowFrom pg sIn sOut i j row).map (fun k => phase k sOut)
        = List.zipWith (fun p e => p * sIn + e) (idxRowFrom pg i j row) (row.map Prod.snd) := by
    intro i j row
    induction row generalizing j with
    | nil => rfl
    | cons ae rest ih =>
      obtain ⟨a, e⟩ := ae
      simp only [genRowFrom, idxRowFrom, List.map_cons, List.zipWith_cons_cons, KS.gadget_row, ih]
  intro i m
  induction m generalizing i with
  | nil => rfl
  | cons row rest ih =>
    simp only [genFrom, idxMatFrom, eMat, List.map_cons, List.zipWith_cons_cons, hrow] at ih ⊢
    rw [ih]

example : phase (evkRow (3 : ℤ) 1 2 (7 * 5)) 2 = 7 * 5 + 1 := KS.gadget_row 3 1 2 (7 * 5)

/-- **expand_eq**: compressed-then-expanded = generated uncompressed from the same `(a_{ij}, e_{ij})`
    (the `a` stream regenerated from the seed is `aMat samples`: same PRNG, same call order). -/
theorem expand_eq {α : Type} [CommRing α] (pg : Nat → Nat → α) (sIn sOut : α)
    (samples : List (List (α × α))) :
    expand (compress (genEvaluationKey pg sIn sOut samples)) (aMat samples)
      = genEvaluationKey pg sIn sOut samples := KS.expand_eq pg sIn sOut samples

example : expand (compress (genEvaluationKey (fun _ _ => (1 : ℤ)) 2 3 [[(4, 5), (6, 7)], [(8, 9)]]))
    (aMat [[((4 : ℤ), (5 : ℤ)), (6, 7)], [(8, 9)]])
    = genEvaluationKey (fun _ _ => (1 : ℤ)) 2 3 [[(4, 5), (6, 7)], [(8, 9)]] := expand_eq _ _ _ _

/-! ## 2. Key switching -/

/-- **keyswitch_phase (mod QP)**: `Σ d_{ij}·phase(evk[i][j]) = P·c·s_in + Σ d_{ij}·e_{ij}` under (G) -/
theorem keyswitch_phase_QP {α : Type} [CommRing α] (pg : Nat → Nat → α) (P c sIn sOut : α)
    (samples : List (List (α × α))) (d : List (List α))
    (hG : wsumMat 0 d (pgMat pg samples) = P * c) :
    phase (dotMat 0 d (genEvaluationKey pg sIn sOut samples)) sOut
      = P * c * sIn + wsumMat 0 d (eMat samples) :=
  KS.keyswitch_phase_QP pg P c sIn sOut samples d hG

/-- non-vacuity: `P = 3`, base-2 gadget `3·2^j`, `c = 5 = 1 + 2·2`, digits `[1, 2]` -/
example : wsumMat (0 : ℤ) [[1, 2]] (pgMat (fun _ j => 3 * 2 ^ j) [[((10 : ℤ), (1 : ℤ)), (20, -1)]])
    = 3 * 5 := by
  norm_num [wsumMat, wsumRow, pgMat, idxMatFrom, idxRowFrom]

/-- **keyswitch_phase**: after `ModDown` (`A = R_{QP} →π B = R_Q`), under (G) and (R):
    `phase(KS(c), s_out) = c·s_in + ν`. -/
theorem keyswitch_phase {A B : Type} [CommRing A] [CommRing B] (π : A →+* B)
    (pg : Nat → Nat → A) (P c sIn sOut : A) (samples : List (List (A × A))) (d : List (List A))
    (pinv rho0 rho1 ν : B)
    (hG : wsumMat 0 d (pgMat pg samples) = P * c) (hP : π P * pinv = 1)
    (hR : π (wsumMat 0 d (eMat samples)) - (rho0 + rho1 * π sOut) = π P * ν) :
    let x := dotMat 0 d (genEvaluationKey pg sIn sOut samples)
    phase (modDown pinv (π x.1) rho0, modDown pinv (π x.2) rho1) (π sOut) = π c * π sIn + ν :=
  KS.keyswitch_phase π pg P c sIn sOut samples d pinv rho0 rho1 ν hG hP hR

/-- non-vacuity of (G), `π P · P⁻¹ = 1` and (R) together: `A = ℤ`, `B = ZMod 7`, `P = 3`, `P⁻¹ = 5`;
    `E = 1·1 + 2·(−1) = −1`, `ρ₀ = 2`, `ρ₁ = 0`: `E − ρ₀ = −3 = 3·(−1)`. -/
example : (Int.castRingHom (ZMod 7)) 3 * 5 = 1
    ∧ (Int.castRingHom (ZMod 7)) (wsumMat (0 : ℤ) [[1, 2]] (eMat [[((10 : ℤ), (1 : ℤ)), (20, -1)]]))
        - ((2 : ZMod 7) + 0 * (Int.castRingHom (ZMod 7)) 4) = (Int.castRingHom (ZMod 7)) 3 * (-1) := by
  constructor
  · decide
  · simp only [wsumMat, wsumRow, eMat, List.map]
    decide

/-- **keyswitch_decrypts** (`ApplyEvaluationKey`): the output decrypts under `s_out` to the input's phase
    under `s_in` plus the rounded noise. -/
theorem keyswitch_decrypts {A B : Type} [CommRing A] [CommRing B] (π : A →+* B)
    (pg : Nat → Nat → A) (P c1 sIn sOut : A) (samples : List (List (A × A))) (d : List (List A))
    (pinv rho0 rho1 ν c0 : B)
    (hG : wsumMat 0 d (pgMat pg samples) = P * c1) (hP : π P * pinv = 1)
    (hR : π (wsumMat 0 d (eMat samples)) - (rho0 + rho1 * π sOut) = π P * ν) :
    let x := dotMat 0 d (genEvaluationKey pg sIn sOut samples)
    let ks := (modDown pinv (π x.1) rho0, modDown pinv (π x.2) rho1)
    phase (applyEvaluationKey ks (c0, π c1)) (π sOut) = phase (c0, π c1) (π sIn) + ν := by
  intro x ks
  exact applyEvaluationKey_phase ks (c0, π c1) (π sIn) (π sOut) ν
    (KS.keyswitch_phase π pg P c1 sIn sOut samples d pinv rho0 rho1 ν hG hP hR)

/-- **relin_phase**: with `genRelinearizationKey` (input key `s²`, output key `s`) the relinearised
    ciphertext decrypts under `s` to `c0 + c1·s + c2·s² + ν`. -/
theorem relin_phase {A B : Type} [CommRing A] [CommRing B] (π : A →+* B)
    (pg : Nat → Nat → A) (P c2 s : A) (samples : List (List (A × A))) (d : List (List A))
    (pinv rho0 rho1 ν c0 c1 : B)
    (hG : wsumMat 0 d (pgMat pg samples) = P * c2) (hP : π P * pinv = 1)
    (hR : π (wsumMat 0 d (eMat samples)) - (rho0 + rho1 * π s) = π P * ν) :
    let x := dotMat 0 d (genRelinearizationKey pg s samples)
    let ks := (modDown pinv (π x.1) rho0, modDown pinv (π x.2) rho1)
    phase (relinearize ks (c0, c1, π c2)) (π s) = c0 + c1 * π s + π c2 * (π s * π s) + ν := by
  intro x ks
  have h := KS.keyswitch_phase π pg P c2 (s * s) s samples d pinv rho0 rho1 ν hG hP hR
  simp only [map_mul] at h
  exact KS.relin_phase ks (c0, c1, π c2) (π s) ν h

/-- **automorphism_phase**: with `genGaloisKey` (the key encrypts `s` under `σ⁻¹(s)`),
    `phase(Aut_g ct, s) = σ_g(phase(ct, s)) + σ_g(ν)` for every ring endomorphism `σ_g` of `R_Q` that
    is compatible with the one used on `R_{QP}` at key generation (`σB (π (σinvA s)) = π s`). -/
theorem automorphism_phase {A B : Type} [CommRing A] [CommRing B] (π : A →+* B) (σB : B →+* B)
    (σinvA : A → A) (pg : Nat → Nat → A) (P c1 s : A) (samples : List (List (A × A)))
    (d : List (List A)) (pinv rho0 rho1 ν c0 : B)
    (hσ : σB (π (σinvA s)) = π s)
    (hG : wsumMat 0 d (pgMat pg samples) = P * c1) (hP : π P * pinv = 1)
    (hR : π (wsumMat 0 d (eMat samples)) - (rho0 + rho1 * π (σinvA s)) = π P * ν) :
    let x := dotMat 0 d (genGaloisKey σinvA pg s samples)
    let ks := (modDown pinv (π x.1) rho0, modDown pinv (π x.2) rho1)
    phase (automorphism σB ks (c0, π c1)) (π s) = σB (phase (c0, π c1) (π s)) + σB ν := by
  intro x ks
  have h := KS.keyswitch_phase π pg P c1 s (σinvA s) samples d pinv rho0 rho1 ν hG hP hR
  exact KS.automorphism_phase σB (fun _ => π (σinvA s)) ks (c0, π c1) (π s) ν hσ h

/-- non-vacuity of `hσ` with a non-trivial automorphism: `B = ℤ × ℤ`, `σ` = swap -/
example : ((RingEquiv.prodComm : ℤ × ℤ ≃+* ℤ × ℤ) : ℤ × ℤ →+* ℤ × ℤ)
    ((RingHom.id (ℤ × ℤ)) ((fun p : ℤ × ℤ => (p.2, p.1)) (1, 2))) = (RingHom.id (ℤ × ℤ)) (1, 2) := rfl

/-- `AutomorphismHoistedLazy` (no division by `P`): `phase = σ(P·phase(ct, s) + E)` in `R_{QP}` -/
theorem automorphismHoistedLazy_phase {α : Type} [CommRing α] (σ : α →+* α) (σinv : α → α)
    (pg : Nat → Nat → α) (P c0 c1 s : α) (samples : List (List (α × α))) (d : List (List α))
    (hσ : σ (σinv s) = s) (hG : wsumMat 0 d (pgMat pg samples) = P * c1) :
    phase (automorphismHoistedLazy σ (dotMat 0 d (genGaloisKey σinv pg s samples)) (P * c0)) s
      = σ (P * phase (c0, c1) s + wsumMat 0 d (eMat samples)) :=
  KS.automorphismHoistedLazy_phase σ σinv _ P c0 c1 s _ hσ
    (KS.keyswitch_phase_QP pg P c1 s (σinv s) samples d hG)

/-- **hoisted_eq_plain** (generic): with one entry per key row the hoisted product IS the plain inner
    product with the same digits. -/
theorem hoisted_eq_plain {α : Type} [CommRing α] (decomp : List α) (evk : List (List (α × α)))
    (h : ∀ r ∈ evk, r.length = 1) :
    gadgetProductHoistedLazy 0 decomp evk = dotMat 0 (decomp.map fun d => [d]) evk :=
  gadgetProductHoistedLazy_eq 0 decomp evk h

example : ∀ r ∈ [[((1 : ℤ), (2 : ℤ))], [(3, 4)]], r.length = 1 := by decide

/-- **degree switch, small → large** (`ApplyEvaluationKey` with `N_in < N_out`): `ι : Y ↦ X^{N/n}` a ring
    homomorphism, key from `ι(s_small)` to `s_large`. -/
theorem degree_up_phase {A β : Type} [CommRing A] [CommRing β] (ι : β →+* A) (ksOf : A → A × A)
    (ct : β × β) (sS : β) (sL ν : A)
    (hks : phase (ksOf (ι ct.2)) sL = ι ct.2 * ι sS + ν) :
    phase (applyEvaluationKeyUp ι ksOf ct) sL = ι (phase ct sS) + ν :=
  applyEvaluationKeyUp_phase ι ksOf ct sS sL ν hks

/-- **degree switch, large → small**: `ρ` additive and `R_small`-linear. -/
theorem degree_down_phase {A β : Type} [CommRing A] [CommRing β] (ι : β → A) (ρ : A →+ β)
    (hρ : ∀ x s, ρ (x * ι s) = ρ x * s) (ks ct : A × A) (sL : A) (sS : β) (ν : A)
    (hks : phase ks (ι sS) = ct.2 * sL + ν) :
    phase (applyEvaluationKeyDown ρ ks ct) sS = ρ (phase ct sL) + ρ ν :=
  applyEvaluationKeyDown_phase ι ρ hρ ks ct sL sS ν hks

/-- non-vacuity of `hρ`: `A = ℤ × ℤ ⊇ β = ℤ` (diagonal), `ρ` = first projection -/
example : ∀ (x : ℤ × ℤ) (s : ℤ),
    (AddMonoidHom.fst ℤ ℤ) (x * (fun t : ℤ => ((t, t) : ℤ × ℤ)) s) = (AddMonoidHom.fst ℤ ℤ) x * s := by
  intro x s; rfl

/-! ## 3. The gadget identity and the digits -/

/-- **gadget_identity** for the code's RNS row layout (see `Proofs/GadgetIdentity.lean`) -/
theorem gadget_identity {ι : Type} {R : ι → Type} [∀ k, CommRing (R k)] {β : Type}
    (grp : ι → Nat) (P : ∀ k, R k) (b : Nat → ∀ k, R k) (c : ∀ k, R k)
    (samples : List (List β)) (d : List (List (∀ k, R k)))
    (hrec : ∀ k, wsumRow 0 ((d.getD (grp k) []).map fun x => x k)
              (idxRowFrom (fun _ j => b j k) 0 0 (samples.getD (grp k) [])) = c k) :
    wsumMat 0 d (pgMat (fun i j => fun k => if grp k = i then P k * b j k else 0) samples) = P * c :=
  KS.gadget_identity grp P b c samples d hrec

/-- non-vacuity: two rows (`ι = Bool`, both `ℤ`), row `false` in group 0, row `true` in group 1,
    `c = (5, 6)`, base 2 digits `5 = 1 + 0·2 + 1·4`, `6 = 0 + 1·2 + 1·4` -/
example : ∀ k : Bool,
    wsumRow 0 ((([[fun _ => 1, fun _ => 0, fun _ => 1], [fun _ => 0, fun _ => 1, fun _ => 1]] :
        List (List (Bool → ℤ))).getD ((fun k : Bool => if k then 1 else 0) k) []).map fun x => x k)
      (idxRowFrom (fun _ j => (2 : ℤ) ^ j) 0 0
        (([[(), (), ()], [(), (), ()]] : List (List Unit)).getD
          ((fun k : Bool => if k then 1 else 0) k) []))
      = (fun k : Bool => if k then (6 : ℤ) else 5) k := by
  intro k; cases k <;> norm_num [wsumRow, idxRowFrom]

/-- **digits_recombine**: `q ≤ 2^{w·n}` ⇒ the `n` shift/mask digits of every `x < q` reassemble `x` -/
theorem digits_recombine (w n q x : Nat) (hq : q ≤ 2 ^ (w * n)) (hx : x < q) :
    recombine w n x = x := digits_recombine_of_modulus w n q x hq hx

example : (97 : Nat) ≤ 2 ^ (3 * 3) ∧ (77 : Nat) < 97 := by decide

/-- **digitCount_sufficient** (full strength): the code's `BaseTwoDecompositionVectorSize` entry
    `n = ⌈bitlen(q)/w⌉` always covers the modulus: `q ≤ 2^{w·n}`. -/
theorem digitCount_sufficient (q w : Nat) (hw : 0 < w) : q ≤ 2 ^ (w * baseTwoDigits q w) :=
  KS.digitCount_sufficient q w hw

example : baseTwoDigits 1207959937 10 = 4 := baseTwoDigits_witness

/-- **digits_recombine_code**: hence every residue `x < q` is reassembled exactly from the digits the
    code extracts (`MaskVec`) with the count the code allots. -/
theorem digits_recombine_code (q w x : Nat) (hw : 0 < w) (hx : x < q) :
    recombine w (baseTwoDigits q w) x = x := KS.digits_recombine_code q w x hw hx

example : (0 : Nat) < 10 ∧ (2 : Nat) ^ 30 < 1207959937 := by norm_num

/-- regression — the PRE-FIX count `⌈round(log2 q)/w⌉` did not always cover the modulus -/
theorem digitCountRoundLog2_counterexample :
    ¬ (∀ q w : Nat, 0 < w → q ≤ 2 ^ (w * baseTwoDigitsRoundLog2 q w)) :=
  KS.digitCountRoundLog2_counterexample

/-- regression — the lost top bit at the witness prime of the harness -/
theorem digitsRoundLog2_recombine_counterexample :
    ∃ q w x : Nat, 0 < w ∧ x < q ∧ recombine w (baseTwoDigitsRoundLog2 q w) x ≠ x :=
  KS.digitsRoundLog2_recombine_counterexample

/-- regression — exact domain of validity of the pre-fix count -/
theorem digitCountRoundLog2_sufficient_iff (q k w : Nat) (hw : 0 < w) (h1 : 2 ^ k < q)
    (h2 : q < 2 ^ (k + 1)) :
    q ≤ 2 ^ (w * baseTwoDigitsRoundLog2 q w) ↔ (2 ^ (2 * k + 1) ≤ q * q ∨ ¬ w ∣ k) :=
  KS.digitCountRoundLog2_sufficient_iff q k w hw h1 h2

example : (2 : Nat) ^ 30 < 1207959937 ∧ 1207959937 < 2 ^ 31 := by norm_num

/-! ## 4. Keys without `P`, `BaseTwoDecomposition = 0`; the executable model on the former witnesses -/

/-- **noP_gadget_identity**: with `nbPi = 1` — what `gadgetProductSinglePAndBitDecompLazy` passes to
    `DecomposeAndSplit`, with or without `P` — the RNS digit `i` of a canonical `c` coincides with `c` on
    row `i`: the row-wise recombination hypothesis of `gadget_identity` (`grp k = k`, `b_0 = 1`). -/
theorem noP_gadget_identity (qsP : List Nat) (i : Nat) (c : RPoly) (hi : i < c.qs.length)
    (hcanon : ∀ x ∈ c.c.getD i [], x < c.qs.getD i 1) :
    (decomposeRNS qsP 1 i c).c.getD i [] = c.c.getD i [] :=
  KS.decomposeRNS_one_row qsP i c hi hcanon

def cNoP : RPoly := ⟨[5, 7], [[1], [3]]⟩

example : (1 : Nat) < cNoP.qs.length ∧ ∀ x ∈ cNoP.c.getD 1 [], x < cNoP.qs.getD 1 1 := by decide

/-- …and (G) on the executable model, former witness of defect 2: `Q = 5·7`, no `P`, `N = 1`,
    `c = (1 mod 5, 3 mod 7)`, the digits `decompose` now produces. -/
theorem noP_gadget_identity_instance :
    wsumMat (RPoly.zero [5, 7] 1) (decompose [] 0 [1, 1] cNoP)
      (pgMat (pgElt [5, 7] [] 1 0) [[()], [()]]) = cNoP := by decide

/-- regression — `DecomposeAndSplit` itself (unchanged) must not be called with `nbPi = 0`: the digit then
    does not depend on `i` (every RNS digit is read from row 0); the pre-fix caller did exactly that
    for keys without `P`. -/
theorem decomposeRNS_nbPi0_ignores_index (qsP : List Nat) (i : Nat) (c : RPoly) :
    decomposeRNS qsP 0 i c = decomposeRNS qsP 0 0 c := by
  simp [decomposeRNS]

/-- regression — and (G) then failed on the same instance -/
theorem nbPi0_gadget_identity_counterexample :
    wsumMat (RPoly.zero [5, 7] 1) [[decomposeRNS [] 0 0 cNoP], [decomposeRNS [] 0 1 cNoP]]
      (pgMat (pgElt [5, 7] [] 1 0) [[()], [()]]) ≠ cNoP := by decide

/-- (G) on the executable model, former witness of defect 1: `q = 1207959937`, no `P`, `w = 10`,
    `c = 2^30 < q`; the code now allots 4 digits and `Σ_j d_j·2^{10j} = c`. -/
def cTop : RPoly := ⟨[1207959937], [[2 ^ 30]]⟩

theorem bitDecomp_gadget_identity_instance :
    wsumMat (RPoly.zero [1207959937] 1)
      (decompose [] 10 (gadgetShape [1207959937] 0 0 10) cTop)
      (pgMat (pgElt [1207959937] [] 1 10) [[(), (), (), ()]]) = cTop := by
  have hs : gadgetShape [1207959937] 0 0 10 = [4] := by
    simp [gadgetShape, baseRNSDecompositionVectorSize, baseTwoDecompositionVectorSize,
      baseTwoDigits_witness]
  rw [hs]
  decide

/-- regression — with the 3 digits of the pre-fix count the same instance failed -/
theorem bitDecompRoundLog2_gadget_identity_counterexample :
    wsumMat (RPoly.zero [1207959937] 1) (decompose [] 10 [3] cTop)
      (pgMat (pgElt [1207959937] [] 1 10) [[(), (), ()]]) ≠ cTop := by decide

/-- **hoisted_eq_plain on the executable model**: `GadgetProduct` and `GadgetProductHoisted` fed with
    `DecomposeNTT(·, ·, nbPi = levelP+1, c)` agree for every key with one entry per row, at least one
    special prime, and a ciphertext level not above the key's number of rows. -/
theorem hoisted_eq_plain_R (qsP : List Nat) (nQkey : Nat) (evk : List (List (RPoly × RPoly)))
    (c : RPoly) (hP : 1 ≤ qsP.length) (hrow : ∀ r ∈ evk, r.length = 1)
    (hc : 1 ≤ c.qs.length) (hlen : c.qs.length ≤ evk.length) :
    gadgetProductR qsP 0 nQkey evk c = gadgetProductHoistedR qsP qsP.length nQkey evk c :=
  KS.hoisted_eq_plain_modDown_R qsP nQkey evk c hP hrow hc hlen

end Lattigo.KS.C04

open Lattigo.KS.C04 in
#print axioms Lattigo.KS.C04.gadget_row
#print axioms Lattigo.KS.C04.expand_eq
#print axioms Lattigo.KS.C04.keyswitch_phase_QP
#print axioms Lattigo.KS.C04.keyswitch_phase
#print axioms Lattigo.KS.C04.keyswitch_decrypts
#print axioms Lattigo.KS.C04.relin_phase
#print axioms Lattigo.KS.C04.automorphism_phase
#print axioms Lattigo.KS.C04.automorphismHoistedLazy_phase
#print axioms Lattigo.KS.C04.hoisted_eq_plain
#print axioms Lattigo.KS.C04.gadget_identity
#print axioms Lattigo.KS.C04.digits_recombine
#print axioms Lattigo.KS.C04.digitCount_sufficient
#print axioms Lattigo.KS.C04.digits_recombine_code
#print axioms Lattigo.KS.C04.digitCountRoundLog2_counterexample
#print axioms Lattigo.KS.C04.digitsRoundLog2_recombine_counterexample
#print axioms Lattigo.KS.C04.digitCountRoundLog2_sufficient_iff
#print axioms Lattigo.KS.C04.noP_gadget_identity
#print axioms Lattigo.KS.C04.noP_gadget_identity_instance
#print axioms Lattigo.KS.C04.decomposeRNS_nbPi0_ignores_index
#print axioms Lattigo.KS.C04.nbPi0_gadget_identity_counterexample
#print axioms Lattigo.KS.C04.bitDecomp_gadget_identity_instance
#print axioms Lattigo.KS.C04.bitDecompRoundLog2_gadget_identity_counterexample
#print axioms Lattigo.KS.C04.hoisted_eq_plain_R
#print axioms Lattigo.KS.C04.degree_up_phase
#print axioms Lattigo.KS.C04.degree_down_phase
