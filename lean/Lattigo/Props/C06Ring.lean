/-
  C06 on the ring the ciphertexts live in.

  `Props/C06.lean` (§ phase-level semantics) / `Proofs/CKKSPhase.lean` prove `phase_Add`, `phase_Sub`,
  `phase_AddAligned`, `phase_Mul`, `phase_MulRelin`, `phase_MulScalar`, `phase_AddScalar`, `phase_MulThenAdd`,
  `phase_MulThenAddScalar`, `phase_Rescale` for degree-≤2 ciphertexts `Ct α` over EVERY commutative ring `α`
  (`phase`, `Ct.lin`, `Ct.tensor`, … are defined with the ring operations of `α`).  Here they are instantiated
  at `α := WFPoly qs n` (`Proofs/RPolyRing.lean`) and transported to triples of plain `RPoly` values:

    `phaseR s c = c0 + c1·s + c2·(s·s)`, `linR`, `tensorR`, `smulR`, `addConstR`, `relinR` : the SAME component
    formulas written with the model's `+ *` on `RPoly` (`1` is `rpOne qs n`, `0` is `RPoly.zero qs n`);
    hypotheses = well-formedness of the inputs (`WFq qs n s`, `WFct qs n a` : the three components) + the
                 hypotheses of the generic theorems stated on the `RPoly` values;
    conclusion = the same identity between `RPoly` values.

  Vacuity check: no generic theorem quantifies over abstract maps.  The hypotheses (`c2 = 0` for the operands
  of a product; `q·c0' = c0 − r0`, `q·c1' = c1 − r1` for `Rescale`) are met by the concrete instance of §3.

  NOT applicable: there is no `…_calls` theorem — `Driver/C06.lean` runs `CKKS.step` on metadata and integer
  effects (`Meta`, `Dy`, `Int`), never on `RPoly`.  `meta_spec_*`, `add_alignment*`, `rescale_*`,
  `rnsConst_error`, `*_counterexample`, `rescale_remainder` are statements about that data: nothing to transport.
  (`phase_Rescale` is the ring-level shape of `Rescale`; that `DivRoundByLastModulus` produces `c'`, `r` of this
  form is C02's arithmetic, as in the generic statement.)
-/
import Lattigo.Proofs.RPolyTransport
import Lattigo.Proofs.CKKSPhase

set_option linter.unusedSectionVars false
set_option linter.unusedSimpArgs false

namespace Lattigo.Props.C06Ring
open Lattigo Lattigo.CKKS Lattigo.RPolyRing Lattigo.Transport

/-! ## 1. The component formulas on a carrier that only has `+ *` -/

section defs
variable {α : Type} [Add α] [Mul α]

/-- `⟨ct, (1, s, s²)⟩ = c0 + c1·s + c2·(s·s)` -/
def phaseR (s : α) (c : Ct α) : α := c.c0 + c.c1 * s + c.c2 * (s * s)
/-- `evaluateInPlace`: `k0·a + k1·b` component-wise -/
def linR (k0 k1 : α) (a b : Ct α) : Ct α := ⟨k0 * a.c0 + k1 * b.c0, k0 * a.c1 + k1 * b.c1, k0 * a.c2 + k1 * b.c2⟩
/-- the tensor product of two degree-1 ciphertexts -/
def tensorR (a b : Ct α) : Ct α := ⟨a.c0 * b.c0, a.c0 * b.c1 + a.c1 * b.c0, a.c1 * b.c1⟩
def smulR (c : α) (a : Ct α) : Ct α := ⟨c * a.c0, c * a.c1, c * a.c2⟩
def addConstR (c : α) (a : Ct α) : Ct α := ⟨a.c0 + c, a.c1, a.c2⟩
/-- relinearisation: `(k0, k1)` the output of the gadget product of `c2`; `z` the zero polynomial -/
def relinR (z k0 k1 : α) (a : Ct α) : Ct α := ⟨a.c0 + k0, a.c1 + k1, z⟩

def ctMap {β : Type} (φ : α → β) (c : Ct α) : Ct β := ⟨φ c.c0, φ c.c1, φ c.c2⟩

end defs

/-- the three components of a ciphertext are well formed -/
def WFct (qs : List ℕ) (n : ℕ) (c : Ct RPoly) : Prop := WFq qs n c.c0 ∧ WFq qs n c.c1 ∧ WFq qs n c.c2

instance (qs : List ℕ) (n : ℕ) (c : Ct RPoly) : Decidable (WFct qs n c) := by unfold WFct; infer_instance

section rpoly
variable {qs : List ℕ} {n : ℕ} [Good qs n]

theorem exists_lift_ct (c : Ct RPoly) (h : WFct qs n c) : ∃ c' : Ct (WFPoly qs n), ctMap val c' = c :=
  ⟨⟨lift c.c0 h.1, lift c.c1 h.2.1, lift c.c2 h.2.2⟩, rfl⟩

/-- **the generic definitions on `WFPoly qs n` are the component formulas on the underlying values** -/
theorem val_phase (s : WFPoly qs n) (c : Ct (WFPoly qs n)) : val (phase s c) = phaseR (val s) (ctMap val c) := by
  simp only [phase, pow_two]; rfl
theorem ctMap_lin (k0 k1 : WFPoly qs n) (a b : Ct (WFPoly qs n)) :
    ctMap val (Ct.lin k0 k1 a b) = linR (val k0) (val k1) (ctMap val a) (ctMap val b) := rfl
theorem ctMap_tensor (a b : Ct (WFPoly qs n)) :
    ctMap val (Ct.tensor a b) = tensorR (ctMap val a) (ctMap val b) := rfl
theorem ctMap_smul (c : WFPoly qs n) (a : Ct (WFPoly qs n)) :
    ctMap val (Ct.smul c a) = smulR (val c) (ctMap val a) := rfl
theorem ctMap_addConst (c : WFPoly qs n) (a : Ct (WFPoly qs n)) :
    ctMap val (Ct.addConst c a) = addConstR (val c) (ctMap val a) := rfl
theorem ctMap_relin (k0 k1 : WFPoly qs n) (a : Ct (WFPoly qs n)) :
    ctMap val (Ct.relin k0 k1 a) = relinR (RPoly.zero qs n) (val k0) (val k1) (ctMap val a) := rfl

theorem c2_zero_lift (a : Ct (WFPoly qs n)) (h : (ctMap val a).c2 = RPoly.zero qs n) : a.c2 = 0 :=
  val_injective h

/-- closure of well-formedness under the evaluator's component formulas -/
theorem WFct.lin {k0 k1 : RPoly} {a b : Ct RPoly} (hk0 : WFq qs n k0) (hk1 : WFq qs n k1)
    (ha : WFct qs n a) (hb : WFct qs n b) : WFct qs n (linR k0 k1 a b) :=
  ⟨(hk0.mul ha.1).add (hk1.mul hb.1), (hk0.mul ha.2.1).add (hk1.mul hb.2.1), (hk0.mul ha.2.2).add (hk1.mul hb.2.2)⟩
theorem WFct.tensor {a b : Ct RPoly} (ha : WFct qs n a) (hb : WFct qs n b) : WFct qs n (tensorR a b) :=
  ⟨ha.1.mul hb.1, (ha.1.mul hb.2.1).add (ha.2.1.mul hb.1), ha.2.1.mul hb.2.1⟩
theorem WFq.phase {s : RPoly} {c : Ct RPoly} (hs : WFq qs n s) (hc : WFct qs n c) : WFq qs n (phaseR s c) :=
  (hc.1.add (hc.2.1.mul hs)).add (hc.2.2.mul (hs.mul hs))

/-! ## 2. The theorems on `RPoly` values -/

/-- **phase_AddAligned_rpoly** (`evaluateInPlace` with the alignment multipliers `k0`, `k1`) -/
theorem phase_AddAligned_rpoly (s k0 k1 : RPoly) (a b : Ct RPoly) (hs : WFq qs n s) (hk0 : WFq qs n k0)
    (hk1 : WFq qs n k1) (ha : WFct qs n a) (hb : WFct qs n b) :
    phaseR s (linR k0 k1 a b) = k0 * phaseR s a + k1 * phaseR s b := by
  obtain ⟨s, rfl⟩ := exists_lift s hs
  obtain ⟨k0, rfl⟩ := exists_lift k0 hk0
  obtain ⟨k1, rfl⟩ := exists_lift k1 hk1
  obtain ⟨a, rfl⟩ := exists_lift_ct a ha
  obtain ⟨b, rfl⟩ := exists_lift_ct b hb
  have h := congrArg val (phase_lin s k0 k1 a b)
  rw [val_phase, ctMap_lin, val_add, val_mul, val_mul, val_phase, val_phase] at h
  exact h

/-- **phase_Add_rpoly**: equal scales, multipliers `1`, `1` -/
theorem phase_Add_rpoly (s : RPoly) (a b : Ct RPoly) (hs : WFq qs n s) (ha : WFct qs n a) (hb : WFct qs n b) :
    phaseR s (linR (rpOne qs n) (rpOne qs n) a b) = phaseR s a + phaseR s b := by
  obtain ⟨s, rfl⟩ := exists_lift s hs
  obtain ⟨a, rfl⟩ := exists_lift_ct a ha
  obtain ⟨b, rfl⟩ := exists_lift_ct b hb
  have h := congrArg val (phase_add s a b)
  rw [val_phase, ctMap_lin, val_add, val_phase, val_phase] at h
  exact h

/-- **phase_Sub_rpoly**: multipliers `1`, `−1` -/
theorem phase_Sub_rpoly (s : RPoly) (a b : Ct RPoly) (hs : WFq qs n s) (ha : WFct qs n a) (hb : WFct qs n b) :
    phaseR s (linR (rpOne qs n) (-rpOne qs n) a b) = phaseR s a - phaseR s b := by
  obtain ⟨s, rfl⟩ := exists_lift s hs
  obtain ⟨a, rfl⟩ := exists_lift_ct a ha
  obtain ⟨b, rfl⟩ := exists_lift_ct b hb
  have h := congrArg val (phase_sub s a b)
  rw [val_phase, ctMap_lin, val_sub, val_phase, val_phase] at h
  exact h

/-- **phase_Mul_rpoly**: the phase of the degree-2 tensor of two degree-1 ciphertexts is the product of the
phases -/
theorem phase_Mul_rpoly (s : RPoly) (a b : Ct RPoly) (hs : WFq qs n s) (ha : WFct qs n a) (hb : WFct qs n b)
    (ha2 : a.c2 = RPoly.zero qs n) (hb2 : b.c2 = RPoly.zero qs n) :
    phaseR s (tensorR a b) = phaseR s a * phaseR s b := by
  obtain ⟨s, rfl⟩ := exists_lift s hs
  obtain ⟨a, rfl⟩ := exists_lift_ct a ha
  obtain ⟨b, rfl⟩ := exists_lift_ct b hb
  have h := congrArg val (phase_tensor s a b (c2_zero_lift a ha2) (c2_zero_lift b hb2))
  rw [val_phase, ctMap_tensor, val_mul, val_phase, val_phase] at h
  exact h

/-- **phase_MulRelin_rpoly**: product of the phases plus the key-switch error term `k0 + k1·s − a1·b1·s²` -/
theorem phase_MulRelin_rpoly (s k0 k1 : RPoly) (a b : Ct RPoly) (hs : WFq qs n s) (hk0 : WFq qs n k0)
    (hk1 : WFq qs n k1) (ha : WFct qs n a) (hb : WFct qs n b)
    (ha2 : a.c2 = RPoly.zero qs n) (hb2 : b.c2 = RPoly.zero qs n) :
    phaseR s (relinR (RPoly.zero qs n) k0 k1 (tensorR a b))
      = phaseR s a * phaseR s b + (k0 + k1 * s - a.c1 * b.c1 * (s * s)) := by
  obtain ⟨s, rfl⟩ := exists_lift s hs
  obtain ⟨k0, rfl⟩ := exists_lift k0 hk0
  obtain ⟨k1, rfl⟩ := exists_lift k1 hk1
  obtain ⟨a, rfl⟩ := exists_lift_ct a ha
  obtain ⟨b, rfl⟩ := exists_lift_ct b hb
  have h := congrArg val (phase_mulRelin s k0 k1 a b (c2_zero_lift a ha2) (c2_zero_lift b hb2))
  rw [val_phase, ctMap_relin, ctMap_tensor, val_add, val_mul, val_phase, val_phase, pow_two] at h
  exact h

/-- **phase_MulScalar_rpoly** (`evaluateWithScalar`; a complex constant is the ring element `re + im·X^{n/2}`) -/
theorem phase_MulScalar_rpoly (s c : RPoly) (a : Ct RPoly) (hs : WFq qs n s) (hc : WFq qs n c)
    (ha : WFct qs n a) : phaseR s (smulR c a) = c * phaseR s a := by
  obtain ⟨s, rfl⟩ := exists_lift s hs
  obtain ⟨c, rfl⟩ := exists_lift c hc
  obtain ⟨a, rfl⟩ := exists_lift_ct a ha
  have h := congrArg val (phase_smul s c a)
  rw [val_phase, ctMap_smul, val_mul, val_phase] at h
  exact h

/-- **phase_AddScalar_rpoly** -/
theorem phase_AddScalar_rpoly (s c : RPoly) (a : Ct RPoly) (hs : WFq qs n s) (hc : WFq qs n c)
    (ha : WFct qs n a) : phaseR s (addConstR c a) = phaseR s a + c := by
  obtain ⟨s, rfl⟩ := exists_lift s hs
  obtain ⟨c, rfl⟩ := exists_lift c hc
  obtain ⟨a, rfl⟩ := exists_lift_ct a ha
  have h := congrArg val (phase_addConst s c a)
  rw [val_phase, ctMap_addConst, val_add, val_phase] at h
  exact h

/-- **phase_MulThenAdd_rpoly** (element operand): `opOut ← kOut·opOut + op0 ⊗ op1` -/
theorem phase_MulThenAdd_rpoly (s kOut : RPoly) (o a b : Ct RPoly) (hs : WFq qs n s) (hk : WFq qs n kOut)
    (ho : WFct qs n o) (ha : WFct qs n a) (hb : WFct qs n b)
    (ha2 : a.c2 = RPoly.zero qs n) (hb2 : b.c2 = RPoly.zero qs n) :
    phaseR s (linR kOut (rpOne qs n) o (tensorR a b)) = kOut * phaseR s o + phaseR s a * phaseR s b := by
  obtain ⟨s, rfl⟩ := exists_lift s hs
  obtain ⟨kOut, rfl⟩ := exists_lift kOut hk
  obtain ⟨o, rfl⟩ := exists_lift_ct o ho
  obtain ⟨a, rfl⟩ := exists_lift_ct a ha
  obtain ⟨b, rfl⟩ := exists_lift_ct b hb
  have h := congrArg val (phase_mulThenAdd s kOut o a b (c2_zero_lift a ha2) (c2_zero_lift b hb2))
  rw [val_phase, ctMap_lin, ctMap_tensor, val_add, val_mul, val_mul, val_phase, val_phase, val_phase] at h
  exact h

/-- **phase_MulThenAddScalar_rpoly** (scalar operand): `opOut ← kOut·opOut + c·op0` -/
theorem phase_MulThenAddScalar_rpoly (s kOut c : RPoly) (o a : Ct RPoly) (hs : WFq qs n s) (hk : WFq qs n kOut)
    (hc : WFq qs n c) (ho : WFct qs n o) (ha : WFct qs n a) :
    phaseR s (linR kOut c o a) = kOut * phaseR s o + c * phaseR s a :=
  phase_AddAligned_rpoly s kOut c o a hs hk hc ho ha

/-- **phase_Rescale_rpoly.**  If `q·c0' = c0 − r0` and `q·c1' = c1 − r1` (component-wise rounded division, `r`
the remainder polynomials) then `q·phase' = phase − (r0 + r1·s)`. -/
theorem phase_Rescale_rpoly (s q c0 c1 c0' c1' r0 r1 : RPoly) (hs : WFq qs n s) (hq : WFq qs n q)
    (hc0 : WFq qs n c0) (hc1 : WFq qs n c1) (hc0' : WFq qs n c0') (hc1' : WFq qs n c1')
    (hr0 : WFq qs n r0) (hr1 : WFq qs n r1)
    (h0 : q * c0' = c0 - r0) (h1 : q * c1' = c1 - r1) :
    q * phaseR s ⟨c0', c1', RPoly.zero qs n⟩ = phaseR s ⟨c0, c1, RPoly.zero qs n⟩ - (r0 + r1 * s) := by
  obtain ⟨s, rfl⟩ := exists_lift s hs
  obtain ⟨q, rfl⟩ := exists_lift q hq
  obtain ⟨c0, rfl⟩ := exists_lift c0 hc0
  obtain ⟨c1, rfl⟩ := exists_lift c1 hc1
  obtain ⟨c0', rfl⟩ := exists_lift c0' hc0'
  obtain ⟨c1', rfl⟩ := exists_lift c1' hc1'
  obtain ⟨r0, rfl⟩ := exists_lift r0 hr0
  obtain ⟨r1, rfl⟩ := exists_lift r1 hr1
  have h := congrArg val (phase_rescale s q c0 c1 c0' c1' r0 r1 (val_injective h0) (val_injective h1))
  rw [val_mul, val_phase, val_sub, val_phase, val_add, val_mul] at h
  exact h

end rpoly

/-! ## 3. A concrete instance: `qs = [97, 193]`, `n = 8` -/

section concrete

instance good8 : Good [97, 193] 8 := ⟨by decide, by decide⟩

def z8 : RPoly := RPoly.zero [97, 193] 8
def s8 : RPoly := RPoly.ofInts [97, 193] [1, -1, 0, 1, 0, 0, -1, 1]
def a8 : Ct RPoly :=
  ⟨⟨[97, 193], [[1, 2, 3, 4, 5, 6, 7, 8], [10, 20, 30, 40, 50, 60, 70, 80]]⟩,
   ⟨[97, 193], [[8, 7, 6, 5, 4, 3, 2, 1], [80, 70, 60, 50, 40, 30, 20, 10]]⟩, z8⟩
def b8 : Ct RPoly :=
  ⟨⟨[97, 193], [[90, 3, 50, 7, 0, 96, 48, 49], [5, 6, 7, 8, 9, 10, 11, 12]]⟩,
   RPoly.ofInts [97, 193] [0, 1, 0, -1, 0, 1, 0, -1], z8⟩
/-- "gadget product" outputs of the relinearisation (any well-formed pair) -/
def k08 : RPoly := RPoly.ofInts [97, 193] [3, 0, -2, 0, 0, 7, 0, 0]
def k18 : RPoly := RPoly.ofInts [97, 193] [0, 0, 5, 0, -1, 0, 0, 2]
/-- `Rescale`: divisor `q = 5` (a constant), quotients `c'`, remainders `r`, `c = q·c' + r` -/
def q8 : RPoly := (rpOne [97, 193] 8).scale 5
def c0p8 : RPoly := RPoly.ofInts [97, 193] [3, -4, 0, 1, 9, 0, 0, -2]
def c1p8 : RPoly := RPoly.ofInts [97, 193] [1, 1, -6, 0, 0, 2, 0, 0]
def r08 : RPoly := RPoly.ofInts [97, 193] [2, -2, 1, 0, -1, 0, 2, 1]
def r18 : RPoly := RPoly.ofInts [97, 193] [0, 1, -1, 2, -2, 0, 0, 1]

theorem hyps8 : WFq [97, 193] 8 s8 ∧ WFct [97, 193] 8 a8 ∧ WFct [97, 193] 8 b8 ∧ WFq [97, 193] 8 k08
    ∧ WFq [97, 193] 8 k18 ∧ a8.c2 = RPoly.zero [97, 193] 8 ∧ b8.c2 = RPoly.zero [97, 193] 8 := by
  decide +kernel

theorem hypsR8 : WFq [97, 193] 8 q8 ∧ WFq [97, 193] 8 c0p8 ∧ WFq [97, 193] 8 c1p8 ∧ WFq [97, 193] 8 r08
    ∧ WFq [97, 193] 8 r18 ∧ WFq [97, 193] 8 (q8 * c0p8 + r08) ∧ WFq [97, 193] 8 (q8 * c1p8 + r18)
    ∧ q8 * c0p8 = (q8 * c0p8 + r08) - r08 ∧ q8 * c1p8 = (q8 * c1p8 + r18) - r18 := by
  decide +kernel

/-- instances obtained FROM THE THEOREMS, all hypotheses discharged: `MulRelin` and `Rescale` -/
example : phaseR s8 (relinR (RPoly.zero [97, 193] 8) k08 k18 (tensorR a8 b8))
    = phaseR s8 a8 * phaseR s8 b8 + (k08 + k18 * s8 - a8.c1 * b8.c1 * (s8 * s8)) :=
  phase_MulRelin_rpoly s8 k08 k18 a8 b8 hyps8.1 hyps8.2.2.2.1 hyps8.2.2.2.2.1 hyps8.2.1 hyps8.2.2.1
    hyps8.2.2.2.2.2.1 hyps8.2.2.2.2.2.2

example : q8 * phaseR s8 ⟨c0p8, c1p8, RPoly.zero [97, 193] 8⟩
    = phaseR s8 ⟨q8 * c0p8 + r08, q8 * c1p8 + r18, RPoly.zero [97, 193] 8⟩ - (r08 + r18 * s8) :=
  phase_Rescale_rpoly s8 q8 _ _ c0p8 c1p8 r08 r18 hyps8.1 hypsR8.1 hypsR8.2.2.2.2.2.1 hypsR8.2.2.2.2.2.2.1
    hypsR8.2.1 hypsR8.2.2.1 hypsR8.2.2.2.1 hypsR8.2.2.2.2.1 hypsR8.2.2.2.2.2.2.2.1 hypsR8.2.2.2.2.2.2.2.2

/-- TEST (evaluation of the model on these values): `Mul`, `MulRelin`, `Add` with multipliers, and the
value is not trivial -/
example : phaseR s8 (tensorR a8 b8) = phaseR s8 a8 * phaseR s8 b8
    ∧ phaseR s8 (relinR (RPoly.zero [97, 193] 8) k08 k18 (tensorR a8 b8))
        = phaseR s8 a8 * phaseR s8 b8 + (k08 + k18 * s8 - a8.c1 * b8.c1 * (s8 * s8))
    ∧ phaseR s8 (linR k08 k18 a8 b8) = k08 * phaseR s8 a8 + k18 * phaseR s8 b8
    ∧ phaseR s8 (tensorR a8 b8) ≠ RPoly.zero [97, 193] 8 := by decide +kernel

end concrete

end Lattigo.Props.C06Ring

#print axioms Lattigo.Props.C06Ring.val_phase
#print axioms Lattigo.Props.C06Ring.phase_AddAligned_rpoly
#print axioms Lattigo.Props.C06Ring.phase_Add_rpoly
#print axioms Lattigo.Props.C06Ring.phase_Sub_rpoly
#print axioms Lattigo.Props.C06Ring.phase_Mul_rpoly
#print axioms Lattigo.Props.C06Ring.phase_MulRelin_rpoly
#print axioms Lattigo.Props.C06Ring.phase_MulScalar_rpoly
#print axioms Lattigo.Props.C06Ring.phase_AddScalar_rpoly
#print axioms Lattigo.Props.C06Ring.phase_MulThenAdd_rpoly
#print axioms Lattigo.Props.C06Ring.phase_MulThenAddScalar_rpoly
#print axioms Lattigo.Props.C06Ring.phase_Rescale_rpoly
