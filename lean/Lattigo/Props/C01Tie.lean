import Lattigo.Proofs.SubRingOps
import Lattigo.Proofs.KernelLoop
/-!
  # C01 — tie between the model of the vector layer and the Go code (property theorems)

  Two gaps between `Model/Vec.lean` and `/repo/ring` are closed here by theorems over REGENERATED
  definitions (tools/go2lean rewrites `Gen/SubRingOps.lean`, `Gen/VecLanes.lean` from /repo on every
  `./check`, so these theorems are re-checked against the current source):

  1. **wrapper table** — `Vec.op` (hand-written: SubRing method name ↦ kernel lane with constants and
     argument order) agrees with the wrappers of ring/subring_ops.go (`vecOp_table`);
  2. **kernel loop** — the unrolled Go loop of a kernel, executed statement by statement on a memory in
     which the slice parameters may ALIAS in any pattern, computes the pointwise map of the kernel's
     lane over the initial contents (`kernel_loop_spec`, `kernel_loop_map3`): this is what `Vec.op`
     (`map3`/`map2` of the lane) assumes.
-/
namespace Lattigo.Props.C01Tie
open Lattigo Lattigo.Gen Lattigo.Vec Lattigo.KernelLoop

/-! ## 1. The SubRing wrapper table -/

/-- **vecOp_table**: for EVERY kernel-wrapping method of ring/subring_ops.go (the 36 names of the
regenerated string table `Gen.subRingOps`: method, kernel, actual arguments), `Vec.op name` is
`map3` (3-slice methods) resp. `map2` (2-slice methods) of the REGENERATED wrapper lane
`Gen.SubRing_<name>_lane s.q s.qinv s.bred …` — same kernel, same constants, same argument order. -/
theorem vecOp_table (s : Sub) (p1 p2 p3 : List Nat) (s0 s1 : Nat) :
    ∀ name ∈ subRingOps.map (·.1),
      (∃ f, (name, f) ∈ subRingTable3 s.q s.qinv s.bred s0 s1
          ∧ Vec.op s name p1 p2 p3 s0 s1 = some (map3 f p1 p2 p3))
      ∨ (∃ f, (name, f) ∈ subRingTable2 s.q s.qinv s.bred s0 s1
          ∧ Vec.op s name p1 p2 p3 s0 s1 = some (map2 f p1 p3)) :=
  Vec.vecOp_table s p1 p2 p3 s0 s1

/-- entry-wise forms (the 21 three-slice and the 15 two-slice wrappers) -/
theorem vecOp_table3 (s : Sub) (p1 p2 p3 : List Nat) (s0 s1 : Nat) :
    ∀ e ∈ subRingTable3 s.q s.qinv s.bred s0 s1,
      Vec.op s e.1 p1 p2 p3 s0 s1 = some (map3 e.2 p1 p2 p3) :=
  Vec.vecOp_table3 s p1 p2 p3 s0 s1

theorem vecOp_table2 (s : Sub) (p1 p2 p3 : List Nat) (s0 s1 : Nat) :
    ∀ e ∈ subRingTable2 s.q s.qinv s.bred s0 s1,
      Vec.op s e.1 p1 p2 p3 s0 s1 = some (map2 e.2 p1 p3) :=
  Vec.vecOp_table2 s p1 p2 p3 s0 s1

/-- the wrapper tables cover the string table exactly; every wrapper calls a translated kernel -/
theorem subRingOps_cover : (subRingOps.map (·.1)).Perm (subRingNames3 ++ subRingNames2) :=
  Vec.subRingOps_names_cover
theorem subRingOps_kernels : ∀ e ∈ subRingOps, e.2.1 ∈ kernelNames := Vec.subRingOps_kernels

/-- non-vacuity: `MulCoeffsMontgomeryThenAdd` is in the table, with the Montgomery constant last -/
example : ("MulCoeffsMontgomeryThenAdd", "mulcoeffsmontgomerythenaddvec",
    ["p1", "p2", "p3", "s.Modulus", "s.MRedConstant"]) ∈ subRingOps := by decide
/-- TEST (evaluation): `Vec.op "Sub"` on a concrete input, through the regenerated lane -/
example : Vec.op (mkSub 97) "Sub" [5, 1] [7, 1] [0, 0] 0 0 = some [95, 0] := by decide

/-! ## 2. The kernel loop, under aliasing -/

/-- **kernel_loop_spec**: for slice ids `p1 p2 p3` that may be EQUAL in any pattern, lanes that are
uniform (`Gen.K_uniform`) and `8 ∣ N`: after the sequential execution of
`for j := 0; j < N; j += 8 { z[0] = …; …; z[7] = … }` on the memory `m₀`,
`p3[i] = lane (m₀ p1 i) (m₀ p2 i) (m₀ p3 i)` for all `i < N` and nothing else changed. -/
theorem kernel_loop_spec {σ : Type} [DecidableEq σ] (lanes : Lanes) (lane : Nat → Nat → Nat → Nat)
    (hU : ∀ w1 w2 w3, lanes w1 w2 w3 = lanes8 (fun k => lane (w1 k) (w2 k) (w3 k)))
    (p1 p2 p3 : σ) (N : Nat) (h8 : 8 ∣ N) (m0 : Mem σ) :
    (∀ i, i < N → runLoop lanes p1 p2 p3 N m0 p3 i = lane (m0 p1 i) (m0 p2 i) (m0 p3 i))
    ∧ (∀ s i, ¬ (s = p3 ∧ i < N) → runLoop lanes p1 p2 p3 N m0 s i = m0 s i) :=
  runLoop_spec lanes lane hU p1 p2 p3 N h8 m0

/-- **kernel_loop_map3**: the content of the output slice after the loop is `Vec.map3 lane` of the
three INITIAL contents (what `Vec.op` computes), for every aliasing pattern. -/
theorem kernel_loop_map3 {σ : Type} [DecidableEq σ] (lanes : Lanes) (lane : Nat → Nat → Nat → Nat)
    (hU : ∀ w1 w2 w3, lanes w1 w2 w3 = lanes8 (fun k => lane (w1 k) (w2 k) (w3 k)))
    (p1 p2 p3 : σ) (N : Nat) (h8 : 8 ∣ N) (m0 : Mem σ) :
    content (runLoop lanes p1 p2 p3 N m0) p3 N
      = Vec.map3 lane (content m0 p1 N) (content m0 p2 N) (content m0 p3 N) :=
  runLoop_map3 lanes lane hU p1 p2 p3 N h8 m0

/-- 2-slice kernels: `Vec.map2` -/
theorem kernel_loop_map2 {σ : Type} [DecidableEq σ] (lanes : Lanes) (lane : Nat → Nat → Nat)
    (hU : ∀ w1 w2 w3, lanes w1 w2 w3 = lanes8 (fun k => lane (w1 k) (w3 k)))
    (p1 p2 p3 : σ) (N : Nat) (h8 : 8 ∣ N) (m0 : Mem σ) :
    content (runLoop lanes p1 p2 p3 N m0) p3 N = Vec.map2 lane (content m0 p1 N) (content m0 p3 N) :=
  runLoop_map2 lanes lane hU p1 p2 p3 N h8 m0

/-- **`SubRing.Add` in place** (`r.Add(p, p, p)`-style calls are common in lattigo): with
`p1 = p2 = p3 = p` the loop of `addvec` leaves `p[i] = addvec_lane (p₀[i]) (p₀[i]) (p₀[i]) q`. -/
theorem addvec_inplace {σ : Type} [DecidableEq σ] (q : Nat) (p : σ) (N : Nat) (h8 : 8 ∣ N)
    (m0 : Mem σ) (i : Nat) (hi : i < N) :
    runLoop (fun w1 w2 w3 => addvec_lanes w1 w2 w3 q) p p p N m0 p i
      = addvec_lane (m0 p i) (m0 p i) (m0 p i) q :=
  (addvec_loop q p p p N h8 m0).1 i hi

/-- **`MulCoeffsMontgomery`** through its regenerated `_uniform` theorem, any aliasing -/
theorem mulcoeffsmontgomeryvec_loop_map3 {σ : Type} [DecidableEq σ] (q qinv : Nat) (p1 p2 p3 : σ)
    (N : Nat) (h8 : 8 ∣ N) (m0 : Mem σ) :
    content (runLoop (fun w1 w2 w3 => mulcoeffsmontgomeryvec_lanes w1 w2 w3 q qinv) p1 p2 p3 N m0) p3 N
      = Vec.map3 (fun a b c => mulcoeffsmontgomeryvec_lane a b c q qinv)
          (content m0 p1 N) (content m0 p2 N) (content m0 p3 N) :=
  runLoop_map3 _ _ (fun w1 w2 w3 => mulcoeffsmontgomeryvec_uniform w1 w2 w3 q qinv) p1 p2 p3 N h8 m0

/-- **`MulCoeffsMontgomeryLazyThenAddLazy`** (accumulating: reads `p3` before writing it; with
`p1 = p3` the accumulator is also a factor), any aliasing -/
theorem mulcoeffsmontgomerylazythenaddlazyvec_loop_map3 {σ : Type} [DecidableEq σ] (q qinv : Nat)
    (p1 p2 p3 : σ) (N : Nat) (h8 : 8 ∣ N) (m0 : Mem σ) :
    content (runLoop (fun w1 w2 w3 => mulcoeffsmontgomerylazythenaddlazyvec_lanes w1 w2 w3 q qinv)
        p1 p2 p3 N m0) p3 N
      = Vec.map3 (fun a b c => mulcoeffsmontgomerylazythenaddlazyvec_lane a b c q qinv)
          (content m0 p1 N) (content m0 p2 N) (content m0 p3 N) :=
  runLoop_map3 _ _ (fun w1 w2 w3 => mulcoeffsmontgomerylazythenaddlazyvec_uniform w1 w2 w3 q qinv)
    p1 p2 p3 N h8 m0

/-- … which is literally what `Vec.op "MulCoeffsMontgomeryLazyThenAddLazy"` returns on the initial
contents (`vecOp_table3` + `rfl`): model = loop semantics = regenerated wrapper. -/
theorem vecOp_is_loop_MulCoeffsMontgomeryLazyThenAddLazy {σ : Type} [DecidableEq σ] (s : Sub)
    (p1 p2 p3 : σ) (N : Nat) (h8 : 8 ∣ N) (m0 : Mem σ) (s0 s1 : Nat) :
    Vec.op s "MulCoeffsMontgomeryLazyThenAddLazy" (content m0 p1 N) (content m0 p2 N)
        (content m0 p3 N) s0 s1
      = some (content (runLoop
          (fun w1 w2 w3 => mulcoeffsmontgomerylazythenaddlazyvec_lanes w1 w2 w3 s.q s.qinv)
          p1 p2 p3 N m0) p3 N) := by
  rw [mulcoeffsmontgomerylazythenaddlazyvec_loop_map3 s.q s.qinv p1 p2 p3 N h8 m0]
  unfold Vec.op; rfl

/-- every one of the 38 kernels writes its last slice parameter (regenerated table) -/
theorem kernelSigs_out_last : ∀ k ∈ kernelSigs, k.2.1.getLast? = some k.2.2 :=
  KernelLoop.kernelSigs_out_last

/-- non-vacuity / TEST: the loop run on a concrete 8-word memory with ALL THREE slices aliased
(`Bool` slice ids, everything is slice `true`) -/
example : content (runLoop (fun w1 w2 w3 => addvec_lanes w1 w2 w3 97) true true true 8
      (fun _ i => i + 40)) true 8
    = [80, 82, 84, 86, 88, 90, 92, 94] := by decide
example : (8 : Nat) ∣ 8 := by decide

end Lattigo.Props.C01Tie

#print axioms Lattigo.Props.C01Tie.vecOp_table
#print axioms Lattigo.Props.C01Tie.vecOp_table3
#print axioms Lattigo.Props.C01Tie.vecOp_table2
#print axioms Lattigo.Props.C01Tie.subRingOps_cover
#print axioms Lattigo.Props.C01Tie.subRingOps_kernels
#print axioms Lattigo.Props.C01Tie.kernel_loop_spec
#print axioms Lattigo.Props.C01Tie.kernel_loop_map3
#print axioms Lattigo.Props.C01Tie.kernel_loop_map2
#print axioms Lattigo.Props.C01Tie.addvec_inplace
#print axioms Lattigo.Props.C01Tie.mulcoeffsmontgomeryvec_loop_map3
#print axioms Lattigo.Props.C01Tie.mulcoeffsmontgomerylazythenaddlazyvec_loop_map3
#print axioms Lattigo.Props.C01Tie.vecOp_is_loop_MulCoeffsMontgomeryLazyThenAddLazy
#print axioms Lattigo.Props.C01Tie.kernelSigs_out_last
