/-
  C17 — samplers respect their distribution contract and are reproducible from a seed.

  Every theorem is about the executable model `Lattigo/Model/Sampler*.lean` (the functions the
  driver runs and the harness ties, limb for limb and byte for byte, to /repo/ring/sampler*.go,
  /repo/ring/ringqp/samplers.go, /repo/utils/sampling/prng.go), for ALL byte streams, rings, levels
  and fuels.  A sampler call is a pure function
  `(PRNG bytes, buffer state, polynomial) ↦ Res (polynomial, PRNG bytes left, buffer state)`;
  `Res.exhausted` (PRNG ran dry) and `Res.panic` are terminal, so every statement has the form
  "if the call returns `ok …` then …".  The model follows /repo HEAD (fixes ece109d, 92bf5e8,
  C17-2 … C17-7 applied; C17-1 not applied: known finding C17/ternary-ky-sign-bit-reused).

  PROVED FOR ALL INPUTS (no hypothesis beyond well-formedness: rows of length N, 2 ≤ q_i < 2^64)
   · support / one integer across moduli: `uniform_range`, `uniform_range_readAndAdd`,
     `rns_consistent_ternary`, `sparse_weight` (+ `_rows`), `rns_consistent_gauss`,
     `gauss_limbs_reduced`, `gauss_bound_big`;
   · every level: `level_view_ternary`, `level_view_sparse`, `level_view_gauss`,
     `atLevel_rows_agree` (a view gets the first limbs of the SAME signed integers);
   · exact laws where the code is a table: `ternary_half_exact` (P = 0.5: 1/2, 1/4, 1/4 from
     disjoint bits), `sparse_signs_are_stream_bits` (sign of the t-th selected coefficient = t-th
     sign bit, for every H), `accept_fibre_card` (rejection under the mask is uniform: counting);
   · Montgomery / ReadAndAdd: `mont_eq_mform_plain_{ternary,sparse,gauss}`,
     `readAndAdd_eq_add_read_{uniform,ternary,sparse,gauss}`, `readAndAdd_gauss_mont`;
   · buffers and interleavings: `uniform_consumes` (buffered = unbuffered word-stream spec, from
     every invariant state), `interleaving` (invariant after any call sequence on any views of any
     samplers), `gauss_no_stale_bytes`;
   · reproducibility: `determinism` (by construction), `prng_key_replays`,
     `prng_reads_are_one_stream` (PRNG state = (key, position), arbitrary XOF).
  NEGATION WITH WITNESS: `ky_sign_bit_reused` (adjacent coefficients of Ternary{P ≠ 0.5} depend).
  TIED ONLY (model = code on the explored inputs, no general theorem needed beyond the above): the
   float64 arithmetic of SamplerFloat.lean vs the hardware (`fmul` … ops; `rne53_mono` is proved),
   `computeMatrixTernary` (`matrix`), constructor decision table (`ctor`), `RandUniform`, `RandInt`,
   ringqp sessions (`qp`), the ziggurat tables (`tables`).
  NOT THEOREMS: empirical mean / standard deviation / density / sign balance (LABELLED TESTS of
   the harness); the exact output law of the Knuth–Yao walk for P ≠ 0.5 (a statement about a
   measure on infinite bit sequences; the walk itself is tied bit for bit, its support is proved and
   its one structural defect is `ky_sign_bit_reused`); the `math.Log` / `math.Exp` branches of the
   ziggurat are an oracle (every theorem holds for every oracle; such lines are `inconclusive`).
  OUT OF SCOPE: "distinct keys give unrelated streams" is a property of the BLAKE2b XOF.
-/
import Lattigo.Proofs.SamplerSession
import Lattigo.Proofs.SamplerCount
import Lattigo.Proofs.SamplerKY
import Lattigo.Proofs.SamplerPRNG
import Lattigo.Proofs.SamplerLevels
namespace Lattigo.C17
open Lattigo Lattigo.Gen Lattigo.Sampler

/-! ## 1. Uniform sampler -/

/-- **uniform_range.**  `Read` (hence `ReadNew`) on any level view: every coefficient of row `i`
    below the level is `< q_i` — for every byte stream and buffer state. -/
theorem uniform_range (fuel : Nat) (qs : List Nat) (pol r : Poly) (s s' : Bytes) (b b' : Buf)
    (h : uniformRead fuel .read qs pol s b = .ok (r, s', b')) :
    ∀ i row, i < qs.length → r[i]? = some row → ∀ c ∈ row, c < qs.getD i 0 := by
  exact RowsBelow_get qs r (uniformRead_range fuel qs pol s b r s' b' h)

/-- **uniform_range (ReadAndAdd).**  If the polynomial is reduced (rows below the level `< q_i`)
    and `2 q_i ≤ 2^64`, `ReadAndAdd` leaves it reduced. -/
theorem uniform_range_readAndAdd (fuel : Nat) (qs : List Nat) (pol r : Poly) (s s' : Bytes) (b b' : Buf)
    (hq : ∀ q ∈ qs, 2 * q ≤ W) (hpol : RowsBelow qs pol)
    (h : uniformRead fuel .readAndAdd qs pol s b = .ok (r, s', b')) :
    ∀ i row, i < qs.length → r[i]? = some row → ∀ c ∈ row, c < qs.getD i 0 :=
  RowsBelow_get qs r (uniformRead_good fuel .readAndAdd qs pol s b r s' b' (goodRows_add qs pol hq hpol) h)

/-- non-vacuity: a call that succeeds (N = 2, q = 5, all-zero PRNG bytes) -/
example : uniformRead 10 .read [5] [[7, 7]] (List.replicate 1024 0) Buf.new =
    .ok ([[0, 0]], [], { data := List.replicate 1024 0, ptr := 16 }) := by decide +kernel

/-- **uniform_consumes / interleaving (one call).**  The buffered sampler, started in any state
    satisfying the buffer invariant, on any level view, is the UNBUFFERED specification `specRows`
    that takes the pending 64-bit big-endian words one after the other (dropping those with
    `w & mask ≥ q`): same polynomial, and the words left afterwards are exactly the words the
    specification left.  So the bytes consumed are a function of the stream: no byte is used twice
    and none is skipped, whatever the pointer position at the start of the call (incl. the
    `ptr == 0 || ptr == 1024` refill rule), and the invariant is re-established. -/
theorem uniform_consumes (fuel : Nat) (m : Mode) (qs : List Nat) (pol r : Poly) (s s' : Bytes) (b b' : Buf)
    (hb : BufInv b) (h : uniformRead fuel m qs pol s b = .ok (r, s', b')) :
    BufInv b' ∧
    specRows m qs pol (wordsBE (pendingAtCall s b)) = some (r, wordsBE (pendingIn s' b')) ∧
    (Draws qs pol → pendingIn s' b' = pendingAtCall s' b') := by
  obtain ⟨h1, h2, h3⟩ := uniformRead_spec fuel m qs pol s b r s' b' hb h
  exact ⟨h1, h3, fun hd => (pending_after h1 (h2 hd)).symm⟩

example : BufInv Buf.new := BufInv.new

/-- **accept_fibre_card.**  Counting form of "rejection sampling under the mask is uniform": for a
    modulus `1 ≤ q ≤ 2^63` with `mask = SubRing.Mask`, every residue `r < q` is the masked image
    `w & mask` of exactly `2^64 / (mask + 1)` of the `2^64` words `w` — the same number for every
    `r` — and a word is accepted iff its masked image is `< q`.  (No probability theory.) -/
theorem accept_fibre_card (q : Nat) (hq : 0 < q) (hq' : q ≤ 2 ^ 63) (r : Nat) (hr : r < q) :
    ((Finset.range W).filter (fun w => u64and w (maskOf q) = r)).card = W / (maskOf q + 1) := by
  obtain ⟨hm, hqk, _⟩ := maskOf_eq q hq hq'
  have : 0 < 2 ^ len64 (q - 1) := Nat.two_pow_pos _
  exact accept_fibre_card_aux q hq hq' r (by omega)

example : (0 : Nat) < 65537 ∧ 65537 ≤ 2 ^ 63 ∧ 3 < 65537 := by decide

/-- **readAndAdd_eq_add_read (uniform).**  `ReadAndAdd(pol)` returns `pol + Read()` (`CRed(a+b, q)`
    per coefficient, `addPoly`) and leaves the PRNG and the buffer in the same state. -/
theorem readAndAdd_eq_add_read_uniform (fuel : Nat) (qs : List Nat) (pol r : Poly) (s s' : Bytes) (b b' : Buf)
    (h : uniformRead fuel .read qs pol s b = .ok (r, s', b')) :
    uniformRead fuel .readAndAdd qs pol s b = .ok (addPoly qs pol r, s', b') :=
  uniformRead_add fuel qs pol s b r s' b' h

/-! ## 2. Interleavings on level views -/

/-- **interleaving.**  After ANY sequence of `Read / ReadNew / ReadAndAdd` calls on ANY level views
    of ANY samplers sharing one PRNG (uniform, ternary, Gaussian; Montgomery or not), every random
    buffer still satisfies `len = 1024 ∧ ptr ≤ 1024 ∧ 8 ∣ ptr` — also when the run stops on
    `exhausted` / `panic`.  Together with `uniform_consumes` (valid from every such state) this is
    the buffer-pointer statement for arbitrary interleavings. -/
theorem interleaving (cfg : Cfg) (stream : Bytes) (regs : List Poly) (calls : List Call) :
    ∀ b ∈ (run cfg (St.init cfg stream regs) calls).2.2.bufs,
      b.data.length = 1024 ∧ b.ptr ≤ 1024 ∧ 8 ∣ b.ptr :=
  run_inv cfg calls _ (St.init_inv cfg stream regs)

/-- **determinism / reset_replays.**  BY CONSTRUCTION: `run` is a function, so two sessions (two
    samplers, two parties, or one party after `Reset()` with fresh samplers) with the same
    configuration, the same PRNG bytes, the same registers and the same call sequence produce the
    same outputs.  The content is in the tie: the real samplers, fed these bytes, equal `run`. -/
theorem determinism (cfg : Cfg) (s₁ s₂ : Bytes) (regs₁ regs₂ : List Poly) (calls₁ calls₂ : List Call)
    (hs : s₁ = s₂) (hr : regs₁ = regs₂) (hc : calls₁ = calls₂) :
    (run cfg (St.init cfg s₁ regs₁) calls₁).1 = (run cfg (St.init cfg s₂ regs₂) calls₂).1 := by
  subst hs; subst hr; subst hc; rfl

/-! ## 3. Ternary sampler, density `P` -/

/-- **ternary_support + rns_consistent (density).**  `Read`, plain output, on any level view with
    moduli `2 ≤ q_i < 2^64` and rows of length `N`: there is ONE integer vector `x ∈ {−1,0,1}^N`
    such that row `i` is `x mod q_i` for every `i` below the level. -/
theorem rns_consistent_ternary (fuel p N : Nat) (qs : List Nat) (pol r : Poly) (s s' : Bytes)
    (hq : ∀ q ∈ qs, 2 ≤ q ∧ q < W) (hrows : ∀ row ∈ pol, row.length = N)
    (h : ternProba fuel .read false p N qs pol s = .ok (r, s')) :
    ∃ x : List Int, x.length = N ∧ (∀ v ∈ x, v = -1 ∨ v = 0 ∨ v = 1) ∧
      ∀ i, i < qs.length → r[i]? = some (x.map (resOf (qs.getD i 0))) := by
  obtain ⟨idx, h1, h2⟩ := ternProba_ok h
  obtain ⟨hlen, hidx⟩ := probaIdx_ok rfl h1
  refine ⟨idx.map ternVal, by simp [hlen], ?_, ternApply_read_plain qs pol r idx N hq hrows hlen hidx h2⟩
  intro v hv
  obtain ⟨ix, _, rfl⟩ := List.mem_map.mp hv
  exact ternVal_support ix

/-- non-vacuity: `P = 0.5` (`invDensity = 2^1073`), N = 8, moduli 5 and 7 -/
example : ternProba 10 .read false SF.half 8 [5, 7] [List.replicate 8 9, List.replicate 8 9] [0x0f, 0x05] =
    .ok ([[4, 1, 4, 1, 0, 0, 0, 0], [6, 1, 6, 1, 0, 0, 0, 0]], []) := by decide +kernel

/-- **readAndAdd_eq_add_read (density).** -/
theorem readAndAdd_eq_add_read_ternary (fuel : Nat) (mont : Bool) (p N : Nat) (qs : List Nat) (pol r : Poly)
    (s s' : Bytes) (hrows : ∀ row ∈ pol, row.length = N)
    (h : ternProba fuel .read mont p N qs pol s = .ok (r, s')) :
    ternProba fuel .readAndAdd mont p N qs pol s = .ok (addPoly qs pol r, s') := by
  obtain ⟨idx, h1, h2⟩ := ternProba_ok h
  have hp : p ≠ 0 := by
    intro hp0
    unfold ternProba at h
    rw [if_pos hp0] at h
    cases h
  exact ternProba_of hp h1 (ternApply_add mont qs pol r idx N hrows h2)

/-- **mont_eq_mform_plain (density).**  The Montgomery sampler returns `MForm` of what the plain
    sampler returns on the same bytes, and consumes the same bytes. -/
theorem mont_eq_mform_plain_ternary (fuel p N : Nat) (qs : List Nat) (pol r : Poly) (s s' : Bytes)
    (h : ternProba fuel .read false p N qs pol s = .ok (r, s')) :
    ∃ r', mformPoly qs r = .ok r' ∧ ternProba fuel .read true p N qs pol s = .ok (r', s') := by
  obtain ⟨idx, h1, h2⟩ := ternProba_ok h
  obtain ⟨r', hm, ht⟩ := ternApply_mont qs pol r idx h2
  have hp : p ≠ 0 := by
    intro hp0
    unfold ternProba at h
    rw [if_pos hp0] at h
    cases h
  exact ⟨r', hm, ternProba_of hp h1 ht⟩

/-- **KNOWN FINDING C17/ternary-ky-sign-bit-reused (witness; negation of independence of adjacent
    coefficients).**  `kysampling` takes the sign of a coefficient from bit `i+1` and returns the
    pointer `i+1`: for every matrix with `M.2[0] = 1` (`P ≥ 1/2`), every byte buffer and every
    hit position `i < 7`, if the sign bit is 1 then the walk of the NEXT coefficient ends on that
    very bit in row 1: a coefficient `−1` is always followed by a non-zero coefficient. -/
theorem ky_sign_bit_reused (M : List Nat × List Nat) (N fuel row i : Nat) (k : KY) (hi : i < 7)
    (hM : M.2.getD 0 0 = 1) (hsign : kyBit k (i + 1) = 1) :
    ∃ sg p k', kyHit N row i k = .ok (row, sg, p, k') ∧ sg = 1 ∧
      kyWalk M N (fuel + 1) p 0 0 k' = kyHit N 1 p k' :=
  Sampler.ky_sign_bit_reused M N fuel row i k hi hM hsign

/-- the hypothesis holds for `rlwe.DefaultXs = Ternary{P: 2/3}` (float64 bits of 2/3) -/
example : (probaMatrix (invDensity 4604180019048437077)).2.getD 0 0 = 1 := by decide +kernel

/-- concrete instance (`P = 2/3`): the random bytes `07…` and `05…` differ ONLY in bit 1, the sign
    bit of coefficient 0; the magnitude of coefficient 1 changes with it (`[−1, −1]` vs `[+1, 0]`). -/
example :
    (kyLoop (probaMatrix (invDensity 4604180019048437077)) 16 100 2 0
        { rb := 7 :: List.replicate 15 0, bp := 0, stream := [] } >>= fun r => Res.ok r.1) = .ok [2, 2] ∧
    (kyLoop (probaMatrix (invDensity 4604180019048437077)) 16 100 2 0
        { rb := 5 :: List.replicate 15 0, bp := 0, stream := [] } >>= fun r => Res.ok r.1) = .ok [1, 0] := by
  decide +kernel

/-! ## 4. Ternary sampler, fixed Hamming weight `H` -/

/-- **sparse_weight + ternary_support + rns_consistent (fixed weight).**  For EVERY `H ≥ 0` (the
    code clips `H > N` to `N`; no hypothesis on `H` is needed), `Read`, plain output, moduli
    `2 ≤ q_i < 2^64`, rows of length `N`: there is one integer vector `x ∈ {−1,0,1}^N` with EXACTLY
    `min(H, N)` non-zero entries such that row `i` is `x mod q_i` for every `i` below the level. -/
theorem sparse_weight (fuel hw N : Nat) (qs : List Nat) (pol r : Poly) (s s' : Bytes)
    (hq : ∀ q ∈ qs, 2 ≤ q ∧ q < W) (hrows : ∀ row ∈ pol, row.length = N)
    (h : ternSparse fuel .read false hw N qs pol s = .ok (r, s')) :
    ∃ x : List Int, x.length = N ∧ (∀ v ∈ x, v = -1 ∨ v = 0 ∨ v = 1) ∧
      x.countP (fun v => v ≠ 0) = min hw N ∧
      ∀ i, i < qs.length → r[i]? = some (x.map (resOf (qs.getD i 0))) := by
  obtain ⟨rbs, s1, sel, rest, _, _, hlen, hperm, hbits, hm⟩ := ternSparse_ok h
  refine ⟨sparseVec N sel rest, by simp [sparseVec], fun v hv => sparseVec_support v hv, ?_, ?_⟩
  · rw [sparseVec_weight hperm, hlen]
    unfold clipHW
    split <;> omega
  · intro i hi
    obtain ⟨_, hle, hlow, _⟩ := mapRowsLvl_ok _ qs pol r hm
    rw [hlow i hi]
    have hip : i < pol.length := by omega
    rw [List.getElem?_eq_getElem hip]
    simp only [Option.map_some]
    congr 1
    have hqi := hq (qs.getD i 0) (by rw [getD_of_lt _ _ hi]; exact List.getElem_mem hi)
    exact sparseRow_read_plain _ hqi.1 hqi.2 _ hperm (hrows _ (List.getElem_mem hip)) hbits

/-- non-vacuity: H = 2, N = 4, q = 5; positions 0 and 1 get +1 and −1 -/
example : ternSparse 10 .read false 2 4 [5] [[9, 9, 9, 9]] [0x02, 0, 0, 0, 0, 0, 0, 0, 0] =
    .ok ([[1, 0, 0, 4]], []) := by decide +kernel

/-- each row therefore has exactly `min(H, N)` non-zero coefficients -/
theorem sparse_weight_rows (fuel hw N : Nat) (qs : List Nat) (pol r : Poly) (s s' : Bytes)
    (hq : ∀ q ∈ qs, 2 ≤ q ∧ q < W) (hrows : ∀ row ∈ pol, row.length = N)
    (h : ternSparse fuel .read false hw N qs pol s = .ok (r, s')) :
    ∀ i row, i < qs.length → r[i]? = some row → row.countP (fun c => c ≠ 0) = min hw N := by
  obtain ⟨x, _, hsup, hw', hrowsx⟩ := sparse_weight fuel hw N qs pol r s s' hq hrows h
  intro i row hi hrow
  rw [hrowsx i hi] at hrow
  injection hrow with hrow
  subst hrow
  rw [List.countP_map, ← hw']
  have hqi := hq (qs.getD i 0) (by rw [getD_of_lt _ _ hi]; exact List.getElem_mem hi)
  generalize qs.getD i 0 = q at *
  apply List.countP_congr
  intro v hv
  have hqz : (2 : Int) ≤ (q : Int) := by exact_mod_cast hqi.1
  have hm1 : ((-1 : Int) % (q : Int)) = (q : Int) - 1 := by
    have e : (-1 : Int) = ((q : Int) - 1) + (q : Int) * (-1) := by ring
    rw [e, Int.add_mul_emod_self_left]
    exact Int.emod_eq_of_lt (by omega) (by omega)
  have h1 : ((1 : Int) % (q : Int)) = 1 := Int.emod_eq_of_lt (by omega) (by omega)
  rcases hsup v hv with rfl | rfl | rfl
  · have : resOf q (-1) = q - 1 := by unfold resOf; rw [hm1]; omega
    simp only [Function.comp, this]
    simp; omega
  · simp [resOf]
  · have : resOf q 1 = 1 := by unfold resOf; rw [h1]; rfl
    simp only [Function.comp, this]
    simp

/-- **readAndAdd_eq_add_read (fixed weight), FULL STRENGTH** on the patched code (ece109d: the
    unselected positions receive `f(coeff, 0, q)`); before the fix the statement was false (they
    were zeroed). -/
theorem readAndAdd_eq_add_read_sparse (fuel : Nat) (mont : Bool) (hw N : Nat) (qs : List Nat) (pol r : Poly)
    (s s' : Bytes) (hrows : ∀ row ∈ pol, row.length = N)
    (h : ternSparse fuel .read mont hw N qs pol s = .ok (r, s')) :
    ternSparse fuel .readAndAdd mont hw N qs pol s = .ok (addPoly qs pol r, s') := by
  obtain ⟨rbs, s1, sel, rest, h1, h2, _, hperm, _, hm⟩ := ternSparse_ok h
  refine ternSparse_of h1 h2 ?_
  refine mapRowsLvl_add (N := N) _ _ ?_ qs pol r hrows hm
  intro q row hrow
  exact sparseRow_add _ q row hperm hrow

/-- **mont_eq_mform_plain (fixed weight).** -/
theorem mont_eq_mform_plain_sparse (fuel hw N : Nat) (qs : List Nat) (pol r : Poly) (s s' : Bytes)
    (hrows : ∀ row ∈ pol, row.length = N)
    (h : ternSparse fuel .read false hw N qs pol s = .ok (r, s')) :
    ∃ r', mformPoly qs r = .ok r' ∧ ternSparse fuel .read true hw N qs pol s = .ok (r', s') :=
  ternSparse_mont hrows h

/-! ## 5. Gaussian sampler -/

/-- **gauss_bound + rns_consistent + reduced limbs (small-norm path).**  `Read`, plain output, on any
    level view with moduli `0 < q_i < 2^64`, rows of length `N`, any oracle for the `math.Log/Exp`
    branches, any sigma and bound (as float64 values scaled by 2^1074): there is ONE integer vector
    `x` with `|x_k| ≤ round(bound) = uint64(bound + 0.5)` such that row `i` is the REDUCED residue
    vector `x mod q_i` (in particular `−0 ↦ 0` and every limb is `< q_i`, also when
    `round(bound) > q_i`: fixes C17-2). -/
theorem rns_consistent_gauss (orc : Slow) (fuel sigma bound N : Nat) (qs : List Nat) (pol r : Poly)
    (s s' : Bytes) (b b' : Buf) (slow : Bool) (hb : BufInv b) (hpath : isBigPath sigma bound = false)
    (hq : ∀ q ∈ qs, 0 < q ∧ q < W) (hrows : ∀ row ∈ pol, row.length = N)
    (h : gaussReadPlain orc fuel .read sigma bound N qs pol s b = .ok (r, slow, s', b')) :
    ∃ x : List Int, x.length = N ∧ (∀ v ∈ x, v.natAbs ≤ roundBound bound) ∧
      ∀ i, i < qs.length → r[i]? = some (x.map (resOf (qs.getD i 0))) := by
  obtain ⟨cs, hlen, hall, hm, _⟩ := gaussReadPlain_small hb hpath h
  refine ⟨cs.map gaussVal, by simp [hlen], ?_, ?_⟩
  · intro v hv
    obtain ⟨c, hc, rfl⟩ := List.mem_map.mp hv
    obtain ⟨_, hle, _⟩ := hall c hc
    unfold gaussVal
    split <;> simpa using hle
  · intro i hi
    have hqi := hq (qs.getD i 0) (by rw [getD_of_lt _ _ hi]; exact List.getElem_mem hi)
    rw [mapRowsLvl_read_rows (fun q c => gaussLimb q c) cs N qs pol r hrows hlen hm i hi, List.map_map]
    refine congrArg some (List.map_congr_left ?_)
    intro c hc
    exact gaussLimb_spec _ c hqi.1 hqi.2 (hall c hc).1

/-- every limb written by `Read` is reduced -/
theorem gauss_limbs_reduced (orc : Slow) (fuel sigma bound N : Nat) (qs : List Nat) (pol r : Poly)
    (s s' : Bytes) (b b' : Buf) (slow : Bool) (hb : BufInv b) (hpath : isBigPath sigma bound = false)
    (hq : ∀ q ∈ qs, 0 < q ∧ q < W) (hrows : ∀ row ∈ pol, row.length = N)
    (h : gaussReadPlain orc fuel .read sigma bound N qs pol s b = .ok (r, slow, s', b')) :
    ∀ i row, i < qs.length → r[i]? = some row → ∀ c ∈ row, c < qs.getD i 0 := by
  obtain ⟨x, _, _, hx⟩ := rns_consistent_gauss orc fuel sigma bound N qs pol r s s' b b' slow hb hpath hq hrows h
  intro i row hi hrow c hc
  rw [hx i hi] at hrow
  injection hrow with hrow
  subst hrow
  obtain ⟨v, _, rfl⟩ := List.mem_map.mp hc
  have hqi := hq (qs.getD i 0) (by rw [getD_of_lt _ _ hi]; exact List.getElem_mem hi)
  exact resOf_lt _ v hqi.1

/-- non-vacuity (sigma = 3.2, bound = 19.2 as float64 bit patterns; N = 2; q = 257; PRNG word
    `ju = 0x20000000`, sign 0): `x = 2^29 · wn[0] = 0.928…`, `3.2 x = 2.97 ↦ 3`, limb `257 − 3`;
    second word 0 gives `−0 ↦ 0`. -/
example : gaussReadPlain ⟨fun _ _ => none, fun _ _ _ => false⟩ 10 .read
      (SF.ofBits64 4614388178203810202) (SF.ofBits64 4625816062258262835) 2 [257] [[9, 9]]
      ([0, 0, 0, 0x20] ++ List.replicate 1020 0) Buf.new =
    .ok ([[254, 0]], false, [], { data := [0, 0, 0, 0x20] ++ List.replicate 1020 0, ptr := 16 }) := by
  set_option maxRecDepth 100000 in
  set_option exponentiation.threshold 5000 in
  decide +kernel

/-- **gauss_bound (big-number path)**, `sigma > 2^53 ∧ bound > 2^64`: one signed integer vector with
    `|x_k| ≤ ⌊bound⌋` (both signs: fix C17-3), row `i` = `x mod q_i` (Euclidean remainder). -/
theorem gauss_bound_big (orc : Slow) (fuel sigma bound N : Nat) (qs : List Nat) (pol r : Poly)
    (s s' : Bytes) (b b' : Buf) (slow : Bool) (hb : BufInv b) (hpath : isBigPath sigma bound = true)
    (hrows : ∀ row ∈ pol, row.length = N)
    (h : gaussReadPlain orc fuel .read sigma bound N qs pol s b = .ok (r, slow, s', b')) :
    ∃ x : List Int, x.length = N ∧ (∀ v ∈ x, (v.natAbs : Int) ≤ (SF.trunc bound : Int)) ∧
      ∀ i, i < qs.length → r[i]? = some (x.map (resOf (qs.getD i 0))) := by
  obtain ⟨xs, hlen, hall, hm, _⟩ := gaussReadPlain_big hb hpath h
  refine ⟨xs, hlen, hall, ?_⟩
  intro i hi
  exact mapRowsLvl_read_rows (fun q x => gaussLimbBig q x) xs N qs pol r hrows hlen hm i hi

/-- **mont_eq_mform_plain (Gaussian).**  BY CONSTRUCTION (`read` ends with `MForm(pol, pol)`). -/
theorem mont_eq_mform_plain_gauss (orc : Slow) (fuel sigma bound N : Nat) (qs : List Nat) (pol : Poly)
    (s : Bytes) (b : Buf) :
    gaussRead orc fuel .read true sigma bound N qs pol s b =
      (gaussRead orc fuel .read false sigma bound N qs pol s b >>= fun r =>
        mformPoly qs r.1 >>= fun r' => .ok (r', r.2)) := by
  unfold gaussRead
  simp only [if_true, Bool.false_eq_true, if_false]

/-- **readAndAdd_eq_add_read (Gaussian, plain).** -/
theorem readAndAdd_eq_add_read_gauss (orc : Slow) (fuel sigma bound N : Nat) (qs : List Nat) (pol r : Poly)
    (s s' : Bytes) (b b' : Buf) (slow : Bool) (hrows : ∀ row ∈ pol, row.length = N)
    (h : gaussReadPlain orc fuel .read sigma bound N qs pol s b = .ok (r, slow, s', b')) :
    gaussReadPlain orc fuel .readAndAdd sigma bound N qs pol s b = .ok (addPoly qs pol r, slow, s', b') := by
  have hlen : ¬ pol.length < qs.length := by
    intro hl
    unfold gaussReadPlain at h
    obtain ⟨⟨d, s1⟩, _, h⟩ := Res.bind_eq_ok h
    dsimp only at h
    rw [if_pos hl] at h
    split at h <;> (obtain ⟨_, _, h⟩ := Res.bind_eq_ok h; cases h)
  unfold gaussReadPlain at h ⊢
  obtain ⟨⟨d, s1⟩, h1, h⟩ := Res.bind_eq_ok h
  rw [h1]
  simp only [Res.bind_ok]
  dsimp only at h
  rw [if_neg hlen] at h ⊢
  cases hp : isBigPath sigma bound with
  | true =>
    rw [hp] at h
    simp only [if_true] at h ⊢
    obtain ⟨⟨xs, sl2, s2, b2⟩, h2, h⟩ := Res.bind_eq_ok h
    dsimp only at h
    obtain ⟨r1, h3, h⟩ := Res.bind_eq_ok h
    simp only [Res.ok.injEq, Prod.mk.injEq] at h
    obtain ⟨e1, e2, e3, e4⟩ := h
    subst e1; subst e2; subst e3; subst e4
    rw [h2]
    simp only [Res.bind_ok]
    have := mapRowsLvl_add (N := N)
      (fun q row => List.zipWith (fun a x => Mode.read.f a (gaussLimbBig q x) q) row xs)
      (fun q row => List.zipWith (fun a x => Mode.readAndAdd.f a (gaussLimbBig q x) q) row xs)
      (by intro q row _; rw [zipWith_zipWith_left]; rfl) qs pol r1 hrows h3
    rw [this]
    rfl
  | false =>
    rw [hp] at h
    simp only [Bool.false_eq_true, if_false] at h ⊢
    obtain ⟨⟨cs, sl2, s2, b2⟩, h2, h⟩ := Res.bind_eq_ok h
    dsimp only at h
    obtain ⟨r1, h3, h⟩ := Res.bind_eq_ok h
    simp only [Res.ok.injEq, Prod.mk.injEq] at h
    obtain ⟨e1, e2, e3, e4⟩ := h
    subst e1; subst e2; subst e3; subst e4
    rw [h2]
    simp only [Res.bind_ok]
    have := mapRowsLvl_add (N := N)
      (fun q row => List.zipWith (fun a c => Mode.read.f a (gaussLimb q c) q) row cs)
      (fun q row => List.zipWith (fun a c => Mode.readAndAdd.f a (gaussLimb q c) q) row cs)
      (by intro q row _; rw [zipWith_zipWith_left]; rfl) qs pol r1 hrows h3
    rw [this]
    rfl

/-- **readAndAdd (Gaussian, Montgomery).**  BY CONSTRUCTION on the patched code (C17-4):
    `ReadAndAdd(pol)` of a Montgomery sampler is `pol + Read()` with `Read` into a fresh
    polynomial of the view's level (MForm applied to the sample only). -/
theorem readAndAdd_gauss_mont (orc : Slow) (fuel sigma bound N : Nat) (qs : List Nat) (pol : Poly)
    (s : Bytes) (b : Buf) :
    gaussRead orc fuel .readAndAdd true sigma bound N qs pol s b =
      (gaussRead orc fuel .read true sigma bound N qs (zeroPoly qs.length N) s b >>= fun e =>
        addPolyLvl qs pol e.1 >>= fun r => .ok (r, e.2)) := by
  unfold gaussRead
  simp only [if_true]
  cases gaussReadPlain orc fuel .read sigma bound N qs (zeroPoly qs.length N) s b with
  | ok v =>
    simp only [Res.bind_ok]
    cases mformPoly qs v.1 <;> rfl
  | exhausted => rfl
  | panic => rfl

/-! ## 6. The keyed PRNG: state = (key, position) -/

/-- **prng_key_replays (refinement of `Key()`).**  For an arbitrary XOF, after ANY history of the
    generator `p`, `NewKeyedPRNG(p.Key())` produces the stream of `p` from its start, byte for
    byte; in a script, `rekey` (continue with `NewKeyedPRNG(p.Key())`) is indistinguishable from
    `Reset()`.  (This is what the doc comment of `Key()` promises; the tie `C17 prng …` and the
    probes `prng-*` check it on the real generator for `NewPRNG()` and `NewKeyedPRNG(k)`.) -/
theorem prng_key_replays (xof : XOF) (p : PRNG) (n : Nat) (ops : List PRNG.Op) :
    PRNG.stream xof (PRNG.new p.getKey) n = PRNG.stream xof p n ∧
    ((PRNG.new p.getKey).read xof n).1 = PRNG.stream xof p n ∧
    PRNG.run xof p (.rekey :: ops) = PRNG.run xof p (.reset :: ops) :=
  ⟨(PRNG.rekey_replays xof p n).2, (PRNG.rekey_replays xof p n).1, rfl⟩

/-- **prng_reads_are_one_stream.**  Every `Read` returns the next piece `[pos, pos+n)` of the one
    stream determined by the key; the chunking of the reads is irrelevant; `Reset()` restarts it;
    the key is the one given at construction and never changes. -/
theorem prng_reads_are_one_stream (xof : XOF) (p : PRNG) (a b : Nat) (k : Bytes) :
    (p.read xof a).1 = (PRNG.stream xof p (p.pos + a)).drop p.pos ∧
    (p.read xof a).1 ++ ((p.read xof a).2.read xof b).1 = (p.read xof (a + b)).1 ∧
    (p.reset.read xof a).1 = PRNG.stream xof p a ∧
    (PRNG.new k).getKey = k ∧ (p.read xof a).2.getKey = p.getKey ∧ p.reset.getKey = p.getKey :=
  ⟨PRNG.read_eq_stream xof p a, (PRNG.read_read xof p a b).1, PRNG.reset_replays xof p a, rfl, rfl, rfl⟩

/-- a concrete script (XOF = position + first key byte): read 2, read 0, key, read 3, rekey, read 4 -/
example : PRNG.run (fun k i => i + k.getD 0 0) (PRNG.new [7, 9])
      [.read 2, .read 0, .key, .read 3, .rekey, .read 4, .reset, .read 1] =
    [[7, 8], [], [7, 9], [9, 10, 11], [], [7, 8, 9, 10], [], [7]] := by decide

/-! ## 7. Level views see ONE integer vector; exact per-coefficient laws -/

/-- if two polynomials carry the residues of the same integer vector, a view on a prefix of the
    chain (`AtLevel(l)`: `qs.take (l+1)`) has exactly the first limbs of the full sample -/
theorem atLevel_rows_agree (x : List Int) (qs : List Nat) (k : Nat) (r r2 : Poly)
    (h1 : ∀ i, i < qs.length → r[i]? = some (x.map (resOf (qs.getD i 0))))
    (h2 : ∀ i, i < (qs.take k).length → r2[i]? = some (x.map (resOf ((qs.take k).getD i 0)))) :
    ∀ i, i < min k qs.length → r2[i]? = r[i]? := by
  intro i hi
  have hik : i < (qs.take k).length := by rw [List.length_take]; exact hi
  rw [h1 i (by omega), h2 i hik]
  have : (qs.take k).getD i 0 = qs.getD i 0 := by
    rw [List.getD_eq_getElem?_getD, List.getD_eq_getElem?_getD, List.getElem?_take_of_lt (by omega)]
  rw [this]

/-- **level_view_ternary (density).**  Two `Read`s from the same PRNG state on ANY two views
    (moduli `qs` and `qs₂`, e.g. `qs₂ = qs.take (l+1)`): the SAME integer vector `x ∈ {−1,0,1}^N`
    is reduced modulo each view's moduli, and the same bytes are consumed. -/
theorem level_view_ternary (fuel p N : Nat) (qs qs₂ : List Nat) (pol pol₂ r r₂ : Poly) (s s' s₂ : Bytes)
    (hq : ∀ q ∈ qs, 2 ≤ q ∧ q < W) (hq₂ : ∀ q ∈ qs₂, 2 ≤ q ∧ q < W)
    (hrows : ∀ row ∈ pol, row.length = N) (hrows₂ : ∀ row ∈ pol₂, row.length = N)
    (h : ternProba fuel .read false p N qs pol s = .ok (r, s'))
    (h₂ : ternProba fuel .read false p N qs₂ pol₂ s = .ok (r₂, s₂)) :
    s₂ = s' ∧ ∃ x : List Int, x.length = N ∧ (∀ v ∈ x, v = -1 ∨ v = 0 ∨ v = 1) ∧
      (∀ i, i < qs.length → r[i]? = some (x.map (resOf (qs.getD i 0)))) ∧
      (∀ i, i < qs₂.length → r₂[i]? = some (x.map (resOf (qs₂.getD i 0)))) := by
  obtain ⟨idx, h1, h2⟩ := ternProba_ok h
  obtain ⟨idx₂, h1', h2'⟩ := ternProba_ok h₂
  rw [h1] at h1'
  simp only [Res.ok.injEq, Prod.mk.injEq] at h1'
  obtain ⟨e1, e2⟩ := h1'
  subst e1; subst e2
  obtain ⟨hlen, hidx⟩ := probaIdx_ok rfl h1
  refine ⟨rfl, idx.map ternVal, by simp [hlen], ?_,
    ternApply_read_plain qs pol r idx N hq hrows hlen hidx h2,
    ternApply_read_plain qs₂ pol₂ r₂ idx N hq₂ hrows₂ hlen hidx h2'⟩
  intro v hv
  obtain ⟨ix, _, rfl⟩ := List.mem_map.mp hv
  exact ternVal_support ix

/-- non-vacuity of `level_view_ternary` / `atLevel_rows_agree`: the same bytes read by a two-modulus
    view and by its level-0 view -/
example :
    ternProba 10 .read false SF.half 8 [5, 7] [List.replicate 8 9, List.replicate 8 9] [0x0f, 0x05] =
      .ok ([[4, 1, 4, 1, 0, 0, 0, 0], [6, 1, 6, 1, 0, 0, 0, 0]], []) ∧
    ternProba 10 .read false SF.half 8 ([5, 7].take 1) [List.replicate 8 9] [0x0f, 0x05] =
      .ok ([[4, 1, 4, 1, 0, 0, 0, 0]], []) := by decide +kernel

/-- the plain rows written by the fixed-weight sampler from a given selection -/
theorem sparse_rows (N : Nat) (qs : List Nat) (pol r : Poly) (sel : List (Nat × Nat)) (rest : List Nat)
    (hq : ∀ q ∈ qs, 2 ≤ q ∧ q < W) (hrows : ∀ row ∈ pol, row.length = N)
    (hperm : (sel.map Prod.fst ++ rest).Perm (List.range N)) (hbits : ∀ pc ∈ sel, pc.2 ≤ 1)
    (hm : mapRowsLvl (fun q row => sparseRow .read (ternLut false q) q sel rest row) qs pol = .ok r) :
    ∀ i, i < qs.length → r[i]? = some ((sparseVec N sel rest).map (resOf (qs.getD i 0))) := by
  intro i hi
  obtain ⟨_, hle, hlow, _⟩ := mapRowsLvl_ok _ qs pol r hm
  rw [hlow i hi]
  have hip : i < pol.length := by omega
  rw [List.getElem?_eq_getElem hip]
  simp only [Option.map_some]
  have hqi := hq (qs.getD i 0) (by rw [getD_of_lt _ _ hi]; exact List.getElem_mem hi)
  exact congrArg some (sparseRow_read_plain _ hqi.1 hqi.2 _ hperm (hrows _ (List.getElem_mem hip)) hbits)

/-- **level_view_sparse (fixed weight).**  Same statement for `Ternary{H}`, with the weight. -/
theorem level_view_sparse (fuel hw N : Nat) (qs qs₂ : List Nat) (pol pol₂ r r₂ : Poly) (s s' s₂ : Bytes)
    (hq : ∀ q ∈ qs, 2 ≤ q ∧ q < W) (hq₂ : ∀ q ∈ qs₂, 2 ≤ q ∧ q < W)
    (hrows : ∀ row ∈ pol, row.length = N) (hrows₂ : ∀ row ∈ pol₂, row.length = N)
    (h : ternSparse fuel .read false hw N qs pol s = .ok (r, s'))
    (h₂ : ternSparse fuel .read false hw N qs₂ pol₂ s = .ok (r₂, s₂)) :
    s₂ = s' ∧ ∃ x : List Int, x.length = N ∧ (∀ v ∈ x, v = -1 ∨ v = 0 ∨ v = 1) ∧
      x.countP (fun v => v ≠ 0) = min hw N ∧
      (∀ i, i < qs.length → r[i]? = some (x.map (resOf (qs.getD i 0)))) ∧
      (∀ i, i < qs₂.length → r₂[i]? = some (x.map (resOf (qs₂.getD i 0)))) := by
  obtain ⟨rbs, s1, sel, rest, h1, h2, hlen, hperm, hbits, hm⟩ := ternSparse_ok h
  obtain ⟨rbs', s1', sel', rest', h1', h2', _, _, _, hm'⟩ := ternSparse_ok h₂
  rw [h1] at h1'
  simp only [Res.ok.injEq, Prod.mk.injEq] at h1'
  obtain ⟨e1, e2⟩ := h1'
  subst e1; subst e2
  rw [h2] at h2'
  simp only [Res.ok.injEq, Prod.mk.injEq] at h2'
  obtain ⟨e1, e2, e3⟩ := h2'
  subst e1; subst e2; subst e3
  refine ⟨rfl, sparseVec N sel rest, by simp [sparseVec], fun v hv => sparseVec_support v hv, ?_,
    sparse_rows N qs pol r sel rest hq hrows hperm hbits hm,
    sparse_rows N qs₂ pol₂ r₂ sel rest hq₂ hrows₂ hperm hbits hm'⟩
  rw [sparseVec_weight hperm, hlen]
  unfold clipHW
  split <;> omega

/-- **level_view_gauss.**  Two `Read`s of a Gaussian sampler from the same PRNG state and buffer on
    any two views: one signed integer vector (`|x_k| ≤ round(bound)` on the small-norm path,
    `|x_k| ≤ ⌊bound⌋` on the big-number path), reduced modulo each view's moduli; same bytes
    consumed, same buffer state, same `slow` flag. -/
theorem level_view_gauss (orc : Slow) (fuel sigma bound N : Nat) (qs qs₂ : List Nat) (pol pol₂ r r₂ : Poly)
    (s s' s₂ : Bytes) (b b' b₂ : Buf) (slow slow₂ : Bool)
    (hq : ∀ q ∈ qs, 0 < q ∧ q < W) (hq₂ : ∀ q ∈ qs₂, 0 < q ∧ q < W)
    (hrows : ∀ row ∈ pol, row.length = N) (hrows₂ : ∀ row ∈ pol₂, row.length = N) (hb : BufInv b)
    (h : gaussReadPlain orc fuel .read sigma bound N qs pol s b = .ok (r, slow, s', b'))
    (h₂ : gaussReadPlain orc fuel .read sigma bound N qs₂ pol₂ s b = .ok (r₂, slow₂, s₂, b₂)) :
    s₂ = s' ∧ b₂ = b' ∧ slow₂ = slow ∧ ∃ x : List Int, x.length = N ∧
      (∀ v ∈ x, (v.natAbs : Int) ≤ (if isBigPath sigma bound then (SF.trunc bound : Int) else (roundBound bound : Int))) ∧
      (∀ i, i < qs.length → r[i]? = some (x.map (resOf (qs.getD i 0)))) ∧
      (∀ i, i < qs₂.length → r₂[i]? = some (x.map (resOf (qs₂.getD i 0)))) := by
  cases hp : isBigPath sigma bound with
  | true =>
    obtain ⟨d, s1, xs, h1, h2, h3⟩ := gaussReadPlain_big_ok hp h
    obtain ⟨d', s1', xs', h1', h2', h3'⟩ := gaussReadPlain_big_ok hp h₂
    rw [h1] at h1'
    simp only [Res.ok.injEq, Prod.mk.injEq] at h1'
    obtain ⟨e1, e2⟩ := h1'
    subst e1; subst e2
    rw [h2] at h2'
    simp only [Res.ok.injEq, Prod.mk.injEq] at h2'
    obtain ⟨e1, e2, e3, e4⟩ := h2'
    subst e1; subst e2; subst e3; subst e4
    have hlen : xs.length = N := by
      obtain ⟨_, _, _, _, hl⟩ := prngRead_ok h1
      unfold gaussBig at h2
      exact (gaussVec_ok (gaussCoeffBig orc sigma (SF.trunc bound) fuel) (fun _ => True)
        (fun sl sl1 s s1 b b1 a hb h => ⟨(gaussCoeffBig_ok orc sigma _ fuel sl sl1 s s1 b b1 a hb h).1, trivial⟩)
        N false _ _ _ _ _ xs (refillKeepPtr_inv hb hl) h2).2.1
    have hall : ∀ x ∈ xs, (x.natAbs : Int) ≤ (SF.trunc bound : Int) := by
      obtain ⟨_, _, _, _, hl⟩ := prngRead_ok h1
      unfold gaussBig at h2
      exact (gaussVec_ok (gaussCoeffBig orc sigma (SF.trunc bound) fuel)
        (fun x => (x.natAbs : Int) ≤ (SF.trunc bound : Int))
        (fun sl sl1 s s1 b b1 a hb h => gaussCoeffBig_ok orc sigma _ fuel sl sl1 s s1 b b1 a hb h)
        N false _ _ _ _ _ xs (refillKeepPtr_inv hb hl) h2).2.2
    refine ⟨rfl, rfl, rfl, xs, hlen, by simpa using hall, ?_, ?_⟩
    · exact mapRowsLvl_read_rows (fun q x => gaussLimbBig q x) xs N qs pol r hrows hlen h3
    · exact mapRowsLvl_read_rows (fun q x => gaussLimbBig q x) xs N qs₂ pol₂ r₂ hrows₂ hlen h3'
  | false =>
    obtain ⟨d, s1, cs, h1, h2, h3⟩ := gaussReadPlain_small_ok hp h
    obtain ⟨d', s1', cs', h1', h2', h3'⟩ := gaussReadPlain_small_ok hp h₂
    rw [h1] at h1'
    simp only [Res.ok.injEq, Prod.mk.injEq] at h1'
    obtain ⟨e1, e2⟩ := h1'
    subst e1; subst e2
    rw [h2] at h2'
    simp only [Res.ok.injEq, Prod.mk.injEq] at h2'
    obtain ⟨e1, e2, e3, e4⟩ := h2'
    subst e1; subst e2; subst e3; subst e4
    obtain ⟨_, _, _, _, hl⟩ := prngRead_ok h1
    unfold gaussSmall at h2
    obtain ⟨_, hlen, hall⟩ := gaussVec_ok (gaussCoeff orc sigma bound fuel)
      (fun c => c.2 ≤ 1 ∧ c.1 ≤ roundBound bound ∧ c.1 < W)
      (fun sl sl1 s s1 b b1 a hb h => gaussCoeff_ok orc sigma bound fuel sl sl1 s s1 b b1 a hb h)
      N false _ _ _ _ _ cs (refillKeepPtr_inv hb hl) h2
    have rowsOf : ∀ (qs : List Nat) (pol r : Poly), (∀ q ∈ qs, 0 < q ∧ q < W) →
        (∀ row ∈ pol, row.length = N) →
        mapRowsLvl (fun q row => List.zipWith (fun a c => Mode.read.f a (gaussLimb q c) q) row cs) qs pol = .ok r →
        ∀ i, i < qs.length → r[i]? = some ((cs.map gaussVal).map (resOf (qs.getD i 0))) := by
      intro qs pol r hq hrows hm i hi
      have hqi := hq (qs.getD i 0) (by rw [getD_of_lt _ _ hi]; exact List.getElem_mem hi)
      rw [mapRowsLvl_read_rows (fun q c => gaussLimb q c) cs N qs pol r hrows hlen hm i hi, List.map_map]
      refine congrArg some (List.map_congr_left ?_)
      intro c hc
      exact gaussLimb_spec _ c hqi.1 hqi.2 (hall c hc).1
    refine ⟨rfl, rfl, rfl, cs.map gaussVal, by simp [hlen], ?_, rowsOf qs pol r hq hrows h3,
      rowsOf qs₂ pol₂ r₂ hq₂ hrows₂ h3'⟩
    intro v hv
    obtain ⟨c, hc, rfl⟩ := List.mem_map.mp hv
    obtain ⟨_, hle, _⟩ := hall c hc
    simp only [Bool.false_eq_true, if_false]
    unfold gaussVal
    split <;> (simp; exact_mod_cast hle)

/-- non-vacuity of `level_view_gauss`: the bytes of the example above read by a two-modulus view -/
example : gaussReadPlain ⟨fun _ _ => none, fun _ _ _ => false⟩ 10 .read
      (SF.ofBits64 4614388178203810202) (SF.ofBits64 4625816062258262835) 2 [257, 769] [[9, 9], [9, 9]]
      ([0, 0, 0, 0x20] ++ List.replicate 1020 0) Buf.new =
    .ok ([[254, 0], [766, 0]], false, [], { data := [0, 0, 0, 0x20] ++ List.replicate 1020 0, ptr := 16 }) := by
  set_option maxRecDepth 100000 in
  set_option exponentiation.threshold 5000 in
  decide +kernel

/-- **gauss_no_stale_bytes.**  `read` refills the buffer first: the call is a function of the PRNG
    bytes and of the buffer POINTER only, never of bytes left in the buffer by earlier calls. -/
theorem gauss_no_stale_bytes (orc : Slow) (fuel : Nat) (m : Mode) (sigma bound N : Nat)
    (qs : List Nat) (pol : Poly) (s : Bytes) (b₁ b₂ : Buf) (hptr : b₁.ptr = b₂.ptr) :
    gaussReadPlain orc fuel m sigma bound N qs pol s b₁ =
      gaussReadPlain orc fuel m sigma bound N qs pol s b₂ :=
  gaussReadPlain_old_buffer_irrelevant orc fuel m sigma bound N qs pol s b₁ b₂ hptr

/-- **sparse_signs_are_stream_bits.**  `Ternary{H}`, for every `H` (no wrap at 256 or anywhere):
    the call first reads `⌈min(H,N)/8⌉` sign bytes; the `t`-th selected position `p_t` gets the sign
    given by bit `t` (LSB first) of those bytes: `x[p_t] = +1` if the bit is 0, `−1` if it is 1;
    the positions are pairwise distinct and there are `min(H, N)` of them. -/
theorem sparse_signs_are_stream_bits (fuel hw N : Nat) (m : Mode) (mont : Bool) (qs : List Nat) (pol r : Poly)
    (s s' : Bytes) (h : ternSparse fuel m mont hw N qs pol s = .ok (r, s')) :
    ∃ (rbs s1 : Bytes) (sel : List (Nat × Nat)) (rest : List Nat),
      prngRead s ((min hw N + 7) / 8) = .ok (rbs, s1) ∧ sel.length = min hw N ∧
      (sel.map Prod.fst).Nodup ∧
      mapRowsLvl (fun q row => sparseRow m (ternLut mont q) q sel rest row) qs pol = .ok r ∧
      ∀ t (ht : t < sel.length), (sel[t]).1 < N ∧ (sel[t]).2 = bitAt rbs t ∧
        (sparseVec N sel rest).getD (sel[t]).1 0 = (if bitAt rbs t = 0 then 1 else -1) := by
  obtain ⟨rbs, s1, sel, rest, h1, h2, hlen, hperm, _, hm⟩ := ternSparse_ok h
  have hclip : clipHW hw N = min hw N := by unfold clipHW; split <;> omega
  rw [hclip] at h1 hlen
  have hnd := sparseOps_nodup hperm
  have hnd' : (sel.map Prod.fst).Nodup := by
    have := hperm.nodup_iff.mpr List.nodup_range
    exact (List.nodup_append.mp this).1
  refine ⟨rbs, s1, sel, rest, h1, hlen, hnd', hm, ?_⟩
  intro t ht
  have hsign := sparseLoop_signs fuel N _ 0 _ rbs s1 sel rest s' h2 t ht
  simp only [Nat.zero_mod, Nat.zero_add] at hsign
  have hmem : (sel[t]).1 ∈ sel.map Prod.fst ++ rest :=
    List.mem_append_left _ (List.mem_map_of_mem (List.getElem_mem ht))
  have hpN : (sel[t]).1 < N := List.mem_range.mp (hperm.mem_iff.mp hmem)
  refine ⟨hpN, hsign, ?_⟩
  have hop : ((sel[t]).1, some (sel[t]).2) ∈ sparseOps sel rest := by
    unfold sparseOps
    exact List.mem_append_left _ (List.mem_map.mpr ⟨sel[t], List.getElem_mem ht, rfl⟩)
  have hfind := find_self _ _ hnd hop
  have hget : (sparseVec N sel rest).getD (sel[t]).1 0 = sparseVal sel rest (sel[t]).1 := by
    unfold sparseVec
    rw [List.getD_eq_getElem?_getD, List.getElem?_map, List.getElem?_range hpN]
    rfl
  rw [hget]
  unfold sparseVal
  rw [hfind, hsign]

/-- non-vacuity / instance: H = 3, N = 4, sign byte `0b101`: positions 0, 3, 2 get −1, +1, −1 -/
example : ternSparse 10 .read false 3 4 [5] [[9, 9, 9, 9]] ([0x05] ++ List.replicate 12 0) =
    .ok ([[4, 0, 4, 1]], []) := by decide +kernel

/-- **ternary_half_exact (`P = 0.5`).**  The call reads `N/8` coefficient bytes then `N/8` sign
    bytes and coefficient `i` is the fixed function `ternIndex` of bit `i` of each: distinct
    coefficients use distinct bits, and of the four bit pairs two give 0, one +1, one −1
    (`ternIndex_table`) — i.e. over uniform bits each coefficient is 0, +1, −1 with probability
    exactly 1/2, 1/4, 1/4, independently. -/
theorem ternary_half_exact (fuel N : Nat) (m : Mode) (mont : Bool) (qs : List Nat) (pol r : Poly) (s s' : Bytes)
    (h : ternProba fuel m mont SF.half N qs pol s = .ok (r, s')) :
    ∃ cb sb : Bytes, cb.length = N / 8 ∧ sb.length = N / 8 ∧ s = cb ++ sb ++ s' ∧
      ternApply m mont qs pol ((List.range N).map fun i => ternIndex (bitAt cb i) (bitAt sb i)) = .ok r ∧
      (ternVal (ternIndex 0 0) = 0 ∧ ternVal (ternIndex 0 1) = 0 ∧
       ternVal (ternIndex 1 0) = 1 ∧ ternVal (ternIndex 1 1) = -1) := by
  obtain ⟨idx, h1, h2⟩ := ternProba_ok h
  unfold probaIdx at h1
  rw [if_pos rfl] at h1
  obtain ⟨cb, sb, hc, hs, hsplit, hidx⟩ := probaHalfIdx_spec h1
  subst hidx
  exact ⟨cb, sb, hc, hs, hsplit, h2, ternIndex_table⟩

end Lattigo.C17

#print axioms Lattigo.C17.uniform_range
#print axioms Lattigo.C17.uniform_range_readAndAdd
#print axioms Lattigo.C17.uniform_consumes
#print axioms Lattigo.C17.accept_fibre_card
#print axioms Lattigo.C17.readAndAdd_eq_add_read_uniform
#print axioms Lattigo.C17.interleaving
#print axioms Lattigo.C17.determinism
#print axioms Lattigo.C17.rns_consistent_ternary
#print axioms Lattigo.C17.readAndAdd_eq_add_read_ternary
#print axioms Lattigo.C17.mont_eq_mform_plain_ternary
#print axioms Lattigo.C17.ky_sign_bit_reused
#print axioms Lattigo.C17.sparse_weight
#print axioms Lattigo.C17.sparse_weight_rows
#print axioms Lattigo.C17.readAndAdd_eq_add_read_sparse
#print axioms Lattigo.C17.mont_eq_mform_plain_sparse
#print axioms Lattigo.C17.rns_consistent_gauss
#print axioms Lattigo.C17.gauss_limbs_reduced
#print axioms Lattigo.C17.gauss_bound_big
#print axioms Lattigo.C17.mont_eq_mform_plain_gauss
#print axioms Lattigo.C17.readAndAdd_eq_add_read_gauss
#print axioms Lattigo.C17.readAndAdd_gauss_mont
#print axioms Lattigo.C17.prng_key_replays
#print axioms Lattigo.C17.prng_reads_are_one_stream
#print axioms Lattigo.C17.atLevel_rows_agree
#print axioms Lattigo.C17.level_view_ternary
#print axioms Lattigo.C17.level_view_sparse
#print axioms Lattigo.C17.level_view_gauss
#print axioms Lattigo.C17.gauss_no_stale_bytes
#print axioms Lattigo.C17.sparse_signs_are_stream_bits
#print axioms Lattigo.C17.ternary_half_exact
