/-
  C08 — serialization is faithful, size-exact, stream-composable and fails cleanly.

  All statements are about the definitions of `Lattigo/Model/Codec.lean` that the driver executes
  (`enc`, `size`, `marshalBinary`, `dec`, `decC`, `decS`, `decMany`, `decInto`, `allocs`, `goFields`),
  for EVERY format `f : Fmt` (structural induction), hence for every serialisable lattigo type
  (`goTypes`, 34 Go types, all the types of /repo that have `WriteTo`/`ReadFrom`) and every value,
  of any size. The model follows /repo HEAD (fixes C08-A … C08-V committed); the tie lines
  (`enc size marshal dec decc many into fields`) check on every run that it does.

  PROVED FOR ALL INPUTS, by clause of the property text
    "exactly the announced number of bytes"
      size_exact, size_exact_wt      `BinarySize()` = bytes `WriteTo` writes, for every value that has
                                     the shape of its type (any combination of optional fields)
      marshal_binary_exact           `MarshalBinary` = those same bytes, `BinarySize()` of them
    "identical through every writing entry point"
      (the model has ONE encoder; that the entry points agree is probed: `writers_agree`,
       `window_write`, `writer_fails`; `marshal` is tied)
    "reading back reproduces the object and consumes exactly the bytes written; back-to-back"
      roundtrip, back_to_back        exact consumption, k objects on one stream
      signed_byte_roundtrip, signed_byte_range, signed_field_roundtrip   `LogDimensions`
    "into a fresh object or into one that previously held any other value"
      recv_indep                     for every lattigo type, every prior state of the receiver
      recv_indep_clean, recv_indep_fresh
    "does not depend on how the transport fragments the byte stream"
      short_count_indep              a transport returning ARBITRARY short counts (io.Reader
                                     contract) read through `io.ReadFull` loops: same value, same
                                     remainder, whatever the counts
      short_count_roundtrip          … and exactly `size f v` = `BinarySize()` bytes are consumed
      chunk_indep, chunked_roundtrip the same for the byte-wise read-full reader
      single_read_counterexample     the hypothesis "every block is read with a read-full loop" is
                                     needed: one `Read` per block decodes 258 or 2 from the same bytes
    "a stream that ends early … results in an error, never a partial object"
      trunc_err                      no proper prefix of an encoding is accepted
    "corrupted length field … never an unbounded allocation"
      bounded_alloc                  on EVERY input, requests ≤ max(input length, 2^20), for the
                                     reader that knows its unread bytes (`UnmarshalBinary`)
      bounded_alloc_honest           the checks never reject an honest input
    completeness of the codec list
      codec_fields_complete          every serialisable Go type has a format, and its declared field
                                     list has exactly one Go field per value-carrying leaf of the
                                     format; the tie `fields` compares that list with Go reflection
    enc_bytes                        encodings are byte strings

  HYPOTHESES THE PROOFS FORCE, and the known findings behind them
    * `Shape`/`WT` ask opaque blocks to have the announced width. `rlwe.Scale` prints its numbers
      with `Text('e', 39)`, 45 characters only while the decimal exponent has two digits:
      KNOWN FINDING `C08/rlwe.Scale.BinarySize/assumes-two-digit-exponent`.
    * `WT` asks signed byte fields to be in [-128, 127] and block lengths ≤ 2^20: outside, the
      real encoders now return an error (fixes C08-U/V/C); the model's `enc` is only specified on `WT`.
    * `bounded_alloc` is about the reader that knows how many bytes are left; on a `bufio.Reader`
      a count cannot be checked before `make`:
      KNOWN FINDING `C08/structs.Vector.ReadFrom/unchecked-length`.

  TIED ONLY (model = code on the explored inputs): the byte layouts themselves (`enc`/`dec` of each
  format against `WriteTo`/`ReadFrom`), `size` against `BinarySize`, `decInto` against decoding into
  dirty receivers, `goFields` against reflection.
  PROBED ONLY (no model): bufio internals and reader buffer sizes (`reader_size`), `buffer.Buffer`
  windows (`window_write`), writer failures, panics/crashes on corrupted headers (`corrupt_length`),
  the JSON-only types (scheme `Parameters`, bootstrapping/mod1/dft literals), `math/big` number texts.
  NOT COVERED: `ReadFrom` on a plain `io.Reader` wraps a private `bufio.Reader` and reads ahead
  (documented by the library; KNOWN FINDING
  `C08/ReadFrom(io.Reader)/private-bufio-overreads-next-object`): exact reader position afterwards
  holds for `buffer.Reader`s only.
-/
import Lattigo.Proofs.Codec
import Lattigo.Proofs.CodecRecv
import Lattigo.Proofs.CodecAlloc
import Lattigo.Proofs.CodecStream

namespace Lattigo.C08
open Lattigo.Codec

/-! ### a small, concrete ciphertext (non-vacuity witness for every theorem below) -/

/-- the 45-character text `big.Float.Text('e', 39)` prints for 0 -/
def zeroText : Val := .bytes (strBytes "0.000000000000000000000000000000000000000e+00")
/-- metadata `Scale = (0, mod 0)`, `IsBatched`, `LogDimensions = (-1, 3)`, `IsNTT` -/
def metaEx : Val :=
  .pair (.pair (.pair zeroText zeroText) (.pair (.num 1) (.pair (.num 0) (.pair (.int (-1)) (.int 3)))))
    (.pair (.num 1) (.num 0))
/-- a degree-1 ciphertext at level 0 over `N = 2` with metadata -/
def ctEx : Val :=
  .pair (.some metaEx)
    (.list [.list [.list [.num 5, .num 18446744073709551615]], .list [.list [.num 0, .num 7]]])

theorem ctEx_wt : WT ciphertext ctEx := wtb_sound _ _ (by decide)

/-- a key of degree 1 (two polynomials per entry) that still carries a seed: what
    `EvaluationKey.Expand` used to leave behind; not `WT` but `Shape`d. -/
def expandedKeyEx : Val :=
  .pair (.pair (.num 0) (.list [.list [.list [.pair (.list []) (.list []), .pair (.list []) (.list [])]]]))
    (.some (.bytes (List.replicate 32 7)))

/-- a plain (degree 1) key without seed, empty polynomials -/
def plainKeyEx : Val :=
  .pair (.pair (.num 0) (.list [.list [.list [.pair (.list []) (.list []), .pair (.list []) (.list [])]]]))
    .none

/-- a ciphertext without metadata, `N = 1` -/
def ctNoMeta : Val := .pair .none (.list [.list [.list [.num 4]]])

/-! ### size -/

/-- **size_exact.** `WriteTo` writes exactly `BinarySize()` bytes, for every value that has the
    shape of its type: no range condition, any combination of optional fields. -/
theorem size_exact (f : Fmt) (v : Val) (h : Shape f v) : (enc f v).length = size f v :=
  size_exact_shape f v h

/-- `size_exact` for well-typed values. -/
theorem size_exact_wt (f : Fmt) (v : Val) (h : WT f v) : (enc f v).length = size f v :=
  Codec.size_exact f v h

example : (enc ciphertext ctEx).length = size ciphertext ctEx := size_exact_wt _ _ ctEx_wt
example : size ciphertext ctEx = 1 + 277 + 8 + 2 * (8 + (8 + 2 * 8)) := by decide

/-- the expanded key that still carries a seed (the former counterexample: `BinarySize` used
    to announce 32 bytes more than `WriteTo` wrote) is covered: it is not well-typed … -/
example : ¬ WT evalKey expandedKeyEx := by
  intro h
  simp only [evalKey, WT] at h
  obtain ⟨x, y, hv, _, hy⟩ := h
  simp only [expandedKeyEx, Val.pair.injEq] at hv
  obtain ⟨hx, hy'⟩ := hv
  subst hx; subst hy'
  rcases hy with ⟨hp, _⟩ | ⟨_, hn⟩
  · exact absurd hp (by decide)
  · exact absurd hn (by simp)

/-- … but it has the shape of a key, and its announced size is what is written. -/
example : (enc evalKey expandedKeyEx).length = size evalKey expandedKeyEx :=
  size_exact evalKey expandedKeyEx (by
    refine ⟨_, _, rfl, ?_, Or.inr ⟨_, rfl, ⟨_, rfl, by decide⟩⟩⟩
    refine ⟨_, _, rfl, ⟨_, rfl⟩, ⟨_, rfl, ?_⟩⟩
    intro r hr; simp only [List.mem_singleton] at hr; subst hr
    refine ⟨_, rfl, ?_⟩
    intro c hc; simp only [List.mem_singleton] at hc; subst hc
    refine ⟨_, rfl, ?_⟩
    intro q hq
    simp only [List.mem_cons, List.not_mem_nil, or_false, or_self] at hq; subst hq
    exact ⟨_, _, rfl, ⟨[], rfl, by simp⟩, ⟨[], rfl, by simp⟩⟩)

/-! ### round trip, exact consumption, several objects on one stream -/

/-- **roundtrip.** Decoding the encoding of `v` followed by any bytes `rest` gives back `v`
    and leaves exactly `rest`. -/
theorem roundtrip (f : Fmt) (v : Val) (rest : List Nat) (h : WT f v) :
    dec f (enc f v ++ rest) = some (v, rest) :=
  Codec.roundtrip f v rest h

example : dec ciphertext (enc ciphertext ctEx ++ [1, 2, 3]) = some (ctEx, [1, 2, 3]) :=
  roundtrip _ _ _ ctEx_wt

/-- **back_to_back.** Any number of objects written one after the other are read back one
    after the other, in order, consuming exactly what was written. -/
theorem back_to_back (f : Fmt) (vs : List Val) (rest : List Nat) (h : ∀ v ∈ vs, WT f v) :
    decMany f vs.length ((vs.map (enc f)).flatten ++ rest) = some (vs, rest) :=
  decN_flatten (dec f) (enc f) vs (fun x hx r => Codec.roundtrip f x r (h x hx)) rest

example : decMany ciphertext 3 (enc ciphertext ctEx ++ enc ciphertext ctEx ++ enc ciphertext ctEx)
    = some ([ctEx, ctEx, ctEx], []) := by
  have := back_to_back ciphertext [ctEx, ctEx, ctEx] [] (by
    intro v hv; simp at hv; subst hv; exact ctEx_wt)
  simpa using this

/-! ### truncation -/

/-- **trunc_err.** Every proper prefix of an encoding is rejected: never a partial object. -/
theorem trunc_err (f : Fmt) (v : Val) (k : Nat) (h : WT f v) (hk : k < (enc f v).length) :
    dec f ((enc f v).take k) = none :=
  Codec.trunc_err f v k h hk

example : dec ciphertext ((enc ciphertext ctEx).take 300) = none :=
  trunc_err _ _ _ ctEx_wt (by rw [Codec.size_exact _ _ ctEx_wt]; decide)

/-! ### the transport may fragment the stream -/

/-- **chunk_indep.** The decoded value and the unread remainder depend only on the
    concatenation of the chunks. -/
theorem chunk_indep (f : Fmt) (cs₁ cs₂ : List (List Nat)) (h : cs₁.flatten = cs₂.flatten) :
    (decC f cs₁).map (fun p => (p.1, p.2.flatten)) = (decC f cs₂).map (fun p => (p.1, p.2.flatten)) := by
  rw [decC_eq_dec, decC_eq_dec, h]

/-- **chunked_roundtrip.** However `enc f v ++ rest` is cut into chunks, the chunked decoder
    returns `v` and a remainder whose concatenation is `rest`. -/
theorem chunked_roundtrip (f : Fmt) (v : Val) (rest : List Nat) (cs : List (List Nat))
    (h : WT f v) (hcs : cs.flatten = enc f v ++ rest) :
    (decC f cs).map (fun p => (p.1, p.2.flatten)) = some (v, rest) := by
  rw [decC_eq_dec, hcs, Codec.roundtrip f v rest h]

example : (decC u64 [[1], [], [0, 0], [0, 0, 0, 0, 0, 9]]).map (fun p => (p.1, p.2.flatten))
    = some (.num 1, [9]) :=
  chunked_roundtrip u64 (.num 1) [9] _ (by simp [u64, WT]) (by decide)

/-! ### a transport that returns short counts -/

/-- **short_count_indep.** `decS` reads every fixed-width block with an `io.ReadFull` loop over a
    transport that returns arbitrary short counts (`readOnce`; `readFullLoop_step`). Whatever the
    counts — two deliveries `cs₁`, `cs₂` of the same bytes — the decoded value and the unread
    remainder are the same, and they are what the flat decoder gives on the bytes. -/
theorem short_count_indep (f : Fmt) (cs₁ cs₂ : List (List Nat)) (h : cs₁.flatten = cs₂.flatten) :
    (decS f cs₁).map (fun p => (p.1, p.2.flatten)) = (decS f cs₂).map (fun p => (p.1, p.2.flatten)) ∧
    (decS f cs₁).map (fun p => (p.1, p.2.flatten)) = dec f cs₁.flatten := by
  rw [decS_eq_dec, decS_eq_dec, h]; exact ⟨rfl, rfl⟩

/-- **short_count_roundtrip.** However the transport cuts `enc f v ++ rest`, the decoder returns
    `v`, leaves exactly `rest` unread, and has consumed exactly `size f v` (`BinarySize()`) bytes. -/
theorem short_count_roundtrip (f : Fmt) (v : Val) (rest : List Nat) (cs : List (List Nat))
    (h : WT f v) (hcs : cs.flatten = enc f v ++ rest) :
    ∃ cs', decS f cs = some (v, cs') ∧ cs'.flatten = rest ∧
      cs.flatten.length - cs'.flatten.length = size f v := by
  have h1 := decS_eq_dec f cs
  rw [hcs, Codec.roundtrip f v rest h] at h1
  cases hd : decS f cs with
  | none => rw [hd] at h1; simp at h1
  | some p =>
    obtain ⟨v', cs'⟩ := p
    rw [hd] at h1
    simp only [Option.map_some, Option.some.injEq, Prod.mk.injEq] at h1
    refine ⟨cs', by rw [h1.1], h1.2, ?_⟩
    rw [hcs, h1.2, List.length_append, Codec.size_exact f v h]; omega

theorem flatten_singletons (l : List Nat) : (l.map fun b => [b]).flatten = l := by
  induction l with
  | nil => rfl
  | cons b l ih => simp [ih]

/-- delivered one byte at a time -/
example : ∃ cs', decS ciphertext ((enc ciphertext ctEx).map fun b => [b]) = some (ctEx, cs') ∧
    cs'.flatten = [] ∧
    ((enc ciphertext ctEx).map fun b => [b]).flatten.length - cs'.flatten.length = size ciphertext ctEx :=
  short_count_roundtrip ciphertext ctEx [] _ ctEx_wt (by rw [flatten_singletons]; simp)

/-- **single_read_counterexample.** The read-full loop is necessary: a decoder that issues ONE
    `Read` per block and does not look at the count (`readSingle`; what `MetaData.ReadFrom`,
    `Parameters.ReadFrom` did before C08-B/C and `buffer.ReadUint8Slice` still does, finding
    `C08/buffer.ReadUint8Slice/single-Read-call-short-read`) decodes the same two bytes to 258 or to
    2 depending on how they are delivered. -/
theorem single_read_counterexample :
    [[2, 1]].flatten = [[2], [1]].flatten ∧
    (decG readSingle u16 [[2, 1]]).map (fun p => p.1) = some (.num 258) ∧
    (decG readSingle u16 [[2], [1]]).map (fun p => p.1) = some (.num 2) :=
  readSingle_not_independent

/-! ### `MarshalBinary` -/

/-- **marshal_binary_exact.** For every value that has the shape of its type, `MarshalBinary`
    (a buffer of `BinarySize()` bytes filled by `WriteTo`, returned whole) is exactly the bytes
    `WriteTo` writes, and there are `BinarySize()` of them. -/
theorem marshal_binary_exact (f : Fmt) (v : Val) (h : Shape f v) :
    marshalBinary f v = some (enc f v) ∧ (enc f v).length = size f v :=
  marshalBinary_exact f v h

example : marshalBinary ciphertext ctEx = some (enc ciphertext ctEx) :=
  (marshal_binary_exact _ _ (WT_shape _ _ ctEx_wt)).1

/-! ### completeness of the codec list -/

/-- **codec_fields_complete.** Every serialisable Go type (`goTypes`: the 34 types with
    `WriteTo`/`ReadFrom`, incl. the generic containers) has an entry in `goFields` whose format
    exists and whose list of serialised Go fields has exactly one entry per value-carrying leaf of
    that format. The tie `fields` checks on every run that this list, plus the declared derived
    fields, is exactly what Go reflection finds in the type. -/
theorem codec_fields_complete (g : String) (hg : g ∈ goTypes) :
    ∃ ty ser der f, goFields g = some (ty, ser, der) ∧ fmtOf ty = some f ∧ ser.length = leafCount f := by
  have h := fields_complete g hg
  unfold fieldsOK at h
  split at h
  · rename_i ty ser der hgf
    split at h
    · rename_i f hf
      exact ⟨ty, ser, der, f, hgf, hf, by simpa using h⟩
    · simp at h
  · simp at h

example : ∃ ty ser der f, goFields "rlwe.Ciphertext" = some (ty, ser, der) ∧ fmtOf ty = some f ∧
    ser.length = leafCount f := codec_fields_complete _ (by decide)
example : leafCount ciphertext = 9 := by decide

/-! ### encodings are byte strings -/

/-- **enc_bytes.** All entries of an encoding are `< 256` (given byte literals in the format
    and byte blocks in the value). -/
theorem enc_bytes (f : Fmt) (v : Val) (hf : FmtBytes f) (hv : ValBytes f v) : IsBytes (enc f v) :=
  enc_isBytes f v hf hv

/-! ### signed one-byte fields (`PlaintextMetaData.LogDimensions`) -/

/-- **signed_byte_roundtrip.** The convention of the wire format: an `int` in `[-128, 127]` is
    stored as its two's-complement byte (`uint8(z)`) and read back with `int(int8(b))`; this is
    the identity on the whole signed range. -/
theorem signed_byte_roundtrip (z : Int) (h1 : -128 ≤ z) (h2 : z ≤ 127) :
    toByte z < 256 ∧ fromByte (toByte z) = z :=
  ⟨toByte_lt z, fromByte_toByte z h1 h2⟩

/-- **signed_byte_range.** Conversely every byte decodes into `[-128, 127]` and re-encodes to
    itself: the decoder can never produce `256 + v` for a negative `v`. -/
theorem signed_byte_range (n : Nat) (h : n < 256) :
    -128 ≤ fromByte n ∧ fromByte n ≤ 127 ∧ toByte (fromByte n) = n :=
  ⟨(fromByte_range n h).1, (fromByte_range n h).2, toByte_fromByte n h⟩

/-- **signed_field_roundtrip.** The field as it sits on the wire (two hex digits). -/
theorem signed_field_roundtrip (z : Int) (h1 : -128 ≤ z) (h2 : z ≤ 127) (rest : List Nat) :
    dec .shex2 (enc .shex2 (.int z) ++ rest) = some (.int z, rest) :=
  Codec.roundtrip .shex2 (.int z) rest ⟨z, rfl, h1, h2⟩

example : enc .shex2 (.int (-1)) = strBytes "ff" ∧ enc .shex2 (.int (-128)) = strBytes "80" ∧
    enc .shex2 (.int 127) = strBytes "7f" := by decide
example : dec .shex2 (strBytes "ff") = some (.int (-1), []) := by rfl
/-- outside the range the encoder (Go `uint8(z)`) truncates: 200 comes back as -56. This is why
    `WT` asks for `[-128, 127]` (see the probe `byte_field_range`). -/
example : dec .shex2 (enc .shex2 (.int 200)) = some (.int (-56), []) := by rfl

/-! ### allocation -/

/-- **bounded_alloc.** On EVERY input `bs`, every allocation the decoder requests before
    having read the data is at most `max bs.length 2^20` elements (the reader knows how many
    bytes are left: `UnmarshalBinary`, `ReadFrom(*buffer.Buffer)`). -/
theorem bounded_alloc (f : Fmt) (bs : List Nat) : ∀ a ∈ allocs f bs, a ≤ max bs.length blockMax :=
  allocs_bounded f bs

/-- the input that used to make `Vector[uint64].ReadFrom` request 2^40 slots now requests
    nothing (and is rejected). -/
example : allocs (vecOf u64) (leBytes 8 (2 ^ 40)) = [] ∧ dec (vecOf u64) (leBytes 8 (2 ^ 40)) = none := by
  constructor <;> rfl

/-- **bounded_alloc_honest.** The checks never reject an honest input: on the encoding of a
    well-typed value (followed by anything) the requests are exactly the element counts of
    the slices and blocks of the value. -/
theorem bounded_alloc_honest (f : Fmt) (hp : PosElems f) (v : Val) (rest : List Nat) (h : WT f v) :
    allocs f (enc f v ++ rest) = lens f v :=
  allocs_honest f hp v rest h

example : allocs ciphertext (enc ciphertext ctEx) = [2, 1, 2, 1, 2] := by
  rw [← List.append_nil (enc ciphertext ctEx),
    bounded_alloc_honest _ posElems_ciphertext _ _ ctEx_wt]; decide

/-! ### the receiver -/

/-- **recv_indep_fresh.** The decoder run on a freshly allocated object computes `dec`. -/
theorem recv_indep_fresh (f : Fmt) (bs : List Nat) : decInto f .unit bs = dec f bs :=
  decInto_fresh f bs

/-- **recv_indep_clean.** For every format without sticky flags, kept optionals, merging maps
    and kept conditional suffixes, the decoder's result does not depend on the receiver. -/
theorem recv_indep_clean (f : Fmt) (hc : Clean f) (r : Val) (bs : List Nat) :
    decInto f r bs = dec f bs :=
  decInto_clean f hc r bs

/-- **recv_indep.** For every lattigo type, every prior state `r` of the receiving object and
    every input: decoding into the object gives what decoding the bytes alone gives. -/
theorem recv_indep (name : String) (f : Fmt) (hf : fmtOf name = some f) (r : Val) (bs : List Nat) :
    decInto f r bs = dec f bs :=
  decInto_clean f (fmtOf_clean name f hf) r bs

/-- the former counterexamples: flags set in the receiver, stale metadata, stale seed. -/
example : decInto ctMeta (.pair (.num 1) (.num 0)) (enc ctMeta (.pair (.num 0) (.num 0)))
    = some (.pair (.num 0) (.num 0), []) := by rfl
example : decInto ciphertext ctEx (enc ciphertext ctNoMeta) = some (ctNoMeta, []) := by rfl
example : decInto evalKey expandedKeyEx (enc evalKey plainKeyEx) = some (plainKeyEx, []) := by rfl
example : decInto (mapOf u8) (.list [.pair (.num 3) (.num 9)]) (enc (mapOf u8) (.list [.pair (.num 5) (.num 1)]))
    = some (.list [.pair (.num 5) (.num 1)], []) := by rfl
example (r : Val) (bs : List Nat) : decInto ciphertext r bs = dec ciphertext bs :=
  recv_indep "ct" ciphertext rfl r bs

/-- the leaky decoder flavours are still expressible, and they do leak: a `sticky` flag (the
    decoder of `CiphertextMetaData` before fix C08-D) keeps a flag that is set in the receiver. -/
example : decInto (.hex2 .sticky) (.num 1) [48, 48] = some (.num 1, []) ∧
    dec (.hex2 .sticky) [48, 48] = some (.num 0, []) := by constructor <;> rfl

end Lattigo.C08

#print axioms Lattigo.C08.ctEx_wt
#print axioms Lattigo.C08.size_exact
#print axioms Lattigo.C08.size_exact_wt
#print axioms Lattigo.C08.roundtrip
#print axioms Lattigo.C08.back_to_back
#print axioms Lattigo.C08.trunc_err
#print axioms Lattigo.C08.chunk_indep
#print axioms Lattigo.C08.chunked_roundtrip
#print axioms Lattigo.C08.short_count_indep
#print axioms Lattigo.C08.short_count_roundtrip
#print axioms Lattigo.C08.single_read_counterexample
#print axioms Lattigo.C08.marshal_binary_exact
#print axioms Lattigo.C08.codec_fields_complete
#print axioms Lattigo.C08.enc_bytes
#print axioms Lattigo.C08.signed_byte_roundtrip
#print axioms Lattigo.C08.signed_byte_range
#print axioms Lattigo.C08.signed_field_roundtrip
#print axioms Lattigo.C08.bounded_alloc
#print axioms Lattigo.C08.bounded_alloc_honest
#print axioms Lattigo.C08.recv_indep_fresh
#print axioms Lattigo.C08.recv_indep_clean
#print axioms Lattigo.C08.recv_indep
