/-
  C08 — serialization is faithful, size-exact, stream-composable and fails cleanly.

  All statements are about the definitions of `Lattigo/Model/Codec.lean` that the driver
  executes (`enc`, `size`, `dec`, `decC`, `decMany`, `decInto`), for EVERY format `f : Fmt`
  (structural induction), hence for every lattigo type of the table at the end of that file
  (`fmtOf`) — and for every value, of any size.

  Positive theorems (the wire format itself is sound):
    size_exact, roundtrip, back_to_back, trunc_err, chunk_indep, chunked_roundtrip,
    enc_bytes, recv_indep_fresh, recv_indep_clean, bounded_alloc_partial.
  Negative theorems (the Go decoders/sizers as they are written violate the property; each
  has a harness probe exhibiting the same witness on the real code):
    size_exact_counterexample            EvaluationKey.BinarySize after Expand
    recv_indep_counterexample_flags      CiphertextMetaData.UnmarshalJSON never clears flags
    recv_indep_counterexample_metadata   Element.ReadFrom keeps a stale MetaData
    recv_indep_counterexample_seed       EvaluationKey.ReadFrom keeps a stale Seed
    recv_indep_counterexample_map        structs.Map.ReadFrom keeps old entries
    bounded_alloc_counterexample         Vector.ReadFrom allocates what 8 input bytes announce
  What is NOT modelled (tested by probes only): bufio internals / single `Read` calls,
  the unbounded recursion of `buffer.ReadUint64Slice` on a short `buffer.Buffer`, allocation
  from unchecked lengths, `encoding/json` and `math/big` number texts.
-/
import Lattigo.Proofs.Codec
import Lattigo.Proofs.CodecRecv
import Lattigo.Proofs.CodecAlloc

namespace Lattigo.C08
open Lattigo.Codec

/-! ### a small, concrete ciphertext (non-vacuity witness for every theorem below) -/

/-- the 45-character text `big.Float.Text('e', 39)` prints for 0 -/
def zeroText : Val := .bytes (strBytes "0.000000000000000000000000000000000000000e+00")
/-- metadata `Scale = (0, mod 0)`, `IsBatched`, `LogDimensions = (0, 3)`, `IsNTT` -/
def metaEx : Val :=
  .pair (.pair (.pair zeroText zeroText) (.pair (.num 1) (.pair (.num 0) (.pair (.num 0) (.num 3)))))
    (.pair (.num 1) (.num 0))
/-- a degree-1 ciphertext at level 0 over `N = 2` with metadata -/
def ctEx : Val :=
  .pair (.some metaEx)
    (.list [.list [.list [.num 5, .num 18446744073709551615]], .list [.list [.num 0, .num 7]]])

theorem ctEx_wt : WT ciphertext ctEx := wtb_sound _ _ (by decide)

/-! ### size -/

/-- **size_exact.** `WriteTo` writes exactly `BinarySize()` bytes — for well-typed values. -/
theorem size_exact (f : Fmt) (v : Val) (h : WT f v) : (enc f v).length = size f v :=
  Codec.size_exact f v h

example : (enc ciphertext ctEx).length = size ciphertext ctEx := size_exact _ _ ctEx_wt
example : size ciphertext ctEx = 1 + 277 + 8 + 2 * (8 + (8 + 2 * 8)) := by decide

/-- an expanded compressed key: degree 1 (two polynomials per entry) and the seed still set
    (`EvaluationKey.Expand` has a value receiver and never clears `Seed`). -/
def expandedKeyEx : Val :=
  .pair (.pair (.num 0) (.list [.list [.list [.pair (.list []) (.list []), .pair (.list []) (.list [])]]]))
    (.some (.bytes (List.replicate 32 7)))

/-- **size_exact_counterexample.** The hypothesis `WT` of `size_exact` cannot be dropped:
    `EvaluationKey.BinarySize` (core/rlwe/keys.go:425) counts the seed iff `Seed != nil`,
    `EvaluationKey.WriteTo` (keys.go:456) writes it iff the key is compressed. For a key that
    went through `Expand` the announced size is 32 bytes more than what is written. -/
theorem size_exact_counterexample :
    ∃ v, (enc evalKey v).length + 32 = size evalKey v ∧ ¬ WT evalKey v := by
  refine ⟨expandedKeyEx, by decide, ?_⟩
  intro h
  simp only [evalKey, WT] at h
  obtain ⟨x, y, hv, _, hy⟩ := h
  simp only [expandedKeyEx, Val.pair.injEq] at hv
  obtain ⟨hx, hy'⟩ := hv
  subst hx; subst hy'
  rcases hy with ⟨hp, _⟩ | ⟨_, hn⟩
  · exact absurd hp (by decide)
  · exact absurd hn (by simp)

/-! ### round trip, exact consumption, several objects on one stream -/

/-- **roundtrip.** Decoding the encoding of `v` followed by any bytes `rest` gives back `v`
    and leaves exactly `rest`. -/
theorem roundtrip (f : Fmt) (v : Val) (rest : List Nat) (h : WT f v) :
    dec f (enc f v ++ rest) = some (v, rest) :=
  Codec.roundtrip f v rest h

example : dec ciphertext (enc ciphertext ctEx ++ [1, 2, 3]) = some (ctEx, [1, 2, 3]) :=
  roundtrip _ _ _ ctEx_wt

/-- **back_to_back.** Any number of objects written one after the other are read back one
    after the other, in order, consuming exactly what was written. -/
theorem back_to_back (f : Fmt) (vs : List Val) (rest : List Nat) (h : ∀ v ∈ vs, WT f v) :
    decMany f vs.length ((vs.map (enc f)).flatten ++ rest) = some (vs, rest) :=
  decN_flatten (dec f) (enc f) vs (fun x hx r => Codec.roundtrip f x r (h x hx)) rest

example : decMany ciphertext 3 (enc ciphertext ctEx ++ enc ciphertext ctEx ++ enc ciphertext ctEx)
    = some ([ctEx, ctEx, ctEx], []) := by
  have := back_to_back ciphertext [ctEx, ctEx, ctEx] [] (by
    intro v hv; simp at hv; subst hv; exact ctEx_wt)
  simpa using this

/-! ### truncation -/

/-- **trunc_err.** Every proper prefix of an encoding is rejected: never a partial object. -/
theorem trunc_err (f : Fmt) (v : Val) (k : Nat) (h : WT f v) (hk : k < (enc f v).length) :
    dec f ((enc f v).take k) = none :=
  Codec.trunc_err f v k h hk

example : dec ciphertext ((enc ciphertext ctEx).take 300) = none :=
  trunc_err _ _ _ ctEx_wt (by rw [Codec.size_exact _ _ ctEx_wt]; decide)

/-! ### the transport may fragment the stream -/

/-- **chunk_indep.** The decoded value and the unread remainder depend only on the
    concatenation of the chunks. -/
theorem chunk_indep (f : Fmt) (cs₁ cs₂ : List (List Nat)) (h : cs₁.flatten = cs₂.flatten) :
    (decC f cs₁).map (fun p => (p.1, p.2.flatten)) = (decC f cs₂).map (fun p => (p.1, p.2.flatten)) := by
  rw [decC_eq_dec, decC_eq_dec, h]

/-- **chunked_roundtrip.** However `enc f v ++ rest` is cut into chunks, the chunked decoder
    returns `v` and a remainder whose concatenation is `rest`. -/
theorem chunked_roundtrip (f : Fmt) (v : Val) (rest : List Nat) (cs : List (List Nat))
    (h : WT f v) (hcs : cs.flatten = enc f v ++ rest) :
    (decC f cs).map (fun p => (p.1, p.2.flatten)) = some (v, rest) := by
  rw [decC_eq_dec, hcs, Codec.roundtrip f v rest h]

example : (decC u64 [[1], [], [0, 0], [0, 0, 0, 0, 0, 9]]).map (fun p => (p.1, p.2.flatten))
    = some (.num 1, [9]) :=
  chunked_roundtrip u64 (.num 1) [9] _ (by simp [u64, WT]) (by decide)

/-! ### encodings are byte strings -/

/-- **enc_bytes.** All entries of an encoding are `< 256` (given byte literals in the format
    and byte blocks in the value). -/
theorem enc_bytes (f : Fmt) (v : Val) (hf : FmtBytes f) (hv : ValBytes f v) : IsBytes (enc f v) :=
  enc_isBytes f v hf hv

/-! ### allocation -/

/- Full statement wanted by the property: "for EVERY input `bs`, every allocation request of
   the decoder is bounded by a function of `bs.length`". It is false of the code as written
   (`bounded_alloc_counterexample`); what holds is the statement for honest inputs. -/

/-- **bounded_alloc_partial.** On the encoding of a well-typed value (followed by anything)
    the decoder requests exactly the element counts present in the value. Gap to the full
    statement: nothing bounds the requests on other inputs, because the Go code does not
    compare a count with the input that is left before calling `make`. -/
theorem bounded_alloc_partial (f : Fmt) (v : Val) (rest : List Nat) (h : WT f v) :
    allocs f (enc f v ++ rest) = lens f v :=
  allocs_honest f v rest h

example : allocs ciphertext (enc ciphertext ctEx) = [2, 1, 2, 1, 2] := by
  rw [← List.append_nil (enc ciphertext ctEx), bounded_alloc_partial _ _ _ ctEx_wt]; decide

/-- **bounded_alloc_counterexample.** For every `n < 2^64` there is an 8-byte input on which
    the decoder of `structs.Vector[uint64]` (utils/structs/vector.go:177) requests `n`
    elements; the decode then fails (for `n > 0`), after the allocation. -/
theorem bounded_alloc_counterexample (n : Nat) (hn : n < 256 ^ 8) :
    ∃ bs, bs.length = 8 ∧ allocs (vecOf u64) bs = [n] ∧ (0 < n → dec (vecOf u64) bs = none) :=
  ⟨leBytes 8 n, allocs_unchecked n hn⟩

example : ∃ bs, bs.length = 8 ∧ allocs (vecOf u64) bs = [1099511627776] ∧
    (0 < 1099511627776 → dec (vecOf u64) bs = none) :=
  bounded_alloc_counterexample (2 ^ 40) (by decide)

/-! ### the receiver -/

/-- **recv_indep_fresh.** The Go decoder run on a freshly allocated object computes `dec`:
    the specification decoder `dec` takes no receiver, i.e. receiver independence holds of it
    by construction; `decInto` is the model of the decoders as they are written. -/
theorem recv_indep_fresh (f : Fmt) (bs : List Nat) : decInto f .unit bs = dec f bs :=
  decInto_fresh f bs

/-- **recv_indep_clean.** For every format without sticky flags, kept optionals, maps and
    conditional suffixes, the Go decoder's result does not depend on the receiver at all. -/
theorem recv_indep_clean (f : Fmt) (hc : Clean f) (r₁ r₂ : Val) (bs : List Nat) :
    decInto f r₁ bs = decInto f r₂ bs := by
  rw [decInto_clean f hc r₁, decInto_clean f hc r₂]

example (r₁ r₂ : Val) (bs : List Nat) : decInto gadget r₁ bs = decInto gadget r₂ bs :=
  recv_indep_clean gadget clean_gadget r₁ r₂ bs

/-- **recv_indep_counterexample_flags.** `CiphertextMetaData.UnmarshalJSON`
    (core/rlwe/metadata.go:393-403) sets a flag when the input says 1 and does nothing
    otherwise: decoding `IsNTT = 0` into an object whose `IsNTT` is set yields `IsNTT = 1`. -/
theorem recv_indep_counterexample_flags :
    ∃ r bs v v', decInto ctMeta r bs = some (v, []) ∧ dec ctMeta bs = some (v', []) ∧ v ≠ v' :=
  ⟨.pair (.num 1) (.num 0), enc ctMeta (.pair (.num 0) (.num 0)),
   .pair (.num 1) (.num 0), .pair (.num 0) (.num 0), by rfl, by rfl, by simp⟩

/-- a ciphertext without metadata, `N = 1` -/
def ctNoMeta : Val := .pair .none (.list [.list [.list [.num 4]]])

/-- **recv_indep_counterexample_metadata.** `Element.ReadFrom` (core/rlwe/element.go:403)
    only touches `MetaData` when the presence byte is 1: a ciphertext written without
    metadata, read into an object that has metadata, comes back WITH (stale) metadata. -/
theorem recv_indep_counterexample_metadata :
    ∃ r bs v v', decInto ciphertext r bs = some (v, []) ∧ dec ciphertext bs = some (v', []) ∧ v ≠ v' :=
  ⟨ctEx, enc ciphertext ctNoMeta,
   .pair (.some metaEx) (.list [.list [.list [.num 4]]]), ctNoMeta, by rfl, by rfl, by simp [ctNoMeta]⟩

/-- a plain (degree 1) key without seed, empty polynomials -/
def plainKeyEx : Val :=
  .pair (.pair (.num 0) (.list [.list [.list [.pair (.list []) (.list []), .pair (.list []) (.list [])]]]))
    .none

/-- **recv_indep_counterexample_seed.** `EvaluationKey.ReadFrom` (core/rlwe/keys.go:502)
    assigns `Seed` only when the decoded key is compressed: an uncompressed key read into an
    object that held a compressed key keeps that key's seed. -/
theorem recv_indep_counterexample_seed :
    ∃ r bs v v', decInto evalKey r bs = some (v, []) ∧ dec evalKey bs = some (v', []) ∧ v ≠ v' :=
  ⟨expandedKeyEx, enc evalKey plainKeyEx, expandedKeyEx, plainKeyEx, by rfl, by rfl,
   by simp [expandedKeyEx, plainKeyEx]⟩

/-- **recv_indep_counterexample_map.** `structs.Map.ReadFrom` (utils/structs/map.go:104)
    stores the decoded entries into the receiver's map without clearing it. -/
theorem recv_indep_counterexample_map :
    ∃ r bs v v', decInto (mapOf u8) r bs = some (v, []) ∧ dec (mapOf u8) bs = some (v', []) ∧ v ≠ v' :=
  ⟨.list [.pair (.num 3) (.num 9)], enc (mapOf u8) (.list [.pair (.num 5) (.num 1)]),
   .list [.pair (.num 3) (.num 9), .pair (.num 5) (.num 1)], .list [.pair (.num 5) (.num 1)],
   by rfl, by rfl, by simp⟩

end Lattigo.C08

#print axioms Lattigo.C08.ctEx_wt
#print axioms Lattigo.C08.size_exact
#print axioms Lattigo.C08.size_exact_counterexample
#print axioms Lattigo.C08.roundtrip
#print axioms Lattigo.C08.back_to_back
#print axioms Lattigo.C08.trunc_err
#print axioms Lattigo.C08.chunk_indep
#print axioms Lattigo.C08.chunked_roundtrip
#print axioms Lattigo.C08.enc_bytes
#print axioms Lattigo.C08.bounded_alloc_partial
#print axioms Lattigo.C08.bounded_alloc_counterexample
#print axioms Lattigo.C08.recv_indep_fresh
#print axioms Lattigo.C08.recv_indep_clean
#print axioms Lattigo.C08.recv_indep_counterexample_flags
#print axioms Lattigo.C08.recv_indep_counterexample_metadata
#print axioms Lattigo.C08.recv_indep_counterexample_seed
#print axioms Lattigo.C08.recv_indep_counterexample_map
