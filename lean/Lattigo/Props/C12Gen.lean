/-
  Property C12 — the REGENERATED tie for the integer arithmetic under the linear-transformation
  evaluator: the overflow margins of the lazy-accumulation schedule (`Gen/Params.lean`, from
  core/rlwe/params.go) and the index arithmetic of `BSGSIndex` (`Gen/LinTrans.lean`: the first three
  statements of the loop over the non-zero diagonals of circuits/common/lintrans/lintrans.go).
  The driver op `C12 margin` executes the generated `QiOverflowMargin`.

  Since fix c11167e the code computes the margin in `uint64` (`(2^64-1)/max`), which is the model's
  `floor(2^64 / max)` for every odd modulus: `overflowMargin_gen`.  (Before the fix the float formula
  returned `floor + 1` for moduli just above `2^64/k`; see `Props/C19Gen.lean`, `float_margin_not_floor`.)
  `FindBestBSGSRatio` (float ratios, maps) stays hand-modelled.
-/
import Lattigo.Proofs.GenParams
import Lattigo.Proofs.GenLinTrans
import Lattigo.Model.ParamsGen

namespace Lattigo.Props.C12Gen
open Lattigo Lattigo.Gen.Params Lattigo.Proofs.GenParams Lattigo.Model.LinTrans

/-- **the C12 model's margin is the regenerated `QiOverflowMargin`** at the top level of the chain
    `qs`, for every chain whose largest modulus is odd and `> 2` (every chain of primes). -/
theorem overflowMargin_gen (qs : List Nat) (hlen : qs.length < 2 ^ 62)
    (hodd : qs ≠ [] → (qs.foldl max 0) % 2 = 1) (hM : qs ≠ [] → 2 < qs.foldl max 0) :
    i64toInt (QiOverflowMargin qs (qs.length - 1)) = Lazy.overflowMargin qs :=
  overflowMargin_eq qs hlen hodd hM

example : i64toInt (QiOverflowMargin [35184372088673, 1152921504606847009] 1)
    = Lazy.overflowMargin [35184372088673, 1152921504606847009] :=
  overflowMargin_gen _ (by norm_num) (fun _ => by decide) (fun _ => by decide)

/-- without moduli both are `-1`. -/
example : i64toInt (QiOverflowMargin [] (i64ofInt (-1))) = Lazy.overflowMargin [] := by decide

/-- what the driver's `margin` op executes is the model (same hypotheses). -/
theorem marginAll_gen (qs : List Nat) (hlen : qs.length < 2 ^ 62)
    (hodd : qs ≠ [] → (qs.foldl max 0) % 2 = 1) (hM : qs ≠ [] → 2 < qs.foldl max 0) :
    Model.ParamsGen.marginAll qs = Lazy.overflowMargin qs := by
  unfold Model.ParamsGen.marginAll Model.ParamsGen.qiMargin
  rw [i64ofInt_pred qs.length (by omega)]
  by_cases h : qs = []
  · subst h; decide
  · have hl : qs.length ≠ 0 := by simpa using h
    rw [u64sub_small _ _ (by omega) (by unfold W; omega)]
    exact overflowMargin_eq qs hlen hodd hM

/-- **the index arithmetic of `BSGSIndex`, regenerated = model**: for `slots = 2^a`, `N1 = 2^b`
    (`a, b ≤ 62`) and EVERY Go `int` `rot` (negative diagonals included), the three values computed for
    a diagonal are `normIdx`, `giant`, `baby`. -/
theorem bsgsIndex_rot_gen (a b : Nat) (ha : a ≤ 62) (hb : b ≤ 62) (rot : Int) :
    let r := Gen.LinTrans.BSGSIndex_rot (2 ^ a) (2 ^ b) (i64ofInt rot)
    i64toInt r.1 = normIdx (2 ^ a) rot
    ∧ i64toInt r.2.1 = giant (2 ^ a) (2 ^ b) (normIdx (2 ^ a) rot)
    ∧ i64toInt r.2.2 = baby (2 ^ b) (normIdx (2 ^ a) rot) :=
  Proofs.GenLinTrans.BSGSIndex_rot_eq a b ha hb rot

example := bsgsIndex_rot_gen 10 3 (by norm_num) (by norm_num) (-5)
example : Gen.LinTrans.BSGSIndex_rot 1024 8 (i64ofInt (-5)) = (1019, 1016, 3) := by decide

end Lattigo.Props.C12Gen

#print axioms Lattigo.Props.C12Gen.overflowMargin_gen
#print axioms Lattigo.Props.C12Gen.marginAll_gen
#print axioms Lattigo.Props.C12Gen.bsgsIndex_rot_gen
