/-
  C03 — decryption inverts encryption with noise inside a two-sided bound.

  WHAT IS PROVED, for all inputs (theorem names in this file unless a file is given):

  1. Identities, for EVERY commutative ring as carrier, every Montgomery pair, every target of degree ≥ 1 (fresh or
     re-used), every flag / metadata combination, about the functions the driver executes (`Model/RLWE.lean`:
     `ezSk`, `ezPk`, `ezPkNoP` = `EncryptZero` per key kind, `addPtToCt`, `encrypt`, `decrypt`, `genPublicKey`):
     `dec_enc_sk` (+ `dec_enc_sk_denote`: the denoted noise is `e` for both values of `IsMontgomery`), `dec_enc_sk_deg0`
     (compressed target + its expansion with the drawn `a`), `wrong_key` + `unit_mul_bijective`, `genPublicKey_noise`,
     `dec_enc_pk_noP`, `dec_enc_pk_P` (abstract `ext`, `down`, `rem` with `P·down x = π x − π(rem x)`), `pk_deg0_panics`,
     `metadata_eq`, `encrypt_indep_transforms`.
  2. On the carrier the driver executes, standard ring (`RQ` with `ci = false`, plain `RPoly` values; hypotheses: odd
     moduli ≥ 2, well-formed inputs): `Props/C03Ring` (`dec_enc_sk_rpoly/_rq`, `wrong_key_*`, `dec_enc_pk_noP_*`,
     `genPublicKey_noise_rpoly`, `driver_dec_enc_sk`: the driver's `handleEnc`/`handleDec` are these functions after level
     truncation) and `Props/C03Stack` (`dec_enc_pk_P_closed`: `ext = RQ.extSmall`, `down = RQ.modDown`, `rem` = centred
     remainder, rounding identity PROVED; `dec_enc_pk_P_noise_closed`: the decryption error is the reduction of an integer
     polynomial `D` with `2P‖D‖∞ ≤ 2‖u·e_pk + e0 + s·e1‖∞ + P(1 + ‖s‖₁)`).
  3. The same shape for the other two key kinds, here: `dec_enc_sk_noise_closed` (error `e^Z`, `‖e^Z‖∞ ≤ B` comes back
     exactly), `dec_enc_pk_noP_noise_closed` (`‖noise‖∞ ≤ B(‖u‖₁ + 1 + ‖s‖₁)`), `dec_enc_pk_noP_noise_declared` (ternary `u`, `s`
     of Hamming weight `H`: `≤ B(n + 1 + H)`), at every level (= every chain `qs`), degree ≥ 1, metadata.
  4. The hypotheses on the sampled integer vectors DISCHARGED from the sampler models of C17 (tied bit for bit to
     `ring/sampler_*.go`): `dec_enc_sk_gauss_sampled` (error = what `gaussReadPlain` returns for ANY byte stream: noise
     `≤ round(bound)`), `sparse_secret_sampled` (`ternSparse` returns `ofInts` of a ternary vector with `‖·‖₁ = min(H, N)`).
  5. The conjugate-invariant carrier (`ci = true`): `dec_enc_sk_ci`, `dec_enc_pk_noP_ci` (via `Proofs/RLWECI.lean`: the
     product `RQ.ciMul` the driver executes is the product of the subring of `WFPoly qs (2n)` fixed by `X ↦ X⁻¹`,
     `RLWECI.emb_ciRowMul`, `foldC_hom`, `exists_foldC`).
  6. The acceptance rule for the distributions (fix C03-10) as a model function tied to `NewParameters` (`accept` lines):
     `RQ.acceptsBounds`; `RQ.accepted_ext_exact` (accepted ⇒ `extSmall` is exact on every vector within the bounds, every
     level, both ring types), `RQ.extSmall_ofInts`, `RQ.rejected_ext_wrong` (the rule is sharp) — `Proofs/RLWE.lean`.
  7. Norms in `Z[X]/(X^N+1)`: `negacyclic_norm`, `noise_upper_sk`, `noise_upper_pk_noP`, `noise_upper_pk_P`.

  Reading of the flags.  A model value is the stored polynomial pulled back to the coefficient domain with the
  Montgomery factor kept.  `denote M md x` is the polynomial it stands for: `ofM x` iff `md.isMont`.

  The model follows the code after the fixes /verif/fixes/C03-1 … C03-11 (all applied in /repo).  Before them the
  property was false; the probes that exhibited it stay in the harness and must hold (`dec_enc_noise_upper`,
  `encrypt_total`, `decrypt_degree7`, `pt_value_level`, `declared_std`, `error_limbs_consistent`,
  `unextendable_bound_rejected`, `keygen_reused_receiver`, `component_noise_present`, `decrypt_reused_receiver`).

  NOT proved:
  * public-key encryption WITH P on the conjugate-invariant carrier (`ext`/`down` act coefficientwise and
    `RQ.extSmall_ofInts` covers `ci = true`, but `dec_enc_pk_P_closed` is stated for `ci = false` only) and `wrong_key` /
    `genPublicKey` on `ci = true` (same transport as `dec_enc_sk_ci`, not written out);
  * the Gaussian big-number path and `Ternary{P}` secrets are not composed with item 3 (C17 proves their supports;
    only `gaussReadPlain` small path and `ternSparse` are composed here);
  * distributional statements of the property text (empirical standard deviation within a factor of nominal, two
    encryptions differ, wrong-key distance of the order of Q): labelled statistical probes (`noise_std`, `noise_nonzero`,
    `wrong_key_far`), no probability theory here; `wrong_key` gives the algebraic form `e + a(s' − s)` only;
  * `RPoly.toInts` / centred CRT of the driver is not related to `ZPoly` (the closed statements speak of `ofInts`);
  * evaluation-key components (property text: "every evaluation-key component"): C04; here only the probe family
    `keygen_reused_receiver`.
  Known finding (open): `ShallowCopy` of a `WithPRNG` encryptor draws `c1` from a fresh system PRNG (probe
  `shallowcopy_keeps_prng`, key `C03-shallowcopy-drops-prng`); ciphertexts stay valid under the key.
-/
import Lattigo.Proofs.RLWE
import Lattigo.Proofs.RLWENorm
import Lattigo.Props.C03Ring
import Lattigo.Props.C03Stack
import Lattigo.Props.C17
import Lattigo.Proofs.RLWECI
import Mathlib.Data.ZMod.Basic

namespace Lattigo.Props.C03
open Lattigo Lattigo.RLWE

variable {α : Type} [CommRing α] {μ : Type}

/-! ## secret key -/

/-- **dec_enc_sk.** Every target of degree ≥ 1 (fresh or re-used: `o0, o1, rest` arbitrary), every flag
    combination, every plaintext: `Decrypt(Encrypt(pt))` has the plaintext's metadata and the stored value
    `pt.value + e'`, `e' = e` resp. `MForm(e)` when the plaintext is flagged Montgomery — the fresh noise IS the
    sampled error. -/
theorem dec_enc_sk {M : Mont α} {R Rinv : α} (h : IsMont M R Rinv)
    (ntt intt : α → α) (pt : Pt α μ) (ct : Ct α μ) (o0 o1 : α) (rest : List α)
    (hct : ct.value = o0 :: o1 :: rest) (a e s : α) :
    (encrypt (ezSk M a e (M.toM s)) ntt intt (some pt) ct).bind (fun ct' => decrypt M ct' (M.toM s))
      = some { value := pt.value + montIf M pt.md.isMont e, md := pt.md } := by
  have hz := ezSk_degGe1 h pt.md o0 o1 a e s rest
  rw [← hct] at hz
  rw [encrypt_value _ ntt intt pt ct _ _ hz]
  simp only [Option.bind_some]
  rw [decrypt_eq h s _ (by simp)]
  simp only [phase_encSk_tail]

example : IsMont (⟨(· * 2), (· * 4)⟩ : Mont (ZMod 7)) 2 4 := ⟨by decide, fun _ => rfl, fun _ => rfl⟩

/-- **Montgomery flag.** In terms of denoted polynomials the fresh noise is `e` for BOTH values of the flag. -/
theorem dec_enc_sk_denote {M : Mont α} {R Rinv : α} (h : IsMont M R Rinv) (pt : Pt α μ) (e : α) :
    denote M pt.md (pt.value + montIf M pt.md.isMont e) = denote M pt.md pt.value + e := by
  rw [denote_add h, denote_montIf h]

/-- the two degree-2 instances that used to fail, now computed by the model over `Z` (a = s = 1, e = 0, m = 0)
    and over `Z/7` with `R = 2` and the Montgomery flag set (a = 3, s = 1, e = 1: denoted noise 1) -/
example : (encrypt (μ := Unit) (ezSk (⟨id, id⟩ : Mont Int) 1 0 1) id id
      (some ⟨0, ⟨(), false, false⟩⟩) ⟨[0, 0, 0], ⟨(), false, false⟩⟩).bind
    (fun ct' => decrypt ⟨id, id⟩ ct' 1) = some ⟨0, ⟨(), false, false⟩⟩ := by decide

example : (encrypt (μ := Unit) (ezSk (⟨(· * 2), (· * 4)⟩ : Mont (ZMod 7)) 3 1 (1 * 2)) id id
      (some ⟨0, ⟨(), true, true⟩⟩) ⟨[5, 6], ⟨(), false, false⟩⟩).bind
    (fun ct' => decrypt ⟨(· * 2), (· * 4)⟩ ct' (1 * 2)) = some ⟨2, ⟨(), true, true⟩⟩
    ∧ denote (⟨(· * 2), (· * 4)⟩ : Mont (ZMod 7)) (⟨(), true, true⟩ : MetaData Unit) 2 = 1 := by decide

/-- **degree-0 target** (compressed ciphertext, `c1` re-expanded from the PRNG by the receiver):
    the stored `c0` together with the drawn `a` decrypts to `m + e'`. -/
theorem dec_enc_sk_deg0 {M : Mont α} {R Rinv : α} (h : IsMont M R Rinv)
    (ntt intt : α → α) (pt : Pt α μ) (ct : Ct α μ) (o0 : α) (hct : ct.value = [o0]) (a e s : α) :
    ∃ c0, encrypt (ezSk M a e (M.toM s)) ntt intt (some pt) ct = some { value := [c0], md := pt.md } ∧
      decrypt M ({ value := [c0, a], md := pt.md } : Ct α μ) (M.toM s)
        = some { value := pt.value + montIf M pt.md.isMont e, md := pt.md } := by
  have hz := ezSk_deg0 h pt.md o0 a e s
  rw [← hct] at hz
  refine ⟨-(a * s) + montIf M pt.md.isMont e + pt.value, encrypt_value _ ntt intt pt ct _ _ hz, ?_⟩
  rw [decrypt_eq h s _ (by simp)]
  simp only [phase_encSk]

/-- **wrong_key.** Decrypting a fresh sk-ciphertext with another key `s'`: the distance to the plaintext is
    `e' + a·(s' − s)`; `a` is the uniform draw, so for `s' − s` a unit this is a uniform element shifted by `e'`
    (`unit_mul_bijective`). -/
theorem wrong_key {M : Mont α} {R Rinv : α} (h : IsMont M R Rinv)
    (ntt intt : α → α) (pt : Pt α μ) (ct : Ct α μ) (o0 o1 : α) (rest : List α)
    (hct : ct.value = o0 :: o1 :: rest) (a e s s' : α) :
    ∃ out, (encrypt (ezSk M a e (M.toM s)) ntt intt (some pt) ct).bind (fun ct' => decrypt M ct' (M.toM s'))
        = some out ∧ out.value - pt.value = montIf M pt.md.isMont e + a * (s' - s) ∧ out.md = pt.md := by
  have hz := ezSk_degGe1 h pt.md o0 o1 a e s rest
  rw [← hct] at hz
  rw [encrypt_value _ ntt intt pt ct _ _ hz]
  simp only [Option.bind_some]
  rw [decrypt_eq h s' _ (by simp)]
  exact ⟨_, rfl, phase_encSk_wrong_key_tail a _ s s' pt.value rest, rfl⟩

theorem unit_mul_bijective (d : α) (dinv : α) (hd : d * dinv = 1) : Function.Bijective (fun a : α => a * d) := by
  constructor
  · intro x y hxy
    have := congrArg (· * dinv) hxy
    simpa [mul_assoc, hd] using this
  · intro y
    exact ⟨y * dinv, by simp [mul_assoc, mul_comm dinv d, hd]⟩

/-! ## public key -/

/-- **genPublicKey.** The generated key satisfies `pk0 + pk1·s = e` after stripping the Montgomery factor. -/
theorem genPublicKey_noise {β : Type} [CommRing β] {M : Mont β} {R Rinv : β} (h : IsMont M R Rinv)
    (ext : α → β) (a : β) (e : α) (s : β) :
    let pk := genPublicKey M ext a e (M.toM s)
    M.ofM pk.1 + M.ofM pk.2 * s = ext e := genPublicKey_relation h ext a e s

/-- **dec_enc_pk_noP.** No auxiliary modulus, every target of degree ≥ 1 (fresh or re-used), every flag
    combination: stored result `m + N` resp. `m + MForm(N)`, `N = u·e_pk + e0 + e1·s`, where `pk0 + pk1·s = e_pk`;
    denoted noise `N` for both values of the Montgomery flag (`dec_enc_pk_denote`). -/
theorem dec_enc_pk_noP {M : Mont α} {R Rinv : α} (h : IsMont M R Rinv)
    (ntt intt : α → α) (pt : Pt α μ) (ct : Ct α μ) (o0 o1 : α) (rest : List α)
    (hct : ct.value = o0 :: o1 :: rest) (u e0 e1 pk0 pk1 epk s : α) (hpk : pk0 + pk1 * s = epk) :
    (encrypt (ezPkNoP M u e0 e1 (M.toM pk0) (M.toM pk1)) ntt intt (some pt) ct).bind
        (fun ct' => decrypt M ct' (M.toM s))
      = some { value := pt.value + montIf M pt.md.isMont (u * epk + e0 + e1 * s), md := pt.md } := by
  have hz := ezPkNoP_degGe1 h pt.md o0 o1 u e0 e1 pk0 pk1 rest
  rw [← hct] at hz
  rw [encrypt_value _ ntt intt pt ct _ _ hz]
  simp only [Option.bind_some]
  rw [decrypt_eq h s _ (by simp)]
  simp only [phase_encPk_tail h _ u e0 e1 pk0 pk1 s epk pt.value rest hpk]

theorem dec_enc_pk_denote {M : Mont α} {R Rinv : α} (h : IsMont M R Rinv) (pt : Pt α μ) (N : α) :
    denote M pt.md (pt.value + montIf M pt.md.isMont N) = denote M pt.md pt.value + N := by
  rw [denote_add h, denote_montIf h]

/-- **dec_enc_pk_P.** Auxiliary modulus present (the code uses its first prime only), every target of
    degree ≥ 1.  `π : R_{QP} → R_Q`, `ext` = `ExtendBasisSmallNormAndCenter`, `down` the rounded division with
    `P·down x = π x − π(rem x)` (`rem x` the centred residue mod P).  The stored result is `m + D` resp.
    `m + MForm(D)` (denoted noise `D` either way, `dec_enc_pk_denote`), and
    `P·D = π(u·e_pk + e0 + e1·s) − π(rem c0) − π(rem c1)·s`. -/
theorem dec_enc_pk_P {β : Type} [CommRing β] {MQ : Mont α} {R Rinv : α} (h : IsMont MQ R Rinv)
    {MQP : Mont β} {R' Rinv' : β} (h' : IsMont MQP R' Rinv')
    (π : β →+* α) (ext : α → β) (P : α) (down : β → α) (rem : β → β)
    (hdown : ∀ x, P * down x = π x - π (rem x))
    (ntt intt : α → α) (pt : Pt α μ) (ct : Ct α μ) (o0 o1 : α) (rest : List α)
    (hct : ct.value = o0 :: o1 :: rest)
    (u e0 e1 : α) (pk0 pk1 epk sQP : β) (hpk : pk0 + pk1 * sQP = epk) :
    let c0 := ext u * pk0 + ext e0
    let c1 := ext u * pk1 + ext e1
    let D := down c0 + π sQP * down c1
    (encrypt (ezPk MQ MQP ext down u e0 e1 (MQP.toM pk0) (MQP.toM pk1)) ntt intt (some pt) ct).bind
        (fun ct' => decrypt MQ ct' (MQ.toM (π sQP)))
      = some { value := pt.value + montIf MQ pt.md.isMont D, md := pt.md }
    ∧ P * D = π (ext u * epk + ext e0 + ext e1 * sQP) - π (rem c0) - π (rem c1) * π sQP := by
  intro c0 c1 D
  constructor
  · have hz : ezPk MQ MQP ext down u e0 e1 (MQP.toM pk0) (MQP.toM pk1) pt.md ct.value
        = some (montIf MQ pt.md.isMont (down c0) :: montIf MQ pt.md.isMont (down c1) ::
            rest.map (fun o => o - o)) := by
      simp only [ezPk, hct, clearTail]
      exact encryptZeroPk_degGe1 (MQ := MQ) h' ext down pt.md.isMont o0 o1 u e0 e1 _ pk0 pk1
    rw [encrypt_value _ ntt intt pt ct _ _ hz]
    simp only [Option.bind_some]
    rw [decrypt_eq h (π sQP) _ (by simp)]
    simp only [Option.some.injEq, Pt.mk.injEq, and_true, phase, phase_clear]
    cases pt.md.isMont
    · simp only [montIf, Bool.false_eq_true, if_false, D]; ring
    · simp only [montIf, if_true, h.toM, D]; ring
  · have := phase_encPk_P π P down rem hdown (ext u) (ext e0) (ext e1) pk0 pk1 sQP epk 0 hpk
    simp only [phase, add_zero, sub_zero, mul_zero] at this
    exact this

/-- non-vacuity of the rounding hypothesis: the integers, `P = 5`, rounded division, centred residue -/
example : ∀ x : Int, (5 : Int) * ((x + 2) / 5) = (RingHom.id Int) x - (RingHom.id Int) (x - 5 * ((x + 2) / 5)) := by
  intro x; simp

/-- **degree 0 under a public key**: there is no room for `c1`; the Go code indexes `ct.Value[1]` and panics
    (no error value).  Both variants. -/
theorem pk_deg0_panics {β : Type} [CommRing β] (MQ : Mont α) (MQP : Mont β) (ext : α → β) (down : β → α)
    (md : MetaData μ) (o0 : α) (u e0 e1 : α) (pk0M pk1M : β) (qk0M qk1M : α) :
    ezPk MQ MQP ext down u e0 e1 pk0M pk1M md [o0] = none ∧
    ezPkNoP MQ u e0 e1 qk0M qk1M md [o0] = none :=
  ⟨rfl, rfl⟩

/-! ## metadata, flags -/

/-- **metadata_eq.** Whatever `EncryptZero` variant is used, if `Encrypt` then `Decrypt` succeed, the output
    metadata (plaintext part and both flags) is the plaintext's. -/
theorem metadata_eq (M : Mont α) (ez : MetaData μ → List α → Option (List α)) (ntt intt : α → α)
    (pt out : Pt α μ) (ct ct' : Ct α μ) (sM : α)
    (he : encrypt ez ntt intt (some pt) ct = some ct') (hd : decrypt M ct' sM = some out) :
    out.md = pt.md := by
  rw [decrypt_md M ct' sM out hd, encrypt_md ez ntt intt pt ct ct' he]

example : ∃ (pt out : Pt Int Unit) (ct ct' : Ct Int Unit),
    encrypt (ezSk ⟨id, id⟩ 1 0 1) id id (some pt) ct = some ct' ∧
    decrypt ⟨id, id⟩ ct' 1 = some out :=
  ⟨⟨5, ⟨(), true, false⟩⟩, ⟨5, ⟨(), true, false⟩⟩, ⟨[0, 0], ⟨(), false, false⟩⟩, ⟨[4, 1], ⟨(), true, false⟩⟩,
    by decide, by decide⟩

/-- `Encrypt` never takes the mixed branches of `addPtToCt` (the result is independent of the transforms). -/
theorem encrypt_indep_transforms (ez : MetaData μ → List α → Option (List α)) (ntt intt : α → α)
    (pt : Option (Pt α μ)) (ct : Ct α μ) : encrypt ez ntt intt pt ct = encrypt ez id id pt ct :=
  encrypt_flags_agree ez ntt intt id id pt ct

/-! ## norms: the two-sided bound, upper side -/

open Lattigo.ZPoly in
/-- **‖a·b‖∞ ≤ ‖a‖₁·‖b‖∞** in `Z[X]/(X^N+1)` (every N, every pair of coefficient lists). -/
theorem negacyclic_norm (a b : List Int) : normInf (mul a b) ≤ norm1 a * normInf b := normInf_mul_le a b

open Lattigo.ZPoly in
/-- **noise_upper, secret key**: the fresh noise is `e` (`dec_enc_sk`), so `‖noise‖∞ ≤ B_e`. -/
theorem noise_upper_sk (e : List Int) (B : Nat) (he : normInf e ≤ B) : normInf e ≤ B := he

open Lattigo.ZPoly in
/-- **noise_upper, public key without P**: `‖u·e_pk + e0 + s·e1‖∞ ≤ B_e·(‖u‖₁ + 1 + ‖s‖₁)`. -/
theorem noise_upper_pk_noP (u epk e0 e1 s : List Int) (B : Nat)
    (hpk : normInf epk ≤ B) (h0 : normInf e0 ≤ B) (h1 : normInf e1 ≤ B) :
    normInf (add (add (mul u epk) e0) (mul s e1)) ≤ B * (norm1 u + 1 + norm1 s) :=
  ZPoly.noise_upper_pk_noP u epk e0 e1 s B hpk h0 h1

open Lattigo.ZPoly in
/-- **noise_upper, public key with P**: from `P·n = E − δ0 − s·δ1` (`dec_enc_pk_P`) and `2|δ| ≤ P`:
    `2P‖n‖∞ ≤ 2‖E‖∞ + P(1 + ‖s‖₁)`, with `‖E‖∞` bounded by `noise_upper_pk_noP`. -/
theorem noise_upper_pk_P (P : Nat) (n E d0 d1 s : List Int)
    (hrel : smul P n = sub (sub E d0) (mul s d1))
    (hd0 : 2 * normInf d0 ≤ P) (hd1 : 2 * normInf d1 ≤ P) :
    2 * (P * normInf n) ≤ 2 * normInf E + P * (1 + norm1 s) :=
  ZPoly.noise_upper_pk_P P n E d0 d1 s hrel hd0 hd1

open Lattigo.ZPoly in
/-- non-vacuity (and a sanity test of the product): N = 2, `(1 + 2X)(3 + 4X) = 3 + 10X + 8X² = −5 + 10X` -/
example : mul [1, 2] [3, 4] = [-5, 10] ∧ normInf (mul [1, 2] [3, 4]) ≤ norm1 [1, 2] * normInf [3, 4] := by decide

open Lattigo.ZPoly in
example : smul (5 : Nat) [1, -1] = sub (sub [7, -4] [2, 1]) (mul [1, 0] [0, 0]) ∧ 2 * normInf [2, 1] ≤ 5 := by decide

/-- test (not a theorem about all inputs): the integer product reduces to `RPoly.rowMul` modulo 97 on a sample -/
example : (ZPoly.mul [1, 2, 3, 4] [5, 6, 7, 96]).map (fun x => (x % 97).toNat)
    = RPoly.rowMul 97 [1, 2, 3, 4] [5, 6, 7, 96] := by decide

/-! ## the two-sided statement, closed on the carrier the driver executes

  `Props/C03Ring` transports the identities to `RPoly` values, `Props/C03Stack` closes the public-key-with-P case
  down to an integer noise polynomial.  Here the remaining two cases get the same shape: the sampled values are
  reductions (`RPoly.ofInts`) of INTEGER polynomials, as the samplers produce them, and the conclusion is
  "decryption returns `pt + ofInts(noise^Z)` (Montgomery form iff flagged) and `‖noise^Z‖∞ ≤` explicit bound",
  for every chain `qs` (= every level), every target of degree ≥ 1, every metadata / flag combination. -/

section closed
open Lattigo.ZPoly Lattigo.Transport Lattigo.RPolyRing Lattigo.StackKS
variable {qs : List ℕ} {n : ℕ} [Good qs n]

/-- **dec_enc_sk_noise_closed.**  Secret-key encryption: the error polynomial `e^Z` drawn from a distribution bounded by
    `B` (`‖e^Z‖∞ ≤ B`: truncated Gaussian ⇒ `B = ⌊bound⌉`, ternary ⇒ `B = 1`) comes back as the decryption error, exactly:
    `Decrypt(Encrypt(pt)).value = pt.value + [MForm] ofInts(e^Z)`, metadata of `pt`. -/
theorem dec_enc_sk_noise_closed (hodd : ∀ q ∈ qs, q % 2 = 1) (ntt intt : RPoly → RPoly) (pt : Pt RPoly μ)
    (ct : Ct RPoly μ) (o0 o1 : RPoly) (rest : List RPoly) (hct : ct.value = o0 :: o1 :: rest)
    (a s : RPoly) (eZ : List ℤ) (B : ℕ) (hel : eZ.length = n) (hB : normInf eZ ≤ B)
    (hpt : WFq qs n pt.value) (hctwf : ∀ p ∈ ct.value, WFq qs n p) (ha : WFq qs n a) (hs : WFq qs n s) :
    ∃ noiseZ : List ℤ, noiseZ.length = n ∧ normInf noiseZ ≤ B ∧
      (encrypt (ezSk rpMont a (RPoly.ofInts qs eZ) (rpMont.toM s)) ntt intt (some pt) ct).bind
          (fun ct' => decrypt rpMont ct' (rpMont.toM s))
        = some { value := pt.value + montIf rpMont pt.md.isMont (RPoly.ofInts qs noiseZ), md := pt.md } :=
  ⟨eZ, hel, hB, C03Ring.dec_enc_sk_rpoly hodd ntt intt pt ct o0 o1 rest hct a _ s hpt hctwf ha (ofInts_wf _ hel) hs⟩

/-- **dec_enc_pk_noP_noise_closed.**  Public key without auxiliary modulus, everything the samplers draw given as integer
    polynomials: ephemeral secret `u^Z`, errors `e0^Z, e1^Z`, key error `e_pk^Z` (all errors bounded by `B`), secret `s^Z`;
    `pk = (e_pk − pk1·s, pk1)` for ANY `pk1`.  The decryption error is the reduction of the integer polynomial
    `u·e_pk + e0 + s·e1` and `‖·‖∞ ≤ B·(‖u‖₁ + 1 + ‖s‖₁)`. -/
theorem dec_enc_pk_noP_noise_closed (hodd : ∀ q ∈ qs, q % 2 = 1) (ntt intt : RPoly → RPoly) (pt : Pt RPoly μ)
    (ct : Ct RPoly μ) (o0 o1 : RPoly) (rest : List RPoly) (hct : ct.value = o0 :: o1 :: rest)
    (uZ e0Z e1Z epkZ sZ : List ℤ) (pk1 : RPoly) (B : ℕ)
    (hul : uZ.length = n) (he0l : e0Z.length = n) (he1l : e1Z.length = n) (hepkl : epkZ.length = n)
    (hsl : sZ.length = n) (hBpk : normInf epkZ ≤ B) (hB0 : normInf e0Z ≤ B) (hB1 : normInf e1Z ≤ B)
    (hpt : WFq qs n pt.value) (hctwf : ∀ p ∈ ct.value, WFq qs n p) (hpk1 : WFq qs n pk1) :
    let s := RPoly.ofInts qs sZ
    let pk0 := RPoly.ofInts qs epkZ - pk1 * s
    ∃ noiseZ : List ℤ, noiseZ.length = n ∧ normInf noiseZ ≤ B * (norm1 uZ + 1 + norm1 sZ) ∧
      (encrypt (ezPkNoP rpMont (RPoly.ofInts qs uZ) (RPoly.ofInts qs e0Z) (RPoly.ofInts qs e1Z)
            (rpMont.toM pk0) (rpMont.toM pk1)) ntt intt (some pt) ct).bind
          (fun ct' => decrypt rpMont ct' (rpMont.toM s))
        = some { value := pt.value + montIf rpMont pt.md.isMont (RPoly.ofInts qs noiseZ), md := pt.md } := by
  intro s pk0
  have hu : WFq qs n (RPoly.ofInts qs uZ) := ofInts_wf _ hul
  have he0 : WFq qs n (RPoly.ofInts qs e0Z) := ofInts_wf _ he0l
  have he1 : WFq qs n (RPoly.ofInts qs e1Z) := ofInts_wf _ he1l
  have hepk : WFq qs n (RPoly.ofInts qs epkZ) := ofInts_wf _ hepkl
  have hs : WFq qs n s := ofInts_wf _ hsl
  have hpk0 : WFq qs n pk0 := hepk.sub (hpk1.mul hs)
  have hpk : pk0 + pk1 * s = RPoly.ofInts qs epkZ := by
    obtain ⟨x, hx⟩ := exists_lift _ hepk
    obtain ⟨y, hy⟩ := exists_lift _ hpk1
    obtain ⟨z, hz⟩ := exists_lift _ hs
    show (RPoly.ofInts qs epkZ - pk1 * s) + pk1 * s = _
    rw [← hx, ← hy, ← hz]
    show val ((x - y * z) + y * z) = val x
    congr 1
    ring
  have hm1 : (ZPoly.mul uZ epkZ).length = n := by rw [mul_length, hul]
  have hm2 : (ZPoly.mul sZ e1Z).length = n := by rw [mul_length, hsl]
  refine ⟨ZPoly.add (ZPoly.add (ZPoly.mul uZ epkZ) e0Z) (ZPoly.mul sZ e1Z),
    add_length _ _ (add_length _ _ hm1 he0l) hm2, ZPoly.noise_upper_pk_noP uZ epkZ e0Z e1Z sZ B hBpk hB0 hB1, ?_⟩
  rw [C03Ring.dec_enc_pk_noP_rpoly hodd ntt intt pt ct o0 o1 rest hct _ _ _ pk0 pk1 _ s hpk hpt hctwf hu he0 he1
    hpk0 hpk1 hs]
  rw [C03Stack.noise_order hu hepk he0 he1 hs, ofInts_add _ _ (add_length _ _ hm1 he0l) hm2, ofInts_add _ _ hm1 he0l,
    ofInts_mul _ _ hul hepkl, ofInts_mul _ _ hsl he1l]

/-- **with the declared distributions**: ternary ephemeral secret and ternary secret of Hamming weights `hu`, `H`
    (`‖·‖₁` IS the Hamming weight, `ZPoly.norm1_ternary`), errors bounded by `B`: the fresh public-key noise is at most
    `B·(hu + 1 + H) ≤ B·(n + 1 + H)` in every coefficient. -/
theorem dec_enc_pk_noP_noise_declared (hodd : ∀ q ∈ qs, q % 2 = 1) (ntt intt : RPoly → RPoly) (pt : Pt RPoly μ)
    (ct : Ct RPoly μ) (o0 o1 : RPoly) (rest : List RPoly) (hct : ct.value = o0 :: o1 :: rest)
    (uZ e0Z e1Z epkZ sZ : List ℤ) (pk1 : RPoly) (B H : ℕ)
    (hul : uZ.length = n) (he0l : e0Z.length = n) (he1l : e1Z.length = n) (hepkl : epkZ.length = n)
    (hsl : sZ.length = n) (hBpk : normInf epkZ ≤ B) (hB0 : normInf e0Z ≤ B) (hB1 : normInf e1Z ≤ B)
    (hut : Ternary uZ) (hst : Ternary sZ) (hH : hamming sZ = H)
    (hpt : WFq qs n pt.value) (hctwf : ∀ p ∈ ct.value, WFq qs n p) (hpk1 : WFq qs n pk1) :
    let s := RPoly.ofInts qs sZ
    let pk0 := RPoly.ofInts qs epkZ - pk1 * s
    ∃ noiseZ : List ℤ, noiseZ.length = n ∧ normInf noiseZ ≤ B * (n + 1 + H) ∧
      (encrypt (ezPkNoP rpMont (RPoly.ofInts qs uZ) (RPoly.ofInts qs e0Z) (RPoly.ofInts qs e1Z)
            (rpMont.toM pk0) (rpMont.toM pk1)) ntt intt (some pt) ct).bind
          (fun ct' => decrypt rpMont ct' (rpMont.toM s))
        = some { value := pt.value + montIf rpMont pt.md.isMont (RPoly.ofInts qs noiseZ), md := pt.md } := by
  intro s pk0
  obtain ⟨nz, hl, hb, heq⟩ := dec_enc_pk_noP_noise_closed hodd ntt intt pt ct o0 o1 rest hct uZ e0Z e1Z epkZ sZ pk1 B
    hul he0l he1l hepkl hsl hBpk hB0 hB1 hpt hctwf hpk1
  refine ⟨nz, hl, Nat.le_trans hb (Nat.mul_le_mul_left _ ?_), heq⟩
  rw [norm1_ternary uZ hut, norm1_ternary sZ hst, hH]
  have := hamming_le_length uZ
  omega

end closed

/-! ## the sampled values: hypotheses of the closed statements DISCHARGED from the sampler model (C17)

  `‖e^Z‖∞ ≤ B` and "ternary of Hamming weight H" above are hypotheses on integer vectors.  The sampler models of C17
  (`Sampler.gaussReadPlain`, `Sampler.ternSparse`, tied bit for bit to `ring/sampler_*.go`) are PROVED to write, on every
  level view, the reduced residues of ONE such integer vector (`C17.rns_consistent_gauss`, `C17.sparse_weight`).  The
  rows they return ARE `RPoly.ofInts` of it, so: -/

section sampled
open Lattigo.ZPoly Lattigo.Transport Lattigo.RPolyRing Lattigo.Sampler

/-- rows that are the residues of one integer vector are `RPoly.ofInts` of it -/
theorem rows_eq_ofInts (qs : List ℕ) (r : List (List ℕ)) (x : List ℤ)
    (h : ∀ i, i < qs.length → r[i]? = some (x.map (resOf (qs.getD i 0)))) :
    (⟨qs, r.take qs.length⟩ : RPoly) = RPoly.ofInts qs x := by
  unfold RPoly.ofInts
  congr 1
  apply List.ext_getElem?
  intro i
  rw [List.getElem?_take, List.getElem?_map]
  by_cases hi : i < qs.length
  · rw [if_pos hi, h i hi, List.getElem?_eq_getElem hi, Option.map_some]
    have : qs.getD i 0 = qs[i] := by simp [List.getD_eq_getElem?_getD, hi]
    rw [this]
    rfl
  · rw [if_neg hi, List.getElem?_eq_none (by omega)]
    rfl

theorem normInf_le_of_forall (x : List ℤ) (B : ℕ) (h : ∀ v ∈ x, v.natAbs ≤ B) : normInf x ≤ B :=
  normInf_le_iff.mpr h

variable {qs : List ℕ} {n : ℕ} [Good qs n]

/-- **dec_enc_sk_gauss_sampled.**  Secret-key encryption with the error polynomial the Gaussian sampler model returns
    (`Read` on the level view `qs`, small-norm path, ANY PRNG byte stream, buffer state, `sigma`, `bound`): decryption
    returns `pt + [MForm] ofInts(noise^Z)` with `‖noise^Z‖∞ ≤ round(bound)` — no hypothesis on the error left. -/
theorem dec_enc_sk_gauss_sampled (hodd : ∀ q ∈ qs, q % 2 = 1) (hW : ∀ q ∈ qs, q < W)
    (orc : Slow) (fuel sigma bound : ℕ) (pol r : Poly) (st st' : Bytes) (b b' : Buf) (slow : Bool)
    (hb : BufInv b) (hpath : isBigPath sigma bound = false) (hrows : ∀ row ∈ pol, row.length = n)
    (hread : gaussReadPlain orc fuel .read sigma bound n qs pol st b = .ok (r, slow, st', b'))
    (ntt intt : RPoly → RPoly) (pt : Pt RPoly μ) (ct : Ct RPoly μ) (o0 o1 : RPoly) (rest : List RPoly)
    (hct : ct.value = o0 :: o1 :: rest) (a s : RPoly)
    (hpt : WFq qs n pt.value) (hctwf : ∀ p ∈ ct.value, WFq qs n p) (ha : WFq qs n a) (hs : WFq qs n s) :
    ∃ noiseZ : List ℤ, noiseZ.length = n ∧ normInf noiseZ ≤ roundBound bound ∧
      (encrypt (ezSk rpMont a ⟨qs, r.take qs.length⟩ (rpMont.toM s)) ntt intt (some pt) ct).bind
          (fun ct' => decrypt rpMont ct' (rpMont.toM s))
        = some { value := pt.value + montIf rpMont pt.md.isMont (RPoly.ofInts qs noiseZ), md := pt.md } := by
  have hq : ∀ q ∈ qs, 0 < q ∧ q < W := fun q hq => ⟨by have := Good.q_ge (qs := qs) (n := n) q hq; omega, hW q hq⟩
  obtain ⟨x, hxl, hxb, hxr⟩ := C17.rns_consistent_gauss orc fuel sigma bound n qs pol r st st' b b' slow hb hpath hq hrows hread
  rw [rows_eq_ofInts qs r x hxr]
  exact dec_enc_sk_noise_closed hodd ntt intt pt ct o0 o1 rest hct a s x (roundBound bound) hxl
    (normInf_le_of_forall x _ hxb) hpt hctwf ha hs

/-- **secret of the declared Hamming weight**: what `ternSparse` (Xs = Ternary{H: hw}) returns is `ofInts` of a ternary
    vector with `‖·‖₁ = min(hw, N)` — the `Ternary s^Z`, `hamming s^Z = H` hypotheses of `dec_enc_pk_noP_noise_declared`. -/
theorem sparse_secret_sampled (hW : ∀ q ∈ qs, q < W) (fuel hw : ℕ) (pol r : Poly) (st st' : Bytes)
    (hrows : ∀ row ∈ pol, row.length = n) (h : ternSparse fuel .read false hw n qs pol st = .ok (r, st')) :
    ∃ sZ : List ℤ, sZ.length = n ∧ Ternary sZ ∧ hamming sZ = min hw n ∧ norm1 sZ = min hw n
      ∧ (⟨qs, r.take qs.length⟩ : RPoly) = RPoly.ofInts qs sZ := by
  have hq : ∀ q ∈ qs, 2 ≤ q ∧ q < W := fun q hq => ⟨Good.q_ge (qs := qs) (n := n) q hq, hW q hq⟩
  obtain ⟨x, hxl, hsup, hw', hxr⟩ := C17.sparse_weight fuel hw n qs pol r st st' hq hrows h
  have hham : hamming x = min hw n := by
    rw [← hw', hamming, List.countP_eq_length_filter]
  exact ⟨x, hxl, hsup, hham, by rw [norm1_ternary x hsup, hham], rows_eq_ofInts qs r x hxr⟩

/-- non-vacuity of `dec_enc_sk_gauss_sampled`: the C17 example run (σ = 3, bound = 18, N = 2, moduli 257 and 769, 1024 PRNG
    bytes) drew `e^Z = (−3, 0)`; all hypotheses hold and the theorem applies to a re-used degree-1 target. -/
example : ∃ noiseZ : List ℤ, noiseZ.length = 2 ∧ normInf noiseZ ≤ 18 ∧
    (encrypt (ezSk rpMont ⟨[257, 769], [[5, 6], [7, 8]]⟩ ⟨[257, 769], [[254, 0], [766, 0]]⟩
          (rpMont.toM ⟨[257, 769], [[1, 256], [1, 768]]⟩)) id id
        (some (⟨⟨[257, 769], [[10, 20], [10, 20]]⟩, ⟨(), true, true⟩⟩ : Pt RPoly Unit))
        ⟨[⟨[257, 769], [[1, 2], [3, 4]]⟩, ⟨[257, 769], [[0, 0], [0, 0]]⟩], ⟨(), false, false⟩⟩).bind
      (fun ct' => decrypt rpMont ct' (rpMont.toM ⟨[257, 769], [[1, 256], [1, 768]]⟩))
    = some { value := (⟨[257, 769], [[10, 20], [10, 20]]⟩ : RPoly)
        + montIf rpMont true (RPoly.ofInts [257, 769] noiseZ), md := ⟨(), true, true⟩ } := by
  have : Good [257, 769] 2 := ⟨by decide, by decide⟩
  have hread : gaussReadPlain ⟨fun _ _ => none, fun _ _ _ => false⟩ 10 .read
      (SF.ofBits64 4614388178203810202) (SF.ofBits64 4625816062258262835) 2 [257, 769] [[9, 9], [9, 9]]
      ([0, 0, 0, 0x20] ++ List.replicate 1020 0) Buf.new =
    .ok ([[254, 0], [766, 0]], false, [], { data := [0, 0, 0, 0x20] ++ List.replicate 1020 0, ptr := 16 })
    ∧ isBigPath (SF.ofBits64 4614388178203810202) (SF.ofBits64 4625816062258262835) = false
    ∧ roundBound (SF.ofBits64 4625816062258262835) = 18 := by
    set_option maxRecDepth 100000 in
    set_option exponentiation.threshold 5000 in
    decide +kernel
  have h := dec_enc_sk_gauss_sampled (qs := [257, 769]) (n := 2) (μ := Unit) (by decide) (by decide) _ 10 _ _
    [[9, 9], [9, 9]] _ _ _ _ _ _ BufInv.new hread.2.1 (by decide) hread.1 id id
    ⟨⟨[257, 769], [[10, 20], [10, 20]]⟩, ⟨(), true, true⟩⟩
    ⟨[⟨[257, 769], [[1, 2], [3, 4]]⟩, ⟨[257, 769], [[0, 0], [0, 0]]⟩], ⟨(), false, false⟩⟩ _ _ [] rfl
    ⟨[257, 769], [[5, 6], [7, 8]]⟩ ⟨[257, 769], [[1, 256], [1, 768]]⟩
    (by decide) (by decide) (by decide) (by decide)
  rw [hread.2.2] at h
  exact h

end sampled

/-! ## the conjugate-invariant carrier (`ci = true`: what the driver evaluates for `ring.ConjugateInvariant`)

  `Proofs/RLWECI.lean`: the well-formed conjugate-invariant values are the image, under a map preserving `+ * − neg` and
  the Montgomery pair, of the commutative ring `CI qs n` (the subring of `WFPoly qs (2n)` fixed by `X ↦ X⁻¹`); the product
  `RQ.ciMul` the driver executes (`take n (E a · E b)`) is the product of that ring (`RLWECI.emb_ciRowMul`).  Hence the
  identities hold verbatim on `RQ` values tagged `ci = true`, for odd moduli and well-formed inputs. -/

section ci
open Lattigo.RLWECI Lattigo.Transport Lattigo.RPolyRing Lattigo.Props.C03Ring
variable {qs : List ℕ} {n : ℕ} [Good qs n] [Good qs (2 * n)]

/-- a coefficient matrix read as an element of the conjugate-invariant ring -/
def ciq (p : RPoly) : RQ := ⟨true, p⟩

theorem exists_foldC_list (l : List RPoly) (h : ∀ p ∈ l, WFq qs n p) :
    ∃ l' : List (CI qs n), l'.map foldC = l.map ciq := by
  induction l with
  | nil => exact ⟨[], rfl⟩
  | cons x xs ih =>
    obtain ⟨z, hz⟩ := exists_foldC x (h x (by simp))
    obtain ⟨zs, hzs⟩ := ih (fun p hp => h p (by simp [hp]))
    exact ⟨z :: zs, by simp [hz, hzs, ciq]⟩

/-- **dec_enc_sk_ci.**  `dec_enc_sk` on the conjugate-invariant carrier, as the driver evaluates it: every chain of odd
    moduli, every `n ≥ 1`, every target of degree ≥ 1, every metadata. -/
theorem dec_enc_sk_ci (hodd : ∀ q ∈ qs, q % 2 = 1) (ntt intt : RQ → RQ) (pt : Pt RPoly μ)
    (ct : Ct RPoly μ) (o0 o1 : RPoly) (rest : List RPoly) (hct : ct.value = o0 :: o1 :: rest)
    (a e s : RPoly) (hpt : WFq qs n pt.value) (hctwf : ∀ p ∈ ct.value, WFq qs n p)
    (ha : WFq qs n a) (he : WFq qs n e) (hs : WFq qs n s) :
    (encrypt (ezSk RQ.mont (ciq a) (ciq e) (RQ.mont.toM (ciq s))) ntt intt (some (ptMap ciq pt))
        (ctMap ciq ct)).bind (fun ct' => decrypt RQ.mont ct' (RQ.mont.toM (ciq s)))
      = some { value := ciq pt.value + montIf RQ.mont pt.md.isMont (ciq e), md := pt.md } := by
  obtain ⟨za, hza⟩ := exists_foldC (qs := qs) (n := n) a ha
  obtain ⟨ze, hze⟩ := exists_foldC (qs := qs) (n := n) e he
  obtain ⟨zs, hzs⟩ := exists_foldC (qs := qs) (n := n) s hs
  obtain ⟨zp, hzp⟩ := exists_foldC (qs := qs) (n := n) pt.value hpt
  obtain ⟨zc, hzc⟩ := exists_foldC_list (qs := qs) (n := n) ct.value hctwf
  have hzc' : zc.map foldC = ciq o0 :: ciq o1 :: rest.map ciq := by rw [hzc, hct]; rfl
  obtain ⟨o0', o1', rest', hct'⟩ := map_eq_cons2 hzc'
  have hM := isMont_montC (qs := qs) (n := n) hodd
  have hφ := foldC_hom (qs := qs) (n := n) hodd
  have hg := dec_enc_sk_gen hM id id (⟨zp, pt.md⟩ : Pt (CI qs n) μ) (⟨zc, ct.md⟩ : Ct (CI qs n) μ) o0' o1' rest' hct'
    za ze zs
  have hn := enc_dec_nat hφ foldC_montHom _ _ (ezSk_nat hφ foldC_montHom za ze (montC.toM zs))
    id id ntt intt (some (⟨zp, pt.md⟩ : Pt (CI qs n) μ)) (⟨zc, ct.md⟩ : Ct (CI qs n) μ) (montC.toM zs)
  rw [hg, foldC_montHom.toM] at hn
  simp only [Option.map_some, ptMap, ctMap, hza, hze, hzs, hzp, hzc] at hn
  simp only [ptMap, ctMap, ciq]
  rw [hn]
  simp only [hφ.add, ← montIf_nat foldC_montHom, hzp, hze]

/-- **dec_enc_pk_noP_ci.**  `dec_enc_pk_noP` on the conjugate-invariant carrier. -/
theorem dec_enc_pk_noP_ci (hodd : ∀ q ∈ qs, q % 2 = 1) (ntt intt : RQ → RQ) (pt : Pt RPoly μ)
    (ct : Ct RPoly μ) (o0 o1 : RPoly) (rest : List RPoly) (hct : ct.value = o0 :: o1 :: rest)
    (u e0 e1 pk0 pk1 epk s : RPoly) (hpk : ciq pk0 + ciq pk1 * ciq s = ciq epk)
    (hpt : WFq qs n pt.value) (hctwf : ∀ p ∈ ct.value, WFq qs n p)
    (hu : WFq qs n u) (he0 : WFq qs n e0) (he1 : WFq qs n e1) (hpk0 : WFq qs n pk0)
    (hpk1 : WFq qs n pk1) (hs : WFq qs n s) :
    (encrypt (ezPkNoP RQ.mont (ciq u) (ciq e0) (ciq e1) (RQ.mont.toM (ciq pk0)) (RQ.mont.toM (ciq pk1)))
        ntt intt (some (ptMap ciq pt)) (ctMap ciq ct)).bind
        (fun ct' => decrypt RQ.mont ct' (RQ.mont.toM (ciq s)))
      = some { value := ciq pt.value + montIf RQ.mont pt.md.isMont (ciq u * ciq epk + ciq e0 + ciq e1 * ciq s),
               md := pt.md } := by
  obtain ⟨zu, hzu⟩ := exists_foldC (qs := qs) (n := n) u hu
  obtain ⟨z0, hz0⟩ := exists_foldC (qs := qs) (n := n) e0 he0
  obtain ⟨z1, hz1⟩ := exists_foldC (qs := qs) (n := n) e1 he1
  obtain ⟨zk0, hzk0⟩ := exists_foldC (qs := qs) (n := n) pk0 hpk0
  obtain ⟨zk1, hzk1⟩ := exists_foldC (qs := qs) (n := n) pk1 hpk1
  obtain ⟨zs, hzs⟩ := exists_foldC (qs := qs) (n := n) s hs
  obtain ⟨zp, hzp⟩ := exists_foldC (qs := qs) (n := n) pt.value hpt
  obtain ⟨zc, hzc⟩ := exists_foldC_list (qs := qs) (n := n) ct.value hctwf
  have hzc' : zc.map foldC = ciq o0 :: ciq o1 :: rest.map ciq := by rw [hzc, hct]; rfl
  obtain ⟨o0', o1', rest', hct'⟩ := map_eq_cons2 hzc'
  have hM := isMont_montC (qs := qs) (n := n) hodd
  have hφ := foldC_hom (qs := qs) (n := n) hodd
  have hg := dec_enc_pk_noP_gen hM id id (⟨zp, pt.md⟩ : Pt (CI qs n) μ) (⟨zc, ct.md⟩ : Ct (CI qs n) μ) o0' o1' rest' hct'
    zu z0 z1 zk0 zk1 _ zs rfl
  have hn := enc_dec_nat hφ foldC_montHom _ _
    (ezPkNoP_nat hφ foldC_montHom zu z0 z1 (montC.toM zk0) (montC.toM zk1))
    id id ntt intt (some (⟨zp, pt.md⟩ : Pt (CI qs n) μ)) (⟨zc, ct.md⟩ : Ct (CI qs n) μ) (montC.toM zs)
  rw [hg, foldC_montHom.toM, foldC_montHom.toM, foldC_montHom.toM] at hn
  simp only [Option.map_some, ptMap, ctMap, hzu, hz0, hz1, hzk0, hzk1, hzs, hzp, hzc] at hn
  simp only [ptMap, ctMap, ciq] at hpk ⊢
  rw [hn]
  simp only [hφ.add, ← montIf_nat foldC_montHom, hφ.mul, hzp, hzu, hz0, hz1, hzk0, hzk1, hzs, hpk]

/-- non-vacuity: `qs = [97, 193]`, `n = 4` (ring `Z[X+X⁻¹]/(X^8+1)`), a re-used degree-2 target, Montgomery flag set -/
example : (encrypt (ezSk RQ.mont (ciq ⟨[97, 193], [[1, 2, 3, 4], [5, 6, 7, 8]]⟩) (ciq ⟨[97, 193], [[1, 0, 96, 2], [1, 0, 192, 2]]⟩)
        (RQ.mont.toM (ciq ⟨[97, 193], [[1, 96, 0, 1], [1, 192, 0, 1]]⟩))) id id
      (some (ptMap ciq (⟨⟨[97, 193], [[9, 8, 7, 6], [9, 8, 7, 6]]⟩, ⟨(), false, true⟩⟩ : Pt RPoly Unit)))
      (ctMap ciq ⟨[⟨[97, 193], [[0, 0, 0, 0], [0, 0, 0, 0]]⟩, ⟨[97, 193], [[3, 3, 3, 3], [4, 4, 4, 4]]⟩,
        ⟨[97, 193], [[5, 5, 5, 5], [6, 6, 6, 6]]⟩], ⟨(), true, false⟩⟩)).bind
    (fun ct' => decrypt RQ.mont ct' (RQ.mont.toM (ciq ⟨[97, 193], [[1, 96, 0, 1], [1, 192, 0, 1]]⟩)))
    = some { value := ciq ⟨[97, 193], [[9, 8, 7, 6], [9, 8, 7, 6]]⟩
        + montIf RQ.mont true (ciq ⟨[97, 193], [[1, 0, 96, 2], [1, 0, 192, 2]]⟩), md := ⟨(), false, true⟩ } := by
  have : Good [97, 193] 4 := ⟨by decide, by decide⟩
  have : Good [97, 193] (2 * 4) := ⟨by decide, by decide⟩
  exact dec_enc_sk_ci (qs := [97, 193]) (n := 4) (μ := Unit) (by decide) id id _ _ _ _ [_] rfl _ _ _
    (by decide) (by decide) (by decide) (by decide) (by decide)

end ci

/-! ### non-vacuity: `qs = [97, 193]`, `n = 8`, a re-used degree-2 target, Montgomery-flagged plaintext -/

section instance8
open Lattigo.ZPoly Lattigo.Transport Lattigo.RPolyRing Lattigo.Props.C03Ring

example : ∃ noiseZ : List ℤ, noiseZ.length = 8 ∧ normInf noiseZ ≤ 2 * (4 + 1 + 5) ∧
    (encrypt (ezPkNoP rpMont (RPoly.ofInts [97, 193] [1, 0, -1, 0, 1, 1, 0, 0]) (RPoly.ofInts [97, 193] [2, -1, 0, 1, 0, -2, 1, 0])
          (RPoly.ofInts [97, 193] [0, 1, -1, 0, 2, 0, 0, -1])
          (rpMont.toM (RPoly.ofInts [97, 193] [1, 0, -1, 0, 2, 0, -2, 1] - a8 * RPoly.ofInts [97, 193] [1, -1, 0, 1, 0, 0, -1, 1]))
          (rpMont.toM a8)) id id (some pt8) ct8).bind
        (fun ct' => decrypt rpMont ct' (rpMont.toM (RPoly.ofInts [97, 193] [1, -1, 0, 1, 0, 0, -1, 1])))
      = some { value := pt8.value + montIf rpMont pt8.md.isMont (RPoly.ofInts [97, 193] noiseZ), md := pt8.md } := by
  have h := dec_enc_pk_noP_noise_closed (qs := [97, 193]) (n := 8) (μ := Unit) (by decide) id id pt8 ct8 z8 z8 [a8] rfl
    [1, 0, -1, 0, 1, 1, 0, 0] [2, -1, 0, 1, 0, -2, 1, 0] [0, 1, -1, 0, 2, 0, 0, -1] [1, 0, -1, 0, 2, 0, -2, 1]
    [1, -1, 0, 1, 0, 0, -1, 1] a8 2 rfl rfl rfl rfl rfl (by decide) (by decide) (by decide)
    (by decide) (by decide) (by decide)
  obtain ⟨nz, hl, hb, heq⟩ := h
  exact ⟨nz, hl, Nat.le_trans hb (by decide), heq⟩

example : RQ.acceptsBounds 97 true 38 2 = true ∧ (∀ x ∈ ([19, -19, 0, 7] : List ℤ), 2 * x.natAbs ≤ 38) := by decide

end instance8

end Lattigo.Props.C03

#print axioms Lattigo.Props.C03.dec_enc_sk
#print axioms Lattigo.Props.C03.dec_enc_sk_denote
#print axioms Lattigo.Props.C03.dec_enc_sk_deg0
#print axioms Lattigo.Props.C03.wrong_key
#print axioms Lattigo.Props.C03.unit_mul_bijective
#print axioms Lattigo.Props.C03.genPublicKey_noise
#print axioms Lattigo.Props.C03.dec_enc_pk_noP
#print axioms Lattigo.Props.C03.dec_enc_pk_denote
#print axioms Lattigo.Props.C03.dec_enc_pk_P
#print axioms Lattigo.Props.C03.pk_deg0_panics
#print axioms Lattigo.Props.C03.metadata_eq
#print axioms Lattigo.Props.C03.encrypt_indep_transforms
#print axioms Lattigo.Props.C03.dec_enc_sk_noise_closed
#print axioms Lattigo.Props.C03.dec_enc_pk_noP_noise_closed
#print axioms Lattigo.Props.C03.dec_enc_pk_noP_noise_declared
#print axioms Lattigo.Props.C03.dec_enc_sk_gauss_sampled
#print axioms Lattigo.Props.C03.sparse_secret_sampled
#print axioms Lattigo.Props.C03.dec_enc_sk_ci
#print axioms Lattigo.Props.C03.dec_enc_pk_noP_ci
#print axioms Lattigo.RLWECI.emb_ciRowMul
#print axioms Lattigo.RLWE.RQ.accepted_ext_exact
#print axioms Lattigo.RLWE.RQ.extSmall_ofInts
#print axioms Lattigo.Props.C03.negacyclic_norm
#print axioms Lattigo.Props.C03.noise_upper_sk
#print axioms Lattigo.Props.C03.noise_upper_pk_noP
#print axioms Lattigo.Props.C03.noise_upper_pk_P
