/-
  C03 — decryption inverts encryption with noise inside a two-sided bound.

  The theorems are about the definitions of `Model/RLWE.lean` that the driver executes
  (`ezSk`, `ezPk`, `ezPkNoP` = `EncryptZero` per key kind, `addPtToCt`, `encrypt`, `decrypt`, `genPublicKey`),
  for EVERY commutative ring as carrier.  The executable carrier `RQ`/`RPoly` is tied to the Go code by the
  correspondence run; that `RPoly` with its operations is a commutative ring is C01's statement.

  Reading of the flags.  A model value is the stored polynomial pulled back to the coefficient domain with
  the Montgomery factor kept.  `denote M md x` is the polynomial it stands for: `ofM x` iff `md.isMont`.

  The model follows the code after the fixes /verif/fixes/C03-1 … C03-8.  Before them the property was false
  (sk-encryptor with a target of degree ≥ 2, re-used targets of degree ≥ 2, `IsMontgomery` under a secret key or
  a public key without P, ternary Xe outside the NTT domain); the corresponding probes stay in the harness
  (`dec_enc_noise_upper` with keys `C03-sk-degree-ge2`, `C03-degree-ge2-stale`, `C03-montgomery-flag`,
  `C03-ternaryH-readandadd`; `encrypt_total`; `decrypt_degree7`; `pt_value_level`; `declared_std`).
  The abstract `ext` of the theorems is `RQ.extSmall` in the driver: it reads the value off limb 0 and, since fix
  C03-9, reduces its magnitude modulo each `p_i` (before, `p_i − |c|` wrapped modulo 2^64 for `|c| > p_i`).  With an
  error or secret bound ≥ `q_0/2` limb 0 does not determine the value and the P limbs of keys and pk-encryptions
  are inconsistent with the Q limbs (probe `error_limbs_consistent`, key `C03-error-limbs-inconsistent`): such
  literals are rejected when P is present (fix C03-10, probe `unextendable_bound_rejected`).  `Props/C03Stack.ext_coeff`
  proves the per-coefficient statement.  The hypothesis `π (ext x) = x`-style facts are not needed:
  `dec_enc_pk_P` holds for every `ext`; what `ext` must satisfy for the NORM bound is that `ext e` is the same small
  integer polynomial over Q·p₀, which is what that probe checks on the real code.
  Still open: `ShallowCopy` of a `WithPRNG` encryptor draws `c1` from a fresh system PRNG (probe
  `shallowcopy_keeps_prng`, key `C03-shallowcopy-drops-prng`); the ciphertext is valid (the theorems below do not
  care where `a` comes from) but a seed holder cannot expand a degree-0 ciphertext made by the copy.
  Partial: distributional statements (standard deviation, independence of two encryptions, uniformity of the
  wrong-key phase) are labelled statistical tests in the harness; there is no probability theory here.
-/
import Lattigo.Proofs.RLWE
import Lattigo.Proofs.RLWENorm
import Lattigo.Props.C03Ring
import Lattigo.Props.C03Stack
import Mathlib.Data.ZMod.Basic

namespace Lattigo.Props.C03
open Lattigo Lattigo.RLWE

variable {α : Type} [CommRing α] {μ : Type}

/-! ## secret key -/

/-- **dec_enc_sk.** Every target of degree ≥ 1 (fresh or re-used: `o0, o1, rest` arbitrary), every flag
    combination, every plaintext: `Decrypt(Encrypt(pt))` has the plaintext's metadata and the stored value
    `pt.value + e'`, `e' = e` resp. `MForm(e)` when the plaintext is flagged Montgomery — the fresh noise IS the
    sampled error. -/
theorem dec_enc_sk {M : Mont α} {R Rinv : α} (h : IsMont M R Rinv)
    (ntt intt : α → α) (pt : Pt α μ) (ct : Ct α μ) (o0 o1 : α) (rest : List α)
    (hct : ct.value = o0 :: o1 :: rest) (a e s : α) :
    (encrypt (ezSk M a e (M.toM s)) ntt intt (some pt) ct).bind (fun ct' => decrypt M ct' (M.toM s))
      = some { value := pt.value + montIf M pt.md.isMont e, md := pt.md } := by
  have hz := ezSk_degGe1 h pt.md o0 o1 a e s rest
  rw [← hct] at hz
  rw [encrypt_value _ ntt intt pt ct _ _ hz]
  simp only [Option.bind_some]
  rw [decrypt_eq h s _ (by simp)]
  simp only [phase_encSk_tail]

example : IsMont (⟨(· * 2), (· * 4)⟩ : Mont (ZMod 7)) 2 4 := ⟨by decide, fun _ => rfl, fun _ => rfl⟩

/-- **Montgomery flag.** In terms of denoted polynomials the fresh noise is `e` for BOTH values of the flag. -/
theorem dec_enc_sk_denote {M : Mont α} {R Rinv : α} (h : IsMont M R Rinv) (pt : Pt α μ) (e : α) :
    denote M pt.md (pt.value + montIf M pt.md.isMont e) = denote M pt.md pt.value + e := by
  rw [denote_add h, denote_montIf h]

/-- the two degree-2 instances that used to fail, now computed by the model over `Z` (a = s = 1, e = 0, m = 0)
    and over `Z/7` with `R = 2` and the Montgomery flag set (a = 3, s = 1, e = 1: denoted noise 1) -/
example : (encrypt (μ := Unit) (ezSk (⟨id, id⟩ : Mont Int) 1 0 1) id id
      (some ⟨0, ⟨(), false, false⟩⟩) ⟨[0, 0, 0], ⟨(), false, false⟩⟩).bind
    (fun ct' => decrypt ⟨id, id⟩ ct' 1) = some ⟨0, ⟨(), false, false⟩⟩ := by decide

example : (encrypt (μ := Unit) (ezSk (⟨(· * 2), (· * 4)⟩ : Mont (ZMod 7)) 3 1 (1 * 2)) id id
      (some ⟨0, ⟨(), true, true⟩⟩) ⟨[5, 6], ⟨(), false, false⟩⟩).bind
    (fun ct' => decrypt ⟨(· * 2), (· * 4)⟩ ct' (1 * 2)) = some ⟨2, ⟨(), true, true⟩⟩
    ∧ denote (⟨(· * 2), (· * 4)⟩ : Mont (ZMod 7)) (⟨(), true, true⟩ : MetaData Unit) 2 = 1 := by decide

/-- **degree-0 target** (compressed ciphertext, `c1` re-expanded from the PRNG by the receiver):
    the stored `c0` together with the drawn `a` decrypts to `m + e'`. -/
theorem dec_enc_sk_deg0 {M : Mont α} {R Rinv : α} (h : IsMont M R Rinv)
    (ntt intt : α → α) (pt : Pt α μ) (ct : Ct α μ) (o0 : α) (hct : ct.value = [o0]) (a e s : α) :
    ∃ c0, encrypt (ezSk M a e (M.toM s)) ntt intt (some pt) ct = some { value := [c0], md := pt.md } ∧
      decrypt M ({ value := [c0, a], md := pt.md } : Ct α μ) (M.toM s)
        = some { value := pt.value + montIf M pt.md.isMont e, md := pt.md } := by
  have hz := ezSk_deg0 h pt.md o0 a e s
  rw [← hct] at hz
  refine ⟨-(a * s) + montIf M pt.md.isMont e + pt.value, encrypt_value _ ntt intt pt ct _ _ hz, ?_⟩
  rw [decrypt_eq h s _ (by simp)]
  simp only [phase_encSk]

/-- **wrong_key.** Decrypting a fresh sk-ciphertext with another key `s'`: the distance to the plaintext is
    `e' + a·(s' − s)`; `a` is the uniform draw, so for `s' − s` a unit this is a uniform element shifted by `e'`
    (`unit_mul_bijective`). -/
theorem wrong_key {M : Mont α} {R Rinv : α} (h : IsMont M R Rinv)
    (ntt intt : α → α) (pt : Pt α μ) (ct : Ct α μ) (o0 o1 : α) (rest : List α)
    (hct : ct.value = o0 :: o1 :: rest) (a e s s' : α) :
    ∃ out, (encrypt (ezSk M a e (M.toM s)) ntt intt (some pt) ct).bind (fun ct' => decrypt M ct' (M.toM s'))
        = some out ∧ out.value - pt.value = montIf M pt.md.isMont e + a * (s' - s) ∧ out.md = pt.md := by
  have hz := ezSk_degGe1 h pt.md o0 o1 a e s rest
  rw [← hct] at hz
  rw [encrypt_value _ ntt intt pt ct _ _ hz]
  simp only [Option.bind_some]
  rw [decrypt_eq h s' _ (by simp)]
  exact ⟨_, rfl, phase_encSk_wrong_key_tail a _ s s' pt.value rest, rfl⟩

theorem unit_mul_bijective (d : α) (dinv : α) (hd : d * dinv = 1) : Function.Bijective (fun a : α => a * d) := by
  constructor
  · intro x y hxy
    have := congrArg (· * dinv) hxy
    simpa [mul_assoc, hd] using this
  · intro y
    exact ⟨y * dinv, by simp [mul_assoc, mul_comm dinv d, hd]⟩

/-! ## public key -/

/-- **genPublicKey.** The generated key satisfies `pk0 + pk1·s = e` after stripping the Montgomery factor. -/
theorem genPublicKey_noise {β : Type} [CommRing β] {M : Mont β} {R Rinv : β} (h : IsMont M R Rinv)
    (ext : α → β) (a : β) (e : α) (s : β) :
    let pk := genPublicKey M ext a e (M.toM s)
    M.ofM pk.1 + M.ofM pk.2 * s = ext e := genPublicKey_relation h ext a e s

/-- **dec_enc_pk_noP.** No auxiliary modulus, every target of degree ≥ 1 (fresh or re-used), every flag
    combination: stored result `m + N` resp. `m + MForm(N)`, `N = u·e_pk + e0 + e1·s`, where `pk0 + pk1·s = e_pk`;
    denoted noise `N` for both values of the Montgomery flag (`dec_enc_pk_denote`). -/
theorem dec_enc_pk_noP {M : Mont α} {R Rinv : α} (h : IsMont M R Rinv)
    (ntt intt : α → α) (pt : Pt α μ) (ct : Ct α μ) (o0 o1 : α) (rest : List α)
    (hct : ct.value = o0 :: o1 :: rest) (u e0 e1 pk0 pk1 epk s : α) (hpk : pk0 + pk1 * s = epk) :
    (encrypt (ezPkNoP M u e0 e1 (M.toM pk0) (M.toM pk1)) ntt intt (some pt) ct).bind
        (fun ct' => decrypt M ct' (M.toM s))
      = some { value := pt.value + montIf M pt.md.isMont (u * epk + e0 + e1 * s), md := pt.md } := by
  have hz := ezPkNoP_degGe1 h pt.md o0 o1 u e0 e1 pk0 pk1 rest
  rw [← hct] at hz
  rw [encrypt_value _ ntt intt pt ct _ _ hz]
  simp only [Option.bind_some]
  rw [decrypt_eq h s _ (by simp)]
  simp only [phase_encPk_tail h _ u e0 e1 pk0 pk1 s epk pt.value rest hpk]

theorem dec_enc_pk_denote {M : Mont α} {R Rinv : α} (h : IsMont M R Rinv) (pt : Pt α μ) (N : α) :
    denote M pt.md (pt.value + montIf M pt.md.isMont N) = denote M pt.md pt.value + N := by
  rw [denote_add h, denote_montIf h]

/-- **dec_enc_pk_P.** Auxiliary modulus present (the code uses its first prime only), every target of
    degree ≥ 1.  `π : R_{QP} → R_Q`, `ext` = `ExtendBasisSmallNormAndCenter`, `down` the rounded division with
    `P·down x = π x − π(rem x)` (`rem x` the centred residue mod P).  The stored result is `m + D` resp.
    `m + MForm(D)` (denoted noise `D` either way, `dec_enc_pk_denote`), and
    `P·D = π(u·e_pk + e0 + e1·s) − π(rem c0) − π(rem c1)·s`. -/
theorem dec_enc_pk_P {β : Type} [CommRing β] {MQ : Mont α} {R Rinv : α} (h : IsMont MQ R Rinv)
    {MQP : Mont β} {R' Rinv' : β} (h' : IsMont MQP R' Rinv')
    (π : β →+* α) (ext : α → β) (P : α) (down : β → α) (rem : β → β)
    (hdown : ∀ x, P * down x = π x - π (rem x))
    (ntt intt : α → α) (pt : Pt α μ) (ct : Ct α μ) (o0 o1 : α) (rest : List α)
    (hct : ct.value = o0 :: o1 :: rest)
    (u e0 e1 : α) (pk0 pk1 epk sQP : β) (hpk : pk0 + pk1 * sQP = epk) :
    let c0 := ext u * pk0 + ext e0
    let c1 := ext u * pk1 + ext e1
    let D := down c0 + π sQP * down c1
    (encrypt (ezPk MQ MQP ext down u e0 e1 (MQP.toM pk0) (MQP.toM pk1)) ntt intt (some pt) ct).bind
        (fun ct' => decrypt MQ ct' (MQ.toM (π sQP)))
      = some { value := pt.value + montIf MQ pt.md.isMont D, md := pt.md }
    ∧ P * D = π (ext u * epk + ext e0 + ext e1 * sQP) - π (rem c0) - π (rem c1) * π sQP := by
  intro c0 c1 D
  constructor
  · have hz : ezPk MQ MQP ext down u e0 e1 (MQP.toM pk0) (MQP.toM pk1) pt.md ct.value
        = some (montIf MQ pt.md.isMont (down c0) :: montIf MQ pt.md.isMont (down c1) ::
            rest.map (fun o => o - o)) := by
      simp only [ezPk, hct, clearTail]
      exact encryptZeroPk_degGe1 (MQ := MQ) h' ext down pt.md.isMont o0 o1 u e0 e1 _ pk0 pk1
    rw [encrypt_value _ ntt intt pt ct _ _ hz]
    simp only [Option.bind_some]
    rw [decrypt_eq h (π sQP) _ (by simp)]
    simp only [Option.some.injEq, Pt.mk.injEq, and_true, phase, phase_clear]
    cases pt.md.isMont
    · simp only [montIf, Bool.false_eq_true, if_false, D]; ring
    · simp only [montIf, if_true, h.toM, D]; ring
  · have := phase_encPk_P π P down rem hdown (ext u) (ext e0) (ext e1) pk0 pk1 sQP epk 0 hpk
    simp only [phase, add_zero, sub_zero, mul_zero] at this
    exact this

/-- non-vacuity of the rounding hypothesis: the integers, `P = 5`, rounded division, centred residue -/
example : ∀ x : Int, (5 : Int) * ((x + 2) / 5) = (RingHom.id Int) x - (RingHom.id Int) (x - 5 * ((x + 2) / 5)) := by
  intro x; simp

/-- **degree 0 under a public key**: there is no room for `c1`; the Go code indexes `ct.Value[1]` and panics
    (no error value).  Both variants. -/
theorem pk_deg0_panics {β : Type} [CommRing β] (MQ : Mont α) (MQP : Mont β) (ext : α → β) (down : β → α)
    (md : MetaData μ) (o0 : α) (u e0 e1 : α) (pk0M pk1M : β) (qk0M qk1M : α) :
    ezPk MQ MQP ext down u e0 e1 pk0M pk1M md [o0] = none ∧
    ezPkNoP MQ u e0 e1 qk0M qk1M md [o0] = none :=
  ⟨rfl, rfl⟩

/-! ## metadata, flags -/

/-- **metadata_eq.** Whatever `EncryptZero` variant is used, if `Encrypt` then `Decrypt` succeed, the output
    metadata (plaintext part and both flags) is the plaintext's. -/
theorem metadata_eq (M : Mont α) (ez : MetaData μ → List α → Option (List α)) (ntt intt : α → α)
    (pt out : Pt α μ) (ct ct' : Ct α μ) (sM : α)
    (he : encrypt ez ntt intt (some pt) ct = some ct') (hd : decrypt M ct' sM = some out) :
    out.md = pt.md := by
  rw [decrypt_md M ct' sM out hd, encrypt_md ez ntt intt pt ct ct' he]

example : ∃ (pt out : Pt Int Unit) (ct ct' : Ct Int Unit),
    encrypt (ezSk ⟨id, id⟩ 1 0 1) id id (some pt) ct = some ct' ∧
    decrypt ⟨id, id⟩ ct' 1 = some out :=
  ⟨⟨5, ⟨(), true, false⟩⟩, ⟨5, ⟨(), true, false⟩⟩, ⟨[0, 0], ⟨(), false, false⟩⟩, ⟨[4, 1], ⟨(), true, false⟩⟩,
    by decide, by decide⟩

/-- `Encrypt` never takes the mixed branches of `addPtToCt` (the result is independent of the transforms). -/
theorem encrypt_indep_transforms (ez : MetaData μ → List α → Option (List α)) (ntt intt : α → α)
    (pt : Option (Pt α μ)) (ct : Ct α μ) : encrypt ez ntt intt pt ct = encrypt ez id id pt ct :=
  encrypt_flags_agree ez ntt intt id id pt ct

/-! ## norms: the two-sided bound, upper side -/

open Lattigo.ZPoly in
/-- **‖a·b‖∞ ≤ ‖a‖₁·‖b‖∞** in `Z[X]/(X^N+1)` (every N, every pair of coefficient lists). -/
theorem negacyclic_norm (a b : List Int) : normInf (mul a b) ≤ norm1 a * normInf b := normInf_mul_le a b

open Lattigo.ZPoly in
/-- **noise_upper, secret key**: the fresh noise is `e` (`dec_enc_sk`), so `‖noise‖∞ ≤ B_e`. -/
theorem noise_upper_sk (e : List Int) (B : Nat) (he : normInf e ≤ B) : normInf e ≤ B := he

open Lattigo.ZPoly in
/-- **noise_upper, public key without P**: `‖u·e_pk + e0 + s·e1‖∞ ≤ B_e·(‖u‖₁ + 1 + ‖s‖₁)`. -/
theorem noise_upper_pk_noP (u epk e0 e1 s : List Int) (B : Nat)
    (hpk : normInf epk ≤ B) (h0 : normInf e0 ≤ B) (h1 : normInf e1 ≤ B) :
    normInf (add (add (mul u epk) e0) (mul s e1)) ≤ B * (norm1 u + 1 + norm1 s) :=
  ZPoly.noise_upper_pk_noP u epk e0 e1 s B hpk h0 h1

open Lattigo.ZPoly in
/-- **noise_upper, public key with P**: from `P·n = E − δ0 − s·δ1` (`dec_enc_pk_P`) and `2|δ| ≤ P`:
    `2P‖n‖∞ ≤ 2‖E‖∞ + P(1 + ‖s‖₁)`, with `‖E‖∞` bounded by `noise_upper_pk_noP`. -/
theorem noise_upper_pk_P (P : Nat) (n E d0 d1 s : List Int)
    (hrel : smul P n = sub (sub E d0) (mul s d1))
    (hd0 : 2 * normInf d0 ≤ P) (hd1 : 2 * normInf d1 ≤ P) :
    2 * (P * normInf n) ≤ 2 * normInf E + P * (1 + norm1 s) :=
  ZPoly.noise_upper_pk_P P n E d0 d1 s hrel hd0 hd1

open Lattigo.ZPoly in
/-- non-vacuity (and a sanity test of the product): N = 2, `(1 + 2X)(3 + 4X) = 3 + 10X + 8X² = −5 + 10X` -/
example : mul [1, 2] [3, 4] = [-5, 10] ∧ normInf (mul [1, 2] [3, 4]) ≤ norm1 [1, 2] * normInf [3, 4] := by decide

open Lattigo.ZPoly in
example : smul (5 : Nat) [1, -1] = sub (sub [7, -4] [2, 1]) (mul [1, 0] [0, 0]) ∧ 2 * normInf [2, 1] ≤ 5 := by decide

/-- test (not a theorem about all inputs): the integer product reduces to `RPoly.rowMul` modulo 97 on a sample -/
example : (ZPoly.mul [1, 2, 3, 4] [5, 6, 7, 96]).map (fun x => (x % 97).toNat)
    = RPoly.rowMul 97 [1, 2, 3, 4] [5, 6, 7, 96] := by decide

end Lattigo.Props.C03

#print axioms Lattigo.Props.C03.dec_enc_sk
#print axioms Lattigo.Props.C03.dec_enc_sk_denote
#print axioms Lattigo.Props.C03.dec_enc_sk_deg0
#print axioms Lattigo.Props.C03.wrong_key
#print axioms Lattigo.Props.C03.unit_mul_bijective
#print axioms Lattigo.Props.C03.genPublicKey_noise
#print axioms Lattigo.Props.C03.dec_enc_pk_noP
#print axioms Lattigo.Props.C03.dec_enc_pk_denote
#print axioms Lattigo.Props.C03.dec_enc_pk_P
#print axioms Lattigo.Props.C03.pk_deg0_panics
#print axioms Lattigo.Props.C03.metadata_eq
#print axioms Lattigo.Props.C03.encrypt_indep_transforms
#print axioms Lattigo.Props.C03.negacyclic_norm
#print axioms Lattigo.Props.C03.noise_upper_sk
#print axioms Lattigo.Props.C03.noise_upper_pk_noP
#print axioms Lattigo.Props.C03.noise_upper_pk_P
