/-
  C03 — decryption inverts encryption with noise inside a two-sided bound.

  The theorems are about the definitions of `Model/RLWE.lean` that the driver executes
  (`encryptZeroSk`, `encryptZeroPk`, `encryptZeroPkNoP`, `addPtToCt`, `encrypt`, `decrypt`, `genPublicKey`,
  `RQ.errDraw`), for EVERY commutative ring as carrier.  The executable carrier `RQ`/`RPoly` is tied to the
  Go code by the correspondence run; that `RPoly` with its operations is a commutative ring is C01's statement.

  Reading of the flags.  A model value is the stored polynomial pulled back to the coefficient domain with
  the Montgomery factor kept.  `denote M md x` is the polynomial it stands for: `ofM x` iff `md.isMont`.

  Found false of the code (each with a counterexample theorem below and a failing probe in `harness/c03*.go`):
    * `IsMontgomery = true` with an sk-encryptor or a pk-encryptor without P: the error is added outside the
      Montgomery domain, the denoted noise is `e·R⁻¹`                    (`montgomery_flag_counterexample`)
    * sk-encryptor and a target of degree ≥ 2: `c1` is never written    (`sk_degree2_counterexample`)
    * any target of degree ≥ 2 that is re-used: `Value[2:]` is kept     (`dec_enc_degGe2_partial`)
    * Xe = Ternary{H}, target outside the NTT domain: `ReadAndAdd` zeroes the unselected coefficients
                                                                         (`sparse_readAndAdd_counterexample`)
    * Xe ternary, target outside the NTT domain and below the top level: `ReadAndAdd` panics
                                                                         (`ternary_atLevel_panics`)
  Partial: distributional statements (standard deviation, independence of two encryptions, uniformity of the
  wrong-key phase) are labelled statistical tests in the harness; there is no probability theory here.
-/
import Lattigo.Proofs.RLWE
import Lattigo.Proofs.RLWENorm
import Mathlib.Data.ZMod.Basic

namespace Lattigo.Props.C03
open Lattigo Lattigo.RLWE

variable {α : Type} [CommRing α] {μ : Type}

/-- `EncryptZero` of an sk-encryptor as a function of the target's metadata and content -/
abbrev ezSk (M : Mont α) (a : α) (xe : ErrDraw α) (sM : α) : MetaData μ → List α → Option (List α) :=
  fun md old => encryptZeroSk M md.isNTT old a xe sM

abbrev ezPkNoP (M : Mont α) (u : α) (xe0 xe1 : ErrDraw α) (pk0M pk1M : α) :
    MetaData μ → List α → Option (List α) :=
  fun md old => encryptZeroPkNoP M md.isNTT old u xe0 xe1 pk0M pk1M

abbrev ezPk {β : Type} [CommRing β] (MQ : Mont α) (MQP : Mont β) (ext : α → β) (down : β → α)
    (u e0 e1 : α) (pk0M pk1M : β) : MetaData μ → List α → Option (List α) :=
  fun md old => encryptZeroPk MQ MQP ext down md.isMont old u e0 e1 pk0M pk1M

/-! ## secret key -/

/-- **dec_enc_sk.** Degree-1 target, honest error draw, every flag combination, every plaintext, every
    previous content of the target: `Decrypt(Encrypt(pt))` has the plaintext's metadata and the stored value
    `pt.value + e` — the fresh noise IS the sampled error. -/
theorem dec_enc_sk {M : Mont α} {R Rinv : α} (h : IsMont M R Rinv) {xe : ErrDraw α} (hx : xe.Honest)
    (ntt intt : α → α) (pt : Pt α μ) (ct : Ct α μ) (o0 o1 : α) (hct : ct.value = [o0, o1]) (a s : α) :
    (encrypt (ezSk M a xe (M.toM s)) ntt intt (some pt) ct).bind (fun ct' => decrypt M ct' (M.toM s))
      = some { value := pt.value + xe.e, md := pt.md } := by
  have hz : ezSk M a xe (M.toM s) pt.md ct.value = some [-(a * s) + xe.e, a] := by
    simp only [ezSk, hct]; exact encryptZeroSk_deg1 h _ o0 o1 a s hx
  rw [encrypt_value _ ntt intt pt ct _ _ hz]
  simp only [Option.bind_some]
  rw [decrypt_eq h s _ (by simp)]
  simp only [phase_encSk]

example : IsMont (⟨(· * 2), (· * 4)⟩ : Mont (ZMod 7)) 2 4 := ⟨by decide, fun _ => rfl, fun _ => rfl⟩
example (e : α) : (ErrDraw.dense e).Honest := ErrDraw.dense_honest e

/-- the same in terms of denoted polynomials: the denoted noise is `e` when the Montgomery flag is clear and
    `e·R⁻¹` when it is set. -/
theorem dec_enc_sk_denote {M : Mont α} {R Rinv : α} (h : IsMont M R Rinv) (pt : Pt α μ) (e : α) :
    denote M pt.md (pt.value + e) - denote M pt.md pt.value = if pt.md.isMont then M.ofM e else e := by
  unfold denote
  cases pt.md.isMont
  · simp
  · simp only [if_true, h.ofM]; ring

/-- **The property fails for `IsMontgomery = true` under a secret key** (same for a public key without P,
    `dec_enc_pk_noP`): over `Z/7`, `R = 2`, error `e = 1`, plaintext 0 flagged Montgomery: the denoted noise of
    `Decrypt(Encrypt(pt))` is `4 = e·R⁻¹`, not `1`.  (On the real ring `R⁻¹ = 2^-64 mod Q`, so the noise is of
    the order of Q: probe `dec_enc_noise_upper`, key `C03-montgomery-flag`.) -/
theorem montgomery_flag_counterexample :
    ∃ (M : Mont (ZMod 7)) (R Rinv : ZMod 7), IsMont M R Rinv ∧
      ∃ (pt : Pt (ZMod 7) Unit) (ct : Ct (ZMod 7) Unit) (a s e : ZMod 7) (out : Pt (ZMod 7) Unit),
        pt.md.isMont = true ∧ ct.value = [0, 0] ∧
        (encrypt (ezSk M a (ErrDraw.dense e) (M.toM s)) id id (some pt) ct).bind
            (fun ct' => decrypt M ct' (M.toM s)) = some out ∧
        denote M out.md out.value - denote M pt.md pt.value ≠ e := by
  refine ⟨⟨(· * 2), (· * 4)⟩, 2, 4, ⟨by decide, fun _ => rfl, fun _ => rfl⟩, ?_⟩
  refine ⟨⟨0, ⟨(), true, true⟩⟩, ⟨[0, 0], ⟨(), false, false⟩⟩, 3, 1, 1, ⟨1, ⟨(), true, true⟩⟩, rfl, rfl, ?_, ?_⟩
  · decide
  · decide

/-- **degree-0 target** (compressed ciphertext, `c1` re-expanded from the PRNG by the receiver):
    the stored `c0` together with the drawn `a` decrypts to `m + e`. -/
theorem dec_enc_sk_deg0 {M : Mont α} {R Rinv : α} (h : IsMont M R Rinv) {xe : ErrDraw α} (hx : xe.Honest)
    (ntt intt : α → α) (pt : Pt α μ) (ct : Ct α μ) (o0 : α) (hct : ct.value = [o0]) (a s : α) :
    ∃ c0, encrypt (ezSk M a xe (M.toM s)) ntt intt (some pt) ct = some { value := [c0], md := pt.md } ∧
      decrypt M ({ value := [c0, a], md := pt.md } : Ct α μ) (M.toM s)
        = some { value := pt.value + xe.e, md := pt.md } := by
  have hz : ezSk M a xe (M.toM s) pt.md ct.value = some [-(a * s) + xe.e] := by
    simp only [ezSk, hct]; exact encryptZeroSk_deg0 h _ o0 a s hx
  refine ⟨-(a * s) + xe.e + pt.value, encrypt_value _ ntt intt pt ct _ _ hz, ?_⟩
  rw [decrypt_eq h s _ (by simp)]
  simp only [phase_encSk]

/-- **degree ≥ 2 target, as the code is**: the phase is `m + e − a·s + s·(o1 + s·(o2 + …))` where `o1, o2, …` is
    the previous content of `Value[1:]`.  FULL statement wanted by the property: `… = pt.value + xe.e`; it
    holds only if the stale tail happens to cancel `a·s`. -/
theorem dec_enc_sk_degGe2_partial {M : Mont α} {R Rinv : α} (h : IsMont M R Rinv) {xe : ErrDraw α} (hx : xe.Honest)
    (ntt intt : α → α) (pt : Pt α μ) (ct : Ct α μ) (o0 o1 o2 : α) (rest : List α)
    (hct : ct.value = o0 :: o1 :: o2 :: rest) (a s : α) :
    (encrypt (ezSk M a xe (M.toM s)) ntt intt (some pt) ct).bind (fun ct' => decrypt M ct' (M.toM s))
      = some { value := pt.value + xe.e - a * s + s * phase s (o1 :: o2 :: rest), md := pt.md } := by
  have hz : ezSk M a xe (M.toM s) pt.md ct.value = some ((-(a * s) + xe.e) :: o1 :: o2 :: rest) := by
    simp only [ezSk, hct]; exact encryptZeroSk_degGe2 h _ o0 o1 o2 a s rest hx
  rw [encrypt_value _ ntt intt pt ct _ _ hz]
  simp only [Option.bind_some]
  rw [decrypt_eq h s _ (by simp)]
  simp only [Option.some.injEq, Pt.mk.injEq, and_true, phase]
  ring

/-- **The property fails for an sk-encryptor and a fresh (all-zero) degree-2 target**: over `Z`, `a = s = 1`,
    `e = 0`, `m = 0`: the result is `−1`, not `m + e = 0`.  (Probe key `C03-sk-degree-ge2`.) -/
theorem sk_degree2_counterexample :
    ∃ (M : Mont Int), IsMont M 1 1 ∧
      (encrypt (μ := Unit) (ezSk M 1 (ErrDraw.dense 0) (M.toM 1)) id id
          (some ⟨0, ⟨(), false, false⟩⟩) ⟨[0, 0, 0], ⟨(), false, false⟩⟩).bind
        (fun ct' => decrypt M ct' (M.toM 1)) = some ⟨-1, ⟨(), false, false⟩⟩ := by
  refine ⟨⟨id, id⟩, ⟨rfl, fun x => (mul_one x).symm, fun x => (mul_one x).symm⟩, ?_⟩
  decide

/-- **wrong_key.** Decrypting a fresh sk-ciphertext with another key `s'`: the distance to the plaintext is
    `e + a·(s' − s)`; `a` is the uniform draw, so for `s' − s` a unit this is a uniform element shifted by `e`
    (`unit_mul_bijective`). -/
theorem wrong_key {M : Mont α} {R Rinv : α} (h : IsMont M R Rinv) {xe : ErrDraw α} (hx : xe.Honest)
    (ntt intt : α → α) (pt : Pt α μ) (ct : Ct α μ) (o0 o1 : α) (hct : ct.value = [o0, o1]) (a s s' : α) :
    ∃ out, (encrypt (ezSk M a xe (M.toM s)) ntt intt (some pt) ct).bind (fun ct' => decrypt M ct' (M.toM s'))
        = some out ∧ out.value - pt.value = xe.e + a * (s' - s) ∧ out.md = pt.md := by
  have hz : ezSk M a xe (M.toM s) pt.md ct.value = some [-(a * s) + xe.e, a] := by
    simp only [ezSk, hct]; exact encryptZeroSk_deg1 h _ o0 o1 a s hx
  rw [encrypt_value _ ntt intt pt ct _ _ hz]
  simp only [Option.bind_some]
  rw [decrypt_eq h s' _ (by simp)]
  exact ⟨_, rfl, phase_encSk_wrong_key a xe.e s s' pt.value, rfl⟩

theorem unit_mul_bijective (d : α) (dinv : α) (hd : d * dinv = 1) : Function.Bijective (fun a : α => a * d) := by
  constructor
  · intro x y hxy
    have := congrArg (· * dinv) hxy
    simpa [mul_assoc, hd] using this
  · intro y
    exact ⟨y * dinv, by simp [mul_assoc, mul_comm dinv d, hd]⟩

/-! ## public key -/

/-- **genPublicKey.** The generated key satisfies `pk0 + pk1·s = e` after stripping the Montgomery factor. -/
theorem genPublicKey_noise {β : Type} [CommRing β] {M : Mont β} {R Rinv : β} (h : IsMont M R Rinv)
    (ext : α → β) (a : β) (e : α) (s : β) :
    let pk := genPublicKey M ext a e (M.toM s)
    M.ofM pk.1 + M.ofM pk.2 * s = ext e := genPublicKey_relation h ext a e s

/-- **dec_enc_pk_noP.** No auxiliary modulus, degree-1 target, honest draws, every flag combination:
    stored result `m + u·e_pk + e0 + e1·s` where `pk0 + pk1·s = e_pk`. -/
theorem dec_enc_pk_noP {M : Mont α} {R Rinv : α} (h : IsMont M R Rinv) {xe0 xe1 : ErrDraw α}
    (h0 : xe0.Honest) (h1 : xe1.Honest) (ntt intt : α → α) (pt : Pt α μ) (ct : Ct α μ) (o0 o1 : α)
    (hct : ct.value = [o0, o1]) (u pk0 pk1 epk s : α) (hpk : pk0 + pk1 * s = epk) :
    (encrypt (ezPkNoP M u xe0 xe1 (M.toM pk0) (M.toM pk1)) ntt intt (some pt) ct).bind
        (fun ct' => decrypt M ct' (M.toM s))
      = some { value := pt.value + u * epk + xe0.e + xe1.e * s, md := pt.md } := by
  have hz : ezPkNoP M u xe0 xe1 (M.toM pk0) (M.toM pk1) pt.md ct.value
      = some [u * pk0 + xe0.e, u * pk1 + xe1.e] := by
    simp only [ezPkNoP, hct]; exact encryptZeroPkNoP_deg1 h _ o0 o1 u pk0 pk1 [] h0 h1
  rw [encrypt_value _ ntt intt pt ct _ _ hz]
  simp only [Option.bind_some]
  rw [decrypt_eq h s _ (by simp)]
  simp only [phase_encPk u xe0.e xe1.e pk0 pk1 s epk pt.value hpk]

/-- **dec_enc_pk_P.** Auxiliary modulus present (the code uses its first prime only), degree-1 target.
    `π : R_{QP} → R_Q`, `ext` a section of `π` (`ExtendBasisSmallNormAndCenter`), `down` the rounded division with
    `P·down x = π x − π(rem x)` (`rem x` the centred residue mod P).  The stored result is `m + D` (flag clear)
    resp. `m + D·R` (flag set: `MForm` is applied to the zero-encryption, so the DENOTED noise is `D` either
    way), and `P·D = π(u·e_pk + e0 + e1·s) − π(rem c0) − π(rem c1)·s`. -/
theorem dec_enc_pk_P {β : Type} [CommRing β] {MQ : Mont α} {R Rinv : α} (h : IsMont MQ R Rinv)
    {MQP : Mont β} {R' Rinv' : β} (h' : IsMont MQP R' Rinv')
    (π : β →+* α) (ext : α → β) (P : α) (down : β → α) (rem : β → β)
    (hdown : ∀ x, P * down x = π x - π (rem x))
    (ntt intt : α → α) (pt : Pt α μ) (ct : Ct α μ) (o0 o1 : α) (hct : ct.value = [o0, o1])
    (u e0 e1 : α) (pk0 pk1 epk sQP : β) (hpk : pk0 + pk1 * sQP = epk) :
    let c0 := ext u * pk0 + ext e0
    let c1 := ext u * pk1 + ext e1
    let D := down c0 + π sQP * down c1
    (encrypt (ezPk MQ MQP ext down u e0 e1 (MQP.toM pk0) (MQP.toM pk1)) ntt intt (some pt) ct).bind
        (fun ct' => decrypt MQ ct' (MQ.toM (π sQP)))
      = some { value := pt.value + (if pt.md.isMont then MQ.toM D else D), md := pt.md }
    ∧ P * D = π (ext u * epk + ext e0 + ext e1 * sQP) - π (rem c0) - π (rem c1) * π sQP := by
  intro c0 c1 D
  constructor
  · have hz := encryptZeroPk_deg1 (MQ := MQ) h' ext down pt.md.isMont o0 o1 u e0 e1 [] pk0 pk1
    rw [← hct] at hz
    rw [encrypt_value (ezPk MQ MQP ext down u e0 e1 (MQP.toM pk0) (MQP.toM pk1)) ntt intt pt ct _ _ hz]
    simp only [Option.bind_some]
    rw [decrypt_eq h (π sQP) _ (by simp)]
    simp only [Option.some.injEq, Pt.mk.injEq, and_true]
    cases pt.md.isMont
    · simp only [phase, Bool.false_eq_true, if_false, D, c0, c1]; ring
    · simp only [phase, if_true, h.toM, D, c0, c1]; ring
  · have := phase_encPk_P π P down rem hdown (ext u) (ext e0) (ext e1) pk0 pk1 sQP epk 0 hpk
    simp only [phase, add_zero, sub_zero, mul_zero] at this
    exact this

/-- non-vacuity of the rounding hypothesis: the integers, `P = 5`, rounded division, centred residue -/
example : ∀ x : Int, (5 : Int) * ((x + 2) / 5) = (RingHom.id Int) x - (RingHom.id Int) (x - 5 * ((x + 2) / 5)) := by
  intro x; simp

/-- **degree 0 under a public key**: there is no room for `c1`; the Go code indexes `ct.Value[1]` and panics
    (no error value).  Both variants. -/
theorem pk_deg0_panics {β : Type} [CommRing β] (MQ : Mont α) (MQP : Mont β) (ext : α → β) (down : β → α)
    (isNTT isMont : Bool) (o0 : α) (u e0 e1 : α) (xe0 xe1 : ErrDraw α) (pk0M pk1M : β) (qk0M qk1M : α) :
    encryptZeroPk MQ MQP ext down isMont [o0] u e0 e1 pk0M pk1M = none ∧
    encryptZeroPkNoP MQ isNTT [o0] u xe0 xe1 qk0M qk1M = none :=
  ⟨rfl, rfl⟩

/-- **degree ≥ 2 under a public key, as the code is**: `Value[2:]` keeps its previous content, the phase picks
    up `s²·(o2 + …)`.  With a fresh (zero) target this term vanishes. -/
theorem dec_enc_degGe2_partial {M : Mont α} {R Rinv : α} (h : IsMont M R Rinv) {xe0 xe1 : ErrDraw α}
    (h0 : xe0.Honest) (h1 : xe1.Honest) (ntt intt : α → α) (pt : Pt α μ) (ct : Ct α μ) (o0 o1 o2 : α)
    (rest : List α) (hct : ct.value = o0 :: o1 :: o2 :: rest) (u pk0 pk1 epk s : α) (hpk : pk0 + pk1 * s = epk) :
    (encrypt (ezPkNoP M u xe0 xe1 (M.toM pk0) (M.toM pk1)) ntt intt (some pt) ct).bind
        (fun ct' => decrypt M ct' (M.toM s))
      = some { value := pt.value + u * epk + xe0.e + xe1.e * s + s * (s * phase s (o2 :: rest)), md := pt.md } := by
  have hz : ezPkNoP M u xe0 xe1 (M.toM pk0) (M.toM pk1) pt.md ct.value
      = some ((u * pk0 + xe0.e) :: (u * pk1 + xe1.e) :: o2 :: rest) := by
    simp only [ezPkNoP, hct]; exact encryptZeroPkNoP_deg1 h _ o0 o1 u pk0 pk1 (o2 :: rest) h0 h1
  rw [encrypt_value _ ntt intt pt ct _ _ hz]
  simp only [Option.bind_some]
  rw [decrypt_eq h s _ (by simp)]
  subst hpk
  simp only [Option.some.injEq, Pt.mk.injEq, and_true, phase]
  ring

/-! ## metadata, flags -/

/-- **metadata_eq.** Whatever `EncryptZero` variant is used, if `Encrypt` then `Decrypt` succeed, the output
    metadata (plaintext part and both flags) is the plaintext's. -/
theorem metadata_eq (M : Mont α) (ez : MetaData μ → List α → Option (List α)) (ntt intt : α → α)
    (pt out : Pt α μ) (ct ct' : Ct α μ) (sM : α)
    (he : encrypt ez ntt intt (some pt) ct = some ct') (hd : decrypt M ct' sM = some out) :
    out.md = pt.md := by
  rw [decrypt_md M ct' sM out hd, encrypt_md ez ntt intt pt ct ct' he]

example : ∃ (pt out : Pt Int Unit) (ct ct' : Ct Int Unit),
    encrypt (ezSk ⟨id, id⟩ 1 (ErrDraw.dense 0) 1) id id (some pt) ct = some ct' ∧
    decrypt ⟨id, id⟩ ct' 1 = some out :=
  ⟨⟨5, ⟨(), true, false⟩⟩, ⟨5, ⟨(), true, false⟩⟩, ⟨[0, 0], ⟨(), false, false⟩⟩, ⟨[4, 1], ⟨(), true, false⟩⟩,
    by decide, by decide⟩

/-- `Encrypt` never takes the mixed branches of `addPtToCt` (the result is independent of the transforms). -/
theorem encrypt_indep_transforms (ez : MetaData μ → List α → Option (List α)) (ntt intt : α → α)
    (pt : Option (Pt α μ)) (ct : Ct α μ) : encrypt ez ntt intt pt ct = encrypt ez id id pt ct :=
  encrypt_flags_agree ez ntt intt id id pt ct

/-- The `IsNTT` flag does not change the stored result of `EncryptZero` for an honest error sampler
    (it only selects `Read`+`Add` or `ReadAndAdd`). -/
theorem encryptZeroSk_isNTT_irrelevant (M : Mont α) {xe : ErrDraw α} (hx : xe.Honest) (old : List α) (a sM : α) :
    encryptZeroSk M true old a xe sM = encryptZeroSk M false old a xe sM := by
  unfold encryptZeroSk
  simp [addErr_honest true hx, addErr_honest false hx]

/-! ## the ternary error sampler is not honest -/

/-- **Xe ternary, target outside the NTT domain, level below the top level: `Encrypt` panics**
    (`TernarySampler.AtLevel` keeps writing all rows; probe key `C03-ternary-atlevel-panic`). -/
theorem ternary_atLevel_panics (kind : RQ.XeKind) (hk : kind ≠ .gauss) (level maxLevel : Nat)
    (hl : level < maxLevel) (e a sM : RQ) (old : List RQ) :
    encryptZeroSk RQ.mont false old a (RQ.errDraw kind level maxLevel e) sM = none := by
  cases kind with
  | gauss => exact absurd rfl hk
  | ternaryP => match old with
    | [] | [_] | [_, _] | _ :: _ :: _ :: _ => simp [encryptZeroSk, addErr, RQ.errDraw, hl]
  | ternaryH => match old with
    | [] | [_] | [_, _] | _ :: _ :: _ :: _ => simp [encryptZeroSk, addErr, RQ.errDraw, hl]

example : (2 : Nat) < 3 ∧ RQ.XeKind.ternaryP ≠ .gauss := by decide

/-- the sampled error `e = (1, 0)` and a target `c = (5, 7)` modulo 97, top level -/
def sparseWitness : RQ × RQ := (⟨false, ⟨[97], [[1, 0]]⟩⟩, ⟨false, ⟨[97], [[5, 7]]⟩⟩)

/-- **Xe = Ternary{H} is not honest under `ReadAndAdd`**: the coefficient that was not selected is overwritten
    with 0 (`7 ↦ 0`), so `c0 = −a·s + e` is destroyed there and the phase is off by `a·s` in that coefficient
    (probe key `C03-ternaryH-readandadd`). -/
theorem sparse_readAndAdd_counterexample :
    (RQ.errDraw .ternaryH 0 0 sparseWitness.1).readAndAdd sparseWitness.2
        = some ⟨false, ⟨[97], [[6, 0]]⟩⟩ ∧
    sparseWitness.2 + sparseWitness.1 = ⟨false, ⟨[97], [[6, 7]]⟩⟩ := by
  decide

/-! ## norms: the two-sided bound, upper side -/

open Lattigo.ZPoly in
/-- **‖a·b‖∞ ≤ ‖a‖₁·‖b‖∞** in `Z[X]/(X^N+1)` (every N, every pair of coefficient lists). -/
theorem negacyclic_norm (a b : List Int) : normInf (mul a b) ≤ norm1 a * normInf b := normInf_mul_le a b

open Lattigo.ZPoly in
/-- **noise_upper, secret key**: the fresh noise is `e` (`dec_enc_sk`), so `‖noise‖∞ ≤ B_e`. -/
theorem noise_upper_sk (e : List Int) (B : Nat) (he : normInf e ≤ B) : normInf e ≤ B := he

open Lattigo.ZPoly in
/-- **noise_upper, public key without P**: `‖u·e_pk + e0 + s·e1‖∞ ≤ B_e·(‖u‖₁ + 1 + ‖s‖₁)`. -/
theorem noise_upper_pk_noP (u epk e0 e1 s : List Int) (B : Nat)
    (hpk : normInf epk ≤ B) (h0 : normInf e0 ≤ B) (h1 : normInf e1 ≤ B) :
    normInf (add (add (mul u epk) e0) (mul s e1)) ≤ B * (norm1 u + 1 + norm1 s) :=
  ZPoly.noise_upper_pk_noP u epk e0 e1 s B hpk h0 h1

open Lattigo.ZPoly in
/-- **noise_upper, public key with P**: from `P·n = E − δ0 − s·δ1` (`dec_enc_pk_P`) and `2|δ| ≤ P`:
    `2P‖n‖∞ ≤ 2‖E‖∞ + P(1 + ‖s‖₁)`, with `‖E‖∞` bounded by `noise_upper_pk_noP`. -/
theorem noise_upper_pk_P (P : Nat) (n E d0 d1 s : List Int)
    (hrel : smul P n = sub (sub E d0) (mul s d1))
    (hd0 : 2 * normInf d0 ≤ P) (hd1 : 2 * normInf d1 ≤ P) :
    2 * (P * normInf n) ≤ 2 * normInf E + P * (1 + norm1 s) :=
  ZPoly.noise_upper_pk_P P n E d0 d1 s hrel hd0 hd1

open Lattigo.ZPoly in
/-- non-vacuity (and a sanity test of the product): N = 2, `(1 + 2X)(3 + 4X) = 3 + 10X + 8X² = −5 + 10X` -/
example : mul [1, 2] [3, 4] = [-5, 10] ∧ normInf (mul [1, 2] [3, 4]) ≤ norm1 [1, 2] * normInf [3, 4] := by decide

open Lattigo.ZPoly in
example : smul (5 : Nat) [1, -1] = sub (sub [7, -4] [2, 1]) (mul [1, 0] [0, 0]) ∧ 2 * normInf [2, 1] ≤ 5 := by decide

/-- test (not a theorem about all inputs): the integer product reduces to `RPoly.rowMul` modulo 97 on a sample -/
example : (ZPoly.mul [1, 2, 3, 4] [5, 6, 7, 96]).map (fun x => (x % 97).toNat)
    = RPoly.rowMul 97 [1, 2, 3, 4] [5, 6, 7, 96] := by decide

end Lattigo.Props.C03

#print axioms Lattigo.Props.C03.dec_enc_sk
#print axioms Lattigo.Props.C03.dec_enc_sk_denote
#print axioms Lattigo.Props.C03.montgomery_flag_counterexample
#print axioms Lattigo.Props.C03.dec_enc_sk_deg0
#print axioms Lattigo.Props.C03.dec_enc_sk_degGe2_partial
#print axioms Lattigo.Props.C03.sk_degree2_counterexample
#print axioms Lattigo.Props.C03.wrong_key
#print axioms Lattigo.Props.C03.unit_mul_bijective
#print axioms Lattigo.Props.C03.genPublicKey_noise
#print axioms Lattigo.Props.C03.dec_enc_pk_noP
#print axioms Lattigo.Props.C03.dec_enc_pk_P
#print axioms Lattigo.Props.C03.pk_deg0_panics
#print axioms Lattigo.Props.C03.dec_enc_degGe2_partial
#print axioms Lattigo.Props.C03.metadata_eq
#print axioms Lattigo.Props.C03.encrypt_indep_transforms
#print axioms Lattigo.Props.C03.encryptZeroSk_isNTT_irrelevant
#print axioms Lattigo.Props.C03.ternary_atLevel_panics
#print axioms Lattigo.Props.C03.sparse_readAndAdd_counterexample
#print axioms Lattigo.Props.C03.negacyclic_norm
#print axioms Lattigo.Props.C03.noise_upper_sk
#print axioms Lattigo.Props.C03.noise_upper_pk_noP
#print axioms Lattigo.Props.C03.noise_upper_pk_P
