import Lattigo.Proofs.ScalingRefine
import Lattigo.Proofs.BasisExtPrimes
import Lattigo.Proofs.DecompInt
import Lattigo.Proofs.ScalingNTT
import Lattigo.Proofs.BasisExtLimb
import Lattigo.Proofs.DecompLimb
import Lattigo.Proofs.BasisExtNTT
import Lattigo.Proofs.DecompNTT
import Lattigo.Proofs.BasisExtIndex
import Lattigo.Proofs.BasisExtEval

/-!
# C02 — RNS basis extension, rescaling and gadget decomposition match integer division

Two levels (DESIGN.md §5.2): **(A) integer level** — executable specification functions on residues
(`divFloorInt`, `divRoundInt`, `manyFloorInt`, `manyRoundInt`, `hpsY/hpsSum/hpsV/hpsOut`, `modDownRes`, `centerInt`,
`pow2Digit/pow2Recombine`, `rnsRecombine`; driver ops `int …`, compared with math/big); **(B) limb level** — the
bit-exact twins of the Go functions (Model/Scaling.lean, BasisExt.lean, Decomp.lean), tied limb for limb to the real
code by the correspondence.  (B) is PROVED to refine (A); status by clause of the property text:

**1. "Dividing by the last modulus (floored / rounded, once or several times, in or out of the NTT domain) yields exactly
the floored / rounded-half-up quotient" — proved for all inputs, all 8 functions, every ring degree `N = 2^K`, standard
ring.**  `divFloor_crt`, `divRound_crt`, `round_half_up`, `divFloorMany_int`, `divRoundMany_int` (integer level; for odd
moduli sequential rounding IS rounding by the product); `divFloor_limbs`, `divRound_limbs`, `divFloorMany_limbs`,
`divRoundMany_limbs`, `roundSeq_eq` (coefficient domain, from `MRed_spec`, `MForm_spec`, Fermat); `divFloorNTT_limbs`,
`divRoundNTT_limbs`, `divFloorManyNTT_limbs`, `divRoundManyNTT_limbs`, `divFloorNTT_coeffs` (NTT domain: rows = bit-exact
forward NTT of the residues of the quotient; from C01's `inttStd_nttStd`, the no-wrap theorem `nttCoreLazy_big_all` for
`NTTLazy` of ring `q_i` on residues of the LARGER `q_ℓ`, linearity of the exact network).  FINDINGS repaired in /repo:
C02-1 (`DivRoundByLastModulus` rewrote its input), C02-4 (`Div{Floor,Round}ByLastModulusNTT` off by one for `N < 16` and
on the conjugate-invariant ring: `divFloorNTT_small_ring_repaired`).
*Tied only*: the conjugate-invariant ring (`divFloorNTTX xfCI` …, driver op `divci`; `ring_generic_twins_std` shows the
generic twins are the proved functions on the standard ring) — a proof needs the no-wrap theorem for the CI network
(twist + `flagCI` schedule) on large inputs, which C01 provides for inputs `< 2q` only.

**2. "Extending a centred value from basis Q to basis P returns a value congruent to it modulo the source modulus, the
exact centred representative below a quarter of it, never off by more than one multiple" — proved at limb level up to
ONE named hypothesis on the float index.**  Integer level, all inputs: `hps_sum`, `hps_v_is_floor`, `modUp_exact`,
`modUp_off_by_one`, `modUp_centered_exact`.  Limb level (`ModUpExact`, `ModUpQtoP/PtoQ`): `multSum_limb`,
`reconstruct_limb`, `modUpExact_limbs(_3p)`, `modUpExact_exact`, `modUp_limbs` — the whole Montgomery bookkeeping
(`qoverqiinvqi`, `qoverqimodp`, `vtimesqmodp`, 128-bit accumulation, lazy reduction, uint64 wrap) for ANY index `v ≤ #moduli`;
`modUp_within_one_multiple` — the property's sentence itself under `FidxApprox … 1` resp. `(1/4)`; `fidx_exact_iff`,
`fidx_of_approx` — the exact (iff) condition for the index to be exact, and its consequences.  NOT proved: `FidxApprox`
(Lean `Float` is opaque); the tie compares the index bit for bit, the probes `modup_*` check the sentence on the real code.

**3. "Dividing a value in basis QP by P (or by Q) returns the rounded quotient up to an error of at most 1" — same
status.**  `modDown_err`, `modDown_exact` (integer); `modDownQPtoQ_limbs`, `modDownQPtoP_limbs` (limb `≡ round − δ`,
`δ = hpsV − fidx`), `modDownQPtoQ_err_le_one`, `modDownQPtoQ_exact_of_quarter` (the sentence itself under `FidxApprox`);
`modDownQPtoQNTT_eq` (`N ≥ 16`: NTT-domain variant = NTT ∘ coefficient variant, any index); `evalModDown_domains`,
`evalModDown_noP` (`rlwe.Evaluator.ModDown`: all four domain combinations compute the same limbs; `N ≥ 16` with `P`,
every `N` without).  FINDINGS repaired: C02-3 (doc said floored), C02-5 (copy direction without `P`), C02-6 (doc).
*Tied only*: `ModDownQPtoQNTT` / `Evaluator.ModDown` for `N = 8` (there `INTTLazy` is lazy; harmless since
`reconstructRNS` reduces, but the proof uses `INTTLazy = INTT`) and on the conjugate-invariant ring; `ModDownQPtoP`
has the limb theorem but no `err_le_one` corollary (same proof with `Q`, `P` exchanged).

**4. "The digits of the RNS / power-of-two decomposition recombine to the polynomial modulo Q and are bounded by their
digit modulus" — proved** (HPS branch: up to the same named hypothesis).  `pow2_digit_lt`, `pow2_digits_recombine`,
`pow2_digits_too_few`, `maskVec_eq`; `rns_digits_recombine`; `decompose_single_limbs`, `decompose_multi_limbs`,
`decompose_multi_lt`, `decompose_digits_recombine(_single)`, `centred_digit`, `copy_digit`; `decomposeNTT_some`,
`decomposeNTT_rows`, `nttStd_unreduced` (every `N`).  `decompose_noP_counterexample`: the twin with `nbPi = 0` (how
`rlwe` called it without `P` before repair 3f60e57).  The digit bound `|d| ≤ Q_d/2 (+1 multiple)` is read off
`decompose_*_limbs` (`digitA`, `centeredRep`), not stated as one inequality.

**5. Small-norm extension (mechanism list of the property).**  `extendSmallNorm` (full strength, repaired limb of
`ringqp`), `extendSmallNorm_large_repaired`; `extendSmallNormNTTMontgomery_limb_partial` / `_contract` /
`_counterexample`: `rlwe.ExtendBasisSmallNormAndCenterNTTMontgomery` keeps the wrapping limb — correct for `|x| ≤ p`,
i.e. for every legal (small-norm) input; not a defect, an inconsistency.

Not covered: the IEEE-754 analysis (`FidxApprox`), runtime behaviour (aliasing other than the documented in-place
forms, concurrency), `N > 2^K` structure of `ring.Ring` objects; sizes: chains of distinct odd primes `< 2^61`
(`Chain`), targets with `(k+2)·p ≤ 2^64` (`Target`), `Σ q_i ≤ k·2^64`.
-/

namespace Lattigo.Props.C02
open Lattigo Lattigo.Scaling

/-! ## 1. Division by the last modulus -/

/-- `divFloor_crt`: the per-modulus formula `out_i = (x_i − x_ℓ)·q_ℓ⁻¹ mod q_i` yields the residues of the
FLOORED quotient, for every chain of primes `qs`, every `q_ℓ` none of them divides, every `x`. -/
theorem divFloor_residues (qs : List Nat) (ql x : Nat)
    (hp : ∀ q ∈ qs, Nat.Prime q ∧ q < 2 ^ 64) (hnd : ∀ q ∈ qs, ¬ q ∣ ql) :
    divFloorInt qs ql (residues qs x) (x % ql) = residues qs (x / ql) :=
  divFloorInt_spec qs ql x hp hnd

/-- CRT form: the unique `y < Q_{ℓ-1}` with those residues IS `⌊x / q_ℓ⌋`. -/
theorem divFloor_crt (qs : List Nat) (ql x y : Nat)
    (hp : ∀ q ∈ qs, Nat.Prime q ∧ q < 2 ^ 64) (hnd : ∀ q ∈ qs, ¬ q ∣ ql) (hd : qs.Nodup)
    (hx : x < prodN qs * ql) (hy : y < prodN qs)
    (h : residues qs y = divFloorInt qs ql (residues qs x) (x % ql)) : y = x / ql :=
  Scaling.divFloor_crt qs ql x y hp hnd hd hx hy h

-- test (non-vacuity): Q = 97·193, q_ℓ = 257
example : divFloorInt [97, 193] 257 (residues [97, 193] 1000000) (1000000 % 257) = residues [97, 193] (1000000 / 257) := by
  decide

/-- `divRound_crt`: with the `(q_ℓ−1)/2` pre-addition the result is `⌊(x + (q_ℓ−1)/2)/q_ℓ⌋` (mod `Q_{ℓ-1}`:
for `x` within `q_ℓ/2` of `Q_ℓ` the quotient is `Q_{ℓ-1} ≡ 0`, i.e. the centred value −ε rounds to 0). -/
theorem divRound_crt (qs : List Nat) (ql x y : Nat)
    (hp : ∀ q ∈ qs, Nat.Prime q ∧ q < 2 ^ 64) (hnd : ∀ q ∈ qs, ¬ q ∣ ql) (hql : 0 < ql) (hd : qs.Nodup)
    (hy : y < prodN qs)
    (h : residues qs y = divRoundInt qs ql (residues qs x) (x % ql)) :
    y = ((x + half ql) / ql) % prodN qs :=
  Scaling.divRound_crt qs ql x y hp hnd hql hd hy h

/-- … and that quotient is round-half-up `⌊x/q + 1/2⌋ = ⌊(2x + q)/(2q)⌋` for odd `q`. -/
theorem round_half_up (q x : Nat) (hodd : q % 2 = 1) : (x + half q) / q = (2 * x + q) / (2 * q) :=
  half_round q x hodd

example : divRoundInt [97, 193] 257 (residues [97, 193] 1000200) (1000200 % 257)
    = residues [97, 193] ((2 * 1000200 + 257) / (2 * 257)) := by decide

/-- `divMany = iterate`, floored: `nb` successive divisions by the last moduli `back` = ONE floored division by
their product (`⌊⌊x/a⌋/b⌋ = ⌊x/(ab)⌋`). -/
theorem divFloorMany_int (front back : List Nat) (x : Nat)
    (hp : ∀ q ∈ front ++ back, Nat.Prime q ∧ q < 2 ^ 64) (hnd : (front ++ back).Nodup) :
    manyFloorInt back.length (front ++ back) (residues (front ++ back) x) = residues front (x / prodN back) :=
  manyFloorInt_spec front back x hp hnd

/-- `divMany = iterate`, rounded.  The property only claims per-step rounding; for ODD moduli (all lattigo
moduli are) the proof gives more: sequential round-half-up IS round-half-up by the product. -/
theorem divRoundMany_int (front back : List Nat) (x : Nat)
    (hp : ∀ q ∈ front ++ back, Nat.Prime q ∧ q < 2 ^ 64) (hnd : (front ++ back).Nodup)
    (hodd : ∀ q ∈ back, q % 2 = 1) :
    manyRoundInt back.length (front ++ back) (residues (front ++ back) x)
      = residues front ((x + half (prodN back)) / prodN back) :=
  manyRoundInt_spec front back x hp hnd hodd

example : manyFloorInt 2 [97, 193, 257, 769] (residues [97, 193, 257, 769] 3000000000)
    = residues [97, 193] (3000000000 / (257 * 769)) := by decide

/-- In general (an even divisor) sequential round-half-up is NOT rounding by the product: 1/2 → 1 → 1/2 → 1
but 1/4 → 0.  (test) -/
example : let rhu := fun (x q : Nat) => (2 * x + q) / (2 * q); rhu (rhu 1 2) 2 = 1 ∧ rhu 1 4 = 0 := by decide

/-- **Refinement, `DivFloorByLastModulus`**: on an admissible chain (distinct odd primes `< 2^61`) the limb-level
twin — `MRed` with the `RescaleConstants` entry `MForm(q_i − q_ℓ^(q_i−2))`, uint64 wrap-around, lazy
`2q_i − x_i + x_ℓ` — returns in every limb the residue of the floored quotient. -/
theorem divFloor_limbs (qs : List Nat) (hC : Chain qs) (level : Nat) (hl : level < qs.length)
    (p0 : Rows) (X : List Nat) (hrows : ∀ i, i ≤ level → row p0 i = X.map (· % modulus qs i)) :
    divFloor qs level p0 = (List.range level).map fun i => X.map fun x =>
      (x / modulus qs level) % modulus qs i :=
  Scaling.divFloor_limbs qs hC level hl p0 X hrows

/-- **Refinement, `DivRoundByLastModulus`** (rows of p1; p0 is an argument of the twin only, not a result:
since repair C02-1 of /repo the function does not touch it — probe `div_input_unchanged`). -/
theorem divRound_limbs (qs : List Nat) (hC : Chain qs) (level : Nat) (hl : level < qs.length)
    (p0 : Rows) (X : List Nat) (hrows : ∀ i, i ≤ level → row p0 i = X.map (· % modulus qs i)) :
    divRound qs level p0 = (List.range level).map fun i => X.map fun x =>
      ((x + half (modulus qs level)) / modulus qs level) % modulus qs i :=
  Scaling.divRound_limbs qs hC level hl p0 X hrows

/-- **Refinement, `DivFloorByLastModulusMany`**, every `nbRescales ≤ level`. -/
theorem divFloorMany_limbs (qs : List Nat) (hC : Chain qs) (level nb : Nat) (hl : level < qs.length)
    (hnb : nb ≤ level) (p0 : Rows) (X : List Nat)
    (hrows : ∀ i, i ≤ level → row p0 i = X.map (· % modulus qs i)) :
    ∃ p1, divFloorMany qs level nb p0 = some p1 ∧ ∀ i, i ≤ level - nb →
      row p1 i = X.map fun x => (x / lastProd qs level nb) % modulus qs i :=
  Scaling.divFloorMany_limbs qs hC level nb hl hnb p0 X hrows

/-- **Refinement, `DivRoundByLastModulusMany`**, every `nbRescales ≤ level`; `roundSeq` is the `nb`-fold
round-half-up quotient, equal to round-half-up by the product (`roundSeq_eq`). -/
theorem divRoundMany_limbs (qs : List Nat) (hC : Chain qs) (level nb : Nat) (hl : level < qs.length)
    (hnb : nb ≤ level) (p0 : Rows) (X : List Nat)
    (hrows : ∀ i, i ≤ level → row p0 i = X.map (· % modulus qs i)) :
    ∃ p1, divRoundMany qs level nb p0 = some p1 ∧ ∀ i, i ≤ level - nb →
      row p1 i = X.map fun x => roundSeq qs level nb x % modulus qs i :=
  Scaling.divRoundMany_limbs qs hC level nb hl hnb p0 X hrows

theorem roundSeq_eq (qs : List Nat) (nb level x : Nat) (h : ∀ s, s < nb → modulus qs (level - s) % 2 = 1) :
    roundSeq qs level nb x = (x + half (lastProd qs level nb)) / lastProd qs level nb :=
  Scaling.roundSeq_eq qs nb level x h

-- test (non-vacuity of `Chain` and of the row hypothesis): Q = [97, 193, 257], x = 1234567
example : Chain [97, 193, 257] :=
  ⟨by intro q hq; simp at hq; rcases hq with rfl | rfl | rfl <;> norm_num,
   by intro q hq; simp at hq; rcases hq with rfl | rfl | rfl <;> rfl,
   by intro q hq; simp at hq; rcases hq with rfl | rfl | rfl <;> norm_num,
   by decide⟩
example : divFloor [97, 193, 257] 2 [[1234567 % 97], [1234567 % 193], [1234567 % 257]]
    = [[1234567 / 257 % 97], [1234567 / 257 % 193]] := by decide +kernel

/-! ## 1b. Division by the last modulus, NTT-domain variants -/

/-- **Refinement, `DivFloorByLastModulusNTT`** (EVERY ring degree `N = 2^K`): if row `i ≤ level` of `p0` is the bit-exact
forward NTT (`NTT.nttStd`, tables `Valid`) of the residues `X mod q_i`, then row `i < level` of the result is, limb for
limb, the forward NTT of `⌊x / q_level⌋ mod q_i`.  Uses `inttStd_nttStd`, the no-wrap theorem `nttCoreLazy_big`
for `NTTLazy` of ring `q_i` on residues modulo the larger `q_level`, linearity of the exact network, and the
coefficient-domain limb theorem.  (`N < 16`: the all-reducing schedule, `nttCoreLazy_big_all`; before repair C02-4 of
/repo the statement was FALSE for `N < 16`: `divFloorNTT_small_ring_repaired`.) -/
theorem divFloorNTT_limbs (T : Tabs) (qs : List Nat) (level K : Nat) (hC : Chain qs)
    (hl : level < qs.length)
    (hT : ∀ i, i ≤ level → NTT.Valid (tab T i) K ∧ (tab T i).q = modulus qs i)
    (p0 : Rows) (X : List Nat) (hX : X.length = 2 ^ K)
    (hrows : ∀ i, i ≤ level → row p0 i = NTT.nttStd (tab T i) (X.map (· % modulus qs i))) :
    divFloorNTT T qs level p0 = (List.range level).map fun i =>
      NTT.nttStd (tab T i) (X.map fun x => (x / modulus qs level) % modulus qs i) :=
  Scaling.divFloorNTT_limbs T qs level K hC hl hT p0 X hX hrows

/-- **Refinement, `DivRoundByLastModulusNTT`** (EVERY ring degree `N = 2^K`): rows of the result = forward NTT of
`⌊(x + (q_level−1)/2) / q_level⌋ mod q_i`. -/
theorem divRoundNTT_limbs (T : Tabs) (qs : List Nat) (level K : Nat) (hC : Chain qs)
    (hl : level < qs.length)
    (hT : ∀ i, i ≤ level → NTT.Valid (tab T i) K ∧ (tab T i).q = modulus qs i)
    (p0 : Rows) (X : List Nat) (hX : X.length = 2 ^ K)
    (hrows : ∀ i, i ≤ level → row p0 i = NTT.nttStd (tab T i) (X.map (· % modulus qs i))) :
    divRoundNTT T qs level p0 = (List.range level).map fun i =>
      NTT.nttStd (tab T i)
        (X.map fun x => ((x + half (modulus qs level)) / modulus qs level) % modulus qs i) :=
  Scaling.divRoundNTT_limbs T qs level K hC hl hT p0 X hX hrows

/-- **Refinement, `DivFloorByLastModulusManyNTT`** (any `N = 2^K`, every `nbRescales ≤ level`): no panic; row
`i ≤ level − nb` of the result = forward NTT of `⌊x / (q_level ⋯ q_{level−nb+1})⌋ mod q_i`. -/
theorem divFloorManyNTT_limbs (T : Tabs) (qs : List Nat) (level K nb : Nat) (hC : Chain qs)
    (hl : level < qs.length) (hnb : nb ≤ level)
    (hT : ∀ i, i ≤ level → NTT.Valid (tab T i) K ∧ (tab T i).q = modulus qs i)
    (p0 : Rows) (X : List Nat) (hX : X.length = 2 ^ K)
    (hrows : ∀ i, i ≤ level → row p0 i = NTT.nttStd (tab T i) (X.map (· % modulus qs i))) :
    ∃ p1, divFloorManyNTT T qs level nb p0 = some p1 ∧ ∀ i, i ≤ level - nb →
      row p1 i = NTT.nttStd (tab T i) (X.map fun x => (x / lastProd qs level nb) % modulus qs i) :=
  Scaling.divFloorManyNTT_limbs T qs level K nb hC hl hnb hT p0 X hX hrows

/-- **Refinement, `DivRoundByLastModulusManyNTT`** (any `N = 2^K`, every `nbRescales ≤ level`): rows = forward NTT of
the `nb`-fold round-half-up
quotient (`roundSeq`, = round-half-up by the product: `roundSeq_eq`). -/
theorem divRoundManyNTT_limbs (T : Tabs) (qs : List Nat) (level K nb : Nat) (hC : Chain qs)
    (hl : level < qs.length) (hnb : nb ≤ level)
    (hT : ∀ i, i ≤ level → NTT.Valid (tab T i) K ∧ (tab T i).q = modulus qs i)
    (p0 : Rows) (X : List Nat) (hX : X.length = 2 ^ K)
    (hrows : ∀ i, i ≤ level → row p0 i = NTT.nttStd (tab T i) (X.map (· % modulus qs i))) :
    ∃ p1, divRoundManyNTT T qs level nb p0 = some p1 ∧ ∀ i, i ≤ level - nb →
      row p1 i = NTT.nttStd (tab T i) (X.map fun x => roundSeq qs level nb x % modulus qs i) :=
  Scaling.divRoundManyNTT_limbs T qs level K nb hC hl hnb hT p0 X hX hrows

/-- coefficient-domain reading: `INTT_i` of row `i < level` of `DivFloorByLastModulusNTT` is `⌊x/q_level⌋ mod q_i`
(same for the other three: `Scaling.divRoundNTT_coeffs`, `divFloorManyNTT_coeffs`, `divRoundManyNTT_coeffs`). -/
theorem divFloorNTT_coeffs (T : Tabs) (qs : List Nat) (level K : Nat) (hC : Chain qs)
    (hl : level < qs.length)
    (hT : ∀ i, i ≤ level → NTT.Valid (tab T i) K ∧ (tab T i).q = modulus qs i)
    (p0 : Rows) (X : List Nat) (hX : X.length = 2 ^ K)
    (hrows : ∀ i, i ≤ level → row p0 i = NTT.nttStd (tab T i) (X.map (· % modulus qs i)))
    (i : Nat) (hi : i < level) :
    NTT.inttStd (tab T i) (row (divFloorNTT T qs level p0) i)
      = X.map fun x => (x / modulus qs level) % modulus qs i :=
  Scaling.divFloorNTT_coeffs T qs level K hC hl hT p0 X hX hrows i hi

/-- **The small ring (`N = 8`) after repair C02-4 of /repo.**  FINDING (reproduced, repaired): `DivFloorByLastModulusNTT`
and `DivRoundByLastModulusNTT` took the last row through `INTTLazy`, which is really lazy (`MRedLazy`, range
`[1, 2q]`, `0 ↦ q_ℓ`) for `N < 16` and, on the conjugate-invariant ring, for EVERY `N`; that value was moved to the
other moduli as an integer, giving `⌊x/q_ℓ⌋ − 1` (the zero polynomial ↦ `−1` in every coefficient).  The code now
uses the reducing `INTT`; the twin follows, and on the former witness the result is the zero polynomial.
The limb theorems above now hold for every ring degree (the `N = 8` instances below go through
`divFloorNTT_limbs` / `divRoundNTT_limbs` with `K = 3`); the conjugate-invariant ring is covered by the ties `divci`
and the reference probes only. -/
theorem divFloorNTT_small_ring_repaired :
    let T8 := mkTabs 8 [97, 193] [5, 5]
    let qs := [97, 193]
    let X := List.replicate 8 0
    let p0 : Rows := [NTT.nttStd (tab T8 0) (List.replicate 8 0), NTT.nttStd (tab T8 1) (List.replicate 8 0)]
    Chain qs ∧ 1 < qs.length
    ∧ (∀ i, i ≤ 1 → NTT.Valid (tab T8 i) 3 ∧ (tab T8 i).q = modulus qs i)
    ∧ X.length = 2 ^ 3
    ∧ (∀ i, i ≤ 1 → row p0 i = NTT.nttStd (tab T8 i) (X.map (· % modulus qs i)))
    ∧ (divFloorNTT T8 qs 1 p0).map (NTT.inttStd (tab T8 0)) = [List.replicate 8 0]
    ∧ divFloorNTT T8 qs 1 p0 = (List.range 1).map fun i =>
        NTT.nttStd (tab T8 i) (X.map fun x => (x / modulus qs 1) % modulus qs i) :=
  Scaling.divFloorNTT_small_ring_repaired

/-- The ring-type-generic twins (used for the conjugate-invariant ties `divci`, `moddownnttci`, `decompnttci`)
ARE the standard-ring functions when instantiated with the standard transforms. -/
theorem ring_generic_twins_std :
    divFloorNTTX xfStd = divFloorNTT ∧ divRoundNTTX xfStd = divRoundNTT
    ∧ divFloorManyNTTX xfStd = divFloorManyNTT ∧ divRoundManyNTTX xfStd = divRoundManyNTT
    ∧ BasisExt.modDownQPtoQNTTX xfStd = BasisExt.modDownQPtoQNTT
    ∧ Decomp.decomposeNTTX xfStd = Decomp.decomposeNTT :=
  ⟨rfl, rfl, rfl, rfl, rfl, rfl⟩

-- test (non-vacuity): N = 16, qs = [97, 193], level 1, 16 coefficients 1000·j + 7
example : divFloorNTT exT16 [97, 193] 1 exP0 = [NTT.nttStd (tab exT16 0) (exX.map fun x => (x / 193) % 97)] :=
  divFloorNTT_limbs exT16 [97, 193] 1 4 chain_97_193 (by decide) tabs16_ok exP0 exX rfl exP0_rows
example : divRoundNTT exT16 [97, 193] 1 exP0 = [NTT.nttStd (tab exT16 0) (exX.map fun x => ((x + 96) / 193) % 97)] :=
  divRoundNTT_limbs exT16 [97, 193] 1 4 chain_97_193 (by decide) tabs16_ok exP0 exX rfl exP0_rows
-- test (the smallest ring): N = 8 (`K = 3`), a non-zero polynomial
example : divFloorNTT exT8 [97, 193] 1 exP0_8 = [NTT.nttStd (tab exT8 0) (exX8.map fun x => (x / 193) % 97)] :=
  divFloorNTT_limbs exT8 [97, 193] 1 3 chain_97_193 (by decide) tabs8_ok exP0_8 exX8 rfl exP0_8_rows
example : divRoundNTT exT8 [97, 193] 1 exP0_8 = [NTT.nttStd (tab exT8 0) (exX8.map fun x => ((x + 96) / 193) % 97)] :=
  divRoundNTT_limbs exT8 [97, 193] 1 3 chain_97_193 (by decide) tabs8_ok exP0_8 exX8 rfl exP0_8_rows

/-! ## 2. Basis extension (HPS), ModDown, small-norm extension

Notation of the theorems: `qs` the source chain, `Q = prodN qs`, `x < Q` the (already shifted by `⌊Q/2⌋`, see
`modUp_centered_exact`) input, `ys = hpsY qs (residues qs x)` the values `y_i = [x·(Q/q_i)⁻¹]_{q_i}` the code
computes in `reconstructRNS` (`MRed` with `qoverqiinvqi`), `hpsSum = Σ y_i·(Q/q_i)` what `multSum` accumulates
modulo the target prime `p` (with `qoverqimodp`), `hpsOut … v p` what it writes after adding `vtimesqmodp[v]
= v·(−Q) mod p`.  The index `v` is an explicit parameter: the IEEE-754 computation of
`uint64(Σ float64(y_i)/float64(q_i))` is NOT modelled in theorems (it IS executed, bit-exactly, by the twin). -/

section BasisExt
open Lattigo.BasisExt

/-- `Σ y_i·(Q/q_i) = x + v·Q` with `0 ≤ v < #moduli`, for pairwise coprime moduli and ANY `y_i < q_i` with
`y_i·(Q/q_i) ≡ x (mod q_i)`. -/
theorem hps_sum (qs ys : List Nat) (x : Nat) (hne : qs ≠ [])
    (hc : qs.Pairwise Nat.Coprime) (hpos : ∀ q ∈ qs, 0 < q) (hx : x < prodN qs)
    (hy : List.Forall₂ (fun qi yi => yi < qi ∧ (yi * qStar qs qi) % qi = x % qi) qs ys) :
    hpsSum qs ys = x + hpsV qs ys * prodN qs ∧ hpsV qs ys < qs.length :=
  BasisExt.hps_sum qs ys x hne hc hpos hx hy

/-- `v = ⌊Σ y_i/q_i⌋` (the quantity the code approximates in floating point). -/
theorem hps_v_is_floor (qs ys : List Nat) (hpos : ∀ q ∈ qs, 0 < q) :
    hpsV qs ys = ⌊(List.zipWith (fun (qi yi : Nat) => (yi : ℚ) / (qi : ℚ)) qs ys).sum⌋₊ :=
  hpsV_eq_floor qs ys hpos

/-- `modUp_exact`, on a chain of distinct primes `< 2^64` with the code's own `y_i` (Fermat inverses):
if the correction index is the exact `v`, the output for EVERY target modulus `p` is `x mod p`. -/
theorem modUp_exact (qs : List Nat) (x p : Nat) (hne : qs ≠ [])
    (hp : ∀ q ∈ qs, Nat.Prime q ∧ q < 2 ^ 64) (hnd : qs.Nodup) (hx : x < prodN qs) (hp0 : 0 < p) :
    let ys := hpsY qs (residues qs x)
    hpsSum qs ys = x + hpsV qs ys * prodN qs ∧ hpsV qs ys < qs.length
      ∧ hpsOut qs ys (hpsV qs ys) p = x % p :=
  modUp_exact_primes qs x p hne hp hnd hx hp0

example : hpsV [3, 5, 7] (hpsY [3, 5, 7] (residues [3, 5, 7] 52)) = 1 := by decide  -- test

/-- `modUp_off_by_one`: an index one too large gives `x − Q`, one too small gives `x + Q`. -/
theorem modUp_off_by_one (qs ys : List Nat) (x p v : Nat)
    (hc : qs.Pairwise Nat.Coprime) (hpos : ∀ q ∈ qs, 0 < q) (hx : x < prodN qs)
    (hy : List.Forall₂ (fun qi yi => yi < qi ∧ (yi * qStar qs qi) % qi = x % qi) qs ys) (hp : 0 < p) :
    (v = hpsV qs ys + 1 → (hpsOut qs ys v p + prodN qs) % p = x % p)
    ∧ (v + 1 = hpsV qs ys → hpsOut qs ys v p = (x + prodN qs) % p) :=
  ⟨modUp_off_by_one_hi qs ys x p v hc hpos hx hy hp, modUp_off_by_one_lo qs ys x p v hc hpos hx hy hp⟩

/-- `modUp_centered_exact` (named IEEE hypothesis): `t` is the float sum seen as a rational. If the shifted input
satisfies `Q/4 ≤ x < 3Q/4` — i.e. the centred value `x − ⌊Q/2⌋` is below `Q/4` in absolute value — and the float
error is below `1/4`, then `⌊t⌋` IS the exact index; with error below `1` it is never off by more than one. -/
theorem modUp_centered_exact (qs ys : List Nat) (x : Nat) (t : ℚ)
    (hc : qs.Pairwise Nat.Coprime) (hpos : ∀ q ∈ qs, 0 < q) (hx : x < prodN qs)
    (hy : List.Forall₂ (fun qi yi => yi < qi ∧ (yi * qStar qs qi) % qi = x % qi) qs ys) :
    (prodN qs ≤ 4 * x → 4 * x < 3 * prodN qs →
      |t - (List.zipWith (fun (qi yi : Nat) => (yi : ℚ) / (qi : ℚ)) qs ys).sum| < 1 / 4 → ⌊t⌋₊ = hpsV qs ys)
    ∧ (|t - (List.zipWith (fun (qi yi : Nat) => (yi : ℚ) / (qi : ℚ)) qs ys).sum| < 1 →
      ⌊t⌋₊ = hpsV qs ys ∨ ⌊t⌋₊ = hpsV qs ys + 1 ∨ ⌊t⌋₊ + 1 = hpsV qs ys) :=
  ⟨fun hlo hhi ht => BasisExt.modUp_centered_exact qs ys x t hc hpos hx hy hlo hhi ht,
   fun ht => modUp_never_off_by_more_than_one qs ys x t hc hpos hx hy ht⟩

/-- `modDown_err`: `(x_i − e_i)·P⁻¹ mod q_i` where `e_i` extends the centred `[x]_P` with an error of `δ`
multiples of `P`: the result is `round(x/P) − δ`; exact extension (`δ = 0`) gives the ROUNDED quotient
`⌊(x + ⌊P/2⌋)/P⌋` (all three `ModDown*`; the comment of `ModDownQPtoP` said "floored" before repair C02-3);
extension of the non-centred `[x]_P` would give the floored one. -/
theorem modDown_err (qi P c x ei : Nat) (δ : Int) (hqi : 0 < qi) (hc : (P * c) % qi = 1)
    (he : (ei : Int) % qi = (centeredRep P x + δ * P) % qi) :
    ((modDownRes qi c (x % qi) ei : Nat) : Int) % qi = ((((x + P / 2) / P : Nat) : Int) - δ) % qi :=
  BasisExt.modDown_err qi P c x ei δ hqi hc he

theorem modDown_exact (qi P c x ei : Nat) (hqi : 0 < qi) (hc : (P * c) % qi = 1) :
    ((ei : Int) % qi = centeredRep P x % qi → modDownRes qi c (x % qi) ei = ((x + P / 2) / P) % qi)
    ∧ (ei % qi = (x % P) % qi → modDownRes qi c (x % qi) ei = (x / P) % qi) :=
  ⟨modDown_round qi P c x ei hqi hc, modDown_floor qi P c x ei hqi hc⟩

example : modDownRes 7 1 (100 % 7) 2 = ((100 + 15 / 2) / 15) % 7 := by decide  -- test: q=7, P=15, x=100

/-- `extendSmallNorm` (full strength since repair C03-9 of /repo, which reduces `|x|` modulo `p` and maps `−0` to `0`):
for EVERY residue `c < q_0` the limb `ringqp.Ring.ExtendBasisSmallNormAndCenter` writes modulo `p` represents the
same signed integer as `c` modulo `q_0` — no relation between `|x|` and `p` is needed any more. -/
theorem extendSmallNorm (q0 p c : Nat) (hcq : c < q0) (hq : q0 < W) (hp0 : 0 < p) (hp : p < W) :
    ((extendSmallLimb q0 p c : Nat) : Int) % p = centerInt q0 c % p :=
  extendSmall_spec q0 p c hcq hq hp0 hp

example : extendSmallLimb 97 17 90 = 10 ∧ centerInt 97 90 = -7 := by decide  -- test

/-- The former witness of the uint64 wrap (`x = −37`, i.e. `c = 60` mod `97`, `p = 17`; the unrepaired code wrote
`2^64 − 20 ≢ −37`): the repaired code writes `14 ≡ −37 (mod 17)`.  The harness now PROBES the `extsmall … large`
lines against the centred value (key `C02/ExtendBasisSmallNormAndCenter/not-centred-value-mod-p`). -/
theorem extendSmallNorm_large_repaired :
    extendSmallLimb 97 17 60 = 14 ∧
    ((extendSmallLimb 97 17 60 : Nat) : Int) % (17 : Nat) = centerInt 97 60 % (17 : Nat) :=
  extendSmall_large_repaired

/-- `rlwe.ExtendBasisSmallNormAndCenterNTTMontgomery` (core/rlwe/utils.go) still has the old limb code
(`extendSmallLimbWrap`, used by the twin `extendSmallNormNTTMont` between the INTT/IMForm and NTT/MForm steps): it
writes the centred value modulo `p` PROVIDED a negative value fits, `q_0 − c ≤ p` (its in-tree callers pass
secret keys, `|x| ≤ 1`) … -/
theorem extendSmallNormNTTMontgomery_limb_partial (q0 p c : Nat) (hcq : c < q0) (hq : q0 < W) (hp : p < W)
    (hfit : q0 / 2 < c → q0 - c ≤ p) :
    ((extendSmallLimbWrap q0 p c : Nat) : Int) % p = centerInt q0 c % p :=
  extendSmallWrap_spec q0 p c hcq hq hp hfit

example : (97 : Nat) / 2 < 90 → 97 - 90 ≤ 17 := by decide  -- test: the hypothesis is satisfiable

/-- … and the hypothesis is forced for that function: `p − 37` wraps on uint64. -/
theorem extendSmallNormNTTMontgomery_limb_counterexample :
    extendSmallLimbWrap 97 17 60 = W - 20 ∧
    ((extendSmallLimbWrap 97 17 60 : Nat) : Int) % (17 : Nat) ≠ centerInt 97 60 % (17 : Nat) :=
  extendSmallWrap_wraps

/-! ### 2b. Limb level ⊑ integer level for `ModUpExact`, `ModUpQtoP/PtoQ`, `ModDownQPtoQ/QPtoP`

`Q`, `P` are the full chains of the two rings; the source chain is `qs = Q[:n]` (`n = len(p1)` resp. `levelQ+1`), an
admissible `Chain` (distinct odd primes below `2^61`) with `Σ q_i ≤ k·2^64` (`k = 1` for `n ≤ 8`); targets are odd
primes with `(k+2)·p ≤ 2^64` (`Target P k`).  `fidx Q y` is the correction index AS THE CODE COMPUTES IT (IEEE-754,
`BasisExt.fidx`, the very expression of the twin); it is never analysed: every statement is conditional on the
named hypothesis `fidx … ≤ n` (the table lookup `vtimesqmodp[v]` is in range; true of every float sum of `n`
terms `≤ 1`) and exactness statements on `fidx … = hpsV …`. -/

/-- **`multSum`** (one lane, any index `v ≤ #Q`): `≡ hpsOut` and `< (k+2)·p`. -/
theorem multSum_limb (Q P : List Nat) (hC : Chain Q) (hne : Q ≠ []) (j : Nat) (hj : j < P.length)
    (hp : (P.getD j 0).Prime) (hodd : P.getD j 0 % 2 = 1) (k : Nat) (hk : Q.sum ≤ k * W)
    (hkp : (k + 2) * P.getD j 0 ≤ W) (ys : List Nat) (hlen : ys.length = Q.length)
    (hys : ∀ i, i < Q.length → ys.getD i 0 < Q.getD i 0) (v : Nat) (hv : v ≤ Q.length) :
    multSum ys v (P.getD j 0) (Gen.GenMRedConstant (P.getD j 0)) (genModUpConstants Q P).vtimesqmodp[j]!
        (genModUpConstants Q P).qoverqimodp[j]! % P.getD j 0 = hpsOut Q ys v (P.getD j 0)
    ∧ multSum ys v (P.getD j 0) (Gen.GenMRedConstant (P.getD j 0)) (genModUpConstants Q P).vtimesqmodp[j]!
        (genModUpConstants Q P).qoverqimodp[j]! < (k + 2) * P.getD j 0 :=
  multSum_hps Q P hC hne j hj hp hodd k hk hkp ys hlen hys v hv

/-- **`reconstructRNS`** (one lane): the `y_i` of the code ARE `hpsY`, the index is `fidx`. -/
theorem reconstruct_limb (Q P : List Nat) (col : List Nat) (hn : col.length ≤ Q.length)
    (hC : Chain (Q.take col.length)) (hcol : ∀ x ∈ col, x < W) :
    reconstruct Q (Q.map Gen.GenMRedConstant) (genModUpConstants (Q.take col.length) P) col
      = (hpsY (Q.take col.length) col, fidx Q (hpsY (Q.take col.length) col)) :=
  reconstruct_eq Q P col hn hC hcol

/-- **`ModUpExact`, every limb**: `≡ Σ y_i·(Q/q_i) + v·(p_j − Q mod p_j) (mod p_j)` with `y = hpsY`, `v = fidx`,
and `< (k+2)·p_j`. -/
theorem modUpExact_limbs (Q P : List Nat) (levelP : Nat) (hlP : levelP < P.length) (p1 : Rows)
    (hpos : 0 < p1.length) (hn : p1.length ≤ Q.length) (hC : Chain (Q.take p1.length)) (k : Nat)
    (hk : (Q.take p1.length).sum ≤ k * W) (hT : Target P k) (hW : ∀ r ∈ p1, ∀ x ∈ r, x < W)
    (j : Nat) (hj : j ≤ levelP) :
    List.Forall₂ (fun col out =>
        fidx Q (hpsY (Q.take p1.length) col) ≤ p1.length →
          out % P.getD j 0
              = hpsOut (Q.take p1.length) (hpsY (Q.take p1.length) col)
                  (fidx Q (hpsY (Q.take p1.length) col)) (P.getD j 0)
            ∧ out < (k + 2) * P.getD j 0)
      (transpose p1) (row (modUpExact Q P (genModUpConstants (Q.take p1.length) P) levelP p1) j) :=
  BasisExt.modUpExact_limbs Q P levelP hlP p1 hpos hn hC k hk hT hW j hj

/-- the documented range: at most 8 source moduli below `2^61` ⇒ every limb `< 3·p_j`
(`Target P 1`: `3p ≤ 2^64`). -/
theorem modUpExact_limbs_3p (Q P : List Nat) (levelP : Nat) (hlP : levelP < P.length) (p1 : Rows)
    (hpos : 0 < p1.length) (hn : p1.length ≤ Q.length) (h8 : p1.length ≤ 8) (hC : Chain (Q.take p1.length))
    (hT : Target P 1) (hW : ∀ r ∈ p1, ∀ x ∈ r, x < W) (j : Nat) (hj : j ≤ levelP) :
    List.Forall₂ (fun col out =>
        fidx Q (hpsY (Q.take p1.length) col) ≤ p1.length →
          out % P.getD j 0
              = hpsOut (Q.take p1.length) (hpsY (Q.take p1.length) col)
                  (fidx Q (hpsY (Q.take p1.length) col)) (P.getD j 0)
            ∧ out < 3 * P.getD j 0)
      (transpose p1) (row (modUpExact Q P (genModUpConstants (Q.take p1.length) P) levelP p1) j) :=
  BasisExt.modUpExact_limbs Q P levelP hlP p1 hpos hn hC 1
    (sum_le_W _ hC.small (by rw [List.length_take]; omega)) hT hW j hj

/-- **`ModUpExact` with the exact / off-by-one index**: lanes = residues of `x < Qb`; `v` exact ⇒ `≡ x (mod p_j)`;
`v = hpsV + 1` ⇒ `≡ x − Qb`; `v + 1 = hpsV` ⇒ `≡ x + Qb`. -/
theorem modUpExact_exact (Q P : List Nat) (levelP : Nat) (hlP : levelP < P.length) (p1 : Rows)
    (hpos : 0 < p1.length) (hn : p1.length ≤ Q.length) (hC : Chain (Q.take p1.length)) (k : Nat)
    (hk : (Q.take p1.length).sum ≤ k * W) (hT : Target P k) (hW : ∀ r ∈ p1, ∀ x ∈ r, x < W)
    (xs : List Nat) (hxs : ∀ x ∈ xs, x < prodN (Q.take p1.length))
    (hcols : transpose p1 = xs.map (residues (Q.take p1.length))) (j : Nat) (hj : j ≤ levelP) :
    List.Forall₂ (fun x out =>
        (fidx Q (hpsY (Q.take p1.length) (residues (Q.take p1.length) x))
            = hpsV (Q.take p1.length) (hpsY (Q.take p1.length) (residues (Q.take p1.length) x)) →
          out % P.getD j 0 = x % P.getD j 0 ∧ out < (k + 2) * P.getD j 0)
        ∧ (fidx Q (hpsY (Q.take p1.length) (residues (Q.take p1.length) x))
            = hpsV (Q.take p1.length) (hpsY (Q.take p1.length) (residues (Q.take p1.length) x)) + 1 →
          (out + prodN (Q.take p1.length)) % P.getD j 0 = x % P.getD j 0 ∧ out < (k + 2) * P.getD j 0)
        ∧ (fidx Q (hpsY (Q.take p1.length) (residues (Q.take p1.length) x)) + 1
            = hpsV (Q.take p1.length) (hpsY (Q.take p1.length) (residues (Q.take p1.length) x)) →
          out % P.getD j 0 = (x + prodN (Q.take p1.length)) % P.getD j 0 ∧ out < (k + 2) * P.getD j 0))
      xs (row (modUpExact Q P (genModUpConstants (Q.take p1.length) P) levelP p1) j) :=
  BasisExt.modUpExact_exact Q P levelP hlP p1 hpos hn hC k hk hT hW xs hxs hcols j hj

/-- **`ModUpQtoP` / `ModUpPtoQ`** (`modUp P Q` is `ModUpPtoQ`): `X` the integer coefficients (`row polQ i = X mod q_i`),
`Qb = q_0⋯q_levelQ`.  Every limb of target row `j` is `≡ centeredRep Qb x + (hpsV − v)·Qb (mod p_j)` — the centred
representative of `[x]_Qb` plus `δ = hpsV − v` multiples of `Qb` — and `< (k+2)·p_j`. -/
theorem modUp_limbs (Q P : List Nat) (levelQ levelP : Nat) (hlQ : levelQ < Q.length) (hlP : levelP < P.length)
    (hC : Chain (Q.take (levelQ + 1))) (k : Nat) (hk : (Q.take (levelQ + 1)).sum ≤ k * W)
    (hT : Target P (k + 1)) (polQ : Rows) (X : List Nat)
    (hrows : ∀ i, i ≤ levelQ → row polQ i = X.map (· % Q.getD i 0)) (j : Nat) (hj : j ≤ levelP) :
    List.Forall₂ (fun x out =>
        fidx Q (hpsY (Q.take (levelQ + 1)) (residues (Q.take (levelQ + 1))
            ((x + prodN (Q.take (levelQ + 1)) / 2) % prodN (Q.take (levelQ + 1))))) ≤ levelQ + 1 →
          ((out : ℕ) : ℤ) % (P.getD j 0 : ℤ)
              = (centeredRep (prodN (Q.take (levelQ + 1))) x
                  + ((hpsV (Q.take (levelQ + 1)) (hpsY (Q.take (levelQ + 1)) (residues (Q.take (levelQ + 1))
                        ((x + prodN (Q.take (levelQ + 1)) / 2) % prodN (Q.take (levelQ + 1))))) : ℤ)
                    - (fidx Q (hpsY (Q.take (levelQ + 1)) (residues (Q.take (levelQ + 1))
                        ((x + prodN (Q.take (levelQ + 1)) / 2) % prodN (Q.take (levelQ + 1))))) : ℤ))
                    * (prodN (Q.take (levelQ + 1)) : ℤ)) % (P.getD j 0 : ℤ)
            ∧ out < (k + 2) * P.getD j 0)
      X (row (modUp Q P levelQ levelP polQ) j) :=
  BasisExt.modUp_limbs Q P levelQ levelP hlQ hlP hC k hk hT polQ X hrows j hj

/-- **`ModDownQPtoQ`**: `X` the integer coefficients in basis `QP`, `Pb = p_0⋯p_levelP`.  Every limb of row `i` of the
result is `< q_i` and `≡ ⌊(x + ⌊Pb/2⌋)/Pb⌋ − δ (mod q_i)`, `δ = hpsV − v` (`0` for the exact index): the residues of
`(x − ext([x]_Pb))·Pb⁻¹` of `modDown_err`.  (`hdisj`: no `q_i` is one of the `p_j`.) -/
theorem modDownQPtoQ_limbs (Q P : List Nat) (levelQ levelP : Nat) (hlQ : levelQ < Q.length)
    (hlP : levelP < P.length) (hCP : Chain (P.take (levelP + 1))) (k : Nat)
    (hk : (P.take (levelP + 1)).sum ≤ k * W) (hTQ : Target Q (k + 2))
    (hdisj : ∀ i, i ≤ levelQ → Q.getD i 0 ∉ P.take (levelP + 1)) (p1Q p1P : Rows) (X : List Nat)
    (hQ : ∀ i, i ≤ levelQ → row p1Q i = X.map (· % Q.getD i 0))
    (hP : ∀ j, j ≤ levelP → row p1P j = X.map (· % P.getD j 0)) (i : Nat) (hi : i ≤ levelQ) :
    List.Forall₂ (fun x out =>
        fidx P (hpsY (P.take (levelP + 1)) (residues (P.take (levelP + 1))
            ((x + prodN (P.take (levelP + 1)) / 2) % prodN (P.take (levelP + 1))))) ≤ levelP + 1 →
          ((out : ℕ) : ℤ) % (Q.getD i 0 : ℤ)
              = ((((x + prodN (P.take (levelP + 1)) / 2) / prodN (P.take (levelP + 1)) : ℕ) : ℤ)
                  - ((hpsV (P.take (levelP + 1)) (hpsY (P.take (levelP + 1)) (residues (P.take (levelP + 1))
                        ((x + prodN (P.take (levelP + 1)) / 2) % prodN (P.take (levelP + 1))))) : ℤ)
                    - (fidx P (hpsY (P.take (levelP + 1)) (residues (P.take (levelP + 1))
                        ((x + prodN (P.take (levelP + 1)) / 2) % prodN (P.take (levelP + 1))))) : ℤ)))
                % (Q.getD i 0 : ℤ)
            ∧ out < Q.getD i 0)
      X (row (modDownQPtoQ Q P levelQ levelP p1Q p1P) i) :=
  BasisExt.modDownQPtoQ_limbs Q P levelQ levelP hlQ hlP hCP k hk hTQ hdisj p1Q p1P X hQ hP i hi

/-- **`ModDownQPtoP`** (division by `Qb = q_0⋯q_levelQ`, result in basis `P`; ROUNDED, cf. repair C02-3). -/
theorem modDownQPtoP_limbs (Q P : List Nat) (levelQ levelP : Nat) (hlQ : levelQ < Q.length)
    (hlP : levelP < P.length) (hCQ : Chain (Q.take (levelQ + 1))) (k : Nat)
    (hk : (Q.take (levelQ + 1)).sum ≤ k * W) (hTP : Target P (k + 2))
    (hdisj : ∀ j, j ≤ levelP → P.getD j 0 ∉ Q.take (levelQ + 1)) (p1Q p1P : Rows) (X : List Nat)
    (hQ : ∀ i, i ≤ levelQ → row p1Q i = X.map (· % Q.getD i 0))
    (hP : ∀ j, j ≤ levelP → row p1P j = X.map (· % P.getD j 0)) (j : Nat) (hj : j ≤ levelP) :
    List.Forall₂ (fun x out =>
        fidx Q (hpsY (Q.take (levelQ + 1)) (residues (Q.take (levelQ + 1))
            ((x + prodN (Q.take (levelQ + 1)) / 2) % prodN (Q.take (levelQ + 1))))) ≤ levelQ + 1 →
          ((out : ℕ) : ℤ) % (P.getD j 0 : ℤ)
              = ((((x + prodN (Q.take (levelQ + 1)) / 2) / prodN (Q.take (levelQ + 1)) : ℕ) : ℤ)
                  - ((hpsV (Q.take (levelQ + 1)) (hpsY (Q.take (levelQ + 1)) (residues (Q.take (levelQ + 1))
                        ((x + prodN (Q.take (levelQ + 1)) / 2) % prodN (Q.take (levelQ + 1))))) : ℤ)
                    - (fidx Q (hpsY (Q.take (levelQ + 1)) (residues (Q.take (levelQ + 1))
                        ((x + prodN (Q.take (levelQ + 1)) / 2) % prodN (Q.take (levelQ + 1))))) : ℤ)))
                % (P.getD j 0 : ℤ)
            ∧ out < P.getD j 0)
      X (row (modDownQPtoP Q P levelQ levelP p1Q p1P) j) :=
  BasisExt.modDownQPtoP_limbs Q P levelQ levelP hlQ hlP hCQ k hk hTP hdisj p1Q p1P X hQ hP j hj

/-- **`ModDownQPtoQNTT` = NTT ∘ `ModDownQPtoQ` ∘ INTT** (`N = 2^K ≥ 16`): if the rows of `p1Q`, `p1P` are the bit-exact
forward NTTs of `X mod q_i`, `X mod p_j`, every row `i ≤ levelQ` of the result is the forward NTT of row `i` of
`modDownQPtoQ` on the coefficient-domain rows `coeffRows`; `modDownQPtoQ_limbs` then describes its `INTT`.  Holds
for EVERY value of the IEEE index. -/
theorem modDownQPtoQNTT_eq (TQ TP : Tabs) (Q P : List Nat) (levelQ levelP K : Nat) (hK : 4 ≤ K)
    (hlQ : levelQ < Q.length) (hlP : levelP < P.length)
    (hTQ : ∀ i, i ≤ levelQ → NTT.Valid (tab TQ i) K ∧ (tab TQ i).q = Q.getD i 0)
    (hTP : ∀ j, j ≤ levelP → NTT.Valid (tab TP j) K ∧ (tab TP j).q = P.getD j 0)
    (hCP : Chain (P.take (levelP + 1))) (k : Nat) (hk : (P.take (levelP + 1)).sum ≤ k * W)
    (hTgt : Target Q (k + 4)) (p1Q p1P : Rows) (X : List Nat) (hX : X.length = 2 ^ K)
    (hQ : ∀ i, i ≤ levelQ → row p1Q i = NTT.nttStd (tab TQ i) (X.map (· % Q.getD i 0)))
    (hP : ∀ j, j ≤ levelP → row p1P j = NTT.nttStd (tab TP j) (X.map (· % P.getD j 0)))
    (i : Nat) (hi : i ≤ levelQ) :
    row (modDownQPtoQNTT TQ TP Q P levelQ levelP p1Q p1P) i
      = NTT.nttStd (tab TQ i)
          (row (modDownQPtoQ Q P levelQ levelP (coeffRows Q levelQ X) (coeffRows P levelP X)) i) :=
  BasisExt.modDownQPtoQNTT_eq TQ TP Q P levelQ levelP K hK hlQ hlP hTQ hTP hCP k hk hTgt p1Q p1P X hX hQ hP i hi

-- test (non-vacuity of `modDownQPtoQNTT_eq`): Q = [97], P = [193], N = 16, X = exX (16 coefficients 1000·j + 7)
example :
    row (modDownQPtoQNTT (mkTabs 16 [97] [5]) (mkTabs 16 [193] [5]) [97] [193] 0 0
          [NTT.nttStd (tab (mkTabs 16 [97] [5]) 0) (exX.map (· % 97))]
          [NTT.nttStd (tab (mkTabs 16 [193] [5]) 0) (exX.map (· % 193))]) 0
      = NTT.nttStd (tab (mkTabs 16 [97] [5]) 0)
          (row (modDownQPtoQ [97] [193] 0 0 (coeffRows [97] 0 exX) (coeffRows [193] 0 exX)) 0) :=
  modDownQPtoQNTT_eq (mkTabs 16 [97] [5]) (mkTabs 16 [193] [5]) [97] [193] 0 0 4 (by decide) (by decide) (by decide)
    (fun i hi => by have : i = 0 := by omega
                    subst this; exact ⟨valid16_97, rfl⟩)
    (fun i hi => by have : i = 0 := by omega
                    subst this; exact ⟨valid16_193, rfl⟩)
    ⟨by intro q hq; simp at hq; subst hq; norm_num, by intro q hq; simp at hq; subst hq; rfl,
     by intro q hq; simp at hq; subst hq; norm_num, by decide⟩
    1 (by decide)
    ⟨by intro q hq; simp at hq; subst hq; norm_num, by intro q hq; simp at hq; subst hq; rfl,
     by intro q hq; simp at hq; subst hq; decide⟩
    _ _ exX rfl
    (fun i hi => by have : i = 0 := by omega
                    subst this; rfl)
    (fun i hi => by have : i = 0 := by omega
                    subst this; rfl) 0 (by decide)

-- non-vacuity of the hypotheses: Q = [97, 193, 257] (source), P = [769, 1153] (targets)
example : Chain [97, 193, 257] ∧ [97, 193, 257].sum ≤ 1 * W ∧ Target [769, 1153] 3 :=
  ⟨⟨by intro q hq; simp at hq; rcases hq with rfl | rfl | rfl <;> norm_num,
    by intro q hq; simp at hq; rcases hq with rfl | rfl | rfl <;> rfl,
    by intro q hq; simp at hq; rcases hq with rfl | rfl | rfl <;> norm_num,
    by decide⟩, by decide,
   ⟨by intro q hq; simp at hq; rcases hq with rfl | rfl <;> norm_num,
    by intro q hq; simp at hq; rcases hq with rfl | rfl <;> rfl,
    by intro q hq; simp at hq; rcases hq with rfl | rfl <;> decide⟩⟩
-- test (kernel): the Montgomery tables and one lane of `multSum` for x = 1234567, exact index 2
example : hpsV [97, 193, 257] (hpsY [97, 193, 257] (residues [97, 193, 257] 1234567)) = 2
    ∧ multSum (hpsY [97, 193, 257] (residues [97, 193, 257] 1234567)) 2 769 (Gen.GenMRedConstant 769)
        (genModUpConstants [97, 193, 257] [769, 1153]).vtimesqmodp[0]!
        (genModUpConstants [97, 193, 257] [769, 1153]).qoverqimodp[0]! % 769 = 1234567 % 769 := by
  decide +kernel
-- test (EVALUATION with the compiled IEEE arithmetic, not kernel-checked): the float index of the twin is the
-- exact one on this input, and the whole `modUpExact` row is `x mod p`
#guard fidx [97, 193, 257] (hpsY [97, 193, 257] (residues [97, 193, 257] 1234567)) = 2
#guard modUpExact [97, 193, 257] [769, 1153] (genModUpConstants [97, 193, 257] [769, 1153]) 1
    [[1234567 % 97], [1234567 % 193], [1234567 % 257]] = [[1234567 % 769 + 769], [1234567 % 1153]]


/-! ### 2c. The IEEE correction index: ONE named hypothesis; `Evaluator.ModDown`

`FidxApprox Q qs ys ε` — the index the code computes is `⌊t⌋` for some rational `t ≥ 0` with `|t − Σ y_i/q_i| < ε`
(the float sum read as a rational).  It replaces the two hypotheses of §2b (`fidx ≤ #moduli`, `fidx = hpsV`), which are
now DERIVED: `ε ≤ 1` gives the table lookup in range and an error of at most one; `ε ≤ 1/4` and a value below a quarter
of the source modulus give exactness.  Lean's `Float` is opaque to the kernel: `FidxApprox` itself (true with
`ε ≈ n·2⁻⁵²` for `n ≤ 32` binary64 additions of quotients `≤ 1`) cannot be proved; it is the ONLY unproved link between
the limb-level twins of the basis extension and the integer-level quotient, and the tie checks the index bit for bit. -/

/-- **exact condition (iff) under which the floor of an approximation `t` of `Σ y_i/q_i` is the exact index**: the
error `t − Σ` lies in `[−x/Q, 1 − x/Q)` (`x < Q` the input the `y_i` belong to). -/
theorem fidx_exact_iff (qs ys : List Nat) (x : Nat) (t : ℚ) (ht0 : 0 ≤ t)
    (hc : qs.Pairwise Nat.Coprime) (hpos : ∀ q ∈ qs, 0 < q) (hx : x < prodN qs)
    (hy : List.Forall₂ (fun qi yi => yi < qi ∧ (yi * qStar qs qi) % qi = x % qi) qs ys) :
    ⌊t⌋₊ = hpsV qs ys ↔
      -((x : ℚ) / (prodN qs : ℚ)) ≤ t - (List.zipWith (fun (qi yi : Nat) => (yi : ℚ) / (qi : ℚ)) qs ys).sum
      ∧ t - (List.zipWith (fun (qi yi : Nat) => (yi : ℚ) / (qi : ℚ)) qs ys).sum < 1 - (x : ℚ) / (prodN qs : ℚ) :=
  BasisExt.fidx_exact_iff qs ys x t ht0 hc hpos hx hy

/-- `ε ≤ 1` ⇒ the index is `≤ #moduli` (lookup in range) and off by at most one; `ε ≤ 1/4` and `Q/4 ≤ x < 3Q/4` ⇒ exact. -/
theorem fidx_of_approx (Q qs ys : List Nat) (x : Nat) (hne : qs ≠ [])
    (hc : qs.Pairwise Nat.Coprime) (hpos : ∀ q ∈ qs, 0 < q) (hx : x < prodN qs)
    (hy : List.Forall₂ (fun qi yi => yi < qi ∧ (yi * qStar qs qi) % qi = x % qi) qs ys) :
    (FidxApprox Q qs ys 1 → fidx Q ys ≤ qs.length
        ∧ (fidx Q ys = hpsV qs ys ∨ fidx Q ys = hpsV qs ys + 1 ∨ fidx Q ys + 1 = hpsV qs ys))
    ∧ (FidxApprox Q qs ys (1 / 4) → prodN qs ≤ 4 * x → 4 * x < 3 * prodN qs → fidx Q ys = hpsV qs ys) :=
  ⟨fun h => ⟨fidxApprox_le Q qs ys x hne hc hpos hx hy h, fidxApprox_cases Q qs ys x hc hpos hx hy h⟩,
   fun h hlo hhi => fidxApprox_exact Q qs ys x hc hpos hx hy hlo hhi h⟩

-- test (non-vacuity of `FidxApprox`'s shape): qs = [3,5,7], x = 52: Σ = 157/105, t = 3/2, ⌊t⌋ = 1 = hpsV
example : hpsV [3, 5, 7] [2, 2, 3] = 1 ∧ ∃ t : ℚ, 0 ≤ t ∧ (1 : ℕ) = ⌊t⌋₊
    ∧ |t - (List.zipWith (fun (qi yi : Nat) => (yi : ℚ) / (qi : ℚ)) [3, 5, 7] [2, 2, 3]).sum| < 1 / 4 :=
  ⟨by decide, 3 / 2, by norm_num, by norm_num [Nat.floor_eq_iff], by norm_num [abs_lt]⟩

/-- **`ModDownQPtoQ`: the rounded quotient up to an error of at most 1** — the property's sentence, every limb, with
only `FidxApprox … 1`: limb `< q_i` and `≡ ⌊(x + ⌊Pb/2⌋)/Pb⌋ + e (mod q_i)`, `|e| ≤ 1`. -/
theorem modDownQPtoQ_err_le_one (Q P : List Nat) (levelQ levelP : Nat) (hlQ : levelQ < Q.length)
    (hlP : levelP < P.length) (hCP : Chain (P.take (levelP + 1))) (k : Nat)
    (hk : (P.take (levelP + 1)).sum ≤ k * W) (hTQ : Target Q (k + 2))
    (hdisj : ∀ i, i ≤ levelQ → Q.getD i 0 ∉ P.take (levelP + 1)) (p1Q p1P : Rows) (X : List Nat)
    (hQ : ∀ i, i ≤ levelQ → row p1Q i = X.map (· % Q.getD i 0))
    (hP : ∀ j, j ≤ levelP → row p1P j = X.map (· % P.getD j 0)) (i : Nat) (hi : i ≤ levelQ) :
    List.Forall₂ (fun x out =>
        FidxApprox P (P.take (levelP + 1)) (hpsY (P.take (levelP + 1)) (residues (P.take (levelP + 1))
            ((x + prodN (P.take (levelP + 1)) / 2) % prodN (P.take (levelP + 1))))) 1 →
          out < Q.getD i 0 ∧ ∃ e : ℤ, |e| ≤ 1 ∧
            ((out : ℕ) : ℤ) % (Q.getD i 0 : ℤ)
              = ((((x + prodN (P.take (levelP + 1)) / 2) / prodN (P.take (levelP + 1)) : ℕ) : ℤ) + e)
                  % (Q.getD i 0 : ℤ))
      X (row (modDownQPtoQ Q P levelQ levelP p1Q p1P) i) :=
  BasisExt.modDownQPtoQ_err_le_one Q P levelQ levelP hlQ hlP hCP k hk hTQ hdisj p1Q p1P X hQ hP i hi

/-- **`ModDownQPtoQ`: EXACTLY the rounded quotient** when the centred remainder `[x]_Pb` is below `Pb/4` in absolute
value (`Pb ≤ 4x' < 3Pb`, `x' = (x + ⌊Pb/2⌋) mod Pb`) and the float error is below `1/4`. -/
theorem modDownQPtoQ_exact_of_quarter (Q P : List Nat) (levelQ levelP : Nat) (hlQ : levelQ < Q.length)
    (hlP : levelP < P.length) (hCP : Chain (P.take (levelP + 1))) (k : Nat)
    (hk : (P.take (levelP + 1)).sum ≤ k * W) (hTQ : Target Q (k + 2))
    (hdisj : ∀ i, i ≤ levelQ → Q.getD i 0 ∉ P.take (levelP + 1)) (p1Q p1P : Rows) (X : List Nat)
    (hQ : ∀ i, i ≤ levelQ → row p1Q i = X.map (· % Q.getD i 0))
    (hP : ∀ j, j ≤ levelP → row p1P j = X.map (· % P.getD j 0)) (i : Nat) (hi : i ≤ levelQ) :
    List.Forall₂ (fun x out =>
        FidxApprox P (P.take (levelP + 1)) (hpsY (P.take (levelP + 1)) (residues (P.take (levelP + 1))
            ((x + prodN (P.take (levelP + 1)) / 2) % prodN (P.take (levelP + 1))))) (1 / 4) →
        prodN (P.take (levelP + 1)) ≤ 4 * ((x + prodN (P.take (levelP + 1)) / 2) % prodN (P.take (levelP + 1))) →
        4 * ((x + prodN (P.take (levelP + 1)) / 2) % prodN (P.take (levelP + 1))) < 3 * prodN (P.take (levelP + 1)) →
          out = ((x + prodN (P.take (levelP + 1)) / 2) / prodN (P.take (levelP + 1))) % Q.getD i 0)
      X (row (modDownQPtoQ Q P levelQ levelP p1Q p1P) i) :=
  BasisExt.modDownQPtoQ_exact_of_quarter Q P levelQ levelP hlQ hlP hCP k hk hTQ hdisj p1Q p1P X hQ hP i hi

/-- **`ModUpQtoP` / `ModUpPtoQ`: never off by more than one multiple of the source modulus, exact below a quarter** —
the property's sentence for the limb-level twin: with `FidxApprox … 1` every limb is `≡ centeredRep Qb x + δ·Qb`,
`δ ∈ {−1,0,1}`; with `FidxApprox … (1/4)` and `Qb ≤ 4x' < 3Qb` (`|centred x| < Qb/4`) it is `≡ centeredRep Qb x`. -/
theorem modUp_within_one_multiple (Q P : List Nat) (levelQ levelP : Nat) (hlQ : levelQ < Q.length)
    (hlP : levelP < P.length) (hC : Chain (Q.take (levelQ + 1))) (k : Nat)
    (hk : (Q.take (levelQ + 1)).sum ≤ k * W) (hT : Target P (k + 1)) (polQ : Rows) (X : List Nat)
    (hrows : ∀ i, i ≤ levelQ → row polQ i = X.map (· % Q.getD i 0)) (j : Nat) (hj : j ≤ levelP) :
    List.Forall₂ (fun x out =>
        FidxApprox Q (Q.take (levelQ + 1)) (hpsY (Q.take (levelQ + 1)) (residues (Q.take (levelQ + 1))
            ((x + prodN (Q.take (levelQ + 1)) / 2) % prodN (Q.take (levelQ + 1))))) 1 →
          out < (k + 2) * P.getD j 0 ∧ ∃ δ : ℤ, (δ = -1 ∨ δ = 0 ∨ δ = 1) ∧
            ((out : ℕ) : ℤ) % (P.getD j 0 : ℤ)
              = (centeredRep (prodN (Q.take (levelQ + 1))) x + δ * (prodN (Q.take (levelQ + 1)) : ℤ))
                  % (P.getD j 0 : ℤ))
      X (row (modUp Q P levelQ levelP polQ) j)
    ∧ List.Forall₂ (fun x out =>
        FidxApprox Q (Q.take (levelQ + 1)) (hpsY (Q.take (levelQ + 1)) (residues (Q.take (levelQ + 1))
            ((x + prodN (Q.take (levelQ + 1)) / 2) % prodN (Q.take (levelQ + 1))))) (1 / 4) →
        prodN (Q.take (levelQ + 1)) ≤ 4 * ((x + prodN (Q.take (levelQ + 1)) / 2) % prodN (Q.take (levelQ + 1))) →
        4 * ((x + prodN (Q.take (levelQ + 1)) / 2) % prodN (Q.take (levelQ + 1))) < 3 * prodN (Q.take (levelQ + 1)) →
          ((out : ℕ) : ℤ) % (P.getD j 0 : ℤ) = centeredRep (prodN (Q.take (levelQ + 1))) x % (P.getD j 0 : ℤ)
          ∧ out < (k + 2) * P.getD j 0)
      X (row (modUp Q P levelQ levelP polQ) j) :=
  ⟨modUp_err_le_one Q P levelQ levelP hlQ hlP hC k hk hT polQ X hrows j hj,
   modUp_exact_of_quarter Q P levelQ levelP hlQ hlP hC k hk hT polQ X hrows j hj⟩

/-- **`rlwe.Evaluator.ModDown` with a special modulus: the four `(ctQP.IsNTT, ct.IsNTT)` combinations compute ONE
quotient** (standard ring, `N = 2^K ≥ 16`).  `X` the integer coefficients; the inputs are the rows of `X` in the domain
`qpNTT` (`domRows`); the output rows of the twin `evalModDown`, read in the coefficient domain when `ctNTT`
(`readCoeff`), are — limb for limb, for every value of the IEEE index — the rows of `modDownQPtoQ` on the
coefficient-domain rows of `X`, which `modDownQPtoQ_err_le_one` identifies as the rounded quotient ±1. -/
theorem evalModDown_domains (TQ TP : Tabs) (Q P : List Nat) (levelQ levelP K : Nat) (hK : 4 ≤ K)
    (hlQ : levelQ < Q.length) (hlP : levelP < P.length)
    (hTQ : ∀ i, i ≤ levelQ → NTT.Valid (tab TQ i) K ∧ (tab TQ i).q = Q.getD i 0)
    (hTP : ∀ j, j ≤ levelP → NTT.Valid (tab TP j) K ∧ (tab TP j).q = P.getD j 0)
    (hCP : Chain (P.take (levelP + 1))) (k : Nat) (hk : (P.take (levelP + 1)).sum ≤ k * W)
    (hTgt : Target Q (k + 4)) (X : List Nat) (hX : X.length = 2 ^ K) (qpNTT ctNTT : Bool)
    (i : Nat) (hi : i ≤ levelQ) :
    readCoeff ctNTT (tab TQ i)
        (row (evalModDown xfStd TQ TP Q P levelQ (some levelP) qpNTT ctNTT
          (domRows qpNTT TQ Q levelQ X) (domRows qpNTT TP P levelP X)).1 i)
      = row (modDownQPtoQ Q P levelQ levelP (coeffRows Q levelQ X) (coeffRows P levelP X)) i :=
  BasisExt.evalModDown_domains TQ TP Q P levelQ levelP K hK hlQ hlP hTQ hTP hCP k hk hTgt X hX qpNTT ctNTT i hi

/-- **`Evaluator.ModDown` without special modulus** (`levelP = -1`): for all four domain combinations the output, read in
the coefficient domain, is `X mod q_i` (every ring degree; the copy direction was wrong before repair C02-5). -/
theorem evalModDown_noP (TQ TP : Tabs) (Q P : List Nat) (levelQ K : Nat)
    (hTQ : ∀ i, i ≤ levelQ → NTT.Valid (tab TQ i) K ∧ (tab TQ i).q = Q.getD i 0)
    (X : List Nat) (hX : X.length = 2 ^ K) (qpNTT ctNTT : Bool) (pP : Rows) (i : Nat) (hi : i ≤ levelQ) :
    readCoeff ctNTT (tab TQ i)
        (row (evalModDown xfStd TQ TP Q P levelQ none qpNTT ctNTT (domRows qpNTT TQ Q levelQ X) pP).1 i)
      = X.map (· % Q.getD i 0) :=
  BasisExt.evalModDown_noP TQ TP Q P levelQ K hTQ X hX qpNTT ctNTT pP i hi

-- test (non-vacuity of `evalModDown_domains`): Q = [97], P = [193], N = 16, X = exX, NTT input → coefficient output
example :
    row (evalModDown xfStd (mkTabs 16 [97] [5]) (mkTabs 16 [193] [5]) [97] [193] 0 (some 0) true false
          (domRows true (mkTabs 16 [97] [5]) [97] 0 exX) (domRows true (mkTabs 16 [193] [5]) [193] 0 exX)).1 0
      = row (modDownQPtoQ [97] [193] 0 0 (coeffRows [97] 0 exX) (coeffRows [193] 0 exX)) 0 :=
  evalModDown_domains (mkTabs 16 [97] [5]) (mkTabs 16 [193] [5]) [97] [193] 0 0 4 (by decide) (by decide) (by decide)
    (fun i hi => by have : i = 0 := by omega
                    subst this; exact ⟨valid16_97, rfl⟩)
    (fun i hi => by have : i = 0 := by omega
                    subst this; exact ⟨valid16_193, rfl⟩)
    ⟨by intro q hq; simp at hq; subst hq; norm_num, by intro q hq; simp at hq; subst hq; rfl,
     by intro q hq; simp at hq; subst hq; norm_num, by decide⟩
    1 (by decide)
    ⟨by intro q hq; simp at hq; subst hq; norm_num, by intro q hq; simp at hq; subst hq; rfl,
     by intro q hq; simp at hq; subst hq; decide⟩
    exX rfl true false 0 (by decide)
-- test (`evalModDown_noP`, N = 8): NTT input → NTT output is a copy; read back it is X mod 97
example : readCoeff true (tab exT8 0)
      (row (evalModDown xfStd exT8 [] [97, 193] [] 0 none true true (domRows true exT8 [97, 193] 0 exX8) []).1 0)
    = exX8.map (· % 97) :=
  evalModDown_noP exT8 [] [97, 193] [] 0 3 (fun i hi => by have : i = 0 := by omega
                                                           subst this; exact ⟨valid8_97, rfl⟩)
    exX8 rfl true true [] 0 (by decide)

/-- `rlwe.ExtendBasisSmallNormAndCenterNTTMontgomery`, contract form: the unrepaired limb code is right whenever the
centred value fits the target prime, `|x| ≤ p`.  This is the function's "small norm" contract: all in-tree callers
(`core/rlwe/keygenerator.go:216,266,271`, `circuits/ckks/bootstrapping/keys.go:100,103`) pass SECRET KEYS (ternary, or
a Gaussian bounded by `6σ`), far below any NTT-friendly prime (`p ≥ 2N + 1`).  So the wrap of
`extendSmallNormNTTMontgomery_limb_counterexample` is NOT reachable with legal inputs — not a defect, but an
inconsistency with `ringqp.Ring.ExtendBasisSmallNormAndCenter` since repair C03-9 (which reduces `|x|` modulo `p`). -/
theorem extendSmallNormNTTMontgomery_limb_contract (q0 p c : Nat) (hcq : c < q0) (hq : q0 < W) (hp : p < W)
    (hfit : (centerInt q0 c).natAbs ≤ p) :
    ((extendSmallLimbWrap q0 p c : Nat) : Int) % p = centerInt q0 c % p :=
  extendSmallWrap_contract q0 p c hcq hq hp hfit

example : (centerInt 97 96).natAbs ≤ 17 := by decide  -- test: the ternary coefficient −1

end BasisExt

/-! ## 3. Gadget decomposition -/

open Lattigo.Decomp in
/-- power-of-two digits (`MaskVec`) are `< 2^w` … -/
theorem pow2_digit_lt (w j x : Nat) : pow2Digit w j x < 2 ^ w := pow2Digit_lt w j x

open Lattigo.Decomp in
/-- … and recombine to `x` as soon as `q ≤ 2^(w·n)`. -/
theorem pow2_digits_recombine (w n q x : Nat) (hq : q ≤ 2 ^ (w * n)) (hx : x < q) :
    pow2Recombine w n x = x := digits_recombine_pow2 w n q x hq hx

example : Decomp.pow2Recombine 10 4 (2 ^ 30 + 5) = 2 ^ 30 + 5 := by decide  -- test: 4 digits suffice

open Lattigo.Decomp in
/-- The hypothesis `q ≤ 2^(w·n)` is needed: with `n = round(log2 q / w)` digits (what
`BaseTwoDecompositionVectorSize` computes from `round(log2 q)`) the top bit of `q = 2^30+δ` is lost. -/
theorem pow2_digits_too_few : pow2Recombine 10 3 (2 ^ 30 + 5) ≠ 2 ^ 30 + 5 := digits_too_few

open Lattigo.Decomp in
/-- `ring.MaskVec(p, j·w, 2^w − 1, ·)` IS the `j`-th digit of every coefficient. -/
theorem maskVec_eq (w j : Nat) (p : List Nat) : maskVec (j * w) (2 ^ w - 1) p = p.map (pow2Digit w j) := rfl

open Lattigo.Decomp in
/-- RNS digits: if `d_i ≡ x (mod Q_i)` for pairwise coprime digit moduli then
`Σ_i d_i·(Q/Q_i)·[(Q/Q_i)⁻¹]_{Q_i} ≡ x (mod Q)` — signed digits (the centred ones the code produces, and the
ones that are off by one multiple of `Q_i`) included. -/
theorem rns_digits_recombine (Qs : List Nat) (inv : Nat → Nat) (x : Int) (ds : List Int)
    (hc : Qs.Pairwise Nat.Coprime) (hpos : ∀ Q ∈ Qs, 0 < Q)
    (hinv : ∀ Q ∈ Qs, ((prodN Qs / Q) * inv Q) % Q = 1)
    (hd : List.Forall₂ (fun (Q : Nat) (d : Int) => d % (Q : Int) = x % (Q : Int)) Qs ds) :
    rnsRecombine Qs inv ds % (prodN Qs : Int) = x % (prodN Qs : Int) :=
  rnsRecombine_modEq Qs inv x ds hc hpos hinv hd

open Lattigo.Decomp in
/-- **Counterexample (limb-level twin of `DecomposeAndSplit`, as `rlwe` called it without special modulus —
repaired in /repo by `fix:` 3f60e57, which makes the caller pass `nbPi = 1`; the end-to-end probe
`keyswitch_noP_nopw2` watches the repaired behaviour, `DecomposeAndSplit` itself is unchanged).**
`gadgetProductSinglePAndBitDecompLazy` passed `nbPi = levelP + 1`; with `P = ∅` (`levelP = −1`) that is
`nbPi = 0`, so `lvlQStart = d·0 = 0`: digit 1 of `x = 393` (`≡ 5 mod 97, ≡ 7 mod 193`) is again `[x]_{97} = 5`
instead of `[x]_{193} = 7`, and the digits recombine to `5`, not to `393`.  With `nbPi = 1` all is well. -/
theorem decompose_noP_counterexample :
    let Q := [97, 193]
    let p0 : Scaling.Rows := [[393 % 97], [393 % 193]]
    let inv := fun Qi => invMod (prodN Q / Qi % Qi) Qi
    decomposeAndSplit Q [] false 1 0 0 0 p0 [[0], [0]] = some ([[5], [5]], [])
    ∧ decomposeAndSplit Q [] false 1 0 0 1 p0 [[0], [0]] = some ([[5], [5]], [])
    ∧ rnsRecombine Q inv [5, 5] % (prodN Q : Int) ≠ 393 % (prodN Q : Int)
    ∧ decomposeAndSplit Q [] false 1 0 1 1 p0 [[0], [0]] = some ([[7], [7]], [])
    ∧ rnsRecombine Q inv [5, 7] % (prodN Q : Int) = 393 % (prodN Q : Int) := by
  decide

/-! ### 3b. Limb level ⊑ integer level for `Decomposer.DecomposeAndSplit` -/

section DecompLimb
open Lattigo.Decomp Lattigo.BasisExt

/-- **`DecomposeAndSplit`, single-prime digit** (copy branch, `decompLvl < 0`): no panic; every limb of every Q-row and
P-row is `≡ digitA q_d (x mod q_d)` — the signed digit with the code's centring (`c ≥ q_d >> 1` is negative:
range `[−⌈q_d/2⌉, ⌊q_d/2⌋)`, `digitA_bounds`; `≡ x (mod q_d)`, `digitA_emod`) — and `≤` the row's modulus. -/
theorem decompose_single_limbs (Q P : List Nat) (hasP : Bool) (levelQ levelP nbPi d : Nat)
    (hdl : decompLvl levelQ nbPi d < 0) (hst : d * nbPi ≤ levelQ) (hlQ : levelQ < Q.length)
    (hlP : hasP = true → levelP < P.length)
    (hQ : ∀ m ∈ Q, 1 < m ∧ m < W) (hP : ∀ m ∈ P, 1 < m ∧ m < W)
    (p0Q prevQ : Rows) (X : List Nat)
    (hrow : row p0Q (d * nbPi) = X.map (· % Q.getD (d * nbPi) 0)) :
    ∃ outQ outP, decomposeAndSplit Q P hasP levelQ levelP nbPi d p0Q prevQ = some (outQ, outP)
      ∧ (∀ i, i ≤ levelQ → List.Forall₂ (fun x out =>
            ((out : ℕ) : ℤ) % (Q.getD i 0 : ℤ)
                = digitA (Q.getD (d * nbPi) 0) (x % Q.getD (d * nbPi) 0) % (Q.getD i 0 : ℤ)
              ∧ out ≤ Q.getD i 0) X (row outQ i))
      ∧ (hasP = true → ∀ j, j ≤ levelP → List.Forall₂ (fun x out =>
            ((out : ℕ) : ℤ) % (P.getD j 0 : ℤ)
                = digitA (Q.getD (d * nbPi) 0) (x % Q.getD (d * nbPi) 0) % (P.getD j 0 : ℤ)
              ∧ out ≤ P.getD j 0) X (row outP j)) :=
  Decomp.decompose_single_limbs Q P hasP levelQ levelP nbPi d hdl hst hlQ hlP hQ hP p0Q prevQ X hrow

/-- the copy branch is taken exactly when the digit has one modulus: for a valid digit index `decompLvl + 2` is the
number of moduli `min(d·nbPi + nbPi, levelQ+1) − d·nbPi` of the digit -/
theorem decompLvl_eq (levelQ nbPi d : Nat) (hnb : 0 < nbPi) (hd : d * nbPi ≤ levelQ) :
    decompLvl levelQ nbPi d = ((min (d * nbPi + nbPi) (levelQ + 1) - d * nbPi : ℕ) : ℤ) - 2 :=
  Decomp.decompLvl_eq levelQ nbPi d hnb hd

/-- **`DecomposeAndSplit`, multi-prime digit** (HPS branch with `reconstructRNSCentered`; `Q_d = Π dasGrp` the digit
modulus, `≥ 2` primes): no panic; every limb of every Q-row OUTSIDE the digit's own moduli and of every P-row
`j ≤ levelP` is `≡ centeredRep Q_d x + δ·Q_d (mod m)` (`δ = hpsV − v`, `v = fidx` the IEEE index, named hypothesis
`v ≤ #moduli`) and `< (k+2)·m`.  For the exact index the value is THE centred digit `d = centeredRep Q_d x`:
`d ≡ x (mod Q_d)`, `−⌊Q_d/2⌋ ≤ d < Q_d − ⌊Q_d/2⌋` (`centeredRep_emod`, `centeredRep_bounds`). -/
theorem decompose_multi_limbs (Q P : List Nat) (hasP : Bool) (levelQ levelP nbPi d : Nat) (hnb : 0 < nbPi)
    (hst : d * nbPi ≤ levelQ) (hlQ : levelQ < Q.length)
    (hcnt : 2 ≤ min (d * nbPi + nbPi) (levelQ + 1) - d * nbPi)
    (hC : Chain (dasGrp Q levelQ nbPi d)) (k : Nat) (hk : (dasGrp Q levelQ nbPi d).sum ≤ k * W)
    (hTQ : Target Q (k + 1)) (hTP : Target P (k + 1)) (hlP : levelP + 1 ≤ nbPi) (hnP : nbPi ≤ P.length)
    (p0Q prevQ : Rows) (X : List Nat)
    (hrows : ∀ i, d * nbPi ≤ i → i < min (d * nbPi + nbPi) (levelQ + 1) →
      row p0Q i = X.map (· % Q.getD i 0)) :
    ∃ outQ outP, decomposeAndSplit Q P hasP levelQ levelP nbPi d p0Q prevQ = some (outQ, outP)
      ∧ (∀ j, j ≤ levelQ → (j < d * nbPi ∨ min (d * nbPi + nbPi) (levelQ + 1) ≤ j) →
          List.Forall₂ (fun x out =>
            fidx (dasGrp Q levelQ nbPi d) (dasY (dasGrp Q levelQ nbPi d) x) ≤ (dasGrp Q levelQ nbPi d).length →
              ((out : ℕ) : ℤ) % (Q.getD j 0 : ℤ)
                  = (centeredRep (prodN (dasGrp Q levelQ nbPi d)) x
                      + ((hpsV (dasGrp Q levelQ nbPi d) (dasY (dasGrp Q levelQ nbPi d) x) : ℤ)
                          - (fidx (dasGrp Q levelQ nbPi d) (dasY (dasGrp Q levelQ nbPi d) x) : ℤ))
                        * (prodN (dasGrp Q levelQ nbPi d) : ℤ)) % (Q.getD j 0 : ℤ)
                ∧ out < (k + 2) * Q.getD j 0) X (row outQ j))
      ∧ (∀ j, j ≤ levelP →
          List.Forall₂ (fun x out =>
            fidx (dasGrp Q levelQ nbPi d) (dasY (dasGrp Q levelQ nbPi d) x) ≤ (dasGrp Q levelQ nbPi d).length →
              ((out : ℕ) : ℤ) % (P.getD j 0 : ℤ)
                  = (centeredRep (prodN (dasGrp Q levelQ nbPi d)) x
                      + ((hpsV (dasGrp Q levelQ nbPi d) (dasY (dasGrp Q levelQ nbPi d) x) : ℤ)
                          - (fidx (dasGrp Q levelQ nbPi d) (dasY (dasGrp Q levelQ nbPi d) x) : ℤ))
                        * (prodN (dasGrp Q levelQ nbPi d) : ℤ)) % (P.getD j 0 : ℤ)
                ∧ out < (k + 2) * P.getD j 0) X (row outP j)) :=
  Decomp.decompose_multi_limbs Q P hasP levelQ levelP nbPi d hnb hst hlQ hcnt hC k hk hTQ hTP hlP hnP
    p0Q prevQ X hrows

/-- the centred digit: `≡ x (mod Q_d)` and `|d| ≤ Q_d/2` (for odd `Q_d`: `−(Q_d−1)/2 ≤ d ≤ (Q_d−1)/2`) -/
theorem centred_digit (Qd x : Nat) (hQ : 0 < Qd) :
    centeredRep Qd x % (Qd : ℤ) = (x : ℤ) % (Qd : ℤ)
    ∧ -((Qd / 2 : ℕ) : ℤ) ≤ centeredRep Qd x ∧ centeredRep Qd x < (Qd : ℤ) - ((Qd / 2 : ℕ) : ℤ) :=
  ⟨centeredRep_emod Qd x, centeredRep_bounds Qd x hQ⟩

/-- the copy branch's digit: `≡ c (mod q_d)`, range `[−(q_d − ⌊q_d/2⌋), ⌊q_d/2⌋)` — for odd `q_d` the value
`(q_d−1)/2` is represented by `−(q_d+1)/2`, half a unit beyond `q_d/2` (centring `coeff ≥ q_d >> 1`,
ring/basis_extension.go:421; the HPS branch centres symmetrically). -/
theorem copy_digit (qd c : Nat) (hc : c < qd) :
    digitA qd c % (qd : ℤ) = (c : ℤ) % (qd : ℤ)
    ∧ -((qd : ℤ) - ((qd / 2 : ℕ) : ℤ)) ≤ digitA qd c ∧ digitA qd c < ((qd / 2 : ℕ) : ℤ) :=
  ⟨digitA_emod qd c, digitA_bounds qd c hc⟩

/-- **the digits `DecomposeAndSplit` writes recombine** (`rns_digits_recombine` applies): with digit moduli `Qs`
(pairwise coprime) and ANY index errors `δ`, the values `centeredRep Q_i x + δ_i·Q_i` the limbs are congruent to
satisfy `Σ d_i·(Q/Q_i)·[(Q/Q_i)⁻¹]_{Q_i} ≡ x (mod Q)`. -/
theorem decompose_digits_recombine (Qs : List Nat) (inv : Nat → Nat) (x : Nat) (δ : Nat → ℤ)
    (hc : Qs.Pairwise Nat.Coprime) (hpos : ∀ Q ∈ Qs, 0 < Q)
    (hinv : ∀ Q ∈ Qs, ((prodN Qs / Q) * inv Q) % Q = 1) :
    rnsRecombine Qs inv (Qs.map fun Qi => centeredRep Qi x + δ Qi * (Qi : ℤ)) % (prodN Qs : ℤ)
      = (x : ℤ) % (prodN Qs : ℤ) :=
  digits_recombine Qs inv x δ hc hpos hinv

theorem decompose_digits_recombine_single (Qs : List Nat) (inv : Nat → Nat) (x : Nat)
    (hc : Qs.Pairwise Nat.Coprime) (hpos : ∀ Q ∈ Qs, 0 < Q)
    (hinv : ∀ Q ∈ Qs, ((prodN Qs / Q) * inv Q) % Q = 1) :
    rnsRecombine Qs inv (Qs.map fun qd => digitA qd (x % qd)) % (prodN Qs : ℤ)
      = (x : ℤ) % (prodN Qs : ℤ) :=
  digits_recombine_single Qs inv x hc hpos hinv

/-- **reduced NTT of an unreduced row** (every `N = 2^K`, entries `< M`, `M + 4q ≤ 2^64`) = NTT of the row mod `q` -/
theorem nttStd_unreduced {T : NTT.Tables} {K : Nat} (hT : NTT.Valid T K) (M : Nat)
    (hM : M + 4 * T.q ≤ W) (a : List Nat) (ha : ∀ x ∈ a, x < M) :
    NTT.nttStd T a = NTT.nttStd T (a.map (· % T.q)) :=
  Decomp.nttStd_unreduced hT M hM a ha

/-- ranges of the HPS branch for EVERY value of the IEEE index: limbs `< (k+2)·m` -/
theorem decompose_multi_lt (Q P : List Nat) (hasP : Bool) (levelQ levelP nbPi d : Nat) (hnb : 0 < nbPi)
    (hst : d * nbPi ≤ levelQ) (hlQ : levelQ < Q.length)
    (hcnt : 2 ≤ min (d * nbPi + nbPi) (levelQ + 1) - d * nbPi)
    (hC : Chain (dasGrp Q levelQ nbPi d)) (k : Nat) (hk : (dasGrp Q levelQ nbPi d).sum ≤ k * W)
    (hTQ : Target Q (k + 1)) (hTP : Target P (k + 1)) (hlP : levelP + 1 ≤ nbPi) (hnP : nbPi ≤ P.length)
    (p0Q prevQ : Rows) (X : List Nat)
    (hrows : ∀ i, d * nbPi ≤ i → i < min (d * nbPi + nbPi) (levelQ + 1) →
      row p0Q i = X.map (· % Q.getD i 0))
    (outQ outP : Rows) (hout : decomposeAndSplit Q P hasP levelQ levelP nbPi d p0Q prevQ = some (outQ, outP)) :
    (∀ j, j ≤ levelQ → (j < d * nbPi ∨ min (d * nbPi + nbPi) (levelQ + 1) ≤ j) →
        ∀ y ∈ row outQ j, y < (k + 2) * Q.getD j 0)
    ∧ (∀ j, j ≤ levelP → ∀ y ∈ row outP j, y < (k + 2) * P.getD j 0) :=
  Decomp.decompose_multi_lt Q P hasP levelQ levelP nbPi d hnb hst hlQ hcnt hC k hk hTQ hTP hlP hnP p0Q prevQ X
    hrows outQ outP hout

/-- **`DecomposeNTT` succeeds** when `DecomposeAndSplit` does for every digit, and digit `d` is `dnOut` of that output
(`dnInv`/`dnNtt`: the coefficient-domain / NTT-domain form of the input `c2`). -/
theorem decomposeNTT_some (TQ TP : Tabs) (Q P : List Nat) (levelQ levelP nbPi size : Nat) (isNTT : Bool)
    (c2 : Rows) (A B : Nat → Rows)
    (h : ∀ d, d < size → decomposeAndSplit Q P true levelQ levelP nbPi d (dnInv TQ levelQ isNTT c2)
        ((List.range (levelQ + 1)).map fun _ => []) = some (A d, B d)) :
    decomposeNTT TQ TP Q P levelQ levelP nbPi size isNTT c2
      = some ((List.range size).map fun d =>
          dnOut TQ TP levelQ levelP nbPi d (dnNtt TQ levelQ isNTT c2) (A d) (B d)) :=
  Decomp.decomposeNTT_some TQ TP Q P levelQ levelP nbPi size isNTT c2 A B h

/-- **rows of a digit of `DecomposeNTT`** (every `N = 2^K`): inside the digit's own moduli the NTT-domain input row; elsewhere
the reduced forward NTT of `limb mod q` of the (unreduced, `< M q`) limbs `DecomposeAndSplit` wrote. -/
theorem decomposeNTT_rows (TQ TP : Tabs) (Q P : List Nat) (levelQ levelP nbPi d K : Nat)
    (ntt a b : Rows)
    (hTQ : ∀ i, i ≤ levelQ → NTT.Valid (tab TQ i) K ∧ (tab TQ i).q = Q.getD i 0)
    (hTP : ∀ j, j ≤ levelP → NTT.Valid (tab TP j) K ∧ (tab TP j).q = P.getD j 0)
    (M : Nat → Nat)
    (ha : ∀ x, x ≤ levelQ → ¬ (d * nbPi ≤ x ∧ x < d * nbPi + nbPi) →
      M (Q.getD x 0) + 4 * Q.getD x 0 ≤ W ∧ ∀ y ∈ row a x, y < M (Q.getD x 0))
    (hb : ∀ j, j ≤ levelP → M (P.getD j 0) + 4 * P.getD j 0 ≤ W ∧ ∀ y ∈ row b j, y < M (P.getD j 0)) :
    (∀ x, x ≤ levelQ → row (dnOut TQ TP levelQ levelP nbPi d ntt a b).1 x =
        if d * nbPi ≤ x ∧ x < d * nbPi + nbPi then row ntt x
        else NTT.nttStd (tab TQ x) ((row a x).map (· % Q.getD x 0)))
    ∧ (∀ j, j ≤ levelP → row (dnOut TQ TP levelQ levelP nbPi d ntt a b).2 j =
        NTT.nttStd (tab TP j) ((row b j).map (· % P.getD j 0))) :=
  dnOut_rows TQ TP Q P levelQ levelP nbPi d K ntt a b hTQ hTP M ha hb

-- test (non-vacuity of `nttStd_unreduced`): q = 97, N = 16, a row with entries up to 3q − 1
example : NTT.nttStd (NTT.mkTables 16 97 32 5) ((List.range 16).map (· * 19 + 3))
    = NTT.nttStd (NTT.mkTables 16 97 32 5) (((List.range 16).map (· * 19 + 3)).map (· % 97)) :=
  nttStd_unreduced valid16_97 291 (by decide) ((List.range 16).map (· * 19 + 3)) (by decide)

-- non-vacuity: Q = [97, 193, 257, 769], P = [1153, 12289], nbPi = 2: digit 0 = {97, 193} (HPS branch)
example : (0 : Nat) < 2 ∧ 0 * 2 ≤ 3 ∧ 2 ≤ min (0 * 2 + 2) (3 + 1) - 0 * 2
    ∧ dasGrp [97, 193, 257, 769] 3 2 0 = [97, 193] ∧ Chain [97, 193] ∧ [97, 193].sum ≤ 1 * W
    ∧ decompLvl 3 2 0 = 0 :=
  ⟨by decide, by decide, by decide, by decide, chain_97_193, by decide, by decide⟩
-- … and nbPi = 1 (copy branch): decompLvl 3 1 2 = −1
example : decompLvl 3 1 2 < 0 := by decide
-- test (kernel): one limb of the copy branch: x ≡ 150 (mod 193) is negative (150 ≥ 96): −43 ≡ 54 (mod 97)
example : splitLimb 193 97 150 = 54 ∧ digitA 193 150 = -43 := by decide
-- test (EVALUATION, IEEE index included): digit 0 of x = 9361 = ⌊Q_0/2⌋ + 1 (centred value −9360) in basis QP
#guard decomposeAndSplit [97, 193, 257, 769] [1153, 12289] true 3 1 2 0
    ([97, 193, 257, 769].map fun q => [9361 % q]) [[0], [0], [0], [0]]
  = some ([[49], [97], [257 - 9360 % 257], [769 - 9360 % 769]],
          [[1153 - 9360 % 1153], [12289 - 9360]])

end DecompLimb

end Lattigo.Props.C02

#print axioms Lattigo.Props.C02.divFloor_residues
#print axioms Lattigo.Props.C02.divFloor_crt
#print axioms Lattigo.Props.C02.divRound_crt
#print axioms Lattigo.Props.C02.round_half_up
#print axioms Lattigo.Props.C02.divFloorMany_int
#print axioms Lattigo.Props.C02.divRoundMany_int
#print axioms Lattigo.Props.C02.divFloor_limbs
#print axioms Lattigo.Props.C02.divRound_limbs
#print axioms Lattigo.Props.C02.divFloorMany_limbs
#print axioms Lattigo.Props.C02.divRoundMany_limbs
#print axioms Lattigo.Props.C02.roundSeq_eq
#print axioms Lattigo.Props.C02.hps_sum
#print axioms Lattigo.Props.C02.hps_v_is_floor
#print axioms Lattigo.Props.C02.modUp_exact
#print axioms Lattigo.Props.C02.modUp_off_by_one
#print axioms Lattigo.Props.C02.modUp_centered_exact
#print axioms Lattigo.Props.C02.modDown_err
#print axioms Lattigo.Props.C02.modDown_exact
#print axioms Lattigo.Props.C02.extendSmallNorm
#print axioms Lattigo.Props.C02.extendSmallNorm_large_repaired
#print axioms Lattigo.Props.C02.extendSmallNormNTTMontgomery_limb_partial
#print axioms Lattigo.Props.C02.extendSmallNormNTTMontgomery_limb_counterexample
#print axioms Lattigo.Props.C02.pow2_digit_lt
#print axioms Lattigo.Props.C02.pow2_digits_recombine
#print axioms Lattigo.Props.C02.pow2_digits_too_few
#print axioms Lattigo.Props.C02.maskVec_eq
#print axioms Lattigo.Props.C02.rns_digits_recombine
#print axioms Lattigo.Props.C02.decompose_noP_counterexample
#print axioms Lattigo.Props.C02.divFloorNTT_limbs
#print axioms Lattigo.Props.C02.divRoundNTT_limbs
#print axioms Lattigo.Props.C02.divFloorManyNTT_limbs
#print axioms Lattigo.Props.C02.divRoundManyNTT_limbs
#print axioms Lattigo.Props.C02.divFloorNTT_coeffs
#print axioms Lattigo.Props.C02.divFloorNTT_small_ring_repaired
#print axioms Lattigo.Props.C02.ring_generic_twins_std
#print axioms Lattigo.Props.C02.multSum_limb
#print axioms Lattigo.Props.C02.reconstruct_limb
#print axioms Lattigo.Props.C02.modUpExact_limbs
#print axioms Lattigo.Props.C02.modUpExact_limbs_3p
#print axioms Lattigo.Props.C02.modUpExact_exact
#print axioms Lattigo.Props.C02.modUp_limbs
#print axioms Lattigo.Props.C02.modDownQPtoQ_limbs
#print axioms Lattigo.Props.C02.modDownQPtoP_limbs
#print axioms Lattigo.Props.C02.modDownQPtoQNTT_eq
#print axioms Lattigo.Props.C02.decompose_single_limbs
#print axioms Lattigo.Props.C02.decompLvl_eq
#print axioms Lattigo.Props.C02.decompose_multi_limbs
#print axioms Lattigo.Props.C02.decompose_multi_lt
#print axioms Lattigo.Props.C02.nttStd_unreduced
#print axioms Lattigo.Props.C02.decomposeNTT_some
#print axioms Lattigo.Props.C02.decomposeNTT_rows
#print axioms Lattigo.Props.C02.centred_digit
#print axioms Lattigo.Props.C02.copy_digit
#print axioms Lattigo.Props.C02.decompose_digits_recombine
#print axioms Lattigo.Props.C02.decompose_digits_recombine_single
#print axioms Lattigo.Props.C02.fidx_exact_iff
#print axioms Lattigo.Props.C02.fidx_of_approx
#print axioms Lattigo.Props.C02.modDownQPtoQ_err_le_one
#print axioms Lattigo.Props.C02.modDownQPtoQ_exact_of_quarter
#print axioms Lattigo.Props.C02.modUp_within_one_multiple
#print axioms Lattigo.Props.C02.evalModDown_domains
#print axioms Lattigo.Props.C02.evalModDown_noP
#print axioms Lattigo.Props.C02.extendSmallNormNTTMontgomery_limb_contract
