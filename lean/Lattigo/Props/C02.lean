import Lattigo.Proofs.ScalingRefine
import Lattigo.Proofs.BasisExtPrimes
import Lattigo.Proofs.DecompInt

/-!
# C02 — RNS basis extension, rescaling and gadget decomposition match integer division

Two levels (DESIGN.md §5.2):

* **(A) integer level** — theorems for ALL chains of distinct primes, all levels, all values, about the
  executable specification functions of `Model/Scaling.lean`, `Model/BasisExt.lean`, `Model/Decomp.lean`
  (`divFloorInt`, `divRoundInt`, `manyFloorInt`, `manyRoundInt`, `hpsY/hpsSum/hpsV/hpsOut`, `modDownRes`,
  `extendSmallLimb`, `pow2Digit/pow2Recombine`, `rnsRecombine`); the driver executes them (`int …` lines,
  compared with a math/big reference by the correspondence check).
* **(B) limb level** — the bit-exact twin of the Go functions (`divFloor…divRoundManyNTT`, `modUpExact`,
  `modUpQtoP/PtoQ`, `modDownQPtoQ/QPtoQNTT/QPtoP`, `decomposeAndSplit`, `maskVec`, `extendSmallNorm*`), tied
  limb for limb to the real code by the correspondence check.

Which limb-level function each integer-level theorem specifies, and what is PROVED about the connection:

| Go function | limb-level twin | integer-level spec | connection |
|---|---|---|---|
| `Ring.DivFloorByLastModulus` | `Scaling.divFloor` | `divFloor_crt` | **proved**: `divFloor_limbs` (every limb = ⌊x/q_ℓ⌋ mod q_i, from `MRed_spec`, `MForm_spec`, Fermat) |
| `Ring.DivRoundByLastModulus` | `Scaling.divRound` | `divRound_crt`, `round_half_up` | **proved**: `divRound_limbs` (before repair C02-1 of /repo the function also rewrote p0; now it does not, probe `div_input_unchanged`) |
| `Ring.Div{Floor,Round}ByLastModulusMany` | `Scaling.divFloorMany/divRoundMany` | `divFloorMany_int`, `divRoundMany_int` | **proved**: `divFloorMany_limbs`, `divRoundMany_limbs` + `roundSeq_eq` |
| the four `…NTT` variants | `Scaling.div*NTT` | same | GAP: = coefficient variants conjugated by the NTT; needs C01's NTT correctness theorem (`INTT∘NTT = id`, linearity) which is not available as a lemma; tie only |
| `ModUpExact`, `BasisExtender.ModUpQtoP/PtoQ` | `BasisExt.modUpExact/modUp` | `hps_sum`, `modUp_exact`, `modUp_off_by_one_*`, `modUp_centered_exact` | GAP (named): the Montgomery bookkeeping of `genModUpConstants`/`reconstruct`/`multSum` (128-bit accumulate + lazy reduction ≡ Σ y_i·(Q/q_i) + v·(−Q) mod p) is not proved, and the IEEE-754 computation of `v` is a hypothesis; tie is limb-exact incl. the Float index |
| `BasisExtender.ModDownQPtoQ{,NTT}/QPtoP` | `BasisExt.modDown*` | `modDown_floor/round/err` | GAP as above (built on ModUp) |
| `Decomposer.DecomposeAndSplit` | `Decomp.decomposeAndSplit` | `rns_digits_recombine` | GAP as above for the HPS branch; `decompose_noP_counterexample` is about the limb-level twin itself |
| `rlwe.Evaluator.DecomposeNTT` | `Decomp.decomposeNTT` | (digits of `DecomposeAndSplit` moved to the NTT domain) | tie only (needs C01's NTT theorem) |
| `ring.MaskVec` | `Decomp.maskVec` | `pow2_digits_recombine`, `pow2_digit_lt` | **proved**: `maskVec_eq` (definitional) |
| `ExtendBasisSmallNormAndCenter` | `BasisExt.extendSmallNorm` | `extendSmallNorm` | **proved** on the limb function itself (`extendSmallLimb` IS the limb code) |
-/

namespace Lattigo.Props.C02
open Lattigo Lattigo.Scaling

/-! ## 1. Division by the last modulus -/

/-- `divFloor_crt`: the per-modulus formula `out_i = (x_i − x_ℓ)·q_ℓ⁻¹ mod q_i` yields the residues of the
FLOORED quotient, for every chain of primes `qs`, every `q_ℓ` none of them divides, every `x`. -/
theorem divFloor_residues (qs : List Nat) (ql x : Nat)
    (hp : ∀ q ∈ qs, Nat.Prime q ∧ q < 2 ^ 64) (hnd : ∀ q ∈ qs, ¬ q ∣ ql) :
    divFloorInt qs ql (residues qs x) (x % ql) = residues qs (x / ql) :=
  divFloorInt_spec qs ql x hp hnd

/-- CRT form: the unique `y < Q_{ℓ-1}` with those residues IS `⌊x / q_ℓ⌋`. -/
theorem divFloor_crt (qs : List Nat) (ql x y : Nat)
    (hp : ∀ q ∈ qs, Nat.Prime q ∧ q < 2 ^ 64) (hnd : ∀ q ∈ qs, ¬ q ∣ ql) (hd : qs.Nodup)
    (hx : x < prodN qs * ql) (hy : y < prodN qs)
    (h : residues qs y = divFloorInt qs ql (residues qs x) (x % ql)) : y = x / ql :=
  Scaling.divFloor_crt qs ql x y hp hnd hd hx hy h

-- test (non-vacuity): Q = 97·193, q_ℓ = 257
example : divFloorInt [97, 193] 257 (residues [97, 193] 1000000) (1000000 % 257) = residues [97, 193] (1000000 / 257) := by
  decide

/-- `divRound_crt`: with the `(q_ℓ−1)/2` pre-addition the result is `⌊(x + (q_ℓ−1)/2)/q_ℓ⌋` (mod `Q_{ℓ-1}`:
for `x` within `q_ℓ/2` of `Q_ℓ` the quotient is `Q_{ℓ-1} ≡ 0`, i.e. the centred value −ε rounds to 0). -/
theorem divRound_crt (qs : List Nat) (ql x y : Nat)
    (hp : ∀ q ∈ qs, Nat.Prime q ∧ q < 2 ^ 64) (hnd : ∀ q ∈ qs, ¬ q ∣ ql) (hql : 0 < ql) (hd : qs.Nodup)
    (hy : y < prodN qs)
    (h : residues qs y = divRoundInt qs ql (residues qs x) (x % ql)) :
    y = ((x + half ql) / ql) % prodN qs :=
  Scaling.divRound_crt qs ql x y hp hnd hql hd hy h

/-- … and that quotient is round-half-up `⌊x/q + 1/2⌋ = ⌊(2x + q)/(2q)⌋` for odd `q`. -/
theorem round_half_up (q x : Nat) (hodd : q % 2 = 1) : (x + half q) / q = (2 * x + q) / (2 * q) :=
  half_round q x hodd

example : divRoundInt [97, 193] 257 (residues [97, 193] 1000200) (1000200 % 257)
    = residues [97, 193] ((2 * 1000200 + 257) / (2 * 257)) := by decide

/-- `divMany = iterate`, floored: `nb` successive divisions by the last moduli `back` = ONE floored division by
their product (`⌊⌊x/a⌋/b⌋ = ⌊x/(ab)⌋`). -/
theorem divFloorMany_int (front back : List Nat) (x : Nat)
    (hp : ∀ q ∈ front ++ back, Nat.Prime q ∧ q < 2 ^ 64) (hnd : (front ++ back).Nodup) :
    manyFloorInt back.length (front ++ back) (residues (front ++ back) x) = residues front (x / prodN back) :=
  manyFloorInt_spec front back x hp hnd

/-- `divMany = iterate`, rounded.  The property only claims per-step rounding; for ODD moduli (all lattigo
moduli are) the proof gives more: sequential round-half-up IS round-half-up by the product. -/
theorem divRoundMany_int (front back : List Nat) (x : Nat)
    (hp : ∀ q ∈ front ++ back, Nat.Prime q ∧ q < 2 ^ 64) (hnd : (front ++ back).Nodup)
    (hodd : ∀ q ∈ back, q % 2 = 1) :
    manyRoundInt back.length (front ++ back) (residues (front ++ back) x)
      = residues front ((x + half (prodN back)) / prodN back) :=
  manyRoundInt_spec front back x hp hnd hodd

example : manyFloorInt 2 [97, 193, 257, 769] (residues [97, 193, 257, 769] 3000000000)
    = residues [97, 193] (3000000000 / (257 * 769)) := by decide

/-- In general (an even divisor) sequential round-half-up is NOT rounding by the product: 1/2 → 1 → 1/2 → 1
but 1/4 → 0.  (test) -/
example : let rhu := fun (x q : Nat) => (2 * x + q) / (2 * q); rhu (rhu 1 2) 2 = 1 ∧ rhu 1 4 = 0 := by decide

/-- **Refinement, `DivFloorByLastModulus`**: on an admissible chain (distinct odd primes `< 2^61`) the limb-level
twin — `MRed` with the `RescaleConstants` entry `MForm(q_i − q_ℓ^(q_i−2))`, uint64 wrap-around, lazy
`2q_i − x_i + x_ℓ` — returns in every limb the residue of the floored quotient. -/
theorem divFloor_limbs (qs : List Nat) (hC : Chain qs) (level : Nat) (hl : level < qs.length)
    (p0 : Rows) (X : List Nat) (hrows : ∀ i, i ≤ level → row p0 i = X.map (· % modulus qs i)) :
    divFloor qs level p0 = (List.range level).map fun i => X.map fun x =>
      (x / modulus qs level) % modulus qs i :=
  Scaling.divFloor_limbs qs hC level hl p0 X hrows

/-- **Refinement, `DivRoundByLastModulus`** (rows of p1; p0 is an argument of the twin only, not a result:
since repair C02-1 of /repo the function does not touch it — probe `div_input_unchanged`). -/
theorem divRound_limbs (qs : List Nat) (hC : Chain qs) (level : Nat) (hl : level < qs.length)
    (p0 : Rows) (X : List Nat) (hrows : ∀ i, i ≤ level → row p0 i = X.map (· % modulus qs i)) :
    divRound qs level p0 = (List.range level).map fun i => X.map fun x =>
      ((x + half (modulus qs level)) / modulus qs level) % modulus qs i :=
  Scaling.divRound_limbs qs hC level hl p0 X hrows

/-- **Refinement, `DivFloorByLastModulusMany`**, every `nbRescales ≤ level`. -/
theorem divFloorMany_limbs (qs : List Nat) (hC : Chain qs) (level nb : Nat) (hl : level < qs.length)
    (hnb : nb ≤ level) (p0 : Rows) (X : List Nat)
    (hrows : ∀ i, i ≤ level → row p0 i = X.map (· % modulus qs i)) :
    ∃ p1, divFloorMany qs level nb p0 = some p1 ∧ ∀ i, i ≤ level - nb →
      row p1 i = X.map fun x => (x / lastProd qs level nb) % modulus qs i :=
  Scaling.divFloorMany_limbs qs hC level nb hl hnb p0 X hrows

/-- **Refinement, `DivRoundByLastModulusMany`**, every `nbRescales ≤ level`; `roundSeq` is the `nb`-fold
round-half-up quotient, equal to round-half-up by the product (`roundSeq_eq`). -/
theorem divRoundMany_limbs (qs : List Nat) (hC : Chain qs) (level nb : Nat) (hl : level < qs.length)
    (hnb : nb ≤ level) (p0 : Rows) (X : List Nat)
    (hrows : ∀ i, i ≤ level → row p0 i = X.map (· % modulus qs i)) :
    ∃ p1, divRoundMany qs level nb p0 = some p1 ∧ ∀ i, i ≤ level - nb →
      row p1 i = X.map fun x => roundSeq qs level nb x % modulus qs i :=
  Scaling.divRoundMany_limbs qs hC level nb hl hnb p0 X hrows

theorem roundSeq_eq (qs : List Nat) (nb level x : Nat) (h : ∀ s, s < nb → modulus qs (level - s) % 2 = 1) :
    roundSeq qs level nb x = (x + half (lastProd qs level nb)) / lastProd qs level nb :=
  Scaling.roundSeq_eq qs nb level x h

-- test (non-vacuity of `Chain` and of the row hypothesis): Q = [97, 193, 257], x = 1234567
example : Chain [97, 193, 257] :=
  ⟨by intro q hq; simp at hq; rcases hq with rfl | rfl | rfl <;> norm_num,
   by intro q hq; simp at hq; rcases hq with rfl | rfl | rfl <;> rfl,
   by intro q hq; simp at hq; rcases hq with rfl | rfl | rfl <;> norm_num,
   by decide⟩
example : divFloor [97, 193, 257] 2 [[1234567 % 97], [1234567 % 193], [1234567 % 257]]
    = [[1234567 / 257 % 97], [1234567 / 257 % 193]] := by decide +kernel

/-! ## 2. Basis extension (HPS), ModDown, small-norm extension

Notation of the theorems: `qs` the source chain, `Q = prodN qs`, `x < Q` the (already shifted by `⌊Q/2⌋`, see
`modUp_centered_exact`) input, `ys = hpsY qs (residues qs x)` the values `y_i = [x·(Q/q_i)⁻¹]_{q_i}` the code
computes in `reconstructRNS` (`MRed` with `qoverqiinvqi`), `hpsSum = Σ y_i·(Q/q_i)` what `multSum` accumulates
modulo the target prime `p` (with `qoverqimodp`), `hpsOut … v p` what it writes after adding `vtimesqmodp[v]
= v·(−Q) mod p`.  The index `v` is an explicit parameter: the IEEE-754 computation of
`uint64(Σ float64(y_i)/float64(q_i))` is NOT modelled in theorems (it IS executed, bit-exactly, by the twin). -/

section BasisExt
open Lattigo.BasisExt

/-- `Σ y_i·(Q/q_i) = x + v·Q` with `0 ≤ v < #moduli`, for pairwise coprime moduli and ANY `y_i < q_i` with
`y_i·(Q/q_i) ≡ x (mod q_i)`. -/
theorem hps_sum (qs ys : List Nat) (x : Nat) (hne : qs ≠ [])
    (hc : qs.Pairwise Nat.Coprime) (hpos : ∀ q ∈ qs, 0 < q) (hx : x < prodN qs)
    (hy : List.Forall₂ (fun qi yi => yi < qi ∧ (yi * qStar qs qi) % qi = x % qi) qs ys) :
    hpsSum qs ys = x + hpsV qs ys * prodN qs ∧ hpsV qs ys < qs.length :=
  BasisExt.hps_sum qs ys x hne hc hpos hx hy

/-- `v = ⌊Σ y_i/q_i⌋` (the quantity the code approximates in floating point). -/
theorem hps_v_is_floor (qs ys : List Nat) (hpos : ∀ q ∈ qs, 0 < q) :
    hpsV qs ys = ⌊(List.zipWith (fun (qi yi : Nat) => (yi : ℚ) / (qi : ℚ)) qs ys).sum⌋₊ :=
  hpsV_eq_floor qs ys hpos

/-- `modUp_exact`, on a chain of distinct primes `< 2^64` with the code's own `y_i` (Fermat inverses):
if the correction index is the exact `v`, the output for EVERY target modulus `p` is `x mod p`. -/
theorem modUp_exact (qs : List Nat) (x p : Nat) (hne : qs ≠ [])
    (hp : ∀ q ∈ qs, Nat.Prime q ∧ q < 2 ^ 64) (hnd : qs.Nodup) (hx : x < prodN qs) (hp0 : 0 < p) :
    let ys := hpsY qs (residues qs x)
    hpsSum qs ys = x + hpsV qs ys * prodN qs ∧ hpsV qs ys < qs.length
      ∧ hpsOut qs ys (hpsV qs ys) p = x % p :=
  modUp_exact_primes qs x p hne hp hnd hx hp0

example : hpsV [3, 5, 7] (hpsY [3, 5, 7] (residues [3, 5, 7] 52)) = 1 := by decide  -- test

/-- `modUp_off_by_one`: an index one too large gives `x − Q`, one too small gives `x + Q`. -/
theorem modUp_off_by_one (qs ys : List Nat) (x p v : Nat)
    (hc : qs.Pairwise Nat.Coprime) (hpos : ∀ q ∈ qs, 0 < q) (hx : x < prodN qs)
    (hy : List.Forall₂ (fun qi yi => yi < qi ∧ (yi * qStar qs qi) % qi = x % qi) qs ys) (hp : 0 < p) :
    (v = hpsV qs ys + 1 → (hpsOut qs ys v p + prodN qs) % p = x % p)
    ∧ (v + 1 = hpsV qs ys → hpsOut qs ys v p = (x + prodN qs) % p) :=
  ⟨modUp_off_by_one_hi qs ys x p v hc hpos hx hy hp, modUp_off_by_one_lo qs ys x p v hc hpos hx hy hp⟩

/-- `modUp_centered_exact` (named IEEE hypothesis): `t` is the float sum seen as a rational. If the shifted input
satisfies `Q/4 ≤ x < 3Q/4` — i.e. the centred value `x − ⌊Q/2⌋` is below `Q/4` in absolute value — and the float
error is below `1/4`, then `⌊t⌋` IS the exact index; with error below `1` it is never off by more than one. -/
theorem modUp_centered_exact (qs ys : List Nat) (x : Nat) (t : ℚ)
    (hc : qs.Pairwise Nat.Coprime) (hpos : ∀ q ∈ qs, 0 < q) (hx : x < prodN qs)
    (hy : List.Forall₂ (fun qi yi => yi < qi ∧ (yi * qStar qs qi) % qi = x % qi) qs ys) :
    (prodN qs ≤ 4 * x → 4 * x < 3 * prodN qs →
      |t - (List.zipWith (fun (qi yi : Nat) => (yi : ℚ) / (qi : ℚ)) qs ys).sum| < 1 / 4 → ⌊t⌋₊ = hpsV qs ys)
    ∧ (|t - (List.zipWith (fun (qi yi : Nat) => (yi : ℚ) / (qi : ℚ)) qs ys).sum| < 1 →
      ⌊t⌋₊ = hpsV qs ys ∨ ⌊t⌋₊ = hpsV qs ys + 1 ∨ ⌊t⌋₊ + 1 = hpsV qs ys) :=
  ⟨fun hlo hhi ht => BasisExt.modUp_centered_exact qs ys x t hc hpos hx hy hlo hhi ht,
   fun ht => modUp_never_off_by_more_than_one qs ys x t hc hpos hx hy ht⟩

/-- `modDown_err`: `(x_i − e_i)·P⁻¹ mod q_i` where `e_i` extends the centred `[x]_P` with an error of `δ`
multiples of `P`: the result is `round(x/P) − δ`; exact extension (`δ = 0`) gives the ROUNDED quotient
`⌊(x + ⌊P/2⌋)/P⌋` (all three `ModDown*`; the comment of `ModDownQPtoP` said "floored" before repair C02-3);
extension of the non-centred `[x]_P` would give the floored one. -/
theorem modDown_err (qi P c x ei : Nat) (δ : Int) (hqi : 0 < qi) (hc : (P * c) % qi = 1)
    (he : (ei : Int) % qi = (centeredRep P x + δ * P) % qi) :
    ((modDownRes qi c (x % qi) ei : Nat) : Int) % qi = ((((x + P / 2) / P : Nat) : Int) - δ) % qi :=
  BasisExt.modDown_err qi P c x ei δ hqi hc he

theorem modDown_exact (qi P c x ei : Nat) (hqi : 0 < qi) (hc : (P * c) % qi = 1) :
    ((ei : Int) % qi = centeredRep P x % qi → modDownRes qi c (x % qi) ei = ((x + P / 2) / P) % qi)
    ∧ (ei % qi = (x % P) % qi → modDownRes qi c (x % qi) ei = (x / P) % qi) :=
  ⟨modDown_round qi P c x ei hqi hc, modDown_floor qi P c x ei hqi hc⟩

example : modDownRes 7 1 (100 % 7) 2 = ((100 + 15 / 2) / 15) % 7 := by decide  -- test: q=7, P=15, x=100

/-- `extendSmallNorm`: the limb the code writes modulo `p` represents the same signed integer as the residue `c`
modulo `q_0` — PROVIDED a negative value fits: `q_0 − c ≤ p` (|x| ≤ p). -/
theorem extendSmallNorm (q0 p c : Nat) (hcq : c < q0) (hq : q0 < W) (hp : p < W)
    (hfit : q0 / 2 < c → q0 - c ≤ p) :
    ((extendSmallLimb q0 p c : Nat) : Int) % p = centerInt q0 c % p :=
  extendSmall_spec q0 p c hcq hq hp hfit

/-- The hypothesis `|x| ≤ p` is forced: for `x = −37` (`c = 60` mod `97`) and `p = 17` the uint64 subtraction
`p − 37` wraps and the limb is `2^64 − 20 ≢ −37 (mod 17)`. (The real code does the same: harness lines
`extsmall … large`, counted as outside the "small norm" contract, not as a violation.) -/
theorem extendSmallNorm_large_counterexample :
    extendSmallLimb 97 17 60 = W - 20 ∧
    ((extendSmallLimb 97 17 60 : Nat) : Int) % (17 : Nat) ≠ centerInt 97 60 % (17 : Nat) :=
  extendSmall_wraps

end BasisExt

/-! ## 3. Gadget decomposition -/

open Lattigo.Decomp in
/-- power-of-two digits (`MaskVec`) are `< 2^w` … -/
theorem pow2_digit_lt (w j x : Nat) : pow2Digit w j x < 2 ^ w := pow2Digit_lt w j x

open Lattigo.Decomp in
/-- … and recombine to `x` as soon as `q ≤ 2^(w·n)`. -/
theorem pow2_digits_recombine (w n q x : Nat) (hq : q ≤ 2 ^ (w * n)) (hx : x < q) :
    pow2Recombine w n x = x := digits_recombine_pow2 w n q x hq hx

example : Decomp.pow2Recombine 10 4 (2 ^ 30 + 5) = 2 ^ 30 + 5 := by decide  -- test: 4 digits suffice

open Lattigo.Decomp in
/-- The hypothesis `q ≤ 2^(w·n)` is needed: with `n = round(log2 q / w)` digits (what
`BaseTwoDecompositionVectorSize` computes from `round(log2 q)`) the top bit of `q = 2^30+δ` is lost. -/
theorem pow2_digits_too_few : pow2Recombine 10 3 (2 ^ 30 + 5) ≠ 2 ^ 30 + 5 := digits_too_few

open Lattigo.Decomp in
/-- `ring.MaskVec(p, j·w, 2^w − 1, ·)` IS the `j`-th digit of every coefficient. -/
theorem maskVec_eq (w j : Nat) (p : List Nat) : maskVec (j * w) (2 ^ w - 1) p = p.map (pow2Digit w j) := rfl

open Lattigo.Decomp in
/-- RNS digits: if `d_i ≡ x (mod Q_i)` for pairwise coprime digit moduli then
`Σ_i d_i·(Q/Q_i)·[(Q/Q_i)⁻¹]_{Q_i} ≡ x (mod Q)` — signed digits (the centred ones the code produces, and the
ones that are off by one multiple of `Q_i`) included. -/
theorem rns_digits_recombine (Qs : List Nat) (inv : Nat → Nat) (x : Int) (ds : List Int)
    (hc : Qs.Pairwise Nat.Coprime) (hpos : ∀ Q ∈ Qs, 0 < Q)
    (hinv : ∀ Q ∈ Qs, ((prodN Qs / Q) * inv Q) % Q = 1)
    (hd : List.Forall₂ (fun (Q : Nat) (d : Int) => d % (Q : Int) = x % (Q : Int)) Qs ds) :
    rnsRecombine Qs inv ds % (prodN Qs : Int) = x % (prodN Qs : Int) :=
  rnsRecombine_modEq Qs inv x ds hc hpos hinv hd

open Lattigo.Decomp in
/-- **Counterexample (limb-level twin of `DecomposeAndSplit`, as `rlwe` called it without special modulus —
repaired in /repo by `fix:` 3f60e57, which makes the caller pass `nbPi = 1`; the end-to-end probe
`keyswitch_noP_nopw2` watches the repaired behaviour, `DecomposeAndSplit` itself is unchanged).**
`gadgetProductSinglePAndBitDecompLazy` passed `nbPi = levelP + 1`; with `P = ∅` (`levelP = −1`) that is
`nbPi = 0`, so `lvlQStart = d·0 = 0`: digit 1 of `x = 393` (`≡ 5 mod 97, ≡ 7 mod 193`) is again `[x]_{97} = 5`
instead of `[x]_{193} = 7`, and the digits recombine to `5`, not to `393`.  With `nbPi = 1` all is well. -/
theorem decompose_noP_counterexample :
    let Q := [97, 193]
    let p0 : Scaling.Rows := [[393 % 97], [393 % 193]]
    let inv := fun Qi => invMod (prodN Q / Qi % Qi) Qi
    decomposeAndSplit Q [] false 1 0 0 0 p0 [[0], [0]] = some ([[5], [5]], [])
    ∧ decomposeAndSplit Q [] false 1 0 0 1 p0 [[0], [0]] = some ([[5], [5]], [])
    ∧ rnsRecombine Q inv [5, 5] % (prodN Q : Int) ≠ 393 % (prodN Q : Int)
    ∧ decomposeAndSplit Q [] false 1 0 1 1 p0 [[0], [0]] = some ([[7], [7]], [])
    ∧ rnsRecombine Q inv [5, 7] % (prodN Q : Int) = 393 % (prodN Q : Int) := by
  decide

end Lattigo.Props.C02

#print axioms Lattigo.Props.C02.divFloor_residues
#print axioms Lattigo.Props.C02.divFloor_crt
#print axioms Lattigo.Props.C02.divRound_crt
#print axioms Lattigo.Props.C02.round_half_up
#print axioms Lattigo.Props.C02.divFloorMany_int
#print axioms Lattigo.Props.C02.divRoundMany_int
#print axioms Lattigo.Props.C02.divFloor_limbs
#print axioms Lattigo.Props.C02.divRound_limbs
#print axioms Lattigo.Props.C02.divFloorMany_limbs
#print axioms Lattigo.Props.C02.divRoundMany_limbs
#print axioms Lattigo.Props.C02.roundSeq_eq
#print axioms Lattigo.Props.C02.hps_sum
#print axioms Lattigo.Props.C02.hps_v_is_floor
#print axioms Lattigo.Props.C02.modUp_exact
#print axioms Lattigo.Props.C02.modUp_off_by_one
#print axioms Lattigo.Props.C02.modUp_centered_exact
#print axioms Lattigo.Props.C02.modDown_err
#print axioms Lattigo.Props.C02.modDown_exact
#print axioms Lattigo.Props.C02.extendSmallNorm
#print axioms Lattigo.Props.C02.extendSmallNorm_large_counterexample
#print axioms Lattigo.Props.C02.pow2_digit_lt
#print axioms Lattigo.Props.C02.pow2_digits_recombine
#print axioms Lattigo.Props.C02.pow2_digits_too_few
#print axioms Lattigo.Props.C02.maskVec_eq
#print axioms Lattigo.Props.C02.rns_digits_recombine
#print axioms Lattigo.Props.C02.decompose_noP_counterexample
