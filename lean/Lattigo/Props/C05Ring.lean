/-
  C05 on the ring the ciphertexts live in.

  `Props/C05.lean` (§ abstract phase identities) links a register of the BGV/BFV evaluator model to the RNS
  limbs of the ciphertext through `phase(ct) = T⁻¹·Δ·m + e`, with four identities proved over EVERY commutative
  ring: `phase_add`, `phase_mul`, `phase_mul_noise`, `phase_match`.  Here they are instantiated at
  `α := WFPoly qs n` (`Proofs/RPolyRing.lean`: the well-formed RNS polynomials modulo `X^n+1` over the chain
  `qs`, a `CommRing` whose operations are the model's) and transported to plain `RPoly` values:

    hypotheses = well-formedness of the inputs (`WFq qs n x`) + the hypothesis of the generic theorem stated
                 on the `RPoly` values (`T * Tinv = rpOne qs n`, resp. `r0 * Δ0 = r1 * Δ1`);
    conclusion = the same identity between `RPoly` values computed with the model's `+ *`.

  The generic proofs live only in `Props/C05.lean`, which imports this file: they are restated here as `…_gen`
  (same statement, same proof).

  Vacuity check: no hypothesis quantifies over abstract maps.  `T * Tinv = 1` IS satisfiable in `WFPoly qs n`
  exactly when the plaintext modulus is a unit modulo every `q_i`: `tInv_spec` gives the inverse for the
  constant polynomials (`constR`), instantiated in §3 with `T = 17`, `qs = [97, 193]`; `r0·Δ0 = r1·Δ1` is what
  `matchScales_spec` provides modulo `t`.

  NOT applicable: there is no `…_calls` theorem — `Driver/C05.lean` runs `BGV.step` on registers
  (level, degree, scale, slot values in `Z_t`), never on `RPoly`.  `matchScales_spec`, `rescale_scale`, `meta_*`,
  `errors_*`, `step_sound`, `program_sound`, … are statements about that data (`Nat`, `ZMod t`): nothing to
  transport.
-/
import Lattigo.Proofs.RPolyTransport
import Mathlib.Tactic.Ring
import Mathlib.Tactic.LinearCombination

set_option linter.unusedSectionVars false

namespace Lattigo.BGV.C05Ring
open Lattigo Lattigo.RPolyRing Lattigo.Transport

/-! ## 1. Generic statements proved in `Props/C05.lean` (same statements, same proofs) -/

section gen
variable {α : Type} [CommRing α]

theorem phase_add_gen (Tinv Δ m1 m2 e1 e2 : α) :
    (Tinv * Δ * m1 + e1) + (Tinv * Δ * m2 + e2) = Tinv * Δ * (m1 + m2) + (e1 + e2) := by ring

theorem phase_mul_gen (T Tinv Δ1 Δ2 m1 m2 : α) (hT : T * Tinv = 1) :
    T * (Tinv * Δ1 * m1) * (Tinv * Δ2 * m2) = Tinv * (Δ1 * Δ2) * (m1 * m2) := by
  linear_combination (Tinv * Δ1 * Δ2 * m1 * m2) * hT

theorem phase_mul_noise_gen (T Tinv Δ1 Δ2 m1 m2 e1 e2 : α) (hT : T * Tinv = 1) :
    T * (Tinv * Δ1 * m1 + e1) * (Tinv * Δ2 * m2 + e2)
      = Tinv * (Δ1 * Δ2) * (m1 * m2) + (Δ1 * m1 * e2 + Δ2 * m2 * e1 + T * e1 * e2) := by
  linear_combination (Tinv * Δ1 * Δ2 * m1 * m2 + Δ1 * m1 * e2 + Δ2 * m2 * e1) * hT

theorem phase_match_gen (Tinv Δ0 Δ1 r0 r1 m m' : α) (h : r0 * Δ0 = r1 * Δ1) :
    r0 * (Tinv * Δ0 * m) + r1 * (Tinv * Δ1 * m') = Tinv * (r0 * Δ0) * (m + m') := by
  linear_combination (Tinv * m') * (-h)

end gen

/-! ## 2. The theorems on `RPoly` values -/

section rpoly
variable {qs : List ℕ} {n : ℕ} [Good qs n]

/-- **phase_add_rpoly.**  `(T⁻¹Δm₁ + e₁) + (T⁻¹Δm₂ + e₂) = T⁻¹Δ(m₁ + m₂) + (e₁ + e₂)` -/
theorem phase_add_rpoly (Tinv Δ m1 m2 e1 e2 : RPoly) (hTi : WFq qs n Tinv) (hΔ : WFq qs n Δ)
    (hm1 : WFq qs n m1) (hm2 : WFq qs n m2) (he1 : WFq qs n e1) (he2 : WFq qs n e2) :
    (Tinv * Δ * m1 + e1) + (Tinv * Δ * m2 + e2) = Tinv * Δ * (m1 + m2) + (e1 + e2) := by
  obtain ⟨Tinv, rfl⟩ := exists_lift Tinv hTi
  obtain ⟨Δ, rfl⟩ := exists_lift Δ hΔ
  obtain ⟨m1, rfl⟩ := exists_lift m1 hm1
  obtain ⟨m2, rfl⟩ := exists_lift m2 hm2
  obtain ⟨e1, rfl⟩ := exists_lift e1 he1
  obtain ⟨e2, rfl⟩ := exists_lift e2 he2
  exact congrArg val (phase_add_gen Tinv Δ m1 m2 e1 e2)

/-- **phase_mul_rpoly.**  `tensorStandard` multiplies by `T`: `T·(T⁻¹Δ₁m₁)(T⁻¹Δ₂m₂) = T⁻¹(Δ₁Δ₂)(m₁m₂)` -/
theorem phase_mul_rpoly (T Tinv Δ1 Δ2 m1 m2 : RPoly) (hT : WFq qs n T) (hTi : WFq qs n Tinv)
    (hΔ1 : WFq qs n Δ1) (hΔ2 : WFq qs n Δ2) (hm1 : WFq qs n m1) (hm2 : WFq qs n m2)
    (hTT : T * Tinv = rpOne qs n) :
    T * (Tinv * Δ1 * m1) * (Tinv * Δ2 * m2) = Tinv * (Δ1 * Δ2) * (m1 * m2) := by
  obtain ⟨T, rfl⟩ := exists_lift T hT
  obtain ⟨Tinv, rfl⟩ := exists_lift Tinv hTi
  obtain ⟨Δ1, rfl⟩ := exists_lift Δ1 hΔ1
  obtain ⟨Δ2, rfl⟩ := exists_lift Δ2 hΔ2
  obtain ⟨m1, rfl⟩ := exists_lift m1 hm1
  obtain ⟨m2, rfl⟩ := exists_lift m2 hm2
  exact congrArg val (phase_mul_gen T Tinv Δ1 Δ2 m1 m2 (val_injective hTT))

/-- **phase_mul_noise_rpoly.**  With noise: the product's noise is `Δ₁m₁e₂ + Δ₂m₂e₁ + T·e₁e₂` -/
theorem phase_mul_noise_rpoly (T Tinv Δ1 Δ2 m1 m2 e1 e2 : RPoly) (hT : WFq qs n T) (hTi : WFq qs n Tinv)
    (hΔ1 : WFq qs n Δ1) (hΔ2 : WFq qs n Δ2) (hm1 : WFq qs n m1) (hm2 : WFq qs n m2)
    (he1 : WFq qs n e1) (he2 : WFq qs n e2) (hTT : T * Tinv = rpOne qs n) :
    T * (Tinv * Δ1 * m1 + e1) * (Tinv * Δ2 * m2 + e2)
      = Tinv * (Δ1 * Δ2) * (m1 * m2) + (Δ1 * m1 * e2 + Δ2 * m2 * e1 + T * e1 * e2) := by
  obtain ⟨T, rfl⟩ := exists_lift T hT
  obtain ⟨Tinv, rfl⟩ := exists_lift Tinv hTi
  obtain ⟨Δ1, rfl⟩ := exists_lift Δ1 hΔ1
  obtain ⟨Δ2, rfl⟩ := exists_lift Δ2 hΔ2
  obtain ⟨m1, rfl⟩ := exists_lift m1 hm1
  obtain ⟨m2, rfl⟩ := exists_lift m2 hm2
  obtain ⟨e1, rfl⟩ := exists_lift e1 he1
  obtain ⟨e2, rfl⟩ := exists_lift e2 he2
  exact congrArg val (phase_mul_noise_gen T Tinv Δ1 Δ2 m1 m2 e1 e2 (val_injective hTT))

/-- **phase_match_rpoly.**  Scale matching: `r0·(T⁻¹Δ₀m)` and `r1·(T⁻¹Δ₁m')` live at the common scale when
`r0·Δ₀ = r1·Δ₁` -/
theorem phase_match_rpoly (Tinv Δ0 Δ1 r0 r1 m m' : RPoly) (hTi : WFq qs n Tinv) (hΔ0 : WFq qs n Δ0)
    (hΔ1 : WFq qs n Δ1) (hr0 : WFq qs n r0) (hr1 : WFq qs n r1) (hm : WFq qs n m) (hm' : WFq qs n m')
    (h : r0 * Δ0 = r1 * Δ1) :
    r0 * (Tinv * Δ0 * m) + r1 * (Tinv * Δ1 * m') = Tinv * (r0 * Δ0) * (m + m') := by
  obtain ⟨Tinv, rfl⟩ := exists_lift Tinv hTi
  obtain ⟨Δ0, rfl⟩ := exists_lift Δ0 hΔ0
  obtain ⟨Δ1, rfl⟩ := exists_lift Δ1 hΔ1
  obtain ⟨r0, rfl⟩ := exists_lift r0 hr0
  obtain ⟨r1, rfl⟩ := exists_lift r1 hr1
  obtain ⟨m, rfl⟩ := exists_lift m hm
  obtain ⟨m', rfl⟩ := exists_lift m' hm'
  exact congrArg val (phase_match_gen Tinv Δ0 Δ1 r0 r1 m m' (val_injective h))

/-! ### the hypothesis `T * Tinv = 1` is satisfiable: constants coprime to every modulus -/

/-- the constant polynomial with residue `k q` modulo `q` (the value of `WFPoly.constNat k`) -/
def constR (qs : List ℕ) (n : ℕ) (k : ℕ → ℕ) : RPoly := { qs := qs, c := qs.map fun q => scalarRow q n (k q) }

theorem val_constNat (k : ℕ → ℕ) : val (WFPoly.constNat (qs := qs) (n := n) k) = constR qs n k := rfl

theorem constR_wf (k : ℕ → ℕ) : WFq qs n (constR qs n k) := val_wf (WFPoly.constNat k)

/-- **tInv_spec.**  For a plaintext modulus `t` coprime to every `q ∈ qs`, the constant `T = t` and the constant
`T⁻¹ = (t⁻¹ mod q)_q` computed by the model's `RPoly.modInv` satisfy the hypothesis of `phase_mul*`. -/
theorem tInv_spec (t : ℕ) (hc : ∀ q ∈ qs, Nat.Coprime t q) :
    constR qs n (fun _ => t) * constR qs n (fun q => RPoly.modInv t q) = rpOne qs n := by
  have hg : Good qs n := inferInstance
  have h := WFPoly.constNat_mul_eq_one (qs := qs) (n := n) (fun _ => t) (fun q => RPoly.modInv t q)
    (fun q hq => modInv_spec t q (hg.q_ge q hq) (hc q hq))
  exact congrArg val h

end rpoly

/-! ## 3. A concrete instance: `qs = [97, 193]`, `n = 8`, plaintext modulus `t = 17` -/

section concrete

instance good8 : Good [97, 193] 8 := ⟨by decide, by decide⟩

def T8 : RPoly := constR [97, 193] 8 (fun _ => 17)
def Tinv8 : RPoly := constR [97, 193] 8 (fun q => RPoly.modInv 17 q)
/-- scales `Δ₁ = 3`, `Δ₂ = 5` (constants), two messages and two noise polynomials -/
def D1 : RPoly := constR [97, 193] 8 (fun _ => 3)
def D2 : RPoly := constR [97, 193] 8 (fun _ => 5)
def m1 : RPoly := ⟨[97, 193], [[1, 2, 3, 4, 5, 6, 7, 8], [1, 2, 3, 4, 5, 6, 7, 8]]⟩
def m2 : RPoly := ⟨[97, 193], [[16, 0, 1, 0, 0, 2, 0, 9], [16, 0, 1, 0, 0, 2, 0, 9]]⟩
def e1 : RPoly := RPoly.ofInts [97, 193] [1, 0, -1, 0, 2, 0, -2, 1]
def e2 : RPoly := RPoly.ofInts [97, 193] [0, 1, 0, -1, 0, 1, 0, -1]

theorem hTT8 : T8 * Tinv8 = rpOne [97, 193] 8 := tInv_spec 17 (by decide)

theorem hyps8 : WFq [97, 193] 8 m1 ∧ WFq [97, 193] 8 m2 ∧ WFq [97, 193] 8 e1 ∧ WFq [97, 193] 8 e2 := by
  decide +kernel

/-- an instance of `phase_mul_noise_rpoly` obtained FROM THE THEOREM, all hypotheses discharged -/
example : T8 * (Tinv8 * D1 * m1 + e1) * (Tinv8 * D2 * m2 + e2)
    = Tinv8 * (D1 * D2) * (m1 * m2) + (D1 * m1 * e2 + D2 * m2 * e1 + T8 * e1 * e2) :=
  phase_mul_noise_rpoly (qs := [97, 193]) (n := 8) T8 Tinv8 D1 D2 m1 m2 e1 e2 (constR_wf _) (constR_wf _)
    (constR_wf _) (constR_wf _) hyps8.1 hyps8.2.1 hyps8.2.2.1 hyps8.2.2.2 hTT8

/-- scale matching with `r0 = 5`, `r1 = 3`: `5·3 = 3·5` -/
example : D2 * (Tinv8 * D1 * m1) + D1 * (Tinv8 * D2 * m2) = Tinv8 * (D2 * D1) * (m1 + m2) :=
  phase_match_rpoly (qs := [97, 193]) (n := 8) Tinv8 D1 D2 D2 D1 m1 m2 (constR_wf _) (constR_wf _) (constR_wf _)
    (constR_wf _) (constR_wf _) hyps8.1 hyps8.2.1 (by decide +kernel)

/-- TEST (evaluation of the model on these values): `T·T⁻¹ = 1`, the inverse constants, `phase_mul_noise` -/
example : T8 * Tinv8 = rpOne [97, 193] 8
    ∧ Tinv8 = ⟨[97, 193], [[40, 0, 0, 0, 0, 0, 0, 0], [159, 0, 0, 0, 0, 0, 0, 0]]⟩
    ∧ T8 * (Tinv8 * D1 * m1 + e1) * (Tinv8 * D2 * m2 + e2)
        = Tinv8 * (D1 * D2) * (m1 * m2) + (D1 * m1 * e2 + D2 * m2 * e1 + T8 * e1 * e2) := by decide +kernel

end concrete

end Lattigo.BGV.C05Ring

#print axioms Lattigo.BGV.C05Ring.phase_add_rpoly
#print axioms Lattigo.BGV.C05Ring.phase_mul_rpoly
#print axioms Lattigo.BGV.C05Ring.phase_mul_noise_rpoly
#print axioms Lattigo.BGV.C05Ring.phase_match_rpoly
#print axioms Lattigo.BGV.C05Ring.tInv_spec
