import Driver.C01
import Lattigo.Proofs.NTTCI
import Mathlib.Data.Nat.Prime.Basic
import Mathlib.FieldTheory.Finite.Basic
import Mathlib.GroupTheory.OrderOfElement
/-!
  # C01 — which rings are constructed (acceptance predicate) and why the test is `q ≡ 1 (mod NthRoot)`

  The executable predicate `Driver.C01.accept n nthRoot qs` (run by the driver op `accept` and tied,
  constructor by constructor, to `ring.NewRing`, `NewRingConjugateInvariant`, `NewRingFromType`,
  `NewRingWithCustomNTT`, `Ring.UnmarshalJSON/UnmarshalBinary`, `Ring.StandardRing`,
  `Ring.ConjugateInvariantRing` by harness/c01_ci.go) is the documented contract:

  * `accept_iff` — `accept n (2^m) qs` ⇔ `n = 2^K` with `K ≥ 3`, `qs` non-empty and without
    repetition, every `q ∈ qs` a prime with `q ≡ 1 (mod 2^m)` (`2^m = NthRoot`: `2N` standard ring,
    `4N` conjugate-invariant ring, or a custom order);
  * `accept_psi_primitive` — for an accepted modulus and a primitive root `g` (what
    `ring.PrimitiveRoot` returns), `ψ = g^((q−1)/NthRoot) mod q` computed by the model's `modExp`
    (`generateNTTConstants`) has multiplicative order exactly `NthRoot`, and `ψ^(NthRoot/2) = −1`;
  * `refused_no_primitive_root` — for a prime that is NOT `≡ 1 (mod NthRoot)` (in particular one that
    is `≡ 1 (mod NthRoot/2)` only: `N = 16, q = 97` for the conjugate-invariant ring) NO element of
    `Z_q` has order `NthRoot`: no table can make the transform correct, the refusal is necessary;
  * `accept_tables_std`, `accept_tables_ci` — accepted ⇒ the tables `mkTables` generates satisfy
    `Valid` / `ValidCI` and the table invariant, the hypotheses of `intt_ntt`, `ntt_mul`,
    `intt_ntt_ci`, `ntt_ci_sem` (`Props/C01NTT.lean`).
-/
namespace Lattigo.Props.C01CI
open Lattigo Lattigo.NTT Driver.C01

/-! ## trial division is primality -/

theorem noDivFrom_iff (q : ℕ) : ∀ (fuel d : ℕ),
    noDivFrom q fuel d = true ↔ ∀ m, d ≤ m → m < d + fuel → m * m ≤ q → ¬ m ∣ q
  | 0, d => by
    simp only [noDivFrom, true_iff]
    intro m h1 h2; omega
  | fuel + 1, d => by
    unfold noDivFrom
    by_cases h1 : d * d > q
    · simp only [h1, if_true, true_iff]
      intro m hm _ hmq
      have : d * d ≤ m * m := Nat.mul_le_mul hm hm
      omega
    · simp only [h1, if_false]
      by_cases h2 : q % d = 0
      · simp only [h2, if_true, Bool.false_eq_true, false_iff]
        intro h
        exact h d (le_refl d) (by omega) (by omega) (Nat.dvd_of_mod_eq_zero h2)
      · simp only [h2, if_false]
        rw [noDivFrom_iff q fuel (d + 1)]
        constructor
        · intro h m hm1 hm2 hmq
          rcases Nat.eq_or_lt_of_le hm1 with heq | hlt
          · subst heq
            intro hdvd
            exact h2 (Nat.mod_eq_zero_of_dvd hdvd)
          · exact h m hlt (by omega) hmq
        · intro h m hm1 hm2 hmq
          exact h m (by omega) (by omega) hmq

/-- **primeTD_iff**: the model's `IsPrime` is primality -/
theorem primeTD_iff (q : ℕ) : primeTD q = true ↔ q.Prime := by
  unfold primeTD
  rw [Bool.and_eq_true, decide_eq_true_iff, noDivFrom_iff, Nat.prime_def_le_sqrt]
  constructor
  · rintro ⟨h2, h⟩
    refine ⟨h2, fun m hm hs => h m hm ?_ ?_⟩
    · have := Nat.sqrt_le_self q; omega
    · exact Nat.le_sqrt.1 hs
  · rintro ⟨h2, h⟩
    exact ⟨h2, fun m hm _ hmq => h m hm (Nat.le_sqrt.2 hmq)⟩

/-! ## the degree, the modulus, the chain -/

/-- **acceptDegree_iff**: `N ≥ 8` and `N & (N−1) = 0` ⇔ `N = 2^K`, `K ≥ 3` -/
theorem acceptDegree_iff (n : ℕ) : acceptDegree n = true ↔ ∃ K, 3 ≤ K ∧ n = 2 ^ K := by
  unfold acceptDegree
  simp only [Bool.not_eq_true', Bool.or_eq_false_iff, decide_eq_false_iff_not, bne_eq_false_iff_eq,
    Nat.not_lt]
  constructor
  · rintro ⟨h8, hand⟩
    obtain ⟨K, rfl⟩ := (Nat.and_sub_one_eq_zero_iff_isPowerOfTwo (by omega)).1 hand
    refine ⟨K, ?_, rfl⟩
    by_contra hK
    have : K ≤ 2 := by omega
    have := Nat.pow_le_pow_right (show 0 < 2 by norm_num) this
    omega
  · rintro ⟨K, hK, rfl⟩
    refine ⟨?_, (Nat.and_sub_one_eq_zero_iff_isPowerOfTwo (by positivity)).2 ⟨K, rfl⟩⟩
    have := Nat.pow_le_pow_right (show 0 < 2 by norm_num) hK
    omega

/-- **acceptModulus_iff**: for `NthRoot = 2^m` the bit test `q & (NthRoot−1) = 1` is `q ≡ 1 (mod NthRoot)` -/
theorem acceptModulus_iff (m q : ℕ) : acceptModulus (2 ^ m) q = true ↔ q.Prime ∧ q % 2 ^ m = 1 := by
  unfold acceptModulus
  rw [Bool.and_eq_true, primeTD_iff, beq_iff_eq, Nat.and_two_pow_sub_one_eq_mod]

theorem allDistinct_iff : ∀ l : List ℕ, allDistinct l = true ↔ l.Nodup
  | [] => by simp [allDistinct]
  | x :: xs => by
    simp only [allDistinct, Bool.and_eq_true, Bool.not_eq_true', List.nodup_cons, allDistinct_iff xs]
    constructor
    · rintro ⟨h1, h2⟩
      exact ⟨by simpa using h1, h2⟩
    · rintro ⟨h1, h2⟩
      exact ⟨by simpa using h1, h2⟩

/-- **accept_iff**: the acceptance predicate is the documented contract -/
theorem accept_iff (n m : ℕ) (qs : List ℕ) :
    accept n (2 ^ m) qs = true ↔
      (∃ K, 3 ≤ K ∧ n = 2 ^ K) ∧ qs ≠ [] ∧ qs.Nodup ∧ ∀ q ∈ qs, q.Prime ∧ q % 2 ^ m = 1 := by
  unfold accept
  simp only [Bool.and_eq_true, acceptDegree_iff, allDistinct_iff, List.all_eq_true, acceptModulus_iff,
    Bool.not_eq_true', List.isEmpty_eq_false_iff]
  tauto

/-! ## accepted ⇒ ψ is a primitive `NthRoot`-th root; refused ⇒ there is none -/

theorem dvd_of_mod_eq_one {q d : ℕ} (hq : 1 ≤ q) (h : q % d = 1) : d ∣ q - 1 := by
  have := Nat.div_add_mod q d
  exact ⟨q / d, by omega⟩

/-- **accept_psi_primitive**: for an accepted modulus `q < 2^64`, `NthRoot = 2^m ≥ 2` and a primitive root
`g` mod `q`, the value `ψ = modExp g ((q−1)/NthRoot) q` that `generateNTTConstants` computes (the
model's `mkTables`) has order exactly `NthRoot` in `Z_q`, and `ψ^(NthRoot/2) = −1`. -/
theorem accept_psi_primitive (m q g : ℕ) (hm : 1 ≤ m) (hacc : acceptModulus (2 ^ m) q = true)
    (hW : q < 2 ^ 64) (hg : orderOf ((g : ℕ) : ZMod q) = q - 1) :
    orderOf ((modExp g ((q - 1) / 2 ^ m) q : ℕ) : ZMod q) = 2 ^ m
    ∧ ((modExp g ((q - 1) / 2 ^ m) q : ℕ) : ZMod q) ^ (2 ^ m / 2) = -1 := by
  obtain ⟨hq, hmod⟩ := (acceptModulus_iff m q).1 hacc
  have : Fact q.Prime := ⟨hq⟩
  have hq2 := hq.two_le
  have hdvd : 2 ^ m ∣ q - 1 := dvd_of_mod_eq_one (by omega) hmod
  obtain ⟨k, hk⟩ := hdvd
  have hpos : 0 < 2 ^ m := by positivity
  have hk0 : k ≠ 0 := by
    rintro rfl
    omega
  have hdiv : (q - 1) / 2 ^ m = k := by rw [hk, Nat.mul_div_cancel_left _ hpos]
  have he : (q - 1) / 2 ^ m < 2 ^ 64 := lt_of_le_of_lt (Nat.div_le_self _ _) (by omega)
  have hcast : ((modExp g ((q - 1) / 2 ^ m) q : ℕ) : ZMod q) = ((g : ℕ) : ZMod q) ^ k := by
    rw [modExp_spec g _ q (by omega) he, ZMod.natCast_mod, Nat.cast_pow, hdiv]
  have hord : orderOf (((g : ℕ) : ZMod q) ^ k) = 2 ^ m := by
    rw [orderOf_pow_of_dvd hk0 (by rw [hg, hk]; exact Dvd.intro_left _ rfl), hg, hk,
      Nat.mul_div_cancel _ (Nat.pos_of_ne_zero hk0)]
  rw [hcast]
  refine ⟨hord, ?_⟩
  -- x = ψ^(NthRoot/2) squares to 1 and is not 1
  obtain ⟨m', rfl⟩ : ∃ m', m = m' + 1 := ⟨m - 1, by omega⟩
  have h2 : 2 ^ (m' + 1) / 2 = 2 ^ m' := by rw [Nat.pow_succ, Nat.mul_div_cancel _ (by norm_num)]
  rw [h2]
  set x := ((g : ℕ) : ZMod q) ^ k with hx
  have hsq : x ^ 2 ^ m' * x ^ 2 ^ m' = 1 := by
    rw [← pow_add, show 2 ^ m' + 2 ^ m' = 2 ^ (m' + 1) by rw [Nat.pow_succ]; omega, ← hord,
      pow_orderOf_eq_one]
  have hne : x ^ 2 ^ m' ≠ 1 := by
    intro h1
    have hd := orderOf_dvd_of_pow_eq_one h1
    rw [hord] at hd
    have hle := Nat.le_of_dvd (by positivity) hd
    have : 2 ^ m' < 2 ^ (m' + 1) := Nat.pow_lt_pow_right (by norm_num) (by omega)
    omega
  rcases mul_self_eq_one_iff.1 hsq with h | h
  · exact absurd h hne
  · exact h

/-- **refused_no_primitive_root**: if the prime `q` is not `≡ 1 (mod NthRoot)`, `NthRoot = 2^m ≥ 2`
(e.g. `q ≡ 1 (mod NthRoot/2)` only), `Z_q` contains NO element of order `NthRoot`: whatever `ψ` the
constructor computes, it is not a primitive `NthRoot`-th root of unity and the transform cannot be
the NTT of the ring.  The refusal of such a modulus is necessary, not a convention. -/
theorem refused_no_primitive_root (m q : ℕ) (hm : 1 ≤ m) (hq : q.Prime) (hmod : q % 2 ^ m ≠ 1)
    (x : ZMod q) : orderOf x ≠ 2 ^ m := by
  have : Fact q.Prime := ⟨hq⟩
  intro hord
  have hpos : 0 < 2 ^ m := by positivity
  have hx0 : x ≠ 0 := by
    rintro rfl
    have h0 : orderOf (0 : ZMod q) = 0 := by
      rw [orderOf_eq_zero_iff']
      intro n hn
      rw [zero_pow (by omega)]
      exact zero_ne_one
    omega
  have hdvd : 2 ^ m ∣ q - 1 := by
    rw [← hord]
    exact ZMod.orderOf_dvd_card_sub_one hx0
  obtain ⟨k, hk⟩ := hdvd
  apply hmod
  have hq2 := hq.two_le
  have hq' : q = 2 ^ m * k + 1 := by omega
  have h1 : 1 < 2 ^ m := Nat.one_lt_two_pow (by omega)
  rw [hq', Nat.mul_add_mod, Nat.mod_eq_of_lt h1]

/-- an accepted modulus is odd and `NthRoot ∣ q − 1` -/
theorem accept_dvd (m q : ℕ) (hacc : acceptModulus (2 ^ m) q = true) : q.Prime ∧ 2 ^ m ∣ q - 1 := by
  obtain ⟨hq, hmod⟩ := (acceptModulus_iff m q).1 hacc
  exact ⟨hq, dvd_of_mod_eq_one (by have := hq.two_le; omega) hmod⟩

/-- **accept_tables_std**: accepted by the standard-ring constructors (`NthRoot = 2N`) ⇒ the generated
tables satisfy `Valid` and the table invariant (hence `intt_ntt`, `ntt_mul`, `fwd_sem` apply). -/
theorem accept_tables_std (K q g : ℕ) (hacc : acceptModulus (2 ^ (K + 1)) q = true) (h8 : 8 * q ≤ W)
    (hg : orderOf ((g : ℕ) : ZMod q) = q - 1) :
    Valid (mkTables (2 ^ K) q (2 ^ (K + 1)) g) K
    ∧ TableInv (rho q (mkTables (2 ^ K) q (2 ^ (K + 1)) g).rootsF) (2 ^ K) :=
  mkTables_valid_of_primitive K q g (accept_dvd _ q hacc).1 h8 (accept_dvd _ q hacc).2 hg

/-- **accept_tables_ci**: accepted by the conjugate-invariant constructors (`NthRoot = 4N`) ⇒ the
generated tables satisfy `ValidCI` and the table invariant on `2N` entries (hence `intt_ntt_ci`,
`ntt_ci_sem` apply). -/
theorem accept_tables_ci (K q g : ℕ) (hacc : acceptModulus (2 ^ (K + 2)) q = true) (h8 : 8 * q ≤ W)
    (hg : orderOf ((g : ℕ) : ZMod q) = q - 1) :
    ValidCI (mkTables (2 ^ K) q (2 ^ (K + 2)) g) K
    ∧ TableInv (rho q (mkTables (2 ^ K) q (2 ^ (K + 2)) g).rootsF) (2 ^ (K + 1)) := by
  obtain ⟨hq, hdvd⟩ := accept_dvd _ q hacc
  have : Fact q.Prime := ⟨hq⟩
  have hodd : q % 2 = 1 := by
    obtain ⟨k, hk⟩ := hdvd
    have hq2 := hq.two_le
    have : 2 ^ (K + 2) = 2 * 2 ^ (K + 1) := by rw [Nat.pow_succ]; omega
    rw [this, Nat.mul_assoc] at hk
    omega
  have hnr := nonresidue_of_primitive q g hodd hg
  exact ⟨mkTables_validCI K q g hq h8 hdvd hnr, mkTables_tableInvCI K q g hq h8 hdvd hnr⟩

/-! ## non-vacuity and the witnesses of the seeded class -/

/-- accepted: `N = 16`, conjugate-invariant ring (`NthRoot = 64`), `q = 193 = 3·64 + 1` -/
example : accept 16 64 [193] = true := by decide
/-- REFUSED: `N = 16`, `q = 97`: a prime `≡ 1 (mod 2N)` that is not `≡ 1 (mod 4N)`; fine for the
standard ring of the same degree -/
example : accept 16 64 [97] = false ∧ accept 16 32 [97] = true := by decide
example : accept 8 32 [17] = false ∧ accept 8 16 [17] = true := by decide
/-- refused: a composite `≡ 1 (mod NthRoot)`, an even number, a repeated modulus, no modulus, a degree
that is not a power of two or is below 8 -/
example : accept 16 32 [97 * 193] = false ∧ accept 16 32 [98] = false ∧ accept 16 32 [97, 193, 97] = false
    ∧ accept 16 32 [] = false ∧ accept 24 32 [97] = false ∧ accept 4 8 [97] = false
    ∧ accept 0 32 [97] = false := by decide
/-- non-vacuity of `accept_psi_primitive`: `q = 193`, `NthRoot = 64`, `g = 5` (`ψ = 5^3 = 125`) -/
example : acceptModulus (2 ^ 6) 193 = true ∧ modExp 5 ((193 - 1) / 2 ^ 6) 193 = 125
    ∧ 125 ^ 32 % 193 = 192 := by decide
/-- non-vacuity of `refused_no_primitive_root`: `97` is prime and `97 % 64 = 33` -/
example (x : ZMod 97) : orderOf x ≠ 2 ^ 6 :=
  refused_no_primitive_root 6 97 (by norm_num) ((primeTD_iff 97).1 (by decide)) (by decide) x
/-- `q61 = 2^61 − 2^21 + 1` is accepted for every `NthRoot ≤ 2^21` (primality: `C01NTT.q61_prime`) -/
example : (2305843009211596801 : ℕ) % 2 ^ 21 = 1 := by decide

end Lattigo.Props.C01CI

#print axioms Lattigo.Props.C01CI.noDivFrom_iff
#print axioms Lattigo.Props.C01CI.primeTD_iff
#print axioms Lattigo.Props.C01CI.acceptDegree_iff
#print axioms Lattigo.Props.C01CI.acceptModulus_iff
#print axioms Lattigo.Props.C01CI.allDistinct_iff
#print axioms Lattigo.Props.C01CI.accept_iff
#print axioms Lattigo.Props.C01CI.dvd_of_mod_eq_one
#print axioms Lattigo.Props.C01CI.accept_psi_primitive
#print axioms Lattigo.Props.C01CI.refused_no_primitive_root
#print axioms Lattigo.Props.C01CI.accept_dvd
#print axioms Lattigo.Props.C01CI.accept_tables_std
#print axioms Lattigo.Props.C01CI.accept_tables_ci
