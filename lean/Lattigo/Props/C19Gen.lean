/-
  Property C19 ("derived quantities agree with their definitions") — the REGENERATED tie for the
  derived quantities of `core/rlwe/params.go`.

  `Lattigo/Gen/Params.lean` is printed by `tools/go2lean` (typed mode v3) from the Go source on every
  `./check`:  `QCount PCount MaxLevelQ MaxLevelP MaxLevel Q P MaxBit BaseTwoDecompositionVectorSize
  BaseRNSDecompositionVectorSize QiOverflowMargin PiOverflowMargin` (+ `utils.Max` at `int`), with the
  receiver fields `p.qi`, `p.pi` as explicit list parameters, Go `int`s as two's-complement words,
  `for _, q := range xs[:k+1]` as `List.foldl` over `xs.take (k+1)`, `for i := range xs { xs[i] = e }`
  as a `List.range … map`, `/` on `int` as exact truncated division (`i64div`), and
  `/` on `uint64` as `u64div`, `math.MaxUint64` as its value.
  The driver op `C19 pgen …` (and `C12 margin`) executes these definitions.

  HISTORY: until fix c11167e (`fixes/C19-7-overflow-margin-float.diff`) the margins were computed as
  `int(math.Exp2(64) / float64(max))`; in exact binary64 semantics that formula returns `floor + 1` for
  moduli just above `2^64/k` (e.g. `16` for the NTT-friendly 61-bit prime `2^60 + 33`, `16·q = 2^64 + 528`):
  `float_margin_not_floor` below proves it about the printer's float primitives, which are kept so that a
  regression to the float formula is printed (and breaks `qiOverflowMargin_gen`) rather than refused.
  The code now divides in `uint64` and `margin_floor_gen` holds at full strength.
-/
import Lattigo.Proofs.GenParams
import Lattigo.Model.Params
import Mathlib.Data.Nat.Prime.Basic

namespace Lattigo.Props.C19Gen
open Lattigo Lattigo.Gen.Params Lattigo.Proofs.GenParams

/-! ## levels -/

/-- `MaxLevelQ() = len(Q) - 1`, `MaxLevelP() = len(P) - 1`, `MaxLevel() = MaxLevelQ()`, as Go `int`s
    (`-1` for an empty chain), for the regenerated functions. -/
theorem levels_gen (qs ps : List Nat) (hq : qs.length < 2 ^ 63) (hp : ps.length < 2 ^ 63) :
    i64toInt (MaxLevelQ qs) = (qs.length : Int) - 1
    ∧ i64toInt (MaxLevelP ps) = (ps.length : Int) - 1
    ∧ MaxLevel qs = MaxLevelQ qs :=
  ⟨MaxLevelQ_eq qs hq, MaxLevelP_eq ps hp, MaxLevel_eq qs⟩

example : i64toInt (MaxLevelQ [97, 193]) = 1 ∧ i64toInt (MaxLevelP []) = -1 := by decide

/-! ## digit counts -/

/-- `BaseRNSDecompositionVectorSize(levelQ, levelP)`, regenerated, is `⌈(levelQ+1)/(levelP+1)⌉`
    (`nP = levelP + 1 ≥ 1`), and `levelQ + 1` for `levelP = -1`. -/
theorem baseRNS_gen (levelQ nP : Nat) (hq : levelQ < 2 ^ 62) (hp : nP < 2 ^ 62) :
    BaseRNSDecompositionVectorSize levelQ (i64ofInt ((nP : Int) - 1))
      = if nP = 0 then levelQ + 1 else (levelQ + nP) / nP :=
  BaseRNS_eq levelQ nP hq hp

theorem baseRNS_ceil_gen (levelQ nP : Nat) (hq : levelQ < 2 ^ 62) (hp : nP < 2 ^ 62) (h0 : 0 < nP) :
    let d := BaseRNSDecompositionVectorSize levelQ (i64ofInt ((nP : Int) - 1))
    (levelQ + 1) ≤ d * nP ∧ d * nP < (levelQ + 1) + nP :=
  BaseRNS_ceil levelQ nP hq hp h0

example : BaseRNSDecompositionVectorSize 6 (i64ofInt 2) = 3 ∧ BaseRNSDecompositionVectorSize 6 (i64ofInt (-1)) = 7 := by
  decide

/-- `BaseTwoDecompositionVectorSize(levelQ, levelP, w)`, regenerated: one entry per prime of the full
    chain, `⌈bitlen(q)/w⌉`, all ones for `w = 0` or `levelP > 0`. -/
theorem baseTwo_gen (qs : List Nat) (levelQ nP w : Nat) (hp : nP < 2 ^ 62) (hw : w < 2 ^ 62)
    (hqs : ∀ q ∈ qs, q < W) :
    BaseTwoDecompositionVectorSize qs levelQ (i64ofInt ((nP : Int) - 1)) w
      = if w = 0 ∨ nP ≥ 2 then qs.map fun _ => 1 else qs.map fun q => (KS.bitLen q + w - 1) / w :=
  BaseTwo_eq qs levelQ nP w hp hw hqs

/-- the digits cover the prime: `w·d ≥ bitlen(q) > w·(d-1)`. -/
theorem baseTwo_cover_gen (q w : Nat) (hw : 0 < w) :
    let d := (KS.bitLen q + w - 1) / w
    KS.bitLen q ≤ w * d ∧ w * d < KS.bitLen q + w := by
  intro d
  have hd : d = (KS.bitLen q + w - 1) / w := rfl
  have h1 := Nat.div_add_mod (KS.bitLen q + w - 1) w
  have h2 := Nat.mod_lt (KS.bitLen q + w - 1) hw
  rw [hd]
  generalize (KS.bitLen q + w - 1) / w = D at *
  generalize w * D = X at *
  constructor <;> omega

example : BaseTwoDecompositionVectorSize [65537, 1152921504606847009] 1 (i64ofInt 0) 10 = [2, 7] := by decide

/-! ## `MaxBit` (range-fold loops) -/

/-- `MaxBit(levelQ, levelP)`, regenerated, is the largest bit length among `Q[:levelQ+1]` and (if there
    is a `P`) `P[:levelP+1]`. -/
theorem maxBit_gen (qs ps : List Nat) (lq lp : Nat) (hlq : lq < 2 ^ 62) (hlp : lp < 2 ^ 62)
    (hqs : ∀ q ∈ qs, q < W) (hps : ∀ q ∈ ps, q < W) :
    MaxBit qs ps lq lp
      = if ps.length ≠ 0 then maxBitLen (maxBitLen 0 (qs.take (lq + 1))) (ps.take (lp + 1))
        else maxBitLen 0 (qs.take (lq + 1)) :=
  MaxBit_eq qs ps lq lp hlq hlp hqs hps

example : MaxBit [65537, 1152921504606847009] [97] 0 0 = 17 ∧ MaxBit [65537, 1152921504606847009] [] 1 0 = 61 := by
  decide

/-! ## overflow margins -/

/-- **`QiOverflowMargin(level)`, regenerated**: `-1` (word `2^64 - 1`) for an empty chain, else the
    `uint64` quotient `(2^64 - 1) / max(Q[:level+1])`.  The maximum is over `Q[:level+1]` — a regression
    to `Q[level]`, or back to the float formula, changes the generated term and breaks this obligation. -/
theorem qiOverflowMargin_gen (qs : List Nat) (level : Nat) (hl : level < 2 ^ 62) :
    QiOverflowMargin qs level
      = if qs = [] then W - 1 else (W - 1) / (qs.take (level + 1)).foldl max 0 :=
  QiOverflowMargin_eq qs level hl

/-- **`PiOverflowMargin(level)`, regenerated**; `-1` also for `level = -1`. -/
theorem piOverflowMargin_gen (ps : List Nat) (level : Nat) (hl : level < 2 ^ 62) :
    (PiOverflowMargin ps level
      = if ps = [] then W - 1 else (W - 1) / (ps.take (level + 1)).foldl max 0)
    ∧ PiOverflowMargin ps (i64ofInt (-1)) = W - 1 :=
  ⟨PiOverflowMargin_eq ps level hl, PiOverflowMargin_neg ps⟩

/-- **it is the floor** (the Go doc comment): for a non-empty chain and `M = max(Q[:level+1]) ≥ 1`,
    `margin·M ≤ 2^64 - 1 < (margin+1)·M`: `margin` values below `M`… sum to less than `2^64`. -/
theorem margin_floor_gen (qs : List Nat) (level : Nat) (hl : level < 2 ^ 62) (hne : qs ≠ [])
    (hM : 0 < (qs.take (level + 1)).foldl max 0) :
    QiOverflowMargin qs level * (qs.take (level + 1)).foldl max 0 ≤ W - 1
    ∧ W - 1 < (QiOverflowMargin qs level + 1) * (qs.take (level + 1)).foldl max 0 := by
  rw [QiOverflowMargin_eq qs level hl, if_neg hne]
  generalize (qs.take (level + 1)).foldl max 0 = M at *
  have h1 := Nat.div_add_mod (W - 1) M
  have h2 := Nat.mod_lt (W - 1) hM
  rw [Nat.add_mul, Nat.one_mul, Nat.mul_comm ((W - 1) / M) M]
  constructor <;> omega

example := margin_floor_gen [1152921504606847009, 35184372088673] 1 (by norm_num) (by simp) (by decide)

/-- … and `floor(2^64 / M)` itself for every odd `M > 1` (every prime modulus). -/
theorem margin_floor_pow64_gen (qs : List Nat) (level : Nat) (hl : level < 2 ^ 62) (hne : qs ≠ [])
    (hodd : ((qs.take (level + 1)).foldl max 0) % 2 = 1) (hM1 : 1 < (qs.take (level + 1)).foldl max 0) :
    QiOverflowMargin qs level = W / (qs.take (level + 1)).foldl max 0 := by
  rw [QiOverflowMargin_eq qs level hl, if_neg hne, pred_div_odd _ hodd hM1]

/-- the prime that the float formula got wrong (test by evaluation): `2^60 + 33 ↦ 15`. -/
example : QiOverflowMargin [1152921504606847009] 0 = 15 := by decide +kernel

/-- the level matters through the MAXIMUM of the prefix, not through the prime at that level
    (chain shape "large `Q[0]`, smaller rescaling primes"): test by evaluation. -/
example : QiOverflowMargin [1152921504606846577, 35184372088673] 1 = 16
    ∧ W / 35184372088673 = 524288 := by decide +kernel

/-! ## the hand-written model of `Props/C19.lean` (`Model/Params.lean`) is the regenerated code -/

/-- `Lattigo.Params.overflowMargin` (about which `overflowMargin_sound`, `qiOverflowMargin_sound` of
    `Props/C19.lean` are stated) is the regenerated `QiOverflowMargin` / `PiOverflowMargin`. -/
theorem overflowMargin_model_gen (qs : List Nat) (level : Nat) (hl : level < 2 ^ 62) (hne : qs ≠ []) :
    QiOverflowMargin qs level = Lattigo.Params.overflowMargin (qs.take (level + 1))
    ∧ PiOverflowMargin qs level = Lattigo.Params.overflowMargin (qs.take (level + 1)) := by
  rw [QiOverflowMargin_eq qs level hl, PiOverflowMargin_eq qs level hl, if_neg hne]
  exact ⟨rfl, rfl⟩

/-- `Lattigo.Params.baseRNSDecompositionVectorSize` is the regenerated one (`levelP = nP - 1 ≥ -1`). -/
theorem baseRNS_model_gen (levelQ nP : Nat) (hq : levelQ < 2 ^ 62) (hp : nP < 2 ^ 62) :
    BaseRNSDecompositionVectorSize levelQ (i64ofInt ((nP : Int) - 1))
      = Lattigo.Params.baseRNSDecompositionVectorSize levelQ ((nP : Int) - 1) := by
  rw [BaseRNS_eq levelQ nP hq hp]
  unfold KS.baseRNSDecompositionVectorSize Lattigo.Params.baseRNSDecompositionVectorSize
  by_cases h0 : nP = 0
  · subst h0; simp
  · have hne : ¬ ((nP : Int) - 1 = -1) := by omega
    have ht : ((nP : Int) - 1).toNat = nP - 1 := by omega
    rw [if_neg h0, if_neg hne, ht]
    congr 1 <;> omega

example : BaseRNSDecompositionVectorSize 6 (i64ofInt 2) = Lattigo.Params.baseRNSDecompositionVectorSize 6 2 :=
  baseRNS_model_gen 6 3 (by norm_num) (by norm_num)

/-! ## the pre-fix float formula (regression guard) -/

/-- float64 rounding of the modulus: exact below `2^53`, within half a unit in the last place above. -/
theorem f64ofU64_gen (n : Nat) :
    (n < 2 ^ 53 → f64ofU64 n = n)
    ∧ (2 ^ 53 ≤ n → 2 * f64ofU64 n ≤ 2 * n + 2 ^ (Nat.log2 n - 52) ∧ 2 * n ≤ 2 * f64ofU64 n + 2 ^ (Nat.log2 n - 52)) :=
  ⟨f64ofU64_exact n, f64ofU64_near n⟩

/-- what `int(math.Exp2(64) / float64(M))` is, for every modulus `2^12 ≤ M < 2^64`: the integer
    quotient of `2^64` by the ROUNDED modulus, or one more. -/
theorem float_margin_bounds (M : Nat) (h12 : 2 ^ 12 ≤ M) (hW : M < W) :
    W / f64ofU64 M ≤ f64quoToInt W (f64ofU64 M) ∧ f64quoToInt W (f64ofU64 M) ≤ W / f64ofU64 M + 1 :=
  margin_bounds M h12 hW

example := float_margin_bounds 65537 (by norm_num) (by decide)

/-- **the pre-fix formula is not the floor**: for the NTT-friendly 61-bit prime `q = 2^60 + 33`
    (`≡ 1 mod 32`, accepted for `LogN = 4`) it gives `16`, but `floor(2^64 / q) = 15` and
    `16·q = 2^64 + 528` overflows (`float64(q)` rounds down to `2^60`). -/
theorem float_margin_not_floor :
    f64quoToInt W (f64ofU64 1152921504606847009) = 16
    ∧ W / 1152921504606847009 = 15
    ∧ 16 * 1152921504606847009 = W + 528
    ∧ f64ofU64 1152921504606847009 = 2 ^ 60 := by
  decide +kernel

end Lattigo.Props.C19Gen

section Axioms
open Lattigo.Props.C19Gen
#print axioms levels_gen
#print axioms baseRNS_gen
#print axioms baseRNS_ceil_gen
#print axioms baseTwo_gen
#print axioms baseTwo_cover_gen
#print axioms maxBit_gen
#print axioms qiOverflowMargin_gen
#print axioms piOverflowMargin_gen
#print axioms f64ofU64_gen
#print axioms margin_floor_gen
#print axioms margin_floor_pow64_gen
#print axioms overflowMargin_model_gen
#print axioms baseRNS_model_gen
#print axioms float_margin_bounds
#print axioms float_margin_not_floor
end Axioms
