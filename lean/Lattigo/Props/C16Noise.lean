/-
  C16 — sizes of the error terms of the collective key-switching / sharing / refresh protocols.

  `Props/C16.lean` gives exact identities: `cks_phase` (`… + Σ e_i`), `pcks_phase`
  (`… + Σ e_i + Σ phase(z_i, s_out)`, `pcks_zero_noise`), `e2s_masked`, `e2s_s2e_id`/`refresh_spec` (`… + Σ e1_i + Σ e2_i`)
  and the ONE-coefficient exactness lemma `e2s_sum_mod_t`.  Here, over `Z[X]/(X^N+1)` = `Lattigo.ZPoly`, for any
  aggregation tree `t` with `n = t.leaves.length` parties:

    * `cks_noise_bound`      ‖Σ e_i‖∞ ≤ n·B_s                          (B_s: bound of the smudging distribution)
    * `cks_noise_bound_P`    with auxiliary modulus each party adds `e_i` to `P·x` and divides by `P` with rounding:
                             the effective error `ν_i` has `P·ν_i = e_i − ρ_i`, `2‖ρ_i‖∞ ≤ P`, and
                             2P‖Σ ν_i‖∞ ≤ n·(2·B_s + P),   i.e. ‖Σ ν_i‖∞ ≤ n·(B_s/P + 1/2)
    * `pcks_noise_bound`     2P‖Σ e_i + Σ z_i‖∞ ≤ n·(2P·B_s + 2·(h_u·B_pk + B + h·B) + P·(1 + h))
      `pcks_noise_bound_noP` ‖Σ e_i + Σ z_i‖∞ ≤ n·(B_s + h_u·B_pk + B + h·B)
    * `refresh_noise_bound`  ‖Σ e1_i + Σ e2_i‖∞ ≤ n·(B_1 + B_2)
    * `e2s_sum_mod_t_all`    BGV EncToShare is exact modulo `t` on EVERY coefficient as soon as
                             `2·(A + t·B_n) < Q` (`A ≥ |msg − Σ masks|`, `B_n ≥ |noise|` coefficient-wise);
      `e2s_sum_mod_t_parties` in particular when `2·t·(n + B_n) ≤ Q`, i.e. `|noise| + n ≤ Q/(2t)`.

  Relation to the harness: `cks_decrypts` (harness/c16.go) tests `n·(⌈6σ'⌉+1)` = `n·B_s` — equal to
  `cks_noise_bound` and ≥ `cks_noise_bound_P`; `pcks_decrypts` tests `n·(B_s + 2dB + B + d + 2)` with `h = h_u = d`,
  `B_pk = B` — ≥ both `pcks` bounds (`⌊(2dB+B)/P⌋ + ⌊(1+d)/2⌋ + 1 ≤ 2dB + B + d + 2`); the CKKS `e2s_sum` /
  `e2s_s2e_id` probes test `n·B_n` / `2n·B_n` = `cks_noise_bound` / `refresh_noise_bound` with `B_1 = B_2`;
  the BGV probes test exactness modulo `t` (no bound) — `e2s_sum_mod_t_all` says when that must hold.
  No probe bound is below a theorem bound.
-/
import Lattigo.Proofs.NoiseNorm
import Lattigo.Proofs.MPSwitch
import Lattigo.Props.C14Noise

namespace Lattigo.Props.C16
open Lattigo.MP Lattigo.ZPoly

/-- scaled tree bound: `c·‖e_i‖∞ ≤ M` for every party ⇒ `c·‖Σ e_i‖∞ ≤ n·M` -/
theorem normInf_tree_le_scaled (c M : Nat) (t : AggTree) (e : Nat → List Int)
    (h : ∀ i ∈ t.leaves, c * normInf (e i) ≤ M) : c * normInf (t.eval add e) ≤ t.leaves.length * M := by
  induction t with
  | leaf i => simpa [AggTree.eval, AggTree.leaves] using h i (by simp [AggTree.leaves])
  | node l r ihl ihr =>
    have hl := ihl (fun i hi => h i (by simp [AggTree.leaves, hi]))
    have hr := ihr (fun i hi => h i (by simp [AggTree.leaves, hi]))
    have := Nat.mul_le_mul_left c (normInf_add_le (l.eval add e) (r.eval add e))
    simp only [AggTree.eval, AggTree.leaves, List.length_append, Nat.add_mul]
    rw [Nat.mul_add] at this
    omega

/-! ## Collective key switching -/

/-- **cks_noise_bound**: the error `Σ e_i` of `cks_phase` / `cks_decrypt` is at most `n·B_s`. -/
theorem cks_noise_bound (t : AggTree) (e : Nat → List Int) (Bs : Nat)
    (h : ∀ i ∈ t.leaves, normInf (e i) ≤ Bs) : normInf (t.eval add e) ≤ t.leaves.length * Bs :=
  Lattigo.Props.C14.normInf_tree_le t e Bs h

/-- **cks_noise_bound_P** (smudging + rounding): with an auxiliary modulus every party computes
    `ModDown(P·c1·(s_in − s_out) + e_i)`; its effective error `ν_i` satisfies `P·ν_i = e_i − ρ_i` with the centred
    remainder `ρ_i`; then `2P·‖Σ ν_i‖∞ ≤ n·(2·B_s + P)`. -/
theorem cks_noise_bound_P (P : Nat) (t : AggTree) (e ρ ν : Nat → List Int) (Bs : Nat)
    (hrel : ∀ i ∈ t.leaves, smul P (ν i) = sub (e i) (ρ i))
    (hρ : ∀ i ∈ t.leaves, 2 * normInf (ρ i) ≤ P) (he : ∀ i ∈ t.leaves, normInf (e i) ≤ Bs) :
    2 * (P * normInf (t.eval add ν)) ≤ t.leaves.length * (2 * Bs + P) := by
  have h := normInf_tree_le_scaled (2 * P) (2 * Bs + P) t ν (fun i hi => by
    have := rounding1_bound P (ν i) (e i) (ρ i) (hrel i hi) (hρ i hi)
    have := he i hi
    rw [Nat.mul_assoc]
    omega)
  rw [Nat.mul_assoc] at h
  exact h

/-! ## Collective public-key switching -/

/-- **pcks_noise_bound_noP**: `Σ e_i + Σ phase(z_i, s_out)` with `phase(z_i) = u_i·e_pk + e0_i + s_out·e1_i`
    (`pcks_zero_noise_noP`). -/
theorem pcks_noise_bound_noP (t : AggTree) (e u e0 e1 : Nat → List Int) (epk s : List Int)
    (Bs Bpk B h hu : Nat)
    (he : ∀ i ∈ t.leaves, normInf (e i) ≤ Bs) (hu' : ∀ i ∈ t.leaves, norm1 (u i) ≤ hu)
    (h0 : ∀ i ∈ t.leaves, normInf (e0 i) ≤ B) (h1 : ∀ i ∈ t.leaves, normInf (e1 i) ≤ B)
    (hpk : normInf epk ≤ Bpk) (hs : norm1 s ≤ h) :
    normInf (add (t.eval add e) (t.eval add fun i => add (add (mul (u i) epk) (e0 i)) (mul s (e1 i))))
      ≤ t.leaves.length * (Bs + (hu * Bpk + B + h * B)) := by
  have a := normInf_add_le (t.eval add e)
    (t.eval add fun i => add (add (mul (u i) epk) (e0 i)) (mul s (e1 i)))
  have b := Lattigo.Props.C14.normInf_tree_le t e Bs he
  have c := Lattigo.Props.C14.normInf_tree_le t
    (fun i => add (add (mul (u i) epk) (e0 i)) (mul s (e1 i))) (hu * Bpk + B + h * B) (fun i hi => by
      have a1 := normInf_add_le (add (mul (u i) epk) (e0 i)) (mul s (e1 i))
      have a2 := normInf_add_le (mul (u i) epk) (e0 i)
      have m1 := Nat.le_trans (normInf_mul_le (u i) epk) (Nat.mul_le_mul (hu' i hi) hpk)
      have m2 := Nat.le_trans (normInf_mul_le s (e1 i)) (Nat.mul_le_mul hs (h1 i hi))
      have := h0 i hi
      omega)
  rw [Nat.mul_add]
  omega

/-- **pcks_noise_bound** (with auxiliary modulus): `P·z_i = (u_i·e_pk + e0_i + s·e1_i) − δ0_i − s·δ1_i`
    (`pcks_zero_noise`, centred `δ`): `2P·‖Σ e_i + Σ z_i‖∞ ≤ n·(2P·B_s + 2·(h_u·B_pk + B + h·B) + P·(1 + h))`. -/
theorem pcks_noise_bound (P : Nat) (t : AggTree) (e z u e0 e1 δ0 δ1 : Nat → List Int) (epk s : List Int)
    (Bs Bpk B h hu : Nat)
    (hrel : ∀ i ∈ t.leaves, smul P (z i)
      = sub (sub (add (add (mul (u i) epk) (e0 i)) (mul s (e1 i))) (δ0 i)) (mul s (δ1 i)))
    (hd0 : ∀ i ∈ t.leaves, 2 * normInf (δ0 i) ≤ P) (hd1 : ∀ i ∈ t.leaves, 2 * normInf (δ1 i) ≤ P)
    (he : ∀ i ∈ t.leaves, normInf (e i) ≤ Bs) (hu' : ∀ i ∈ t.leaves, norm1 (u i) ≤ hu)
    (h0 : ∀ i ∈ t.leaves, normInf (e0 i) ≤ B) (h1 : ∀ i ∈ t.leaves, normInf (e1 i) ≤ B)
    (hpk : normInf epk ≤ Bpk) (hs : norm1 s ≤ h) :
    2 * (P * normInf (add (t.eval add e) (t.eval add z)))
      ≤ t.leaves.length * (2 * (P * Bs) + (2 * (hu * Bpk + B + h * B) + P * (1 + h))) := by
  have a := Nat.mul_le_mul_left (2 * P) (normInf_add_le (t.eval add e) (t.eval add z))
  have b := Nat.mul_le_mul_left (2 * P) (Lattigo.Props.C14.normInf_tree_le t e Bs he)
  have c := normInf_tree_le_scaled (2 * P) (2 * (hu * Bpk + B + h * B) + P * (1 + h)) t z (fun i hi => by
    have a1 := normInf_add_le (add (mul (u i) epk) (e0 i)) (mul s (e1 i))
    have a2 := normInf_add_le (mul (u i) epk) (e0 i)
    have m1 := Nat.le_trans (normInf_mul_le (u i) epk) (Nat.mul_le_mul (hu' i hi) hpk)
    have m2 := Nat.le_trans (normInf_mul_le s (e1 i)) (Nat.mul_le_mul hs (h1 i hi))
    have := h0 i hi
    have r := rounding_bound P (z i) _ (δ0 i) (δ1 i) s (hu * Bpk + B + h * B) h (hrel i hi) (hd0 i hi) (hd1 i hi)
      (by omega) hs
    rw [Nat.mul_assoc]
    exact r)
  have e1 : 2 * P * (normInf (t.eval add e) + normInf (t.eval add z))
      = 2 * P * normInf (t.eval add e) + 2 * P * normInf (t.eval add z) := by ring
  have e2 : 2 * P * (t.leaves.length * Bs) = t.leaves.length * (2 * (P * Bs)) := by ring
  have e3 : 2 * (P * normInf (add (t.eval add e) (t.eval add z)))
      = 2 * P * normInf (add (t.eval add e) (t.eval add z)) := by ring
  rw [Nat.mul_add]
  omega

/-! ## Sharing / refresh -/

/-- **refresh_noise_bound**: `e2s_s2e_id` / `refresh_spec` add `Σ e1_i + Σ e2_i` to the phase. -/
theorem refresh_noise_bound (t : AggTree) (e1 e2 : Nat → List Int) (B1 B2 : Nat)
    (h1 : ∀ i ∈ t.leaves, normInf (e1 i) ≤ B1) (h2 : ∀ i ∈ t.leaves, normInf (e2 i) ≤ B2) :
    normInf (add (t.eval add e1) (t.eval add e2)) ≤ t.leaves.length * (B1 + B2) := by
  have a := normInf_add_le (t.eval add e1) (t.eval add e2)
  have b := Lattigo.Props.C14.normInf_tree_le t e1 B1 h1
  have c := Lattigo.Props.C14.normInf_tree_le t e2 B2 h2
  rw [Nat.mul_add]
  omega

/-! ## BGV: the additive shares sum to the message modulo `t`, on every coefficient -/

/-- **e2s_sum_mod_t_all** (lifts `e2s_sum_mod_t` to all coefficients and replaces its two range hypotheses by
    norm bounds).  `x j`: coefficient `j` (CRT value) of the masked polynomial `c0 + Σ public shares`;
    `msg j`, `masks j = Σ_i M_i[j]`, `noise j`: coefficient `j` of the message, of the sum of the masks, of the
    smudged noise (`e2s_masked` multiplied by `t`).  If `|msg − masks| ≤ A`, `|noise| ≤ B_n` coefficient-wise and
    `2·(A + t·B_n) < Q`, then `RingQ2T(x) + Σ masks ≡ msg (mod t)` for EVERY `j`. -/
theorem e2s_sum_mod_t_all (Q T A Bn : Nat) (x : Nat → Nat) (msg masks noise : Nat → Int)
    (hQ : 0 < Q) (hT : 0 < T)
    (hx : ∀ j, msg j - masks j + T * noise j ≡ (x j * T : Nat) [ZMOD Q])
    (hA : ∀ j, (msg j - masks j).natAbs ≤ A) (hn : ∀ j, (noise j).natAbs ≤ Bn)
    (hfit : 2 * (A + T * Bn) < Q) :
    ∀ j, (((q2tCoeff Q T (x j) : Nat) : Int) + masks j) % T = msg j % T := by
  intro j
  have h1 := hA j
  have h2 : ((T : Int) * noise j).natAbs ≤ T * Bn := by
    rw [Int.natAbs_mul, Int.natAbs_natCast]; exact Nat.mul_le_mul_left _ (hn j)
  have h3 := Int.natAbs_add_le (msg j - masks j) ((T : Int) * noise j)
  have hlo : -((Q / 2 : Nat) : Int) ≤ msg j - masks j + T * noise j := by omega
  have hhi : msg j - masks j + T * noise j < (Q : Int) - ((Q / 2 : Nat) : Int) := by omega
  rw [Lattigo.MP.q2t_centred Q T (x j) _ hQ hT (hx j) hlo hhi, Int.emod_add_emod]
  have : msg j - masks j + (T : Int) * noise j + masks j = msg j + (T : Int) * noise j := by ring
  rw [this, Int.add_mul_emod_self_left]

/-- the same on coefficient lists, the noise given by its `‖·‖∞` -/
theorem e2s_sum_mod_t_poly (Q T A Bn : Nat) (xs : List Nat) (msg masks noise : List Int)
    (hQ : 0 < Q) (hT : 0 < T)
    (hx : ∀ j, coeff msg j - coeff masks j + T * coeff noise j ≡ (xs.getD j 0 * T : Nat) [ZMOD Q])
    (hA : normInf (sub msg masks) ≤ A) (hlen : msg.length = masks.length) (hn : normInf noise ≤ Bn)
    (hfit : 2 * (A + T * Bn) < Q) :
    ∀ j, (((q2tCoeff Q T (xs.getD j 0) : Nat) : Int) + coeff masks j) % T = coeff msg j % T := by
  apply e2s_sum_mod_t_all Q T A Bn (fun j => xs.getD j 0) (coeff msg) (coeff masks) (coeff noise) hQ hT hx
  · intro j
    by_cases hj : j < msg.length
    · have hj' : j < masks.length := hlen ▸ hj
      have : coeff (sub msg masks) j = coeff msg j - coeff masks j := by
        simp [coeff, sub, List.getD_eq_getElem?_getD, hj, hj']
      rw [← this]
      exact Nat.le_trans (coeff_natAbs_le _ j) hA
    · have hj' : ¬ j < masks.length := hlen ▸ hj
      simp [coeff, List.getD_eq_getElem?_getD, hj, hj']
  · intro j
    exact Nat.le_trans (coeff_natAbs_le noise j) hn
  · exact hfit

/-- **`n` parties**: message coefficients in `[0, t)`, each of the `n ≥ 1` masks in `[0, t)` (so `Σ masks ∈ [0, n(t−1)]`),
    noise `≤ B_n`: exact as soon as `2·t·(n + B_n) ≤ Q` — "`|noise| + n ≤ Q/(2t)`". -/
theorem e2s_sum_mod_t_parties (Q T n Bn : Nat) (x : Nat → Nat) (msg masks noise : Nat → Int)
    (hT : 0 < T) (hn1 : 1 ≤ n)
    (hx : ∀ j, msg j - masks j + T * noise j ≡ (x j * T : Nat) [ZMOD Q])
    (hm : ∀ j, 0 ≤ msg j ∧ msg j < T) (hk : ∀ j, 0 ≤ masks j ∧ masks j ≤ ((n * (T - 1) : Nat) : Int))
    (hn : ∀ j, (noise j).natAbs ≤ Bn) (hfit : 2 * T * (n + Bn) ≤ Q) :
    ∀ j, (((q2tCoeff Q T (x j) : Nat) : Int) + masks j) % T = msg j % T := by
  have hQ : 0 < Q := by
    have : 0 < 2 * T * (n + Bn) := Nat.mul_pos (Nat.mul_pos (by decide) hT) (by omega)
    omega
  apply e2s_sum_mod_t_all Q T (n * (T - 1)) Bn x msg masks noise hQ hT hx _ hn
  · have e1 : 2 * T * (n + Bn) = 2 * (n * T + T * Bn) := by ring
    have e2 : n * (T - 1) + n = n * T := by
      rw [← Nat.mul_succ]; congr 1; omega
    omega
  · intro j
    have h1 := hm j
    have h2 := hk j
    have h3 : T - 1 ≤ n * (T - 1) := Nat.le_mul_of_pos_left _ hn1
    generalize n * (T - 1) = K at *
    omega

/-! ## Non-vacuity -/

/-- two parties, `P = 4`, smudging errors `[5, -3]`, `[-6, 2]` (`B_s = 6`); party 0: `[5,-3] = 4·[1,-1] + [1,1]`,
    party 1: `[-6,2] = 4·[-2,0] + [2,2]` (the remainder `2 = P/2` is admissible): `Σ ν_i = [-1, -1]`,
    `2·4·1 = 8 ≤ 2·(2·6 + 4) = 32`. -/
example :
    let t := AggTree.node (.leaf 0) (.leaf 1)
    let e : Nat → List Int := fun i => if i = 0 then [5, -3] else [-6, 2]
    let ρ : Nat → List Int := fun i => if i = 0 then [1, 1] else [2, 2]
    let ν : Nat → List Int := fun i => if i = 0 then [1, -1] else [-2, 0]
    (∀ i ∈ t.leaves, smul (4 : Nat) (ν i) = sub (e i) (ρ i)) ∧ (∀ i ∈ t.leaves, 2 * normInf (ρ i) ≤ 4)
      ∧ (∀ i ∈ t.leaves, normInf (e i) ≤ 6) ∧ 2 * (4 * normInf (t.eval add ν)) = 8
      ∧ t.leaves.length * (2 * 6 + 4) = 32 := by decide

/-- BGV, `Q = 1009`, `t = 17` (`17⁻¹ = 831 mod 1009`), two coefficients: `msg = (5, 16)`, `masks = (30, 3)`,
    `noise = (2, -1)`: `v = (9, -4)`, `x = v·831 mod 1009`; `A = 25`, `B_n = 2`: `2·(25 + 17·2) = 118 < 1009`. -/
example :
    let x : Nat → Nat := fun j => if j = 0 then 9 * 831 % 1009 else (1009 - 4) * 831 % 1009
    let msg : Nat → Int := fun j => if j = 0 then 5 else 16
    let masks : Nat → Int := fun j => if j = 0 then 30 else 3
    let noise : Nat → Int := fun j => if j = 0 then 2 else -1
    (∀ j < 2, (msg j - masks j + 17 * noise j - ((x j * 17 : Nat) : Int)) % 1009 = 0)
      ∧ (∀ j < 2, (msg j - masks j).natAbs ≤ 25 ∧ (noise j).natAbs ≤ 2) ∧ 2 * (25 + 17 * 2) < 1009
      ∧ (∀ j < 2, (((q2tCoeff 1009 17 (x j) : Nat) : Int) + masks j) % 17 = msg j % 17) := by decide

end Lattigo.Props.C16

#print axioms Lattigo.Props.C16.cks_noise_bound
#print axioms Lattigo.Props.C16.cks_noise_bound_P
#print axioms Lattigo.Props.C16.pcks_noise_bound_noP
#print axioms Lattigo.Props.C16.pcks_noise_bound
#print axioms Lattigo.Props.C16.refresh_noise_bound
#print axioms Lattigo.Props.C16.e2s_sum_mod_t_all
#print axioms Lattigo.Props.C16.e2s_sum_mod_t_poly
#print axioms Lattigo.Props.C16.e2s_sum_mod_t_parties
