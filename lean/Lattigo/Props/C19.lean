/-
  C19 — accepted parameters are sound; shipped sets meet their 128-bit security claim.

  All theorems are about the definitions of `Lattigo.Model.Params` that the driver executes
  (`newParametersFromLiteral`, `newParameters`, `genModuli`, `bgvNew`, `withinTable`, …), for every
  oracle `o : Oracle` (primality test + the generator's two float comparisons) unless stated.

  Findings recorded here as theorems about the model (each reproduced on the real code by a probe):
    * `accepted_sound_counterexample_bits`   62-bit q accepted      (CheckModuli tests Len64-1 > 61)
    * `accepted_sound_counterexample_shared` the same prime in Q and P accepted
    * `rejected_no_panic_counterexample_panic` negative root order ⇒ `1 << negative` panics
    * `rejected_no_panic_counterexample_hang`  root order ≥ 2^64 ⇒ the generator never returns
    * `bgv_qmul_counterexample`               bgv's auxiliary basis QMul can contain the primes of Q
    * `genModuli_spec_counterexample`         GenModuli(17,[16]) returns 65537 (not 1 mod 2^17)
    * `exported_above_table`                  three shipped bootstrapping sets are above the table
-/
import Lattigo.Proofs.Params
import Lattigo.Proofs.ParamsGen

namespace Lattigo.Params
open Lattigo

/-- the oracle's primality test is sound -/
def PrimeSound (o : Oracle) : Prop := ∀ n, o.isPrime n = true → Nat.Prime n

/-! ## accepted_sound -/

/-
  Full-strength statement (FALSE of the code, see the two counterexamples below):

    newParametersFromLiteral o fuel lit = .ok a →
      (a.q ++ a.p).Nodup ∧ ∀ m ∈ a.q ++ a.p, Nat.Prime m ∧ m % a.nthRoot = 1 ∧ len64 m ≤ 61

  What the code enforces instead: Q and P are *separately* duplicate-free, `q < 2^62` (62 bits)
  and `p < 2^63` (63 bits).  `8q ≤ 2^64` (needed by the lazy NTT butterflies and `MRedLazy`,
  /repo/ring/ntt.go:169) needs `q < 2^61`.
-/

/-- **accepted_sound_partial** — an accepted literal has `MinLogN ≤ logN ≤ MaxLogN`, a ring type in
    {Standard, ConjugateInvariant}, a non-empty duplicate-free Q, a duplicate-free P, every modulus
    prime and `≡ 1 mod NthRoot`, `q < 2^62` and `p < 2^63`.
    Gap to the full statement: distinctness across `Q ∪ P`, and the bound `< 2^61`. -/
theorem accepted_sound_partial (o : Oracle) (ho : PrimeSound o) (fuel : Nat) (lit : Literal)
    (a : Accepted) (h : newParametersFromLiteral o fuel lit = .ok a) :
    MinLogN ≤ (a.logN : Int) ∧ (a.logN : Int) ≤ MaxLogN ∧ (a.ringType = 0 ∨ a.ringType = 1) ∧
    a.q ≠ [] ∧ a.q.Nodup ∧ a.p.Nodup ∧
    (∀ m ∈ a.q ++ a.p, Nat.Prime m ∧ m % a.nthRoot = 1) ∧
    (∀ m ∈ a.q, m < 2 ^ 62) ∧ (∀ m ∈ a.p, m < 2 ^ 63) := by
  obtain ⟨q, p, h'⟩ := newParametersFromLiteral_ok h
  have f := newParameters_ok h'
  refine ⟨by rw [f.logN_eq]; exact f.logN_ge, by rw [f.logN_eq]; exact f.logN_le,
    by rw [f.rt_eq]; exact f.rt_ok, by rw [f.q_eq]; exact f.q_ne, by rw [f.q_eq]; exact f.q_nodup,
    by rw [f.p_eq]; exact f.p_nodup, ?_, by rw [f.q_eq]; exact f.q_bits, by rw [f.p_eq]; exact f.p_bits⟩
  intro m hm
  rw [f.q_eq, f.p_eq] at hm
  rcases List.mem_append.mp hm with hm | hm
  · exact ⟨ho m (f.q_prime m hm), f.q_ntt m hm⟩
  · exact ⟨ho m (f.p_prime m hm), f.p_ntt m hm⟩

/-- the witness: a 62-bit prime, `≡ 1 mod 32` -/
def witness62 : Nat := 4611686018427387617

theorem witness62_log2 : Nat.log2 witness62 = 61 := by decide +kernel

/-- **accepted_sound_counterexample_bits** — `{LogN: 4, Q: [4611686018427387617]}` is accepted by
    every oracle that calls the witness prime (it is: `ring.IsPrime` says so, and so does the
    driver's Miller–Rabin, next example), although it has 62 bits: `8q > 2^64`. -/
theorem accepted_sound_counterexample_bits (o : Oracle) (hp : o.isPrime witness62 = true) (fuel : Nat) :
    newParametersFromLiteral o fuel { logN := 4, q := some [witness62] }
      = .ok { logN := 4, q := [witness62], p := [], ringType := 0 }
    ∧ ¬ (len64 witness62 ≤ 61) ∧ ¬ (8 * witness62 ≤ 2 ^ 64) := by
  refine ⟨?_, by decide +kernel, by decide⟩
  have := witness62_log2
  unfold witness62 at *
  simp [newParametersFromLiteral, newParameters, checkSizeParams, checkModuli, firstIdx, tooManyBits, hp,
    newRingFromType, newRing, subRingCheck, firstSome, allDistinct, isPow2, MaxLogN, MinLogN,
    MinRingDegree, MaxModuliSize, len64, this]

/-- non-vacuity: the executable oracles do call the witness prime -/
example : goOracle.isPrime witness62 = true ∧ exactOracle.isPrime witness62 = true := by
  constructor <;> decide +kernel

/-- **accepted_sound_counterexample_shared** — `{LogN: 4, Q: [97], P: [97]}` is accepted: the moduli
    of `Q ∪ P` are not pairwise distinct (only Q and P separately are checked). -/
theorem accepted_sound_counterexample_shared (o : Oracle) (hp : o.isPrime 97 = true) (fuel : Nat) :
    ∃ a, newParametersFromLiteral o fuel { logN := 4, q := some [97], p := some [97] } = .ok a
      ∧ ¬ (a.q ++ a.p).Nodup := by
  refine ⟨{ logN := 4, q := [97], p := [97], ringType := 0 }, ?_, by decide⟩
  have : Nat.log2 97 = 6 := by decide +kernel
  simp [newParametersFromLiteral, newParameters, checkSizeParams, checkModuli, firstIdx, tooManyBits, hp,
    newRingFromType, newRing, subRingCheck, firstSome, allDistinct, isPow2, MaxLogN, MinLogN,
    MinRingDegree, MaxModuliSize, len64, this]

example : goOracle.isPrime 97 = true := by decide +kernel

/-- non-vacuity of `accepted_sound_partial`: an accepted literal exists -/
example : newParametersFromLiteral exactOracle 10 { logN := 4, q := some [97], p := some [193] }
    = .ok { logN := 4, q := [97], p := [193], ringType := 0 } := by decide +kernel

/-! ## rejected_no_panic — the decision table -/

/-- **decision_table** — `NewParameters` accepts (warnings aside) *exactly* the literals meeting
    `Requirements` (degree range, ring type, non-empty duplicate-free Q, duplicate-free P, every
    modulus prime for the oracle, `≡ 1 mod 2^(logN+1+ringType)`, `q < 2^62`, `p < 2^63`). -/
theorem decision_table (o : Oracle) (logN : Int) (q p : List Nat) (rt : Nat) :
    (∃ a, newParameters o logN q p rt false false = .ok a) ↔ Requirements o logN q p rt :=
  ⟨fun ⟨_, h⟩ => requirements_of_ok h, fun h => ⟨_, newParameters_complete h⟩⟩

/-- **rejected_no_panic** — with explicit moduli (no `LogQ`/`LogP`), every literal is either accepted
    or rejected with an error class — never a panic, never non-termination — and a literal violating
    any requirement is rejected with an error. -/
theorem rejected_no_panic (o : Oracle) (fuel : Nat) (lit : Literal)
    (hq : lit.logQ = none) (hp : lit.logP = none) :
    ((∃ a, newParametersFromLiteral o fuel lit = .ok a) ∨
     (∃ c, newParametersFromLiteral o fuel lit = .err c)) ∧
    (¬ Requirements o lit.logN (lit.q.getD []) (lit.p.getD []) lit.ringType →
      ∃ c, newParametersFromLiteral o fuel lit = .err c) := by
  have tot := newParametersFromLiteral_explicit_total o fuel lit hq hp
  refine ⟨tot, ?_⟩
  intro hnot
  rcases tot with ⟨a, ha⟩ | hc
  · exfalso
    apply hnot
    obtain ⟨q', p', h'⟩ := newParametersFromLiteral_ok ha
    have hreq := requirements_of_ok h'
    -- identify q', p' with the literal's lists
    have key : newParametersFromLiteral o fuel lit =
        newParameters o lit.logN (lit.q.getD []) (lit.p.getD []) lit.ringType lit.xsWeight0 lit.xeStd0 ∨
        ∃ c, newParametersFromLiteral o fuel lit = .err c := by
      unfold newParametersFromLiteral
      simp only [hq, hp, Option.isNone_none, Option.isSome_none, Bool.and_true, Bool.and_false,
        Bool.or_self, Bool.false_eq_true, if_false]
      split
      · exact Or.inr ⟨_, rfl⟩
      · exact Or.inl (by simp)
    rcases key with key | ⟨c, hc⟩
    · rw [key] at ha
      exact requirements_of_ok ha
    · rw [hc] at ha; cases ha
  · exact hc

/-- non-vacuity: a literal violating a requirement (composite modulus 33 ≡ 1 mod 32) is rejected -/
example : newParametersFromLiteral exactOracle 10 { logN := 4, q := some [33] } = .err "qPrime:0" := by
  decide +kernel

/-
  Full-strength statement for literals with size requests (`LogQ`/`LogP`): the same — FALSE of the
  code, two counterexamples.
-/

/-- **rejected_no_panic_counterexample_panic** — `{LogN: -5, LogNthRoot: -2, LogQ: [30]}`: `GenModuli`
    is reached before `LogN` is range-checked and evaluates `1 << -2`. -/
theorem rejected_no_panic_counterexample_panic (o : Oracle) (fuel : Nat) :
    newParametersFromLiteral o fuel { logN := -5, logNthRoot := -2, logQ := some [30] } = .panic := by
  simp [newParametersFromLiteral, genModuli, checkSizeParams, checkModuliLogSize, firstIdx,
    testParamsLogN, MaxLogN, MinLogN, MaxModuliSize]

theorem altLoop_stuck (o : Oracle) (g : Gen) (c : Nat) (hc : c < W) (hr : g.nthRoot = 0)
    (h1 : o.isPrime c = false) (h2 : o.stopUp g.size c = false) (h3 : o.stopDown g.size c = false) :
    ∀ fuel, altLoop o g fuel c c true true = (g, .hang) := by
  intro fuel
  induction fuel with
  | zero => rfl
  | succ f ih =>
    unfold altLoop
    have ha : u64add c 0 = c := Nat.mod_eq_of_lt hc
    have hs : u64sub c 0 = c := by
      unfold u64sub
      simp only [Nat.zero_mod, Nat.sub_zero, Nat.add_mod_right]
      exact Nat.mod_eq_of_lt hc
    have hgt : ¬ (18446744073709551615 < c) := by unfold W at hc; omega
    simp [hr, h1, h2, h3, ha, hs, hgt, ih]

/-- **rejected_no_panic_counterexample_hang** — `{LogN: 10, LogNthRoot: 64, LogQ: [30]}`:
    `uint64(1<<64) = 0`, the candidates `2^30+1` never move, `NextAlternatingPrime` has no exit:
    for *every* amount of fuel the model is still running. -/
theorem rejected_no_panic_counterexample_hang (o : Oracle)
    (h1 : o.isPrime (2 ^ 30 + 1) = false) (h2 : o.stopUp 30 (2 ^ 30 + 1) = false)
    (h3 : o.stopDown 30 (2 ^ 30 + 1) = false) (fuel : Nat) :
    newParametersFromLiteral o fuel { logN := 10, logNthRoot := 64, logQ := some [30] } = .hang := by
  have hstuck := altLoop_stuck o (newGen 30 0) (2 ^ 30 + 1) (by decide) rfl h1 h2 h3 fuel
  have e1 : (newGen 30 0).next = 2 ^ 30 + 1 := by decide
  have e2 : (newGen 30 0).prev = 2 ^ 30 + 1 := by decide
  have e3 : (newGen 30 0).checkNext = true := by decide
  have e4 : (newGen 30 0).checkPrev = true := by decide
  have hgen : genPrimes o fuel 2 30 0 1 = .hang := by
    unfold genPrimes nextPrimes
    simp only [show (2 : Nat) ≠ 0 by decide, show (2 : Nat) ≠ 1 by decide, if_false, nextAlt,
      e1, e2, e3, e4, hstuck]
  have hcount : List.count 30 [30] = 1 := by decide
  have hall : genAll o fuel 0 [30] [30] = .hang := by
    unfold genAll genForSize
    simp only [hcount, show (30 : Nat) ≠ 61 by decide, if_false, hgen]
  have hdups : List.eraseDupsBy (fun (x1 x2 : Nat) => x1 == x2) [30] = [30] := by decide
  simp [newParametersFromLiteral, genModuli, checkSizeParams, checkModuliLogSize, firstIdx,
    testParamsLogN, MaxLogN, MinLogN, MaxModuliSize, u64shl, W, List.eraseDups, hdups, hall]

/-- non-vacuity: the exact oracle satisfies the three hypotheses (`2^30+1 = 5²·13·41·61·1321`) -/
example : exactOracle.isPrime (2 ^ 30 + 1) = false ∧ exactOracle.stopUp 30 (2 ^ 30 + 1) = false ∧
    exactOracle.stopDown 30 (2 ^ 30 + 1) = false := by
  refine ⟨by decide +kernel, by decide +kernel, by decide +kernel⟩

/-- **rejected_no_panic_partial** — the literal constructor panics only if the root order handed to
    `GenModuli`, `max(LogN+1 (or +2), LogNthRoot)`, is negative.  (Gap: non-termination is not
    excluded — it occurs for root orders ≥ 2^62, see the counterexample.) -/
theorem rejected_no_panic_partial (o : Oracle) (fuel : Nat) (lit : Literal)
    (hroot : 0 ≤ max (lit.logN + (if lit.ringType = 0 then 1 else 2)) lit.logNthRoot) :
    newParametersFromLiteral o fuel lit ≠ .panic := by
  intro h
  have := newParametersFromLiteral_panic h
  omega

example : (0 : Int) ≤ max ((10 : Int) + (if (0 : Nat) = 0 then 1 else 2)) 0 := by decide

/-! ## bgv: checks on the plaintext modulus and the auxiliary basis -/

/-
  Full-strength statement: `bgvNew o fuel a t = .ok b →` (t prime, coprime to Q, `t ≡ 1 mod 2·nT`,
  `nT` a ring degree ≥ 8) `∧ ∀ m ∈ b.qMul, m ∉ a.q` (the auxiliary basis of the scale-invariant
  multiplication is coprime to Q).  The last conjunct is FALSE of the code (counterexample below).
-/

/-- **bgv_accepted_partial** — `bgv.NewParameters` accepts `t` only if `t ≠ 0`, `t ∉ Q`, `t ≤ Q[0]`,
    `t` is prime, the plaintext ring degree `nT = min(N, order/2) ≥ 8` with `t ≡ 1 mod 2·nT`
    (so `t` need *not* be `1 mod 2N`: the plaintext ring is then smaller), and the auxiliary basis
    consists of distinct primes `≡ 1 mod 2N`.  Gap: nothing relates the auxiliary basis to Q. -/
theorem bgv_accepted_partial (o : Oracle) (ho : PrimeSound o) (fuel : Nat) (a : Accepted) (t : Nat)
    (b : BgvAccepted) (h : bgvNew o fuel a t = .ok b) :
    Nat.Prime t ∧ t ∉ a.q ∧ t ≤ a.q.headD 0 ∧ 8 ≤ b.nT ∧ b.nT ≤ a.n ∧ t &&& (2 * b.nT - 1) = 1 ∧
    b.qMul.Nodup ∧ ∀ m ∈ b.qMul, Nat.Prime m ∧ m &&& (2 * a.n - 1) = 1 := by
  obtain ⟨_, h2, h3, h4, _, h6, h7, h8, h9, _, h11⟩ := bgvNew_ok h
  refine ⟨ho t h4, h2, h3, h7, by rw [h6]; exact Nat.min_le_left _ _, h8, h9,
    fun m hm => ⟨ho m (h11 m hm).1, (h11 m hm).2⟩⟩

/-- **bgv_qmul_counterexample** — with Q made of the first 61-bit primes below `2^61` that are
    `1 mod 2N` (what `GenModuli`/users pick for 61-bit moduli), the auxiliary basis generated by
    `bgv.NewParameters` *contains Q*: the "extended basis" of `MulScaleInvariant` is not a basis. -/
theorem bgv_qmul_counterexample :
    bgvNew exactOracle 100000
        { logN := 6, q := [2305843009213689601, 2305843009213689089], p := [], ringType := 0 } 65537
      = .ok { nT := 64, qMul := [2305843009213689601, 2305843009213689089, 2305843009213687297] } := by
  decide +kernel

/-- non-vacuity of `bgv_accepted_partial` with a plaintext modulus that is *not* `1 mod 2N`
    (`t = 17`, `2N = 128`): accepted with the plaintext ring degree 8 -/
example : bgvNew exactOracle 100000 { logN := 6, q := [786433], p := [], ringType := 0 } 17
    = .ok { nT := 8, qMul := [2305843009213689601] } := by decide +kernel

/-! ## genModuli_spec -/

/-- **genModuli_spec** — if `GenModuli(L, logQ, logP)` returns `(q, p)` then, provided the primality
    oracle is sound, the generator's two float comparisons are exact (`StopSound`), `L ≥ 1` and no
    requested size is below `L`:  `q`/`p` answer the requests in order, every modulus is a prime
    `≡ 1 mod 2^L` with `|log2 m − size| < 1/2` (exact arithmetic: `2^(2s) < 2m²`, `m² < 2^(2s+1)`),
    and the moduli of `q ++ p` are pairwise distinct. -/
theorem genModuli_spec (o : Oracle) (ho : PrimeSound o) (hs : StopSound o) (fuel : Nat) (L : Int)
    (logQ logP : List Int) (q p : List Nat) (hL : 1 ≤ L) (hroot : ∀ s ∈ logQ ++ logP, L ≤ s)
    (h : genModuli o fuel L logQ logP = .ok (q, p)) :
    List.Forall₂ (fun s m => Nat.Prime m ∧ m % 2 ^ L.toNat = 1 ∧
        2 ^ (2 * s.toNat) < 2 * (m * m) ∧ m * m < 2 ^ (2 * s.toNat + 1)) logQ q ∧
    List.Forall₂ (fun s m => Nat.Prime m ∧ m % 2 ^ L.toNat = 1 ∧
        2 ^ (2 * s.toNat) < 2 * (m * m) ∧ m * m < 2 ^ (2 * s.toNat + 1)) logP p ∧
    (q ++ p).Nodup := by
  obtain ⟨a, b, c⟩ := genModuli_ok o hs fuel L logQ logP q p hL hroot h
  exact ⟨List.Forall₂.imp (fun _ _ g => ⟨ho _ g.prime, g.ntt, g.lo, g.hi⟩) a,
    List.Forall₂.imp (fun _ _ g => ⟨ho _ g.prime, g.ntt, g.lo, g.hi⟩) b, c⟩

/-- non-vacuity (and a test, not a theorem about all inputs): the generator does return moduli -/
example : genModuli exactOracle 1000 6 [10, 10] [11] = .ok ([1153, 1217], [2113]) := by decide +kernel

/-- **genModuli_spec_counterexample** — the hypothesis `L ≤ size` is forced: for the size 16 and the
    root order 2^17 the generator returns the Fermat prime `2^16+1`, which is not `1 mod 2^17`. -/
theorem genModuli_spec_counterexample :
    genModuli exactOracle 1000 17 [16] [] = .ok ([65537], []) ∧ 65537 % 2 ^ 17 ≠ 1 := by
  constructor <;> decide +kernel

/-! ## exported_within_table -/

/-- **exported_within_table** — every exported example/default parameter set (rlwe, bgv, ckks,
    /repo/examples, bootstrapping residual and full chains; dump of the real code, tied by the
    `exported … known=1` lines) that is not recorded as a finding satisfies
    `log2(Q·P) < table(logN, secret) + 1/2`. A statement about today's literals. -/
theorem exported_within_table :
    ∀ s ∈ exportedSets, s.checked = true → s.above = false → s.within = true := by
  decide +kernel

/-- **exported_above_table** — the three recorded findings are indeed above the table, by
    89, 81 and 131 bits (`bitlen(QP) − table`). -/
theorem exported_above_table :
    ∀ s ∈ exportedSets, s.above = true → s.within = false ∧ s.checked = true := by
  decide +kernel

/-- non-vacuity: both classes are inhabited -/
example : (exportedSets.filter (fun s => s.checked && !s.above)).length = 34 ∧
    (exportedSets.filter (·.above)).length = 3 := by decide +kernel

/-! ## derived quantities equal their definitions -/

theorem mul_pow_mod (X Y k m : Nat) : (X % m) * (Y % m) ^ k % m = X * Y ^ k % m := by
  conv_lhs => rw [Nat.mul_mod, Nat.mod_mod]
  conv_rhs => rw [Nat.mul_mod, Nat.pow_mod]

theorem mul_pow_mod' (X Y k m : Nat) : X * (Y % m) ^ k % m = X * Y ^ k % m := by
  conv_lhs => rw [Nat.mul_mod]
  conv_rhs => rw [Nat.mul_mod, Nat.pow_mod]

theorem powModFast_go (m : Nat) : ∀ (fuel b e acc : Nat), e < 2 ^ fuel → acc % m = acc →
    powModFast.go m fuel b e acc = acc * b ^ e % m := by
  intro fuel
  induction fuel with
  | zero =>
    intro b e acc he hacc
    have : e = 0 := by simpa using he
    subst this
    simp [powModFast.go, hacc]
  | succ f ih =>
    intro b e acc he hacc
    unfold powModFast.go
    by_cases h0 : e = 0
    · subst h0; simp [hacc]
    · simp only [h0, if_false]
      have hlt : e / 2 < 2 ^ f := by
        rw [Nat.pow_succ] at he
        omega
      have he2 : e = 2 * (e / 2) + e % 2 := (Nat.div_add_mod e 2).symm
      by_cases hodd : e % 2 = 1
      · simp only [hodd, if_true]
        rw [ih _ _ _ hlt (Nat.mod_mod _ _), mul_pow_mod]
        conv_rhs => rw [he2, hodd]
        congr 1
        ring
      · have hev : e % 2 = 0 := by omega
        simp only [hev, show (0 : Nat) ≠ 1 by decide, if_false]
        rw [ih _ _ _ hlt hacc, mul_pow_mod']
        conv_rhs => rw [he2, hev]
        congr 1
        ring

/-- the executable square-and-multiply is the definition `x^e mod m` -/
theorem powModFast_eq (x e m : Nat) : powModFast x e m = powMod x e m := by
  unfold powModFast powMod
  have hfuel : e < 2 ^ (e.log2 + 2) := by
    have h1 : e < 2 ^ (e.log2 + 1) := Nat.lt_log2_self
    have h2 : 2 ^ (e.log2 + 1) ≤ 2 ^ (e.log2 + 2) := Nat.pow_le_pow_right (by decide) (by omega)
    omega
  rw [powModFast_go m _ _ _ _ hfuel (Nat.mod_mod _ _), mul_pow_mod, Nat.one_mul]

/-- **galoisElement_def** — `GaloisElement(k) = GaloisGen^(k mod NthRoot) mod NthRoot`
    (the executable model the tie lines compare with the real code is the definition). -/
theorem galoisElement_def (a : Accepted) (k : Int) :
    a.galoisElement k = GaloisGen ^ (k % (a.nthRoot : Int)).toNat % a.nthRoot := by
  unfold Accepted.galoisElement
  rw [powModFast_eq]; rfl

/-- **modInvGaloisElement_def** — `ModInvGaloisElement(g) = g^(NthRoot−1) mod NthRoot` -/
theorem modInvGaloisElement_def (a : Accepted) (g : Nat) :
    a.modInvGaloisElement g = g ^ (a.nthRoot - 1) % a.nthRoot := by
  unfold Accepted.modInvGaloisElement
  rw [powModFast_eq]; rfl

/-- **derived_defs** — `MaxLevel = #Q − 1`, `MaxLevelP = #P − 1`, `N = 2^LogN`,
    `NthRoot = 2N` (Standard) or `4N` (ConjugateInvariant), CKKS slots `N/2` or `N`. -/
theorem derived_defs (a : Accepted) :
    a.maxLevel = (a.q.length : Int) - 1 ∧ a.maxLevelP = (a.p.length : Int) - 1 ∧ a.n = 2 ^ a.logN ∧
    (a.ringType = 0 → a.nthRoot = 2 * a.n ∧ a.ckksMaxSlots = a.n / 2 ∧ a.ckksLogMaxSlots = a.logN - 1) ∧
    (a.ringType = 1 → a.nthRoot = 4 * a.n ∧ a.ckksMaxSlots = a.n ∧ a.ckksLogMaxSlots = a.logN) := by
  refine ⟨rfl, rfl, rfl, ?_, ?_⟩
  · intro h; simp [Accepted.nthRoot, Accepted.ckksMaxSlots, Accepted.ckksLogMaxSlots, h]
  · intro h; simp [Accepted.nthRoot, Accepted.ckksMaxSlots, Accepted.ckksLogMaxSlots, h]

/-- for an accepted literal `NthRoot` is the power of two `2^(LogN+1+ringType)` and
    `LogNthRoot()` is its exponent -/
theorem accepted_logNthRoot (o : Oracle) (fuel : Nat) (lit : Literal) (a : Accepted)
    (h : newParametersFromLiteral o fuel lit = .ok a) :
    a.nthRoot = 2 ^ (a.logN + 1 + a.ringType) ∧ a.logNthRoot = a.logN + 1 + a.ringType := by
  obtain ⟨q, p, h'⟩ := newParametersFromLiteral_ok h
  have f := newParameters_ok h'
  have hn := nthRoot_pow a (by rw [f.rt_eq]; exact f.rt_ok)
  refine ⟨hn, ?_⟩
  unfold Accepted.logNthRoot
  rw [hn]
  unfold len64
  have hpos : 0 < 2 ^ (a.logN + 1 + a.ringType) := Nat.two_pow_pos _
  have hne : 2 ^ (a.logN + 1 + a.ringType) - 1 ≠ 0 := by
    have : 2 ^ 1 ≤ 2 ^ (a.logN + 1 + a.ringType) := Nat.pow_le_pow_right (by decide) (by omega)
    omega
  simp only [hne, if_false]
  have h1 : (2 ^ (a.logN + 1 + a.ringType) - 1).log2 < a.logN + 1 + a.ringType :=
    (Nat.log2_lt hne).mpr (by omega)
  have h2 : ¬ (2 ^ (a.logN + 1 + a.ringType) - 1).log2 < a.logN + a.ringType := by
    intro hlt
    have := (Nat.log2_lt hne).mp hlt
    have e : 2 ^ (a.logN + 1 + a.ringType) = 2 * 2 ^ (a.logN + a.ringType) := by
      rw [show a.logN + 1 + a.ringType = (a.logN + a.ringType) + 1 by omega, Nat.pow_succ]; ring
    have : 0 < 2 ^ (a.logN + a.ringType) := Nat.two_pow_pos _
    omega
  omega

end Lattigo.Params

#print axioms Lattigo.Params.accepted_sound_partial
#print axioms Lattigo.Params.accepted_sound_counterexample_bits
#print axioms Lattigo.Params.accepted_sound_counterexample_shared
#print axioms Lattigo.Params.decision_table
#print axioms Lattigo.Params.rejected_no_panic
#print axioms Lattigo.Params.rejected_no_panic_counterexample_panic
#print axioms Lattigo.Params.rejected_no_panic_counterexample_hang
#print axioms Lattigo.Params.rejected_no_panic_partial
#print axioms Lattigo.Params.bgv_accepted_partial
#print axioms Lattigo.Params.bgv_qmul_counterexample
#print axioms Lattigo.Params.genModuli_spec
#print axioms Lattigo.Params.genModuli_spec_counterexample
#print axioms Lattigo.Params.exported_within_table
#print axioms Lattigo.Params.exported_above_table
#print axioms Lattigo.Params.galoisElement_def
#print axioms Lattigo.Params.modInvGaloisElement_def
#print axioms Lattigo.Params.derived_defs
#print axioms Lattigo.Params.accepted_logNthRoot
