/-
  C19 — accepted parameters are sound; shipped sets meet their 128-bit security claim.

  Files: this one (constructors, GenModuli, bgv, exported sets, derived quantities of the hand model),
  `Props/C19Primes.lean` (the prime generator itself, all three directions), `Props/C19Codec.lean` (the codecs), `Props/C19Gen.lean` (the derived
  quantities REGENERATED from core/rlwe/params.go by tools/go2lean — not by the owner of this file).
  All theorems are about the definitions of `Lattigo.Model.Params` that the driver executes, for every oracle
  `o : Oracle` (primality test + the generator's two float comparisons) unless stated. The model follows /repo
  with the fixes /verif/fixes/C19-1 … C19-13 applied.

  PROVED FOR ALL INPUTS
    acceptance
      `decision_table`            rlwe.NewParameters accepts (warnings aside) ⇔ `Requirements` (degree range, ring type,
                                  non-empty Q, Q ∪ P duplicate-free, each modulus prime for the oracle, ≡ 1 mod NthRoot, < 2^61)
      `literal_decision_table`    the same for NewParametersFromLiteral with explicit moduli
      `ckks_decision_table`       ckks.NewParametersFromLiteral ⇔ rlwe acceptance ∧ LogDefaultScale ≤ 128
      `bgv_decision_table`        bgv.NewParameters returns b ⇔ t ≠ 0, t ∉ Q, t ≤ Q[0], the auxiliary-basis generator returns
                                  b.qMul and it is a ring of degree N, order(t) ≥ 16, b.nT = min(N, order/2) is a ring with modulus t
      `ring_decision_table`       ring.NewRingWithCustomNTT succeeds ⇔ N ≥ 8 power of two, chain non-empty, duplicate-free,
                                  every modulus a non-zero prime with m & (NthRoot−1) = 1
      `accepted_sound`            (needs a sound primality oracle) accepted ⇒ Q ∪ P pairwise distinct primes, ≡ 1 mod NthRoot,
                                  bit length ≤ 61, 8m ≤ 2^64
      `bgv_accepted`              accepted t is prime, not in Q, ≤ Q[0], t ≡ 1 mod 2·nT, nT ≥ 8; QMul primes ≡ 1 mod 2N, none in Q
    rejection
      `never_panics`              no literal, oracle, fuel gives `panic`
      `rejected_no_panic_explicit` explicit moduli: accept or `err`, any oracle, any fuel; violated requirement ⇒ `err`
      `params_revalidate`         an accepted object's own literal is accepted again and gives the same object
    moduli generation
      `genModuli_spec`, `genModuli_total`, and in C19Primes `genPrimes_spec`, `genPrimes_order`, `genPrimes_total`
    codecs (`Props/C19Codec.lean`: model of the JSON field lists; MarshalBinary = JSON)
      `dist_roundtrip`, `rlweLit_roundtrip` (up to empty-slice ≡ nil, what `omitempty` cannot express),
      `btp_roundtrip`, `btpLit_roundtrip` (exact, zero values and nil pointers included)
    derived quantities (hand model; the regenerated ones are in C19Gen)
      `overflowMargin_sound`, `qiOverflowMargin_sound`, `baseRNS_def`, `baseTwo_def`, `galoisElement_def`,
      `modInvGaloisElement_def`, `derived_defs`, `accepted_logNthRoot`
    exported sets (statements about today's literals, dumped from the real code and tied by `exported … known=1`)
      `exported_within_table`, and the five known findings as counterexamples: `exported_above_table` (three sets
      above the table), `n15_defaults_not_instantiable` (two sets whose residual chain fails the root-order check)

  PROVED UNDER A NAMED HYPOTHESIS
    `rejected_no_panic`, `genModuli_total`, `genPrimes_total`  termination needs `StopComplete o` (the float stop tests
        fire outside the half-bit window) and `fuel ≥ 2^65`
    `genModuli_spec`, `genPrimes_spec`, `genPrimes_order`      need `StopSound o` (the float tests are read exactly)
    Both hold for `exactOracle` (`exactOracle_stopSound`, `exactOracle_stopComplete`); for the double-precision port
    `goOracle` they are NOT discharged (no Float reasoning in the kernel) — the run-time probe `genmoduli_spec`
    checks the exact window on every modulus the real generator returns.
    `accepted_sound`, `genModuli_spec`, `bgv_accepted`, `genPrimes_spec` use `PrimeSound o`; the driver's Miller–Rabin
    test is tied to `ring.IsPrime` (`isprime` lines) but not proved equal to `Nat.Prime`.

  TIED ONLY (model = implementation on the explored inputs): ops `rlwe_new`, `rlwe_direct`, `ckks_new`, `bgv_new`,
    `gen`, `genmoduli`, `overlap`, `isprime`, `derived`, `accessors`, `exported`, `table`, `codec_keys`
    (the decode side of the codecs and the text codecs of Scale / nested parameter objects are covered by the
    round-trip PROBES on the real code, not by the model).
  PROBES ONLY: accepted_then_ntt_roundtrip / accepted_then_bgv_arithmetic / bgv_context_works / accepted_dist_usable
    (the accepted context computes correctly), accessor_aliases, codec_roundtrip, equal_discriminates,
    rejects_logN_out_of_range, bgv_rejects_t_dividing_Q, exported_instantiable.
  NOT COVERED: that the table's figures give 128-bit security (estimator output, `spec/security_table.json` records
    provenance); encryption/decryption correctness of an accepted context is C03/C07's subject (here: probes).
-/
import Lattigo.Proofs.Params
import Lattigo.Proofs.ParamsGen
import Lattigo.Proofs.ParamsTerm
import Lattigo.Props.C19Primes
import Lattigo.Props.C19Codec
import Lattigo.Props.C19Gen

namespace Lattigo.Params
open Lattigo

/-- the oracle's primality test is sound -/
def PrimeSound (o : Oracle) : Prop := ∀ n, o.isPrime n = true → Nat.Prime n

/-! ## accepted_sound -/

/-- **accepted_sound** (full strength) — an accepted literal has `MinLogN ≤ logN ≤ MaxLogN`, a ring type
    in {Standard, ConjugateInvariant}, a non-empty Q, and the moduli of `Q ∪ P` are pairwise distinct
    primes, `≡ 1 mod NthRoot`, of bit length ≤ 61 — the exact bound `CheckModuli` enforces
    (`m < 2^61`), which gives `8m ≤ 2^64`, what the lazy NTT and `MRedLazy` need. -/
theorem accepted_sound (o : Oracle) (ho : PrimeSound o) (fuel : Nat) (lit : Literal)
    (a : Accepted) (h : newParametersFromLiteral o fuel lit = .ok a) :
    MinLogN ≤ (a.logN : Int) ∧ (a.logN : Int) ≤ MaxLogN ∧ (a.ringType = 0 ∨ a.ringType = 1) ∧
    a.q ≠ [] ∧ (a.q ++ a.p).Nodup ∧
    ∀ m ∈ a.q ++ a.p, Nat.Prime m ∧ m % a.nthRoot = 1 ∧ len64 m ≤ 61 ∧ 8 * m ≤ 2 ^ 64 := by
  obtain ⟨q, p, h'⟩ := newParametersFromLiteral_ok h
  have f := newParameters_ok h'
  refine ⟨by rw [f.logN_eq]; exact f.logN_ge, by rw [f.logN_eq]; exact f.logN_le,
    by rw [f.rt_eq]; exact f.rt_ok, by rw [f.q_eq]; exact f.q_ne,
    by rw [f.q_eq, f.p_eq]; exact f.qp_nodup, ?_⟩
  intro m hm
  rw [f.q_eq, f.p_eq] at hm
  have key : o.isPrime m = true ∧ m % a.nthRoot = 1 ∧ m < 2 ^ 61 := by
    rcases List.mem_append.mp hm with hm | hm
    · exact ⟨f.q_prime m hm, f.q_ntt m hm, f.q_bits m hm⟩
    · exact ⟨f.p_prime m hm, f.p_ntt m hm, f.p_bits m hm⟩
  exact ⟨ho m key.1, key.2.1, (len64_le_iff m 61).mpr key.2.2, by have := key.2.2; omega⟩

/-- non-vacuity: an accepted literal exists -/
example : newParametersFromLiteral exactOracle 10 { logN := 4, q := some [97], p := some [193] }
    = .ok { logN := 4, q := [97], p := [193], ringType := 0 } := by decide +kernel

/-- the former counterexample (a 62-bit prime, `≡ 1 mod 32`, accepted before fix C19-1) is rejected -/
example : newParametersFromLiteral exactOracle 10 { logN := 4, q := some [4611686018427387617] }
    = .err "qBits:0" := by decide +kernel

/-- the former counterexample (the same prime in Q and P, accepted before fix C19-2) is rejected -/
example : newParametersFromLiteral exactOracle 10 { logN := 4, q := some [97], p := some [97] }
    = .err "qpNotDistinct" := by decide +kernel

/-! ## rejected_no_panic — the decision table -/

/-- **decision_table** — `NewParameters` accepts (warnings aside) *exactly* the literals meeting
    `Requirements` (degree range, ring type, non-empty Q, `Q ∪ P` duplicate-free, every modulus
    prime for the oracle, `≡ 1 mod 2^(logN+1+ringType)`, `< 2^61`). -/
theorem decision_table (o : Oracle) (logN : Int) (q p : List Nat) (rt : Nat) :
    (∃ a, newParameters o logN q p rt false false = .ok a) ↔ Requirements o logN q p rt :=
  ⟨fun ⟨_, h⟩ => requirements_of_ok h, fun h => ⟨_, newParameters_complete h⟩⟩

/-- **literal_decision_table** — `NewParametersFromLiteral` on a literal with explicit moduli (no size requests, no
    zero-weight / zero-deviation warning) accepts exactly when the literal's lists meet `Requirements`
    (a nil `Q` is the empty chain and fails `q ≠ []`). -/
theorem literal_decision_table (o : Oracle) (fuel : Nat) (lit : Literal)
    (hq : lit.logQ = none) (hp : lit.logP = none) (hw : lit.xsWeight0 = false) (hs : lit.xeStd0 = false) :
    (∃ a, newParametersFromLiteral o fuel lit = .ok a) ↔
      Requirements o lit.logN (lit.q.getD []) (lit.p.getD []) lit.ringType := by
  cases hq' : lit.q with
  | none =>
    constructor
    · intro ⟨a, ha⟩
      exfalso
      unfold newParametersFromLiteral at ha
      simp [hq, hq'] at ha
    · intro hreq
      exact absurd rfl hreq.q_ne
  | some ql =>
    have key : newParametersFromLiteral o fuel lit =
        newParameters o lit.logN ql (lit.p.getD []) lit.ringType false false := by
      unfold newParametersFromLiteral
      simp [hq, hp, hw, hs, hq']
    rw [key]
    simp only [Option.getD_some]
    exact ⟨fun ⟨a, ha⟩ => requirements_of_ok ha, fun hreq => ⟨_, newParameters_complete hreq⟩⟩

example : ∃ a, newParametersFromLiteral exactOracle 10 { logN := 4, q := some [97], p := some [193] } = .ok a :=
  ⟨{ logN := 4, q := [97], p := [193], ringType := 0 }, by decide +kernel⟩

/-- **ring_decision_table**, **ckks_decision_table**, **bgv_decision_table** — the remaining constructors as equivalences
    (statements and proofs in `Proofs/Params.lean`: `newRing_iff`, `ckks_decision`, `bgv_decision`). -/
theorem ring_decision_table {o : Oracle} {n r : Nat} {ms : List Nat} :
    newRing o n ms r = none ↔
      MinRingDegree ≤ n ∧ isPow2 n = true ∧ ms ≠ [] ∧ ms.Nodup ∧
      ∀ m ∈ ms, m ≠ 0 ∧ o.isPrime m = true ∧ m &&& (r - 1) = 1 := newRing_iff

theorem ckks_decision_table (o : Oracle) (fuel : Nat) (lit : Literal) (lds : Int) (a : Accepted) :
    ckksNewFromLiteral o fuel lit lds = .ok a ↔ newParametersFromLiteral o fuel lit = .ok a ∧ lds ≤ 128 :=
  ckks_decision o fuel lit lds a

theorem bgv_decision_table (o : Oracle) (fuel : Nat) (a : Accepted) (t : Nat) (b : BgvAccepted) :
    bgvNew o fuel a t = .ok b ↔
      t ≠ 0 ∧ t ∉ a.q ∧ t ≤ a.q.headD 0 ∧
      qmulLoop o fuel a.q ((len64 a.qProd + a.logN + 60) / 61 + a.q.length + 1)
        ((len64 a.qProd + a.logN + 60) / 61) (newGen 61 a.nthRoot) = .ok b.qMul ∧
      newRing o a.n b.qMul (2 * a.n) = none ∧
      16 ≤ cyclotomicOrder t ∧ b.nT = min a.n (cyclotomicOrder t / 2) ∧
      newRing o b.nT [t] (2 * b.nT) = none := bgv_decision o fuel a t b

/-- both sides of `bgv_decision_table` are inhabited (`t = 17`, plaintext ring of degree 8) -/
example : bgvNew exactOracle 100000 { logN := 6, q := [786433], p := [], ringType := 0 } 17
    = .ok { nT := 8, qMul := [2305843009213689601] } := by decide +kernel

/-- **never_panics** — no literal whatsoever makes the constructor panic (any oracle, any fuel). -/
theorem never_panics (o : Oracle) (fuel : Nat) (lit : Literal) :
    newParametersFromLiteral o fuel lit ≠ .panic :=
  newParametersFromLiteral_ne_panic o fuel lit

/-- **rejected_no_panic** (full strength) — every literal, with explicit moduli or with size requests,
    is either accepted or rejected with an error class: no panic, no non-termination.
    Termination needs the generator's stop tests to fire outside the half-bit window
    (`StopComplete`, true of the exact tests) and `fuel ≥ 2^65` (the loops make at most
    `2^63 + 2^64` steps). -/
theorem rejected_no_panic (o : Oracle) (hc : StopComplete o) (fuel : Nat) (hf : 2 ^ 65 ≤ fuel)
    (lit : Literal) :
    (∃ a, newParametersFromLiteral o fuel lit = .ok a) ∨
    (∃ c, newParametersFromLiteral o fuel lit = .err c) := by
  have h1 := newParametersFromLiteral_ne_panic o fuel lit
  have h2 := newParametersFromLiteral_ne_hang o hc fuel hf lit
  cases h : newParametersFromLiteral o fuel lit with
  | ok a => exact Or.inl ⟨a, rfl⟩
  | err c => exact Or.inr ⟨c, rfl⟩
  | panic => exact absurd h h1
  | hang => exact absurd h h2

/-- non-vacuity of the hypotheses -/
example : StopComplete exactOracle := exactOracle_stopComplete

/-- **rejected_no_panic_explicit** — with explicit moduli (no `LogQ`/`LogP`) the same holds for every
    oracle and every fuel, and a literal violating any requirement is rejected with an error. -/
theorem rejected_no_panic_explicit (o : Oracle) (fuel : Nat) (lit : Literal)
    (hq : lit.logQ = none) (hp : lit.logP = none) :
    ((∃ a, newParametersFromLiteral o fuel lit = .ok a) ∨
     (∃ c, newParametersFromLiteral o fuel lit = .err c)) ∧
    (¬ Requirements o lit.logN (lit.q.getD []) (lit.p.getD []) lit.ringType →
      ∃ c, newParametersFromLiteral o fuel lit = .err c) := by
  have tot := newParametersFromLiteral_explicit_total o fuel lit hq hp
  refine ⟨tot, ?_⟩
  intro hnot
  rcases tot with ⟨a, ha⟩ | hc
  · exfalso
    apply hnot
    have key : newParametersFromLiteral o fuel lit =
        newParameters o lit.logN (lit.q.getD []) (lit.p.getD []) lit.ringType lit.xsWeight0 lit.xeStd0 ∨
        ∃ c, newParametersFromLiteral o fuel lit = .err c := by
      unfold newParametersFromLiteral
      simp only [hq, hp, Option.isNone_none, Option.isSome_none, Bool.and_true, Bool.and_false,
        Bool.or_self, Bool.false_eq_true, if_false]
      split
      · exact Or.inr ⟨_, rfl⟩
      · exact Or.inl (by simp)
    rcases key with key | ⟨c, hc⟩
    · rw [key] at ha
      exact requirements_of_ok ha
    · rw [hc] at ha; cases ha
  · exact hc

/-- non-vacuity: a literal violating a requirement (composite modulus 33 ≡ 1 mod 32) is rejected -/
example : newParametersFromLiteral exactOracle 10 { logN := 4, q := some [33] } = .err "qPrime:0" := by
  decide +kernel

/-- the literal that made `GenModuli` evaluate `1 << -2` before fix C19-3 is rejected, by every oracle -/
example (o : Oracle) (fuel : Nat) :
    newParametersFromLiteral o fuel { logN := -5, logNthRoot := -2, logQ := some [30] } = .err "logNmin" := by
  simp [newParametersFromLiteral, checkSizeParams, MaxLogN, MinLogN]

/-- the literals on which the generator never returned before fixes C19-3/4 (root orders 2^64 and
    2^62) are rejected, by every oracle -/
example (o : Oracle) (fuel : Nat) :
    newParametersFromLiteral o fuel { logN := 10, logNthRoot := 64, logQ := some [30] }
      = .err "gen:logNthRoot" ∧
    newParametersFromLiteral o fuel { logN := 10, logNthRoot := 62, q := some [97], logP := some [61] }
      = .err "gen:logNthRoot" := by
  constructor <;>
    simp [newParametersFromLiteral, genModuli, checkSizeParams, MaxLogN, MinLogN] <;> decide

/-- the single-direction loops return the exhaustion error where they used to spin (fix C19-4) -/
example : genPrimes exactOracle 10 1 5 64 1 = .err "exhausted" ∧
    genPrimes exactOracle 10 0 63 (2 ^ 63) 1 = .err "exhausted" ∧
    genPrimes exactOracle 10 2 30 0 1 = .err "exhausted" := by
  refine ⟨by decide +kernel, by decide +kernel, by decide +kernel⟩

/-! ## bgv: checks on the plaintext modulus and the auxiliary basis -/

/-- **bgv_accepted** (full strength) — `bgv.NewParameters` accepts `t` only if `t` is prime, `t ∉ Q`
    (so coprime to Q), `t ≤ Q[0]`, the plaintext ring degree `nT = min(N, order/2) ≥ 8` with
    `t ≡ 1 mod 2·nT` (`t` need not be `1 mod 2N`: the plaintext ring is then smaller), and the
    auxiliary basis consists of distinct primes `≡ 1 mod 2N` none of which is in Q. -/
theorem bgv_accepted (o : Oracle) (ho : PrimeSound o) (fuel : Nat) (a : Accepted) (t : Nat)
    (b : BgvAccepted) (h : bgvNew o fuel a t = .ok b) :
    Nat.Prime t ∧ t ∉ a.q ∧ t ≤ a.q.headD 0 ∧ 8 ≤ b.nT ∧ b.nT ≤ a.n ∧ t &&& (2 * b.nT - 1) = 1 ∧
    b.qMul.Nodup ∧ (∀ m ∈ b.qMul, Nat.Prime m ∧ m &&& (2 * a.n - 1) = 1) ∧
    ∀ m ∈ b.qMul, m ∉ a.q := by
  obtain ⟨_, h2, h3, h4, _, h6, h7, h8, h9, _, h11, h12⟩ := bgvNew_ok h
  refine ⟨ho t h4, h2, h3, h7, by rw [h6]; exact Nat.min_le_left _ _, h8, h9,
    fun m hm => ⟨ho m (h11 m hm).1, (h11 m hm).2⟩, h12⟩

/-- the former counterexample (Q = the first 61-bit primes `1 mod 2N` below `2^61`, which the auxiliary
    basis contained before fix C19-5): the basis now starts after them -/
example :
    bgvNew exactOracle 100000
        { logN := 6, q := [2305843009213689601, 2305843009213689089], p := [], ringType := 0 } 65537
      = .ok { nT := 64, qMul := [2305843009213687297, 2305843009213686401, 2305843009213685377] } := by
  decide +kernel

/-- non-vacuity with a plaintext modulus that is *not* `1 mod 2N` (`t = 17`, `2N = 128`):
    accepted with the plaintext ring degree 8 -/
example : bgvNew exactOracle 100000 { logN := 6, q := [786433], p := [], ringType := 0 } 17
    = .ok { nT := 8, qMul := [2305843009213689601] } := by decide +kernel

/-- a plaintext modulus equal to a LATER prime of the chain (`t = Q[1] = 65537`) is rejected like `t = Q[0]`
    (`bgv_accepted` gives `t ∉ Q` for every accepted `t`; this is the concrete instance) -/
example : bgvNew exactOracle 100000
    { logN := 6, q := [35184372088961, 65537, 1073741441], p := [], ringType := 0 } 65537 = .err "tInQ" := by
  decide +kernel

/-- `rlwe.NewParameters` called directly refuses a ring degree outside `[MinLogN, MaxLogN]` before anything else
    (any oracle, any moduli): `decision_table` in the two out-of-range instances -/
example (o : Oracle) (q p : List Nat) (rt : Nat) (w s : Bool) :
    newParameters o 3 q p rt w s = .err "logNmin" ∧ newParameters o 21 q p rt w s = .err "logNmax" ∧
    newParameters o (-1) q p rt w s = .err "logNmin" := by
  refine ⟨?_, ?_, ?_⟩ <;> simp [newParameters, checkSizeParams, MaxLogN, MinLogN]

/-! ## genModuli_spec -/

/-- **genModuli_spec** (full strength) — if `GenModuli(L, logQ, logP)` returns `(q, p)` then, provided
    the primality oracle is sound and the generator's two float comparisons are exact (`StopSound`):
    `5 ≤ L ≤ 22`, `q`/`p` answer the requests in order, every modulus is a prime `≡ 1 mod 2^L` with
    `|log2 m − size| < 1/2` (exact arithmetic: `2^(2s) < 2m²`, `m² < 2^(2s+1)`), and the moduli of
    `q ++ p` are pairwise distinct.  The precondition "no size below the root order" is now enforced
    by the code (fix C19-6), as is the range of `L` (fix C19-3). -/
theorem genModuli_spec (o : Oracle) (ho : PrimeSound o) (hs : StopSound o) (fuel : Nat) (L : Int)
    (logQ logP : List Int) (q p : List Nat)
    (h : genModuli o fuel L logQ logP = .ok (q, p)) :
    5 ≤ L ∧ L ≤ 22 ∧
    List.Forall₂ (fun s m => Nat.Prime m ∧ m % 2 ^ L.toNat = 1 ∧
        2 ^ (2 * s.toNat) < 2 * (m * m) ∧ m * m < 2 ^ (2 * s.toNat + 1)) logQ q ∧
    List.Forall₂ (fun s m => Nat.Prime m ∧ m % 2 ^ L.toNat = 1 ∧
        2 ^ (2 * s.toNat) < 2 * (m * m) ∧ m * m < 2 ^ (2 * s.toNat + 1)) logP p ∧
    (q ++ p).Nodup := by
  obtain ⟨l1, l2, a, b, c⟩ := genModuli_ok o hs fuel L logQ logP q p h
  exact ⟨l1, l2, List.Forall₂.imp (fun _ _ g => ⟨ho _ g.prime, g.ntt, g.lo, g.hi⟩) a,
    List.Forall₂.imp (fun _ _ g => ⟨ho _ g.prime, g.ntt, g.lo, g.hi⟩) b, c⟩

/-- non-vacuity (a test, not a theorem about all inputs): the generator does return moduli -/
example : genModuli exactOracle 1000 6 [10, 10] [11] = .ok ([1153, 1217], [2113]) := by decide +kernel

/-- the former counterexample (size 16 below the root order 2^17 gave the Fermat prime 65537, which
    is not `1 mod 2^17`) is rejected -/
example : genModuli exactOracle 1000 17 [16] [] = .err "logQbelowRoot:0" := by decide +kernel

/-- `GenModuli` terminates and never panics -/
theorem genModuli_total (o : Oracle) (hc : StopComplete o) (fuel : Nat) (hf : 2 ^ 65 ≤ fuel)
    (L : Int) (logQ logP : List Int) :
    genModuli o fuel L logQ logP ≠ .panic ∧ genModuli o fuel L logQ logP ≠ .hang :=
  ⟨genModuli_ne_panic o fuel L logQ logP, genModuli_ne_hang o hc fuel hf L logQ logP⟩

/-! ## exported_within_table -/

/-- **exported_within_table** — every exported example/default parameter set (rlwe, bgv, ckks,
    /repo/examples, bootstrapping residual and full chains; dump of the real code, tied by the
    `exported … known=1` lines) that is not recorded as a known finding satisfies
    `log2(Q·P) < table(logN, secret) + 1/2`. A statement about today's literals. -/
theorem exported_within_table :
    ∀ s ∈ exportedSets, s.checked = true → s.above = false → s.within = true := by
  decide +kernel

/-- **exported_above_table** — the three known findings (not fixed: the shipped bootstrapping literals
    `N16QP1793H32768H32`, `N15QP768H192H32`, `N15QP880H16384H32`) are indeed above the table, by
    89, 81 and 131 bits (`bitlen(QP) − table`). -/
theorem exported_above_table :
    ∀ s ∈ exportedSets, s.above = true → s.within = false ∧ s.checked = true := by
  decide +kernel

/-- non-vacuity: both classes are inhabited -/
example : (exportedSets.filter (fun s => s.checked && !s.above)).length = 34 ∧
    (exportedSets.filter (·.above)).length = 3 := by decide +kernel

/-! ## derived quantities equal their definitions -/

theorem mul_pow_mod (X Y k m : Nat) : (X % m) * (Y % m) ^ k % m = X * Y ^ k % m := by
  conv_lhs => rw [Nat.mul_mod, Nat.mod_mod]
  conv_rhs => rw [Nat.mul_mod, Nat.pow_mod]

theorem mul_pow_mod' (X Y k m : Nat) : X * (Y % m) ^ k % m = X * Y ^ k % m := by
  conv_lhs => rw [Nat.mul_mod]
  conv_rhs => rw [Nat.mul_mod, Nat.pow_mod]

theorem powModFast_go (m : Nat) : ∀ (fuel b e acc : Nat), e < 2 ^ fuel → acc % m = acc →
    powModFast.go m fuel b e acc = acc * b ^ e % m := by
  intro fuel
  induction fuel with
  | zero =>
    intro b e acc he hacc
    have : e = 0 := by simpa using he
    subst this
    simp [powModFast.go, hacc]
  | succ f ih =>
    intro b e acc he hacc
    unfold powModFast.go
    by_cases h0 : e = 0
    · subst h0; simp [hacc]
    · simp only [h0, if_false]
      have hlt : e / 2 < 2 ^ f := by
        rw [Nat.pow_succ] at he
        omega
      have he2 : e = 2 * (e / 2) + e % 2 := (Nat.div_add_mod e 2).symm
      by_cases hodd : e % 2 = 1
      · simp only [hodd, if_true]
        rw [ih _ _ _ hlt (Nat.mod_mod _ _), mul_pow_mod]
        conv_rhs => rw [he2, hodd]
        congr 1
        ring
      · have hev : e % 2 = 0 := by omega
        simp only [hev, show (0 : Nat) ≠ 1 by decide, if_false]
        rw [ih _ _ _ hlt hacc, mul_pow_mod']
        conv_rhs => rw [he2, hev]
        congr 1
        ring

/-- the executable square-and-multiply is the definition `x^e mod m` -/
theorem powModFast_eq (x e m : Nat) : powModFast x e m = powMod x e m := by
  unfold powModFast powMod
  have hfuel : e < 2 ^ (e.log2 + 2) := by
    have h1 : e < 2 ^ (e.log2 + 1) := Nat.lt_log2_self
    have h2 : 2 ^ (e.log2 + 1) ≤ 2 ^ (e.log2 + 2) := Nat.pow_le_pow_right (by decide) (by omega)
    omega
  rw [powModFast_go m _ _ _ _ hfuel (Nat.mod_mod _ _), mul_pow_mod, Nat.one_mul]

/-- **galoisElement_def** — `GaloisElement(k) = GaloisGen^(k mod NthRoot) mod NthRoot`
    (the executable model the tie lines compare with the real code is the definition). -/
theorem galoisElement_def (a : Accepted) (k : Int) :
    a.galoisElement k = GaloisGen ^ (k % (a.nthRoot : Int)).toNat % a.nthRoot := by
  unfold Accepted.galoisElement
  rw [powModFast_eq]; rfl

/-- **modInvGaloisElement_def** — `ModInvGaloisElement(g) = g^(NthRoot−1) mod NthRoot` -/
theorem modInvGaloisElement_def (a : Accepted) (g : Nat) :
    a.modInvGaloisElement g = g ^ (a.nthRoot - 1) % a.nthRoot := by
  unfold Accepted.modInvGaloisElement
  rw [powModFast_eq]; rfl

/-- **derived_defs** — `MaxLevel = #Q − 1`, `MaxLevelP = #P − 1`, `N = 2^LogN`,
    `NthRoot = 2N` (Standard) or `4N` (ConjugateInvariant), CKKS slots `N/2` or `N`. -/
theorem derived_defs (a : Accepted) :
    a.maxLevel = (a.q.length : Int) - 1 ∧ a.maxLevelP = (a.p.length : Int) - 1 ∧ a.n = 2 ^ a.logN ∧
    (a.ringType = 0 → a.nthRoot = 2 * a.n ∧ a.ckksMaxSlots = a.n / 2 ∧ a.ckksLogMaxSlots = a.logN - 1) ∧
    (a.ringType = 1 → a.nthRoot = 4 * a.n ∧ a.ckksMaxSlots = a.n ∧ a.ckksLogMaxSlots = a.logN) := by
  refine ⟨rfl, rfl, rfl, ?_, ?_⟩
  · intro h; simp [Accepted.nthRoot, Accepted.ckksMaxSlots, Accepted.ckksLogMaxSlots, h]
  · intro h; simp [Accepted.nthRoot, Accepted.ckksMaxSlots, Accepted.ckksLogMaxSlots, h]

/-- for an accepted literal `NthRoot` is the power of two `2^(LogN+1+ringType)` and
    `LogNthRoot()` is its exponent -/
theorem accepted_logNthRoot (o : Oracle) (fuel : Nat) (lit : Literal) (a : Accepted)
    (h : newParametersFromLiteral o fuel lit = .ok a) :
    a.nthRoot = 2 ^ (a.logN + 1 + a.ringType) ∧ a.logNthRoot = a.logN + 1 + a.ringType := by
  obtain ⟨q, p, h'⟩ := newParametersFromLiteral_ok h
  have f := newParameters_ok h'
  have hn := nthRoot_pow a (by rw [f.rt_eq]; exact f.rt_ok)
  refine ⟨hn, ?_⟩
  unfold Accepted.logNthRoot
  rw [hn]
  unfold len64
  have hpos : 0 < 2 ^ (a.logN + 1 + a.ringType) := Nat.two_pow_pos _
  have hne : 2 ^ (a.logN + 1 + a.ringType) - 1 ≠ 0 := by
    have : 2 ^ 1 ≤ 2 ^ (a.logN + 1 + a.ringType) := Nat.pow_le_pow_right (by decide) (by omega)
    omega
  simp only [hne, if_false]
  have h1 : (2 ^ (a.logN + 1 + a.ringType) - 1).log2 < a.logN + 1 + a.ringType :=
    (Nat.log2_lt hne).mpr (by omega)
  have h2 : ¬ (2 ^ (a.logN + 1 + a.ringType) - 1).log2 < a.logN + a.ringType := by
    intro hlt
    have := (Nat.log2_lt hne).mp hlt
    have e : 2 ^ (a.logN + 1 + a.ringType) = 2 * 2 ^ (a.logN + a.ringType) := by
      rw [show a.logN + 1 + a.ringType = (a.logN + a.ringType) + 1 by omega, Nat.pow_succ]; ring
    have : 0 < 2 ^ (a.logN + a.ringType) := Nat.two_pow_pos _
    omega
  omega

/-! ## the two shipped defaults that cannot be instantiated -/

/-- **n15_defaults_not_instantiable** — known findings `C19-exported-not-instantiable:bootstrapping.N15QP768H192H32` and
    `…N15QP880H16384H32` as statements about the model: the residual chains of these two shipped default sets (members
    of `exportedSets`, i.e. what the real constructor generates for `SchemeParams`, logN = 15) fail the root-order check
    of `bootstrapping.NewParametersFromLiteral` when the bootstrapping literal leaves `LogN` at its default 16
    (`NthRoot = 2^17`): the first offending primes are `Q[0]` and `Q[3]`, as the real error messages say.
    With `LogN = 15` the check passes — but then the sets are above the table (`exported_above_table`). -/
theorem n15_defaults_not_instantiable :
    (∃ s ∈ exportedSets, s.logN = 15 ∧ s.q = [8589475841, 1125899908022273, 33292289] ∧
      btpResidualCheck 15 0 16 s.q = some 0 ∧ btpResidualCheck 15 0 15 s.q = none) ∧
    (∃ s ∈ exportedSets, s.logN = 15 ∧ s.q = [1099512938497, 2147352577, 2146959361, 2148728833, 2148794369] ∧
      btpResidualCheck 15 0 16 s.q = some 3 ∧ btpResidualCheck 15 0 15 s.q = none) := by
  decide +kernel

/-! ### overflow margins -/

theorem foldl_max_ge (l : List Nat) : ∀ (acc x : Nat), (x ∈ l ∨ x ≤ acc) → x ≤ l.foldl max acc := by
  induction l with
  | nil => intro acc x h; rcases h with h | h; cases h; simpa using h
  | cons y ys ih =>
    intro acc x h
    simp only [List.foldl_cons]
    apply ih
    rcases h with h | h
    · rcases List.mem_cons.mp h with rfl | h
      · exact Or.inr (Nat.le_max_right _ _)
      · exact Or.inl h
    · exact Or.inr (Nat.le_trans h (Nat.le_max_left _ _))

theorem foldl_max_mem (l : List Nat) : ∀ (acc : Nat), l.foldl max acc ∈ l ∨ l.foldl max acc = acc := by
  induction l with
  | nil => intro acc; exact Or.inr rfl
  | cons y ys ih =>
    intro acc
    simp only [List.foldl_cons]
    rcases ih (max acc y) with h | h
    · exact Or.inl (List.mem_cons_of_mem _ h)
    · rw [h]
      rcases Nat.le_total acc y with h' | h'
      · rw [Nat.max_eq_right h']; exact Or.inl (List.mem_cons_self ..)
      · rw [Nat.max_eq_left h']; exact Or.inr rfl

theorem maxList_ge {l : List Nat} {x : Nat} (h : x ∈ l) : x ≤ maxList l := foldl_max_ge l 0 x (Or.inl h)

theorem maxList_mem {l : List Nat} (hpos : ∀ x ∈ l, 0 < x) (hne : l ≠ []) : maxList l ∈ l := by
  rcases foldl_max_mem l 0 with h | h
  · exact h
  · obtain ⟨x, hx⟩ := List.exists_mem_of_ne_nil l hne
    have := maxList_ge hx
    have := hpos x hx
    unfold maxList at *
    omega

/-- an odd number above 1 does not divide `2^64` -/
theorem odd_not_dvd_W {m : Nat} (hodd : m % 2 = 1) (h1 : 1 < m) : W % m ≠ 0 := by
  intro h
  have hd : m ∣ 2 ^ 64 := by rw [← W_eq]; exact Nat.dvd_of_mod_eq_zero h
  have hc : Nat.Coprime m (2 ^ 64) := Nat.Coprime.pow_right _ (Nat.coprime_two_right.mpr (Nat.odd_iff.mpr hodd))
  have := Nat.Coprime.eq_one_of_dvd hc hd
  omega

/-- **overflowMargin_sound** — for a non-empty list of odd moduli above 1 (every accepted chain), the margin
    is `floor(2^64 / max)`: `margin · q < 2^64` for EVERY modulus `q` of the list (not only the one of
    the working level), and it is the largest such number for the largest modulus. -/
theorem overflowMargin_sound (l : List Nat) (hne : l ≠ []) (hodd : ∀ q ∈ l, q % 2 = 1)
    (hgt : ∀ q ∈ l, 1 < q) :
    overflowMargin l = 2 ^ 64 / maxList l ∧ (∀ q ∈ l, overflowMargin l * q < 2 ^ 64) ∧
    2 ^ 64 < (overflowMargin l + 1) * maxList l := by
  have hm := maxList_mem (fun x hx => by have := hgt x hx; omega) hne
  have hnd := odd_not_dvd_W (hodd _ hm) (hgt _ hm)
  have hpos : 0 < maxList l := by have := hgt _ hm; omega
  have hdm := Nat.div_add_mod W (maxList l)
  have hlt := Nat.mod_lt W hpos
  have heq : (W - 1) / maxList l = W / maxList l := by
    apply Nat.div_eq_of_lt_le
    · have : W / maxList l * maxList l = maxList l * (W / maxList l) := Nat.mul_comm _ _
      omega
    · have : (W / maxList l + 1) * maxList l = maxList l * (W / maxList l) + maxList l := by ring
      omega
  unfold overflowMargin
  rw [heq, ← W_eq]
  refine ⟨rfl, ?_, ?_⟩
  · intro q hq
    have hle := maxList_ge hq
    have : W / maxList l * q ≤ W / maxList l * maxList l := Nat.mul_le_mul_left _ hle
    have : W / maxList l * maxList l = maxList l * (W / maxList l) := Nat.mul_comm _ _
    omega
  · have : (W / maxList l + 1) * maxList l = maxList l * (W / maxList l) + maxList l := by ring
    omega

/-- **qiOverflowMargin_sound** — for an accepted literal and a level of the chain, `QiOverflowMargin(level)`
    times any prime of `Q[:level+1]` stays below `2^64` (this is what makes the lazy accumulators of the
    gadget product safe), and it is `floor(2^64 / max Q[:level+1])`. Same for `PiOverflowMargin`. -/
theorem qiOverflowMargin_sound (o : Oracle) (ho : PrimeSound o) (fuel : Nat) (lit : Literal)
    (a : Accepted) (h : newParametersFromLiteral o fuel lit = .ok a) (level : Nat) :
    (∃ m : Nat, a.qiOverflowMargin level = (m : Int) ∧ m = 2 ^ 64 / maxList (a.q.take (level + 1)) ∧
      ∀ q ∈ a.q.take (level + 1), m * q < 2 ^ 64) ∧
    (a.p ≠ [] → ∃ m : Nat, a.piOverflowMargin level = (m : Int) ∧
      m = 2 ^ 64 / maxList (a.p.take (level + 1)) ∧ ∀ q ∈ a.p.take (level + 1), m * q < 2 ^ 64) := by
  obtain ⟨_, _, hrt, hq, _, hall⟩ := accepted_sound o ho fuel lit a h
  have hnth := (accepted_logNthRoot o fuel lit a h).1
  have hodd : ∀ m ∈ a.q ++ a.p, m % 2 = 1 ∧ 1 < m := by
    intro m hm
    obtain ⟨hp, hmod, _⟩ := hall m hm
    have h2 : 2 ∣ a.nthRoot := by
      rw [hnth]; exact Dvd.intro_left (2 ^ (a.logN + a.ringType)) (by rw [← Nat.pow_succ]; congr 1; omega)
    have : m % 2 = (m % a.nthRoot) % 2 := (Nat.mod_mod_of_dvd m h2).symm
    rw [hmod] at this
    exact ⟨this, hp.one_lt⟩
  have take_ne : ∀ (l : List Nat), l ≠ [] → l.take (level + 1) ≠ [] := by
    intro l hl
    cases l with
    | nil => exact absurd rfl hl
    | cons x xs => simp
  constructor
  · have hs := overflowMargin_sound (a.q.take (level + 1)) (take_ne _ hq)
      (fun q hq' => (hodd q (List.mem_append_left _ (List.mem_of_mem_take hq'))).1)
      (fun q hq' => (hodd q (List.mem_append_left _ (List.mem_of_mem_take hq'))).2)
    refine ⟨overflowMargin (a.q.take (level + 1)), ?_, hs.1, hs.2.1⟩
    unfold Accepted.qiOverflowMargin
    have : a.q.isEmpty = false := by
      cases hqq : a.q with
      | nil => exact absurd hqq hq
      | cons _ _ => rfl
    simp [this]
  · intro hp
    have hs := overflowMargin_sound (a.p.take (level + 1)) (take_ne _ hp)
      (fun q hq' => (hodd q (List.mem_append_right _ (List.mem_of_mem_take hq'))).1)
      (fun q hq' => (hodd q (List.mem_append_right _ (List.mem_of_mem_take hq'))).2)
    refine ⟨overflowMargin (a.p.take (level + 1)), ?_, hs.1, hs.2.1⟩
    unfold Accepted.piOverflowMargin
    have : a.p.isEmpty = false := by
      cases hpp : a.p with
      | nil => exact absurd hpp hp
      | cons _ _ => rfl
    simp [this]

/-- the margin is governed by the LARGEST prime up to the level, not by the prime of the level:
    for Q = (2^60-ish, 45 bits, 45 bits) it is 16 at every level (a test on a concrete chain) -/
example : let a : Accepted := { logN := 6, q := [1152921504606844417, 35184372088961, 35184372088321], p := [], ringType := 0 }
    (a.qiOverflowMargin 0, a.qiOverflowMargin 1, a.qiOverflowMargin 2) = (16, 16, 16) ∧
    2 ^ 64 / 35184372088321 = 524288 := by decide +kernel

/-- **baseRNS_def** — `BaseRNSDecompositionVectorSize(levelQ, levelP) = ⌈(levelQ+1)/(levelP+1)⌉` for `levelP ≥ 0`:
    the least `d` with `d·(levelP+1) ≥ levelQ+1` -/
theorem baseRNS_def (levelQ : Nat) (levelP : Nat) :
    let d := baseRNSDecompositionVectorSize levelQ (levelP : Int)
    levelQ + 1 ≤ d * (levelP + 1) ∧ (d - 1) * (levelP + 1) < levelQ + 1 := by
  have hne : ((levelP : Int) = -1) = False := by
    simp only [eq_iff_iff, iff_false]; omega
  simp only [baseRNSDecompositionVectorSize, hne, if_false, Int.toNat_natCast]
  have hpos : 0 < levelP + 1 := by omega
  have h1 := Nat.div_add_mod (levelQ + levelP + 1) (levelP + 1)
  have h2 := Nat.mod_lt (levelQ + levelP + 1) hpos
  generalize (levelQ + levelP + 1) / (levelP + 1) = d at *
  generalize (levelQ + levelP + 1) % (levelP + 1) = r at *
  constructor
  · have : d * (levelP + 1) = (levelP + 1) * d := Nat.mul_comm _ _
    omega
  · rcases d with _ | d
    · simp
    · have : (d + 1 - 1) * (levelP + 1) = (levelP + 1) * d := by rw [Nat.add_sub_cancel, Nat.mul_comm]
      have : (levelP + 1) * (d + 1) = (levelP + 1) * d + (levelP + 1) := by ring
      omega

/-- **baseTwo_def** — the digit count of `BaseTwoDecompositionVectorSize` covers every residue:
    `q < 2^(w·digits)` for every prime, whenever the power-of-two decomposition is active -/
theorem baseTwo_def (a : Accepted) (levelP : Int) (w : Nat) (hw : 0 < w) (hp : levelP ≤ 0) :
    List.Forall₂ (fun q d => q < 2 ^ (w * d) ∧ (d - 1) * w < len64 q ∨ q = 0)
      a.q (a.baseTwoDecompositionVectorSize levelP w) := by
  unfold Accepted.baseTwoDecompositionVectorSize
  have h1 : (w = 0) = False := by simp; omega
  have h2 : (levelP > 0) = False := by simp; omega
  simp only [h1, h2, decide_false, Bool.or_self, Bool.false_eq_true, if_false]
  rw [List.forall₂_map_right_iff, List.forall₂_same]
  intro q _
  by_cases hq : q = 0
  · exact Or.inr hq
  · left
    have hd := Nat.div_add_mod (len64 q + w - 1) w
    have hm := Nat.mod_lt (len64 q + w - 1) hw
    generalize (len64 q + w - 1) / w = d at *
    generalize (len64 q + w - 1) % w = r at *
    constructor
    · apply (len64_le_iff q (w * d)).mp
      omega
    · rcases d with _ | d
      · simp
        unfold len64; simp [hq]
      · have : (d + 1 - 1) * w = w * d := by rw [Nat.add_sub_cancel, Nat.mul_comm]
        have : w * (d + 1) = w * d + w := by ring
        omega

end Lattigo.Params

#print axioms Lattigo.Params.accepted_sound
#print axioms Lattigo.Params.decision_table
#print axioms Lattigo.Params.literal_decision_table
#print axioms Lattigo.Params.ring_decision_table
#print axioms Lattigo.Params.ckks_decision_table
#print axioms Lattigo.Params.bgv_decision_table
#print axioms Lattigo.Params.n15_defaults_not_instantiable
#print axioms Lattigo.Params.never_panics
#print axioms Lattigo.Params.rejected_no_panic
#print axioms Lattigo.Params.rejected_no_panic_explicit
#print axioms Lattigo.Params.bgv_accepted
#print axioms Lattigo.Params.genModuli_spec
#print axioms Lattigo.Params.genModuli_total
#print axioms Lattigo.Params.exported_within_table
#print axioms Lattigo.Params.exported_above_table
#print axioms Lattigo.Params.galoisElement_def
#print axioms Lattigo.Params.modInvGaloisElement_def
#print axioms Lattigo.Params.overflowMargin_sound
#print axioms Lattigo.Params.qiOverflowMargin_sound
#print axioms Lattigo.Params.baseRNS_def
#print axioms Lattigo.Params.baseTwo_def
#print axioms Lattigo.Params.derived_defs
#print axioms Lattigo.Params.accepted_logNthRoot
