import Lattigo.Proofs.RingQP
import Lattigo.Proofs.NTTCIBig
import Lattigo.Props.C01NTT
import Lattigo.Props.C01Ring
import Lattigo.Proofs.RLWECI
import Mathlib.Tactic.IntervalCases
/-!
  # C01 — round 4: R_QP scalars on every level view, the conjugate-invariant ring outside the NTT domain,
  and the conjugate-invariant transform on large inputs

  All theorems are about definitions the driver executes (`Model/RingQP.lean`: ops `qpmulrns`, `rpautci`;
  `Model/NTT.lean`: ops `ntt ci…`) and hold for all inputs of the stated shape.

  * `qp_mulRNSScalar_view` — `ringqp.Ring.MulRNSScalarMontgomery` on ANY view `AtLevel(nq−1, np−1)` (`nq`, `np` from `0`
    to the chain lengths), with an RNS scalar in the layout `[all moduli of Q | all moduli of P]` holding `v` in
    Montgomery form: every active row is the canonical product `x·v mod q_i` (clause "every level").
    `qp_level_split_counterexample`: splitting the scalar at `LevelQ()+1` instead is wrong (seed C01-r4m2).
  * `aut_ci_restriction` — `Ring.Automorphism` outside the NTT domain on the conjugate-invariant ring (the loop over
    `2N` exponents, `RingQP.rowAutCI`) IS the first half of `σ_g` of `Z_q[X]/(X^2N+1)` applied to the unfolded
    polynomial `x_0 + Σ x_j (X^j + X^-j)`; `aut_ci_sem` — and that `σ_g` is the ring automorphism `X ↦ X^g`
    (`C01Ring.row_aut`); `aut_ci_closed` — the image is conjugate invariant again: `σ_g(unfold x) = unfold(rowAutCI g x)`,
    so the restriction loses nothing and `rowAutCI g` is the action of `σ_g` on the subring `Z_q[X+X^-1]/(X^2N+1)`.
    Every odd `g` (also `g ≡ 3 mod 4`), every `N = 2^K`, entries `< q`.
  * `ntt_ci_big`, `ntt_ci_reduced_big`, `ntt_ci_unreduced`, `twist_linear` — `NTTLazy` / `NTT` of the conjugate-invariant
    ring on inputs `< M` with `M + 6q ≤ 2^64` (no relation between `M` and `q`): no uint64 wrap, exact twist + exact
    network in `Z_q`, outputs `< max (M+2q) 4q + 2q`; the reducing transform of an unreduced row is the transform of
    the reduced row; the exact twist is linear (with `NTT.fwdZ_zipWith_lin`: the exact transform is linear).  For
    C02's `Div{Floor,Round}ByLastModulusNTT` / `DecomposeNTT` on conjugate-invariant rings.
-/
namespace Lattigo.Props.C01QP
open Lattigo Lattigo.Gen Lattigo.NTT Lattigo.RingQP

/-! ## 1. RNS scalars of R_QP -/

/-- **qp_mulRNSScalar_view** (see the header; `RingQP.mulRNSScalarMontgomery_view`). -/
theorem qp_mulRNSScalar_view (qs ps : List ℕ) (nq np v : ℕ) (pQ pP : List (List ℕ))
    (hnq : nq ≤ qs.length) (hnp : np ≤ ps.length)
    (hqs : ∀ q ∈ qs, q.Prime ∧ q % 2 = 1 ∧ 2 * q ≤ W) (hps : ∀ q ∈ ps, q.Prime ∧ q % 2 = 1 ∧ 2 * q ≤ W)
    (hQ : ∀ i, i < nq → ∀ x ∈ pQ.getD i [], x < qs.getD i 0)
    (hP : ∀ j, j < np → ∀ x ∈ pP.getD j [], x < ps.getD j 0) :
    mulRNSScalarMontgomery qs ps nq np pQ pP (montScalar qs ps v)
      = ((List.range nq).map fun i => (pQ.getD i []).map fun x => (x * v) % qs.getD i 0,
         (List.range np).map fun j => (pP.getD j []).map fun x => (x * v) % ps.getD j 0) :=
  mulRNSScalarMontgomery_view qs ps nq np v pQ pP hnq hnp hqs hps hQ hP

/-- non-vacuity: `Q = [97, 193]`, `P = [257, 769]`, the view `(levelQ, levelP) = (0, 1)`, `v = 1000` -/
example : mulRNSScalarMontgomery [97, 193] [257, 769] 1 2 [[96, 5]] [[256, 7], [768, 9]]
      (montScalar [97, 193] [257, 769] 1000)
    = ([[96 * 1000 % 97, 5 * 1000 % 97]], [[256 * 1000 % 257, 7 * 1000 % 257], [768 * 1000 % 769, 9 * 1000 % 769]]) := by
  have hp : ∀ q ∈ [97, 193, 257, 769], Nat.Prime q ∧ q % 2 = 1 ∧ 2 * q ≤ W := by
    intro q hq
    simp only [List.mem_cons, List.mem_nil_iff, or_false] at hq
    rcases hq with rfl | rfl | rfl | rfl <;> refine ⟨by norm_num, by decide, by decide⟩
  have := qp_mulRNSScalar_view [97, 193] [257, 769] 1 2 1000 [[96, 5]] [[256, 7], [768, 9]] (by decide) (by decide)
    (fun q hq => hp q (List.mem_append_left [257, 769] hq))
    (fun q hq => hp q (List.mem_append_right [97, 193] hq))
    (by intro i hi x hx
        obtain rfl : i = 0 := by omega
        simp at hx
        rcases hx with rfl | rfl <;> decide)
    (by intro j hj x hx
        interval_cases j <;> simp at hx <;> rcases hx with rfl | rfl <;> decide)
  exact this.trans (by decide)

/-- **qp_level_split_counterexample** (`RingQP.mulRNSScalarMontgomeryAt_level_split_counterexample`) -/
theorem qp_level_split_counterexample :
    (mulRNSScalarMontgomery [97, 193] [257] 1 1 [[1]] [[1]] (montScalar [97, 193] [257] 5)).2 = [[5]]
    ∧ (mulRNSScalarMontgomeryAt 1 [97, 193] [257] 1 1 [[1]] [[1]] (montScalar [97, 193] [257] 5)).2 ≠ [[5]] :=
  mulRNSScalarMontgomeryAt_level_split_counterexample

/-! ## 2. the conjugate-invariant ring outside the NTT domain -/

/-- **aut_ci_restriction** (`RingQP.rowAutCI_eq_take`). -/
theorem aut_ci_restriction (K g q : ℕ) (x : List ℕ) (hlen : x.length = 2 ^ K) (hg : g % 2 = 1)
    (hx : ∀ v ∈ x, v < q) :
    rowAutCI g q x = (RPoly.rowAut g q (unfoldCI q x)).take (2 ^ K) :=
  rowAutCI_eq_take K g q x hlen hg hx

/-- **aut_ci_closed** (`RingQP.rowAut_unfoldCI`): the automorphism maps the conjugate-invariant subring to itself and
`rowAutCI` is its action there. -/
theorem aut_ci_closed (K g q : ℕ) (x : List ℕ) (hlen : x.length = 2 ^ K) (hg : g % 2 = 1)
    (hx : ∀ v ∈ x, v < q) (hq : 0 < q) :
    RPoly.rowAut g q (unfoldCI q x) = unfoldCI q (rowAutCI g q x) :=
  rowAut_unfoldCI K g q x hlen hg hx hq

/-- the unfolding used here is the embedding `E` of the conjugate-invariant carrier of C03 (`Proofs/RLWECI.lean`:
`RLWECI.emb`, whose image is the subring of `Z_q[X]/(X^2N+1)` fixed by `X ↦ X⁻¹`, with `E(a·b) = E a · E b`) -/
theorem unfoldCI_eq_emb (q : ℕ) (x : List ℕ) : unfoldCI q x = RLWECI.emb q x.length x := rfl

/-- **aut_ci_sem**: the automorphism of the unfolded polynomial is the ring automorphism `X ↦ X^g` of
`Z_q[X]/(X^2N+1)` (`C01Ring.row_aut` at degree `2N`), a bijection. -/
theorem aut_ci_sem {q : ℕ} (hq : 0 < q) (K g : ℕ) (hg : Odd g) (x : List ℕ) (hlen : x.length = 2 ^ K) :
    RPolyRing.toQuot q (2 ^ (K + 1)) (RPoly.rowAut g q (unfoldCI q x))
      = RPolyRing.autHom q (2 ^ (K + 1)) g hg (RPolyRing.toQuot q (2 ^ (K + 1)) (unfoldCI q x))
    ∧ Function.Bijective (RPolyRing.autHom q (2 ^ (K + 1)) g hg) := by
  have hc : Nat.Coprime g (2 ^ (K + 1)) := by
    apply Nat.Coprime.pow_right
    rw [Nat.coprime_comm, Nat.Prime.coprime_iff_not_dvd Nat.prime_two]
    obtain ⟨k, hk⟩ := hg
    omega
  have hU : (unfoldCI q x).length = 2 ^ (K + 1) := by
    rw [unfoldCI_length, hlen, Nat.pow_succ]; ring
  obtain ⟨h1, _, h3⟩ := C01Ring.row_aut hq (Nat.one_le_two_pow) g hg hc (unfoldCI q x) hU
  exact ⟨h1, h3⟩

/-- TEST (evaluation): `N = 8`, `q = 97`, `g = 3` (`≡ 3 mod 4`), `5` and `2N + 1 = 17` (`X ↦ −X`) -/
example : rowAutCI 3 97 [1, 2, 3, 4, 5, 6, 7, 8] = (RPoly.rowAut 3 97 (unfoldCI 97 [1, 2, 3, 4, 5, 6, 7, 8])).take 8 := by
  decide +kernel
example : rowAutCI 17 97 [1, 2, 3, 4, 5, 6, 7, 8] = [1, 95, 3, 93, 5, 91, 7, 89] := by decide +kernel
example : RPoly.rowAut 7 97 (unfoldCI 97 [1, 2, 3, 4, 5, 6, 7, 8]) = unfoldCI 97 (rowAutCI 7 97 [1, 2, 3, 4, 5, 6, 7, 8]) :=
  aut_ci_closed 3 7 97 _ rfl (by decide) (by decide) (by decide)
/-- non-vacuity of `aut_ci_restriction` -/
example (g : ℕ) (hg : g % 2 = 1) :
    rowAutCI g 97 [1, 2, 3, 4, 5, 6, 7, 8] = (RPoly.rowAut g 97 (unfoldCI 97 [1, 2, 3, 4, 5, 6, 7, 8])).take (2 ^ 3) :=
  aut_ci_restriction 3 g 97 _ rfl hg (by decide)

/-! ## 3. the conjugate-invariant transform on large inputs -/

/-- **ntt_ci_big** (`NTT.nttCICoreLazy_big_all`): `NTTLazy`, conjugate-invariant ring, every `N = 2^K`. -/
theorem ntt_ci_big {T : Tables} {K : ℕ} (hT : ValidCI T K) [Fact T.q.Prime] (M : ℕ)
    (hM : M + 6 * T.q ≤ W) (a : List ℕ) (ha : ∀ x ∈ a, x < M) :
    (nttCILazy T a).map (Nat.cast : ℕ → ZMod T.q)
      = fwdZ (rho T.q T.rootsF) K 2 (twistZ (rho T.q T.rootsF 1) (a.map (Nat.cast : ℕ → ZMod T.q)))
    ∧ ∀ y ∈ nttCILazy T a, y < max (M + 2 * T.q) (4 * T.q) + 2 * T.q :=
  nttCICoreLazy_big_all hT M hM a ha

/-- **ntt_ci_reduced_big** (`NTT.nttCI_big`): `NTT`, conjugate-invariant ring, unreduced input. -/
theorem ntt_ci_reduced_big {T : Tables} {K : ℕ} (hT : ValidCI T K) [Fact T.q.Prime] (M : ℕ)
    (hM : M + 6 * T.q ≤ W) (a : List ℕ) (ha : ∀ x ∈ a, x < M) :
    (nttCI T a).map (Nat.cast : ℕ → ZMod T.q)
      = fwdZ (rho T.q T.rootsF) K 2 (twistZ (rho T.q T.rootsF 1) (a.map (Nat.cast : ℕ → ZMod T.q)))
    ∧ ∀ y ∈ nttCI T a, y < T.q :=
  nttCI_big hT M hM a ha

/-- **ntt_ci_unreduced** (`NTT.nttCI_unreduced`) -/
theorem ntt_ci_unreduced {T : Tables} {K : ℕ} (hT : ValidCI T K) (M : ℕ) (hM : M + 6 * T.q ≤ W)
    (a : List ℕ) (ha : ∀ x ∈ a, x < M) : nttCI T a = nttCI T (a.map (· % T.q)) :=
  nttCI_unreduced hT M hM a ha

/-- **twist_linear** (`NTT.twistZ_zipWith_lin`) -/
theorem twist_linear {F : Type} [CommRing F] (i c : F) (A B : List F) (h : A.length = B.length) :
    twistZ i (List.zipWith (fun a b => (a - b) * c) A B)
      = List.zipWith (fun a b => (a - b) * c) (twistZ i A) (twistZ i B) :=
  twistZ_zipWith_lin i c A B h

/-- non-vacuity: the generated tables of the conjugate-invariant ring of degree `16` over `q61` and rows with
entries `< 2^62` (`2^62 + 6·q61 ≤ 2^64`): residues modulo a larger prime, un-reduced sums, … -/
example (a : List ℕ) (ha : ∀ x ∈ a, x < 2 ^ 62) :
    nttCI (mkTables (2 ^ 4) C01NTT.q61 (2 ^ 6) 37) a
      = nttCI (mkTables (2 ^ 4) C01NTT.q61 (2 ^ 6) 37) (a.map (· % C01NTT.q61)) :=
  ntt_ci_unreduced (C01NTT.tables_invariant_ci 4 C01NTT.q61 37 C01NTT.q61_prime (by decide) (by decide)
    C01NTT.q61_nonresidue) (2 ^ 62) (by decide) a ha

end Lattigo.Props.C01QP

#print axioms Lattigo.Props.C01QP.qp_mulRNSScalar_view
#print axioms Lattigo.Props.C01QP.qp_level_split_counterexample
#print axioms Lattigo.Props.C01QP.aut_ci_restriction
#print axioms Lattigo.Props.C01QP.aut_ci_closed
#print axioms Lattigo.Props.C01QP.aut_ci_sem
#print axioms Lattigo.Props.C01QP.unfoldCI_eq_emb
#print axioms Lattigo.Props.C01QP.ntt_ci_big
#print axioms Lattigo.Props.C01QP.ntt_ci_reduced_big
#print axioms Lattigo.Props.C01QP.ntt_ci_unreduced
#print axioms Lattigo.Props.C01QP.twist_linear
