/-
  C14 — collective keys are keys of the ideal secret, whatever the share order.

  All theorems are about the definitions of `Lattigo/Model/MPShare.lean` (the ones the driver executes
  on `RPoly`), for an arbitrary commutative ring `α` (resp. commutative additive semigroup for the
  order-independence statements), any number of parties and any aggregation tree.

  Shape of the statements: parties are indexed by the leaves of the aggregation tree `t`;
  `t.eval (· + ·) s` is the ideal secret `Σ s_i` (for ANY tree, by `agg_perm`, it is the same sum).

  What is NOT proved here (gap between these theorems and the Go code): that `RPoly` with the
  operations of `Model/RPoly.lean` is the commutative ring `Z_Q[X]/(X^N+1)` (property C01) — the tie
  of the harness checks the model against the real shares / keys on `RPoly`; and the noise *bound*
  (a norm statement) — the theorems give the exact error term (`Σ e_i`, resp.
  `s·E0 + u·E1 + E2`), its size is measured by the probe `collective_key_works` against the explicit
  worst-case bound derived in `harness/c14_probe.go`.

  Defects found through this property and repaired in /repo (fixes/C14-*.diff); the model follows the
  repaired code, the former model witnesses became positive statements:
    * GenEvaluationKey/GenGaloisKey copied `len(m[0])` digits per row   → `evk_key_assembled` (any shape),
                                                                          `genEvaluationKey_ragged_ok`
    * AggregateShares did not compare the decompositions               → `mismatch_rejected_decomposition`
    * GaloisKeyGenProtocol.GenShare panicked without auxiliary modulus  → `gal_collective_eq_single` has no
                                                                          hypothesis on `LevelP`, `gal_noP_ok`
    * GenShare's LevelP test compared the share with itself             → `mismatch_rejected_sk_levelP`
  Recorded, not repaired (needs an API change): `RelinearizationKeyGenProtocol.AggregateShares` has no
  validation and no error result (probe `mismatch_rejected kind=rkg_levelQ*`, key C14-rkg-agg-unchecked).
-/
import Lattigo.Proofs.MPKeys
import Lattigo.Props.C14Ring
import Lattigo.Props.C14Noise

namespace Lattigo.Props.C14
open Lattigo.MP

/-! ## 1. Aggregation: any permutation, any grouping -/

/-- **agg_perm.** In a commutative additive semigroup the aggregate along any two trees whose leaves
    are permutations of each other is the same. -/
theorem agg_perm {β : Type} [AddCommSemigroup β] (t₁ t₂ : AggTree) (sh : Nat → β)
    (h : t₁.leaves.Perm t₂.leaves) : t₁.eval (· + ·) sh = t₂.eval (· + ·) sh :=
  AggTree.eval_perm t₁ t₂ sh h

example : (AggTree.node (.node (.leaf 2) (.leaf 0)) (.leaf 1)).leaves.Perm
    (AggTree.node (.leaf 0) (.node (.leaf 1) (.leaf 2))).leaves := by decide

/-- the left fold (`aggList`, how the library's tests aggregate) over any two orderings agrees -/
theorem agg_fold_perm {β : Type} [AddCommSemigroup β] (x y : β) (xs ys : List β)
    (h : (x :: xs).Perm (y :: ys)) : aggList x xs = aggList y ys :=
  foldl_perm x y xs ys h

/-- every tree equals the left fold over any enumeration of its leaves -/
theorem agg_tree_eq_fold {β : Type} [AddCommSemigroup β] (t : AggTree) (sh : Nat → β) (i : Nat)
    (is : List Nat) (h : t.leaves.Perm (i :: is)) : t.eval (· + ·) sh = aggList (sh i) (is.map sh) :=
  AggTree.eval_eq_foldl t sh i is h

/-- **agg_perm for the validating `EvaluationKeyGenProtocol.AggregateShares`.**  On compatible
    degree-zero shares (same levels, same decomposition shape) every tree succeeds and any two trees
    over permuted leaves give the same share.  `recv` is the receiver handed to each call
    (`id` for `AggregateShares(a, b, &a)`, a fresh allocation otherwise). -/
theorem evk_agg_perm {α : Type} [AddCommSemigroup α] {lq : Nat} {lp : Int} {b2 : Nat} {shape : List Nat}
    (recv : GShare α → GShare α) (hrecv : ∀ s, Compat lq lp b2 shape s → Compat lq lp b2 shape (recv s))
    (sh : Nat → GShare α) (t₁ t₂ : AggTree) (hperm : t₁.leaves.Perm t₂.leaves)
    (hc : ∀ i ∈ t₁.leaves, Compat lq lp b2 shape (sh i)) :
    ∃ g₁ g₂, t₁.evalM (fun x y => evkAggregate x y (recv x)) sh = .ok g₁ ∧
             t₂.evalM (fun x y => evkAggregate x y (recv x)) sh = .ok g₂ ∧ g₁.val = g₂.val ∧
             g₁.levelQ = g₂.levelQ ∧ g₁.levelP = g₂.levelP :=
  Lattigo.MP.evk_agg_perm recv hrecv sh t₁ t₂ hperm hc

example : Compat (α := Int) 1 0 8 [1, 2] ⟨1, 0, 8, [[[5]], [[6], [7]]]⟩ :=
  ⟨rfl, rfl, rfl, by unfold Deg0; decide⟩

/-- the same for Galois shares with equal element tag -/
theorem gal_agg_perm {α : Type} [AddCommSemigroup α] {lq : Nat} {lp : Int} {b2 : Nat} {shape : List Nat} (g0 : Nat)
    (recv : GalShare α → GalShare α)
    (hrecv : ∀ s, Compat lq lp b2 shape s.sh → Compat lq lp b2 shape (recv s).sh)
    (sh : Nat → GalShare α) (t₁ t₂ : AggTree) (hperm : t₁.leaves.Perm t₂.leaves)
    (hc : ∀ i ∈ t₁.leaves, (sh i).galEl = g0 ∧ Compat lq lp b2 shape (sh i).sh) :
    ∃ g₁ g₂, t₁.evalM (fun x y => galAggregate x y (recv x)) sh = .ok g₁ ∧
             t₂.evalM (fun x y => galAggregate x y (recv x)) sh = .ok g₂ ∧
             g₁.galEl = g0 ∧ g₂.galEl = g0 ∧ g₁.sh.val = g₂.sh.val := by
  obtain ⟨g1, h1, e1, _, v1⟩ := gal_evalM_compat g0 recv hrecv sh t₁ hc
  obtain ⟨g2, h2, e2, _, v2⟩ := gal_evalM_compat g0 recv hrecv sh t₂
    (fun i hi => hc i (hperm.mem_iff.mpr hi))
  exact ⟨g1, g2, h1, h2, e1, e2, by rw [v1, v2, cube_eval_perm _ _ _ hperm]⟩

theorem rkg_eval_val {α : Type} [Add α] (t : AggTree) (sh : Nat → GShare α) :
    (t.eval rkgAggregate sh).val = t.eval cubeAdd (fun i => (sh i).val) := by
  induction t with
  | leaf i => rfl
  | node l r ihl ihr => simp [AggTree.eval, rkgAggregate, ihl, ihr]

/-- `RelinearizationKeyGenProtocol.AggregateShares` (both rounds): order independence -/
theorem rkg_agg_perm {α : Type} [AddCommSemigroup α] (t₁ t₂ : AggTree) (sh : Nat → GShare α)
    (h : t₁.leaves.Perm t₂.leaves) :
    (t₁.eval rkgAggregate sh).val = (t₂.eval rkgAggregate sh).val := by
  rw [rkg_eval_val, rkg_eval_val, cube_eval_perm _ _ _ h]

/-! ## 2. Collective public key -/

section ring
variable {α : Type} [CommRing α]

/-- **cpk_phase.** `phase(cpk, Σ s_i) = Σ e_i`, for the aggregate along any tree. -/
theorem cpk_phase (a : α) (s e : Nat → α) (t : AggTree) :
    phase (t.eval cpkAggregate fun i => cpkShare a (s i) (e i)) a (t.eval (· + ·) s) =
      t.eval (· + ·) e := by
  have h : ∀ t : AggTree, (t.eval cpkAggregate fun i => cpkShare a (s i) (e i)) =
      cpkShare a (t.eval (· + ·) s) (t.eval (· + ·) e) := by
    intro t
    induction t with
    | leaf i => rfl
    | node l r ihl ihr => simp only [AggTree.eval, cpkAggregate, ihl, ihr, cpkShare_add]
  rw [h, cpk_phase_single]

/-- **cpk = single-party key of the ideal secret.** `GenPublicKey` of the aggregate along any tree is
    exactly the single-party public key for secret `Σ s_i`, mask `a`, error `Σ e_i`. -/
theorem cpk_eq_single (a : α) (s e : Nat → α) (t : AggTree) :
    genPublicKey (t.eval cpkAggregate fun i => cpkShare a (s i) (e i)) a =
      pkOf a (t.eval (· + ·) s) (t.eval (· + ·) e) := by
  unfold genPublicKey pkOf
  congr 1
  induction t with
  | leaf i => rfl
  | node l r ihl ihr => simp only [AggTree.eval, cpkAggregate, ihl, ihr, cpkShare_add]

/-- the same with the left fold of the tests and `List.sum` -/
theorem cpk_fold_eq_single (a : α) (p : α × α) (ps : List (α × α)) :
    aggList (cpkShare a p.1 p.2) (ps.map fun q => cpkShare a q.1 q.2) =
      cpkShare a ((p :: ps).map Prod.fst).sum ((p :: ps).map Prod.snd).sum := by
  rw [cpk_fold, aggList_eq_sum, aggList_eq_sum]; rfl

/-! ## 3. Evaluation key -/

/-- **evk_row.** One row of a (share or aggregated) evaluation key: `phase = w·s_in + e`. -/
theorem evk_row (a w sOut e sIn : α) : phase (evkShareRow a sOut e w sIn) a sOut = w * sIn + e :=
  evk_row_phase a w sOut e sIn

/-- **evk = single-party key of the ideal secrets.**  Every party `i` (leaf of `t`) calls `GenShare`
    with `(sIn i, sOut i)` and its errors `e i` on the same CRP; the shares are aggregated along `t`.
    Then every call succeeds and the aggregate is EXACTLY what the single-party generator (the same
    function) writes for `(Σ sIn, Σ sOut, Σ e)`. -/
theorem evk_collective_eq_single (lvIn lvOut : Nat) (lvInP lvOutP : Int) (crp w : Mat α) (out : GShare α)
    (sIn sOut : Nat → α) (e : Nat → Mat α) (t : AggTree)
    (hl : out.levelQ ≤ min lvIn lvOut) (hlp : out.levelP ≤ min lvInP lvOutP)
    (hs : shapeOf out.val = shapeOf crp)
    (hw : shapeOf w = shapeOf crp) (he : ∀ i ∈ t.leaves, shapeOf (e i) = shapeOf crp)
    (recv : GShare α → GShare α)
    (hrecv : ∀ s, Compat out.levelQ out.levelP out.base2 (shapeOf crp) s →
      Compat out.levelQ out.levelP out.base2 (shapeOf crp) (recv s)) :
    ∃ shares : Nat → GShare α,
      (∀ i, evkGenShare lvIn lvOut lvInP lvOutP (sIn i) (sOut i) crp w (e i) out = .ok (shares i)) ∧
      ∃ g, t.evalM (fun x y => evkAggregate x y (recv x)) shares = .ok g ∧
        g.levelQ = out.levelQ ∧ g.levelP = out.levelP ∧
        evkGenShare lvIn lvOut lvInP lvOutP (t.eval (· + ·) sIn) (t.eval (· + ·) sOut) crp w
            (t.eval matAdd e) out
          = .ok { out with val := g.val } := by
  refine ⟨fun i => { out with val := evkVal (sIn i) (sOut i) crp w (e i) }, ?_, ?_⟩
  · intro i
    exact evkGenShare_ok lvIn lvOut lvInP lvOutP (sIn i) (sOut i) crp w (e i) out hl hlp hs
  · have hc : ∀ i ∈ t.leaves, Compat out.levelQ out.levelP out.base2 (shapeOf crp)
        ({ out with val := evkVal (sIn i) (sOut i) crp w (e i) } : GShare α) := by
      intro i hi
      exact ⟨rfl, rfl, rfl, deg0_evkVal (sIn i) (sOut i) (shapeOf crp) crp w (e i) rfl hw (he i hi)⟩
    obtain ⟨g, hg, cg, vg⟩ := evk_evalM_compat recv hrecv _ t hc
    refine ⟨g, hg, cg.hq, cg.hp, ?_⟩
    rw [evkGenShare_ok _ _ _ _ _ _ _ _ _ _ hl hlp hs, vg]
    have := evk_tree_val t sIn sOut e crp w
    rw [this]
    rfl

/-- non-vacuity: two parties, two RNS digits with 1 and 2 power-of-two digits -/
example := evk_collective_eq_single (α := Int) 1 1 0 0 [[2], [3, 4]] [[1], [5, 6]] ⟨1, 0, 8, [[[0]], [[0], [0]]]⟩
    (fun i => Int.ofNat i) (fun i => 2 * Int.ofNat i) (fun _ => [[1], [1, -1]]) (.node (.leaf 0) (.leaf 1))
    (by decide) (by decide) (by decide) (by decide) (fun _ _ => by decide) id (fun _ h => h)

/-- **final key.** For ANY decomposition shape (the number of power-of-two digits may differ from one
    RNS digit to the next) `GenEvaluationKey` copies every row: the key is `(share[i][j], crp[i][j])`
    everywhere, i.e. by `evk_collective_eq_single` and `evk_row` every row is a single-party row for
    the ideal secrets with error `Σ e_i`. -/
theorem evk_key_assembled {β : Type} (shape : List Nat) (share : GShare β) (crp : Mat β) (evk : GShare β)
    (hq : share.levelQ = evk.levelQ) (hp : share.levelP = evk.levelP)
    (hm : Deg0 shape share.val) (hc : shapeOf crp = shape)
    (hk : evk.val.map (fun row => row.map List.length) = shape.map fun k => List.replicate k 2) :
    genEvaluationKey share crp evk = .ok { evk with val := evkAssemble share.val crp } := by
  have h1 : shapeOf share.val = shape := deg0_shapeOf shape _ hm
  have h2 : shapeOf evk.val = shape := by
    have := congrArg (List.map List.length) hk
    simpa [shapeOf, Function.comp_def] using this
  simp [genEvaluationKey, hq, hp, h1, h2, hc, keyRows_ok shape share.val crp evk.val hm hc hk]

example : genEvaluationKey (α := Int) ⟨0, 0, 8, [[[1], [2]], [[3], [4]]]⟩ [[10, 20], [30, 40]]
    ⟨0, 0, 8, [[[0, 0], [0, 0]], [[0, 0], [0, 0]]]⟩ =
    .ok ⟨0, 0, 8, [[[1, 10], [2, 20]], [[3, 30], [4, 40]]]⟩ := by decide

/-- the two former witnesses of the `len(m[0])` defect (first row shortest: rows silently dropped;
    first row longest: panic) are now assembled completely -/
theorem genEvaluationKey_ragged_ok :
    genEvaluationKey (α := Int) ⟨1, 0, 16, [[[1]], [[2], [3]]]⟩ [[10], [20, 30]]
      ⟨1, 0, 16, [[[0, 0]], [[0, 0], [0, 0]]]⟩
      = .ok ⟨1, 0, 16, [[[1, 10]], [[2, 20], [3, 30]]]⟩
    ∧ genEvaluationKey (α := Int) ⟨1, 0, 16, [[[2], [3]], [[1]]]⟩ [[20, 30], [10]]
      ⟨1, 0, 16, [[[0, 0], [0, 0]], [[0, 0]]]⟩
      = .ok ⟨1, 0, 16, [[[2, 20], [3, 30]], [[1, 10]]]⟩ := by
  decide

/-- a share, CRP or key of another decomposition is rejected -/
theorem genEvaluationKey_decomposition_rejected {β : Type} (share : GShare β) (crp : Mat β) (evk : GShare β)
    (h : shapeOf share.val ≠ shapeOf crp ∨ shapeOf share.val ≠ shapeOf evk.val) :
    genEvaluationKey share crp evk = .err := by
  unfold genEvaluationKey
  split; · rfl
  split; · rfl
  rfl

/-! ## 4. Galois key -/

/-- `GaloisKeyGenProtocol.GenShare` is the evaluation-key share from `s` to `σ⁻¹(s)` tagged with the
    element, with or without auxiliary modulus. -/
theorem gal_share_eq_evk (sigInv : α → α) (skLvl bufLvl : Nat) (skLvlP bufLvlP : Int) (s : α) (galEl : Nat)
    (crp w e : Mat α) (out : GalShare α) :
    galGenShare sigInv skLvl bufLvl skLvlP bufLvlP s galEl crp w e out =
      (evkGenShare skLvl bufLvl skLvlP bufLvlP s (sigInv s) crp w e out.sh).bind fun sh => .ok ⟨galEl, sh⟩ :=
  rfl

/-- **Galois key = single-party key of the ideal secret.**  For a ring automorphism `σ⁻¹`
    (`X ↦ X^{g⁻¹}`), the aggregate of the parties' Galois shares is exactly the single-party share for
    `Σ s_i` (output secret `σ⁻¹(Σ s_i)`), tagged with `g` — for every `LevelP ≥ −1`. -/
theorem gal_collective_eq_single (sigInv : α →+* α) (skLvl bufLvl : Nat) (skLvlP bufLvlP : Int)
    (galEl : Nat) (crp w : Mat α)
    (out : GalShare α) (s : Nat → α) (e : Nat → Mat α) (t : AggTree)
    (hl : out.sh.levelQ ≤ min skLvl bufLvl) (hlp : out.sh.levelP ≤ min skLvlP bufLvlP)
    (hs : shapeOf out.sh.val = shapeOf crp)
    (hw : shapeOf w = shapeOf crp) (he : ∀ i ∈ t.leaves, shapeOf (e i) = shapeOf crp) :
    ∃ shares : Nat → GalShare α,
      (∀ i, galGenShare sigInv skLvl bufLvl skLvlP bufLvlP (s i) galEl crp w (e i) out = .ok (shares i)) ∧
      ∃ g, t.evalM (fun x y => galAggregate x y x) shares = .ok g ∧ g.galEl = galEl ∧
        galGenShare sigInv skLvl bufLvl skLvlP bufLvlP (t.eval (· + ·) s) galEl crp w (t.eval matAdd e) out
          = .ok ⟨galEl, { out.sh with val := g.sh.val }⟩ := by
  refine ⟨fun i => ⟨galEl, { out.sh with val := evkVal (s i) (sigInv (s i)) crp w (e i) }⟩, ?_, ?_⟩
  · intro i
    rw [gal_share_eq_evk, evkGenShare_ok _ _ _ _ _ _ _ _ _ _ hl hlp hs]
    rfl
  · have hc : ∀ i ∈ t.leaves,
        (⟨galEl, { out.sh with val := evkVal (s i) (sigInv (s i)) crp w (e i) }⟩ : GalShare α).galEl = galEl ∧
        Compat out.sh.levelQ out.sh.levelP out.sh.base2 (shapeOf crp)
          ({ out.sh with val := evkVal (s i) (sigInv (s i)) crp w (e i) } : GShare α) := by
      intro i hi
      exact ⟨rfl, rfl, rfl, rfl, deg0_evkVal (s i) (sigInv (s i)) (shapeOf crp) crp w (e i) rfl hw (he i hi)⟩
    obtain ⟨g, hg, tg, _, vg⟩ := gal_evalM_compat galEl (fun x => x) (fun _ h => h) _ t hc
    refine ⟨g, hg, tg, ?_⟩
    rw [gal_share_eq_evk, evkGenShare_ok _ _ _ _ _ _ _ _ _ _ hl hlp hs, vg]
    have h1 := evk_tree_val t s (fun i => sigInv (s i)) e crp w
    rw [tree_map_add sigInv t s] at h1
    rw [h1]
    rfl

/-- non-vacuity without auxiliary modulus (`LevelP = −1`; formerly a panic): the share is produced -/
theorem gal_noP_ok :
    (galGenShare (α := Int) (fun x => -x) 1 1 (-1) (-1) 3 5 [[2], [7]] [[1], [1]] [[1], [-1]]
      ⟨0, ⟨1, -1, 0, [[[0]], [[0]]]⟩⟩).isOk = true := by decide

/-! ## 5. Relinearisation key -/

/-- round one: the aggregate (any tree) is the round-one share of `(Σ s_i, Σ u_i, Σ e0_i, Σ e1_i)` -/
theorem rkg_round_one_collective (crp w : Mat α) (out : GShare α) (s u : Nat → α)
    (e : Nat → Mat (α × α)) (t : AggTree) :
    (t.eval rkgAggregate fun i => rkgRoundOne (s i) (u i) crp w (e i) out).val =
      (rkgRoundOne (t.eval (· + ·) s) (t.eval (· + ·) u) crp w
        (t.eval (List.zipWith (List.zipWith pairAdd)) e) out).val := by
  rw [rkg_eval_val]
  exact rkg1_tree_val t s u e crp w

/-- round two (from the same aggregated round-one share): the aggregate is the round-two share of
    `(Σ s_i, Σ u_i, Σ e2_i)` -/
theorem rkg_round_two_collective (round1 out : GShare α) (s u : Nat → α) (e2 : Nat → Mat α)
    (t : AggTree) :
    (t.eval rkgAggregate fun i => rkgRoundTwo (s i) (u i) round1 (e2 i) out).val =
      (rkgRoundTwo (t.eval (· + ·) s) (t.eval (· + ·) u) round1 (t.eval matAdd e2) out).val := by
  rw [rkg_eval_val]
  exact rkg2_tree_val t s u e2 round1.val

/-- **rkg_row.** After round two, the key row assembled by `GenRelinearizationKey` from the aggregated
    shares encrypts `w·s²` under `s = Σ s_i`, with the exact error `s·E0 + u·E1 + E2`
    (`u = Σ u_i` the ideal ephemeral secret, `E0, E1, E2` the summed errors of the three draws). -/
theorem rkg_row (a w s u E0 E1 E2 : α) :
    ∃ b c, rkgKeyEntry (rkgRoundTwoEntry s u (rkgRoundOneRow a s u E0 E1 w) E2)
             (rkgRoundOneRow a s u E0 E1 w) = [b, c] ∧
           phase b c s = w * (s * s) + (s * E0 + u * E1 + E2) :=
  ⟨_, _, rfl, rkg_row_phase a w s u E0 E1 E2⟩

/-! ## 6. Mismatched shares -/

/-- **mismatch_rejected (Galois element).** -/
theorem mismatch_rejected_galEl {β : Type} [Add β] (s1 s2 s3 : GalShare β) (h : s1.galEl ≠ s2.galEl) :
    galAggregate s1 s2 s3 = .err := by
  simp [galAggregate, h]

example : (⟨5, ⟨0, 0, 0, []⟩⟩ : GalShare Int).galEl ≠ (⟨25, ⟨0, 0, 0, []⟩⟩ : GalShare Int).galEl := by
  decide

/-- **mismatch_rejected (levels).** -/
theorem mismatch_rejected_levelQ {β : Type} [Add β] (s1 s2 s3 : GShare β)
    (h : s1.levelQ ≠ s2.levelQ ∨ s1.levelQ ≠ s3.levelQ) : evkAggregate s1 s2 s3 = .err := by
  simp [evkAggregate, h]

theorem mismatch_rejected_levelP {β : Type} [Add β] (s1 s2 s3 : GShare β)
    (h : s1.levelP ≠ s2.levelP ∨ s1.levelP ≠ s3.levelP) : evkAggregate s1 s2 s3 = .err := by
  unfold evkAggregate
  split
  · rfl
  · rfl

/-- **mismatch_rejected (decomposition).** Shares of different decompositions (different
    `BaseTwoDecomposition` or different numbers of digits) are rejected by `AggregateShares`. -/
theorem mismatch_rejected_decomposition {β : Type} [Add β] (s1 s2 s3 : GShare β)
    (h : s1.base2 ≠ s2.base2 ∨ shapeOf s1.val ≠ shapeOf s2.val ∨ shapeOf s1.val ≠ shapeOf s3.val) :
    evkAggregate s1 s2 s3 = .err := by
  unfold evkAggregate
  split; · rfl
  split; · rfl
  rfl

/-- the two former witnesses (`BaseTwoDecomposition` 16 + 8: silently combined; 8 + 16: panic) -/
example : evkAggregate (α := Int) ⟨0, 0, 16, [[[1], [2]]]⟩ ⟨0, 0, 8, [[[1], [2], [3], [4]]]⟩
    ⟨0, 0, 16, [[[0], [0]]]⟩ = .err ∧
  evkAggregate (α := Int) ⟨0, 0, 8, [[[1], [2], [3], [4]]]⟩ ⟨0, 0, 16, [[[1], [2]]]⟩
    ⟨0, 0, 8, [[[0], [0], [0], [0]]]⟩ = .err := by decide

/-- `GenShare` rejects a CRP sampled for another decomposition, a share above the keys' `LevelQ` and a
    share above the keys' `LevelP` -/
theorem mismatch_rejected_crp (lvIn lvOut : Nat) (lpIn lpOut : Int) (sIn sOut : α) (crp w e : Mat α)
    (out : GShare α) (h : shapeOf out.val ≠ shapeOf crp) :
    evkGenShare lvIn lvOut lpIn lpOut sIn sOut crp w e out = .err := by
  unfold evkGenShare
  split; · rfl
  split; · rfl
  split; · rfl
  rfl

theorem mismatch_rejected_sk_level (lvIn lvOut : Nat) (lpIn lpOut : Int) (sIn sOut : α) (crp w e : Mat α)
    (out : GShare α) (h : out.levelQ > min lvIn lvOut) :
    evkGenShare lvIn lvOut lpIn lpOut sIn sOut crp w e out = .err := by
  simp [evkGenShare, h]

theorem mismatch_rejected_sk_levelP (lvIn lvOut : Nat) (lpIn lpOut : Int) (sIn sOut : α) (crp w e : Mat α)
    (out : GShare α) (h : out.levelP > min lpIn lpOut) :
    evkGenShare lvIn lvOut lpIn lpOut sIn sOut crp w e out = .err := by
  unfold evkGenShare
  split; · rfl
  rfl

example : (⟨1, 0, 0, []⟩ : GShare Int).levelP > min (0 : Int) (-1) := by decide

end ring

/-! ## 7. CRS determinism -/

/-- **crs_determinism.** The reference polynomials are a function of the CRS bytes, the CRS position
    and the sequence of requests only (`sampleCRP` takes no party-private sampler state: every call
    starts from fresh buffers); hence two parties holding the same CRS and performing the same
    sequence of calls obtain identical polynomials and stay synchronised.  (The content of this
    statement is in the definition of `runCRS`, tied bit-exactly to the Go samplers by the `crs` lines.) -/
theorem crs_determinism (reqs : List CRPRequest) (st₁ st₂ : CRSState)
    (hb : st₁.bytes = st₂.bytes) (hp : st₁.pos = st₂.pos) :
    (runCRS reqs st₁).map (·.1) = (runCRS reqs st₂).map (·.1) ∧
    (runCRS reqs st₁).map (·.2.pos) = (runCRS reqs st₂).map (·.2.pos) := by
  cases st₁; cases st₂; simp_all

example : (runCRS [⟨[97], [], 2, 1⟩] ⟨Array.replicate 1024 7, 0⟩).map (·.1) = some [[[[7, 7]]]] := by
  decide +kernel

end Lattigo.Props.C14

open Lattigo.Props.C14 in
#print axioms agg_perm
#print axioms Lattigo.Props.C14.agg_fold_perm
#print axioms Lattigo.Props.C14.agg_tree_eq_fold
#print axioms Lattigo.Props.C14.evk_agg_perm
#print axioms Lattigo.Props.C14.gal_agg_perm
#print axioms Lattigo.Props.C14.rkg_agg_perm
#print axioms Lattigo.Props.C14.cpk_phase
#print axioms Lattigo.Props.C14.cpk_eq_single
#print axioms Lattigo.Props.C14.cpk_fold_eq_single
#print axioms Lattigo.Props.C14.evk_row
#print axioms Lattigo.Props.C14.evk_collective_eq_single
#print axioms Lattigo.Props.C14.evk_key_assembled
#print axioms Lattigo.Props.C14.genEvaluationKey_ragged_ok
#print axioms Lattigo.Props.C14.genEvaluationKey_decomposition_rejected
#print axioms Lattigo.Props.C14.gal_share_eq_evk
#print axioms Lattigo.Props.C14.gal_collective_eq_single
#print axioms Lattigo.Props.C14.gal_noP_ok
#print axioms Lattigo.Props.C14.rkg_round_one_collective
#print axioms Lattigo.Props.C14.rkg_round_two_collective
#print axioms Lattigo.Props.C14.rkg_row
#print axioms Lattigo.Props.C14.mismatch_rejected_galEl
#print axioms Lattigo.Props.C14.mismatch_rejected_levelQ
#print axioms Lattigo.Props.C14.mismatch_rejected_levelP
#print axioms Lattigo.Props.C14.mismatch_rejected_crp
#print axioms Lattigo.Props.C14.mismatch_rejected_sk_level
#print axioms Lattigo.Props.C14.mismatch_rejected_decomposition
#print axioms Lattigo.Props.C14.mismatch_rejected_sk_levelP
#print axioms Lattigo.Props.C14.crs_determinism
