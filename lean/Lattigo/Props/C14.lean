/-
  C14 — collective keys are keys of the ideal secret, whatever the share order.

  All theorems are about the definitions of `Lattigo/Model/MPShare.lean` (the ones the driver executes on `RPoly`).
  Parties are the leaves of the aggregation tree `t`; `t.eval (· + ·) s` is the ideal secret `Σ s_i` (the same for
  any tree, by `agg_perm`).

  PROVED FOR ALL INPUTS
    * generic carrier (every commutative ring, resp. additive commutative semigroup): `agg_perm`, `agg_fold_perm`,
      `agg_tree_eq_fold`, `evk_agg_perm`, `gal_agg_perm`, `rkg_agg_perm`; `cpk_phase`, `cpk_eq_single`;
      `evk_row`, `evk_collective_eq_single`, `evk_key_assembled` (any decomposition shape);
      `gal_collective_eq_single`; `rkg_round_one_collective`, `rkg_round_two_collective`, `rkg_row`
      (exact error `s·E0 + u·E1 + E2`); `mismatch_rejected_*` (Galois element, LevelQ, LevelP, decomposition,
      CRP shape, key levels), `genEvaluationKey_decomposition_rejected`.
    * on `RPoly` with well-formed inputs (`Props/C14Ring.lean`, through the commutative ring `WFPoly qs n`):
      `agg_perm_rpoly`, `cpk_*_rpoly`, `evk_*_rpoly`, `gal_collective_eq_single_rpoly`, `rkg_row_rpoly`, and here
      `rkg_round_one_collective_rpoly`, `rkg_round_two_collective_rpoly` (§8).
    * noise SIZE over `Z[X]/(X^N+1)` (`Props/C14Noise.lean`): `cpk_noise_bound`, `cpk_enc_noise_bound(_P)`,
      `collective_keyswitch_noise_bound`, `collective_le_n_times_single` (public, evaluation and Galois keys:
      ≤ N × the single-party bound), `rkg_noise_bound`, `collective_relin_noise_bound`.
      The clause "noise below N times the single-party bound" is FALSE in the worst case for the
      relinearisation key: `rkg_noise_quadratic_witness` (the ℓ∞ bound `n·B·(n·h + n·h_u + 1)` is attained up to
      constants; it is quadratic in the number of parties — linear only in standard deviations).
    * the CRS at the byte level (§7): `crp_reduced`, `crp_is_stream_words`, `crs_determinism` — the reference
      polynomials are the C17 uniform-sampler model on fresh buffers applied to the bytes of the keyed generator
      (C17 `uniform_range`, `uniform_consumes`, `prng_reads_are_one_stream`, `prng_key_replays`).
    * serialization (§9): `agg_serialization_independent` (C08 `roundtrip` on the share formats).
  TIED ONLY (model = implementation on the explored inputs): the RNS layout of the gadget constants (`gadgetW`),
  the Montgomery/NTT conventions undone by `Canon`, the conjugate-invariant unfolding, the twin replay of the
  samplers (errors, secrets are INPUTS of the model).
  PROBED ONLY: functional use of the final keys by the single-party Encryptor / Evaluator
  (`collective_key_works`, against bounds that dominate the C14Noise theorems), `key_survives_share_reuse`,
  `refused_call_keeps_receiver`, `agg_order_indep` on the real objects.
  NOT COVERED: that the gadget constants `w_ij` are the ones the single-party key switching expects (C04);
  distribution of the CRS beyond "a function of the XOF bytes" (the XOF is an arbitrary function in C17).

  Defects found through this property and repaired in /repo (fixes/C14-*.diff); the model follows the repaired code:
    * GenEvaluationKey/GenGaloisKey copied `len(m[0])` digits per row   → `evk_key_assembled`, `genEvaluationKey_ragged_ok`
    * AggregateShares did not compare the decompositions               → `mismatch_rejected_decomposition`
    * GaloisKeyGenProtocol.GenShare panicked without auxiliary modulus  → `gal_noP_ok`
    * GenShare's LevelP test compared the share with itself             → `mismatch_rejected_sk_levelP`
    * Galois GenShare/AggregateShares tagged the receiver before a refusal (C14-5, probe refused_call_keeps_receiver)
  Recorded, not repaired (needs an API change): `RelinearizationKeyGenProtocol.AggregateShares` has no
  validation and no error result (probe `mismatch_rejected kind=rkg_levelQ*`, key C14-rkg-agg-unchecked).
-/
import Lattigo.Proofs.MPKeys
import Lattigo.Props.C14Ring
import Lattigo.Props.C14Noise
import Lattigo.Props.C17
import Lattigo.Props.C08

namespace Lattigo.Props.C14
open Lattigo.MP

/-! ## 1. Aggregation: any permutation, any grouping -/

/-- **agg_perm.** In a commutative additive semigroup the aggregate along any two trees whose leaves
    are permutations of each other is the same. -/
theorem agg_perm {β : Type} [AddCommSemigroup β] (t₁ t₂ : AggTree) (sh : Nat → β)
    (h : t₁.leaves.Perm t₂.leaves) : t₁.eval (· + ·) sh = t₂.eval (· + ·) sh :=
  AggTree.eval_perm t₁ t₂ sh h

example : (AggTree.node (.node (.leaf 2) (.leaf 0)) (.leaf 1)).leaves.Perm
    (AggTree.node (.leaf 0) (.node (.leaf 1) (.leaf 2))).leaves := by decide

/-- the left fold (`aggList`, how the library's tests aggregate) over any two orderings agrees -/
theorem agg_fold_perm {β : Type} [AddCommSemigroup β] (x y : β) (xs ys : List β)
    (h : (x :: xs).Perm (y :: ys)) : aggList x xs = aggList y ys :=
  foldl_perm x y xs ys h

/-- every tree equals the left fold over any enumeration of its leaves -/
theorem agg_tree_eq_fold {β : Type} [AddCommSemigroup β] (t : AggTree) (sh : Nat → β) (i : Nat)
    (is : List Nat) (h : t.leaves.Perm (i :: is)) : t.eval (· + ·) sh = aggList (sh i) (is.map sh) :=
  AggTree.eval_eq_foldl t sh i is h

/-- **agg_perm for the validating `EvaluationKeyGenProtocol.AggregateShares`.**  On compatible
    degree-zero shares (same levels, same decomposition shape) every tree succeeds and any two trees
    over permuted leaves give the same share.  `recv` is the receiver handed to each call
    (`id` for `AggregateShares(a, b, &a)`, a fresh allocation otherwise). -/
theorem evk_agg_perm {α : Type} [AddCommSemigroup α] {lq : Nat} {lp : Int} {b2 : Nat} {shape : List Nat}
    (recv : GShare α → GShare α) (hrecv : ∀ s, Compat lq lp b2 shape s → Compat lq lp b2 shape (recv s))
    (sh : Nat → GShare α) (t₁ t₂ : AggTree) (hperm : t₁.leaves.Perm t₂.leaves)
    (hc : ∀ i ∈ t₁.leaves, Compat lq lp b2 shape (sh i)) :
    ∃ g₁ g₂, t₁.evalM (fun x y => evkAggregate x y (recv x)) sh = .ok g₁ ∧
             t₂.evalM (fun x y => evkAggregate x y (recv x)) sh = .ok g₂ ∧ g₁.val = g₂.val ∧
             g₁.levelQ = g₂.levelQ ∧ g₁.levelP = g₂.levelP :=
  Lattigo.MP.evk_agg_perm recv hrecv sh t₁ t₂ hperm hc

example : Compat (α := Int) 1 0 8 [1, 2] ⟨1, 0, 8, [[[5]], [[6], [7]]]⟩ :=
  ⟨rfl, rfl, rfl, by unfold Deg0; decide⟩

/-- the same for Galois shares with equal element tag -/
theorem gal_agg_perm {α : Type} [AddCommSemigroup α] {lq : Nat} {lp : Int} {b2 : Nat} {shape : List Nat} (g0 : Nat)
    (recv : GalShare α → GalShare α)
    (hrecv : ∀ s, Compat lq lp b2 shape s.sh → Compat lq lp b2 shape (recv s).sh)
    (sh : Nat → GalShare α) (t₁ t₂ : AggTree) (hperm : t₁.leaves.Perm t₂.leaves)
    (hc : ∀ i ∈ t₁.leaves, (sh i).galEl = g0 ∧ Compat lq lp b2 shape (sh i).sh) :
    ∃ g₁ g₂, t₁.evalM (fun x y => galAggregate x y (recv x)) sh = .ok g₁ ∧
             t₂.evalM (fun x y => galAggregate x y (recv x)) sh = .ok g₂ ∧
             g₁.galEl = g0 ∧ g₂.galEl = g0 ∧ g₁.sh.val = g₂.sh.val := by
  obtain ⟨g1, h1, e1, _, v1⟩ := gal_evalM_compat g0 recv hrecv sh t₁ hc
  obtain ⟨g2, h2, e2, _, v2⟩ := gal_evalM_compat g0 recv hrecv sh t₂
    (fun i hi => hc i (hperm.mem_iff.mpr hi))
  exact ⟨g1, g2, h1, h2, e1, e2, by rw [v1, v2, cube_eval_perm _ _ _ hperm]⟩

theorem rkg_eval_val {α : Type} [Add α] (t : AggTree) (sh : Nat → GShare α) :
    (t.eval rkgAggregate sh).val = t.eval cubeAdd (fun i => (sh i).val) := by
  induction t with
  | leaf i => rfl
  | node l r ihl ihr => simp [AggTree.eval, rkgAggregate, ihl, ihr]

/-- `RelinearizationKeyGenProtocol.AggregateShares` (both rounds): order independence -/
theorem rkg_agg_perm {α : Type} [AddCommSemigroup α] (t₁ t₂ : AggTree) (sh : Nat → GShare α)
    (h : t₁.leaves.Perm t₂.leaves) :
    (t₁.eval rkgAggregate sh).val = (t₂.eval rkgAggregate sh).val := by
  rw [rkg_eval_val, rkg_eval_val, cube_eval_perm _ _ _ h]

/-! ## 2. Collective public key -/

section ring
variable {α : Type} [CommRing α]

/-- **cpk_phase.** `phase(cpk, Σ s_i) = Σ e_i`, for the aggregate along any tree. -/
theorem cpk_phase (a : α) (s e : Nat → α) (t : AggTree) :
    phase (t.eval cpkAggregate fun i => cpkShare a (s i) (e i)) a (t.eval (· + ·) s) =
      t.eval (· + ·) e := by
  have h : ∀ t : AggTree, (t.eval cpkAggregate fun i => cpkShare a (s i) (e i)) =
      cpkShare a (t.eval (· + ·) s) (t.eval (· + ·) e) := by
    intro t
    induction t with
    | leaf i => rfl
    | node l r ihl ihr => simp only [AggTree.eval, cpkAggregate, ihl, ihr, cpkShare_add]
  rw [h, cpk_phase_single]

/-- **cpk = single-party key of the ideal secret.** `GenPublicKey` of the aggregate along any tree is
    exactly the single-party public key for secret `Σ s_i`, mask `a`, error `Σ e_i`. -/
theorem cpk_eq_single (a : α) (s e : Nat → α) (t : AggTree) :
    genPublicKey (t.eval cpkAggregate fun i => cpkShare a (s i) (e i)) a =
      pkOf a (t.eval (· + ·) s) (t.eval (· + ·) e) := by
  unfold genPublicKey pkOf
  congr 1
  induction t with
  | leaf i => rfl
  | node l r ihl ihr => simp only [AggTree.eval, cpkAggregate, ihl, ihr, cpkShare_add]

/-- the same with the left fold of the tests and `List.sum` -/
theorem cpk_fold_eq_single (a : α) (p : α × α) (ps : List (α × α)) :
    aggList (cpkShare a p.1 p.2) (ps.map fun q => cpkShare a q.1 q.2) =
      cpkShare a ((p :: ps).map Prod.fst).sum ((p :: ps).map Prod.snd).sum := by
  rw [cpk_fold, aggList_eq_sum, aggList_eq_sum]; rfl

/-! ## 3. Evaluation key -/

/-- **evk_row.** One row of a (share or aggregated) evaluation key: `phase = w·s_in + e`. -/
theorem evk_row (a w sOut e sIn : α) : phase (evkShareRow a sOut e w sIn) a sOut = w * sIn + e :=
  evk_row_phase a w sOut e sIn

/-- **evk = single-party key of the ideal secrets.**  Every party `i` (leaf of `t`) calls `GenShare`
    with `(sIn i, sOut i)` and its errors `e i` on the same CRP; the shares are aggregated along `t`.
    Then every call succeeds and the aggregate is EXACTLY what the single-party generator (the same
    function) writes for `(Σ sIn, Σ sOut, Σ e)`. -/
theorem evk_collective_eq_single (lvIn lvOut : Nat) (lvInP lvOutP : Int) (crp w : Mat α) (out : GShare α)
    (sIn sOut : Nat → α) (e : Nat → Mat α) (t : AggTree)
    (hl : out.levelQ ≤ min lvIn lvOut) (hlp : out.levelP ≤ min lvInP lvOutP)
    (hs : shapeOf out.val = shapeOf crp)
    (hw : shapeOf w = shapeOf crp) (he : ∀ i ∈ t.leaves, shapeOf (e i) = shapeOf crp)
    (recv : GShare α → GShare α)
    (hrecv : ∀ s, Compat out.levelQ out.levelP out.base2 (shapeOf crp) s →
      Compat out.levelQ out.levelP out.base2 (shapeOf crp) (recv s)) :
    ∃ shares : Nat → GShare α,
      (∀ i, evkGenShare lvIn lvOut lvInP lvOutP (sIn i) (sOut i) crp w (e i) out = .ok (shares i)) ∧
      ∃ g, t.evalM (fun x y => evkAggregate x y (recv x)) shares = .ok g ∧
        g.levelQ = out.levelQ ∧ g.levelP = out.levelP ∧
        evkGenShare lvIn lvOut lvInP lvOutP (t.eval (· + ·) sIn) (t.eval (· + ·) sOut) crp w
            (t.eval matAdd e) out
          = .ok { out with val := g.val } := by
  refine ⟨fun i => { out with val := evkVal (sIn i) (sOut i) crp w (e i) }, ?_, ?_⟩
  · intro i
    exact evkGenShare_ok lvIn lvOut lvInP lvOutP (sIn i) (sOut i) crp w (e i) out hl hlp hs
  · have hc : ∀ i ∈ t.leaves, Compat out.levelQ out.levelP out.base2 (shapeOf crp)
        ({ out with val := evkVal (sIn i) (sOut i) crp w (e i) } : GShare α) := by
      intro i hi
      exact ⟨rfl, rfl, rfl, deg0_evkVal (sIn i) (sOut i) (shapeOf crp) crp w (e i) rfl hw (he i hi)⟩
    obtain ⟨g, hg, cg, vg⟩ := evk_evalM_compat recv hrecv _ t hc
    refine ⟨g, hg, cg.hq, cg.hp, ?_⟩
    rw [evkGenShare_ok _ _ _ _ _ _ _ _ _ _ hl hlp hs, vg]
    have := evk_tree_val t sIn sOut e crp w
    rw [this]
    rfl

/-- non-vacuity: two parties, two RNS digits with 1 and 2 power-of-two digits -/
example := evk_collective_eq_single (α := Int) 1 1 0 0 [[2], [3, 4]] [[1], [5, 6]] ⟨1, 0, 8, [[[0]], [[0], [0]]]⟩
    (fun i => Int.ofNat i) (fun i => 2 * Int.ofNat i) (fun _ => [[1], [1, -1]]) (.node (.leaf 0) (.leaf 1))
    (by decide) (by decide) (by decide) (by decide) (fun _ _ => by decide) id (fun _ h => h)

/-- **final key.** For ANY decomposition shape (the number of power-of-two digits may differ from one
    RNS digit to the next) `GenEvaluationKey` copies every row: the key is `(share[i][j], crp[i][j])`
    everywhere, i.e. by `evk_collective_eq_single` and `evk_row` every row is a single-party row for
    the ideal secrets with error `Σ e_i`. -/
theorem evk_key_assembled {β : Type} (shape : List Nat) (share : GShare β) (crp : Mat β) (evk : GShare β)
    (hq : share.levelQ = evk.levelQ) (hp : share.levelP = evk.levelP)
    (hm : Deg0 shape share.val) (hc : shapeOf crp = shape)
    (hk : evk.val.map (fun row => row.map List.length) = shape.map fun k => List.replicate k 2) :
    genEvaluationKey share crp evk = .ok { evk with val := evkAssemble share.val crp } := by
  have h1 : shapeOf share.val = shape := deg0_shapeOf shape _ hm
  have h2 : shapeOf evk.val = shape := by
    have := congrArg (List.map List.length) hk
    simpa [shapeOf, Function.comp_def] using this
  simp [genEvaluationKey, hq, hp, h1, h2, hc, keyRows_ok shape share.val crp evk.val hm hc hk]

example : genEvaluationKey (α := Int) ⟨0, 0, 8, [[[1], [2]], [[3], [4]]]⟩ [[10, 20], [30, 40]]
    ⟨0, 0, 8, [[[0, 0], [0, 0]], [[0, 0], [0, 0]]]⟩ =
    .ok ⟨0, 0, 8, [[[1, 10], [2, 20]], [[3, 30], [4, 40]]]⟩ := by decide

/-- the two former witnesses of the `len(m[0])` defect (first row shortest: rows silently dropped;
    first row longest: panic) are now assembled completely -/
theorem genEvaluationKey_ragged_ok :
    genEvaluationKey (α := Int) ⟨1, 0, 16, [[[1]], [[2], [3]]]⟩ [[10], [20, 30]]
      ⟨1, 0, 16, [[[0, 0]], [[0, 0], [0, 0]]]⟩
      = .ok ⟨1, 0, 16, [[[1, 10]], [[2, 20], [3, 30]]]⟩
    ∧ genEvaluationKey (α := Int) ⟨1, 0, 16, [[[2], [3]], [[1]]]⟩ [[20, 30], [10]]
      ⟨1, 0, 16, [[[0, 0], [0, 0]], [[0, 0]]]⟩
      = .ok ⟨1, 0, 16, [[[2, 20], [3, 30]], [[1, 10]]]⟩ := by
  decide

/-- a share, CRP or key of another decomposition is rejected -/
theorem genEvaluationKey_decomposition_rejected {β : Type} (share : GShare β) (crp : Mat β) (evk : GShare β)
    (h : shapeOf share.val ≠ shapeOf crp ∨ shapeOf share.val ≠ shapeOf evk.val) :
    genEvaluationKey share crp evk = .err := by
  unfold genEvaluationKey
  split; · rfl
  split; · rfl
  rfl

/-! ## 4. Galois key -/

/-- `GaloisKeyGenProtocol.GenShare` is the evaluation-key share from `s` to `σ⁻¹(s)` tagged with the
    element, with or without auxiliary modulus. -/
theorem gal_share_eq_evk (sigInv : α → α) (skLvl bufLvl : Nat) (skLvlP bufLvlP : Int) (s : α) (galEl : Nat)
    (crp w e : Mat α) (out : GalShare α) :
    galGenShare sigInv skLvl bufLvl skLvlP bufLvlP s galEl crp w e out =
      (evkGenShare skLvl bufLvl skLvlP bufLvlP s (sigInv s) crp w e out.sh).bind fun sh => .ok ⟨galEl, sh⟩ :=
  rfl

/-- **Galois key = single-party key of the ideal secret.**  For a ring automorphism `σ⁻¹`
    (`X ↦ X^{g⁻¹}`), the aggregate of the parties' Galois shares is exactly the single-party share for
    `Σ s_i` (output secret `σ⁻¹(Σ s_i)`), tagged with `g` — for every `LevelP ≥ −1`. -/
theorem gal_collective_eq_single (sigInv : α →+* α) (skLvl bufLvl : Nat) (skLvlP bufLvlP : Int)
    (galEl : Nat) (crp w : Mat α)
    (out : GalShare α) (s : Nat → α) (e : Nat → Mat α) (t : AggTree)
    (hl : out.sh.levelQ ≤ min skLvl bufLvl) (hlp : out.sh.levelP ≤ min skLvlP bufLvlP)
    (hs : shapeOf out.sh.val = shapeOf crp)
    (hw : shapeOf w = shapeOf crp) (he : ∀ i ∈ t.leaves, shapeOf (e i) = shapeOf crp) :
    ∃ shares : Nat → GalShare α,
      (∀ i, galGenShare sigInv skLvl bufLvl skLvlP bufLvlP (s i) galEl crp w (e i) out = .ok (shares i)) ∧
      ∃ g, t.evalM (fun x y => galAggregate x y x) shares = .ok g ∧ g.galEl = galEl ∧
        galGenShare sigInv skLvl bufLvl skLvlP bufLvlP (t.eval (· + ·) s) galEl crp w (t.eval matAdd e) out
          = .ok ⟨galEl, { out.sh with val := g.sh.val }⟩ := by
  refine ⟨fun i => ⟨galEl, { out.sh with val := evkVal (s i) (sigInv (s i)) crp w (e i) }⟩, ?_, ?_⟩
  · intro i
    rw [gal_share_eq_evk, evkGenShare_ok _ _ _ _ _ _ _ _ _ _ hl hlp hs]
    rfl
  · have hc : ∀ i ∈ t.leaves,
        (⟨galEl, { out.sh with val := evkVal (s i) (sigInv (s i)) crp w (e i) }⟩ : GalShare α).galEl = galEl ∧
        Compat out.sh.levelQ out.sh.levelP out.sh.base2 (shapeOf crp)
          ({ out.sh with val := evkVal (s i) (sigInv (s i)) crp w (e i) } : GShare α) := by
      intro i hi
      exact ⟨rfl, rfl, rfl, rfl, deg0_evkVal (s i) (sigInv (s i)) (shapeOf crp) crp w (e i) rfl hw (he i hi)⟩
    obtain ⟨g, hg, tg, _, vg⟩ := gal_evalM_compat galEl (fun x => x) (fun _ h => h) _ t hc
    refine ⟨g, hg, tg, ?_⟩
    rw [gal_share_eq_evk, evkGenShare_ok _ _ _ _ _ _ _ _ _ _ hl hlp hs, vg]
    have h1 := evk_tree_val t s (fun i => sigInv (s i)) e crp w
    rw [tree_map_add sigInv t s] at h1
    rw [h1]
    rfl

/-- non-vacuity without auxiliary modulus (`LevelP = −1`; formerly a panic): the share is produced -/
theorem gal_noP_ok :
    (galGenShare (α := Int) (fun x => -x) 1 1 (-1) (-1) 3 5 [[2], [7]] [[1], [1]] [[1], [-1]]
      ⟨0, ⟨1, -1, 0, [[[0]], [[0]]]⟩⟩).isOk = true := by decide

/-! ## 5. Relinearisation key -/

/-- round one: the aggregate (any tree) is the round-one share of `(Σ s_i, Σ u_i, Σ e0_i, Σ e1_i)` -/
theorem rkg_round_one_collective (crp w : Mat α) (out : GShare α) (s u : Nat → α)
    (e : Nat → Mat (α × α)) (t : AggTree) :
    (t.eval rkgAggregate fun i => rkgRoundOne (s i) (u i) crp w (e i) out).val =
      (rkgRoundOne (t.eval (· + ·) s) (t.eval (· + ·) u) crp w
        (t.eval (List.zipWith (List.zipWith pairAdd)) e) out).val := by
  rw [rkg_eval_val]
  exact rkg1_tree_val t s u e crp w

/-- round two (from the same aggregated round-one share): the aggregate is the round-two share of
    `(Σ s_i, Σ u_i, Σ e2_i)` -/
theorem rkg_round_two_collective (round1 out : GShare α) (s u : Nat → α) (e2 : Nat → Mat α)
    (t : AggTree) :
    (t.eval rkgAggregate fun i => rkgRoundTwo (s i) (u i) round1 (e2 i) out).val =
      (rkgRoundTwo (t.eval (· + ·) s) (t.eval (· + ·) u) round1 (t.eval matAdd e2) out).val := by
  rw [rkg_eval_val]
  exact rkg2_tree_val t s u e2 round1.val

/-- **rkg_row.** After round two, the key row assembled by `GenRelinearizationKey` from the aggregated
    shares encrypts `w·s²` under `s = Σ s_i`, with the exact error `s·E0 + u·E1 + E2`
    (`u = Σ u_i` the ideal ephemeral secret, `E0, E1, E2` the summed errors of the three draws). -/
theorem rkg_row (a w s u E0 E1 E2 : α) :
    ∃ b c, rkgKeyEntry (rkgRoundTwoEntry s u (rkgRoundOneRow a s u E0 E1 w) E2)
             (rkgRoundOneRow a s u E0 E1 w) = [b, c] ∧
           phase b c s = w * (s * s) + (s * E0 + u * E1 + E2) :=
  ⟨_, _, rfl, rkg_row_phase a w s u E0 E1 E2⟩

/-! ## 6. Mismatched shares -/

/-- **mismatch_rejected (Galois element).** -/
theorem mismatch_rejected_galEl {β : Type} [Add β] (s1 s2 s3 : GalShare β) (h : s1.galEl ≠ s2.galEl) :
    galAggregate s1 s2 s3 = .err := by
  simp [galAggregate, h]

example : (⟨5, ⟨0, 0, 0, []⟩⟩ : GalShare Int).galEl ≠ (⟨25, ⟨0, 0, 0, []⟩⟩ : GalShare Int).galEl := by
  decide

/-- **mismatch_rejected (levels).** -/
theorem mismatch_rejected_levelQ {β : Type} [Add β] (s1 s2 s3 : GShare β)
    (h : s1.levelQ ≠ s2.levelQ ∨ s1.levelQ ≠ s3.levelQ) : evkAggregate s1 s2 s3 = .err := by
  simp [evkAggregate, h]

theorem mismatch_rejected_levelP {β : Type} [Add β] (s1 s2 s3 : GShare β)
    (h : s1.levelP ≠ s2.levelP ∨ s1.levelP ≠ s3.levelP) : evkAggregate s1 s2 s3 = .err := by
  unfold evkAggregate
  split
  · rfl
  · rfl

/-- **mismatch_rejected (decomposition).** Shares of different decompositions (different
    `BaseTwoDecomposition` or different numbers of digits) are rejected by `AggregateShares`. -/
theorem mismatch_rejected_decomposition {β : Type} [Add β] (s1 s2 s3 : GShare β)
    (h : s1.base2 ≠ s2.base2 ∨ shapeOf s1.val ≠ shapeOf s2.val ∨ shapeOf s1.val ≠ shapeOf s3.val) :
    evkAggregate s1 s2 s3 = .err := by
  unfold evkAggregate
  split; · rfl
  split; · rfl
  rfl

/-- the two former witnesses (`BaseTwoDecomposition` 16 + 8: silently combined; 8 + 16: panic) -/
example : evkAggregate (α := Int) ⟨0, 0, 16, [[[1], [2]]]⟩ ⟨0, 0, 8, [[[1], [2], [3], [4]]]⟩
    ⟨0, 0, 16, [[[0], [0]]]⟩ = .err ∧
  evkAggregate (α := Int) ⟨0, 0, 8, [[[1], [2], [3], [4]]]⟩ ⟨0, 0, 16, [[[1], [2]]]⟩
    ⟨0, 0, 8, [[[0], [0], [0], [0]]]⟩ = .err := by decide

/-- `GenShare` rejects a CRP sampled for another decomposition, a share above the keys' `LevelQ` and a
    share above the keys' `LevelP` -/
theorem mismatch_rejected_crp (lvIn lvOut : Nat) (lpIn lpOut : Int) (sIn sOut : α) (crp w e : Mat α)
    (out : GShare α) (h : shapeOf out.val ≠ shapeOf crp) :
    evkGenShare lvIn lvOut lpIn lpOut sIn sOut crp w e out = .err := by
  unfold evkGenShare
  split; · rfl
  split; · rfl
  split; · rfl
  rfl

theorem mismatch_rejected_sk_level (lvIn lvOut : Nat) (lpIn lpOut : Int) (sIn sOut : α) (crp w e : Mat α)
    (out : GShare α) (h : out.levelQ > min lvIn lvOut) :
    evkGenShare lvIn lvOut lpIn lpOut sIn sOut crp w e out = .err := by
  simp [evkGenShare, h]

theorem mismatch_rejected_sk_levelP (lvIn lvOut : Nat) (lpIn lpOut : Int) (sIn sOut : α) (crp w e : Mat α)
    (out : GShare α) (h : out.levelP > min lpIn lpOut) :
    evkGenShare lvIn lvOut lpIn lpOut sIn sOut crp w e out = .err := by
  unfold evkGenShare
  split; · rfl
  rfl

example : (⟨1, 0, 0, []⟩ : GShare Int).levelP > min (0 : Int) (-1) := by decide

end ring

/-! ## 7. The common reference string, at the byte level (refinement of the C17 sampler / PRNG models) -/

section crs
open Lattigo.Sampler

/-- what one `ringqp.UniformSampler.ReadNew` does: the Q sampler, then (if there is a P) the P sampler, on the same
    stream — the two `uniformRead` calls of the C17 model -/
theorem qpRead_ok (fuel : Nat) (qs : List Nat) (qsP : Option (List Nat)) (pQ pP rQ rP : Poly) (s s' : Bytes)
    (bs bs' : QPBufs) (h : qpRead fuel (some qs) qsP pQ pP s bs = .ok (rQ, rP, s', bs')) :
    ∃ s1 bQ, uniformRead fuel .read qs pQ s bs.bQ = .ok (rQ, s1, bQ) ∧
      (∀ ps, qsP = some ps → ∃ bP, uniformRead fuel .read ps pP s1 bs.bP = .ok (rP, s', bP)) ∧
      (qsP = none → rP = pP ∧ s' = s1) := by
  unfold qpRead at h
  cases hq : uniformRead fuel .read qs pQ s bs.bQ with
  | ok v =>
    obtain ⟨r1, s1, b1⟩ := v
    simp only [hq, bind] at h
    cases qsP with
    | none =>
      simp only [pure, Sampler.Res.ok.injEq, Prod.mk.injEq] at h
      obtain ⟨rfl, rfl, rfl, _⟩ := h
      exact ⟨_, _, rfl, fun _ h => (by cases h), fun _ => ⟨rfl, rfl⟩⟩
    | some ps =>
      cases hp : uniformRead fuel .read ps pP s1 bs.bP with
      | ok w =>
        obtain ⟨r2, s2, b2⟩ := w
        simp only [hp, pure, Sampler.Res.ok.injEq, Prod.mk.injEq] at h
        obtain ⟨rfl, rfl, rfl, _⟩ := h
        exact ⟨_, _, rfl, fun ps' h => (by cases h; exact ⟨_, hp⟩), fun h => (by cases h)⟩
      | exhausted => simp [hp] at h
      | panic => simp [hp] at h
  | exhausted => simp [hq, bind] at h
  | panic => simp [hq, bind] at h

/-- rows `i < qs.length` of `r` are reduced modulo `qs[i]` -/
def RowsReduced (qs : List Nat) (r : Poly) : Prop :=
  ∀ i row, i < qs.length → r[i]? = some row → ∀ c ∈ row, c < qs.getD i 0

/-- **crp_reduced.**  Every reference polynomial returned by `SampleCRP` (any CRS bytes, any request) is the
    concatenation of a Q part and a P part whose rows are reduced modulo the respective primes
    (C17 `uniform_range` applied to the two samplers). -/
theorem crp_reduced (fuel : Nat) (qs ps : List Nat) (n : Nat) :
    ∀ (count : Nat) (s : Bytes) (bs : QPBufs) (polys : List Poly) (s' : Bytes),
      crpReadN fuel qs ps n count s bs = .ok (polys, s') →
      ∀ pol ∈ polys, ∃ rQ rP, pol = rQ ++ rP ∧ RowsReduced qs rQ ∧ (ps.isEmpty = false → RowsReduced ps rP)
  | 0, s, bs, polys, s', h => by
      simp only [crpReadN, Sampler.Res.ok.injEq, Prod.mk.injEq] at h
      obtain ⟨rfl, _⟩ := h
      intro pol hp; simp at hp
  | k + 1, s, bs, polys, s', h => by
      unfold crpReadN at h
      split at h
      · rename_i rQ rP s1 bs1 hq
        split at h
        · rename_i rest s2 hrest
          simp only [Sampler.Res.ok.injEq, Prod.mk.injEq] at h
          obtain ⟨rfl, rfl⟩ := h
          intro pol hp
          rcases List.mem_cons.mp hp with rfl | hp
          · obtain ⟨sm, bQ, hQ, hP, _⟩ := qpRead_ok _ _ _ _ _ _ _ _ _ _ _ hq
            refine ⟨rQ, rP, rfl, Lattigo.C17.uniform_range _ _ _ _ _ _ _ _ hQ, ?_⟩
            intro hne
            have hsel : (if ps.isEmpty = true then (none : Option (List Nat)) else some ps) = some ps := by
              simp [hne]
            obtain ⟨bP, hP⟩ := hP ps hsel
            exact Lattigo.C17.uniform_range _ _ _ _ _ _ _ _ hP
          · exact crp_reduced fuel qs ps n k _ _ _ _ hrest pol hp
        · simp at h
        · simp at h
      · simp at h
      · simp at h

/-- **crp_is_stream_words.**  The Q part of the first reference polynomial of a `SampleCRP` is the unbuffered
    specification `specRows`: the big-endian 64-bit words of the CRS taken one after the other, masked, the words
    `≥ q_i` dropped (C17 `uniform_consumes` from fresh buffers) — no byte of the CRS is used twice or skipped. -/
theorem crp_is_stream_words (fuel : Nat) (qs ps : List Nat) (n k : Nat) (s s' : Bytes) (polys : List Poly)
    (h : crpReadN fuel qs ps n (k + 1) s ⟨Buf.new, Buf.new⟩ = .ok (polys, s')) :
    ∃ rQ rP rest s1 bQ, polys = (rQ ++ rP) :: rest ∧
      specRows .read qs (zeroPoly qs.length n) (wordsBE s) = some (rQ, wordsBE (pendingIn s1 bQ)) := by
  unfold crpReadN at h
  split at h
  · rename_i rQ rP s1 bs1 hq
    split at h
    · rename_i rest s2 hrest
      simp only [Sampler.Res.ok.injEq, Prod.mk.injEq] at h
      obtain ⟨rfl, rfl⟩ := h
      obtain ⟨sm, bQ, hQ, _⟩ := qpRead_ok _ _ _ _ _ _ _ _ _ _ _ hq
      have := (Lattigo.C17.uniform_consumes _ _ _ _ _ _ _ _ _ BufInv.new hQ).2.1
      refine ⟨rQ, rP, rest, sm, bQ, rfl, ?_⟩
      simpa [pendingAtCall, Buf.new] using this
    · simp at h
    · simp at h
  · simp at h
  · simp at h

/-- a party's copy of the CRS: the next `len` bytes of its keyed generator -/
def crsBytes (xof : XOF) (p : PRNG) (len : Nat) : Bytes := (p.read xof len).1

/-- **crs_determinism (byte level).**  Parties whose generators have the same key and stand at the same position
    hold the same CRS bytes (the stream is a function of the key: C17 `prng_reads_are_one_stream`), hence — every
    `SampleCRP` starting from fresh sampler buffers — the same sequence of calls gives them identical reference
    polynomials and leaves them at identical positions; a generator rebuilt from `Key()` and a `Reset()` one agree
    too (C17 `prng_key_replays`). -/
theorem crs_determinism (xof : XOF) (p₁ p₂ : PRNG) (len : Nat) (reqs : List CRPRequest)
    (hk : p₁.getKey = p₂.getKey) (hp : p₁.pos = p₂.pos) :
    crsBytes xof p₁ len = crsBytes xof p₂ len ∧
    runCRS reqs (crsBytes xof p₁ len) = runCRS reqs (crsBytes xof p₂ len) ∧
    runCRS reqs (crsBytes xof (PRNG.new p₁.getKey) len) = runCRS reqs (crsBytes xof p₁.reset len) := by
  have h : crsBytes xof p₁ len = crsBytes xof p₂ len := by
    cases p₁; cases p₂; simp only [PRNG.getKey] at hk; simp only at hp; subst hk; subst hp; rfl
  refine ⟨h, by rw [h], ?_⟩
  have := (Lattigo.C17.prng_key_replays xof p₁ len []).2.1
  have h2 := (Lattigo.C17.prng_reads_are_one_stream xof p₁ len 0 []).2.2.1
  unfold crsBytes
  rw [this, h2]

/-- two parties holding the same 1024 CRS bytes: two coefficients modulo 97 -/
example : runCRS [⟨[97], [], 2, 1⟩] (List.replicate 1024 7) = .ok ([[[[7, 7]]]], []) := by decide +kernel

example : crsBytes (fun k i => i + k.getD 0 0) (PRNG.new [7, 9]) 3 = [7, 8, 9] := by decide

end crs

/-! ## 8. Relinearisation rounds on the carrier the driver executes (`RPoly`) -/

section rkgRPoly
open Lattigo Lattigo.RPolyRing Lattigo.Transport Lattigo.Props.C14Ring
variable {qs : List ℕ} {n : ℕ} [Good qs n]

/-- component-wise sum of error pairs `(e0, e1)` (only `+` is needed) -/
def pairAddR (x y : RPoly × RPoly) : RPoly × RPoly := (x.1 + y.1, x.2 + y.2)

omit [Good qs n] in
theorem exists_lift_fun_pairMat (e : Nat → Mat (RPoly × RPoly))
    (h : ∀ i, ∀ r ∈ e i, ∀ p ∈ r, WFq qs n p.1 ∧ WFq qs n p.2) :
    ∃ e' : Nat → Mat (WFPoly qs n × WFPoly qs n), (fun i => (e' i).map (List.map (Prod.map val val))) = e :=
  ⟨fun i => (exists_lift_pairMat (e i) (h i)).choose, funext fun i => (exists_lift_pairMat (e i) (h i)).choose_spec⟩

theorem zipPair_push (x y : Mat (WFPoly qs n × WFPoly qs n)) :
    (List.zipWith (List.zipWith pairAdd) x y).map (List.map (Prod.map val val)) =
      List.zipWith (List.zipWith pairAddR) (x.map (List.map (Prod.map val val))) (y.map (List.map (Prod.map val val))) := by
  induction x generalizing y with
  | nil => simp
  | cons a x ih =>
    cases y with
    | nil => simp
    | cons b y =>
      simp only [List.zipWith_cons_cons, List.map_cons, ih, List.cons.injEq, and_true]
      induction a generalizing b with
      | nil => simp
      | cons p a iha =>
        cases b with
        | nil => simp
        | cons q b => simp [iha, pairAdd, pairAddR, Prod.map, val_add]

theorem rkgVal1_push (s u : WFPoly qs n) (crp w : Mat (WFPoly qs n)) (e : Mat (WFPoly qs n × WFPoly qs n)) :
    (rkgVal1 s u crp w e).map (List.map (List.map val)) =
      matMap3 (fun a w (e : RPoly × RPoly) => rkgRoundOneRow a (val s) (val u) e.1 e.2 w)
        (crp.map (List.map val)) (w.map (List.map val)) (e.map (List.map (Prod.map val val))) := by
  unfold rkgVal1
  exact matMap3_push _ _ (List.map val) val val (Prod.map val val)
    (fun a w e => by simp only [rkgRoundOneRow_push val_hom, Prod.map]) crp w e

/-- **rkg_round_one_collective_rpoly.**  On `RPoly` values with well-formed inputs: the aggregate (any tree) of the
    parties' round-one shares is the round-one share of `(Σ s_i, Σ u_i, Σ e0_i, Σ e1_i)`. -/
theorem rkg_round_one_collective_rpoly (crp w : Mat RPoly) (out : GShare RPoly) (s u : Nat → RPoly)
    (e : Nat → Mat (RPoly × RPoly)) (t : AggTree)
    (hs : ∀ i, WFq qs n (s i)) (hu : ∀ i, WFq qs n (u i))
    (he : ∀ i, ∀ r ∈ e i, ∀ p ∈ r, WFq qs n p.1 ∧ WFq qs n p.2)
    (hcrp : ∀ r ∈ crp, ∀ p ∈ r, WFq qs n p) (hw : ∀ r ∈ w, ∀ p ∈ r, WFq qs n p) :
    (t.eval rkgAggregate fun i => rkgRoundOne (s i) (u i) crp w (e i) out).val =
      (rkgRoundOne (t.eval (· + ·) s) (t.eval (· + ·) u) crp w
        (t.eval (List.zipWith (List.zipWith pairAddR)) e) out).val := by
  rw [rkg_eval_val]
  obtain ⟨s, rfl⟩ := exists_lift_fun s hs
  obtain ⟨u, rfl⟩ := exists_lift_fun u hu
  obtain ⟨e, rfl⟩ := exists_lift_fun_pairMat e he
  obtain ⟨crp, rfl⟩ := exists_lift_mat crp hcrp
  obtain ⟨w, rfl⟩ := exists_lift_mat w hw
  have h := congrArg (List.map (List.map (List.map val))) (rkg1_tree_val t s u e crp w)
  rw [evalCubeAdd_push val_hom, rkgVal1_push, evalAdd_push val_hom, evalAdd_push val_hom,
    eval_push (List.map (List.map (Prod.map val val))) _ _ zipPair_push] at h
  simp only [rkgVal1_push] at h
  exact h

theorem zipEntry_push (s u : WFPoly qs n) (r1 : Mat (List (WFPoly qs n))) (e2 : Mat (WFPoly qs n)) :
    (rkgVal2 s u r1 e2).map (List.map (List.map val)) =
      List.zipWith (List.zipWith (rkgRoundTwoEntry (val s) (val u))) (r1.map (List.map (List.map val)))
        (e2.map (List.map val)) := by
  unfold rkgVal2
  induction r1 generalizing e2 with
  | nil => simp
  | cons a r1 ih =>
    cases e2 with
    | nil => simp
    | cons b e2 =>
      simp only [List.zipWith_cons_cons, List.map_cons, ih, List.cons.injEq, and_true]
      induction a generalizing b with
      | nil => simp
      | cons p a iha =>
        cases b with
        | nil => simp
        | cons q b => simp [iha, rkgRoundTwoEntry_push val_hom]

/-- **rkg_round_two_collective_rpoly.**  Same for round two, from one (well-formed) aggregated round-one share. -/
theorem rkg_round_two_collective_rpoly (round1 out : GShare RPoly) (s u : Nat → RPoly) (e2 : Nat → Mat RPoly)
    (t : AggTree) (hs : ∀ i, WFq qs n (s i)) (hu : ∀ i, WFq qs n (u i))
    (he : ∀ i, ∀ r ∈ e2 i, ∀ p ∈ r, WFq qs n p)
    (hr1 : ∀ r ∈ round1.val, ∀ l ∈ r, ∀ p ∈ l, WFq qs n p) :
    (t.eval rkgAggregate fun i => rkgRoundTwo (s i) (u i) round1 (e2 i) out).val =
      (rkgRoundTwo (t.eval (· + ·) s) (t.eval (· + ·) u) round1 (t.eval matAdd e2) out).val := by
  rw [rkg_eval_val]
  obtain ⟨s, rfl⟩ := exists_lift_fun s hs
  obtain ⟨u, rfl⟩ := exists_lift_fun u hu
  obtain ⟨e2, rfl⟩ := exists_lift_fun_mat e2 he
  obtain ⟨r1, hr1'⟩ := exists_lift_cube round1.val hr1
  have h := congrArg (List.map (List.map (List.map val))) (rkg2_tree_val t s u e2 r1)
  rw [evalCubeAdd_push val_hom, zipEntry_push, evalAdd_push val_hom, evalAdd_push val_hom,
    evalMatAdd_push val_hom] at h
  simp only [zipEntry_push, hr1'] at h
  exact h

/-- instances obtained FROM THE THEOREMS (moduli 97, 193, degree 8, three parties), all hypotheses discharged -/
example :
    (t8.eval rkgAggregate fun i => rkgRoundOne (s8 i) (e8 i) [[a8]] [[a8]] [[(e8 i, s8 i)]] ⟨1, -1, 0, []⟩).val =
      (rkgRoundOne (t8.eval (· + ·) s8) (t8.eval (· + ·) e8) [[a8]] [[a8]]
        (t8.eval (List.zipWith (List.zipWith pairAddR)) fun i => [[(e8 i, s8 i)]]) ⟨1, -1, 0, []⟩).val :=
  rkg_round_one_collective_rpoly (qs := [97, 193]) (n := 8) _ _ _ s8 e8 _ t8
    (fun _ => ofInts_wf _ rfl) (fun _ => ofInts_wf _ rfl)
    (fun i r hr p hp => by
      simp only [List.mem_cons, List.not_mem_nil, or_false] at hr; subst hr
      simp only [List.mem_cons, List.not_mem_nil, or_false] at hp; subst hp
      exact ⟨ofInts_wf _ rfl, ofInts_wf _ rfl⟩)
    (by decide) (by decide)

example :
    (t8.eval rkgAggregate fun i => rkgRoundTwo (s8 i) (e8 i) ⟨1, -1, 0, [[[a8, a8]]]⟩ [[e8 i]] ⟨1, -1, 0, []⟩).val =
      (rkgRoundTwo (t8.eval (· + ·) s8) (t8.eval (· + ·) e8) ⟨1, -1, 0, [[[a8, a8]]]⟩
        (t8.eval matAdd fun i => [[e8 i]]) ⟨1, -1, 0, []⟩).val :=
  rkg_round_two_collective_rpoly (qs := [97, 193]) (n := 8) _ _ s8 e8 _ t8
    (fun _ => ofInts_wf _ rfl) (fun _ => ofInts_wf _ rfl)
    (fun i r hr p hp => by
      simp only [List.mem_cons, List.not_mem_nil, or_false] at hr; subst hr
      simp only [List.mem_cons, List.not_mem_nil, or_false] at hp; subst hp
      exact ofInts_wf _ rfl)
    (by decide)

end rkgRPoly

/-! ## 9. Aggregation does not depend on whether the shares travelled through serialization -/

section serialization
open Lattigo.Codec

/-- what the receiver of a serialized share holds: the value decoded from its encoding -/
def received (f : Fmt) (v : Val) : Val := ((dec f (enc f v)).map Prod.fst).getD .unit

theorem received_eq (f : Fmt) (v : Val) (h : WT f v) : received f v = v := by
  have := Lattigo.C08.roundtrip f v [] h
  rw [List.append_nil] at this
  simp [received, this]

/-- **agg_serialization_independent.**  For every wire format `f` of the C08 codec model (`publicKeyGenShare`,
    `evalKeyGenShare`, `relinKeyGenShare`, `galoisKeyGenShare`, …), every aggregation operation `op` and every
    aggregation tree: aggregating the shares as RECEIVED (`UnmarshalBinary ∘ MarshalBinary`) gives the same result as
    aggregating the shares themselves, for all well-typed shares (C08 `roundtrip`).  With `agg_perm` the aggregate
    is the same whatever the order, grouping and transport of the shares. -/
theorem agg_serialization_independent {β : Type} (f : Fmt) (embed : Val → β) (op : β → β → β) (sh : Nat → Val)
    (t : AggTree) (h : ∀ i, WT f (sh i)) :
    t.eval op (fun i => embed (received f (sh i))) = t.eval op (fun i => embed (sh i)) := by
  have : (fun i => embed (received f (sh i))) = fun i => embed (sh i) := funext fun i => by rw [received_eq f _ (h i)]
  rw [this]

/-- a public-key share (`ringqp.Poly`: Q part with two rows of two words, P part with one row) survives the wire -/
example : received publicKeyGenShare
    (.pair (.list [.list [.num 5, .num 7], .list [.num 1, .num 2]]) (.list [.list [.num 3, .num 4]]))
    = .pair (.list [.list [.num 5, .num 7], .list [.num 1, .num 2]]) (.list [.list [.num 3, .num 4]]) :=
  received_eq _ _ (wtb_sound _ _ (by decide))

end serialization

end Lattigo.Props.C14

open Lattigo.Props.C14 in
#print axioms agg_perm
#print axioms Lattigo.Props.C14.agg_fold_perm
#print axioms Lattigo.Props.C14.agg_tree_eq_fold
#print axioms Lattigo.Props.C14.evk_agg_perm
#print axioms Lattigo.Props.C14.gal_agg_perm
#print axioms Lattigo.Props.C14.rkg_agg_perm
#print axioms Lattigo.Props.C14.cpk_phase
#print axioms Lattigo.Props.C14.cpk_eq_single
#print axioms Lattigo.Props.C14.cpk_fold_eq_single
#print axioms Lattigo.Props.C14.evk_row
#print axioms Lattigo.Props.C14.evk_collective_eq_single
#print axioms Lattigo.Props.C14.evk_key_assembled
#print axioms Lattigo.Props.C14.genEvaluationKey_ragged_ok
#print axioms Lattigo.Props.C14.genEvaluationKey_decomposition_rejected
#print axioms Lattigo.Props.C14.gal_share_eq_evk
#print axioms Lattigo.Props.C14.gal_collective_eq_single
#print axioms Lattigo.Props.C14.gal_noP_ok
#print axioms Lattigo.Props.C14.rkg_round_one_collective
#print axioms Lattigo.Props.C14.rkg_round_two_collective
#print axioms Lattigo.Props.C14.rkg_row
#print axioms Lattigo.Props.C14.mismatch_rejected_galEl
#print axioms Lattigo.Props.C14.mismatch_rejected_levelQ
#print axioms Lattigo.Props.C14.mismatch_rejected_levelP
#print axioms Lattigo.Props.C14.mismatch_rejected_crp
#print axioms Lattigo.Props.C14.mismatch_rejected_sk_level
#print axioms Lattigo.Props.C14.mismatch_rejected_decomposition
#print axioms Lattigo.Props.C14.mismatch_rejected_sk_levelP
#print axioms Lattigo.Props.C14.crp_reduced
#print axioms Lattigo.Props.C14.crp_is_stream_words
#print axioms Lattigo.Props.C14.crs_determinism
#print axioms Lattigo.Props.C14.rkg_round_one_collective_rpoly
#print axioms Lattigo.Props.C14.rkg_round_two_collective_rpoly
#print axioms Lattigo.Props.C14.agg_serialization_independent
