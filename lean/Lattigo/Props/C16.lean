/-
  C16 — collective key switching, share conversion and refresh preserve the message.

  Theorems about the definitions of `Lattigo/Model/MPSwitch.lean` (executed by the driver on `RPoly`),
  for every commutative ring `α`, any number of parties and any aggregation tree `t`
  (parties = leaves of `t`; `t.eval (· + ·) s` is the ideal secret `Σ s_i`; by `C14.agg_perm` the
  aggregate does not depend on the tree).

  Gaps (stated, not hidden):
    * `RPoly` is not proved here to be the commutative ring `Z_Q[X]/(X^N+1)` (C01); the ties check the
      model against the real shares / ciphertexts.
    * The plaintext-space maps are not ring maps of `R_Q`: for BGV the passage `R_Q → R_t` is the
      coefficient-wise `q2tCoeff`, characterised by `q2t_centred` (centred representative modulo Q, then
      modulo t) — the step from the ring-level identity `e2s_masked` to "the additive shares sum to the
      message exactly modulo t" is `e2s_sum_mod_t` on ONE coefficient (the CRT/coefficient extraction of
      `RPoly` is not formalised); for CKKS the rescaling of the shares is characterised by
      `rescale_err` (less than one unit per share).  Norm bounds on the error terms are measured by the
      probes against explicit bounds, not proved.
    * `transform_spec` is for additive maps `T` of the carrier; the Decode/Encode flags of the real
      transform (NTT over Z_t, big-float FFT) are exercised by the probes only.

  Defects found through this property and repaired in /repo (fixes/C16-*.diff; API-level, exhibited by
  probes, the model being unaffected except for the scale used by the BGV transform):
    * PublicKeySwitchProtocol.AggregateShares compared share1 with itself     (probe level_mismatch)
    * refresh AggregateShares (mpbgv, mpckks) did not set shareOut.MetaData    (probe refresh_agg_fresh_receiver)
    * mpbgv Transform used the output's scale and did not set the output MetaData
                                                    (probes refresh_roundtrip / transform_applies_f, fresh output)
    * mpckks masked transform failed for prec ≤ 53 with Decode/Encode         (probe transform_prec)
-/
import Lattigo.Proofs.MPSwitch
import Lattigo.Props.C16Ring
import Lattigo.Props.C16Noise

namespace Lattigo.Props.C16
open Lattigo.MP

section ring
variable {α : Type} [CommRing α]

/-! ## 1. Collective key switching -/

/-- the aggregate of the parties' shares (any tree) is the share of the ideal secrets and summed noise -/
theorem cks_collective (c1 : α) (sIn sOut e : Nat → α) (t : AggTree) :
    t.eval (· + ·) (fun i => cksShare c1 (sIn i) (sOut i) (e i)) =
      cksShare c1 (t.eval (· + ·) sIn) (t.eval (· + ·) sOut) (t.eval (· + ·) e) :=
  cks_tree c1 sIn sOut e t

/-- **cks_phase.** `phase(KeySwitch(ct, Σ shares), Σ s_out,i) = phase(ct, Σ s_in,i) + Σ e_i`, for a
    combined share at or above the ciphertext level (below: the call panics, `cks_below_level_panics`). -/
theorem cks_phase (ctLevel aggLevel : Nat) (c0 c1 : α) (sIn sOut e : Nat → α) (t : AggTree)
    (hl : ctLevel ≤ aggLevel) :
    ∃ c0' c1', cksKeySwitch ctLevel c0 c1
        ⟨aggLevel, t.eval (· + ·) (fun i => cksShare c1 (sIn i) (sOut i) (e i))⟩ = .ok (c0', c1') ∧
      phase c0' c1' (t.eval (· + ·) sOut) = phase c0 c1 (t.eval (· + ·) sIn) + t.eval (· + ·) e := by
  refine ⟨c0 + t.eval (· + ·) (fun i => cksShare c1 (sIn i) (sOut i) (e i)), c1, ?_, ?_⟩
  · simp [cksKeySwitch, Nat.not_lt.mpr hl]
  · rw [cks_tree, cks_phase_single]

example : (2 : Nat) ≤ 2 := le_refl _

/-- decryption is the case `s_out = 0` -/
theorem cks_decrypt (c0 c1 : α) (s e : Nat → α) (t : AggTree) :
    c0 + t.eval (· + ·) (fun i => cksShare c1 (s i) 0 (e i)) =
      phase c0 c1 (t.eval (· + ·) s) + t.eval (· + ·) e := by
  have h0 : t.eval (· + ·) (fun _ => (0 : α)) = 0 := by
    induction t with
    | leaf i => rfl
    | node l r ihl ihr => simp [AggTree.eval, ihl, ihr]
  have := cks_tree c1 s (fun _ => 0) e t
  rw [this, h0]
  unfold cksShare phase; ring

theorem cks_below_level_panics (ctLevel : Nat) (c0 c1 : α) (agg : LShare α) (h : agg.level < ctLevel) :
    cksKeySwitch ctLevel c0 c1 agg = .panic := by
  simp [cksKeySwitch, h]

/-- validated aggregation: equal levels ⇒ every tree succeeds with the sum -/
theorem cks_agg_ok (lvl : Nat) (sh : Nat → LShare α) (t : AggTree)
    (h : ∀ i ∈ t.leaves, (sh i).level = lvl) :
    ∃ g, t.evalM (fun x y => cksAggregate x y x) sh = .ok g ∧ g.level = lvl ∧
      g.v = t.eval (· + ·) (fun i => (sh i).v) :=
  cks_evalM_levels lvl sh t h

/-- **level mismatch rejected** by `KeySwitchProtocol.AggregateShares` -/
theorem cks_level_mismatch_rejected (s1 s2 s3 : LShare α)
    (h : s1.level ≠ s2.level ∨ s1.level ≠ s3.level) : cksAggregate s1 s2 s3 = .err := by
  simp [cksAggregate, h]

example : (⟨2, (0 : Int)⟩ : LShare Int).level ≠ (⟨1, (0 : Int)⟩ : LShare Int).level := by decide

/-! ## 2. Collective public-key switching -/

/-- **pcks_phase.** With `z i` the parties' encryptions of zero under the target public key,
    `phase(KeySwitch(ct, Σ shares), s_out) = phase(ct, Σ s_i) + Σ e_i + Σ phase(z_i, s_out)`. -/
theorem pcks_phase (c0 c1 sOut : α) (z : Nat → α × α) (s e : Nat → α) (t : AggTree) :
    let ks := pcksKeySwitch c0 (t.eval pcksAggregate fun i => pcksShare (z i) c1 (s i) (e i))
    phase ks.1 ks.2 sOut =
      phase c0 c1 (t.eval (· + ·) s) + t.eval (· + ·) e +
        phase (t.eval (· + ·) fun i => (z i).1) (t.eval (· + ·) fun i => (z i).2) sOut := by
  intro ks
  have : ks = pcksKeySwitch c0 (pcksShare (t.eval (· + ·) (fun i => (z i).1), t.eval (· + ·) (fun i => (z i).2))
      c1 (t.eval (· + ·) s) (t.eval (· + ·) e)) := by
    simp only [ks, pcks_tree]
  rw [this, pcks_phase_single]

/-- the encryption of zero under `pk` (with `phase(pk, s_out) = e_pk`), divided by the auxiliary
    modulus (`pinv·P = 1`; `d0, d1` the centred residues modulo P): its phase is the small quotient
    `P⁻¹·(u·e_pk + e0 + e1·s_out − d0 − d1·s_out)` -/
theorem pcks_zero_noise (pinv pk0 pk1 u e0 e1 d0 d1 sOut epk : α) (hpk : phase pk0 pk1 sOut = epk) :
    phase (encZeroPk pinv pk0 pk1 u e0 e1 d0 d1).1 (encZeroPk pinv pk0 pk1 u e0 e1 d0 d1).2 sOut =
      pinv * (u * epk + e0 + e1 * sOut - d0 - d1 * sOut) :=
  encZeroPk_phase pinv pk0 pk1 u e0 e1 d0 d1 sOut epk hpk

example : phase (-(3 : Int) * 5 + 2) 3 5 = 2 := by decide

theorem pcks_zero_noise_noP (pk0 pk1 u e0 e1 sOut epk : α) (hpk : phase pk0 pk1 sOut = epk) :
    phase (encZeroPkNoP pk0 pk1 u e0 e1).1 (encZeroPkNoP pk0 pk1 u e0 e1).2 sOut =
      u * epk + e0 + e1 * sOut :=
  encZeroPkNoP_phase pk0 pk1 u e0 e1 sOut epk hpk

/-! ## 3. Encryption to shares, shares to encryption -/

/-- **e2s (ring level).** The masked plaintext obtained from the aggregated public shares is
    `phase(ct, Σ s_i) + Σ e_i − Σ m_i`: adding the parties' masks gives back the plaintext plus the
    smudging noise. -/
theorem e2s_masked (c0 c1 : α) (s e m : Nat → α) (t : AggTree) :
    e2sMasked c0 (t.eval (· + ·) fun i => e2sShare 0 c1 (s i) (e i) (m i)) + t.eval (· + ·) m =
      phase c0 c1 (t.eval (· + ·) s) + t.eval (· + ·) e := by
  rw [e2s_tree, e2s_masked_single]; ring

/-- **s2e.** Re-encrypting additive shares `f i` (any values) gives a ciphertext on the CRP `a` whose
    phase under `Σ s_i` is `Σ f_i + Σ e_i`. -/
theorem s2e_phase (a : α) (s e f : Nat → α) (t : AggTree) :
    let ct := s2eEncryption (t.eval (· + ·) fun i => s2eShare 0 a (s i) (e i) (f i)) a
    phase ct.1 ct.2 (t.eval (· + ·) s) = t.eval (· + ·) f + t.eval (· + ·) e := by
  intro ct
  simp only [ct, s2eEncryption, s2e_tree, s2e_phase_single]

/-- **e2s_s2e_id.** ShareToEnc ∘ EncToShare is the identity on phases up to the two smudging noises:
    if the additive shares `f` sum to `phase(ct) + Σ e1` (which `e2s_masked` provides: `f 0 = masked +
    m 0`, `f i = m i`), the re-encryption has phase `phase(ct, Σ s) + Σ e1 + Σ e2`. -/
theorem e2s_s2e_id (c0 c1 a : α) (s e1 e2 f : Nat → α) (t : AggTree)
    (hf : t.eval (· + ·) f = phase c0 c1 (t.eval (· + ·) s) + t.eval (· + ·) e1) :
    let ct := s2eEncryption (t.eval (· + ·) fun i => s2eShare 0 a (s i) (e2 i) (f i)) a
    phase ct.1 ct.2 (t.eval (· + ·) s) =
      phase c0 c1 (t.eval (· + ·) s) + t.eval (· + ·) e1 + t.eval (· + ·) e2 := by
  intro ct
  have := s2e_phase a s e2 f t
  simp only at this
  rw [this, hf]

example : (AggTree.leaf 0).eval (· + ·) (fun _ => (7 : Int)) = phase 2 1 5 + 0 := by decide

/-! ## 4. Refresh and masked transform -/

/-- **transform_spec.** For an additive map `T` of the carrier applied by every party to its mask and by
    the finalisation to the masked plaintext, the output ciphertext `(T(masked) + Σ s2e, a)` has phase
    `T(phase(ct, Σ s_in) + Σ e1) + Σ e2` under `Σ s_out`. -/
theorem transform_spec (T : α →+ α) (c0 c1 a : α) (sIn sOut e1 e2 m : Nat → α) (t : AggTree) :
    let shares := fun i => refreshShare 0 c1 a (sIn i) (sOut i) (e1 i) (e2 i) (m i) (T (m i))
    let agg := t.eval refreshAggregate shares
    let out := refreshFinalize (T (e2sMasked c0 agg.1)) agg.2 a
    phase out.1 out.2 (t.eval (· + ·) sOut) =
      T (phase c0 c1 (t.eval (· + ·) sIn) + t.eval (· + ·) e1) + t.eval (· + ·) e2 := by
  intro shares agg out
  have hagg : agg = (t.eval (· + ·) (fun i => e2sShare 0 c1 (sIn i) (e1 i) (m i)),
      t.eval (· + ·) (fun i => s2eShare 0 a (sOut i) (e2 i) (T (m i)))) := by
    simp only [agg, shares]
    induction t with
    | leaf i => rfl
    | node l r ihl ihr => simp only [AggTree.eval, refreshAggregate, ihl, ihr]
  have h1 := e2s_masked c0 c1 sIn e1 m t
  have hm : e2sMasked c0 agg.1 = phase c0 c1 (t.eval (· + ·) sIn) + t.eval (· + ·) e1 - t.eval (· + ·) m := by
    rw [hagg]; simp only; rw [← h1]; ring
  simp only [out, refreshFinalize, hm]
  rw [hagg]
  simp only [s2e_tree, tree_addHom]
  unfold phase s2eShare cksShare
  simp only [map_sub, map_add]
  ring

/-- **refresh_spec.** Refresh is the transform with `T = id`: a fresh ciphertext on the CRP with phase
    `phase(ct, Σ s) + Σ e1 + Σ e2`. -/
theorem refresh_spec (c0 c1 a : α) (s e1 e2 m : Nat → α) (t : AggTree) :
    let shares := fun i => refreshShare 0 c1 a (s i) (s i) (e1 i) (e2 i) (m i) (m i)
    let agg := t.eval refreshAggregate shares
    let out := refreshFinalize (e2sMasked c0 agg.1) agg.2 a
    phase out.1 out.2 (t.eval (· + ·) s) =
      phase c0 c1 (t.eval (· + ·) s) + t.eval (· + ·) e1 + t.eval (· + ·) e2 := by
  have := transform_spec (AddMonoidHom.id α) c0 c1 a s s e1 e2 m t
  simpa using this

/-! ## 5. The smudging noise is in the share, unmodified -/

/-- **smudge_lower.** Every share is its deterministic part plus the sampled smudging error: the
    error enters additively and unscaled (so its standard deviation is the sampler's, reduced to C17). -/
theorem smudge_in_cks_share (c1 sIn sOut e : α) :
    cksShare c1 sIn sOut e - cksShare c1 sIn sOut 0 = e := by
  unfold cksShare; ring

theorem smudge_in_pcks_share (z : α × α) (c1 s e : α) :
    (pcksShare z c1 s e).1 - (pcksShare z c1 s 0).1 = e := by
  unfold pcksShare; ring

theorem smudge_in_refresh_share (c1 a sIn sOut e1 e2 m m' : α) :
    (refreshShare 0 c1 a sIn sOut e1 e2 m m').1 - (refreshShare 0 c1 a sIn sOut 0 0 m m').1 = e1 ∧
    (refreshShare 0 c1 a sIn sOut e1 e2 m m').2 - (refreshShare 0 c1 a sIn sOut 0 0 m m').2 = e2 := by
  unfold refreshShare e2sShare s2eShare cksShare
  constructor <;> ring

end ring

/-! ## 6. Plaintext spaces -/

/-- **BGV, one coefficient.** `RingQ2T` returns the centred representative of `x·t mod Q`, reduced modulo
    `t`. -/
theorem q2t_centred (Q T x : Nat) (v : Int) (hQ : 0 < Q) (hT : 0 < T)
    (hx : v ≡ (x * T : Nat) [ZMOD Q]) (hlo : -((Q / 2 : Nat) : Int) ≤ v)
    (hhi : v < (Q : Int) - ((Q / 2 : Nat) : Int)) :
    ((q2tCoeff Q T x : Nat) : Int) = v % T :=
  Lattigo.MP.q2t_centred Q T x v hQ hT hx hlo hhi

example : q2tCoeff 1009 17 (5 * 831 % 1009) = 5 := by decide  -- 831 = 17⁻¹ mod 1009

/-- **e2s_sum, BGV, exactly modulo t (one coefficient).**  If the masked coefficient `x` of
    `c0 + Σ public shares` satisfies `x·t ≡ msg − Σ masks + t·noise (mod Q)` (which is `e2s_masked`
    multiplied by `t`, the plaintext being embedded as `t⁻¹·msg`) and this integer is within `Q/2`,
    then `RingQ2T(x) + Σ masks ≡ msg (mod t)`: the additive shares sum to the message. -/
theorem e2s_sum_mod_t (Q T x : Nat) (msg masks noise : Int) (hQ : 0 < Q) (hT : 0 < T)
    (hx : msg - masks + T * noise ≡ (x * T : Nat) [ZMOD Q])
    (hlo : -((Q / 2 : Nat) : Int) ≤ msg - masks + T * noise)
    (hhi : msg - masks + T * noise < (Q : Int) - ((Q / 2 : Nat) : Int)) :
    (((q2tCoeff Q T x : Nat) : Int) + masks) % T = msg % T := by
  rw [q2t_centred Q T x _ hQ hT hx hlo hhi, Int.emod_add_emod]
  have : msg - masks + (T : Int) * noise + masks = msg + (T : Int) * noise := by ring
  rw [this, Int.add_mul_emod_self_left]

-- msg = 5, masks = 30, noise = 2: `5 − 30 + 17·2 = 9` -/
example : (((q2tCoeff 1009 17 (9 * 831 % 1009) : Nat) : Int) + 30) % 17 = 5 % 17 := by
  decide

/-- **CKKS.** Rescaling the `k` additive shares one by one (`⌊x_i·Δ_out/Δ_in⌋`, truncated) instead of
    their sum loses at most one unit per share. -/
theorem rescale_err (D S : Int) (hS : 0 < S) (xs : List Int) :
    |S * (rescaleMask D S xs).sum - D * xs.sum| ≤ xs.length * S :=
  rescale_sum_err D S hS xs

example : rescaleMask 8 3 [10, -10, 1] = [26, -26, 2] := by decide

/-- **min_level_spec.** The level returned by (the exact-arithmetic model of)
    `GetMinimumLevelForRefresh` is the SMALLEST level whose modulus reaches
    `2^(logBound + ⌈log2 nParties⌉)`; in particular `Q_minLevel ≥ nParties·2^logBound`: the sum of the
    `nParties` masks of `logBound` bits (each in `[−2^(logBound−1), 2^(logBound−1))`) does not wrap. -/
theorem min_level_spec (lambda scale nParties : Nat) (moduli : List Nat) (L : Nat) (lb : Nat)
    (h : minLevelForRefresh lambda scale nParties moduli = some ((L : Int), lb)) :
    lb = lambda + clog2 scale ∧
    nParties * 2 ^ lb ≤ (moduli.take (L + 1)).prod ∧
    (moduli.take L).prod < 2 ^ (lb + clog2 nParties) := by
  unfold minLevelForRefresh at h
  simp only at h
  split at h
  · simp at h
  · rename_i k hk
    simp only [Option.some.injEq, Prod.mk.injEq] at h
    obtain ⟨hL, hlb⟩ := h
    have hk1 : k = L + 1 := by omega
    subst hk1
    obtain ⟨h1, h2⟩ := primesNeeded_sound moduli _ 1 (L + 1) hk
    refine ⟨hlb.symm, ?_, ?_⟩
    · rw [← hlb]
      calc nParties * 2 ^ (lambda + clog2 scale)
          ≤ 2 ^ clog2 nParties * 2 ^ (lambda + clog2 scale) :=
            Nat.mul_le_mul_right _ (le_two_pow_clog2 nParties)
        _ = 2 ^ (lambda + clog2 scale + clog2 nParties) := by
            rw [Nat.pow_add (2) (lambda + clog2 scale) (clog2 nParties), Nat.mul_comm]
        _ ≤ _ := by simpa using h1
    · rw [← hlb]
      simpa using h2 (Nat.succ_pos _)

/-- three parties, 40-bit masks: a 41.x-bit first prime is NOT enough (⌈log2 3⌉ = 2), level 1 is -/
example : minLevelForRefresh 30 1024 3 [2199023255579, 1073741827] = some (1, 40) := by decide +kernel

/-- **centred masks do not wrap.**  If every mask satisfies `|M_i| ≤ H` (`H = 2^(logBound−1)` for the
    documented centred range `[−2^(logBound−1), 2^(logBound−1))`), the plaintext coefficient `|m| ≤ B` and
    `2·(n·H + B) < Q`, then the masked plaintext `m − Σ M_i` is its own centred representative modulo `Q`
    (`2·|m − Σ M_i| < Q`): EncToShare at that level recovers it without wrap-around.  With `min_level_spec`
    (`n·2^logBound ≤ Q_minLevel`) the condition holds at the minimum level as soon as the slack
    `Q_minLevel − n·2^logBound` exceeds `2B`; it is the predicate computed by `noWrapAtMinLevel`. -/
theorem centred_masks_no_wrap (Q H B m : Int) (masks : List Int)
    (hM : ∀ M ∈ masks, |M| ≤ H) (hm : |m| ≤ B) (hQ : 2 * (masks.length * H + B) < Q) :
    2 * |m - masks.sum| < Q := by
  have h1 := abs_sum_le_of_abs_le H masks hM
  have h2 : |m - masks.sum| ≤ |m| + |masks.sum| := abs_sub _ _
  linarith

/-- masks sampled in `[0, 2^logBound)` (not centred) DO wrap at a minimum level that is tight:
    4 parties, 3-bit masks, `Q = 33 ≥ 4·2^3`, message 1: `1 − (7+7+7+7) = −27`, and `2·27 > 33`. -/
example : ¬ (2 * |(1 : Int) - [7, 7, 7, 7].sum| < 33) := by decide

example : noWrapAtMinLevel 2 2 4 [37, 41] 1 = some (0, 3, true) := by decide +kernel

end Lattigo.Props.C16

#print axioms Lattigo.Props.C16.centred_masks_no_wrap
#print axioms Lattigo.Props.C16.min_level_spec
#print axioms Lattigo.Props.C16.cks_collective
#print axioms Lattigo.Props.C16.cks_phase
#print axioms Lattigo.Props.C16.cks_decrypt
#print axioms Lattigo.Props.C16.cks_below_level_panics
#print axioms Lattigo.Props.C16.cks_agg_ok
#print axioms Lattigo.Props.C16.cks_level_mismatch_rejected
#print axioms Lattigo.Props.C16.pcks_phase
#print axioms Lattigo.Props.C16.pcks_zero_noise
#print axioms Lattigo.Props.C16.pcks_zero_noise_noP
#print axioms Lattigo.Props.C16.e2s_masked
#print axioms Lattigo.Props.C16.s2e_phase
#print axioms Lattigo.Props.C16.e2s_s2e_id
#print axioms Lattigo.Props.C16.transform_spec
#print axioms Lattigo.Props.C16.refresh_spec
#print axioms Lattigo.Props.C16.smudge_in_cks_share
#print axioms Lattigo.Props.C16.smudge_in_pcks_share
#print axioms Lattigo.Props.C16.smudge_in_refresh_share
#print axioms Lattigo.Props.C16.q2t_centred
#print axioms Lattigo.Props.C16.e2s_sum_mod_t
#print axioms Lattigo.Props.C16.rescale_err
