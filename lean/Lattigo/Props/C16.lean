/-
  C16 — collective key switching, share conversion and refresh preserve the message.

  Theorems about the definitions of `Lattigo/Model/MPSwitch.lean` (executed by the driver on `RPoly`); parties are
  the leaves of the aggregation tree `t` (`C14.agg_perm`: the aggregate does not depend on the tree).

  PROVED FOR ALL INPUTS
    * generic carrier (every commutative ring): `cks_collective`, `cks_phase`, `cks_decrypt`, `cks_agg_ok`,
      `cks_level_mismatch_rejected`, `cks_below_level_panics`; `pcks_phase`, `pcks_zero_noise(_noP)`; `e2s_masked`,
      `s2e_phase`, `e2s_s2e_id`; `transform_spec` (any additive map of the carrier), `refresh_spec`;
      `smudge_in_*_share` (the smudging error enters additively and unscaled).
    * on `RPoly` with well-formed inputs (`Props/C16Ring.lean`): the `_rpoly` versions of all of the above.
    * error SIZES over `Z[X]/(X^N+1)` (`Props/C16Noise.lean`): `cks_noise_bound(_P)`, `pcks_noise_bound(_noP)`,
      `refresh_noise_bound`; BGV exactness modulo `t` on EVERY coefficient: `e2s_sum_mod_t_all`,
      `e2s_sum_mod_t_poly`, `e2s_sum_mod_t_parties` (from `q2t_centred`, `e2s_sum_mod_t` here).
    * plaintext spaces and levels (integers): `q2t_centred`, `e2s_sum_mod_t`; `rescale_err`,
      `ckks_refresh_rescale` (CKKS refresh on one coefficient, end to end: < 1 unit per rescaling);
      `min_level_spec`, `centred_masks_no_wrap`, `no_wrap_at_min_level`, `noWrapAtMinLevel_sound`
      (GetMinimumLevelForRefresh ⇒ EncToShare does not wrap, every party count, under the explicit slack condition);
      `transform_flags`, `transform_flags_refresh` (all four Decode/Encode combinations, additive maps of the
      plaintext space).
  UNDER A NAMED HYPOTHESIS: `transform_flags` assumes the decoder, encoder and user function additive (the real BGV
  `DecodeRingT/EncodeRingT` and the CKKS FFT are linear maps — C07's subject, not proved here; a non-additive
  user function breaks the protocol, example in §8); `pcks_zero_noise` takes the centred residues `d0, d1` as given
  (that `centredLiftP` makes the bracket divisible by P is C02 arithmetic).
  TIED ONLY: `ringT2Q`/`ringQ2T` on `RPoly` (CRT extraction), `centredLiftP`/`pinvPoly` (division by P in
  `pcks_share`), `ofBigints`/`toBigints`, the twin replay of noise and masks, the transformed masks (the harness
  replays the real encoders and passes the graph of the user function).
  PROBED ONLY: decryption of the switched / refreshed ciphertexts by the real Decryptor/Encoder (`cks_decrypts`,
  `pcks_decrypts`, `e2s_sum`, `e2s_s2e_id`, `refresh_roundtrip`, `transform_applies_f`, against bounds that
  dominate the C16Noise theorems), `smudging_present`, `mask_range`/`mask_distribution`, receiver levels,
  `refused_call_keeps_receiver`.
  NOT COVERED: the composition "ring identity on `RPoly` + norm bound on `ZPoly`" as ONE statement (the two carriers
  are related only through `RPoly.crt`, not formalised); refresh between different ring degrees; the float64
  precision of the CKKS transform (labelled "within precision" in the probes).

  Defects found through this property and repaired in /repo (fixes/C16-*.diff):
    * PublicKeySwitchProtocol.AggregateShares compared share1 with itself     (probe level_mismatch)
    * refresh AggregateShares (mpbgv, mpckks) did not set shareOut.MetaData    (probe refresh_agg_fresh_receiver)
    * mpbgv Transform used the output's scale and did not set the output MetaData
    * mpckks masked transform failed for prec ≤ 53 with Decode/Encode         (probe transform_prec)
    * GetMinimumLevelForRefresh compared float64 logarithms                   (probe min_level_exact, `min_level_spec`)
-/
import Lattigo.Proofs.MPSwitch
import Lattigo.Props.C16Ring
import Lattigo.Props.C16Noise
import Mathlib.Data.ZMod.Basic
import Mathlib.Tactic.Abel

namespace Lattigo.Props.C16
open Lattigo.MP

section ring
variable {α : Type} [CommRing α]

/-! ## 1. Collective key switching -/

/-- the aggregate of the parties' shares (any tree) is the share of the ideal secrets and summed noise -/
theorem cks_collective (c1 : α) (sIn sOut e : Nat → α) (t : AggTree) :
    t.eval (· + ·) (fun i => cksShare c1 (sIn i) (sOut i) (e i)) =
      cksShare c1 (t.eval (· + ·) sIn) (t.eval (· + ·) sOut) (t.eval (· + ·) e) :=
  cks_tree c1 sIn sOut e t

/-- **cks_phase.** `phase(KeySwitch(ct, Σ shares), Σ s_out,i) = phase(ct, Σ s_in,i) + Σ e_i`, for a
    combined share at or above the ciphertext level (below: the call panics, `cks_below_level_panics`). -/
theorem cks_phase (ctLevel aggLevel : Nat) (c0 c1 : α) (sIn sOut e : Nat → α) (t : AggTree)
    (hl : ctLevel ≤ aggLevel) :
    ∃ c0' c1', cksKeySwitch ctLevel c0 c1
        ⟨aggLevel, t.eval (· + ·) (fun i => cksShare c1 (sIn i) (sOut i) (e i))⟩ = .ok (c0', c1') ∧
      phase c0' c1' (t.eval (· + ·) sOut) = phase c0 c1 (t.eval (· + ·) sIn) + t.eval (· + ·) e := by
  refine ⟨c0 + t.eval (· + ·) (fun i => cksShare c1 (sIn i) (sOut i) (e i)), c1, ?_, ?_⟩
  · simp [cksKeySwitch, Nat.not_lt.mpr hl]
  · rw [cks_tree, cks_phase_single]

example : (2 : Nat) ≤ 2 := le_refl _

/-- decryption is the case `s_out = 0` -/
theorem cks_decrypt (c0 c1 : α) (s e : Nat → α) (t : AggTree) :
    c0 + t.eval (· + ·) (fun i => cksShare c1 (s i) 0 (e i)) =
      phase c0 c1 (t.eval (· + ·) s) + t.eval (· + ·) e := by
  have h0 : t.eval (· + ·) (fun _ => (0 : α)) = 0 := by
    induction t with
    | leaf i => rfl
    | node l r ihl ihr => simp [AggTree.eval, ihl, ihr]
  have := cks_tree c1 s (fun _ => 0) e t
  rw [this, h0]
  unfold cksShare phase; ring

theorem cks_below_level_panics (ctLevel : Nat) (c0 c1 : α) (agg : LShare α) (h : agg.level < ctLevel) :
    cksKeySwitch ctLevel c0 c1 agg = .panic := by
  simp [cksKeySwitch, h]

/-- validated aggregation: equal levels ⇒ every tree succeeds with the sum -/
theorem cks_agg_ok (lvl : Nat) (sh : Nat → LShare α) (t : AggTree)
    (h : ∀ i ∈ t.leaves, (sh i).level = lvl) :
    ∃ g, t.evalM (fun x y => cksAggregate x y x) sh = .ok g ∧ g.level = lvl ∧
      g.v = t.eval (· + ·) (fun i => (sh i).v) :=
  cks_evalM_levels lvl sh t h

/-- **level mismatch rejected** by `KeySwitchProtocol.AggregateShares` -/
theorem cks_level_mismatch_rejected (s1 s2 s3 : LShare α)
    (h : s1.level ≠ s2.level ∨ s1.level ≠ s3.level) : cksAggregate s1 s2 s3 = .err := by
  simp [cksAggregate, h]

example : (⟨2, (0 : Int)⟩ : LShare Int).level ≠ (⟨1, (0 : Int)⟩ : LShare Int).level := by decide

/-! ## 2. Collective public-key switching -/

/-- **pcks_phase.** With `z i` the parties' encryptions of zero under the target public key,
    `phase(KeySwitch(ct, Σ shares), s_out) = phase(ct, Σ s_i) + Σ e_i + Σ phase(z_i, s_out)`. -/
theorem pcks_phase (c0 c1 sOut : α) (z : Nat → α × α) (s e : Nat → α) (t : AggTree) :
    let ks := pcksKeySwitch c0 (t.eval pcksAggregate fun i => pcksShare (z i) c1 (s i) (e i))
    phase ks.1 ks.2 sOut =
      phase c0 c1 (t.eval (· + ·) s) + t.eval (· + ·) e +
        phase (t.eval (· + ·) fun i => (z i).1) (t.eval (· + ·) fun i => (z i).2) sOut := by
  intro ks
  have : ks = pcksKeySwitch c0 (pcksShare (t.eval (· + ·) (fun i => (z i).1), t.eval (· + ·) (fun i => (z i).2))
      c1 (t.eval (· + ·) s) (t.eval (· + ·) e)) := by
    simp only [ks, pcks_tree]
  rw [this, pcks_phase_single]

/-- the encryption of zero under `pk` (with `phase(pk, s_out) = e_pk`), divided by the auxiliary
    modulus (`pinv·P = 1`; `d0, d1` the centred residues modulo P): its phase is the small quotient
    `P⁻¹·(u·e_pk + e0 + e1·s_out − d0 − d1·s_out)` -/
theorem pcks_zero_noise (pinv pk0 pk1 u e0 e1 d0 d1 sOut epk : α) (hpk : phase pk0 pk1 sOut = epk) :
    phase (encZeroPk pinv pk0 pk1 u e0 e1 d0 d1).1 (encZeroPk pinv pk0 pk1 u e0 e1 d0 d1).2 sOut =
      pinv * (u * epk + e0 + e1 * sOut - d0 - d1 * sOut) :=
  encZeroPk_phase pinv pk0 pk1 u e0 e1 d0 d1 sOut epk hpk

example : phase (-(3 : Int) * 5 + 2) 3 5 = 2 := by decide

theorem pcks_zero_noise_noP (pk0 pk1 u e0 e1 sOut epk : α) (hpk : phase pk0 pk1 sOut = epk) :
    phase (encZeroPkNoP pk0 pk1 u e0 e1).1 (encZeroPkNoP pk0 pk1 u e0 e1).2 sOut =
      u * epk + e0 + e1 * sOut :=
  encZeroPkNoP_phase pk0 pk1 u e0 e1 sOut epk hpk

/-! ## 3. Encryption to shares, shares to encryption -/

/-- **e2s (ring level).** The masked plaintext obtained from the aggregated public shares is
    `phase(ct, Σ s_i) + Σ e_i − Σ m_i`: adding the parties' masks gives back the plaintext plus the
    smudging noise. -/
theorem e2s_masked (c0 c1 : α) (s e m : Nat → α) (t : AggTree) :
    e2sMasked c0 (t.eval (· + ·) fun i => e2sShare 0 c1 (s i) (e i) (m i)) + t.eval (· + ·) m =
      phase c0 c1 (t.eval (· + ·) s) + t.eval (· + ·) e := by
  rw [e2s_tree, e2s_masked_single]; ring

/-- **s2e.** Re-encrypting additive shares `f i` (any values) gives a ciphertext on the CRP `a` whose
    phase under `Σ s_i` is `Σ f_i + Σ e_i`. -/
theorem s2e_phase (a : α) (s e f : Nat → α) (t : AggTree) :
    let ct := s2eEncryption (t.eval (· + ·) fun i => s2eShare 0 a (s i) (e i) (f i)) a
    phase ct.1 ct.2 (t.eval (· + ·) s) = t.eval (· + ·) f + t.eval (· + ·) e := by
  intro ct
  simp only [ct, s2eEncryption, s2e_tree, s2e_phase_single]

/-- **e2s_s2e_id.** ShareToEnc ∘ EncToShare is the identity on phases up to the two smudging noises:
    if the additive shares `f` sum to `phase(ct) + Σ e1` (which `e2s_masked` provides: `f 0 = masked +
    m 0`, `f i = m i`), the re-encryption has phase `phase(ct, Σ s) + Σ e1 + Σ e2`. -/
theorem e2s_s2e_id (c0 c1 a : α) (s e1 e2 f : Nat → α) (t : AggTree)
    (hf : t.eval (· + ·) f = phase c0 c1 (t.eval (· + ·) s) + t.eval (· + ·) e1) :
    let ct := s2eEncryption (t.eval (· + ·) fun i => s2eShare 0 a (s i) (e2 i) (f i)) a
    phase ct.1 ct.2 (t.eval (· + ·) s) =
      phase c0 c1 (t.eval (· + ·) s) + t.eval (· + ·) e1 + t.eval (· + ·) e2 := by
  intro ct
  have := s2e_phase a s e2 f t
  simp only at this
  rw [this, hf]

example : (AggTree.leaf 0).eval (· + ·) (fun _ => (7 : Int)) = phase 2 1 5 + 0 := by decide

/-! ## 4. Refresh and masked transform -/

/-- **transform_spec.** For an additive map `T` of the carrier applied by every party to its mask and by
    the finalisation to the masked plaintext, the output ciphertext `(T(masked) + Σ s2e, a)` has phase
    `T(phase(ct, Σ s_in) + Σ e1) + Σ e2` under `Σ s_out`. -/
theorem transform_spec (T : α →+ α) (c0 c1 a : α) (sIn sOut e1 e2 m : Nat → α) (t : AggTree) :
    let shares := fun i => refreshShare 0 c1 a (sIn i) (sOut i) (e1 i) (e2 i) (m i) (T (m i))
    let agg := t.eval refreshAggregate shares
    let out := refreshFinalize (T (e2sMasked c0 agg.1)) agg.2 a
    phase out.1 out.2 (t.eval (· + ·) sOut) =
      T (phase c0 c1 (t.eval (· + ·) sIn) + t.eval (· + ·) e1) + t.eval (· + ·) e2 := by
  intro shares agg out
  have hagg : agg = (t.eval (· + ·) (fun i => e2sShare 0 c1 (sIn i) (e1 i) (m i)),
      t.eval (· + ·) (fun i => s2eShare 0 a (sOut i) (e2 i) (T (m i)))) := by
    simp only [agg, shares]
    induction t with
    | leaf i => rfl
    | node l r ihl ihr => simp only [AggTree.eval, refreshAggregate, ihl, ihr]
  have h1 := e2s_masked c0 c1 sIn e1 m t
  have hm : e2sMasked c0 agg.1 = phase c0 c1 (t.eval (· + ·) sIn) + t.eval (· + ·) e1 - t.eval (· + ·) m := by
    rw [hagg]; simp only; rw [← h1]; ring
  simp only [out, refreshFinalize, hm]
  rw [hagg]
  simp only [s2e_tree, tree_addHom]
  unfold phase s2eShare cksShare
  simp only [map_sub, map_add]
  ring

/-- **refresh_spec.** Refresh is the transform with `T = id`: a fresh ciphertext on the CRP with phase
    `phase(ct, Σ s) + Σ e1 + Σ e2`. -/
theorem refresh_spec (c0 c1 a : α) (s e1 e2 m : Nat → α) (t : AggTree) :
    let shares := fun i => refreshShare 0 c1 a (s i) (s i) (e1 i) (e2 i) (m i) (m i)
    let agg := t.eval refreshAggregate shares
    let out := refreshFinalize (e2sMasked c0 agg.1) agg.2 a
    phase out.1 out.2 (t.eval (· + ·) s) =
      phase c0 c1 (t.eval (· + ·) s) + t.eval (· + ·) e1 + t.eval (· + ·) e2 := by
  have := transform_spec (AddMonoidHom.id α) c0 c1 a s s e1 e2 m t
  simpa using this

/-! ## 5. The smudging noise is in the share, unmodified -/

/-- **smudge_lower.** Every share is its deterministic part plus the sampled smudging error: the
    error enters additively and unscaled (so its standard deviation is the sampler's, reduced to C17). -/
theorem smudge_in_cks_share (c1 sIn sOut e : α) :
    cksShare c1 sIn sOut e - cksShare c1 sIn sOut 0 = e := by
  unfold cksShare; ring

theorem smudge_in_pcks_share (z : α × α) (c1 s e : α) :
    (pcksShare z c1 s e).1 - (pcksShare z c1 s 0).1 = e := by
  unfold pcksShare; ring

theorem smudge_in_refresh_share (c1 a sIn sOut e1 e2 m m' : α) :
    (refreshShare 0 c1 a sIn sOut e1 e2 m m').1 - (refreshShare 0 c1 a sIn sOut 0 0 m m').1 = e1 ∧
    (refreshShare 0 c1 a sIn sOut e1 e2 m m').2 - (refreshShare 0 c1 a sIn sOut 0 0 m m').2 = e2 := by
  unfold refreshShare e2sShare s2eShare cksShare
  constructor <;> ring

end ring

/-! ## 6. Plaintext spaces -/

/-- **BGV, one coefficient.** `RingQ2T` returns the centred representative of `x·t mod Q`, reduced modulo
    `t`. -/
theorem q2t_centred (Q T x : Nat) (v : Int) (hQ : 0 < Q) (hT : 0 < T)
    (hx : v ≡ (x * T : Nat) [ZMOD Q]) (hlo : -((Q / 2 : Nat) : Int) ≤ v)
    (hhi : v < (Q : Int) - ((Q / 2 : Nat) : Int)) :
    ((q2tCoeff Q T x : Nat) : Int) = v % T :=
  Lattigo.MP.q2t_centred Q T x v hQ hT hx hlo hhi

example : q2tCoeff 1009 17 (5 * 831 % 1009) = 5 := by decide  -- 831 = 17⁻¹ mod 1009

/-- **e2s_sum, BGV, exactly modulo t (one coefficient).**  If the masked coefficient `x` of
    `c0 + Σ public shares` satisfies `x·t ≡ msg − Σ masks + t·noise (mod Q)` (which is `e2s_masked`
    multiplied by `t`, the plaintext being embedded as `t⁻¹·msg`) and this integer is within `Q/2`,
    then `RingQ2T(x) + Σ masks ≡ msg (mod t)`: the additive shares sum to the message. -/
theorem e2s_sum_mod_t (Q T x : Nat) (msg masks noise : Int) (hQ : 0 < Q) (hT : 0 < T)
    (hx : msg - masks + T * noise ≡ (x * T : Nat) [ZMOD Q])
    (hlo : -((Q / 2 : Nat) : Int) ≤ msg - masks + T * noise)
    (hhi : msg - masks + T * noise < (Q : Int) - ((Q / 2 : Nat) : Int)) :
    (((q2tCoeff Q T x : Nat) : Int) + masks) % T = msg % T := by
  rw [q2t_centred Q T x _ hQ hT hx hlo hhi, Int.emod_add_emod]
  have : msg - masks + (T : Int) * noise + masks = msg + (T : Int) * noise := by ring
  rw [this, Int.add_mul_emod_self_left]

-- msg = 5, masks = 30, noise = 2: `5 − 30 + 17·2 = 9` -/
example : (((q2tCoeff 1009 17 (9 * 831 % 1009) : Nat) : Int) + 30) % 17 = 5 % 17 := by
  decide

/-- **CKKS.** Rescaling the `k` additive shares one by one (`⌊x_i·Δ_out/Δ_in⌋`, truncated) instead of
    their sum loses at most one unit per share. -/
theorem rescale_err (D S : Int) (hS : 0 < S) (xs : List Int) :
    |S * (rescaleMask D S xs).sum - D * xs.sum| ≤ xs.length * S :=
  rescale_sum_err D S hS xs

example : rescaleMask 8 3 [10, -10, 1] = [26, -26, 2] := by decide

/-- **min_level_spec.** The level returned by (the exact-arithmetic model of)
    `GetMinimumLevelForRefresh` is the SMALLEST level whose modulus reaches
    `2^(logBound + ⌈log2 nParties⌉)`; in particular `Q_minLevel ≥ nParties·2^logBound`: the sum of the
    `nParties` masks of `logBound` bits (each in `[−2^(logBound−1), 2^(logBound−1))`) does not wrap. -/
theorem min_level_spec (lambda scale nParties : Nat) (moduli : List Nat) (L : Nat) (lb : Nat)
    (h : minLevelForRefresh lambda scale nParties moduli = some ((L : Int), lb)) :
    lb = lambda + clog2 scale ∧
    nParties * 2 ^ lb ≤ (moduli.take (L + 1)).prod ∧
    (moduli.take L).prod < 2 ^ (lb + clog2 nParties) := by
  unfold minLevelForRefresh at h
  simp only at h
  split at h
  · simp at h
  · rename_i k hk
    simp only [Option.some.injEq, Prod.mk.injEq] at h
    obtain ⟨hL, hlb⟩ := h
    have hk1 : k = L + 1 := by omega
    subst hk1
    obtain ⟨h1, h2⟩ := primesNeeded_sound moduli _ 1 (L + 1) hk
    refine ⟨hlb.symm, ?_, ?_⟩
    · rw [← hlb]
      calc nParties * 2 ^ (lambda + clog2 scale)
          ≤ 2 ^ clog2 nParties * 2 ^ (lambda + clog2 scale) :=
            Nat.mul_le_mul_right _ (le_two_pow_clog2 nParties)
        _ = 2 ^ (lambda + clog2 scale + clog2 nParties) := by
            rw [Nat.pow_add (2) (lambda + clog2 scale) (clog2 nParties), Nat.mul_comm]
        _ ≤ _ := by simpa using h1
    · rw [← hlb]
      simpa using h2 (Nat.succ_pos _)

/-- three parties, 40-bit masks: a 41.x-bit first prime is NOT enough (⌈log2 3⌉ = 2), level 1 is -/
example : minLevelForRefresh 30 1024 3 [2199023255579, 1073741827] = some (1, 40) := by decide +kernel

/-- **centred masks do not wrap.**  If every mask satisfies `|M_i| ≤ H` (`H = 2^(logBound−1)` for the
    documented centred range `[−2^(logBound−1), 2^(logBound−1))`), the plaintext coefficient `|m| ≤ B` and
    `2·(n·H + B) < Q`, then the masked plaintext `m − Σ M_i` is its own centred representative modulo `Q`
    (`2·|m − Σ M_i| < Q`): EncToShare at that level recovers it without wrap-around.  With `min_level_spec`
    (`n·2^logBound ≤ Q_minLevel`) the condition holds at the minimum level as soon as the slack
    `Q_minLevel − n·2^logBound` exceeds `2B`; it is the predicate computed by `noWrapAtMinLevel`. -/
theorem centred_masks_no_wrap (Q H B m : Int) (masks : List Int)
    (hM : ∀ M ∈ masks, |M| ≤ H) (hm : |m| ≤ B) (hQ : 2 * (masks.length * H + B) < Q) :
    2 * |m - masks.sum| < Q := by
  have h1 := abs_sum_le_of_abs_le H masks hM
  have h2 : |m - masks.sum| ≤ |m| + |masks.sum| := abs_sub _ _
  linarith

/-- masks sampled in `[0, 2^logBound)` (not centred) DO wrap at a minimum level that is tight:
    4 parties, 3-bit masks, `Q = 33 ≥ 4·2^3`, message 1: `1 − (7+7+7+7) = −27`, and `2·27 > 33`. -/
example : ¬ (2 * |(1 : Int) - [7, 7, 7, 7].sum| < 33) := by decide

example : noWrapAtMinLevel 2 2 4 [37, 41] 1 = some (0, 3, true) := by decide +kernel

/-! ## 8. Closing the loop: minimum level ⇒ no wrap; refresh end to end on one coefficient; transform flags -/

/-- **no_wrap_at_min_level (all party counts).**  At the level `L` returned by `GetMinimumLevelForRefresh` (exact
    model `minLevelForRefresh`), with `nParties` masks in the documented centred range
    `[−2^(logBound−1), 2^(logBound−1))` and a plaintext coefficient `|m| ≤ B`, the masked plaintext
    `m − Σ M_i` does not wrap modulo `Q_L` as soon as the SLACK `Q_L − nParties·2^logBound` (which is `≥ 0` by
    `min_level_spec`) exceeds `2B`.  Nothing else is needed: in particular every `nParties ≥ 1`, power of two or not. -/
theorem no_wrap_at_min_level (lambda scale nParties : Nat) (moduli : List Nat) (L lb : Nat)
    (h : minLevelForRefresh lambda scale nParties moduli = some ((L : Int), lb)) (hlb : 1 ≤ lb)
    (masks : List Int) (hn : masks.length = nParties)
    (hM : ∀ M ∈ masks, -(2 ^ (lb - 1) : Int) ≤ M ∧ M < 2 ^ (lb - 1))
    (m B : Int) (hm : |m| ≤ B)
    (hslack : (nParties : Int) * 2 ^ lb + 2 * B < ((moduli.take (L + 1)).prod : Nat)) :
    (nParties : Int) * 2 ^ lb ≤ ((moduli.take (L + 1)).prod : Nat) ∧
    2 * |m - masks.sum| < ((moduli.take (L + 1)).prod : Nat) := by
  obtain ⟨_, hq, _⟩ := min_level_spec lambda scale nParties moduli L lb h
  refine ⟨by exact_mod_cast hq, ?_⟩
  apply centred_masks_no_wrap _ (2 ^ (lb - 1)) B m masks _ hm
  · have h2 : (2 : Int) ^ lb = 2 * 2 ^ (lb - 1) := by
      obtain ⟨k, rfl⟩ : ∃ k, lb = k + 1 := ⟨lb - 1, by omega⟩
      simp [pow_succ, mul_comm]
    rw [hn]
    rw [h2] at hslack
    linarith
  · intro M hMm
    obtain ⟨h1, h2⟩ := hM M hMm
    exact abs_le.mpr ⟨h1, le_of_lt h2⟩

theorem foldl_mul_eq_prod (l : List Nat) (a : Nat) : l.foldl (· * ·) a = a * l.prod := by
  induction l generalizing a with
  | nil => simp
  | cons x xs ih => simp [List.foldl_cons, ih, Nat.mul_assoc]

/-- the predicate the driver computes (`ckks_nowrap`, tied to the harness) is this condition with `B = 2^msgBits`:
    when it answers `true`, EncToShare at the minimum level does not wrap, for every admissible mask vector -/
theorem noWrapAtMinLevel_sound (lambda scale nParties : Nat) (moduli : List Nat) (msgBits L lb : Nat)
    (h : noWrapAtMinLevel lambda scale nParties moduli msgBits = some ((L : Int), lb, true)) (hlb : 1 ≤ lb)
    (masks : List Int) (hn : masks.length = nParties)
    (hM : ∀ M ∈ masks, -(2 ^ (lb - 1) : Int) ≤ M ∧ M < 2 ^ (lb - 1))
    (m : Int) (hm : |m| ≤ 2 ^ msgBits) :
    2 * |m - masks.sum| < ((moduli.take (L + 1)).prod : Nat) := by
  unfold noWrapAtMinLevel at h
  split at h
  · simp at h
  · rename_i ml lb' hml
    simp only [Option.some.injEq, Prod.mk.injEq, decide_eq_true_eq] at h
    obtain ⟨rfl, rfl, hdec⟩ := h
    have hq : (moduli.take ((L : Int) + 1).toNat).foldl (· * ·) 1 = (moduli.take (L + 1)).prod := by
      rw [foldl_mul_eq_prod, Nat.one_mul]; rfl
    rw [hq] at hdec
    refine (no_wrap_at_min_level lambda scale nParties moduli L lb' hml hlb masks hn hM m (2 ^ msgBits) hm ?_).2
    have h2 : (2 : Int) ^ lb' = 2 * 2 ^ (lb' - 1) := by
      obtain ⟨k, rfl⟩ : ∃ k, lb' = k + 1 := ⟨lb' - 1, by omega⟩
      simp [pow_succ, mul_comm]
    generalize (moduli.take (L + 1)).prod = Qn at hdec ⊢
    have : ((2 * (nParties * 2 ^ (lb' - 1) + 2 ^ msgBits) : Nat) : Int) < (Qn : Int) := by
      exact_mod_cast hdec
    push_cast at this
    rw [h2]; linarith

/-- four parties, 3-bit masks, `Q_0 = 37`: admissible masks never wrap a message `|m| ≤ 2` -/
example : 2 * |(2 : Int) - [-4, 3, -4, -4].sum| < 37 :=
  noWrapAtMinLevel_sound 2 2 4 [37, 41] 1 0 3 (by decide +kernel) (by decide) _ rfl (by decide) 2 (by decide)

/-- **CKKS refresh on one coefficient, end to end.**  The finaliser rescales the masked value `m − Σ M_i`, every party
    rescales its own mask; the re-assembled coefficient `⌊(m − ΣM_i)·Δout/Δin⌋ + Σ ⌊M_i·Δout/Δin⌋` differs from
    `m·Δout/Δin` by less than one unit per rescaling (`n + 1` of them), whatever the masks. -/
theorem ckks_refresh_rescale (D S : Int) (hS : 0 < S) (m : Int) (masks : List Int) :
    |S * ((rescaleMask D S [m - masks.sum]).sum + (rescaleMask D S masks).sum) - D * m| ≤ (masks.length + 1) * S := by
  have h := rescale_err D S hS ((m - masks.sum) :: masks)
  simp only [rescaleMask, List.map_cons, List.map_nil, List.sum_cons, List.sum_nil, List.length_cons, add_zero] at h ⊢
  have e : m - masks.sum + masks.sum = m := by ring
  rw [e] at h
  push_cast at h
  exact h

example : |(3 : Int) * ((rescaleMask 8 3 [10 - [7, -9].sum]).sum + (rescaleMask 8 3 [7, -9]).sum) - 8 * 10| ≤ 3 * 3 := by
  decide

/-- the map a masked transform applies in the plaintext space, for the four `Decode`/`Encode` flag combinations:
    `Encode? ∘ f ∘ Decode?` -/
def flagsMap {M : Type} [AddCommGroup M] (dec enc : Bool) (D E F : M →+ M) : M →+ M :=
  (if enc then E else AddMonoidHom.id M).comp (F.comp (if dec then D else AddMonoidHom.id M))

/-- **transform_flags (all four combinations).**  In the plaintext space (any additive commutative group `M`: `R_t` for
    BGV, the integer / big-float vectors for CKKS), with additive decoding `D`, encoding `E` and user function `F`:
    the finaliser's `T(m − Σ M_i)` plus the parties' `Σ T(M_i)` is `T(m)` for `T = Encode? ∘ F ∘ Decode?`, whichever
    flags are set.  With `transform_spec` (ring level) this is `transform_applies_f`.  (That the real encoders are
    additive is C07's subject; an `F` that is not additive breaks the protocol: see the example below.) -/
theorem transform_flags {M : Type} [AddCommGroup M] (dec enc : Bool) (D E F : M →+ M) (m : M) (masks : List M) :
    flagsMap dec enc D E F (m - masks.sum) + (masks.map (flagsMap dec enc D E F)).sum = flagsMap dec enc D E F m := by
  have hs : (masks.map (flagsMap dec enc D E F)).sum = flagsMap dec enc D E F masks.sum := by
    induction masks with
    | nil => simp
    | cons x xs ih => simp [ih]
  rw [hs, ← map_add]; congr 1; abel

/-- decode-then-encode with `E ∘ D = id` and the identity function is the refresh, for both flags set -/
theorem transform_flags_refresh {M : Type} [AddCommGroup M] (D E : M →+ M) (hED : ∀ x, E (D x) = x) (m : M)
    (masks : List M) :
    flagsMap true true D E (AddMonoidHom.id M) (m - masks.sum)
      + (masks.map (flagsMap true true D E (AddMonoidHom.id M))).sum = m := by
  rw [transform_flags]; simp [flagsMap, hED]

/-- instance in `Z_97`: decoding = multiplication by 3, encoding = by 65 = 3⁻¹, `f` = doubling; all four flag pairs -/
example : ∀ dec enc : Bool,
    flagsMap dec enc (AddMonoidHom.mulLeft (3 : ZMod 97)) (AddMonoidHom.mulLeft 65) (AddMonoidHom.mulLeft 2)
        ((10 : ZMod 97) - [5, 80].sum)
      + ([5, 80].map (flagsMap dec enc (AddMonoidHom.mulLeft (3 : ZMod 97)) (AddMonoidHom.mulLeft 65)
          (AddMonoidHom.mulLeft 2))).sum
    = flagsMap dec enc (AddMonoidHom.mulLeft (3 : ZMod 97)) (AddMonoidHom.mulLeft 65) (AddMonoidHom.mulLeft 2) 10 :=
  fun dec enc => transform_flags dec enc _ _ _ _ _

/-- a function that is not additive (squaring in `Z_97`) does NOT commute with the masking -/
example : ((10 : ZMod 97) - (5 + 80)) ^ 2 + ((5 : ZMod 97) ^ 2 + 80 ^ 2) ≠ 10 ^ 2 := by decide

end Lattigo.Props.C16

#print axioms Lattigo.Props.C16.no_wrap_at_min_level
#print axioms Lattigo.Props.C16.noWrapAtMinLevel_sound
#print axioms Lattigo.Props.C16.ckks_refresh_rescale
#print axioms Lattigo.Props.C16.transform_flags
#print axioms Lattigo.Props.C16.transform_flags_refresh
#print axioms Lattigo.Props.C16.centred_masks_no_wrap
#print axioms Lattigo.Props.C16.min_level_spec
#print axioms Lattigo.Props.C16.cks_collective
#print axioms Lattigo.Props.C16.cks_phase
#print axioms Lattigo.Props.C16.cks_decrypt
#print axioms Lattigo.Props.C16.cks_below_level_panics
#print axioms Lattigo.Props.C16.cks_agg_ok
#print axioms Lattigo.Props.C16.cks_level_mismatch_rejected
#print axioms Lattigo.Props.C16.pcks_phase
#print axioms Lattigo.Props.C16.pcks_zero_noise
#print axioms Lattigo.Props.C16.pcks_zero_noise_noP
#print axioms Lattigo.Props.C16.e2s_masked
#print axioms Lattigo.Props.C16.s2e_phase
#print axioms Lattigo.Props.C16.e2s_s2e_id
#print axioms Lattigo.Props.C16.transform_spec
#print axioms Lattigo.Props.C16.refresh_spec
#print axioms Lattigo.Props.C16.smudge_in_cks_share
#print axioms Lattigo.Props.C16.smudge_in_pcks_share
#print axioms Lattigo.Props.C16.smudge_in_refresh_share
#print axioms Lattigo.Props.C16.q2t_centred
#print axioms Lattigo.Props.C16.e2s_sum_mod_t
#print axioms Lattigo.Props.C16.rescale_err
