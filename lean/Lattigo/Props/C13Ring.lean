/-
  C13 on the ring the ciphertexts live in.

  `Props/C13.lean` (layer (A)) proves `powerbasis_spec_*`, `factorize_spec_*`, `ps_spec_*` for the generic
  functions `powVal`, `evalBasis`, `factorize`, `psRec` of `Model/PolyEval.lean` over EVERY commutative ring `R`,
  with the value operations `ringOps R`.  Here they are instantiated at `R := WFPoly qs n`
  (`Proofs/RPolyRing.lean`: the well-formed RNS polynomials modulo `X^n+1` over the chain `qs`, a `CommRing`
  whose operations are the model's) and transported to plain `RPoly` values:

    value operations = `rpOps qs n` : `+ − *` of `RPoly`, `ofNat k = (rpOne qs n).scale k` (the constant `k`);
    hypotheses       = well-formedness of the INPUTS (`WFq qs n x`, every coefficient `WFq qs n c`);
    conclusion       = the same identity between `RPoly` values; `x^k` is `rpPow qs n x k` (iterated model
                       product starting from `rpOne`), `T_k(x)` is `chebR qs n x k` (three-term recursion
                       `T_{k+2} = 2·x·T_{k+1} − T_k` with the model's operations).

  1. naturality of `powVal / evalFrom / evalBasis / factorize / psRec` w.r.t. maps of value operations;
  2. the `…_rpoly` theorems (+ closure: the result of `psRec` is well formed);
  3. a concrete instance (`qs = [97, 193]`, `n = 8`, degree 5, `logSplit = 1`).

  Vacuity check: none of the generic theorems has a hypothesis on abstract maps; the only hypothesis
  (`factorize_spec_chebyshev`: `deg p ≤ 2n`) is on the list length and is met by the instance below.

  NOT applicable: there is no `…_calls` theorem — the driver (`Driver/C13.lean`) runs layer (A) on `Int`
  (`intOps`, `ps_spec_int`) and layer (B) on the machine of levels/scales/slot values, never on `RPoly`.
  Layer (B) (`depth_spec`, `target_scale`, …) is about `Nat`/`Int` data: nothing to transport.
-/
import Lattigo.Proofs.RPolyTransport
import Lattigo.Proofs.PolyEval
import Lattigo.Proofs.PolyEvalCheb

set_option linter.unusedSectionVars false
set_option linter.unusedSimpArgs false

namespace Lattigo.Props.C13Ring
open Lattigo Lattigo.Model.PolyEval Lattigo.RPolyRing Lattigo.Transport

/-! ## 1. Naturality -/

/-- `φ` is a homomorphism of value operations -/
structure ValHom {α β : Type} (O : ValOps α) (O' : ValOps β) (φ : α → β) : Prop where
  add : ∀ x y, φ (O.add x y) = O'.add (φ x) (φ y)
  sub : ∀ x y, φ (O.sub x y) = O'.sub (φ x) (φ y)
  mul : ∀ x y, φ (O.mul x y) = O'.mul (φ x) (φ y)
  ofNat : ∀ k, φ (O.ofNat k) = O'.ofNat k

section naturality
variable {α β : Type} {O : ValOps α} {O' : ValOps β} {φ : α → β} (h : ValHom O O' φ)
include h

theorem powVal_push (cheb : Bool) (x : α) : ∀ (fuel k : ℕ),
    φ (powVal O cheb x fuel k) = powVal O' cheb (φ x) fuel k
  | 0, _ => h.ofNat 0
  | fuel + 1, k => by
    unfold powVal
    by_cases h0 : k = 0
    · simp only [h0, if_true, h.ofNat]
    · by_cases h1 : k = 1
      · simp only [h1, if_true, if_false, one_ne_zero]
      · simp only [h0, h1, if_false]
        cases cheb
        · simp only [Bool.false_eq_true, if_false, h.mul, powVal_push false x fuel]
        · simp only [if_true, h.sub, h.mul, h.ofNat, powVal_push true x fuel]

theorem evalFrom_push (cheb : Bool) (x : α) : ∀ (k : ℕ) (l : List α),
    φ (evalFrom O cheb x k l) = evalFrom O' cheb (φ x) k (l.map φ)
  | _, [] => h.ofNat 0
  | k, c :: cs => by
    simp only [evalFrom, List.map_cons, h.add, h.mul, powVal_push h, evalFrom_push cheb x (k + 1) cs]

theorem evalBasis_push (cheb : Bool) (x : α) (l : List α) :
    φ (evalBasis O cheb x l) = evalBasis O' cheb (φ x) (l.map φ) := evalFrom_push h cheb x 0 l

theorem getD_push (l : List α) (i : ℕ) (z : α) : φ (l.getD i z) = (l.map φ).getD i (φ z) := by
  simp only [List.getD_eq_getElem?_getD, List.getElem?_map]
  cases l[i]? <;> rfl

theorem factorize_push (cheb : Bool) (m : ℕ) (p : List α) :
    (factorize O cheb m p).1.map φ = (factorize O' cheb m (p.map φ)).1
    ∧ (factorize O cheb m p).2.map φ = (factorize O' cheb m (p.map φ)).2 := by
  cases cheb
  · simp only [factorize, Bool.not_false, if_true, List.map_drop, List.map_take, and_self]
  · simp only [factorize, Bool.not_true, Bool.false_eq_true, if_false]
    refine ⟨?_, ?_⟩
    · rw [← List.map_drop]
      cases p.drop m with
      | nil => rfl
      | cons c cs =>
        simp only [List.map_cons, List.map_map, Function.comp_def, h.mul, h.ofNat]
    · simp only [List.map_map, Function.comp_def, List.length_map]
      apply List.map_congr_left
      intro i _
      split
      · rw [h.sub, getD_push h, getD_push h, h.ofNat]
      · rw [getD_push h, h.ofNat]

theorem psRec_push (cheb : Bool) (logSplit : ℕ) (x : α) : ∀ (fuel : ℕ) (p : List α),
    φ (psRec O cheb logSplit x fuel p) = psRec O' cheb logSplit (φ x) fuel (p.map φ)
  | 0, p => evalBasis_push h cheb x p
  | fuel + 1, p => by
    unfold psRec
    simp only [List.length_map]
    split
    · exact evalBasis_push h cheb x p
    · simp only [h.add, h.mul, powVal_push h, psRec_push cheb logSplit x fuel,
        (factorize_push h cheb _ p).1, (factorize_push h cheb _ p).2]

end naturality

/-! ## 2. The value operations of `RPoly` and the theorems on `RPoly` values -/

/-- the value operations of the model on `RPoly`s over the chain `qs`, degree `n`:
`ofNat k` is the constant polynomial `k` (`rpOne` scaled by `k`) -/
def rpOps (qs : List ℕ) (n : ℕ) : ValOps RPoly :=
  { add := (· + ·), sub := (· - ·), mul := (· * ·), ofNat := fun k => (rpOne qs n).scale k }

/-- `x^k` with the model's product: `x^0 = 1` (`rpOne`), `x^{k+1} = x^k · x` -/
def rpPow (qs : List ℕ) (n : ℕ) (x : RPoly) : ℕ → RPoly
  | 0 => rpOne qs n
  | k + 1 => rpPow qs n x k * x

/-- `T_k(x)` with the model's operations: `T_0 = 1`, `T_1 = x`, `T_{k+2} = 2·x·T_{k+1} − T_k` -/
def chebR (qs : List ℕ) (n : ℕ) (x : RPoly) : ℕ → RPoly
  | 0 => rpOne qs n
  | 1 => x
  | k + 2 => (rpOne qs n).scale 2 * x * chebR qs n x (k + 1) - chebR qs n x k

section rpoly
variable {qs : List ℕ} {n : ℕ} [Good qs n]

/-- the natural number `k` in the ring `WFPoly qs n` is the constant polynomial `k` of the model -/
theorem val_natCast (k : ℕ) : val ((k : ℕ) : WFPoly qs n) = (rpOne qs n).scale k := by
  have h := WFPoly.scale_eq_mul_natCast (1 : WFPoly qs n) k
  rw [one_mul] at h
  rw [← h]; rfl

/-- **the ring operations of `WFPoly qs n` are `rpOps qs n` on the underlying values** -/
theorem val_valHom : ValHom (ringOps (WFPoly qs n)) (rpOps qs n) val :=
  ⟨fun _ _ => rfl, fun _ _ => rfl, fun _ _ => rfl, fun k => val_natCast k⟩

theorem val_pow (x : WFPoly qs n) : ∀ k : ℕ, val (x ^ k) = rpPow qs n (val x) k
  | 0 => by rw [pow_zero]; rfl
  | k + 1 => by rw [pow_succ, val_mul, val_pow x k]; rfl

open Polynomial in
theorem val_cheb (x : WFPoly qs n) : ∀ k : ℕ,
    val ((Chebyshev.T (WFPoly qs n) (k : ℤ)).eval x) = chebR qs n (val x) k
  | 0 => by simp only [Nat.cast_zero, Chebyshev.T_zero, eval_one]; rfl
  | 1 => by simp only [Nat.cast_one, Chebyshev.T_one, eval_X]; rfl
  | k + 2 => by
    have e : ((k + 2 : ℕ) : ℤ) = (k : ℤ) + 2 := by push_cast; ring
    have e1 : ((k + 1 : ℕ) : ℤ) = (k : ℤ) + 1 := by push_cast; ring
    rw [e, Chebyshev.T_add_two, eval_sub, eval_mul, eval_mul, eval_ofNat, eval_X, val_sub, val_mul, val_mul,
      ← e1, val_cheb x (k + 1), val_cheb x k]
    have h2 : val ((OfNat.ofNat 2 : WFPoly qs n)) = (rpOne qs n).scale 2 := by
      rw [← val_natCast 2]; congr 1
    rw [h2]; rfl

theorem WFq.pow {x : RPoly} (hx : WFq qs n x) (k : ℕ) : WFq qs n (rpPow qs n x k) := by
  obtain ⟨x, rfl⟩ := exists_lift x hx
  rw [← val_pow]; exact val_wf _

/-- **powerbasis_spec_monomial_rpoly.**  The power basis of a well-formed `x` holds `x^k` at index `k`. -/
theorem powerbasis_spec_monomial_rpoly (x : RPoly) (hx : WFq qs n x) (k : ℕ) :
    powVal (rpOps qs n) false x (k + 1) k = rpPow qs n x k := by
  obtain ⟨x, rfl⟩ := exists_lift x hx
  have h := congrArg val (powVal_monomial x (k + 1) k (by omega) (by omega))
  rw [powVal_push val_valHom, val_pow] at h
  exact h

/-- **powerbasis_spec_chebyshev_rpoly.**  … resp. `T_k(x)` in the Chebyshev basis. -/
theorem powerbasis_spec_chebyshev_rpoly (x : RPoly) (hx : WFq qs n x) (k : ℕ) :
    powVal (rpOps qs n) true x (k + 1) k = chebR qs n x k := by
  obtain ⟨x, rfl⟩ := exists_lift x hx
  have h := congrArg val (powVal_chebyshev x (k + 1) k (by omega) (by omega))
  rw [powVal_push val_valHom, val_cheb] at h
  exact h

/-- **factorize_spec_monomial_rpoly.**  `p(x) = q(x)·x^m + r(x)`, `deg r < m`, for `(q, r) = Factorize(m)`:
every well-formed `x`, every list of well-formed coefficients, every `m`. -/
theorem factorize_spec_monomial_rpoly (x : RPoly) (hx : WFq qs n x) (m : ℕ) (p : List RPoly)
    (hp : ∀ c ∈ p, WFq qs n c) :
    evalBasis (rpOps qs n) false x p
      = evalBasis (rpOps qs n) false x (factorize (rpOps qs n) false m p).1 * rpPow qs n x m
        + evalBasis (rpOps qs n) false x (factorize (rpOps qs n) false m p).2
    ∧ (factorize (rpOps qs n) false m p).2.length ≤ m := by
  obtain ⟨x, rfl⟩ := exists_lift x hx
  obtain ⟨p, rfl⟩ := exists_lift_list p hp
  obtain ⟨h1, h2⟩ := factorize_monomial x m p
  have h := congrArg val h1
  rw [val_add, val_mul, evalBasis_push val_valHom, evalBasis_push val_valHom, evalBasis_push val_valHom,
    (factorize_push val_valHom false m p).1, (factorize_push val_valHom false m p).2, val_pow] at h
  refine ⟨h, ?_⟩
  rw [← (factorize_push val_valHom false m p).2, List.length_map]
  exact h2

/-- **factorize_spec_chebyshev_rpoly.**  `p(x) = q(x)·T_m(x) + r(x)` in the Chebyshev basis, `r` has exactly
`m` coefficients; every coefficient list with `deg p ≤ 2m`. -/
theorem factorize_spec_chebyshev_rpoly (x : RPoly) (hx : WFq qs n x) (m : ℕ) (p : List RPoly)
    (hp : ∀ c ∈ p, WFq qs n c) (hlen : p.length ≤ 2 * m + 1) :
    evalBasis (rpOps qs n) true x p
      = evalBasis (rpOps qs n) true x (factorize (rpOps qs n) true m p).1 * chebR qs n x m
        + evalBasis (rpOps qs n) true x (factorize (rpOps qs n) true m p).2
    ∧ (factorize (rpOps qs n) true m p).2.length = m := by
  obtain ⟨x, rfl⟩ := exists_lift x hx
  obtain ⟨p, rfl⟩ := exists_lift_list p hp
  obtain ⟨h1, h2⟩ := factorize_chebyshev x m p (by simpa using hlen)
  rw [powVal_chebyshev x (m + 1) m (by omega) (by omega)] at h1
  have h := congrArg val h1
  rw [val_add, val_mul, evalBasis_push val_valHom, evalBasis_push val_valHom, evalBasis_push val_valHom,
    (factorize_push val_valHom true m p).1, (factorize_push val_valHom true m p).2, val_cheb] at h
  refine ⟨h, ?_⟩
  rw [← (factorize_push val_valHom true m p).2, List.length_map]
  exact h2

/-- **ps_spec_rpoly.**  The Paterson–Stockmeyer recursion on `RPoly` values returns `p(x) = Σ_i c_i·B_i(x)`
(`B_i = x^i` resp. `T_i(x)`), for every well-formed `x`, every list of well-formed coefficients (zero
leading / trailing ones included), both bases, every `logSplit`, every fuel. -/
theorem ps_spec_rpoly (cheb : Bool) (logSplit : ℕ) (x : RPoly) (hx : WFq qs n x) (fuel : ℕ) (p : List RPoly)
    (hp : ∀ c ∈ p, WFq qs n c) :
    psRec (rpOps qs n) cheb logSplit x fuel p = evalBasis (rpOps qs n) cheb x p := by
  obtain ⟨x, rfl⟩ := exists_lift x hx
  obtain ⟨p, rfl⟩ := exists_lift_list p hp
  have h : psRec (ringOps (WFPoly qs n)) cheb logSplit x fuel p = evalBasis (ringOps (WFPoly qs n)) cheb x p := by
    cases cheb
    · exact psRec_monomial logSplit x fuel p
    · exact psRec_chebyshev logSplit x fuel p
  have h' := congrArg val h
  rw [psRec_push val_valHom, evalBasis_push val_valHom] at h'
  exact h'

theorem ps_spec_monomial_rpoly (logSplit : ℕ) (x : RPoly) (hx : WFq qs n x) (fuel : ℕ) (p : List RPoly)
    (hp : ∀ c ∈ p, WFq qs n c) :
    psRec (rpOps qs n) false logSplit x fuel p = evalBasis (rpOps qs n) false x p :=
  ps_spec_rpoly false logSplit x hx fuel p hp

theorem ps_spec_chebyshev_rpoly (logSplit : ℕ) (x : RPoly) (hx : WFq qs n x) (fuel : ℕ) (p : List RPoly)
    (hp : ∀ c ∈ p, WFq qs n c) :
    psRec (rpOps qs n) true logSplit x fuel p = evalBasis (rpOps qs n) true x p :=
  ps_spec_rpoly true logSplit x hx fuel p hp

/-- the specification `evalBasis` in the monomial basis is Horner-free: `Σ_i c_i · x^i` with `rpPow` -/
theorem evalFrom_monomial_rpoly (x : RPoly) (hx : WFq qs n x) : ∀ (k : ℕ) (p : List RPoly),
    evalFrom (rpOps qs n) false x k p
      = match p with
        | [] => (rpOne qs n).scale 0
        | c :: cs => c * rpPow qs n x k + evalFrom (rpOps qs n) false x (k + 1) cs
  | _, [] => rfl
  | k, c :: cs => by
    show c * powVal (rpOps qs n) false x (k + 1) k + _ = _
    rw [powerbasis_spec_monomial_rpoly x hx k]

/-- closure: the value of the recursion on well-formed data is well formed -/
theorem psRec_wf (cheb : Bool) (logSplit : ℕ) (x : RPoly) (hx : WFq qs n x) (fuel : ℕ) (p : List RPoly)
    (hp : ∀ c ∈ p, WFq qs n c) : WFq qs n (psRec (rpOps qs n) cheb logSplit x fuel p) := by
  obtain ⟨x, rfl⟩ := exists_lift x hx
  obtain ⟨p, rfl⟩ := exists_lift_list p hp
  rw [← psRec_push val_valHom]
  exact val_wf _

end rpoly

/-! ## 3. A concrete instance: `qs = [97, 193]`, `n = 8`, degree 5 -/

section concrete

instance good8 : Good [97, 193] 8 := ⟨by decide, by decide⟩

def x8 : RPoly := ⟨[97, 193], [[1, 2, 3, 4, 5, 6, 7, 8], [10, 20, 30, 40, 50, 60, 70, 80]]⟩
/-- coefficients: constants `5, 7, 0, 13` and two genuine polynomials -/
def p8 : List RPoly :=
  [(rpOne [97, 193] 8).scale 5, (rpOne [97, 193] 8).scale 7, (rpOne [97, 193] 8).scale 0,
   (rpOne [97, 193] 8).scale 13,
   ⟨[97, 193], [[0, 1, 0, 0, 0, 0, 0, 96], [0, 1, 0, 0, 0, 0, 0, 192]]⟩,
   ⟨[97, 193], [[3, 0, 0, 0, 1, 0, 0, 0], [3, 0, 0, 0, 1, 0, 0, 0]]⟩]

theorem hyps8 : WFq [97, 193] 8 x8 ∧ ∀ c ∈ p8, WFq [97, 193] 8 c := by decide +kernel

/-- instances obtained FROM THE THEOREMS (all hypotheses discharged): Paterson–Stockmeyer with
`logSplit = 1` on a degree-5 polynomial, both bases; the split `p = q·X^4 + r`, resp. `q·T_4 + r` -/
example : psRec (rpOps [97, 193] 8) false 1 x8 7 p8 = evalBasis (rpOps [97, 193] 8) false x8 p8 :=
  ps_spec_monomial_rpoly 1 x8 hyps8.1 7 p8 hyps8.2
example : psRec (rpOps [97, 193] 8) true 1 x8 7 p8 = evalBasis (rpOps [97, 193] 8) true x8 p8 :=
  ps_spec_chebyshev_rpoly 1 x8 hyps8.1 7 p8 hyps8.2
example : evalBasis (rpOps [97, 193] 8) true x8 p8
    = evalBasis (rpOps [97, 193] 8) true x8 (factorize (rpOps [97, 193] 8) true 4 p8).1 * chebR [97, 193] 8 x8 4
      + evalBasis (rpOps [97, 193] 8) true x8 (factorize (rpOps [97, 193] 8) true 4 p8).2 :=
  (factorize_spec_chebyshev_rpoly x8 hyps8.1 4 p8 hyps8.2 (by decide)).1

/-- TEST (evaluation of the model on these values): the same identities, and the power basis -/
example : psRec (rpOps [97, 193] 8) false 1 x8 7 p8 = evalBasis (rpOps [97, 193] 8) false x8 p8 := by
  decide +kernel
example : psRec (rpOps [97, 193] 8) true 1 x8 7 p8 = evalBasis (rpOps [97, 193] 8) true x8 p8 := by
  decide +kernel
example : powVal (rpOps [97, 193] 8) false x8 6 5 = rpPow [97, 193] 8 x8 5
    ∧ powVal (rpOps [97, 193] 8) true x8 6 5 = chebR [97, 193] 8 x8 5 := by decide +kernel
/-- the recursion really recurses on this input (degree `5 ≥ 2^logSplit`), and the value is not trivial -/
example : ¬ (p8.length - 1 < 2 ^ 1) ∧ psRec (rpOps [97, 193] 8) false 1 x8 7 p8 ≠ RPoly.zero [97, 193] 8 := by
  decide +kernel

end concrete

end Lattigo.Props.C13Ring

#print axioms Lattigo.Props.C13Ring.val_valHom
#print axioms Lattigo.Props.C13Ring.powerbasis_spec_monomial_rpoly
#print axioms Lattigo.Props.C13Ring.powerbasis_spec_chebyshev_rpoly
#print axioms Lattigo.Props.C13Ring.factorize_spec_monomial_rpoly
#print axioms Lattigo.Props.C13Ring.factorize_spec_chebyshev_rpoly
#print axioms Lattigo.Props.C13Ring.ps_spec_rpoly
#print axioms Lattigo.Props.C13Ring.ps_spec_monomial_rpoly
#print axioms Lattigo.Props.C13Ring.ps_spec_chebyshev_rpoly
#print axioms Lattigo.Props.C13Ring.evalFrom_monomial_rpoly
#print axioms Lattigo.Props.C13Ring.psRec_wf
