/-
  C03 ⟵ C02: public-key encryption with the auxiliary modulus, the rounding hypothesis DISCHARGED.

  `Props/C03Ring.dec_enc_pk_P_rpoly` takes ABSTRACT `ext`, `down`, `rem` with the rounding identity
  `P·down x = π x − π(rem x)` as a hypothesis.  Here they are the functions the model (`RLWE.RQ.encryptZeroAt`) calls:
  `ext = RQ.extSmall ps`, `down = RQ.modDown #qs`, `rem = StackKS.remC` (the centred remainder modulo `P`: C02's
  `centeredRep P` of the CRT value of every coefficient), `P = Π ps` as a constant of `R_Q`, and the identity is PROVED
  (`StackKS.rq_modDown_closed`: `RPoly.crt` reconstructs by C02's `hps_sum_eq`, `P·P⁻¹ = 1` by `modInv_spec`), for every
  chain `qs ++ ps` of pairwise coprime odd moduli, every `n ≥ 1`, all well-formed inputs.  `RQ.modDown` uses no
  floating point: there is NO hypothesis on any index.

  * `dec_enc_pk_P_closed` : decryption of an encryption under the public key is `pt + D`,
        `P·D = π(ext u·e_pk + ext e0 + ext e1·s) − π(rem c0) − π(rem c1)·π s`,
        `rem c_i ≡ c_i (mod P)`, `2‖rem c_i‖∞ ≤ P`;
  * `dec_enc_pk_P_rq`     : the same about the expression the driver evaluates on its carrier `RQ`;
  * `extR_ofInts`         : `ExtendBasisSmallNormAndCenter` of the reduction of a small integer polynomial is its
        reduction modulo `QP` (`2|x| < q₀`, `|x| ≤ p_k < 2^64`; C02's `extendSmallNorm` at the level of the model);
  * `dec_enc_pk_P_noise_closed` : with `u, e0, e1, e_pk, s` reductions of integer polynomials, `D = ofInts D^Z` with
        `2P‖D^Z‖∞ ≤ 2‖u·e_pk + e0 + s·e1‖∞ + P(1 + ‖s‖₁)` — `Props/C03.noise_upper_pk_P` with `hrel`, `hd0`, `hd1` derived
        (through `Proofs/StackKSZ`: `ofInts : Z[X]/(X^n+1) → R_q` is a ring homomorphism).
-/
import Lattigo.Props.C03Ring
import Lattigo.Proofs.StackKSExact
import Lattigo.Proofs.StackKSNoise

set_option linter.unusedSectionVars false
set_option linter.unusedSimpArgs false

namespace Lattigo.Props.C03Stack
open Lattigo Lattigo.RLWE Lattigo.RPolyRing Lattigo.Transport Lattigo.Props.C03Ring Lattigo.StackKS
open Lattigo.Scaling (prodN)

/-- the model's basis extension / rounded division, on plain `RPoly` values (standard ring) -/
def extR (ps : List ℕ) (x : RPoly) : RPoly := (RQ.extSmall ps (std x)).p
def downR (nQ : ℕ) (x : RPoly) : RPoly := (RQ.modDown nQ (std x)).p

theorem std_extR (ps : List ℕ) (x : RPoly) : RQ.extSmall ps (std x) = std (extR ps x) := rfl
theorem std_downR (nQ : ℕ) (x : RPoly) : RQ.modDown nQ (std x) = std (downR nQ x) := rfl

section ext
variable {qs ps : List ℕ} {n : ℕ}

/-- rows over `Q` followed by rows over `P` -/
theorem append_rows_wf (xc rowsP : List (List ℕ)) (hx : WFq qs n ⟨qs, xc⟩) (hP : WFq ps n ⟨ps, rowsP⟩) :
    WFq (qs ++ ps) n ⟨qs ++ ps, xc ++ rowsP⟩ := by
  have hl : xc.length = qs.length := hx.2.1
  have hlP : rowsP.length = ps.length := hP.2.1
  refine ⟨rfl, by show (xc ++ rowsP).length = (qs ++ ps).length; simp [hl, hlP], fun i hi => ?_⟩
  have hi' : i < (qs ++ ps).length := hi
  have hi2 : i < qs.length + ps.length := by simpa using hi'
  show RowWF ((qs ++ ps)[i]) n ((xc ++ rowsP).getD i [])
  by_cases hlt : i < qs.length
  · rw [List.getElem_append_left hlt]
    have e2 : (xc ++ rowsP).getD i [] = xc.getD i [] := by
      simp [List.getD_eq_getElem?_getD, List.getElem?_append_left (by omega : i < xc.length)]
    rw [e2]; exact hx.2.2 i hlt
  · have hj : i - qs.length < ps.length := by omega
    rw [List.getElem_append_right (by omega)]
    have e2 : (xc ++ rowsP).getD i [] = rowsP.getD (i - qs.length) [] := by
      simp [List.getD_eq_getElem?_getD, List.getElem?_append_right (by omega : xc.length ≤ i), hl]
    rw [e2]; exact hP.2.2 (i - qs.length) hj

/-- `ExtendBasisSmallNormAndCenter` maps well-formed values of `R_Q` to well-formed values of `R_{QP}` -/
theorem extR_wf [hg : Good (qs ++ ps) n] (hqs : qs ≠ []) {x : RPoly} (hx : WFq qs n x) :
    WFq (qs ++ ps) n (extR ps x) := by
  have hhead : (x.c.headD []).length = n := headD_length hx hqs
  obtain ⟨xq, xc⟩ := x
  have h1 : xq = qs := hx.1
  subst h1
  show WFq (xq ++ ps) n ⟨xq ++ ps, xc ++ ps.map _⟩
  refine append_rows_wf xc _ hx ⟨rfl, by simp, fun i hi => ?_⟩
  have hi' : i < ps.length := hi
  have hp2 : 2 ≤ ps[i] := hg.q_ge _ (List.mem_append_right _ (List.getElem_mem hi'))
  show RowWF ps[i] n ((ps.map _).getD i [])
  rw [List.getD_eq_getElem?_getD, List.getElem?_map, List.getElem?_eq_getElem hi']
  refine ⟨by simp only [Option.map_some, Option.getD_some, List.length_map]; exact hhead, fun y hy => ?_⟩
  simp only [Option.map_some, Option.getD_some, List.mem_map] at hy
  obtain ⟨c, _, rfl⟩ := hy
  split <;> exact Nat.mod_lt _ (by omega)

end ext

section closed
variable {qs ps : List ℕ} {n : ℕ} [hgq : Good qs n] [hg : Good (qs ++ ps) n] {μ : Type}

/-- **dec_enc_pk_P_closed.**  Public-key encryption with the auxiliary modulus followed by decryption, with the
model's own `ExtendBasisSmallNormAndCenter` (`extR`), `ModDownQPtoQ` (`downR`) and centred remainder (`remC`):
the plaintext comes back plus `D`, where `P·D` is the encryption noise modulo `QP` minus the centred remainders
modulo `P` of the two components; the remainders are congruent to the components modulo `P` and bounded by `P/2`. -/
theorem dec_enc_pk_P_closed (hqs : qs ≠ []) (hps : ps ≠ []) (hco : (qs ++ ps).Pairwise Nat.Coprime)
    (hodd : ∀ q ∈ qs ++ ps, q % 2 = 1)
    (ntt intt : RPoly → RPoly) (pt : Pt RPoly μ) (ct : Ct RPoly μ) (o0 o1 : RPoly) (rest : List RPoly)
    (hct : ct.value = o0 :: o1 :: rest)
    (u e0 e1 : RPoly) (pk0 pk1 epk sQP : RPoly) (hpk : pk0 + pk1 * sQP = epk)
    (hpt : WFq qs n pt.value) (hctwf : ∀ p ∈ ct.value, WFq qs n p)
    (hu : WFq qs n u) (he0 : WFq qs n e0) (he1 : WFq qs n e1)
    (hpk0 : WFq (qs ++ ps) n pk0) (hpk1 : WFq (qs ++ ps) n pk1) (hs : WFq (qs ++ ps) n sQP) :
    let π := takeRows qs.length
    let P := constQ qs n (RPoly.prod ps)
    let c0 := extR ps u * pk0 + extR ps e0
    let c1 := extR ps u * pk1 + extR ps e1
    let D := downR qs.length c0 + π sQP * downR qs.length c1
    ((encrypt (ezPk rpMont rpMont (extR ps) (downR qs.length) u e0 e1 (rpMont.toM pk0) (rpMont.toM pk1))
          ntt intt (some pt) ct).bind (fun ct' => decrypt rpMont ct' (rpMont.toM (π sQP)))
        = some { value := pt.value + montIf rpMont pt.md.isMont D, md := pt.md })
      ∧ P * D = π (extR ps u * epk + extR ps e0 + extR ps e1 * sQP)
                  - π (remC qs ps c0) - π (remC qs ps c1) * π sQP
      ∧ KS.partP qs.length (remC qs ps c0) = KS.partP qs.length c0
      ∧ KS.partP qs.length (remC qs ps c1) = KS.partP qs.length c1
      ∧ (∀ c ∈ cenZ (KS.partP qs.length c0), 2 * c.natAbs ≤ prodN ps)
      ∧ (∀ c ∈ cenZ (KS.partP qs.length c1), 2 * c.natAbs ≤ prodN ps) := by
  intro π P c0 c1 D
  have hcop := coprime_prod_of_pairwise hco
  have hpsc := pairwise_right hco
  have hpge : ∀ p ∈ ps, 2 ≤ p := (good_right hg).q_ge
  have hext : ∀ x, WFq qs n x → WFq (qs ++ ps) n (extR ps x) := fun x hx => extR_wf hqs hx
  have hclosed : ∀ x, WFq (qs ++ ps) n x →
      P * downR qs.length x = takeRows qs.length x - takeRows qs.length (remC qs ps x)
        ∧ WFq qs n (downR qs.length x) := fun x hx => rq_modDown_closed hps hpsc hcop false hx
  have h := dec_enc_pk_P_rpoly (qs := qs) (ps := ps) (n := n) hodd (extR ps) P (downR qs.length)
    (remC qs ps) hext (fun x hx => (hclosed x hx).2) (fun x hx => remC_wf hx hps) (constQ_wf _)
    (fun x hx => (hclosed x hx).1) ntt intt pt ct o0 o1 rest hct u e0 e1 pk0 pk1 epk sQP hpk hpt hctwf hu he0
    he1 hpk0 hpk1 hs
  have hc0 : WFq (qs ++ ps) n c0 := ((hext u hu).mul hpk0).add (hext e0 he0)
  have hc1 : WFq (qs ++ ps) n c1 := ((hext u hu).mul hpk1).add (hext e1 he1)
  have hPodd : prodN ps % 2 = 1 :=
    Scaling.prodN_odd ps (fun p hp => hodd p (List.mem_append_right _ hp))
  have hPpos : 0 < prodN ps := BasisExt.prodN_pos ps (pos_of_ge2 hpge)
  have hb : ∀ x, WFq (qs ++ ps) n x → ∀ c ∈ cenZ (KS.partP qs.length x), 2 * c.natAbs ≤ prodN ps := by
    intro x hx
    have hq : (KS.partP qs.length x).qs = ps := (partP_wf hx).1
    have := cenZ_bound (KS.partP qs.length x) (by rw [hq]; exact hPpos) (by rw [hq]; exact hPodd)
    rw [hq] at this
    exact this
  exact ⟨h.1, h.2, partP_remC hc0 hps hpsc hpge, partP_remC hc1 hps hpsc hpge, hb c0 hc0, hb c1 hc1⟩

/-- **dec_enc_pk_P_rq** — the same about the expression the driver evaluates on its carrier `RQ`
(`RQ.encryptZeroAt`, key `pk`, `hasP`: `ezPk mont mont (extSmall ps) (modDown #qs) …`, standard ring) -/
theorem dec_enc_pk_P_rq (hqs : qs ≠ []) (hps : ps ≠ []) (hco : (qs ++ ps).Pairwise Nat.Coprime)
    (hodd : ∀ q ∈ qs ++ ps, q % 2 = 1)
    (ntt intt : RQ → RQ) (pt : Pt RPoly μ) (ct : Ct RPoly μ) (o0 o1 : RPoly) (rest : List RPoly)
    (hct : ct.value = o0 :: o1 :: rest)
    (u e0 e1 : RPoly) (pk0 pk1 epk sQP : RPoly) (hpk : pk0 + pk1 * sQP = epk)
    (hpt : WFq qs n pt.value) (hctwf : ∀ p ∈ ct.value, WFq qs n p)
    (hu : WFq qs n u) (he0 : WFq qs n e0) (he1 : WFq qs n e1)
    (hpk0 : WFq (qs ++ ps) n pk0) (hpk1 : WFq (qs ++ ps) n pk1) (hs : WFq (qs ++ ps) n sQP) :
    let π := takeRows qs.length
    let c0 := extR ps u * pk0 + extR ps e0
    let c1 := extR ps u * pk1 + extR ps e1
    let D := downR qs.length c0 + π sQP * downR qs.length c1
    (encrypt (ezPk RQ.mont RQ.mont (RQ.extSmall ps) (RQ.modDown qs.length) (std u) (std e0) (std e1)
          (RQ.mont.toM (std pk0)) (RQ.mont.toM (std pk1))) ntt intt (some (ptMap std pt)) (ctMap std ct)).bind
        (fun ct' => decrypt RQ.mont ct' (RQ.mont.toM (std (π sQP))))
      = some (ptMap std { value := pt.value + montIf rpMont pt.md.isMont D, md := pt.md }) := by
  intro π c0 c1 D
  have hn := enc_dec_nat std_hom std_montHom _ _
    (ezPk_nat (μ := μ) std_hom std_hom std_montHom std_montHom (extR ps) (RQ.extSmall ps) (std_extR ps)
      (downR qs.length) (RQ.modDown qs.length) (std_downR qs.length) u e0 e1 (rpMont.toM pk0) (rpMont.toM pk1))
    id id ntt intt (some pt) ct (rpMont.toM (π sQP))
  rw [(dec_enc_pk_P_closed hqs hps hco hodd id id pt ct o0 o1 rest hct u e0 e1 pk0 pk1 epk sQP hpk hpt hctwf hu
    he0 he1 hpk0 hpk1 hs).1] at hn
  exact hn

end closed

/-! ## The noise, closed -/

section noise
open Lattigo.ZPoly
variable {qs ps : List ℕ} {n : ℕ} [hgq : Good qs n] [hg : Good (qs ++ ps) n] {μ : Type}

/-- `ExtendBasisSmallNormAndCenter` on ONE small coefficient `x` (`2|x| < q₀`; since fix C03-9 the magnitude is
reduced modulo `p`, so neither `|x| ≤ p` nor `p < 2^64` is needed any more — the two hypotheses are kept, unused, for
the callers): the residue modulo `q₀` is re-centred and reduced modulo `p` -/
theorem ext_coeff (q0 p : ℕ) (x : ℤ) (hq0 : 0 < q0) (hp : 0 < p) (_hpW : p < RQ.Rword) (h1 : 2 * x.natAbs < q0)
    (_h2 : x.natAbs ≤ p) :
    (if (x % (q0 : ℤ)).toNat > q0 / 2 then (p - (q0 - (x % (q0 : ℤ)).toNat) % p) % p
      else (x % (q0 : ℤ)).toNat % p) = (x % (p : ℤ)).toNat := by
  rcases Int.lt_or_le x 0 with hneg | hpos
  · -- negative: residue `q0 − |x| > q0/2`
    obtain ⟨m, hm⟩ : ∃ m : ℕ, x = -(m : ℤ) := ⟨x.natAbs, by omega⟩
    have hm1 : 0 < m := by omega
    have hm2 : 2 * m < q0 := by omega
    have e1 : x % (q0 : ℤ) = ((q0 - m : ℕ) : ℤ) := by
      rw [hm, show (-(m : ℤ)) = ((q0 - m : ℕ) : ℤ) + (q0 : ℤ) * (-1) by omega, Int.add_mul_emod_self_left]
      exact Int.emod_eq_of_lt (by omega) (by omega)
    rw [e1, Int.toNat_natCast, if_pos (by omega)]
    have e2 : q0 - (q0 - m) = m := by omega
    rw [e2]
    have hr : m % p < p := Nat.mod_lt _ hp
    have e4 : x % (p : ℤ) = (((p - m % p) % p : ℕ) : ℤ) := by
      have hdiv := Nat.div_add_mod m p
      rw [hm, Int.natCast_mod]
      have : (-(m : ℤ)) = ((p - m % p : ℕ) : ℤ) + (p : ℤ) * (-((m / p : ℕ) : ℤ) - 1) := by
        have : ((p - m % p : ℕ) : ℤ) = (p : ℤ) - ((m % p : ℕ) : ℤ) := by omega
        rw [this]
        have h3 : (m : ℤ) = (p : ℤ) * ((m / p : ℕ) : ℤ) + ((m % p : ℕ) : ℤ) := by exact_mod_cast hdiv.symm
        rw [h3]; ring
      rw [this, Int.add_mul_emod_self_left]
    rw [e4, Int.toNat_natCast]
  · obtain ⟨m, hm⟩ : ∃ m : ℕ, x = (m : ℤ) := ⟨x.natAbs, by omega⟩
    have hm2 : 2 * m < q0 := by omega
    have e1 : x % (q0 : ℤ) = (m : ℤ) := by rw [hm]; exact Int.emod_eq_of_lt (by omega) (by omega)
    rw [e1, Int.toNat_natCast, if_neg (by omega), hm, ← Int.natCast_mod, Int.toNat_natCast]

/-- **`ExtendBasisSmallNormAndCenter` of the reduction of a small integer polynomial is its reduction modulo `QP`** -/
theorem extR_ofInts (hqs : qs ≠ []) (hge1 : ∀ q ∈ qs, 2 ≤ q) (hge2 : ∀ p ∈ ps, 2 ≤ p)
    (hpW : ∀ p ∈ ps, p < RQ.Rword) (v : List ℤ)
    (h1 : ∀ x ∈ v, 2 * x.natAbs < qs.headD 1) (h2 : ∀ x ∈ v, ∀ p ∈ ps, x.natAbs ≤ p) :
    extR ps (RPoly.ofInts qs v) = RPoly.ofInts (qs ++ ps) v := by
  obtain ⟨q0, qs', rfl⟩ : ∃ q0 qs', qs = q0 :: qs' := by
    cases qs with
    | nil => exact absurd rfl hqs
    | cons a l => exact ⟨a, l, rfl⟩
  have hq0 : 0 < q0 := by have := hge1 q0 (by simp); omega
  show ({ qs := (q0 :: qs') ++ ps, c := (RPoly.ofInts (q0 :: qs') v).c ++ ps.map _ } : RPoly) = _
  show _ = ({ qs := (q0 :: qs') ++ ps, c := ((q0 :: qs') ++ ps).map _ } : RPoly)
  congr 1
  rw [List.map_append]
  congr 1
  apply List.map_congr_left
  intro p hp
  show ((RPoly.ofInts (q0 :: qs') v).c.headD []).map _ = _
  show (v.map fun (x : ℤ) => (x % (q0 : ℤ)).toNat).map _ = _
  rw [List.map_map]
  apply List.map_congr_left
  intro x hx
  have hp0 : 0 < p := by have := hge2 p hp; omega
  exact ext_coeff q0 p x hq0 hp0 (hpW p hp) (h1 x hx) (h2 x hx p hp)

theorem partP_zero : KS.partP qs.length (RPoly.zero (qs ++ ps) n) = RPoly.zero ps n := by
  simp [KS.partP, RPoly.zero]

/-- ring algebra: the two components of the public-key encryption recombine to the noise modulo `QP` -/
theorem pk_recombine {eu ee0 ee1 pk0 pk1 s epk : RPoly} (h1 : WFq qs n eu) (h2 : WFq qs n ee0)
    (h3 : WFq qs n ee1) (h4 : WFq qs n pk0) (h5 : WFq qs n pk1) (h6 : WFq qs n s) (hpk : pk0 + pk1 * s = epk) :
    (eu * pk0 + ee0) + (eu * pk1 + ee1) * s = eu * epk + ee0 + ee1 * s := by
  subst hpk
  obtain ⟨eu, rfl⟩ := exists_lift eu h1
  obtain ⟨ee0, rfl⟩ := exists_lift ee0 h2
  obtain ⟨ee1, rfl⟩ := exists_lift ee1 h3
  obtain ⟨pk0, rfl⟩ := exists_lift pk0 h4
  obtain ⟨pk1, rfl⟩ := exists_lift pk1 h5
  obtain ⟨s, rfl⟩ := exists_lift s h6
  show val ((eu * pk0 + ee0) + (eu * pk1 + ee1) * s) = val (eu * (pk0 + pk1 * s) + ee0 + ee1 * s)
  congr 1
  ring

/-- ring algebra: `(E − a) − s·b = 0` when `a + b·s = E` -/
theorem residual_zero {a b s E : RPoly} (ha : WFq qs n a) (hb : WFq qs n b) (hs : WFq qs n s)
    (h : a + b * s = E) : (E - a) - s * b = RPoly.zero qs n := by
  subst h
  obtain ⟨a, rfl⟩ := exists_lift a ha
  obtain ⟨b, rfl⟩ := exists_lift b hb
  obtain ⟨s, rfl⟩ := exists_lift s hs
  show val ((a + b * s - a) - s * b) = val (0 : WFPoly qs n)
  congr 1
  ring

/-- ring algebra: `a − b − c·s = (a − b) − s·c` -/
theorem sub_sub_mul_comm {a b c s : RPoly} (ha : WFq qs n a) (hb : WFq qs n b) (hc : WFq qs n c)
    (hs : WFq qs n s) : a - b - c * s = (a - b) - s * c := by
  obtain ⟨a, rfl⟩ := exists_lift a ha
  obtain ⟨b, rfl⟩ := exists_lift b hb
  obtain ⟨c, rfl⟩ := exists_lift c hc
  obtain ⟨s, rfl⟩ := exists_lift s hs
  show val (a - b - c * s) = val ((a - b) - s * c)
  congr 1
  ring

/-- ring algebra: `u·e + a + b·s = u·e + a + s·b` in the order `ZPoly` uses -/
theorem noise_order {u e a b s : RPoly} (hu : WFq qs n u) (he : WFq qs n e) (ha : WFq qs n a)
    (hb : WFq qs n b) (hs : WFq qs n s) : u * e + a + b * s = u * e + a + s * b := by
  obtain ⟨u, rfl⟩ := exists_lift u hu
  obtain ⟨e, rfl⟩ := exists_lift e he
  obtain ⟨a, rfl⟩ := exists_lift a ha
  obtain ⟨b, rfl⟩ := exists_lift b hb
  obtain ⟨s, rfl⟩ := exists_lift s hs
  show val (u * e + a + b * s) = val (u * e + a + s * b)
  congr 1
  ring

/-- **dec_enc_pk_P_noise_closed.**  Setting of `dec_enc_pk_P_closed` with `u`, `e0`, `e1` the reductions of SMALL integer
polynomials (`2|x| < q₀`, `|x| ≤ p_k`: ternary `u`, Gaussian errors), the secret and the key error the reductions of
`s^Z`, `e_pk^Z`.  The decryption error `D` is the reduction of an INTEGER polynomial `D^Z` with

      `2·P·‖D^Z‖∞ ≤ 2·‖u·e_pk + e0 + s·e1‖∞ + P·(1 + ‖s‖₁)`

(`Props/C03.noise_upper_pk_P` with its hypotheses `hrel`, `hd0`, `hd1` DERIVED; `‖u·e_pk + e0 + s·e1‖∞` is bounded by
`noise_upper_pk_noP`).  No hypothesis on any index: `RQ.modDown` reconstructs exactly. -/
theorem dec_enc_pk_P_noise_closed (hqs : qs ≠ []) (hps : ps ≠ []) (hco : (qs ++ ps).Pairwise Nat.Coprime)
    (hodd : ∀ q ∈ qs ++ ps, q % 2 = 1) (hpW : ∀ p ∈ ps, p < RQ.Rword)
    (uZ e0Z e1Z epkZ sZ : List ℤ) (pk1 : RPoly)
    (hul : uZ.length = n) (he0l : e0Z.length = n) (he1l : e1Z.length = n) (hepkl : epkZ.length = n)
    (hsl : sZ.length = n) (hpk1 : WFq (qs ++ ps) n pk1)
    (hsmall : ∀ v ∈ [uZ, e0Z, e1Z], (∀ x ∈ v, 2 * x.natAbs < qs.headD 1) ∧ ∀ x ∈ v, ∀ p ∈ ps, x.natAbs ≤ p) :
    let L := qs ++ ps
    let π := takeRows qs.length
    let u := RPoly.ofInts qs uZ
    let e0 := RPoly.ofInts qs e0Z
    let e1 := RPoly.ofInts qs e1Z
    let sQP := RPoly.ofInts L sZ
    let pk0 := RPoly.ofInts L epkZ - pk1 * sQP
    let c0 := extR ps u * pk0 + extR ps e0
    let c1 := extR ps u * pk1 + extR ps e1
    let D := downR qs.length c0 + π sQP * downR qs.length c1
    ∃ DZ : List ℤ, DZ.length = n ∧ D = RPoly.ofInts qs DZ
      ∧ 2 * (prodN ps * normInf DZ)
          ≤ 2 * normInf (ZPoly.add (ZPoly.add (ZPoly.mul uZ epkZ) e0Z) (ZPoly.mul sZ e1Z))
            + prodN ps * (1 + norm1 sZ) := by
  intro L π u e0 e1 sQP pk0 c0 c1 D
  have hcop := coprime_prod_of_pairwise hco
  have hpsc := pairwise_right hco
  have hpge : ∀ p ∈ ps, 2 ≤ p := (good_right hg).q_ge
  have hgp : Good ps n := good_right hg
  have hu : WFq qs n u := ofInts_wf _ hul
  have he0 : WFq qs n e0 := ofInts_wf _ he0l
  have he1 : WFq qs n e1 := ofInts_wf _ he1l
  have hs : WFq L n sQP := ofInts_wf _ hsl
  have hepk : WFq L n (RPoly.ofInts L epkZ) := ofInts_wf _ hepkl
  have hpk0 : WFq L n pk0 := hepk.sub (hpk1.mul hs)
  -- the extensions are the reductions modulo `QP`
  have hxu : extR ps u = RPoly.ofInts L uZ := extR_ofInts hqs hgq.q_ge hpge hpW uZ (hsmall uZ (by simp)).1 (hsmall uZ (by simp)).2
  have hxe0 : extR ps e0 = RPoly.ofInts L e0Z :=
    extR_ofInts hqs hgq.q_ge hpge hpW e0Z (hsmall e0Z (by simp)).1 (hsmall e0Z (by simp)).2
  have hxe1 : extR ps e1 = RPoly.ofInts L e1Z :=
    extR_ofInts hqs hgq.q_ge hpge hpW e1Z (hsmall e1Z (by simp)).1 (hsmall e1Z (by simp)).2
  have hxuw : WFq L n (extR ps u) := extR_wf hqs hu
  have hxe0w : WFq L n (extR ps e0) := extR_wf hqs he0
  have hxe1w : WFq L n (extR ps e1) := extR_wf hqs he1
  have hc0 : WFq L n c0 := (hxuw.mul hpk0).add hxe0w
  have hc1 : WFq L n c1 := (hxuw.mul hpk1).add hxe1w
  -- the exact rounding identity
  have hcl0 := rq_modDown_closed (qs := qs) (ps := ps) (n := n) hps hpsc hcop false hc0
  have hcl1 := rq_modDown_closed (qs := qs) (ps := ps) (n := n) hps hpsc hcop false hc1
  -- `pk0 + pk1·s = e_pk`
  have hpk : pk0 + pk1 * sQP = RPoly.ofInts L epkZ := by
    obtain ⟨a, ha⟩ := exists_lift _ hepk
    obtain ⟨b, hb⟩ := exists_lift _ hpk1
    obtain ⟨c, hc⟩ := exists_lift _ hs
    show (RPoly.ofInts L epkZ - pk1 * sQP) + pk1 * sQP = _
    rw [← ha, ← hb, ← hc]
    show val ((a - b * c) + b * c) = val a
    congr 1
    ring
  -- the noise modulo `QP` and its integer preimage
  set EZ := ZPoly.add (ZPoly.add (ZPoly.mul uZ epkZ) e0Z) (ZPoly.mul sZ e1Z) with hEZ
  have hm1 : (ZPoly.mul uZ epkZ).length = n := by rw [mul_length, hul]
  have hm2 : (ZPoly.mul sZ e1Z).length = n := by rw [mul_length, hsl]
  have hEZl : EZ.length = n := add_length _ _ (add_length _ _ hm1 he0l) hm2
  have hEpoly : extR ps u * RPoly.ofInts L epkZ + extR ps e0 + extR ps e1 * sQP = RPoly.ofInts L EZ := by
    rw [noise_order hxuw hepk hxe0w hxe1w hs, hxu, hxe0, hxe1, hEZ,
      ofInts_add _ _ (add_length _ _ hm1 he0l) hm2, ofInts_add _ _ hm1 he0l, ofInts_mul _ _ hul hepkl,
      ofInts_mul _ _ hsl he1l]
  have hsum : c0 + c1 * sQP = RPoly.ofInts L EZ := by
    rw [← hEpoly]
    exact pk_recombine hxuw hxe0w hxe1w hpk0 hpk1 hs hpk
  set δ0 := cenZ (KS.partP qs.length c0) with hδ0
  set δ1 := cenZ (KS.partP qs.length c1) with hδ1
  have hδ0l : δ0.length = n := cenZ_length (partP_wf hc0) hps
  have hδ1l : δ1.length = n := cenZ_length (partP_wf hc1) hps
  set W := ZPoly.sub (ZPoly.sub EZ δ0) (ZPoly.mul sZ δ1) with hW
  have hm3 : (ZPoly.mul sZ δ1).length = n := by rw [mul_length, hsl]
  have hWl : W.length = n := sub_length _ _ (sub_length _ _ hEZl hδ0l) hm3
  have hWQP : RPoly.ofInts L W = (RPoly.ofInts L EZ - remC qs ps c0) - sQP * remC qs ps c1 := by
    rw [hW, ofInts_sub _ _ (sub_length _ _ hEZl hδ0l) hm3, ofInts_sub _ _ hEZl hδ0l, ofInts_mul _ _ hsl hδ1l]
    rfl
  have hPW : RPoly.ofInts ps W = RPoly.zero ps n := by
    have h1 : KS.partP qs.length (RPoly.ofInts L W) = RPoly.ofInts ps W := partP_ofInts _ _ _
    have hh := partP_hom qs.length
    rw [← h1, hWQP, hh.sub, hh.sub, hh.mul, partP_remC hc0 hps hpsc hpge, partP_remC hc1 hps hpsc hpge,
      ← hh.mul, ← hh.sub, ← hh.sub, residual_zero hc0 hc1 hs hsum]
    exact partP_zero
  have hdvd : ∀ x ∈ W, ((prodN ps : ℕ) : ℤ) ∣ x := fun x hx =>
    prodN_dvd_int ps hpsc x (fun p hp => ofInts_eq_zero_dvd hpge W hPW p hp x hx)
  have hsm := smul_div (prodN ps) W hdvd
  set DZ := W.map (· / ((prodN ps : ℕ) : ℤ)) with hDZ
  have hDl : DZ.length = n := by rw [hDZ, List.length_map, hWl]
  refine ⟨DZ, hDl, ?_, ?_⟩
  · -- `P·D = ofInts qs W = P·ofInts DZ`
    have hDw : WFq qs n D := hcl0.2.add ((takeRows_wf hs).mul hcl1.2)
    have hPD : constQ qs n (RPoly.prod ps) * D = constQ qs n (RPoly.prod ps) * RPoly.ofInts qs DZ := by
      have hclosed := (dec_enc_pk_P_closed (μ := Unit) hqs hps hco hodd id id ⟨RPoly.zero qs n, ⟨(), false, false⟩⟩
        ⟨[RPoly.zero qs n, RPoly.zero qs n], ⟨(), false, false⟩⟩ _ _ [] rfl u e0 e1 pk0 pk1 _ sQP hpk WFq.zero
        (by intro p hp; simp at hp; rw [hp]; exact WFq.zero) hu he0 he1 hpk0 hpk1 hs).2.1
      have ht := takeRows_hom qs.length
      rw [hclosed, hEpoly, sub_sub_mul_comm (takeRows_wf (ofInts_wf _ hEZl)) (takeRows_wf (remC_wf hc0 hps))
        (takeRows_wf (remC_wf hc1 hps)) (takeRows_wf hs), ← ht.mul, ← ht.sub, ← ht.sub, ← hWQP, takeRows_ofInts,
        ← hsm, ofInts_smul _ _ hDl, prod_eq_prodN]
    exact cancel_P (constQ_wf _) (pinvElt_wf ps) hDw (ofInts_wf _ hDl) (pinvElt_mul_constQ hcop) hPD
  · have hPodd : prodN ps % 2 = 1 :=
      Scaling.prodN_odd ps (fun p hp => hodd p (List.mem_append_right _ hp))
    have hPpos : 0 < prodN ps := BasisExt.prodN_pos ps (pos_of_ge2 hpge)
    have hb : ∀ x, WFq L n x → 2 * normInf (cenZ (KS.partP qs.length x)) ≤ prodN ps := by
      intro x hx
      have hq : (KS.partP qs.length x).qs = ps := (partP_wf hx).1
      have := cenZ_bound (KS.partP qs.length x) (by rw [hq]; exact hPpos) (by rw [hq]; exact hPodd)
      rw [hq] at this
      exact two_normInf_le_of this
    exact ZPoly.noise_upper_pk_P (prodN ps) DZ EZ δ0 δ1 sZ hsm (hb c0 hc0) (hb c1 hc1)

end noise

/-! ## A concrete instance: `Q = [97]`, `P = [193]`, `n = 8` -/

section concrete

instance : Good [97] 8 := ⟨by decide, by decide⟩
instance : Good ([97] ++ [193]) 8 := ⟨by decide, by decide⟩

/-- ternary `u`, small errors, a public key `(pk0, pk1)` over `QP` with `pk0 + pk1·s = e_pk` -/
def u8 : RPoly := RPoly.ofInts [97] [1, 0, -1, 0, 1, 1, 0, -1]
def e08 : RPoly := RPoly.ofInts [97] [2, -1, 0, 1, 0, -2, 1, 0]
def e18 : RPoly := RPoly.ofInts [97] [0, 1, -1, 0, 2, 0, 0, -1]
def sQP8 : RPoly := RPoly.ofInts [97, 193] [1, -1, 0, 1, 0, 0, -1, 1]
def pk18 : RPoly := ⟨[97, 193], [[1, 2, 3, 4, 5, 6, 7, 8], [10, 20, 30, 40, 50, 60, 70, 80]]⟩
def epk8 : RPoly := RPoly.ofInts [97, 193] [1, 0, -1, 0, 2, 0, -2, 1]
def pk08 : RPoly := epk8 - pk18 * sQP8
def m8 : RPoly := ⟨[97], [[5, 6, 7, 8, 9, 10, 11, 12]]⟩
def z8 : RPoly := RPoly.zero [97] 8
def pt8 : Pt RPoly Unit := ⟨m8, ⟨(), true, true⟩⟩
def ct8 : Ct RPoly Unit := ⟨[z8, z8], ⟨(), false, false⟩⟩

theorem hyps8 : ([97] : List ℕ) ≠ [] ∧ ([193] : List ℕ) ≠ [] ∧ ([97] ++ [193] : List ℕ).Pairwise Nat.Coprime
    ∧ (∀ q ∈ ([97] ++ [193] : List ℕ), q % 2 = 1) ∧ pk08 + pk18 * sQP8 = epk8
    ∧ WFq [97] 8 pt8.value ∧ (∀ p ∈ ct8.value, WFq [97] 8 p) ∧ WFq [97] 8 u8 ∧ WFq [97] 8 e08 ∧ WFq [97] 8 e18
    ∧ WFq ([97] ++ [193]) 8 pk08 ∧ WFq ([97] ++ [193]) 8 pk18 ∧ WFq ([97] ++ [193]) 8 sQP8 := by
  refine ⟨by decide, by decide, by decide, by decide, by decide +kernel, by decide +kernel, by decide +kernel,
    by decide +kernel, by decide +kernel, by decide +kernel, by decide +kernel, by decide +kernel, by decide +kernel⟩

/-- the instance obtained FROM THE THEOREM (`RQ.modDown` is exact: everything is kernel-evaluable) -/
theorem instance8 :
    let π := takeRows 1
    let c0 := extR [193] u8 * pk08 + extR [193] e08
    let c1 := extR [193] u8 * pk18 + extR [193] e18
    let D := downR 1 c0 + π sQP8 * downR 1 c1
    ((encrypt (ezPk rpMont rpMont (extR [193]) (downR 1) u8 e08 e18 (rpMont.toM pk08) (rpMont.toM pk18))
          id id (some pt8) ct8).bind (fun ct' => decrypt rpMont ct' (rpMont.toM (π sQP8)))
        = some { value := m8 + montIf rpMont true D, md := ⟨(), true, true⟩ })
      ∧ constQ [97] 8 (RPoly.prod [193]) * D
          = π (extR [193] u8 * epk8 + extR [193] e08 + extR [193] e18 * sQP8)
            - π (remC [97] [193] c0) - π (remC [97] [193] c1) * π sQP8 :=
  have h := dec_enc_pk_P_closed (qs := [97]) (ps := [193]) (n := 8) hyps8.1 hyps8.2.1 hyps8.2.2.1 hyps8.2.2.2.1
    id id pt8 ct8 z8 z8 [] rfl u8 e08 e18 pk08 pk18 epk8 sQP8 hyps8.2.2.2.2.1 hyps8.2.2.2.2.2.1
    hyps8.2.2.2.2.2.2.1 hyps8.2.2.2.2.2.2.2.1 hyps8.2.2.2.2.2.2.2.2.1 hyps8.2.2.2.2.2.2.2.2.2.1
    hyps8.2.2.2.2.2.2.2.2.2.2.1 hyps8.2.2.2.2.2.2.2.2.2.2.2.1 hyps8.2.2.2.2.2.2.2.2.2.2.2.2
  ⟨h.1, h.2.1⟩

/-- TEST (kernel evaluation of the model on these values): the decrypted value, the noise term `D` and the centred
remainders (all entries `≤ 96 = ⌊193/2⌋` in absolute value) -/
example :
    let c0 := extR [193] u8 * pk08 + extR [193] e08
    let c1 := extR [193] u8 * pk18 + extR [193] e18
    let D := downR 1 c0 + takeRows 1 sQP8 * downR 1 c1
    ((encrypt (ezPk rpMont rpMont (extR [193]) (downR 1) u8 e08 e18 (rpMont.toM pk08) (rpMont.toM pk18))
          id id (some pt8) ct8).bind (fun ct' => decrypt rpMont ct' (rpMont.toM (takeRows 1 sQP8)))
        = some { value := m8 + montIf rpMont true D, md := ⟨(), true, true⟩ })
      ∧ (∀ c ∈ cenZ (KS.partP 1 c0), 2 * c.natAbs ≤ 193) ∧ (∀ c ∈ cenZ (KS.partP 1 c1), 2 * c.natAbs ≤ 193)
      ∧ RPoly.toInts D = [0, 0, 0, 0, -1, 0, 1, -1] := by decide +kernel

/-- the noise instance: the integer lists behind `u8`, `e08`, `e18`, `epk8`, `sQP8` -/
def u8Z : List ℤ := [1, 0, -1, 0, 1, 1, 0, -1]
def e08Z : List ℤ := [2, -1, 0, 1, 0, -2, 1, 0]
def e18Z : List ℤ := [0, 1, -1, 0, 2, 0, 0, -1]
def epk8Z : List ℤ := [1, 0, -1, 0, 2, 0, -2, 1]
def s8Z : List ℤ := [1, -1, 0, 1, 0, 0, -1, 1]

theorem hyps8n : (∀ p ∈ ([193] : List ℕ), p < RQ.Rword)
    ∧ u8Z.length = 8 ∧ e08Z.length = 8 ∧ e18Z.length = 8 ∧ epk8Z.length = 8 ∧ s8Z.length = 8
    ∧ (∀ v ∈ [u8Z, e08Z, e18Z], (∀ x ∈ v, 2 * x.natAbs < ([97] : List ℕ).headD 1)
        ∧ ∀ x ∈ v, ∀ p ∈ ([193] : List ℕ), x.natAbs ≤ p) := by
  refine ⟨by decide, by decide, by decide, by decide, by decide, by decide, by decide⟩

/-- obtained FROM THE THEOREM: the decryption error of `instance8` is the reduction of an integer polynomial of norm
`≤ (2·‖u·e_pk + e0 + s·e1‖∞ + 193·(1 + ‖s‖₁))/(2·193)` -/
theorem instance8_noise :
    let c0 := extR [193] u8 * pk08 + extR [193] e08
    let c1 := extR [193] u8 * pk18 + extR [193] e18
    let D := downR 1 c0 + takeRows 1 sQP8 * downR 1 c1
    ∃ DZ : List ℤ, DZ.length = 8 ∧ D = RPoly.ofInts [97] DZ
      ∧ 2 * (193 * ZPoly.normInf DZ)
          ≤ 2 * ZPoly.normInf (ZPoly.add (ZPoly.add (ZPoly.mul u8Z epk8Z) e08Z) (ZPoly.mul s8Z e18Z))
            + 193 * (1 + ZPoly.norm1 s8Z) :=
  dec_enc_pk_P_noise_closed (qs := [97]) (ps := [193]) (n := 8) hyps8.1 hyps8.2.1 hyps8.2.2.1 hyps8.2.2.2.1
    hyps8n.1 u8Z e08Z e18Z epk8Z s8Z pk18 hyps8n.2.1 hyps8n.2.2.1 hyps8n.2.2.2.1 hyps8n.2.2.2.2.1
    hyps8n.2.2.2.2.2.1 hyps8.2.2.2.2.2.2.2.2.2.2.2.1 hyps8n.2.2.2.2.2.2

/-- TEST (kernel evaluation): the numbers — `‖D‖∞ = 1`, numerator norm `7`, `‖s‖₁ = 5`: `2·193·1 = 386 ≤ 2·7 + 193·6 = 1172` -/
example : ZPoly.normInf (ZPoly.add (ZPoly.add (ZPoly.mul u8Z epk8Z) e08Z) (ZPoly.mul s8Z e18Z)) = 7
    ∧ ZPoly.norm1 s8Z = 5 := by decide +kernel

end concrete

end Lattigo.Props.C03Stack

#print axioms Lattigo.Props.C03Stack.extR_wf
#print axioms Lattigo.Props.C03Stack.dec_enc_pk_P_closed
#print axioms Lattigo.Props.C03Stack.dec_enc_pk_P_rq
#print axioms Lattigo.Props.C03Stack.instance8
#print axioms Lattigo.Props.C03Stack.extR_ofInts
#print axioms Lattigo.Props.C03Stack.dec_enc_pk_P_noise_closed
#print axioms Lattigo.Props.C03Stack.instance8_noise
