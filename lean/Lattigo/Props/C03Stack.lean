/-
  C03 ⟵ C02: public-key encryption with the auxiliary modulus, the rounding hypothesis DISCHARGED.

  `Props/C03Ring.dec_enc_pk_P_rpoly` takes ABSTRACT `ext`, `down`, `rem` with the rounding identity
  `P·down x = π x − π(rem x)` as a hypothesis.  Here they are the functions the model (`RLWE.RQ.encryptZeroAt`) calls:
  `ext = RQ.extSmall ps`, `down = RQ.modDown #qs`, `rem = StackKS.remC` (the centred remainder modulo `P`: C02's
  `centeredRep P` of the CRT value of every coefficient), `P = Π ps` as a constant of `R_Q`, and the identity is PROVED
  (`StackKS.rq_modDown_closed`: `RPoly.crt` reconstructs by C02's `hps_sum_eq`, `P·P⁻¹ = 1` by `modInv_spec`), for every
  chain `qs ++ ps` of pairwise coprime odd moduli, every `n ≥ 1`, all well-formed inputs.  `RQ.modDown` uses no
  floating point: there is NO hypothesis on any index.

  * `dec_enc_pk_P_closed` : decryption of an encryption under the public key is `pt + D`,
        `P·D = π(ext u·e_pk + ext e0 + ext e1·s) − π(rem c0) − π(rem c1)·π s`,
        `rem c_i ≡ c_i (mod P)`, `2‖rem c_i‖∞ ≤ P`;
  * `dec_enc_pk_P_rq`     : the same about the expression the driver evaluates on its carrier `RQ`.
-/
import Lattigo.Props.C03Ring
import Lattigo.Proofs.StackKSExact

set_option linter.unusedSectionVars false
set_option linter.unusedSimpArgs false

namespace Lattigo.Props.C03Stack
open Lattigo Lattigo.RLWE Lattigo.RPolyRing Lattigo.Transport Lattigo.Props.C03Ring Lattigo.StackKS
open Lattigo.Scaling (prodN)

/-- the model's basis extension / rounded division, on plain `RPoly` values (standard ring) -/
def extR (ps : List ℕ) (x : RPoly) : RPoly := (RQ.extSmall ps (std x)).p
def downR (nQ : ℕ) (x : RPoly) : RPoly := (RQ.modDown nQ (std x)).p

theorem std_extR (ps : List ℕ) (x : RPoly) : RQ.extSmall ps (std x) = std (extR ps x) := rfl
theorem std_downR (nQ : ℕ) (x : RPoly) : RQ.modDown nQ (std x) = std (downR nQ x) := rfl

section ext
variable {qs ps : List ℕ} {n : ℕ}

/-- rows over `Q` followed by rows over `P` -/
theorem append_rows_wf (xc rowsP : List (List ℕ)) (hx : WFq qs n ⟨qs, xc⟩) (hP : WFq ps n ⟨ps, rowsP⟩) :
    WFq (qs ++ ps) n ⟨qs ++ ps, xc ++ rowsP⟩ := by
  have hl : xc.length = qs.length := hx.2.1
  have hlP : rowsP.length = ps.length := hP.2.1
  refine ⟨rfl, by show (xc ++ rowsP).length = (qs ++ ps).length; simp [hl, hlP], fun i hi => ?_⟩
  have hi' : i < (qs ++ ps).length := hi
  have hi2 : i < qs.length + ps.length := by simpa using hi'
  show RowWF ((qs ++ ps)[i]) n ((xc ++ rowsP).getD i [])
  by_cases hlt : i < qs.length
  · rw [List.getElem_append_left hlt]
    have e2 : (xc ++ rowsP).getD i [] = xc.getD i [] := by
      simp [List.getD_eq_getElem?_getD, List.getElem?_append_left (by omega : i < xc.length)]
    rw [e2]; exact hx.2.2 i hlt
  · have hj : i - qs.length < ps.length := by omega
    rw [List.getElem_append_right (by omega)]
    have e2 : (xc ++ rowsP).getD i [] = rowsP.getD (i - qs.length) [] := by
      simp [List.getD_eq_getElem?_getD, List.getElem?_append_right (by omega : xc.length ≤ i), hl]
    rw [e2]; exact hP.2.2 (i - qs.length) hj

/-- `ExtendBasisSmallNormAndCenter` maps well-formed values of `R_Q` to well-formed values of `R_{QP}` -/
theorem extR_wf [hg : Good (qs ++ ps) n] (hqs : qs ≠ []) {x : RPoly} (hx : WFq qs n x) :
    WFq (qs ++ ps) n (extR ps x) := by
  have hhead : (x.c.headD []).length = n := headD_length hx hqs
  obtain ⟨xq, xc⟩ := x
  have h1 : xq = qs := hx.1
  subst h1
  show WFq (xq ++ ps) n ⟨xq ++ ps, xc ++ ps.map _⟩
  refine append_rows_wf xc _ hx ⟨rfl, by simp, fun i hi => ?_⟩
  have hi' : i < ps.length := hi
  have hp2 : 2 ≤ ps[i] := hg.q_ge _ (List.mem_append_right _ (List.getElem_mem hi'))
  show RowWF ps[i] n ((ps.map _).getD i [])
  rw [List.getD_eq_getElem?_getD, List.getElem?_map, List.getElem?_eq_getElem hi']
  refine ⟨by simp only [Option.map_some, Option.getD_some, List.length_map]; exact hhead, fun y hy => ?_⟩
  simp only [Option.map_some, Option.getD_some, List.mem_map] at hy
  obtain ⟨c, _, rfl⟩ := hy
  split <;> exact Nat.mod_lt _ (by omega)

end ext

section closed
variable {qs ps : List ℕ} {n : ℕ} [hgq : Good qs n] [hg : Good (qs ++ ps) n] {μ : Type}

/-- **dec_enc_pk_P_closed.**  Public-key encryption with the auxiliary modulus followed by decryption, with the
model's own `ExtendBasisSmallNormAndCenter` (`extR`), `ModDownQPtoQ` (`downR`) and centred remainder (`remC`):
the plaintext comes back plus `D`, where `P·D` is the encryption noise modulo `QP` minus the centred remainders
modulo `P` of the two components; the remainders are congruent to the components modulo `P` and bounded by `P/2`. -/
theorem dec_enc_pk_P_closed (hqs : qs ≠ []) (hps : ps ≠ []) (hco : (qs ++ ps).Pairwise Nat.Coprime)
    (hodd : ∀ q ∈ qs ++ ps, q % 2 = 1)
    (ntt intt : RPoly → RPoly) (pt : Pt RPoly μ) (ct : Ct RPoly μ) (o0 o1 : RPoly) (rest : List RPoly)
    (hct : ct.value = o0 :: o1 :: rest)
    (u e0 e1 : RPoly) (pk0 pk1 epk sQP : RPoly) (hpk : pk0 + pk1 * sQP = epk)
    (hpt : WFq qs n pt.value) (hctwf : ∀ p ∈ ct.value, WFq qs n p)
    (hu : WFq qs n u) (he0 : WFq qs n e0) (he1 : WFq qs n e1)
    (hpk0 : WFq (qs ++ ps) n pk0) (hpk1 : WFq (qs ++ ps) n pk1) (hs : WFq (qs ++ ps) n sQP) :
    let π := takeRows qs.length
    let P := constQ qs n (RPoly.prod ps)
    let c0 := extR ps u * pk0 + extR ps e0
    let c1 := extR ps u * pk1 + extR ps e1
    let D := downR qs.length c0 + π sQP * downR qs.length c1
    ((encrypt (ezPk rpMont rpMont (extR ps) (downR qs.length) u e0 e1 (rpMont.toM pk0) (rpMont.toM pk1))
          ntt intt (some pt) ct).bind (fun ct' => decrypt rpMont ct' (rpMont.toM (π sQP)))
        = some { value := pt.value + montIf rpMont pt.md.isMont D, md := pt.md })
      ∧ P * D = π (extR ps u * epk + extR ps e0 + extR ps e1 * sQP)
                  - π (remC qs ps c0) - π (remC qs ps c1) * π sQP
      ∧ KS.partP qs.length (remC qs ps c0) = KS.partP qs.length c0
      ∧ KS.partP qs.length (remC qs ps c1) = KS.partP qs.length c1
      ∧ (∀ c ∈ cenZ (KS.partP qs.length c0), 2 * c.natAbs ≤ prodN ps)
      ∧ (∀ c ∈ cenZ (KS.partP qs.length c1), 2 * c.natAbs ≤ prodN ps) := by
  intro π P c0 c1 D
  have hcop := coprime_prod_of_pairwise hco
  have hpsc := pairwise_right hco
  have hpge : ∀ p ∈ ps, 2 ≤ p := (good_right hg).q_ge
  have hext : ∀ x, WFq qs n x → WFq (qs ++ ps) n (extR ps x) := fun x hx => extR_wf hqs hx
  have hclosed : ∀ x, WFq (qs ++ ps) n x →
      P * downR qs.length x = takeRows qs.length x - takeRows qs.length (remC qs ps x)
        ∧ WFq qs n (downR qs.length x) := fun x hx => rq_modDown_closed hps hpsc hcop false hx
  have h := dec_enc_pk_P_rpoly (qs := qs) (ps := ps) (n := n) hodd (extR ps) P (downR qs.length)
    (remC qs ps) hext (fun x hx => (hclosed x hx).2) (fun x hx => remC_wf hx hps) (constQ_wf _)
    (fun x hx => (hclosed x hx).1) ntt intt pt ct o0 o1 rest hct u e0 e1 pk0 pk1 epk sQP hpk hpt hctwf hu he0
    he1 hpk0 hpk1 hs
  have hc0 : WFq (qs ++ ps) n c0 := ((hext u hu).mul hpk0).add (hext e0 he0)
  have hc1 : WFq (qs ++ ps) n c1 := ((hext u hu).mul hpk1).add (hext e1 he1)
  have hPodd : prodN ps % 2 = 1 :=
    Scaling.prodN_odd ps (fun p hp => hodd p (List.mem_append_right _ hp))
  have hPpos : 0 < prodN ps := BasisExt.prodN_pos ps (pos_of_ge2 hpge)
  have hb : ∀ x, WFq (qs ++ ps) n x → ∀ c ∈ cenZ (KS.partP qs.length x), 2 * c.natAbs ≤ prodN ps := by
    intro x hx
    have hq : (KS.partP qs.length x).qs = ps := (partP_wf hx).1
    have := cenZ_bound (KS.partP qs.length x) (by rw [hq]; exact hPpos) (by rw [hq]; exact hPodd)
    rw [hq] at this
    exact this
  exact ⟨h.1, h.2, partP_remC hc0 hps hpsc hpge, partP_remC hc1 hps hpsc hpge, hb c0 hc0, hb c1 hc1⟩

/-- **dec_enc_pk_P_rq** — the same about the expression the driver evaluates on its carrier `RQ`
(`RQ.encryptZeroAt`, key `pk`, `hasP`: `ezPk mont mont (extSmall ps) (modDown #qs) …`, standard ring) -/
theorem dec_enc_pk_P_rq (hqs : qs ≠ []) (hps : ps ≠ []) (hco : (qs ++ ps).Pairwise Nat.Coprime)
    (hodd : ∀ q ∈ qs ++ ps, q % 2 = 1)
    (ntt intt : RQ → RQ) (pt : Pt RPoly μ) (ct : Ct RPoly μ) (o0 o1 : RPoly) (rest : List RPoly)
    (hct : ct.value = o0 :: o1 :: rest)
    (u e0 e1 : RPoly) (pk0 pk1 epk sQP : RPoly) (hpk : pk0 + pk1 * sQP = epk)
    (hpt : WFq qs n pt.value) (hctwf : ∀ p ∈ ct.value, WFq qs n p)
    (hu : WFq qs n u) (he0 : WFq qs n e0) (he1 : WFq qs n e1)
    (hpk0 : WFq (qs ++ ps) n pk0) (hpk1 : WFq (qs ++ ps) n pk1) (hs : WFq (qs ++ ps) n sQP) :
    let π := takeRows qs.length
    let c0 := extR ps u * pk0 + extR ps e0
    let c1 := extR ps u * pk1 + extR ps e1
    let D := downR qs.length c0 + π sQP * downR qs.length c1
    (encrypt (ezPk RQ.mont RQ.mont (RQ.extSmall ps) (RQ.modDown qs.length) (std u) (std e0) (std e1)
          (RQ.mont.toM (std pk0)) (RQ.mont.toM (std pk1))) ntt intt (some (ptMap std pt)) (ctMap std ct)).bind
        (fun ct' => decrypt RQ.mont ct' (RQ.mont.toM (std (π sQP))))
      = some (ptMap std { value := pt.value + montIf rpMont pt.md.isMont D, md := pt.md }) := by
  intro π c0 c1 D
  have hn := enc_dec_nat std_hom std_montHom _ _
    (ezPk_nat (μ := μ) std_hom std_hom std_montHom std_montHom (extR ps) (RQ.extSmall ps) (std_extR ps)
      (downR qs.length) (RQ.modDown qs.length) (std_downR qs.length) u e0 e1 (rpMont.toM pk0) (rpMont.toM pk1))
    id id ntt intt (some pt) ct (rpMont.toM (π sQP))
  rw [(dec_enc_pk_P_closed hqs hps hco hodd id id pt ct o0 o1 rest hct u e0 e1 pk0 pk1 epk sQP hpk hpt hctwf hu
    he0 he1 hpk0 hpk1 hs).1] at hn
  exact hn

end closed

/-! ## A concrete instance: `Q = [97]`, `P = [193]`, `n = 8` -/

section concrete

instance : Good [97] 8 := ⟨by decide, by decide⟩
instance : Good ([97] ++ [193]) 8 := ⟨by decide, by decide⟩

/-- ternary `u`, small errors, a public key `(pk0, pk1)` over `QP` with `pk0 + pk1·s = e_pk` -/
def u8 : RPoly := RPoly.ofInts [97] [1, 0, -1, 0, 1, 1, 0, -1]
def e08 : RPoly := RPoly.ofInts [97] [2, -1, 0, 1, 0, -2, 1, 0]
def e18 : RPoly := RPoly.ofInts [97] [0, 1, -1, 0, 2, 0, 0, -1]
def sQP8 : RPoly := RPoly.ofInts [97, 193] [1, -1, 0, 1, 0, 0, -1, 1]
def pk18 : RPoly := ⟨[97, 193], [[1, 2, 3, 4, 5, 6, 7, 8], [10, 20, 30, 40, 50, 60, 70, 80]]⟩
def epk8 : RPoly := RPoly.ofInts [97, 193] [1, 0, -1, 0, 2, 0, -2, 1]
def pk08 : RPoly := epk8 - pk18 * sQP8
def m8 : RPoly := ⟨[97], [[5, 6, 7, 8, 9, 10, 11, 12]]⟩
def z8 : RPoly := RPoly.zero [97] 8
def pt8 : Pt RPoly Unit := ⟨m8, ⟨(), true, true⟩⟩
def ct8 : Ct RPoly Unit := ⟨[z8, z8], ⟨(), false, false⟩⟩

theorem hyps8 : ([97] : List ℕ) ≠ [] ∧ ([193] : List ℕ) ≠ [] ∧ ([97] ++ [193] : List ℕ).Pairwise Nat.Coprime
    ∧ (∀ q ∈ ([97] ++ [193] : List ℕ), q % 2 = 1) ∧ pk08 + pk18 * sQP8 = epk8
    ∧ WFq [97] 8 pt8.value ∧ (∀ p ∈ ct8.value, WFq [97] 8 p) ∧ WFq [97] 8 u8 ∧ WFq [97] 8 e08 ∧ WFq [97] 8 e18
    ∧ WFq ([97] ++ [193]) 8 pk08 ∧ WFq ([97] ++ [193]) 8 pk18 ∧ WFq ([97] ++ [193]) 8 sQP8 := by
  refine ⟨by decide, by decide, by decide, by decide, by decide +kernel, by decide +kernel, by decide +kernel,
    by decide +kernel, by decide +kernel, by decide +kernel, by decide +kernel, by decide +kernel, by decide +kernel⟩

/-- the instance obtained FROM THE THEOREM (`RQ.modDown` is exact: everything is kernel-evaluable) -/
theorem instance8 :
    let π := takeRows 1
    let c0 := extR [193] u8 * pk08 + extR [193] e08
    let c1 := extR [193] u8 * pk18 + extR [193] e18
    let D := downR 1 c0 + π sQP8 * downR 1 c1
    ((encrypt (ezPk rpMont rpMont (extR [193]) (downR 1) u8 e08 e18 (rpMont.toM pk08) (rpMont.toM pk18))
          id id (some pt8) ct8).bind (fun ct' => decrypt rpMont ct' (rpMont.toM (π sQP8)))
        = some { value := m8 + montIf rpMont true D, md := ⟨(), true, true⟩ })
      ∧ constQ [97] 8 (RPoly.prod [193]) * D
          = π (extR [193] u8 * epk8 + extR [193] e08 + extR [193] e18 * sQP8)
            - π (remC [97] [193] c0) - π (remC [97] [193] c1) * π sQP8 :=
  have h := dec_enc_pk_P_closed (qs := [97]) (ps := [193]) (n := 8) hyps8.1 hyps8.2.1 hyps8.2.2.1 hyps8.2.2.2.1
    id id pt8 ct8 z8 z8 [] rfl u8 e08 e18 pk08 pk18 epk8 sQP8 hyps8.2.2.2.2.1 hyps8.2.2.2.2.2.1
    hyps8.2.2.2.2.2.2.1 hyps8.2.2.2.2.2.2.2.1 hyps8.2.2.2.2.2.2.2.2.1 hyps8.2.2.2.2.2.2.2.2.2.1
    hyps8.2.2.2.2.2.2.2.2.2.2.1 hyps8.2.2.2.2.2.2.2.2.2.2.2.1 hyps8.2.2.2.2.2.2.2.2.2.2.2.2
  ⟨h.1, h.2.1⟩

/-- TEST (kernel evaluation of the model on these values): the decrypted value, the noise term `D` and the centred
remainders (all entries `≤ 96 = ⌊193/2⌋` in absolute value) -/
example :
    let c0 := extR [193] u8 * pk08 + extR [193] e08
    let c1 := extR [193] u8 * pk18 + extR [193] e18
    let D := downR 1 c0 + takeRows 1 sQP8 * downR 1 c1
    ((encrypt (ezPk rpMont rpMont (extR [193]) (downR 1) u8 e08 e18 (rpMont.toM pk08) (rpMont.toM pk18))
          id id (some pt8) ct8).bind (fun ct' => decrypt rpMont ct' (rpMont.toM (takeRows 1 sQP8)))
        = some { value := m8 + montIf rpMont true D, md := ⟨(), true, true⟩ })
      ∧ (∀ c ∈ cenZ (KS.partP 1 c0), 2 * c.natAbs ≤ 193) ∧ (∀ c ∈ cenZ (KS.partP 1 c1), 2 * c.natAbs ≤ 193)
      ∧ RPoly.toInts D = [0, 0, 0, 0, -1, 0, 1, -1] := by decide +kernel

end concrete

end Lattigo.Props.C03Stack

#print axioms Lattigo.Props.C03Stack.extR_wf
#print axioms Lattigo.Props.C03Stack.dec_enc_pk_P_closed
#print axioms Lattigo.Props.C03Stack.dec_enc_pk_P_rq
#print axioms Lattigo.Props.C03Stack.instance8
