/-
  C03 on the carrier the driver executes.

  `Props/C03.lean` proves `dec_enc_sk`, `wrong_key`, `dec_enc_pk_noP`, `dec_enc_pk_P`,
  `genPublicKey_noise` for the generic model functions of `Model/RLWE.lean` over EVERY commutative
  ring.  The driver (`Driver/C03.lean`) runs the same functions on `RLWE.RQ` (an `RPoly` with a ring
  tag).  Here the theorems are instantiated at the commutative ring `WFPoly qs n` of well-formed
  `RPoly`s (`Proofs/RPolyRing.lean`) and transported to PLAIN `RPoly` / `RQ` values:

    hypotheses  = well-formedness of the INPUTS (`WFq qs n a` : `a.qs = qs ∧ a.WF n`), odd moduli
                  (for the Montgomery pair `2^64`);
    conclusion  = the same identity, between `RPoly` (resp. `RQ`) values computed by the model
                  functions with the driver's Montgomery pair.

  1. naturality of every model function of `Model/RLWE.lean` w.r.t. maps preserving `+ * − neg`
     and the Montgomery pair (`…_nat`);
  2. the generic theorems (`…_gen`: same statements and proofs as `Props.C03.*`, which cannot be
     imported here because `Props/C03.lean` imports this file);
  3. `…_rpoly` (carrier `RPoly`, Montgomery pair `rpMont`) and `…_rq` (carrier `RQ`, `ci = false`,
     Montgomery pair `RQ.mont`: literally what the driver evaluates);
  4. the driver: `Driver.C03.handleDec/handleEnc` call `RQ.decryptAt/RQ.encryptAt`, and these are
     `decrypt`/`encrypt ∘ ezSk` on the level-truncated values (`driver_dec_enc_sk`);
  5. a concrete instance (`qs = [97, 193]`, `n = 8`) by evaluation.

  NOT transported (reason):
  * `dec_enc_pk_P` is transported with `ext`, `down`, `rem` ABSTRACT functions on `RPoly` subject to
    closure and to the rounding identity `P·down x = π x − π(rem x)` on well-formed `x`
    (`dec_enc_pk_P_rpoly`).  That the driver's `RQ.extSmall [p0]` / `RQ.modDown (l+1)` satisfy them
    (CRT reconstruction `RPoly.crt`, centred remainder) is arithmetic of C02 and is not proved here.
  * the norm statements (`negacyclic_norm`, `noise_upper_*`) are about `ZPoly` (integer
    coefficient lists), not about the carrier: nothing to transport; `RPoly.toInts` is not related
    to `ZPoly` here.
  * the conjugate-invariant carrier (`ci = true`, `ciRowMul`) is not covered.
-/
import Lattigo.Proofs.RPolyTransport
import Lattigo.Proofs.RLWE
import Driver.C03

set_option linter.unusedSectionVars false
set_option linter.unusedSimpArgs false

namespace Lattigo.Props.C03Ring
open Lattigo Lattigo.RLWE Lattigo.RPolyRing Lattigo.Transport

/-! ## 1. Naturality of the model functions -/

section naturality
variable {α β : Type} [Add α] [Mul α] [Neg α] [Sub α] [Add β] [Mul β] [Neg β] [Sub β]
variable {μ : Type}

def ptMap (φ : α → β) (p : Pt α μ) : Pt β μ := ⟨φ p.value, p.md⟩
def ctMap (φ : α → β) (c : Ct α μ) : Ct β μ := ⟨c.value.map φ, c.md⟩

variable {φ : α → β} (hφ : OpsHom φ) {M : Mont α} {M' : Mont β} (hM : MontHom φ M M')
include hφ hM

theorem mulMont_nat (x y : α) : mulMont M' (φ x) (φ y) = φ (mulMont M x y) := by
  simp only [mulMont, hM.ofM, hφ.mul]

omit hφ in
theorem montIf_nat (b : Bool) (x : α) : montIf M' b (φ x) = φ (montIf M b x) := by
  cases b <;> simp [montIf, hM.toM]

omit hM in
theorem clearTail_nat (l : List α) : clearTail (l.map φ) = (clearTail l).map φ := by
  match l with
  | [] => rfl
  | [_] => rfl
  | a :: b :: rest => simp [clearTail, hφ.sub, Function.comp_def]

theorem encryptZeroSk_nat (b : Bool) (old : List α) (a e sM : α) :
    encryptZeroSk M' b (old.map φ) (φ a) (φ e) (φ sM) = (encryptZeroSk M b old a e sM).map (List.map φ) := by
  match old with
  | [] => rfl
  | [_] => simp [encryptZeroSk, mulMont_nat hφ hM, montIf_nat hM, hφ.add, hφ.neg]
  | _ :: _ :: rest => simp [encryptZeroSk, mulMont_nat hφ hM, montIf_nat hM, hφ.add, hφ.neg]

theorem encryptZeroPkNoP_nat (b : Bool) (old : List α) (u e0 e1 pk0M pk1M : α) :
    encryptZeroPkNoP M' b (old.map φ) (φ u) (φ e0) (φ e1) (φ pk0M) (φ pk1M)
      = (encryptZeroPkNoP M b old u e0 e1 pk0M pk1M).map (List.map φ) := by
  match old with
  | [] => rfl
  | [_] => rfl
  | _ :: _ :: rest => simp [encryptZeroPkNoP, mulMont_nat hφ hM, ← hφ.add, montIf_nat hM]

theorem ezSk_nat (a e sM : α) (md : MetaData μ) (old : List α) :
    ezSk M' (φ a) (φ e) (φ sM) md (old.map φ) = (ezSk M a e sM md old).map (List.map φ) := by
  simp only [ezSk, clearTail_nat hφ, encryptZeroSk_nat hφ hM]

theorem ezPkNoP_nat (u e0 e1 pk0M pk1M : α) (md : MetaData μ) (old : List α) :
    ezPkNoP M' (φ u) (φ e0) (φ e1) (φ pk0M) (φ pk1M) md (old.map φ)
      = (ezPkNoP M u e0 e1 pk0M pk1M md old).map (List.map φ) := by
  simp only [ezPkNoP, clearTail_nat hφ, encryptZeroPkNoP_nat hφ hM]

omit hM in
/-- `Encrypt` never reaches the mixed branches of `addPtToCt`, so no compatibility of the transforms
is needed -/
theorem encrypt_nat (ez : MetaData μ → List α → Option (List α)) (ez' : MetaData μ → List β → Option (List β))
    (hez : ∀ md old, ez' md (old.map φ) = (ez md old).map (List.map φ))
    (ntt intt : α → α) (ntt' intt' : β → β) (pt : Option (Pt α μ)) (ct : Ct α μ) :
    encrypt ez' ntt' intt' (pt.map (ptMap φ)) (ctMap φ ct) = (encrypt ez ntt intt pt ct).map (ctMap φ) := by
  cases pt with
  | none =>
    simp only [encrypt, Option.map_none, ctMap, hez]
    cases ez ct.md ct.value <;> simp [ctMap]
  | some pt =>
    simp only [encrypt, Option.map_some, ctMap, ptMap, hez]
    cases ez pt.md ct.value with
    | none => rfl
    | some v =>
      cases hb : pt.md.isNTT <;> cases v <;> simp [addPtToCt, ctMap, hφ.add]

theorem hornerMont_nat (sM : α) (l : List α) :
    hornerMont M' (φ sM) (l.map φ) = (hornerMont M sM l).map φ := by
  cases l with
  | nil => rfl
  | cons top rest =>
    simp only [hornerMont, List.map_cons, Option.map_some]
    congr 1
    induction rest generalizing top with
    | nil => rfl
    | cons c r ih =>
      simp only [List.map_cons, List.foldl_cons]
      rw [mulMont_nat hφ hM, ← hφ.add, ih]

theorem decrypt_nat (ct : Ct α μ) (sM : α) :
    decrypt M' (ctMap φ ct) (φ sM) = (decrypt M ct sM).map (ptMap φ) := by
  simp only [decrypt, ctMap, ← List.map_reverse, hornerMont_nat hφ hM]
  cases hornerMont M sM ct.value.reverse <;> simp [ptMap]

/-- `Encrypt` followed by `Decrypt`, transported along `φ` -/
theorem enc_dec_nat (ez : MetaData μ → List α → Option (List α)) (ez' : MetaData μ → List β → Option (List β))
    (hez : ∀ md old, ez' md (old.map φ) = (ez md old).map (List.map φ))
    (ntt intt : α → α) (ntt' intt' : β → β) (pt : Option (Pt α μ)) (ct : Ct α μ) (sM : α) :
    (encrypt ez' ntt' intt' (pt.map (ptMap φ)) (ctMap φ ct)).bind (fun c => decrypt M' c (φ sM))
      = ((encrypt ez ntt intt pt ct).bind (fun c => decrypt M c sM)).map (ptMap φ) := by
  rw [encrypt_nat hφ ez ez' hez ntt intt ntt' intt' pt ct]
  cases encrypt ez ntt intt pt ct with
  | none => rfl
  | some c => simp only [Option.map_some, Option.bind_some, decrypt_nat hφ hM]

theorem genPublicKey_nat {γ : Type} (ext : γ → α) (ext' : γ → β) (hext : ∀ e, ext' e = φ (ext e))
    (a : α) (e : γ) (sM : α) :
    genPublicKey M' ext' (φ a) e (φ sM) = Prod.map φ φ (genPublicKey M ext a e sM) := by
  simp only [genPublicKey, encryptZeroSkQP, Prod.map, hext, mulMont_nat hφ hM, hM.toM, hφ.sub]

end naturality

/-- naturality of `encryptZeroPk` (two carriers: `R_Q` and `R_{QP}`) -/
theorem encryptZeroPk_nat {α β α' β' : Type} [Add α] [Mul α] [Neg α] [Sub α] [Add β] [Mul β] [Neg β] [Sub β]
    [Add α'] [Mul α'] [Neg α'] [Sub α'] [Add β'] [Mul β'] [Neg β'] [Sub β']
    {φ : α → α'} {ψ : β → β'} (hψ : OpsHom ψ)
    {MQ : Mont α} {MQ' : Mont α'} (hMQ : MontHom φ MQ MQ')
    {MQP : Mont β} {MQP' : Mont β'} (hMQP : MontHom ψ MQP MQP')
    (ext : α → β) (ext' : α' → β') (hext : ∀ x, ext' (φ x) = ψ (ext x))
    (down : β → α) (down' : β' → α') (hdown : ∀ x, down' (ψ x) = φ (down x))
    (b : Bool) (old : List α) (u e0 e1 : α) (pk0M pk1M : β) :
    encryptZeroPk MQ' MQP' ext' down' b (old.map φ) (φ u) (φ e0) (φ e1) (ψ pk0M) (ψ pk1M)
      = (encryptZeroPk MQ MQP ext down b old u e0 e1 pk0M pk1M).map (List.map φ) := by
  match old with
  | [] => rfl
  | [_] => rfl
  | _ :: _ :: rest =>
    simp [encryptZeroPk, hext, mulMont_nat hψ hMQP, ← hψ.add, hdown, montIf_nat hMQ]

theorem ezPk_nat {μ α β α' β' : Type} [Add α] [Mul α] [Neg α] [Sub α] [Add β] [Mul β] [Neg β] [Sub β]
    [Add α'] [Mul α'] [Neg α'] [Sub α'] [Add β'] [Mul β'] [Neg β'] [Sub β']
    {φ : α → α'} {ψ : β → β'} (hφ : OpsHom φ) (hψ : OpsHom ψ)
    {MQ : Mont α} {MQ' : Mont α'} (hMQ : MontHom φ MQ MQ')
    {MQP : Mont β} {MQP' : Mont β'} (hMQP : MontHom ψ MQP MQP')
    (ext : α → β) (ext' : α' → β') (hext : ∀ x, ext' (φ x) = ψ (ext x))
    (down : β → α) (down' : β' → α') (hdown : ∀ x, down' (ψ x) = φ (down x))
    (u e0 e1 : α) (pk0M pk1M : β) (md : MetaData μ) (old : List α) :
    ezPk MQ' MQP' ext' down' (φ u) (φ e0) (φ e1) (ψ pk0M) (ψ pk1M) md (old.map φ)
      = (ezPk MQ MQP ext down u e0 e1 pk0M pk1M md old).map (List.map φ) := by
  simp only [ezPk, clearTail_nat hφ, encryptZeroPk_nat hψ hMQ hMQP ext ext' hext down down' hdown]

/-! ## 2. The generic theorems (same statements and proofs as in `Props/C03.lean`) -/

section gen
variable {α : Type} [CommRing α] {μ : Type}

theorem dec_enc_sk_gen {M : Mont α} {R Rinv : α} (h : IsMont M R Rinv)
    (ntt intt : α → α) (pt : Pt α μ) (ct : Ct α μ) (o0 o1 : α) (rest : List α)
    (hct : ct.value = o0 :: o1 :: rest) (a e s : α) :
    (encrypt (ezSk M a e (M.toM s)) ntt intt (some pt) ct).bind (fun ct' => decrypt M ct' (M.toM s))
      = some { value := pt.value + montIf M pt.md.isMont e, md := pt.md } := by
  have hz := ezSk_degGe1 h pt.md o0 o1 a e s rest
  rw [← hct] at hz
  rw [encrypt_value _ ntt intt pt ct _ _ hz]
  simp only [Option.bind_some]
  rw [decrypt_eq h s _ (by simp)]
  simp only [phase_encSk_tail]

theorem wrong_key_gen {M : Mont α} {R Rinv : α} (h : IsMont M R Rinv)
    (ntt intt : α → α) (pt : Pt α μ) (ct : Ct α μ) (o0 o1 : α) (rest : List α)
    (hct : ct.value = o0 :: o1 :: rest) (a e s s' : α) :
    ∃ out, (encrypt (ezSk M a e (M.toM s)) ntt intt (some pt) ct).bind (fun ct' => decrypt M ct' (M.toM s'))
        = some out ∧ out.value - pt.value = montIf M pt.md.isMont e + a * (s' - s) ∧ out.md = pt.md := by
  have hz := ezSk_degGe1 h pt.md o0 o1 a e s rest
  rw [← hct] at hz
  rw [encrypt_value _ ntt intt pt ct _ _ hz]
  simp only [Option.bind_some]
  rw [decrypt_eq h s' _ (by simp)]
  exact ⟨_, rfl, phase_encSk_wrong_key_tail a _ s s' pt.value rest, rfl⟩

theorem dec_enc_pk_noP_gen {M : Mont α} {R Rinv : α} (h : IsMont M R Rinv)
    (ntt intt : α → α) (pt : Pt α μ) (ct : Ct α μ) (o0 o1 : α) (rest : List α)
    (hct : ct.value = o0 :: o1 :: rest) (u e0 e1 pk0 pk1 epk s : α) (hpk : pk0 + pk1 * s = epk) :
    (encrypt (ezPkNoP M u e0 e1 (M.toM pk0) (M.toM pk1)) ntt intt (some pt) ct).bind
        (fun ct' => decrypt M ct' (M.toM s))
      = some { value := pt.value + montIf M pt.md.isMont (u * epk + e0 + e1 * s), md := pt.md } := by
  have hz := ezPkNoP_degGe1 h pt.md o0 o1 u e0 e1 pk0 pk1 rest
  rw [← hct] at hz
  rw [encrypt_value _ ntt intt pt ct _ _ hz]
  simp only [Option.bind_some]
  rw [decrypt_eq h s _ (by simp)]
  simp only [phase_encPk_tail h _ u e0 e1 pk0 pk1 s epk pt.value rest hpk]

theorem dec_enc_pk_P_gen {β : Type} [CommRing β] {MQ : Mont α} {R Rinv : α} (h : IsMont MQ R Rinv)
    {MQP : Mont β} {R' Rinv' : β} (h' : IsMont MQP R' Rinv')
    (π : β →+* α) (ext : α → β) (P : α) (down : β → α) (rem : β → β)
    (hdown : ∀ x, P * down x = π x - π (rem x))
    (ntt intt : α → α) (pt : Pt α μ) (ct : Ct α μ) (o0 o1 : α) (rest : List α)
    (hct : ct.value = o0 :: o1 :: rest)
    (u e0 e1 : α) (pk0 pk1 epk sQP : β) (hpk : pk0 + pk1 * sQP = epk) :
    let c0 := ext u * pk0 + ext e0
    let c1 := ext u * pk1 + ext e1
    let D := down c0 + π sQP * down c1
    (encrypt (ezPk MQ MQP ext down u e0 e1 (MQP.toM pk0) (MQP.toM pk1)) ntt intt (some pt) ct).bind
        (fun ct' => decrypt MQ ct' (MQ.toM (π sQP)))
      = some { value := pt.value + montIf MQ pt.md.isMont D, md := pt.md }
    ∧ P * D = π (ext u * epk + ext e0 + ext e1 * sQP) - π (rem c0) - π (rem c1) * π sQP := by
  intro c0 c1 D
  constructor
  · have hz : ezPk MQ MQP ext down u e0 e1 (MQP.toM pk0) (MQP.toM pk1) pt.md ct.value
        = some (montIf MQ pt.md.isMont (down c0) :: montIf MQ pt.md.isMont (down c1) ::
            rest.map (fun o => o - o)) := by
      simp only [ezPk, hct, clearTail]
      exact encryptZeroPk_degGe1 (MQ := MQ) h' ext down pt.md.isMont o0 o1 u e0 e1 _ pk0 pk1
    rw [encrypt_value _ ntt intt pt ct _ _ hz]
    simp only [Option.bind_some]
    rw [decrypt_eq h (π sQP) _ (by simp)]
    simp only [Option.some.injEq, Pt.mk.injEq, and_true, phase, phase_clear]
    cases pt.md.isMont
    · simp only [montIf, Bool.false_eq_true, if_false, D]; ring
    · simp only [montIf, if_true, h.toM, D]; ring
  · have := phase_encPk_P π P down rem hdown (ext u) (ext e0) (ext e1) pk0 pk1 sQP epk 0 hpk
    simp only [phase, add_zero, sub_zero, mul_zero] at this
    exact this

end gen

/-! ## 3. The theorems on `RPoly` values (carrier `RPoly`, Montgomery pair `rpMont`) -/

section rpoly
variable {qs : List ℕ} {n : ℕ} [Good qs n] {μ : Type}

/-- the driver's Montgomery pair on well-formed values over odd moduli: `toM ∘ ofM = id` -/
theorem rpMont_toM_ofM (hodd : ∀ q ∈ qs, q % 2 = 1) (x : RPoly) (hx : WFq qs n x) :
    rpMont.toM (rpMont.ofM x) = x ∧ WFq qs n (rpMont.ofM x) := by
  obtain ⟨x', rfl⟩ := exists_lift x hx
  have h := WFPoly.isMont_mont_of_odd (qs := qs) (n := n) hodd
  refine ⟨?_, val_wf (WFPoly.mont.ofM x')⟩
  have : WFPoly.mont.toM (WFPoly.mont.ofM x') = x' := by
    rw [h.toM, h.ofM, mul_assoc, mul_comm _ (WFPoly.constNat _), h.inv, mul_one]
  exact congrArg val this

theorem rpMont_wf (x : RPoly) (hx : WFq qs n x) : WFq qs n (rpMont.toM x) ∧ WFq qs n (rpMont.ofM x) := by
  obtain ⟨x', rfl⟩ := exists_lift x hx
  exact ⟨val_wf (WFPoly.mont.toM x'), val_wf (WFPoly.mont.ofM x')⟩

theorem montIf_push (b : Bool) (x : WFPoly qs n) :
    val (montIf WFPoly.mont b x) = montIf rpMont b (val x) := (montIf_nat val_montHom b x).symm

/-- a plaintext / ciphertext with well-formed polynomials is the image of one over `WFPoly` -/
theorem exists_lift_pt (pt : Pt RPoly μ) (h : WFq qs n pt.value) :
    ∃ pt' : Pt (WFPoly qs n) μ, ptMap val pt' = pt := by
  obtain ⟨v, hv⟩ := exists_lift pt.value h
  exact ⟨⟨v, pt.md⟩, by cases pt; simp only [ptMap] at hv ⊢; rw [hv]⟩

theorem exists_lift_ct (ct : Ct RPoly μ) (h : ∀ p ∈ ct.value, WFq qs n p) :
    ∃ ct' : Ct (WFPoly qs n) μ, ctMap val ct' = ct := by
  obtain ⟨v, hv⟩ := exists_lift_list ct.value h
  exact ⟨⟨v, ct.md⟩, by cases ct; simp only [ctMap] at hv ⊢; rw [hv]⟩

theorem map_eq_cons2 {α β : Type} {f : α → β} {l : List α} {x y : β} {r : List β}
    (h : l.map f = x :: y :: r) : ∃ x' y' r', l = x' :: y' :: r' := by
  match l, h with
  | x' :: y' :: r', _ => exact ⟨x', y', r', rfl⟩

/-- **dec_enc_sk_rpoly.**  `Decrypt(Encrypt(pt))` computed by the model on `RPoly` values with the
driver's Montgomery pair: stored value `pt.value + e'`, `e' = e` resp. `MForm(e)`; metadata of `pt`.
Hypotheses: odd moduli, well-formed inputs. -/
theorem dec_enc_sk_rpoly (hodd : ∀ q ∈ qs, q % 2 = 1) (ntt intt : RPoly → RPoly) (pt : Pt RPoly μ)
    (ct : Ct RPoly μ) (o0 o1 : RPoly) (rest : List RPoly) (hct : ct.value = o0 :: o1 :: rest)
    (a e s : RPoly) (hpt : WFq qs n pt.value) (hctwf : ∀ p ∈ ct.value, WFq qs n p)
    (ha : WFq qs n a) (he : WFq qs n e) (hs : WFq qs n s) :
    (encrypt (ezSk rpMont a e (rpMont.toM s)) ntt intt (some pt) ct).bind
        (fun ct' => decrypt rpMont ct' (rpMont.toM s))
      = some { value := pt.value + montIf rpMont pt.md.isMont e, md := pt.md } := by
  obtain ⟨a, rfl⟩ := exists_lift a ha
  obtain ⟨e, rfl⟩ := exists_lift e he
  obtain ⟨s, rfl⟩ := exists_lift s hs
  obtain ⟨pt, rfl⟩ := exists_lift_pt pt hpt
  obtain ⟨ct, rfl⟩ := exists_lift_ct ct hctwf
  obtain ⟨o0', o1', rest', hct'⟩ := map_eq_cons2 hct
  have hg := dec_enc_sk_gen (WFPoly.isMont_mont_of_odd hodd) id id pt ct o0' o1' rest' hct' a e s
  have hn := enc_dec_nat val_hom val_montHom _ _ (ezSk_nat val_hom val_montHom a e (WFPoly.mont.toM s))
    id id ntt intt (some pt) ct (WFPoly.mont.toM s)
  rw [hg, val_montHom.toM] at hn
  rw [Option.map_some] at hn
  rw [hn]
  simp only [Option.map_some, ptMap, val_hom.add, montIf_nat val_montHom]

/-- **wrong_key_rpoly.**  Decrypting with another key `s'`: distance to the plaintext `e' + a·(s' − s)`. -/
theorem wrong_key_rpoly (hodd : ∀ q ∈ qs, q % 2 = 1) (ntt intt : RPoly → RPoly) (pt : Pt RPoly μ)
    (ct : Ct RPoly μ) (o0 o1 : RPoly) (rest : List RPoly) (hct : ct.value = o0 :: o1 :: rest)
    (a e s s' : RPoly) (hpt : WFq qs n pt.value) (hctwf : ∀ p ∈ ct.value, WFq qs n p)
    (ha : WFq qs n a) (he : WFq qs n e) (hs : WFq qs n s) (hs' : WFq qs n s') :
    ∃ out, (encrypt (ezSk rpMont a e (rpMont.toM s)) ntt intt (some pt) ct).bind
          (fun ct' => decrypt rpMont ct' (rpMont.toM s')) = some out
      ∧ out.value - pt.value = montIf rpMont pt.md.isMont e + a * (s' - s) ∧ out.md = pt.md
      ∧ WFq qs n out.value := by
  obtain ⟨a, rfl⟩ := exists_lift a ha
  obtain ⟨e, rfl⟩ := exists_lift e he
  obtain ⟨s, rfl⟩ := exists_lift s hs
  obtain ⟨s', rfl⟩ := exists_lift s' hs'
  obtain ⟨pt, rfl⟩ := exists_lift_pt pt hpt
  obtain ⟨ct, rfl⟩ := exists_lift_ct ct hctwf
  obtain ⟨o0', o1', rest', hct'⟩ := map_eq_cons2 hct
  obtain ⟨out, h1, h2, h3⟩ :=
    wrong_key_gen (WFPoly.isMont_mont_of_odd hodd) id id pt ct o0' o1' rest' hct' a e s s'
  have hn := enc_dec_nat val_hom val_montHom _ _ (ezSk_nat val_hom val_montHom a e (WFPoly.mont.toM s))
    id id ntt intt (some pt) ct (WFPoly.mont.toM s')
  rw [h1, val_montHom.toM, val_montHom.toM] at hn
  rw [Option.map_some] at hn
  refine ⟨ptMap val out, hn, ?_, h3, val_wf out.value⟩
  have := congrArg val h2
  simpa only [ptMap, val_hom.sub, val_hom.add, val_hom.mul, montIf_nat val_montHom] using this

/-- **dec_enc_pk_noP_rpoly.**  Public key without auxiliary modulus: stored result `m + N` resp.
`m + MForm(N)`, `N = u·e_pk + e0 + e1·s`, where `pk0 + pk1·s = e_pk`. -/
theorem dec_enc_pk_noP_rpoly (hodd : ∀ q ∈ qs, q % 2 = 1) (ntt intt : RPoly → RPoly) (pt : Pt RPoly μ)
    (ct : Ct RPoly μ) (o0 o1 : RPoly) (rest : List RPoly) (hct : ct.value = o0 :: o1 :: rest)
    (u e0 e1 pk0 pk1 epk s : RPoly) (hpk : pk0 + pk1 * s = epk)
    (hpt : WFq qs n pt.value) (hctwf : ∀ p ∈ ct.value, WFq qs n p)
    (hu : WFq qs n u) (he0 : WFq qs n e0) (he1 : WFq qs n e1) (hpk0 : WFq qs n pk0)
    (hpk1 : WFq qs n pk1) (hs : WFq qs n s) :
    (encrypt (ezPkNoP rpMont u e0 e1 (rpMont.toM pk0) (rpMont.toM pk1)) ntt intt (some pt) ct).bind
        (fun ct' => decrypt rpMont ct' (rpMont.toM s))
      = some { value := pt.value + montIf rpMont pt.md.isMont (u * epk + e0 + e1 * s), md := pt.md } := by
  subst hpk
  obtain ⟨u, rfl⟩ := exists_lift u hu
  obtain ⟨e0, rfl⟩ := exists_lift e0 he0
  obtain ⟨e1, rfl⟩ := exists_lift e1 he1
  obtain ⟨pk0, rfl⟩ := exists_lift pk0 hpk0
  obtain ⟨pk1, rfl⟩ := exists_lift pk1 hpk1
  obtain ⟨s, rfl⟩ := exists_lift s hs
  obtain ⟨pt, rfl⟩ := exists_lift_pt pt hpt
  obtain ⟨ct, rfl⟩ := exists_lift_ct ct hctwf
  obtain ⟨o0', o1', rest', hct'⟩ := map_eq_cons2 hct
  have hg := dec_enc_pk_noP_gen (WFPoly.isMont_mont_of_odd hodd) id id pt ct o0' o1' rest' hct'
    u e0 e1 pk0 pk1 _ s rfl
  have hn := enc_dec_nat val_hom val_montHom _ _
    (ezPkNoP_nat val_hom val_montHom u e0 e1 (WFPoly.mont.toM pk0) (WFPoly.mont.toM pk1))
    id id ntt intt (some pt) ct (WFPoly.mont.toM s)
  rw [hg, val_montHom.toM, val_montHom.toM, val_montHom.toM] at hn
  rw [Option.map_some] at hn
  rw [hn]
  simp only [Option.map_some, ptMap, val_hom.add, val_hom.mul, montIf_push]

/-- **genPublicKey_noise_rpoly.**  The generated public key satisfies `pk0 + pk1·s = ext e` after
stripping the Montgomery factor (`qs` = the moduli of `R_{QP}`; `ext e` = the extended error). -/
theorem genPublicKey_noise_rpoly {γ : Type} (hodd : ∀ q ∈ qs, q % 2 = 1) (ext : γ → RPoly) (a : RPoly)
    (e : γ) (s : RPoly) (ha : WFq qs n a) (he : WFq qs n (ext e)) (hs : WFq qs n s) :
    let pk := genPublicKey rpMont ext a e (rpMont.toM s)
    rpMont.ofM pk.1 + rpMont.ofM pk.2 * s = ext e ∧ WFq qs n pk.1 ∧ WFq qs n pk.2 := by
  obtain ⟨a, rfl⟩ := exists_lift a ha
  obtain ⟨s, rfl⟩ := exists_lift s hs
  have hg := genPublicKey_relation (WFPoly.isMont_mont_of_odd (qs := qs) (n := n) hodd)
    (fun _ : Unit => lift (ext e) he) a () s
  have hn := genPublicKey_nat val_hom val_montHom (fun _ : Unit => lift (ext e) he) (fun _ : Unit => ext e)
    (fun _ => rfl) a () (WFPoly.mont.toM s)
  rw [val_montHom.toM] at hn
  have h1 : genPublicKey rpMont ext (val a) e (rpMont.toM (val s))
      = genPublicKey rpMont (fun _ : Unit => ext e) (val a) () (rpMont.toM (val s)) := rfl
  intro pk
  have hpk : pk = Prod.map val val (genPublicKey WFPoly.mont (fun _ : Unit => lift (ext e) he) a ()
      (WFPoly.mont.toM s)) := h1.trans hn
  rw [hpk]
  refine ⟨?_, val_wf _, val_wf _⟩
  have := congrArg val hg
  simpa only [Prod.map, val_hom.add, val_hom.mul, val_montHom.ofM, val_lift] using this

end rpoly

/-! ### public key with the auxiliary modulus (two carriers) -/

section withP
variable {qs ps : List ℕ} {n : ℕ} [Good qs n] [Good (qs ++ ps) n] {μ : Type}

/-- **dec_enc_pk_P_rpoly.**  `R_Q` = well-formed polynomials over `qs`, `R_{QP}` over `qs ++ ps`, `π` keeps
the rows of `Q` (`takeRows qs.length`).  `ext`, `down`, `rem` are ANY functions on `RPoly` that
respect well-formedness and satisfy the rounding identity `P·down x = π x − π(rem x)` on well-formed
`x` (for the driver: `RQ.extSmall [p0]`, `RQ.modDown (l+1)`; that they do is C02's arithmetic, not
proved here). -/
theorem dec_enc_pk_P_rpoly (hodd : ∀ q ∈ qs ++ ps, q % 2 = 1)
    (ext : RPoly → RPoly) (P : RPoly) (down rem : RPoly → RPoly)
    (hext : ∀ x, WFq qs n x → WFq (qs ++ ps) n (ext x))
    (hdwf : ∀ x, WFq (qs ++ ps) n x → WFq qs n (down x))
    (hrwf : ∀ x, WFq (qs ++ ps) n x → WFq (qs ++ ps) n (rem x))
    (hP : WFq qs n P)
    (hdown : ∀ x, WFq (qs ++ ps) n x →
      P * down x = takeRows qs.length x - takeRows qs.length (rem x))
    (ntt intt : RPoly → RPoly) (pt : Pt RPoly μ) (ct : Ct RPoly μ) (o0 o1 : RPoly) (rest : List RPoly)
    (hct : ct.value = o0 :: o1 :: rest)
    (u e0 e1 : RPoly) (pk0 pk1 epk sQP : RPoly) (hpk : pk0 + pk1 * sQP = epk)
    (hpt : WFq qs n pt.value) (hctwf : ∀ p ∈ ct.value, WFq qs n p)
    (hu : WFq qs n u) (he0 : WFq qs n e0) (he1 : WFq qs n e1)
    (hpk0 : WFq (qs ++ ps) n pk0) (hpk1 : WFq (qs ++ ps) n pk1) (hs : WFq (qs ++ ps) n sQP) :
    let π := takeRows qs.length
    let c0 := ext u * pk0 + ext e0
    let c1 := ext u * pk1 + ext e1
    let D := down c0 + π sQP * down c1
    (encrypt (ezPk rpMont rpMont ext down u e0 e1 (rpMont.toM pk0) (rpMont.toM pk1)) ntt intt
        (some pt) ct).bind (fun ct' => decrypt rpMont ct' (rpMont.toM (π sQP)))
      = some { value := pt.value + montIf rpMont pt.md.isMont D, md := pt.md }
    ∧ P * D = π (ext u * epk + ext e0 + ext e1 * sQP) - π (rem c0) - π (rem c1) * π sQP := by
  subst hpk
  have hoddQ : ∀ q ∈ qs, q % 2 = 1 := fun q hq => hodd q (List.mem_append_left _ hq)
  obtain ⟨u, rfl⟩ := exists_lift u hu
  obtain ⟨e0, rfl⟩ := exists_lift e0 he0
  obtain ⟨e1, rfl⟩ := exists_lift e1 he1
  obtain ⟨pk0, rfl⟩ := exists_lift pk0 hpk0
  obtain ⟨pk1, rfl⟩ := exists_lift pk1 hpk1
  obtain ⟨sQP, rfl⟩ := exists_lift sQP hs
  obtain ⟨P, rfl⟩ := exists_lift P hP
  obtain ⟨pt, rfl⟩ := exists_lift_pt pt hpt
  obtain ⟨ct, rfl⟩ := exists_lift_ct ct hctwf
  obtain ⟨o0', o1', rest', hct'⟩ := map_eq_cons2 hct
  -- the abstract functions, restricted to well-formed values
  let ext' : WFPoly qs n → WFPoly (qs ++ ps) n := fun x => lift (ext (val x)) (hext _ (val_wf x))
  let down' : WFPoly (qs ++ ps) n → WFPoly qs n := fun x => lift (down (val x)) (hdwf _ (val_wf x))
  let rem' : WFPoly (qs ++ ps) n → WFPoly (qs ++ ps) n := fun x => lift (rem (val x)) (hrwf _ (val_wf x))
  have hdown' : ∀ x, P * down' x = projQ (qs := qs) x - projQ (qs := qs) (rem' x) := fun x =>
    val_injective (hdown (val x) (val_wf x))
  obtain ⟨hg1, hg2⟩ := dec_enc_pk_P_gen (WFPoly.isMont_mont_of_odd hoddQ) (WFPoly.isMont_mont_of_odd hodd)
    (projQ (qs := qs) (ps := ps)) ext' P down' rem' hdown' id id pt ct o0' o1' rest' hct' u e0 e1 pk0 pk1 _ sQP rfl
  intro π c0 c1 D
  constructor
  · have hn := enc_dec_nat val_hom val_montHom _ _
      (ezPk_nat (μ := μ) val_hom val_hom val_montHom val_montHom ext' ext (fun _ => rfl) down' down (fun _ => rfl)
        u e0 e1 (WFPoly.mont.toM pk0) (WFPoly.mont.toM pk1))
      id id ntt intt (some pt) ct (WFPoly.mont.toM (projQ (qs := qs) sQP))
    rw [hg1, val_montHom.toM, val_montHom.toM, val_montHom.toM] at hn
    simp only [Option.map_some, ptMap, val_hom.add, montIf_push] at hn
    exact hn
  · exact congrArg val hg2

end withP

/-! ## 4. The same on the driver's carrier `RQ` (standard ring, `ci = false`) -/

section rq
variable {qs : List ℕ} {n : ℕ} [Good qs n] {μ : Type}

/-- **dec_enc_sk_rq** — literally the expression the driver evaluates (after level truncation) -/
theorem dec_enc_sk_rq (hodd : ∀ q ∈ qs, q % 2 = 1) (ntt intt : RQ → RQ) (pt : Pt RPoly μ)
    (ct : Ct RPoly μ) (o0 o1 : RPoly) (rest : List RPoly) (hct : ct.value = o0 :: o1 :: rest)
    (a e s : RPoly) (hpt : WFq qs n pt.value) (hctwf : ∀ p ∈ ct.value, WFq qs n p)
    (ha : WFq qs n a) (he : WFq qs n e) (hs : WFq qs n s) :
    (encrypt (ezSk RQ.mont (std a) (std e) (RQ.mont.toM (std s))) ntt intt (some (ptMap std pt))
        (ctMap std ct)).bind (fun ct' => decrypt RQ.mont ct' (RQ.mont.toM (std s)))
      = some (ptMap std { value := pt.value + montIf rpMont pt.md.isMont e, md := pt.md }) := by
  have hn := enc_dec_nat std_hom std_montHom _ _ (ezSk_nat std_hom std_montHom a e (rpMont.toM s))
    id id ntt intt (some pt) ct (rpMont.toM s)
  rw [dec_enc_sk_rpoly hodd id id pt ct o0 o1 rest hct a e s hpt hctwf ha he hs] at hn
  exact hn

theorem wrong_key_rq (hodd : ∀ q ∈ qs, q % 2 = 1) (ntt intt : RQ → RQ) (pt : Pt RPoly μ)
    (ct : Ct RPoly μ) (o0 o1 : RPoly) (rest : List RPoly) (hct : ct.value = o0 :: o1 :: rest)
    (a e s s' : RPoly) (hpt : WFq qs n pt.value) (hctwf : ∀ p ∈ ct.value, WFq qs n p)
    (ha : WFq qs n a) (he : WFq qs n e) (hs : WFq qs n s) (hs' : WFq qs n s') :
    ∃ out : Pt RPoly μ, (encrypt (ezSk RQ.mont (std a) (std e) (RQ.mont.toM (std s))) ntt intt
          (some (ptMap std pt)) (ctMap std ct)).bind
          (fun ct' => decrypt RQ.mont ct' (RQ.mont.toM (std s'))) = some (ptMap std out)
      ∧ out.value - pt.value = montIf rpMont pt.md.isMont e + a * (s' - s) ∧ out.md = pt.md := by
  obtain ⟨out, h1, h2, h3, _⟩ :=
    wrong_key_rpoly hodd id id pt ct o0 o1 rest hct a e s s' hpt hctwf ha he hs hs'
  have hn := enc_dec_nat std_hom std_montHom _ _ (ezSk_nat std_hom std_montHom a e (rpMont.toM s))
    id id ntt intt (some pt) ct (rpMont.toM s')
  rw [h1] at hn
  exact ⟨out, hn, h2, h3⟩

theorem dec_enc_pk_noP_rq (hodd : ∀ q ∈ qs, q % 2 = 1) (ntt intt : RQ → RQ) (pt : Pt RPoly μ)
    (ct : Ct RPoly μ) (o0 o1 : RPoly) (rest : List RPoly) (hct : ct.value = o0 :: o1 :: rest)
    (u e0 e1 pk0 pk1 epk s : RPoly) (hpk : pk0 + pk1 * s = epk)
    (hpt : WFq qs n pt.value) (hctwf : ∀ p ∈ ct.value, WFq qs n p)
    (hu : WFq qs n u) (he0 : WFq qs n e0) (he1 : WFq qs n e1) (hpk0 : WFq qs n pk0)
    (hpk1 : WFq qs n pk1) (hs : WFq qs n s) :
    (encrypt (ezPkNoP RQ.mont (std u) (std e0) (std e1) (RQ.mont.toM (std pk0)) (RQ.mont.toM (std pk1)))
        ntt intt (some (ptMap std pt)) (ctMap std ct)).bind
        (fun ct' => decrypt RQ.mont ct' (RQ.mont.toM (std s)))
      = some (ptMap std { value := pt.value + montIf rpMont pt.md.isMont (u * epk + e0 + e1 * s),
                          md := pt.md }) := by
  have hn := enc_dec_nat std_hom std_montHom _ _
    (ezPkNoP_nat std_hom std_montHom u e0 e1 (rpMont.toM pk0) (rpMont.toM pk1))
    id id ntt intt (some pt) ct (rpMont.toM s)
  rw [dec_enc_pk_noP_rpoly hodd id id pt ct o0 o1 rest hct u e0 e1 pk0 pk1 epk s hpk hpt hctwf hu he0 he1
    hpk0 hpk1 hs] at hn
  exact hn

end rq

/-! ## 5. The driver -/

section driver
open Driver.C03
variable {qs : List ℕ} {n : ℕ} [Good qs n] {μ : Type}

/-- what the handler prints for a result of `RQ.encryptAt` / `RQ.decryptAt` (copied from the handlers) -/
def showEnc : RQ.Res (Nat × Ct RQ String) → String
  | .err => "err"
  | .panic => "panic"
  | .ok (l, r) => s!"ok lvl={l} ntt={b2s r.md.isNTT} mont={b2s r.md.isMont} meta={r.md.pt} ct={showPolys r.value}"

def showDec : RQ.Res (Nat × Pt RQ String) → String
  | .err => "err"
  | .panic => "panic"
  | .ok (l, r) => s!"ok lvl={l} ntt={b2s r.md.isNTT} mont={b2s r.md.isMont} meta={r.md.pt} pt={Driver.showMat r.value.p.c}"

/-- **the `dec` handler calls `RQ.decryptAt`** on the parsed values and prints its result -/
theorem handleDec_calls (h : Hdr) (toks : List String) (lc lpt : Nat) (ntt mont : Bool) (md : String)
    (cts : List RQ) (skq : RQ)
    (h1 : getNat toks "lc" = some lc) (h2 : getNat toks "lpt" = some lpt)
    (h3 : getBool toks "ntt" = some ntt) (h4 : getBool toks "mont" = some mont)
    (h5 : Driver.kv? toks "meta" = some md) (h6 : (Driver.kv? toks "ct").bind (parsePolys h) = some cts)
    (h7 : getQ h toks "skq" = some skq) :
    handleDec h toks
      = some (showDec (RQ.decryptAt skq lc lpt { value := cts, md := { pt := md, isNTT := ntt, isMont := mont } })) := by
  simp only [handleDec, h1, h2, h3, h4, h5, h6, h7, Option.bind_eq_bind, Option.bind_some, showDec]
  cases RQ.decryptAt skq lc lpt { value := cts, md := { pt := md, isNTT := ntt, isMont := mont } } <;> rfl

/-- **the `enc` handler with `key=sk` and a plaintext calls `RQ.encryptAt`** on the parsed values -/
theorem handleEnc_sk_calls (h : Hdr) (toks : List String) (lc lp : Nat) (cntt cmont pntt pmont : Bool)
    (cmeta pmeta : String) (old : List RQ) (v a e0 skq : RQ)
    (h1 : Driver.kv? toks "key" = some "sk") (h2 : getNat toks "lc" = some lc)
    (h3 : getBool toks "cntt" = some cntt) (h4 : getBool toks "cmont" = some cmont)
    (h5 : Driver.kv? toks "cmeta" = some cmeta) (h6 : (Driver.kv? toks "old").bind (parsePolys h) = some old)
    (h7 : getBool toks "haspt" = some true) (h8 : getNat toks "lp" = some lp)
    (h9 : getBool toks "pntt" = some pntt) (h10 : getBool toks "pmont" = some pmont)
    (h11 : Driver.kv? toks "pmeta" = some pmeta) (h12 : getQ h toks "pt" = some v)
    (h13 : getQ h toks "a" = some a) (h14 : getQ h toks "e0" = some e0) (h15 : getQ h toks "skq" = some skq) :
    handleEnc h toks
      = some (showEnc (RQ.encryptAt (.sk skq) (!h.p.isEmpty) (h.p.headD 1) lc (some lp)
          { a := a, u := zeroRQ h (min lp lc), e0 := e0, e1 := zeroRQ h (min lp lc) }
          (some { value := v, md := { pt := pmeta, isNTT := pntt, isMont := pmont } })
          { value := old, md := { pt := cmeta, isNTT := cntt, isMont := cmont } })) := by
  simp only [handleEnc, h1, h2, h3, h4, h5, h6, h7, h8, h9, h10, h11, h12, h13, h14, h15,
    Option.bind_eq_bind, Option.bind_some, showEnc, if_true]
  cases RQ.encryptAt (.sk skq) (!h.p.isEmpty) (h.p.headD 1) lc (some lp)
          { a := a, u := zeroRQ h (min lp lc), e0 := e0, e1 := zeroRQ h (min lp lc) }
          (some { value := v, md := { pt := pmeta, isNTT := pntt, isMont := pmont } })
          { value := old, md := { pt := cmeta, isNTT := cntt, isMont := cmont } } <;> rfl

/-- the parsed polynomials of a standard-ring line (`ci=0`) are `std` of plain `RPoly`s -/
theorem mkRQ_std (qsAll : List ℕ) (m : List (List ℕ)) :
    mkRQ false qsAll m = std { qs := qsAll.take m.length, c := m } := rfl

/-- `atLevel` is the identity on a well-formed value that has no more than `l+1` rows -/
theorem atLevel_val (x : WFPoly qs n) (l : ℕ) (hl : qs.length ≤ l + 1) : (val x).atLevel l = val x := by
  obtain ⟨⟨xqs, xc⟩, h1, h2, _⟩ := x
  simp only at h1 h2
  subst h1
  simp only [val, RPoly.atLevel]
  rw [List.take_of_length_le hl, List.take_of_length_le (by rw [h2]; exact hl)]

/-- truncating a well-formed polynomial over the chain `Q` to level `l` -/
theorem atLevel_wfq {Q : List ℕ} {p : RPoly} (h : WFq Q n p) (l : ℕ) : WFq (Q.take (l + 1)) n (p.atLevel l) := by
  obtain ⟨h1, h2, h3⟩ := h
  refine ⟨by simp [RPoly.atLevel, h1], by simp [RPoly.atLevel, h1, h2], fun i hi => ?_⟩
  have hi' : i < l + 1 ∧ i < p.qs.length := by simpa [RPoly.atLevel] using hi
  have := h3 i hi'.2
  have e1 : (p.atLevel l).qs[i] = p.qs[i] := by simp [RPoly.atLevel]
  have e2 : (p.atLevel l).c.getD i [] = p.c.getD i [] := by
    simp [RPoly.atLevel, List.getD_eq_getElem?_getD, hi'.1]
  rw [e1, e2]; exact this

/-- the map `WFPoly qs n → RQ` the driver's values come from -/
def valQ (x : WFPoly qs n) : RQ := std (val x)

theorem valQ_hom : OpsHom (valQ (qs := qs) (n := n)) := by
  show OpsHom (fun x : WFPoly qs n => std (val x))
  exact OpsHom.comp std_hom val_hom
theorem valQ_montHom : MontHom (valQ (qs := qs) (n := n)) WFPoly.mont RQ.mont := by
  show MontHom (fun x : WFPoly qs n => std (val x)) _ _
  exact MontHom.comp std_montHom val_montHom

theorem exists_of_bind_eq_some {α β : Type} {x : Option α} {f : α → Option β} {b : β}
    (h : x.bind f = some b) : ∃ a, x = some a ∧ f a = some b := by
  cases x with
  | none => simp at h
  | some a => exact ⟨a, rfl, h⟩

/-- **driver_dec_enc_sk** — the functions the handlers call (`handleEnc_sk_calls`, `handleDec_calls`):
`RQ.encryptAt` under a secret key with a plaintext, then `RQ.decryptAt` of its output at the output
level.  `level = min lp lc`; the hypotheses are well-formedness (over the moduli `qs` of that level, all
odd) of the level-truncated inputs — `atLevel_wfq` derives them from well-formedness over the full chain. -/
theorem driver_dec_enc_sk (hodd : ∀ q ∈ qs, q % 2 = 1) (hasP : Bool) (p0 lc lp : ℕ) (sQ a e0 : RPoly)
    (u e1 : RQ) (pt : Pt RPoly μ) (ct : Ct RPoly μ) (o0 o1 : RPoly) (rest : List RPoly)
    (hct : ct.value = o0 :: o1 :: rest) (hlen : qs.length ≤ min lp lc + 1)
    (hs : WFq qs n (sQ.atLevel (min lp lc))) (ha : WFq qs n a) (he : WFq qs n e0)
    (hpt : WFq qs n (pt.value.atLevel (min lp lc)))
    (hctwf : ∀ p ∈ ct.value, WFq qs n (p.atLevel (min lp lc))) :
    ∃ ct', RQ.encryptAt (.sk (std sQ)) hasP p0 lc (some lp) { a := std a, u := u, e0 := std e0, e1 := e1 }
        (some (ptMap std pt)) (ctMap std ct) = .ok (min lp lc, ct')
      ∧ RQ.decryptAt (std sQ) (min lp lc) (min lp lc) ct'
        = .ok (min lp lc, ptMap std { value := pt.value.atLevel (min lp lc) + montIf rpMont pt.md.isMont e0,
                                      md := pt.md }) := by
  generalize hlvl : min lp lc = level at *
  -- lift the truncated inputs
  obtain ⟨a', rfl⟩ := exists_lift a ha
  obtain ⟨e', rfl⟩ := exists_lift e0 he
  obtain ⟨sM, hsM⟩ := exists_lift _ hs
  obtain ⟨pv, hpv⟩ := exists_lift _ hpt
  obtain ⟨cv, hcv⟩ := exists_lift_list (ct.value.map (·.atLevel level)) (fun p hp => by
    obtain ⟨x, hx, rfl⟩ := List.mem_map.1 hp
    exact hctwf x hx)
  obtain ⟨o0', o1', rest', hcv'⟩ : ∃ x y r, cv = x :: y :: r := by
    rw [hct] at hcv
    exact map_eq_cons2 hcv
  -- the secret whose stored (Montgomery) form is the truncated key
  have hI := WFPoly.isMont_mont_of_odd (qs := qs) (n := n) hodd
  have hsM' : WFPoly.mont.toM (WFPoly.mont.ofM sM) = sM := by
    rw [hI.toM, hI.ofM, mul_assoc, mul_comm _ (WFPoly.constNat _), hI.inv, mul_one]
  let pt' : Pt (WFPoly qs n) μ := { value := pv, md := pt.md }
  let ct' : Ct (WFPoly qs n) μ := { value := cv, md := ct.md }
  have hg := dec_enc_sk_gen hI id id pt' ct' o0' o1' rest' hcv' a' e' (WFPoly.mont.ofM sM)
  rw [hsM'] at hg
  obtain ⟨c, hc1, hc2⟩ := exists_of_bind_eq_some hg
  have hn1 := encrypt_nat valQ_hom _ _ (ezSk_nat valQ_hom valQ_montHom a' e' sM) id id id id (some pt') ct'
  rw [hc1] at hn1
  have hn2 := decrypt_nat valQ_hom valQ_montHom c sM
  rw [hc2] at hn2
  -- the arguments `encryptAt` builds are the images of the lifted ones
  have e1' : ((std sQ).atLevel level) = valQ sM := by
    show std (sQ.atLevel level) = std (val sM); rw [hsM]
  have e2' : ({ value := (ctMap std ct).value.map (·.atLevel level), md := (ctMap std ct).md } : Ct RQ μ)
      = ctMap valQ ct' := by
    simp only [ctMap, ct', List.map_map]
    congr 1
    have : List.map valQ cv = (List.map val cv).map std := by rw [List.map_map]; rfl
    rw [this, hcv, List.map_map]
    rfl
  have e3' : (Option.map (fun p : Pt RQ μ => ({ value := p.value.atLevel level, md := p.md } : Pt RQ μ))
      (some (ptMap std pt))) = Option.map (ptMap valQ) (some pt') := by
    simp only [Option.map_some, ptMap, pt']
    show some ({ value := std (pt.value.atLevel level), md := pt.md } : Pt RQ μ) = _
    rw [← hpv]; rfl
  refine ⟨ctMap valQ c, ?_, ?_⟩
  · have hne : (ctMap std ct).value.isEmpty = false := by simp [ctMap, hct]
    simp only [RQ.encryptAt, hne, hlvl, Bool.false_eq_true, if_false]
    rw [e2', e3']
    show (match encrypt (ezSk RQ.mont (valQ a') (valQ e') ((std sQ).atLevel level)) id id
        (Option.map (ptMap valQ) (some pt')) (ctMap valQ ct') with
      | some r => RQ.Res.ok (level, r) | none => RQ.Res.panic) = _
    rw [e1', hn1]
    rfl
  · have hid : (ctMap valQ c).value.map (·.atLevel level) = (ctMap valQ c).value := by
      simp only [ctMap, List.map_map]
      apply List.map_congr_left
      intro x _
      show std ((val x).atLevel level) = std (val x)
      rw [atLevel_val x level hlen]
    simp only [RQ.decryptAt, Nat.min_self, hid]
    show (match decrypt RQ.mont (ctMap valQ c) ((std sQ).atLevel level) with
      | some r => RQ.Res.ok (level, r) | none => RQ.Res.panic) = _
    rw [e1', hn2]
    simp only [Option.map_some, ptMap, valQ, pt', val_hom.add, montIf_push, hpv]

end driver

/-! ## 6. A concrete instance: `qs = [97, 193]`, `n = 8` -/

section concrete

instance good8 : Good [97, 193] 8 := ⟨by decide, by decide⟩

def a8 : RPoly := ⟨[97, 193], [[1, 2, 3, 4, 5, 6, 7, 8], [10, 20, 30, 40, 50, 60, 70, 80]]⟩
def e8 : RPoly := ⟨[97, 193], [[1, 0, 96, 0, 2, 0, 95, 1], [1, 0, 192, 0, 2, 0, 191, 1]]⟩
def s8 : RPoly := ⟨[97, 193], [[1, 96, 0, 1, 0, 0, 96, 1], [1, 192, 0, 1, 0, 0, 192, 1]]⟩
def s8' : RPoly := ⟨[97, 193], [[0, 1, 1, 0, 96, 0, 0, 1], [0, 1, 1, 0, 192, 0, 0, 1]]⟩
def m8 : RPoly := ⟨[97, 193], [[5, 6, 7, 8, 9, 10, 11, 12], [5, 6, 7, 8, 9, 10, 11, 12]]⟩
def z8 : RPoly := RPoly.zero [97, 193] 8
def pt8 : Pt RPoly Unit := ⟨m8, ⟨(), true, true⟩⟩
def ct8 : Ct RPoly Unit := ⟨[z8, z8, a8], ⟨(), false, false⟩⟩

/-- the hypotheses of the `…_rpoly` theorems hold for these values (decidable) -/
example : (∀ q ∈ [97, 193], q % 2 = 1) ∧ WFq [97, 193] 8 a8 ∧ WFq [97, 193] 8 e8 ∧ WFq [97, 193] 8 s8
    ∧ WFq [97, 193] 8 pt8.value ∧ ∀ p ∈ ct8.value, WFq [97, 193] 8 p := by decide

/-- an instance of `dec_enc_sk_rpoly` obtained FROM THE THEOREM (degree-2 target, Montgomery flag set) -/
example : (encrypt (ezSk rpMont a8 e8 (rpMont.toM s8)) id id (some pt8) ct8).bind
      (fun ct' => decrypt rpMont ct' (rpMont.toM s8))
    = some { value := m8 + montIf rpMont true e8, md := ⟨(), true, true⟩ } :=
  dec_enc_sk_rpoly (qs := [97, 193]) (n := 8) (by decide) id id pt8 ct8 z8 z8 [a8] rfl a8 e8 s8
    (by decide) (by decide) (by decide) (by decide) (by decide)

/-- TEST (evaluation of the model on these values): the same identity, and the value of the right-hand side -/
example : (encrypt (ezSk rpMont a8 e8 (rpMont.toM s8)) id id (some pt8) ct8).bind
      (fun ct' => decrypt rpMont ct' (rpMont.toM s8))
    = some { value := m8 + montIf rpMont true e8, md := ⟨(), true, true⟩ } := by decide +kernel

example : m8 + montIf rpMont true e8
    = ⟨[97, 193], [[66, 6, 43, 8, 34, 10, 83, 73], [89, 6, 116, 8, 177, 10, 36, 96]]⟩ := by decide +kernel

/-- TEST: wrong key — the distance to the plaintext is `e' + a·(s' − s)` on these values -/
example : ((encrypt (ezSk rpMont a8 e8 (rpMont.toM s8)) id id (some pt8) ct8).bind
      (fun ct' => decrypt rpMont ct' (rpMont.toM s8'))).map (fun out => out.value - m8)
    = some (montIf rpMont true e8 + a8 * (s8' - s8)) := by decide +kernel

/-- the driver-level theorem applies to these values (levels `lc = lp = 1`, chain `[97, 193]`) -/
example : ∃ ct', RQ.encryptAt (.sk (std (rpMont.toM s8))) false 1 1 (some 1)
      { a := std a8, u := std z8, e0 := std e8, e1 := std z8 } (some (ptMap std pt8)) (ctMap std ct8) = .ok (1, ct')
    ∧ RQ.decryptAt (std (rpMont.toM s8)) 1 1 ct'
      = .ok (1, ptMap std { value := m8.atLevel 1 + montIf rpMont true e8, md := ⟨(), true, true⟩ }) :=
  driver_dec_enc_sk (qs := [97, 193]) (n := 8) (by decide) false 1 1 1 (rpMont.toM s8) a8 e8 (std z8) (std z8)
    pt8 ct8 z8 z8 [a8] rfl (by decide) (by decide +kernel) (by decide) (by decide) (by decide) (by decide)

end concrete

end Lattigo.Props.C03Ring

#print axioms Lattigo.Props.C03Ring.dec_enc_sk_rpoly
#print axioms Lattigo.Props.C03Ring.wrong_key_rpoly
#print axioms Lattigo.Props.C03Ring.dec_enc_pk_noP_rpoly
#print axioms Lattigo.Props.C03Ring.genPublicKey_noise_rpoly
#print axioms Lattigo.Props.C03Ring.dec_enc_pk_P_rpoly
#print axioms Lattigo.Props.C03Ring.dec_enc_sk_rq
#print axioms Lattigo.Props.C03Ring.wrong_key_rq
#print axioms Lattigo.Props.C03Ring.dec_enc_pk_noP_rq
#print axioms Lattigo.Props.C03Ring.driver_dec_enc_sk
#print axioms Lattigo.Props.C03Ring.handleDec_calls
#print axioms Lattigo.Props.C03Ring.handleEnc_sk_calls
