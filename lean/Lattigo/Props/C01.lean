import Lattigo.Props.C01Words
import Lattigo.Props.C01NTT
/-!
# C01 — RNS ring arithmetic equals exact arithmetic in Z_Q[X]/(X^N+1)

Property theorems live in
* `Lattigo.Props.C01Words` — word level (Montgomery/Barrett reductions, butterflies) and the 38
  lane kernels, all about the definitions REGENERATED from /repo/ring by tools/go2lean;
* `Lattigo.Props.C01NTT` — range invariant and semantics of the lazy NTT model (when present it is
  imported below).
This module collects them so that `lake build Lattigo.Props.C01` checks all of C01.
-/
