import Lattigo.Props.C01Words
import Lattigo.Props.C01NTT
import Lattigo.Props.C01Ring
import Lattigo.Props.C01Tie
import Lattigo.Props.C01Aut
import Lattigo.Props.C01CI
/-!
# C01 — RNS ring arithmetic equals exact arithmetic in Z_Q[X]/(X^N+1)

Property theorems live in
* `Lattigo.Props.C01Words` — word level (Montgomery/Barrett reductions, butterflies) and the 38
  lane kernels, all about the definitions REGENERATED from /repo/ring by tools/go2lean;
* `Lattigo.Props.C01NTT` — range invariant and semantics of the lazy NTT model (when present it is
  imported below).
* `Lattigo.Props.C01Ring` — the abstract layer: `RPoly` (canonical RNS polynomials, the carrier the
  scheme-level models of C03/C04/C14/C16/C20 are executed on) IS the commutative ring
  Π_i Z_{q_i}[X]/(X^N+1), and the word-level NTT/Montgomery kernels implement its operations
  (`refine_mul`, `words_ring`, `words_poly_ring`).
* `Lattigo.Props.C01Tie` — the hand-written wrapper table `Vec.op` agrees with the SubRing wrappers
  REGENERATED from ring/subring_ops.go (`vecOp_table`); the unrolled kernel loop, executed
  sequentially under any aliasing of its slices, is the pointwise map of the kernel's lane
  (`kernel_loop_spec`, `kernel_loop_map3`).
* `Lattigo.Props.C01Aut` — closed form of the REGENERATED `AutomorphismNTTIndex` (`autIndex_spec`),
  `NTT(σ_g a) = NTT(a) ∘ index` (`autNTT_spec`), `σ_g σ_h = σ_{gh}` (`aut_comp`).
This module collects them so that `lake build Lattigo.Props.C01` checks all of C01.
-/
