import Lattigo.Props.C01Words
import Lattigo.Props.C01NTT
import Lattigo.Props.C01Ring
/-!
# C01 — RNS ring arithmetic equals exact arithmetic in Z_Q[X]/(X^N+1)

Property theorems live in
* `Lattigo.Props.C01Words` — word level (Montgomery/Barrett reductions, butterflies) and the 38
  lane kernels, all about the definitions REGENERATED from /repo/ring by tools/go2lean;
* `Lattigo.Props.C01NTT` — range invariant and semantics of the lazy NTT model (when present it is
  imported below).
* `Lattigo.Props.C01Ring` — the abstract layer: `RPoly` (canonical RNS polynomials, the carrier the
  scheme-level models of C03/C04/C14/C16/C20 are executed on) IS the commutative ring
  Π_i Z_{q_i}[X]/(X^N+1), and the word-level NTT/Montgomery kernels implement its operations
  (`refine_mul`, `words_ring`, `words_poly_ring`).
This module collects them so that `lake build Lattigo.Props.C01` checks all of C01.
-/
