import Lattigo.Props.C01Words
import Lattigo.Props.C01NTT
import Lattigo.Props.C01Ring
import Lattigo.Props.C01Tie
import Lattigo.Props.C01Aut
import Lattigo.Props.C01CI
import Lattigo.Props.C01QP
/-!
# C01 — RNS ring arithmetic equals exact arithmetic in Z_Q[X]/(X^N+1)

Property theorems live in
* `Lattigo.Props.C01Words` — word level (Montgomery/Barrett reductions, butterflies) and the 38
  lane kernels, all about the definitions REGENERATED from /repo/ring by tools/go2lean: congruence and documented
  output range of every flavour, for all uint64 inputs in the stated ranges (clauses "coefficient-wise
  add/sub/neg/multiply in all Barrett/Montgomery/lazy flavours", "lying in the output range it documents").
* `Lattigo.Props.C01NTT` — the lazy NTT model of `Model/NTT.lean` (tied limb for limb, lazy limbs included):
  no-wrap invariant at every node and documented ranges for inputs `< 2q`, both ring types (`ntt_range`,
  `ntt_range_ci`, `intt_range`, `intt_range_ci`); semantics `fwd_sem`/`ntt_eval` (evaluation at `ψ^(2·brv(t)+1)`),
  `ntt_mul`, `intt_ntt` (standard ring); `ntt_ci_sem` (evaluation of `a_0 + Σ a_m (X^m + X^-m)` at the roots
  `x_t`, `x_t^N = ρ_1`, `ρ_1² = −1`), `intt_ntt_ci`; all instantiated on the tables the code generates
  (`tables_invariant`, `tables_invariant_ci`); `8q ≤ 2^64` is necessary (`ntt_range_needs_8q_counterexample`).
* `Lattigo.Props.C01Ring` — the abstract layer: `RPoly` (canonical RNS polynomials, the carrier the
  scheme-level models of C03/C04/C14/C16/C20 are executed on) IS the commutative ring
  Π_i Z_{q_i}[X]/(X^N+1), and the word-level NTT/Montgomery kernels implement its operations
  (`refine_mul`, `words_ring`, `words_poly_ring`); `row_aut`, `row_monomial`.
* `Lattigo.Props.C01Tie` — the hand-written wrapper table `Vec.op` agrees with the SubRing wrappers
  REGENERATED from ring/subring_ops.go (`vecOp_table`); the unrolled kernel loop, executed
  sequentially under any aliasing of its slices, is the pointwise map of the kernel's lane
  (`kernel_loop_spec`, `kernel_loop_map3`).
* `Lattigo.Props.C01Aut` — closed form of the REGENERATED `AutomorphismNTTIndex` (`autIndex_spec`),
  `NTT(σ_g a) = NTT(a) ∘ index` (`autNTT_spec`, standard ring), `σ_g σ_h = σ_{gh}` (`aut_comp`).
* `Lattigo.Props.C01CI` — which rings are constructed (`accept_iff`), accepted ⇒ `ψ` primitive
  (`accept_psi_primitive`) ⇒ valid tables (`accept_tables_std/ci`), refused ⇒ no primitive root exists
  (`refused_no_primitive_root`).
* `Lattigo.Props.C01QP` — `ringqp.Ring.MulRNSScalarMontgomery` on every level view (`qp_mulRNSScalar_view`), the
  coefficient-domain automorphism of the conjugate-invariant ring (`aut_ci_restriction`, `aut_ci_closed`,
  `aut_ci_sem`), the conjugate-invariant forward transform on LARGE inputs (`ntt_ci_big`, `ntt_ci_unreduced`).

Status by clause of the property text (details: /verif/design/C01.md):
* proved for all inputs: the word/lane kernels; both forward and both inverse transforms (no wrap, range, exact
  semantics, `INTT∘NTT = id`); `NTT(a)·NTT(b) = NTT(a·b)` for the STANDARD ring; automorphisms: coefficient domain both
  ring types, NTT domain standard ring; acceptance of moduli; R_QP scalar layout.
* tied only (model = code on the explored inputs): `Ring`-level scalar operations (`ringop`), `MultByMonomial`
  (`rpmono`; `row_monomial` is about the model), the inverse conjugate-invariant transform on inputs `≥ 2q`.
* probed only (exact references on the real code, harness/c01*.go): the product theorem of the conjugate-invariant
  transform (`ntt_mul_lazy`, `ctor_mul`), RNS scalars `ring/scalar.go` (`rns_scalar_ref`, `ringqp_scalar`), the
  NTT-domain automorphism of the conjugate-invariant ring (`history`, `ci_gal3mod4`), independence of rings
  (`history*`), lazy accumulation chains (`lazy_chain`).
* not covered: `ring/ringqp` basis-extension helpers (C02), samplers (C17), `ring.Poly` serialisation (C08).
This module collects them so that `lake build Lattigo.Props.C01` checks all of C01.
-/
