import Lattigo.Proofs.ModRed
/-! # C01 — RNS ring arithmetic equals exact arithmetic in Z_Q[X]/(X^N+1)  (property theorems) -/
namespace Lattigo.Props.C01
open Lattigo Lattigo.Gen

/-- `MRedLazy` (regenerated from ring/modular_reduction.go): exact Montgomery equation, lazy range. -/
theorem MRedLazy_eq (x y q qinv : Nat) (hq : 2 * q ≤ W) (hm : MontConst q qinv) (hxy : x * y < q * W) :
    MRedLazy x y q qinv * W + ((x * y) % W * qinv % W) * q = x * y + q * W
    ∧ MRedLazy x y q qinv < 2 * q ∧ 0 < MRedLazy x y q qinv :=
  Lattigo.MRedLazy_eq x y q qinv hq hm hxy

end Lattigo.Props.C01
