import Lattigo.Proofs.EncoderC
import Lattigo.Proofs.CKKSFixedPoint
import Lattigo.Proofs.EncoderCFFT
import Mathlib.RingTheory.RootsOfUnity.Complex
/-!
# C07 (approximate half) — CKKS encoder / decoder  (property theorems)

Model: `Lattigo.EncoderC` (+ `Lattigo.CKKS.fixedPoint`), executed by `Driver/C07CKKS.lean`, tied to
`schemes/ckks/encoder.go`, `utils.go` by `harness/c07_ckks.go`.

State of the clauses of the property text (CKKS sentence)
* "approximate encoding followed by decoding returns every input vector up to the rounding error of the fixed-point
  conversion at the plaintext scale plus the floating-point error of the encoder's working precision, for every slot
  count (sparse packing), both ring types, both paths, slot and coefficient domains" —
  - exact part, PROVED for all inputs: the special DFT and its inverse are mutually inverse in exact arithmetic
    (`special_dft_decode_encode`, `special_dft_encode_decode`: any field with a primitive `2N`-th root; sparse packing
    `special_dft_sparse`; the conjugate-invariant ring is the case `2N` with a `4N`-th root); the slots sit at pairwise
    distinct odd exponents (`orbit_injective`, `rotGroup_nodup`, `conj_exponents_disjoint`, `bitRev_perm`);
  - rounding part, PROVED: `fixedpoint_roundtrip` (exact rationals, `≤ 1/(2Δ)` per coefficient), `fixedPoint_exact` (equal to round-half-away(x·Δ) whenever the working
    precision holds the product: boundary magnitudes 2^52…2^100 tied on every path), `singleFloat64_eq_fixedPoint`,
    `fixedPoint_error`
    (the conversion AS PERFORMED with `P`-bit floats — the function the driver executes: `1/2 + 3·2^-P(|x|Δ+1)`),
    `slot_error_of_coeff_error` (coefficient error `B` ⇒ slot error `≤ N·B`), `encode_slot_error` (their composition);
  - NOT modelled: the butterfly network of `SpecialFFT/IFFT*` and its floating-point error (the exact transform above
    is its specification; the float64 / big.Float implementation is tied on exactly representable cases by `encslot`,
    `encpoly` and measured by the probes `decode_encode_precision`, `encoder_precision_history`).
* "public decoding additionally rounds every value to a multiple of the requested precision" — PROVED on the model
  function: `decodePublic_multiple`, `decodePublic_nearest` (a nearest multiple, ties away from zero
  `roundHalfAway_tie`); tied on both precision paths (`roundprec`); coefficient-domain `DecodePublic` ignores
  `logprec` (known finding).
* "encoded plaintexts multiply slot-wise" — consequence of `special_dft_decode_encode` + evaluation being a ring
  homomorphism; stated for the ring in C06 (`phase_Mul`); here probed (`encode_mul_slotwise`).
Tied only: `enccoef`, `encslot`, `encpoly` layouts (`embedCoeffs`: `encodePoly_conjInv_discards_imag` is the only general
statement), `bitrev`.
-/
namespace Lattigo.Props.C07CKKS
open Lattigo.EncoderC

/-- **fixedpoint_roundtrip**: `|decode_fp (encode_fp x Δ) − x| ≤ 1/(2Δ)` on exact rationals
    (`x = xn/xd`, `Δ = sn/sd`, `decode_fp c = c/Δ`). -/
theorem fixedpoint_roundtrip (xn : ℤ) (xd sn sd : ℕ) (hxd : 0 < xd) (hsn : 0 < sn) (hsd : 0 < sd) :
    |(encodeFP xn xd sn sd : ℚ) / ((sn : ℚ) / sd) - (xn : ℚ) / xd| ≤ 1 / (2 * ((sn : ℚ) / sd)) :=
  Lattigo.EncoderC.fixedpoint_roundtrip xn xd sn sd hxd hsn hsd
example : encodeFP (-5) 8 (2 ^ 10) 1 = -640 ∧ encodeFP 1 3 1024 1 = 341 ∧ encodeFP (-1) 2 1 1 = -1 := by decide

/-- **The conversion the code performs** (`Lattigo.CKKS.fixedPoint`, executed by the driver for
    `*ToFixedPointCRT`; `P` = working precision: 53 on the float64 path, `values[0].Prec()` resp.
    `max(prec,128)` on the `big.Float` paths): the integer has the sign of `x` and
    `| |c| − |x|·Δ | ≤ 1/2 + 3·2^-P·(|x|·Δ + 1)` — fixed-point rounding plus the floating-point error of
    the working precision, as the property states. -/
theorem fixedPoint_error (P : ℕ) (x : Lattigo.CKKS.SD) (scale : Lattigo.CKKS.Dy) (hP : 1 ≤ P)
    (hx : 0 < x.mag.m) (hs : 0 < scale.m) :
    ∃ n : ℕ, Lattigo.CKKS.fixedPoint P x scale = (if x.neg then -(n : ℤ) else (n : ℤ)) ∧
      |(n : ℚ) - x.mag.val * scale.val| ≤ 1 / 2 + 3 * (2 : ℚ) ^ (-(P : ℤ)) * (x.mag.val * scale.val + 1) :=
  Lattigo.CKKS.fixedPoint_error P x scale hP hx hs
example : Lattigo.CKKS.fixedPoint 53 ⟨true, ⟨5, -3⟩⟩ ⟨1, 10⟩ = -640 := by decide +kernel

/-- conjugate-invariant ring: the imaginary parts of the inputs do not influence the encoded plaintext
    (tie `ckks encpoly`: the harness feeds inputs with non-zero imaginary parts). -/
theorem encodePoly_conjInv_discards_imag (N slots : ℕ) (re im im' : List ℤ) :
    encodePoly N true slots re im = encodePoly N true slots re im' := rfl
example : encodePoly 8 true 2 [3, -5] [7, 7] = [3, 0, 0, 0, -5, 0, 0, 0] ∧
    encodePoly 8 false 2 [3, -5] [7, 9] = [3, 0, -5, 0, 7, 0, 9, 0] := by decide


/-! ## the special DFT in exact arithmetic -/
section
variable {K : Type*} [Field K] {ζ : K} {N : ℕ}

/-- **decode ∘ encode = id**: for every slot vector `v` the polynomial `interpOdd v` takes the value `v t` at the
    `t`-th odd power of a primitive `2N`-th root (every `N`, hence every ring degree and every slot count). -/
theorem special_dft_decode_encode (hζ : IsPrimitiveRoot ζ (2 * N)) (hN : 0 < N) (hNK : (N : K) ≠ 0) (v : ℕ → K)
    (t : ℕ) (ht : t < N) : evalOdd ζ N (interpOdd ζ N v) t = v t := evalOdd_interpOdd hζ hN hNK v t ht
/-- **encode ∘ decode = id** on coefficient vectors. -/
theorem special_dft_encode_decode (hζ : IsPrimitiveRoot ζ (2 * N)) (hN : 0 < N) (hNK : (N : K) ≠ 0) (m : ℕ → K)
    (k : ℕ) (hk : k < N) : interpOdd ζ N (evalOdd ζ N m) k = m k := interpOdd_evalOdd hζ hN hNK m k hk
/-- sparse packing: plaintexts in `Y = X^gap`, ring degree `gap·N'`. -/
theorem special_dft_sparse {gap N' : ℕ} (hζ : IsPrimitiveRoot ζ (2 * (gap * N'))) (hg : 0 < gap) (hN : 0 < N')
    (hNK : (N' : K) ≠ 0) (v : ℕ → K) (t : ℕ) (ht : t < N') :
    evalOdd (ζ ^ gap) N' (interpOdd (ζ ^ gap) N' v) t = v t := evalOdd_interpOdd_sparse hζ hg hN hNK v t ht
end
/-- the hypotheses are met by `ℂ`, `ζ = e^{2πi/8}`, `N = 4`. -/
example (v : ℕ → ℂ) (t : ℕ) (ht : t < 4) :
    evalOdd (Complex.exp (2 * Real.pi * Complex.I / (8 : ℕ))) 4 (interpOdd (Complex.exp (2 * Real.pi * Complex.I / (8 : ℕ))) 4 v) t = v t :=
  special_dft_decode_encode (N := 4) (Complex.isPrimitiveRoot_exp 8 (by norm_num)) (by norm_num) (by norm_num) v t ht

/-- coefficient error `≤ B` each ⇒ slot error `≤ N·B` (any normed field, `‖ζ‖ = 1`). -/
theorem slot_error_of_coeff_error {K : Type*} [NormedField K] (ζ : K) (N : ℕ) (hζ : ‖ζ‖ = 1) (m δ : ℕ → K) (B : ℝ)
    (hδ : ∀ k < N, ‖δ k‖ ≤ B) (t : ℕ) :
    ‖evalOdd ζ N (fun k => m k + δ k) t - evalOdd ζ N m t‖ ≤ N * B :=
  Lattigo.EncoderC.slot_error_of_coeff_error ζ N hζ m δ B hδ t
/-- **Encode then Decode, rounding only**: if the stored coefficients differ from the exact ones `interpOdd v` by at
    most `B` each (`B = 1/(2Δ)` by `fixedpoint_roundtrip`), every decoded slot differs from `v t` by at most `N·B`. -/
theorem encode_slot_error {K : Type*} [NormedField K] {ζ : K} {N : ℕ} (hζ : IsPrimitiveRoot ζ (2 * N)) (hN : 0 < N)
    (hNK : (N : K) ≠ 0) (v δ : ℕ → K) (B : ℝ) (hδ : ∀ k < N, ‖δ k‖ ≤ B) (t : ℕ) (ht : t < N) :
    ‖evalOdd ζ N (fun k => interpOdd ζ N v k + δ k) t - v t‖ ≤ N * B := by
  have h1 := Lattigo.EncoderC.slot_error_of_coeff_error ζ N
    (norm_root_eq_one (by omega : 0 < 2 * N) hζ.pow_eq_one) (interpOdd ζ N v) δ B hδ t
  rwa [evalOdd_interpOdd hζ hN hNK v t ht] at h1

/-- slot `i` and the conjugate of slot `j` use different exponents (`5^i ≢ −5^j mod 2^k`). -/
theorem conj_exponents_disjoint (k : ℕ) (hk : 2 ≤ k) (i j : ℕ) : (5 ^ i + 5 ^ j) % 2 ^ k ≠ 0 :=
  five_pow_ne_neg_five_pow k hk i j

/-- **decodePublic: nearest multiple.**  No multiple of `2^-logprec` is closer to the decoded value. -/
theorem decodePublic_nearest (num : ℤ) (den logprec : ℕ) (hd : 0 < den) (k' : ℤ) :
    |(roundToPrec num den logprec : ℚ) / 2 ^ logprec - (num : ℚ) / den|
      ≤ |(k' : ℚ) / 2 ^ logprec - (num : ℚ) / den| := roundToPrec_nearest num den logprec hd k'
theorem roundHalfAway_tie (h : ℤ) : roundHalfAway (2 * h + 1) 2 = if 0 ≤ 2 * h + 1 then h + 1 else h :=
  Lattigo.EncoderC.roundHalfAway_tie h
example : roundToPrec (-3) 8 2 = -2 ∧ roundToPrec 3 8 2 = 2 ∧ roundToPrec (-23) 10 0 = -2 := by decide

/-- **Exactness**: when the working precision holds `|x|·Δ` and `|x|·Δ + 1/2`, the integer the code writes is exactly
    the round-half-away-from-zero of `x·Δ` (`n ≤ |x|Δ + 1/2 < n + 1`, sign of `x`); its residues are
    `fixedPointRNS = (±n) mod q_i` by definition and the centred lift returns `±n` for `n < Q/2` (`centerLift_roundtrip`). -/
theorem fixedPoint_exact (P : ℕ) (x : Lattigo.CKKS.SD) (scale : Lattigo.CKKS.Dy) (hx : 0 < x.mag.m) (hs : 0 < scale.m)
    (h1 : Lattigo.CKKS.bitLen (x.mag.m * scale.m) ≤ P)
    (h2 : Lattigo.CKKS.bitLen (Lattigo.CKKS.addHalf (Lattigo.CKKS.Dy.mul P x.mag scale)).m ≤ P) :
    ∃ n : ℕ, Lattigo.CKKS.fixedPoint P x scale = (if x.neg then -(n : ℤ) else (n : ℤ)) ∧
      (n : ℚ) ≤ x.mag.val * scale.val + 1 / 2 ∧ x.mag.val * scale.val + 1 / 2 < n + 1 :=
  Lattigo.CKKS.fixedPoint_exact P x scale hx hs h1 h2
/-- instance at the word boundary: `x = −2^19`, `Δ = 2^45` (`|x|Δ = 2^64`), 128-bit path: hypotheses hold, result `−2^64`. -/
example : Lattigo.CKKS.bitLen ((⟨true, ⟨1, 19⟩⟩ : Lattigo.CKKS.SD).mag.m * (⟨1, 45⟩ : Lattigo.CKKS.Dy).m) ≤ 128 ∧
    Lattigo.CKKS.bitLen (Lattigo.CKKS.addHalf (Lattigo.CKKS.Dy.mul 128 ⟨1, 19⟩ ⟨1, 45⟩)).m ≤ 128 ∧
    Lattigo.CKKS.fixedPoint 128 ⟨true, ⟨1, 19⟩⟩ ⟨1, 45⟩ = -(2 ^ 64 : ℤ) ∧
    singleFloat64 ⟨false, ⟨1, 19⟩⟩ ⟨1, 45⟩ = (2 ^ 64 : ℤ) := by decide +kernel
/-- the float64 conversion (`SingleFloat64ToFixedPointCRT`, both branches around `2^64`) is `fixedPoint 53`. -/
theorem singleFloat64_eq_fixedPoint (x : Lattigo.CKKS.SD) (scale : Lattigo.CKKS.Dy) :
    singleFloat64 x scale = Lattigo.CKKS.fixedPoint 53 x scale :=
  Lattigo.CKKS.singleFloat64_eq_fixedPoint_aux x scale
theorem fixedPointRNS_residues (P : ℕ) (x : Lattigo.CKKS.SD) (scale : Lattigo.CKKS.Dy) (qs : List ℕ) :
    fixedPointRNS P x scale qs = qs.map (fun (q : ℕ) => (Lattigo.CKKS.fixedPoint P x scale % (q : ℤ)).toNat) := rfl

/-- **arbitrary-precision Decode divides by the scale itself**: for `|c| < 2^P` the value returned for a coefficient
    `c` is the correctly rounded (`P` bits, relative error ≤ 2^-P) quotient `c/scale`, for EVERY 128-bit scale
    (products of primes, scales left by a rescale, …), with the sign of `c`. -/
theorem decodeFP_correctly_rounded (P : ℕ) (c : ℤ) (scale : Lattigo.CKKS.Dy) (hc : c ≠ 0) (hs : 0 < scale.m)
    (hb : Lattigo.CKKS.bitLen c.natAbs ≤ P) :
    (decodeFP P c scale).neg = decide (c < 0) ∧
    |(decodeFP P c scale).mag.val - (c.natAbs : ℚ) / scale.val|
      ≤ (c.natAbs : ℚ) / scale.val * (2 : ℚ) ^ (-(P : ℤ)) := by
  refine ⟨rfl, ?_⟩
  have hn : 0 < c.natAbs := Int.natAbs_pos.mpr hc
  unfold decodeFP
  simp only
  set x := Lattigo.CKKS.roundRat P c.natAbs 1 0 with hx
  have hxv : x.val = (c.natAbs : ℚ) := by
    rw [hx, Lattigo.CKKS.roundRat_exact P c.natAbs 0 hn hb]; simp
  have hxm : 0 < x.m := (Lattigo.CKKS.Dy.val_pos_iff x).mp (by rw [hxv]; exact_mod_cast hn)
  have h := Lattigo.CKKS.roundRat_spec P x.m scale.m (x.e - scale.e) hxm hs
  have e : (x.m : ℚ) / (scale.m : ℚ) * (2 : ℚ) ^ (x.e - scale.e) = (c.natAbs : ℚ) / scale.val := by
    rw [← hxv]
    unfold Lattigo.CKKS.Dy.val
    rw [zpow_sub₀ (by norm_num : (2 : ℚ) ≠ 0)]
    have : (scale.m : ℚ) ≠ 0 := by positivity
    have : (2 : ℚ) ^ scale.e ≠ 0 := by positivity
    field_simp
  rw [e] at h
  exact h
example : decodeFP 64 (-18551838483) ⟨35184372088321, 0⟩ = ⟨true, Lattigo.CKKS.roundRat 64 18551838483 35184372088321 0⟩ := by
  decide +kernel

/-- the rounding is to nearest, half away from zero (`trunc(x ± 1/2)`). -/
theorem roundHalfAway_nearest (num : ℤ) (den : ℕ) (hd : 0 < den) :
    |(roundHalfAway num den : ℚ) - (num : ℚ) / den| ≤ 1 / 2 := roundHalfAway_spec num den hd
example : roundHalfAway 5 2 = 3 ∧ roundHalfAway (-5) 2 = -3 ∧ roundHalfAway 7 3 = 2 := by decide

/-- residues followed by the centred lift (`polyTo*CRT`) return the coefficient on the centred range. -/
theorem centerLift_roundtrip (c : ℤ) (Q : ℕ) (hQ : 0 < Q) (hlo : -((Q : ℤ) - (Q / 2 : ℕ)) ≤ c)
    (hhi : c < ((Q / 2 : ℕ) : ℤ)) : centerLift (c % (Q : ℤ)).toNat Q = c := centerLift_mod c Q hQ hlo hhi
example : centerLift ((-3 : ℤ) % (17 : ℕ)).toNat 17 = -3 := by decide

/-- **decodePublic** publishes a multiple of `2^-logprec`, within `2^-(logprec+1)` of the value. -/
theorem decodePublic_multiple (num : ℤ) (den logprec : ℕ) (hd : 0 < den) :
    ((roundToPrec num den logprec : ℚ) / 2 ^ logprec) * 2 ^ logprec = (roundToPrec num den logprec : ℚ) ∧
    |(roundToPrec num den logprec : ℚ) / 2 ^ logprec - (num : ℚ) / den| ≤ 1 / (2 * 2 ^ logprec) :=
  roundToPrec_spec num den logprec hd
example : roundToPrec 1 3 4 = 5 ∧ roundToPrec (-3) 32 4 = -2 := by decide

/-- the table `rotGroup` built by `NewEncoder` is `i ↦ 5^i mod m`. -/
theorem rotGroup_is_orbit (m : ℕ) (hm : 1 < m) (i : ℕ) (hi : i < m / 4) :
    (rotGroup m)[i]? = some (5 ^ i % m) := rotGroup_getElem m hm i hi
example : rotGroup 32 = [1, 5, 25, 29, 17, 21, 9, 13] := by decide

/-- **orbit property** (`m = 2^k`, `n = m/4` slots): the `5^j` are pairwise distinct modulo `m`, so the
    slot ↦ root map of the special FFT is injective: `rotGroup` enumerates the orbit of 5 without repetition. -/
theorem orbit_injective (k : ℕ) (hk : 2 ≤ k) (i j : ℕ) (hi : i < 2 ^ (k - 2)) (hj : j < 2 ^ (k - 2))
    (h : 5 ^ i % 2 ^ k = 5 ^ j % 2 ^ k) : i = j := five_pow_injective k hk i j hi hj h
theorem rotGroup_nodup (k : ℕ) (hk : 2 ≤ k) : (rotGroup (2 ^ k)).Nodup := Lattigo.EncoderC.rotGroup_nodup k hk
/-- 5 has order exactly `2^(k-2)` modulo `2^k` (no smaller positive exponent gives 1). -/
theorem five_order (k : ℕ) (hk : 2 ≤ k) (d : ℕ) (hd : 0 < d) (hlt : d < 2 ^ (k - 2)) : 5 ^ d % 2 ^ k ≠ 1 :=
  five_pow_ne_one k hk d hd hlt
example : (2 : ℕ) ≤ 6 ∧ (3 : ℕ) < 2 ^ (6 - 2) := by decide

/-- `utils.BitReverse64` restricted to `bits` bits is a permutation of `[0, 2^bits)`. -/
theorem bitRev_perm (b : ℕ) :
    (∀ i, bitRev b i < 2 ^ b) ∧ (∀ i j, i < 2 ^ b → j < 2 ^ b → bitRev b i = bitRev b j → i = j) :=
  ⟨bitRev_lt b, bitRev_injOn b⟩
example : (List.range 8).map (bitRev 3) = [0, 4, 2, 6, 1, 5, 3, 7] := by decide

end Lattigo.Props.C07CKKS

#print axioms Lattigo.Props.C07CKKS.fixedpoint_roundtrip
#print axioms Lattigo.Props.C07CKKS.roundHalfAway_nearest
#print axioms Lattigo.Props.C07CKKS.centerLift_roundtrip
#print axioms Lattigo.Props.C07CKKS.decodePublic_multiple
#print axioms Lattigo.Props.C07CKKS.rotGroup_is_orbit
#print axioms Lattigo.Props.C07CKKS.orbit_injective
#print axioms Lattigo.Props.C07CKKS.rotGroup_nodup
#print axioms Lattigo.Props.C07CKKS.five_order
#print axioms Lattigo.Props.C07CKKS.encodePoly_conjInv_discards_imag
#print axioms Lattigo.Props.C07CKKS.fixedPoint_error
#print axioms Lattigo.Props.C07CKKS.bitRev_perm
#print axioms Lattigo.Props.C07CKKS.special_dft_decode_encode
#print axioms Lattigo.Props.C07CKKS.special_dft_encode_decode
#print axioms Lattigo.Props.C07CKKS.special_dft_sparse
#print axioms Lattigo.Props.C07CKKS.slot_error_of_coeff_error
#print axioms Lattigo.Props.C07CKKS.encode_slot_error
#print axioms Lattigo.Props.C07CKKS.conj_exponents_disjoint
#print axioms Lattigo.Props.C07CKKS.decodePublic_nearest
#print axioms Lattigo.Props.C07CKKS.roundHalfAway_tie
#print axioms Lattigo.Props.C07CKKS.fixedPoint_exact
#print axioms Lattigo.Props.C07CKKS.singleFloat64_eq_fixedPoint
#print axioms Lattigo.Props.C07CKKS.fixedPointRNS_residues
#print axioms Lattigo.Props.C07CKKS.decodeFP_correctly_rounded
