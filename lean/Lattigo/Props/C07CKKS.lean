import Lattigo.Proofs.EncoderC
import Lattigo.Proofs.CKKSFixedPoint
/-!
# C07 (approximate half) — CKKS encoder / decoder  (property theorems)

About `Lattigo.EncoderC` (executed by `Driver/C07CKKS.lean`, tied to `schemes/ckks/encoder.go`,
`utils.go` by `harness/c07_ckks.go` on inputs where the floating-point FFT is exact).

Partial by design (DESIGN §5.7): the float64 / `big.Float` special FFT is not modelled; "decode ∘ encode
within the working precision" is the measured probe `decode_encode_precision`.  The theorems cover the
exact parts: fixed-point conversion, centred lift, `decodePublic` rounding, and the index table.
-/
namespace Lattigo.Props.C07CKKS
open Lattigo.EncoderC

/-- **fixedpoint_roundtrip**: `|decode_fp (encode_fp x Δ) − x| ≤ 1/(2Δ)` on exact rationals
    (`x = xn/xd`, `Δ = sn/sd`, `decode_fp c = c/Δ`). -/
theorem fixedpoint_roundtrip (xn : ℤ) (xd sn sd : ℕ) (hxd : 0 < xd) (hsn : 0 < sn) (hsd : 0 < sd) :
    |(encodeFP xn xd sn sd : ℚ) / ((sn : ℚ) / sd) - (xn : ℚ) / xd| ≤ 1 / (2 * ((sn : ℚ) / sd)) :=
  Lattigo.EncoderC.fixedpoint_roundtrip xn xd sn sd hxd hsn hsd
example : encodeFP (-5) 8 (2 ^ 10) 1 = -640 ∧ encodeFP 1 3 1024 1 = 341 ∧ encodeFP (-1) 2 1 1 = -1 := by decide

/-- **The conversion the code performs** (`Lattigo.CKKS.fixedPoint`, executed by the driver for
    `*ToFixedPointCRT`; `P` = working precision: 53 on the float64 path, `values[0].Prec()` resp.
    `max(prec,128)` on the `big.Float` paths): the integer has the sign of `x` and
    `| |c| − |x|·Δ | ≤ 1/2 + 3·2^-P·(|x|·Δ + 1)` — fixed-point rounding plus the floating-point error of
    the working precision, as the property states. -/
theorem fixedPoint_error (P : ℕ) (x : Lattigo.CKKS.SD) (scale : Lattigo.CKKS.Dy) (hP : 1 ≤ P)
    (hx : 0 < x.mag.m) (hs : 0 < scale.m) :
    ∃ n : ℕ, Lattigo.CKKS.fixedPoint P x scale = (if x.neg then -(n : ℤ) else (n : ℤ)) ∧
      |(n : ℚ) - x.mag.val * scale.val| ≤ 1 / 2 + 3 * (2 : ℚ) ^ (-(P : ℤ)) * (x.mag.val * scale.val + 1) :=
  Lattigo.CKKS.fixedPoint_error P x scale hP hx hs
example : Lattigo.CKKS.fixedPoint 53 ⟨true, ⟨5, -3⟩⟩ ⟨1, 10⟩ = -640 := by decide +kernel

/-- conjugate-invariant ring: the imaginary parts of the inputs do not influence the encoded plaintext
    (tie `ckks encpoly`: the harness feeds inputs with non-zero imaginary parts). -/
theorem encodePoly_conjInv_discards_imag (N slots : ℕ) (re im im' : List ℤ) :
    encodePoly N true slots re im = encodePoly N true slots re im' := rfl
example : encodePoly 8 true 2 [3, -5] [7, 7] = [3, 0, 0, 0, -5, 0, 0, 0] ∧
    encodePoly 8 false 2 [3, -5] [7, 9] = [3, 0, -5, 0, 7, 0, 9, 0] := by decide

/-- the rounding is to nearest, half away from zero (`trunc(x ± 1/2)`). -/
theorem roundHalfAway_nearest (num : ℤ) (den : ℕ) (hd : 0 < den) :
    |(roundHalfAway num den : ℚ) - (num : ℚ) / den| ≤ 1 / 2 := roundHalfAway_spec num den hd
example : roundHalfAway 5 2 = 3 ∧ roundHalfAway (-5) 2 = -3 ∧ roundHalfAway 7 3 = 2 := by decide

/-- residues followed by the centred lift (`polyTo*CRT`) return the coefficient on the centred range. -/
theorem centerLift_roundtrip (c : ℤ) (Q : ℕ) (hQ : 0 < Q) (hlo : -((Q : ℤ) - (Q / 2 : ℕ)) ≤ c)
    (hhi : c < ((Q / 2 : ℕ) : ℤ)) : centerLift (c % (Q : ℤ)).toNat Q = c := centerLift_mod c Q hQ hlo hhi
example : centerLift ((-3 : ℤ) % (17 : ℕ)).toNat 17 = -3 := by decide

/-- **decodePublic** publishes a multiple of `2^-logprec`, within `2^-(logprec+1)` of the value. -/
theorem decodePublic_multiple (num : ℤ) (den logprec : ℕ) (hd : 0 < den) :
    ((roundToPrec num den logprec : ℚ) / 2 ^ logprec) * 2 ^ logprec = (roundToPrec num den logprec : ℚ) ∧
    |(roundToPrec num den logprec : ℚ) / 2 ^ logprec - (num : ℚ) / den| ≤ 1 / (2 * 2 ^ logprec) :=
  roundToPrec_spec num den logprec hd
example : roundToPrec 1 3 4 = 5 ∧ roundToPrec (-3) 32 4 = -2 := by decide

/-- the table `rotGroup` built by `NewEncoder` is `i ↦ 5^i mod m`. -/
theorem rotGroup_is_orbit (m : ℕ) (hm : 1 < m) (i : ℕ) (hi : i < m / 4) :
    (rotGroup m)[i]? = some (5 ^ i % m) := rotGroup_getElem m hm i hi
example : rotGroup 32 = [1, 5, 25, 29, 17, 21, 9, 13] := by decide

/-- **orbit property** (`m = 2^k`, `n = m/4` slots): the `5^j` are pairwise distinct modulo `m`, so the
    slot ↦ root map of the special FFT is injective: `rotGroup` enumerates the orbit of 5 without repetition. -/
theorem orbit_injective (k : ℕ) (hk : 2 ≤ k) (i j : ℕ) (hi : i < 2 ^ (k - 2)) (hj : j < 2 ^ (k - 2))
    (h : 5 ^ i % 2 ^ k = 5 ^ j % 2 ^ k) : i = j := five_pow_injective k hk i j hi hj h
theorem rotGroup_nodup (k : ℕ) (hk : 2 ≤ k) : (rotGroup (2 ^ k)).Nodup := Lattigo.EncoderC.rotGroup_nodup k hk
/-- 5 has order exactly `2^(k-2)` modulo `2^k` (no smaller positive exponent gives 1). -/
theorem five_order (k : ℕ) (hk : 2 ≤ k) (d : ℕ) (hd : 0 < d) (hlt : d < 2 ^ (k - 2)) : 5 ^ d % 2 ^ k ≠ 1 :=
  five_pow_ne_one k hk d hd hlt
example : (2 : ℕ) ≤ 6 ∧ (3 : ℕ) < 2 ^ (6 - 2) := by decide

/-- `utils.BitReverse64` restricted to `bits` bits is a permutation of `[0, 2^bits)`. -/
theorem bitRev_perm (b : ℕ) :
    (∀ i, bitRev b i < 2 ^ b) ∧ (∀ i j, i < 2 ^ b → j < 2 ^ b → bitRev b i = bitRev b j → i = j) :=
  ⟨bitRev_lt b, bitRev_injOn b⟩
example : (List.range 8).map (bitRev 3) = [0, 4, 2, 6, 1, 5, 3, 7] := by decide

end Lattigo.Props.C07CKKS

#print axioms Lattigo.Props.C07CKKS.fixedpoint_roundtrip
#print axioms Lattigo.Props.C07CKKS.roundHalfAway_nearest
#print axioms Lattigo.Props.C07CKKS.centerLift_roundtrip
#print axioms Lattigo.Props.C07CKKS.decodePublic_multiple
#print axioms Lattigo.Props.C07CKKS.rotGroup_is_orbit
#print axioms Lattigo.Props.C07CKKS.orbit_injective
#print axioms Lattigo.Props.C07CKKS.rotGroup_nodup
#print axioms Lattigo.Props.C07CKKS.five_order
#print axioms Lattigo.Props.C07CKKS.encodePoly_conjInv_discards_imag
#print axioms Lattigo.Props.C07CKKS.fixedPoint_error
#print axioms Lattigo.Props.C07CKKS.bitRev_perm
