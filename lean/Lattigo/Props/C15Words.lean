/-
  Property C15 at the WORD level: the headline reconstruction identity for the words the code computes.

  `Props/C15.lean` proves reconstruction for the residue-level model (`Model/Shamir.lean`);
  `Props/C15Gen.lean` (colleague) proves that the regenerated RNS-scalar code (`Gen/Scalar.lean`:
  `ModexpMontgomery`, the bodies of `NewRNSScalarFromUInt64`, `SubRNSScalar`, `Inverse`,
  `MulRNSScalar`) refines the model's `lagrangeCoeff` (`lagrangeCoeff_gen`).  This file composes the
  two, together with C01's kernel specifications for the `SubRing.MulScalarMontgomery` / `SubRing.Add`
  lanes and `MForm` (all regenerated from the Go source on every run):

  * `reconstruct_words` — for one prime modulus and one coefficient slot, the word-level pipeline
      shares      `hornerWord`   (ring.EvalPolyScalar: MulScalar = MRed(·, MForm(x)), Add = CRed(·+·))
      aggregation `sumWord`      (AggregateShares = Add)
      combination `additiveWord` (MForm(1); MRedLazy by the Montgomery-form, lazily reduced Lagrange
                                  words `lagrangeCoeffWord` of C15Gen; final MRed with the share word)
      summation   `sumWord`
    yields, for every `t`-subset of parties with points distinct modulo `q` and every ordering each
    party uses, the sum of the dealers' secret words.
  * `share_entry_words`, `aggregate_entry_words`, `additive_entry_words`, `run_entry_words` — every
    word of the MODEL's outputs (`genShamirSecretShare`, `addQP`/`aggregateAll`, `genAdditiveShare`,
    `thresholdRun`) is the corresponding regenerated word computation (refinement: the residue-level
    functions the driver executes equal the word-level functions on canonical inputs).

  Hypotheses, all true of every parameter set `rlwe.NewParameters` accepts and discharged in the
  examples: each modulus `q` is a prime with `2 < q` and `4q ≤ 2^64`; `qinv q = s.MRedConstant`
  satisfies `MontConst` (`GenMRedConstant_spec`); `BRedConstant = brc q`; input words are canonical
  (`< q`: sampler output / secret keys); public points are `uint64` (`< 2^64`).
  What stays tie-only: that `multiparty/threshold.go` and `ring.EvalPolyScalar` (struct-heavy, not
  printed by go2lean) call these functions in this order on these slices.
-/
import Lattigo.Proofs.ShamirWords
import Lattigo.Proofs.ShamirOrder
import Lattigo.Props.C15Gen

namespace Lattigo.Props.C15
open Lattigo Lattigo.Model.Shamir Lattigo.Proofs.Shamir Lattigo.Proofs.ShamirWords Lattigo.Proofs.GenScalar

/-- the whole per-slot word pipeline of a reconstruction: `P` = active parties as (own point, active
list as that party lists it), `fs` = the dealers' coefficient words (constant term first). -/
def runWord (q qinv : ℕ) (P : List (ℕ × List ℕ)) (fs : List (List ℕ)) : ℕ :=
  sumWord q qinv (brc q) 0 (P.map fun p =>
    additiveWord q qinv (brc q) p.1 p.2 (sumWord q qinv (brc q) 0 (fs.map (hornerWord q qinv (brc q) p.1))))

/-- the pipeline written with the residue-level functions of the model. -/
theorem runWord_eq_model {q qinv : ℕ} [Fact q.Prime] (h2 : 2 < q) (h4q : 4 * q ≤ W) (hm : MontConst q qinv)
    (P : List (ℕ × List ℕ)) (hP : ∀ p ∈ P, p.1 < W) (fs : List (List ℕ)) (hfs : ∀ cs ∈ fs, ∀ c ∈ cs, c < q) :
    runWord q qinv P fs =
      sumMod q 0 (P.map fun p => sumMod q 0 (fs.map (horner q p.1)) * lagProdScalar q p.1 p.2 (1 % q) % q) := by
  unfold runWord
  have hq0 : 0 < q := by omega
  have hinner : ∀ p ∈ P, sumWord q qinv (brc q) 0 (fs.map (hornerWord q qinv (brc q) p.1)) =
      sumMod q 0 (fs.map (horner q p.1)) := by
    intro p hp
    have hmap : fs.map (hornerWord q qinv (brc q) p.1) = fs.map (horner q p.1) :=
      List.map_congr_left fun cs hcs => (hornerWord_eq (by omega) (by omega) hm p.1 (hP p hp) cs (hfs cs hcs)).1
    rw [hmap]
    apply sumWord_eq (by omega) 0 _ hq0
    intro s hs
    rw [List.mem_map] at hs
    obtain ⟨cs, hcs, rfl⟩ := hs
    exact (hornerWord_eq (by omega) (by omega) hm p.1 (hP p hp) cs (hfs cs hcs)).2
  have hmap : (P.map fun p => additiveWord q qinv (brc q) p.1 p.2
        (sumWord q qinv (brc q) 0 (fs.map (hornerWord q qinv (brc q) p.1)))) =
      P.map fun p => sumMod q 0 (fs.map (horner q p.1)) * lagProdScalar q p.1 p.2 (1 % q) % q := by
    apply List.map_congr_left
    intro p hp
    rw [hinner p hp]
    exact additiveWord_eq h2 h4q hm p.1 p.2 _ (sumMod_lt hq0 0 _ hq0)
  rw [hmap]
  apply sumWord_eq (by omega) 0 _ hq0
  intro s hs
  rw [List.mem_map] at hs
  obtain ⟨p, _, rfl⟩ := hs
  exact Nat.mod_lt _ hq0

/-- **reconstruct_words.**  One prime modulus `q` (`2 < q`, `4q ≤ 2^64`, Montgomery constant `qinv`),
one coefficient slot.  Dealers' coefficient words `fs` canonical, degree `< t = |P|`; the `t` active
parties' `uint64` points pairwise distinct modulo `q`; every party lists the active points in its own
order.  Then the word pipeline of the code (Montgomery-form lazily reduced Lagrange words of
`Combiner.lagrangeCoeff`, `MRedLazy` product loop, final `MRed`, `CRed` additions) returns the sum of
the dealers' secret words: the additive shares of any `t` parties sum to the ideal key, for the
words the code computes. -/
theorem reconstruct_words {q qinv : ℕ} [Fact q.Prime] (h2 : 2 < q) (h4q : 4 * q ≤ W) (hm : MontConst q qinv)
    (P : List (ℕ × List ℕ)) (hP : ∀ p ∈ P, p.1 < W) (hS : DistinctMod q (P.map Prod.fst))
    (hacts : ∀ p ∈ P, p.2.Perm (P.map Prod.fst))
    (fs : List (List ℕ)) (hlen : ∀ cs ∈ fs, cs.length ≤ P.length) (hfs : ∀ cs ∈ fs, ∀ c ∈ cs, c < q) :
    runWord q qinv P fs = sumWord q qinv (brc q) 0 (fs.map fun cs => cs.headD 0) := by
  rw [runWord_eq_model h2 h4q hm P hP fs hfs, scalar_reconstruct_nat P hS fs hlen hacts]
  symm
  apply sumWord_eq (by omega) 0 _ (by omega)
  intro s hs
  rw [List.mem_map] at hs
  obtain ⟨cs, hcs, rfl⟩ := hs
  cases cs with
  | nil => simp; omega
  | cons c rest => exact hfs _ hcs c List.mem_cons_self

/-- points `2^64−1` and `2^32+3` modulo `65537`, two dealers of degree 1, different orders. -/
example : runWord qF (Gen.GenMRedConstant qF) [(W - 1, [4294967299, W - 1]), (4294967299, [W - 1, 4294967299])]
      [[5, 7], [65536, 12345]] =
    sumWord qF (Gen.GenMRedConstant qF) (brc qF) 0 [5, 65536] :=
  reconstruct_words (by decide) (by decide) montF _ (by decide) (by decide) (by decide) _ (by decide) (by decide)

/-- …and the value is `5 + 65536 mod 65537 = 4` (kernel evaluation of the regenerated code). -/
example : runWord qF (Gen.GenMRedConstant qF) [(W - 1, [4294967299, W - 1]), (4294967299, [W - 1, 4294967299])]
      [[5, 7], [65536, 12345]] = 4 := by decide +kernel

/-! ## every word of the model's outputs is the regenerated word computation -/

/-- ring constants: the moduli are primes `> 2` with `4q ≤ 2^64` and `qinv q` is `q`'s Montgomery constant. -/
structure RingConsts (r : RingQP) (qinv : ℕ → ℕ) : Prop where
  prime : ∀ q ∈ r.ms, q.Prime
  gt2 : ∀ q ∈ r.ms, 2 < q
  small : ∀ q ∈ r.ms, 4 * q ≤ W
  mont : ∀ q ∈ r.ms, MontConst q (qinv q)

/-- the constants the library computes (`GenMRedConstant`) qualify. -/
theorem ringConsts_gen (r : RingQP) (hprime : ∀ q ∈ r.ms, q.Prime) (h2 : ∀ q ∈ r.ms, 2 < q)
    (hs : ∀ q ∈ r.ms, 4 * q ≤ W) : RingConsts r Gen.GenMRedConstant :=
  ⟨hprime, h2, hs, fun q hq =>
    (GenMRedConstant_spec q ((hprime q hq).eq_two_or_odd.resolve_left (by have := h2 q hq; omega))
      (by have := hs q hq; unfold W at *; omega)).1⟩

/-- every word canonical (`< q`). -/
def ReducedQP (r : RingQP) (N : ℕ) (x : QP) : Prop :=
  ∀ m, m < r.ms.length → ∀ k, k < N → ent x.rows m k < modAt r.ms m

instance (r : RingQP) (N : ℕ) (x : QP) : Decidable (ReducedQP r N x) := by unfold ReducedQP; infer_instance

/-- `GenShamirSecretShare`: each output word is `hornerWord` of the coefficient words. -/
theorem share_entry_words (r : RingQP) (qinv : ℕ → ℕ) (hc : RingConsts r qinv) (N x : ℕ) (hx : x < W)
    (sp : ShamirPoly) (hsh : ∀ c ∈ sp, ShapedQP r N c) (hred : ∀ c ∈ sp, ReducedQP r N c)
    (s : QP) (hs : genShamirSecretShare r x sp = .ok s) (m k : ℕ) (hm : m < r.ms.length) (hk : k < N) :
    ent s.rows m k =
      hornerWord (modAt r.ms m) (qinv (modAt r.ms m)) (brc (modAt r.ms m)) x (sp.map fun c => ent c.rows m k) := by
  have hne : sp ≠ [] := by
    intro h; subst h; simp [genShamirSecretShare, evalPolyScalarRows] at hs
  obtain ⟨s', hs', _, he⟩ := share_spec r N x sp hne hsh
  rw [hs] at hs'
  cases hs'
  have hq := modAt_mem r.ms m hm
  rw [he m k hm hk]
  refine ((hornerWord_eq (by have := hc.gt2 _ hq; omega) (by have := hc.small _ hq; omega)
    (hc.mont _ hq) x hx _ ?_).1).symm
  intro c hcm
  rw [List.mem_map] at hcm
  obtain ⟨c', hc', rfl⟩ := hcm
  exact hred c' hc' m hm k hk

/-- `AggregateShares` / `ringQP.Add`: each output word is `addWord` of the input words. -/
theorem aggregate_entry_words (r : RingQP) (qinv : ℕ → ℕ) (hc : RingConsts r qinv) (N : ℕ) (a b : QP)
    (ha : ShapedQP r N a) (hb : ShapedQP r N b) (hra : ReducedQP r N a) (hrb : ReducedQP r N b) :
    aggregateShares r a b a = .ok (addQP r a b) ∧
    ∀ m k, m < r.ms.length → k < N →
      ent (addQP r a b).rows m k =
        addWord (modAt r.ms m) (qinv (modAt r.ms m)) (brc (modAt r.ms m)) (ent a.rows m k) (ent b.rows m k) := by
  refine ⟨aggregateShares_ok r N a b ha hb, ?_⟩
  intro m k hm hk
  have hq := modAt_mem r.ms m hm
  simp only [addQP]
  rw [ent_addRows r.ms a.rows b.rows rfl ha.2 hb.2 m k hm hk,
    addWord_eq (by have := hc.small _ hq; omega) _ _ (hra m hm k hk) (hrb m hm k hk)]

/-- `GenAdditiveShare` (combiner from `NewCombiner`, first `t` active points known and not colliding):
each output word is `additiveWord` of the share word — `MRed` of the share word with the `MRedLazy`
product of the Montgomery-form Lagrange words. -/
theorem additive_entry_words (r : RingQP) (qinv : ℕ → ℕ) (hc : RingConsts r qinv) (N t own : ℕ)
    (others acts : List ℕ) (share : QP) (hsh : ShapedQP r N share) (hred : ReducedQP r N share)
    (hlen : t ≤ acts.length) (hmem : ∀ a ∈ acts.take t, a ≠ own → a ∈ others)
    (hnc : ∀ a ∈ acts.take t, a ≠ own → pointsCollide r.ms own a = false) :
    ∃ s, genAdditiveShare (newCombiner r own others t) acts own share = .ok s ∧
      ∀ m k, m < r.ms.length → k < N →
        ent s.rows m k =
          additiveWord (modAt r.ms m) (qinv (modAt r.ms m)) (brc (modAt r.ms m)) own (acts.take t) (ent share.rows m k) := by
  refine ⟨_, genAdditiveShare_ok r t own others acts share hlen hmem hnc, ?_⟩
  intro m k hm hk
  have hq := modAt_mem r.ms m hm
  have : Fact (modAt r.ms m).Prime := ⟨hc.prime _ hq⟩
  rw [ent_scaleRows r.ms share.rows _ rfl hsh.2 m k hm hk,
    additiveWord_eq (hc.gt2 _ hq) (hc.small _ hq) (hc.mont _ hq) own (acts.take t) _ (hred m hm k hk)]

/-- **the whole run on words**: under the (non-colliding) hypotheses of the run, with canonical dealer
polynomials and `uint64` points, every word of `thresholdRun`'s result is the word pipeline `runWord`
of the regenerated code. -/
theorem run_entry_words (r : RingQP) (qinv : ℕ → ℕ) (hc : RingConsts r qinv) (N t : ℕ)
    (dealers : List ShamirPoly) (parties : List Party)
    (hd : ∀ sp ∈ dealers, sp ≠ [] ∧ ∀ c ∈ sp, ShapedQP r N c ∧ ReducedQP r N c)
    (hpts : ∀ p ∈ parties, p.own < W)
    (hp : ∀ p ∈ parties, t ≤ p.actives.length ∧ (∀ a ∈ p.actives.take t, a ≠ p.own → a ∈ p.others) ∧
      ∀ a ∈ p.actives.take t, a ≠ p.own → pointsCollide r.ms p.own a = false) :
    ∃ out, thresholdRun r t (zeroQP r N) dealers parties = .ok out ∧
      ∀ m k, m < r.ms.length → k < N →
        ent out.rows m k = runWord (modAt r.ms m) (qinv (modAt r.ms m))
          (parties.map fun p => (p.own, p.actives.take t))
          (dealers.map fun sp => sp.map fun c => ent c.rows m k) := by
  obtain ⟨out, ho, _, he⟩ := run_spec r N t dealers parties
    (fun sp hsp => ⟨(hd sp hsp).1, fun c hcm => ((hd sp hsp).2 c hcm).1⟩) hp
  refine ⟨out, ho, ?_⟩
  intro m k hm hk
  have hq := modAt_mem r.ms m hm
  have : Fact (modAt r.ms m).Prime := ⟨hc.prime _ hq⟩
  rw [he m k hm hk, runWord_eq_model (hc.gt2 _ hq) (hc.small _ hq) (hc.mont _ hq)]
  · simp only [List.map_map, Function.comp_def]
  · intro p hpm
    rw [List.mem_map] at hpm
    obtain ⟨p', hp', rfl⟩ := hpm
    exact hpts p' hp'
  · intro cs hcs c hcm
    rw [List.mem_map] at hcs
    obtain ⟨sp, hsp, rfl⟩ := hcs
    rw [List.mem_map] at hcm
    obtain ⟨c', hc', rfl⟩ := hcm
    exact ((hd sp hsp).2 c' hc').2 m hm k hk

/-! ## non-vacuity of the entry theorems -/

section NonVacuity

def wRing : RingQP := ⟨1, [65537, 12289]⟩
def wDealers : List ShamirPoly :=
  [[⟨1, [[5, 6], [7, 8]]⟩, ⟨1, [[65536, 2], [12288, 4]]⟩], [⟨1, [[9, 10], [11, 12]]⟩, ⟨1, [[1, 0], [3, 3]]⟩]]
def wParties : List Party :=
  [⟨W - 1, [4294967299, W - 1], [4294967299, W - 1, 7]⟩, ⟨4294967299, [W - 1, 4294967299], [W - 1, 4294967299]⟩]

theorem wRing_consts : RingConsts wRing Gen.GenMRedConstant :=
  ringConsts_gen wRing
    (by intro q hq; simp only [wRing, List.mem_cons, List.not_mem_nil, or_false] at hq
        rcases hq with rfl | rfl <;> norm_num)
    (by decide) (by decide)

example := share_entry_words wRing _ wRing_consts 2 (W - 1) (by decide)
  [⟨1, [[5, 6], [7, 8]]⟩, ⟨1, [[65536, 2], [12288, 4]]⟩] (by decide) (by decide)
  ⟨1, [[5, 6], [6633, 10371]]⟩ (by decide)

example := aggregate_entry_words wRing _ wRing_consts 2 ⟨1, [[5, 6], [7, 8]]⟩ ⟨1, [[65536, 2], [12288, 4]]⟩
  (by decide) (by decide) (by decide) (by decide)

example := additive_entry_words wRing _ wRing_consts 2 2 (W - 1) [4294967299, W - 1] [4294967299, W - 1, 7]
  ⟨1, [[5, 6], [7, 8]]⟩ (by decide) (by decide) (by decide) (by decide) (by decide)

example := run_entry_words wRing _ wRing_consts 2 2 wDealers wParties (by decide) (by decide) (by decide)

end NonVacuity

end Lattigo.Props.C15

#print axioms Lattigo.Props.C15.runWord_eq_model
#print axioms Lattigo.Props.C15.reconstruct_words
#print axioms Lattigo.Props.C15.ringConsts_gen
#print axioms Lattigo.Props.C15.share_entry_words
#print axioms Lattigo.Props.C15.aggregate_entry_words
#print axioms Lattigo.Props.C15.additive_entry_words
#print axioms Lattigo.Props.C15.run_entry_words
