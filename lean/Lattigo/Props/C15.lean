/-
  C15 — t-out-of-N threshold secret sharing (`multiparty/threshold.go`).

  STATUS (all theorems for all ring degrees, numbers of moduli, thresholds, party counts, points;
  none partial).  Files: this one (model level), `C15Words.lean` (word level, mine),
  `C15Gen.lean` (regenerated RNS-scalar code, colleague's).

  Clause "every set of exactly t active parties, in any order of listing, derives additive shares that
  sum to the ideal secret key; the outcome does not depend on which t parties take part":
    `reconstruct`, `reconstruct_single`         model level, whole `QP` values (all RNS rows, all slots)
    `reconstruct_or_reject`, `run_refused_iff_collision`   arbitrary raw points: refused XOR correct
    `reconstruct_words` (C15Words)              the same identity for the word pipeline built from the
                                                regenerated code (Montgomery-form lazy Lagrange words of
                                                `lagrangeCoeff_gen`, `MRedLazy` loop, `MRed`, `CRed` adds)
    `share/aggregate/additive/run_entry_words`  every word the model outputs = that word computation
  Clause "fewer than t active parties is refused with an error": `too_few_err`, `err_only_if`;
    `newCombiner_threshold`, `too_few_err_any_others`, `enough_not_refused_any_others` (the threshold is
    the constructor argument whatever `others` contains — own point included, excluded, duplicated).
  Clause "order of listing the parties": `order_indep`, `order_indep_first_t`, `order_indep_ok`.
  Clause "order of listing the setup shares": `setup_aggregation_order_indep`.
  Collision contract (fix 98b63bb): `collision_rejected`, `collision_never_ok`,
    `refused_iff_collision`, `accepted_iff_distinct` (one call), `run_refused_iff_collision` (run).
  History independence: `history_independent`, `sequence_independent` (the model with the Combiner's
    scratch buffer threaded through a sequence of calls, `copy(prod, cmb.one)` kept as a step; tied by
    driver op `addshare_seq` on one Combiner serving several groups with a re-used active-list buffer).
  Receiver independence: `share_receiver_independent`, `evalPolyScalar_receiver_independent`
    (the model with the receiver's previous content explicit, `p2.Copy(p1[last])` kept as a step;
    tied by driver op `share_into` on dirty receivers).

  Hypotheses and why they are there.  The reconstruction proof forces "the active public points are
  pairwise distinct MODULO EVERY PRIME of Q and P" (`DistinctMod`); non-zero-ness is *not* needed
  for reconstruction (it matters for secrecy only: `zero_point_share_is_secret`, an observation
  outside C15's statement).  The Go API takes arbitrary `uint64` points.  Before fix 98b63bb points
  such as `x` and `x + q_0` made the real code silently reconstruct a wrong key (probe
  `reconstruct_collide`, finding `C15-collision-mod-prime`); since the fix `GenAdditiveShare` returns
  an error, the model follows the fixed code (`pointsCollide` checked before the table lookup, in
  list order) and `reconstruct_or_reject` needs raw distinctness only.  `order_indep_first_t` needs
  "the listed points are in the combiner's table": a collision gives `err`, a table miss `panic`,
  whichever comes first in the list.

  Tied only (correspondence, no general theorem): the struct/slice/map behaviour of
  `multiparty/threshold.go` (which word function is applied to which slice element; nil map entry,
  negative threshold ⇒ panic; `AggregateShares` level check); `GenShamirPolynomial`'s use of the
  sampler (C17).  Probed only: receiver/aliasing behaviour of `AggregateShares`, `GenAdditiveShare`
  (`dirty_*` probes) — in the model these functions have no receiver argument because every word of
  the Go receiver is overwritten; secrecy ("fewer than t cannot reconstruct") is not stated by C15's
  text and not modelled.  Not done: a statement over the commutative ring `WFPoly qs n` — the
  threshold code never multiplies two polynomials, `reconstruct` already is the statement on whole
  RNS values (`QP` = all rows), so the `WFPoly` form would add the carrier identification only.
-/
import Lattigo.Proofs.ShamirOrder
import Lattigo.Proofs.ShamirRecv
import Lattigo.Proofs.ShamirHist
import Lattigo.Props.C15Gen
import Lattigo.Props.C15Words
import Mathlib.Tactic.NormNum.Prime

namespace Lattigo.Props.C15
open Lattigo.Model.Shamir Lattigo.Proofs.Shamir

/-- every word is a canonical residue. -/
def Reduced (r : RingQP) (N : ℕ) (x : QP) : Prop :=
  ∀ m, m < r.ms.length → ∀ k, k < N → ent x.rows m k < modAt r.ms m

instance (r : RingQP) (N : ℕ) (x : QP) : Decidable (Reduced r N x) := by unfold Reduced; infer_instance

/-! ## reconstruct -/

/-- **reconstruct.**  Setup: any number of dealers (the N parties of the setup), each with a Shamir
polynomial of `t ≥ 1` coefficient polynomials (degree `< t`, constant term = its secret key) over
the ring `r` (all moduli prime, any number of them, any ring degree `N`).  Reconstruction: exactly
`t` active parties whose public points are pairwise distinct modulo every prime; each built its
combiner with an `others` list containing the other active points, received one share from every
dealer, aggregated them, and calls `GenAdditiveShare` with an active list whose first `t` entries
are the active points *in any order* (each party may use its own order).
Then the run succeeds and the additive shares sum to the sum of the dealers' secrets (the ideal
secret key), computed with the same ring additions. -/
theorem reconstruct (r : RingQP) (N t : ℕ) (dealers : List ShamirPoly) (parties : List Party)
    (hprime : ∀ q ∈ r.ms, q.Prime) (ht : 1 ≤ t)
    (hd : ∀ sp ∈ dealers, sp.length = t ∧ ∀ c ∈ sp, ShapedQP r N c)
    (hdist : ∀ q ∈ r.ms, DistinctMod q (parties.map (·.own)))
    (hcount : parties.length = t)
    (hact : ∀ p ∈ parties, (p.actives.take t).Perm (parties.map (·.own)))
    (hoth : ∀ p ∈ parties, ∀ x ∈ parties.map (·.own), x ≠ p.own → x ∈ p.others) :
    thresholdRun r t (zeroQP r N) dealers parties =
      aggregateAll r (zeroQP r N) (dealers.map fun sp => sp.headD (zeroQP r N)) := by
  have hd' : ∀ sp ∈ dealers, sp ≠ [] ∧ ∀ c ∈ sp, ShapedQP r N c := by
    intro sp hsp
    refine ⟨?_, (hd sp hsp).2⟩
    intro h
    have := (hd sp hsp).1
    rw [h] at this
    simp at this
    omega
  have hp' : ∀ p ∈ parties, t ≤ p.actives.length ∧ (∀ a ∈ p.actives.take t, a ≠ p.own → a ∈ p.others) ∧
      ∀ a ∈ p.actives.take t, a ≠ p.own → pointsCollide r.ms p.own a = false := by
    intro p hp
    have hl := (hact p hp).length_eq
    rw [List.length_take, List.length_map, hcount] at hl
    refine ⟨by omega, ?_, ?_⟩
    · intro a ha hne
      exact hoth p hp a ((hact p hp).mem_iff.mp ha) hne
    · intro a ha hne
      exact pointsCollide_false_of_distinct r.ms _ hdist p.own a (List.mem_map_of_mem hp)
        ((hact p hp).mem_iff.mp ha) (Ne.symm hne)
  obtain ⟨out, ho, hsh, he⟩ := run_spec r N t dealers parties hd' hp'
  obtain ⟨out', ho', hsh', he'⟩ := aggregateAll_spec r N (dealers.map fun sp => sp.headD (zeroQP r N))
    (zeroQP r N) (shapedQP_zero r N)
    (by
      intro s hs
      rw [List.mem_map] at hs
      obtain ⟨sp, hsp, rfl⟩ := hs
      obtain ⟨hne, hall⟩ := hd' sp hsp
      cases sp with
      | nil => exact absurd rfl hne
      | cons c rest => exact hall c List.mem_cons_self)
  rw [ho, ho']
  have hrows : out.rows = out'.rows := by
    apply rows_ext hsh.2 hsh'.2
    intro m k hm hk
    rw [he m k hm hk, he' m k hm hk, ent_zero r N m k hm hk]
    have : Fact (modAt r.ms m).Prime := ⟨hprime _ (modAt_mem r.ms m hm)⟩
    have hS : DistinctMod (modAt r.ms m) ((parties.map fun p => (p.own, p.actives.take t)).map Prod.fst) := by
      rw [List.map_map]; exact hdist _ (modAt_mem r.ms m hm)
    have key := scalar_reconstruct_nat (q := modAt r.ms m)
      (parties.map fun p => (p.own, p.actives.take t)) hS
      (dealers.map fun sp => sp.map fun c => ent c.rows m k)
      (by
        intro cs hcs
        rw [List.mem_map] at hcs
        obtain ⟨sp, hsp, rfl⟩ := hcs
        rw [List.length_map, List.length_map, (hd sp hsp).1, hcount])
      (by
        intro p hp
        rw [List.mem_map] at hp
        obtain ⟨p', hp', rfl⟩ := hp
        rw [List.map_map]
        exact hact p' hp')
    rw [List.map_map] at key
    simp only [List.map_map, Function.comp_def] at key ⊢
    rw [key]
    congr 1
    apply List.map_congr_left
    intro sp hsp
    obtain ⟨hne, _⟩ := hd' sp hsp
    cases sp with
    | nil => exact absurd rfl hne
    | cons c rest => rfl
  cases out; cases out'
  simp only [ShapedQP] at hsh hsh'
  simp only at hrows
  rw [Outcome.ok.injEq, QP.mk.injEq]
  exact ⟨hsh.1.trans hsh'.1.symm, hrows⟩

/-- One dealer with a canonical secret: the additive shares of the `t` active parties sum to the
secret itself. -/
theorem reconstruct_single (r : RingQP) (N t : ℕ) (secret : QP) (rest : List QP) (parties : List Party)
    (hprime : ∀ q ∈ r.ms, q.Prime)
    (hlen : (secret :: rest).length = t)
    (hsh : ∀ c ∈ secret :: rest, ShapedQP r N c) (hred : Reduced r N secret)
    (hdist : ∀ q ∈ r.ms, DistinctMod q (parties.map (·.own)))
    (hcount : parties.length = t)
    (hact : ∀ p ∈ parties, (p.actives.take t).Perm (parties.map (·.own)))
    (hoth : ∀ p ∈ parties, ∀ x ∈ parties.map (·.own), x ≠ p.own → x ∈ p.others) :
    thresholdRun r t (zeroQP r N) [secret :: rest] parties = .ok secret := by
  have ht : 1 ≤ t := by rw [← hlen]; simp
  rw [reconstruct r N t [secret :: rest] parties hprime ht
    (by intro sp hsp; rw [List.mem_singleton] at hsp; subst hsp; exact ⟨hlen, hsh⟩)
    hdist hcount hact hoth]
  have hs : ShapedQP r N secret := hsh secret List.mem_cons_self
  obtain ⟨out, ho, hso, he⟩ := aggregateAll_spec r N [secret] (zeroQP r N) (shapedQP_zero r N)
    (by intro s h; rw [List.mem_singleton] at h; subst h; exact hs)
  simp only [List.map_cons, List.map_nil, List.headD_cons]
  rw [ho]
  have hrows : out.rows = secret.rows := by
    apply rows_ext hso.2 hs.2
    intro m k hm hk
    rw [he m k hm hk, ent_zero r N m k hm hk]
    simp only [List.map_cons, List.map_nil, sumMod, List.foldl_cons, List.foldl_nil, Nat.zero_add]
    exact Nat.mod_eq_of_lt (hred m hm k hk)
  cases out; cases secret
  simp only [ShapedQP] at hso hs
  simp only at hrows
  rw [Outcome.ok.injEq, QP.mk.injEq]
  exact ⟨hso.1.trans hs.1.symm, hrows⟩

/-- with pairwise different raw points, two active points congruent modulo a prime make the run
return the error (the party holding one of them refuses). -/
theorem run_refused_of_collision (r : RingQP) (N t : ℕ) (dealers : List ShamirPoly) (parties : List Party)
    (ht : 1 ≤ t)
    (hd : ∀ sp ∈ dealers, sp.length = t ∧ ∀ c ∈ sp, ShapedQP r N c)
    (hraw : (parties.map (·.own)).Nodup)
    (hcount : parties.length = t)
    (hact : ∀ p ∈ parties, (p.actives.take t).Perm (parties.map (·.own)))
    (hoth : ∀ p ∈ parties, ∀ x ∈ parties.map (·.own), x ≠ p.own → x ∈ p.others)
    (hdist : ¬ ∀ q ∈ r.ms, DistinctMod q (parties.map (·.own))) :
    thresholdRun r t (zeroQP r N) dealers parties = .err := by
  have hd' : ∀ sp ∈ dealers, sp ≠ [] ∧ ∀ c ∈ sp, ShapedQP r N c := by
    intro sp hsp
    refine ⟨?_, (hd sp hsp).2⟩
    intro h
    have := (hd sp hsp).1
    rw [h] at this
    simp at this
    omega
  have hp' : ∀ p ∈ parties, t ≤ p.actives.length ∧ ∀ a ∈ p.actives.take t, a ≠ p.own → a ∈ p.others := by
    intro p hp
    have hl := (hact p hp).length_eq
    rw [List.length_take, List.length_map, hcount] at hl
    refine ⟨by omega, ?_⟩
    intro a ha hne
    exact hoth p hp a ((hact p hp).mem_iff.mp ha) hne
  apply run_err r N t dealers parties hd' hp'
  -- a modulus and two different active points with equal residues
  have hex : ∃ q ∈ r.ms, ¬ DistinctMod q (parties.map (·.own)) := by
    by_contra hcon
    exact hdist (fun q hq => by
      by_contra hnd
      exact hcon ⟨q, hq, hnd⟩)
  obtain ⟨q, hq, hnd⟩ := hex
  unfold DistinctMod at hnd
  rw [List.nodup_map_iff_inj_on hraw] at hnd
  have hxy : ∃ x ∈ parties.map (·.own), ∃ y ∈ parties.map (·.own), x % q = y % q ∧ x ≠ y := by
    by_contra hcon
    apply hnd
    intro x hx y hy hxy
    by_contra hne
    exact hcon ⟨x, hx, y, hy, hxy, hne⟩
  obtain ⟨x, hx, y, hy, hmod, hne⟩ := hxy
  rw [List.mem_map] at hx
  obtain ⟨p, hp, rfl⟩ := hx
  refine ⟨p, hp, y, (hact p hp).mem_iff.mpr hy, Ne.symm hne, ?_⟩
  unfold pointsCollide
  rw [List.any_eq_true]
  exact ⟨q, hq, by simpa using hmod⟩

/-- **reconstruct_or_reject** (after fix 98b63bb).  Same setting as `reconstruct`, but the active
public points are only assumed pairwise different as `uint64`s.  Then the run either returns the
error (some pair of active points is congruent modulo one of the primes, and the party concerned
refuses) or it returns the ring sum of the dealers' secrets — never a wrong key, never a panic. -/
theorem reconstruct_or_reject (r : RingQP) (N t : ℕ) (dealers : List ShamirPoly) (parties : List Party)
    (hprime : ∀ q ∈ r.ms, q.Prime) (ht : 1 ≤ t)
    (hd : ∀ sp ∈ dealers, sp.length = t ∧ ∀ c ∈ sp, ShapedQP r N c)
    (hraw : (parties.map (·.own)).Nodup)
    (hcount : parties.length = t)
    (hact : ∀ p ∈ parties, (p.actives.take t).Perm (parties.map (·.own)))
    (hoth : ∀ p ∈ parties, ∀ x ∈ parties.map (·.own), x ≠ p.own → x ∈ p.others) :
    thresholdRun r t (zeroQP r N) dealers parties = .err ∨
    thresholdRun r t (zeroQP r N) dealers parties =
      aggregateAll r (zeroQP r N) (dealers.map fun sp => sp.headD (zeroQP r N)) := by
  by_cases hdist : ∀ q ∈ r.ms, DistinctMod q (parties.map (·.own))
  · exact Or.inr (reconstruct r N t dealers parties hprime ht hd hdist hcount hact hoth)
  · exact Or.inl (run_refused_of_collision r N t dealers parties ht hd hraw hcount hact hoth hdist)

/-- **the refusal contract of the run, as an iff**: with pairwise different raw points the run is
refused exactly when two active points are congruent modulo one of the primes; otherwise (and only
then) it returns the ring sum of the secrets. -/
theorem run_refused_iff_collision (r : RingQP) (N t : ℕ) (dealers : List ShamirPoly) (parties : List Party)
    (hprime : ∀ q ∈ r.ms, q.Prime) (ht : 1 ≤ t)
    (hd : ∀ sp ∈ dealers, sp.length = t ∧ ∀ c ∈ sp, ShapedQP r N c)
    (hraw : (parties.map (·.own)).Nodup)
    (hcount : parties.length = t)
    (hact : ∀ p ∈ parties, (p.actives.take t).Perm (parties.map (·.own)))
    (hoth : ∀ p ∈ parties, ∀ x ∈ parties.map (·.own), x ≠ p.own → x ∈ p.others) :
    (thresholdRun r t (zeroQP r N) dealers parties = .err ↔
      ¬ ∀ q ∈ r.ms, DistinctMod q (parties.map (·.own))) ∧
    ((∃ s, thresholdRun r t (zeroQP r N) dealers parties = .ok s) ↔
      ∀ q ∈ r.ms, DistinctMod q (parties.map (·.own))) := by
  have hok : (∀ q ∈ r.ms, DistinctMod q (parties.map (·.own))) →
      ∃ s, thresholdRun r t (zeroQP r N) dealers parties = .ok s := by
    intro hdist
    rw [reconstruct r N t dealers parties hprime ht hd hdist hcount hact hoth]
    obtain ⟨out, ho, _⟩ := aggregateAll_spec r N (dealers.map fun sp => sp.headD (zeroQP r N))
      (zeroQP r N) (shapedQP_zero r N)
      (by
        intro s hs
        rw [List.mem_map] at hs
        obtain ⟨sp, hsp, rfl⟩ := hs
        cases sp with
        | nil => have := (hd [] hsp).1; simp at this; omega
        | cons c rest => exact (hd _ hsp).2 c List.mem_cons_self)
    exact ⟨out, ho⟩
  have herr := run_refused_of_collision r N t dealers parties ht hd hraw hcount hact hoth
  constructor
  · constructor
    · intro he hdist
      obtain ⟨s, hs⟩ := hok hdist
      rw [he] at hs
      exact absurd hs (by simp)
    · exact herr
  · constructor
    · rintro ⟨s, hs⟩
      by_contra hnd
      rw [herr hnd] at hs
      exact absurd hs (by simp)
    · exact hok

/-! ## order independence -/

/-- **order_indep** (the code's "first t" rule): for every combiner, own point and share,
`GenAdditiveShare` depends only on the multiset of the first `threshold` active points, provided
those points (other than `own`) are in the combiner's table.  (Since fix 98b63bb a collision gives
`err` and a table miss gives `panic`, whichever is met first; without the proviso the two could
swap.)  No hypothesis on the residues of the points. -/
theorem order_indep_first_t (cmb : Combiner) (a₁ a₂ : List ℕ) (own : ℕ) (share : QP)
    (hlen : a₁.length = a₂.length)
    (h : (a₁.take cmb.threshold.toNat).Perm (a₂.take cmb.threshold.toNat))
    (hm : ∀ x ∈ a₁.take cmb.threshold.toNat, x ≠ own → ∃ c, cmb.table.lookup x = some c) :
    genAdditiveShare cmb a₁ own share = genAdditiveShare cmb a₂ own share :=
  genAdditiveShare_perm cmb a₁ a₂ own share hlen h hm

/-- **order_indep**, unconditional form: if one listing of the first `threshold` active points
yields an additive share, every other order of them yields the same share. -/
theorem order_indep_ok (cmb : Combiner) (a₁ a₂ : List ℕ) (own : ℕ) (share s : QP)
    (hlen : a₁.length = a₂.length)
    (h : (a₁.take cmb.threshold.toNat).Perm (a₂.take cmb.threshold.toNat))
    (hok : genAdditiveShare cmb a₁ own share = .ok s) :
    genAdditiveShare cmb a₂ own share = .ok s :=
  genAdditiveShare_perm_ok cmb a₁ a₂ own share s hlen h hok

/-- **order_indep** for a combiner made by `NewCombiner`: listing at most `threshold` active points,
all known to `NewCombiner`, in another order gives the same outcome (same additive share, or the
same error). -/
theorem order_indep (r : RingQP) (own : ℕ) (others : List ℕ) (t : Int) (a₁ a₂ : List ℕ) (share : QP)
    (h : a₁.Perm a₂) (hlen : (a₁.length : Int) ≤ t) (hoth : ∀ x ∈ a₁, x ≠ own → x ∈ others) :
    genAdditiveShare (newCombiner r own others t) a₁ own share =
      genAdditiveShare (newCombiner r own others t) a₂ own share := by
  have ht : (newCombiner r own others t).threshold = t := rfl
  have h1 : a₁.length ≤ (newCombiner r own others t).threshold.toNat := by rw [ht]; omega
  have h2 : a₂.length ≤ (newCombiner r own others t).threshold.toNat := by rw [← h.length_eq]; exact h1
  apply genAdditiveShare_perm _ a₁ a₂ own share h.length_eq
  · rw [List.take_of_length_le h1, List.take_of_length_le h2]
    exact h
  · rw [List.take_of_length_le h1]
    intro x hx hne
    exact newCombiner_lookup r own others t x (hoth x hx hne) hne

/-! ## too few active parties, colliding points -/

/-- **too_few_err**: fewer than `threshold` active points ⇒ the error, whatever else. -/
theorem too_few_err (cmb : Combiner) (actives : List ℕ) (own : ℕ) (share : QP)
    (h : (actives.length : Int) < cmb.threshold) :
    genAdditiveShare cmb actives own share = .err := by
  unfold genAdditiveShare
  rw [if_pos h]

/-- the error is returned only for too few active points or for a collision among the first
`threshold` of them. -/
theorem err_only_if (cmb : Combiner) (actives : List ℕ) (own : ℕ) (share : QP)
    (h : genAdditiveShare cmb actives own share = .err) :
    (actives.length : Int) < cmb.threshold ∨
      ∃ a ∈ actives.take cmb.threshold.toNat, a ≠ own ∧ pointsCollide cmb.ring.ms own a = true := by
  by_contra hcon
  rw [not_or] at hcon
  obtain ⟨h1, h2⟩ := hcon
  unfold genAdditiveShare at h
  rw [if_neg h1] at h
  split at h
  · exact absurd h (by simp)
  · simp only at h
    split at h
    · next hp =>
      -- the loop returned `err` although nothing collides
      have hnc : ∀ (acts prod : List ℕ), (∀ a ∈ acts, a ≠ own → pointsCollide cmb.ring.ms own a = false) →
          lagrangeProd cmb.ring.ms cmb.table own acts prod ≠ .err := by
        intro acts
        induction acts with
        | nil => intro prod _; simp [lagrangeProd]
        | cons x rest ih =>
          intro prod hx
          unfold lagrangeProd
          have ihr := fun pr => ih pr (fun a ha => hx a (List.mem_cons_of_mem _ ha))
          by_cases hxo : x ≠ own
          · rw [if_pos hxo, hx x List.mem_cons_self hxo]
            simp only [Bool.false_eq_true, if_false]
            cases cmb.table.lookup x with
            | none => simp
            | some c => exact ihr _
          · rw [if_neg hxo]; exact ihr _
      refine hnc _ _ ?_ hp
      intro a ha hne
      by_contra hc
      exact h2 ⟨a, ha, hne, by simpa using hc⟩
    · exact absurd h (by simp)
    · exact absurd h (by simp)

/-- **the threshold of a Combiner is the constructor argument**, whatever `others` is (it "may
contain the instantiator's own point", so `len(others)` says nothing about the number of parties;
seeded regression C15-r4m2 clamped the threshold to `len(others)`). -/
theorem newCombiner_threshold (r : RingQP) (own : ℕ) (others : List ℕ) (t : Int) :
    (newCombiner r own others t).threshold = t ∧ (newCombiner r own others t).ring = r := ⟨rfl, rfl⟩

/-- **too_few_err for every way of building the combiner**: with any `others` (own point included,
excluded, duplicated, even empty), any own-point argument and any share, a request listing fewer
than the constructor's `t` active points is refused with the error — in particular `t − 1` points
when `t = N` and `others` holds the other `N − 1` points only. -/
theorem too_few_err_any_others (r : RingQP) (own ownPoint : ℕ) (others actives : List ℕ) (t : Int) (share : QP)
    (h : (actives.length : Int) < t) :
    genAdditiveShare (newCombiner r own others t) actives ownPoint share = .err :=
  too_few_err _ _ _ _ h

/-- …and a request listing at least `t` points is never refused for being too short: the only
other error is a collision (`err_only_if`). -/
theorem enough_not_refused_any_others (r : RingQP) (own ownPoint : ℕ) (others actives : List ℕ) (t : Int)
    (share : QP) (h : t ≤ (actives.length : Int))
    (he : genAdditiveShare (newCombiner r own others t) actives ownPoint share = .err) :
    ∃ a ∈ actives.take t.toNat, a ≠ ownPoint ∧ pointsCollide r.ms ownPoint a = true := by
  rcases err_only_if _ _ _ _ he with h1 | h2
  · have : (newCombiner r own others t).threshold = t := rfl
    rw [this] at h1
    omega
  · exact h2

/-- **collision_rejected** (fix 98b63bb): on a combiner made by `NewCombiner` that knows the first
`t` active points, an active point different from `own` but congruent to it modulo some modulus of
the ring makes `GenAdditiveShare` return the error. -/
theorem collision_rejected (r : RingQP) (t : ℕ) (own : ℕ) (others actives : List ℕ) (share : QP)
    (hmem : ∀ a ∈ actives.take t, a ≠ own → a ∈ others)
    (a q : ℕ) (ha : a ∈ actives.take t) (hne : a ≠ own) (hq : q ∈ r.ms) (hcol : a % q = own % q) :
    genAdditiveShare (newCombiner r own others t) actives own share = .err := by
  apply genAdditiveShare_collide_err r t own others actives share hmem
  refine ⟨a, ha, hne, ?_⟩
  unfold pointsCollide
  rw [List.any_eq_true]
  exact ⟨q, hq, by simpa using hcol.symm⟩

/-- for *every* combiner (any table, any own point): with such a colliding point among the first
`threshold` active points, `GenAdditiveShare` never returns a share (it returns `err`, or `panic`
if an unknown point comes first). -/
theorem collision_never_ok (cmb : Combiner) (actives : List ℕ) (own : ℕ) (share s : QP)
    (a q : ℕ) (ha : a ∈ actives.take cmb.threshold.toNat) (hne : a ≠ own) (hq : q ∈ cmb.ring.ms)
    (hcol : a % q = own % q) :
    genAdditiveShare cmb actives own share ≠ .ok s := by
  intro h
  unfold genAdditiveShare at h
  split at h
  · exact absurd h (by simp)
  · split at h
    · exact absurd h (by simp)
    · simp only at h
      split at h
      · exact absurd h (by simp)
      · exact absurd h (by simp)
      · next prod hp =>
        refine lagrangeProd_collide_not_ok _ _ _ _ ⟨a, ha, hne, ?_⟩ _ _ hp
        unfold pointsCollide
        rw [List.any_eq_true]
        exact ⟨q, hq, by simpa using hcol.symm⟩

/-- `pointsCollide` decides congruence modulo some modulus. -/
theorem pointsCollide_iff (ms : List ℕ) (a b : ℕ) :
    pointsCollide ms a b = true ↔ ∃ q ∈ ms, a % q = b % q := by
  unfold pointsCollide
  rw [List.any_eq_true]
  constructor
  · rintro ⟨q, hq, h⟩; exact ⟨q, hq, by simpa using h⟩
  · rintro ⟨q, hq, h⟩; exact ⟨q, hq, by simpa using h⟩

/-- **the collision-refusal contract of one call, as an iff** (combiner from `NewCombiner` that knows
the first `t` active points, at least `t` of them listed): the call is refused with the error exactly
when one of those points differs from `own` as a `uint64` but is congruent to it modulo some modulus
of the ring … -/
theorem refused_iff_collision (r : RingQP) (t : ℕ) (own : ℕ) (others actives : List ℕ) (share : QP)
    (hlen : t ≤ actives.length) (hmem : ∀ a ∈ actives.take t, a ≠ own → a ∈ others) :
    genAdditiveShare (newCombiner r own others t) actives own share = .err ↔
      ∃ a ∈ actives.take t, a ≠ own ∧ ∃ q ∈ r.ms, a % q = own % q := by
  constructor
  · intro h
    rcases err_only_if _ _ _ _ h with h1 | ⟨a, ha, hne, hc⟩
    · exfalso
      have : (newCombiner r own others t).threshold = (t : Int) := rfl
      rw [this] at h1
      omega
    · have ht : (newCombiner r own others (t : Int)).threshold.toNat = t := by simp [newCombiner]
      rw [ht] at ha
      obtain ⟨q, hq, hmod⟩ := (pointsCollide_iff _ _ _).mp hc
      exact ⟨a, ha, hne, q, hq, hmod.symm⟩
  · rintro ⟨a, ha, hne, q, hq, hmod⟩
    exact collision_rejected r t own others actives share hmem a q ha hne hq hmod

/-- … and it is served (returns an additive share) exactly when every one of them that differs from
`own` is distinct from it modulo every modulus. -/
theorem accepted_iff_distinct (r : RingQP) (t : ℕ) (own : ℕ) (others actives : List ℕ) (share : QP)
    (hlen : t ≤ actives.length) (hmem : ∀ a ∈ actives.take t, a ≠ own → a ∈ others) :
    (∃ s, genAdditiveShare (newCombiner r own others t) actives own share = .ok s) ↔
      ∀ a ∈ actives.take t, a ≠ own → ∀ q ∈ r.ms, a % q ≠ own % q := by
  constructor
  · rintro ⟨s, hs⟩ a ha hne q hq hmod
    have := (refused_iff_collision r t own others actives share hlen hmem).mpr ⟨a, ha, hne, q, hq, hmod⟩
    rw [this] at hs
    exact absurd hs (by simp)
  · intro h
    refine ⟨_, genAdditiveShare_ok r t own others actives share hlen hmem ?_⟩
    intro a ha hne
    by_contra hc
    obtain ⟨q, hq, hmod⟩ := (pointsCollide_iff _ _ _).mp (by simpa using hc)
    exact h a ha hne q hq hmod.symm

/-! ## setup aggregation -/

/-- **setup_aggregation_order_indep**: a party that aggregates the Shamir shares it received in any
order ends with the same aggregated share (any moduli, prime or not). -/
theorem setup_aggregation_order_indep (r : RingQP) (N : ℕ) (l₁ l₂ : List QP) (h : l₁.Perm l₂)
    (hl : ∀ s ∈ l₁, ShapedQP r N s) :
    aggregateAll r (zeroQP r N) l₁ = aggregateAll r (zeroQP r N) l₂ :=
  aggregateAll_perm r N (zeroQP r N) (shapedQP_zero r N) h hl

/-! ## receiver independence -/

/-- **receiver independence of `ring.EvalPolyScalar`**: with the receiver's previous content made an
explicit argument (`evalPolyScalarInto`: `p2.Copy(p1[last])`, then the in-place Horner steps), the
result is the same for any two receivers of the coefficients' shape — and is the receiver-free
`evalPolyScalarRows` that all other theorems are about. -/
theorem evalPolyScalar_receiver_independent {nr N : ℕ} (ms : List ℕ) (x : ℕ) (polys : List Rows)
    (hsh : ∀ p ∈ polys, Shaped nr N p) (recv₁ recv₂ : Rows) (h₁ : Shaped nr N recv₁) (h₂ : Shaped nr N recv₂) :
    evalPolyScalarInto ms x polys recv₁ = evalPolyScalarInto ms x polys recv₂ ∧
    evalPolyScalarInto ms x polys recv₁ = evalPolyScalarRows ms x polys :=
  ⟨by rw [evalPolyScalarInto_eq ms x polys hsh recv₁ h₁, evalPolyScalarInto_eq ms x polys hsh recv₂ h₂],
   evalPolyScalarInto_eq ms x polys hsh recv₁ h₁⟩

/-- **receiver independence of `GenShamirSecretShare`**: the share written into a buffer that still
holds anything of the ring's shape (a previous recipient's share, junk) is the share written into a
fresh buffer; in particular a dealer may re-use one buffer for all recipients. -/
theorem share_receiver_independent (r : RingQP) (N x : ℕ) (sp : ShamirPoly)
    (hsh : ∀ c ∈ sp, ShapedQP r N c) (recv₁ recv₂ : QP) (h₁ : ShapedQP r N recv₁) (h₂ : ShapedQP r N recv₂) :
    genShamirSecretShareInto r x sp recv₁ = genShamirSecretShareInto r x sp recv₂ ∧
    genShamirSecretShareInto r x sp recv₁ = genShamirSecretShare r x sp :=
  ⟨by rw [genShamirSecretShareInto_eq r N x sp hsh recv₁ h₁, genShamirSecretShareInto_eq r N x sp hsh recv₂ h₂],
   genShamirSecretShareInto_eq r N x sp hsh recv₁ h₁⟩

/-- contrast (test by evaluation): the Horner loop of the seeded regression C15-r3m1, which starts
from the receiver's content instead of copying the leading coefficient, does depend on it. -/
example : evalPolyScalarNoCopy [97] 3 [[[5]], [[7]]] [[0]] = [[26]] ∧
    evalPolyScalarNoCopy [97] 3 [[[5]], [[7]]] [[1]] = [[35]] ∧
    evalPolyScalarInto [97] 3 [[[5]], [[7]]] [[1]] = some [[26]] := by decide

/-! ## history independence -/

/-- **history independence of `GenAdditiveShare`**: with the Combiner's scratch buffer made explicit
(`genAdditiveShareSt`: `prod := cmb.tmp2; copy(prod, cmb.one)`, then the loop), the outcome of a call is
the same whatever the buffer holds — i.e. whatever calls were made on the Combiner before — and is the
pure `genAdditiveShare cmb actives ownPoint share`: a function of the Combiner's construction and of
the call's own arguments only. -/
theorem history_independent (cmb : Combiner) (hwf : TableWF cmb) (tmp₁ tmp₂ : List ℕ)
    (h₁ : tmp₁.length = cmb.ring.ms.length) (h₂ : tmp₂.length = cmb.ring.ms.length)
    (actives : List ℕ) (ownPoint : ℕ) (share : QP) :
    (genAdditiveShareSt cmb tmp₁ actives ownPoint share).1 = (genAdditiveShareSt cmb tmp₂ actives ownPoint share).1 ∧
    (genAdditiveShareSt cmb tmp₁ actives ownPoint share).1 = genAdditiveShare cmb actives ownPoint share := by
  have e1 := (genAdditiveShareSt_spec cmb hwf tmp₁ h₁ actives ownPoint share).1
  have e2 := (genAdditiveShareSt_spec cmb hwf tmp₂ h₂ actives ownPoint share).1
  exact ⟨e1.trans e2.symm, e1⟩

/-- **one Combiner serving a sequence of groups**: for a Combiner made by `NewCombiner` and ANY
sequence of calls (different groups of active parties, orders, own points, shares; refused calls in
between), the k-th result is the result a freshly built Combiner gives for the k-th call alone. -/
theorem sequence_independent (r : RingQP) (own : ℕ) (others : List ℕ) (t : Int) (calls : List Call)
    (tmp2 : List ℕ) (ht : tmp2.length = r.ms.length) :
    runCalls (newCombiner r own others t) tmp2 calls =
      calls.map fun c => genAdditiveShare (newCombiner r own others t) c.actives c.ownPoint c.share :=
  runCalls_eq_map _ (tableWF_newCombiner r own others t) calls tmp2 ht

/-- a sequence of three groups on one combiner (points 4, 9, 11, 15; t = 2), a refused call in between. -/
example : runCalls (newCombiner ⟨2, [97, 193, 257]⟩ 4 [4, 9, 11, 15] 2) [0, 0, 0]
      [⟨[9, 4], 4, ⟨2, [[1, 2], [3, 4], [5, 6]]⟩⟩, ⟨[101, 4], 4, ⟨2, [[1, 2], [3, 4], [5, 6]]⟩⟩,
       ⟨[4, 11], 4, ⟨2, [[1, 2], [3, 4], [5, 6]]⟩⟩, ⟨[15, 4], 4, ⟨2, [[7, 7], [8, 8], [9, 9]]⟩⟩] =
    [genAdditiveShare (newCombiner ⟨2, [97, 193, 257]⟩ 4 [4, 9, 11, 15] 2) [9, 4] 4 ⟨2, [[1, 2], [3, 4], [5, 6]]⟩,
     .err,
     genAdditiveShare (newCombiner ⟨2, [97, 193, 257]⟩ 4 [4, 9, 11, 15] 2) [4, 11] 4 ⟨2, [[1, 2], [3, 4], [5, 6]]⟩,
     genAdditiveShare (newCombiner ⟨2, [97, 193, 257]⟩ 4 [4, 9, 11, 15] 2) [15, 4] 4 ⟨2, [[7, 7], [8, 8], [9, 9]]⟩] := by
  rw [sequence_independent _ _ _ _ _ _ (by decide)]
  decide

/-! ## the excluded points -/

/-- A recipient whose public point is `0` modulo the prime of row `m` (e.g. the point `0`, or the
non-zero `uint64` `q_m`) receives, in that row, the dealer's secret itself (mod `q_m`). -/
theorem zero_point_share_is_secret (r : RingQP) (N x : ℕ) (sp : ShamirPoly) (s : QP)
    (hsh : ∀ c ∈ sp, ShapedQP r N c) (hs : genShamirSecretShare r x sp = .ok s)
    (m k : ℕ) (hm : m < r.ms.length) (hk : k < N) (hx : x % modAt r.ms m = 0) :
    ent s.rows m k % modAt r.ms m = ent (sp.headD (zeroQP r N)).rows m k % modAt r.ms m := by
  have hne : sp ≠ [] := by
    intro h; subst h; simp [genShamirSecretShare, evalPolyScalarRows] at hs
  obtain ⟨s', hs', _, he⟩ := share_spec r N x sp hne hsh
  rw [hs] at hs'
  cases hs'
  rw [he m k hm hk, horner_zero_point _ _ hx]
  cases sp with
  | nil => exact absurd rfl hne
  | cons c rest => rfl

/-- The former counterexample (`q = 97`, points `1` and `98 = 1 + q`, `t = 2`, `f(X) = 5 + 7X`), on
which the unfixed code returned the key `0` instead of `5`: the run is now refused; with the
distinct points `1, 3` it returns `5`. -/
theorem collision_example :
    thresholdRun ⟨1, [97]⟩ 2 (zeroQP ⟨1, [97]⟩ 1) [[⟨1, [[5]]⟩, ⟨1, [[7]]⟩]]
        [⟨1, [1, 98], [1, 98]⟩, ⟨98, [1, 98], [1, 98]⟩] = .err
    ∧ thresholdRun ⟨1, [97]⟩ 2 (zeroQP ⟨1, [97]⟩ 1) [[⟨1, [[5]]⟩, ⟨1, [[7]]⟩]]
        [⟨1, [1, 3], [1, 3]⟩, ⟨3, [1, 3], [3, 1]⟩] = .ok ⟨1, [[5]]⟩ := by
  decide

/-! ## non-vacuity -/

section NonVacuity

def exRing : RingQP := ⟨2, [97, 193, 257]⟩
def exDealers : List ShamirPoly :=
  [[⟨2, [[5, 6], [7, 8], [9, 10]]⟩, ⟨2, [[1, 2], [3, 4], [5, 6]]⟩],
   [⟨2, [[96, 0], [192, 1], [256, 2]]⟩, ⟨2, [[11, 12], [13, 14], [15, 16]]⟩]]
def exDealer0 : ShamirPoly := [⟨2, [[5, 6], [7, 8], [9, 10]]⟩, ⟨2, [[1, 2], [3, 4], [5, 6]]⟩]
def exParties : List Party :=
  [⟨18446744073709551615, [4, 18446744073709551615, 4294967299], [4294967299, 18446744073709551615, 7]⟩,
   ⟨4294967299, [4, 18446744073709551615, 4294967299], [18446744073709551615, 4294967299]⟩]

theorem exRing_prime : ∀ q ∈ exRing.ms, q.Prime := by
  intro q hq
  simp only [exRing, List.mem_cons, List.not_mem_nil, or_false] at hq
  rcases hq with rfl | rfl | rfl <;> norm_num

theorem exShaped : ∀ sp ∈ exDealers, sp.length = 2 ∧ ∀ c ∈ sp, ShapedQP exRing 2 c := by
  decide

/-- the hypotheses of `reconstruct` are met by a concrete instance (2 dealers, 3 moduli, points
`2^64−1` and `2^32+3`, different orders, one active list longer than `t`). -/
example : thresholdRun exRing 2 (zeroQP exRing 2) exDealers exParties =
    aggregateAll exRing (zeroQP exRing 2) (exDealers.map fun sp => sp.headD (zeroQP exRing 2)) :=
  reconstruct exRing 2 2 exDealers exParties exRing_prime (by decide) exShaped
    (by decide) (by decide) (by decide) (by decide)

/-- …and the value is the sum of the two secrets. -/
example : thresholdRun exRing 2 (zeroQP exRing 2) exDealers exParties =
    .ok ⟨2, [[4, 6], [6, 9], [8, 12]]⟩ := by decide

/-- `reconstruct_single` is not vacuous. -/
example : thresholdRun exRing 2 (zeroQP exRing 2) [exDealer0] exParties = .ok ⟨2, [[5, 6], [7, 8], [9, 10]]⟩ :=
  reconstruct_single exRing 2 2 _ _ exParties exRing_prime (by decide) (by decide) (by decide)
    (by decide) (by decide) (by decide) (by decide)

/-- `order_indep`, `too_few_err`: concrete instances. -/
example : genAdditiveShare (newCombiner exRing 4 [4, 9, 11] 3) [9, 4, 11] 4 ⟨2, [[1, 2], [3, 4], [5, 6]]⟩ =
    genAdditiveShare (newCombiner exRing 4 [4, 9, 11] 3) [11, 9, 4] 4 ⟨2, [[1, 2], [3, 4], [5, 6]]⟩ :=
  order_indep _ _ _ _ _ _ _ (by decide) (by decide) (by decide)

example : genAdditiveShare (newCombiner exRing 4 [4, 9, 11] 3) [11, 9, 4] 4 ⟨2, [[1, 2], [3, 4], [5, 6]]⟩ =
    .ok ⟨2, [[25, 50], [14, 83], [161, 39]]⟩ :=
  order_indep_ok _ [9, 4, 11] _ _ _ _ (by decide) (by decide) (by decide)

/-- `reconstruct_or_reject`: both branches occur (points `4, 101 = 4 + 97` are refused). -/
example : thresholdRun exRing 2 (zeroQP exRing 2) exDealers
    [⟨4, [4, 101], [101, 4]⟩, ⟨101, [4, 101], [4, 101]⟩] = .err := by decide

example : thresholdRun exRing 2 (zeroQP exRing 2) exDealers [⟨4, [4, 101], [101, 4]⟩, ⟨101, [4, 101], [4, 101]⟩] = .err ∨
    thresholdRun exRing 2 (zeroQP exRing 2) exDealers [⟨4, [4, 101], [101, 4]⟩, ⟨101, [4, 101], [4, 101]⟩] =
      aggregateAll exRing (zeroQP exRing 2) (exDealers.map fun sp => sp.headD (zeroQP exRing 2)) :=
  reconstruct_or_reject exRing 2 2 exDealers _ exRing_prime (by decide) exShaped
    (by decide) (by decide) (by decide) (by decide)

/-- `collision_rejected`, `collision_never_ok`: concrete instances. -/
example : genAdditiveShare (newCombiner exRing 4 [4, 101] 2) [101, 4] 4 ⟨2, [[1, 2], [3, 4], [5, 6]]⟩ = .err :=
  collision_rejected exRing 2 4 [4, 101] [101, 4] _ (by decide) 101 97 (by decide) (by decide) (by decide) (by decide)

example : genAdditiveShare (newCombiner exRing 4 [4, 101] 2) [7, 101] 4 ⟨2, [[1, 2], [3, 4], [5, 6]]⟩ = .panic := by
  decide

/-- `refused_iff_collision` / `accepted_iff_distinct`: both sides of each iff occur. -/
example : genAdditiveShare (newCombiner exRing 4 [4, 101] 2) [101, 4] 4 ⟨2, [[1, 2], [3, 4], [5, 6]]⟩ = .err :=
  (refused_iff_collision exRing 2 4 [4, 101] [101, 4] _ (by decide) (by decide)).mpr
    ⟨101, by decide, by decide, 97, by decide, by decide⟩

example : ∃ s, genAdditiveShare (newCombiner exRing 4 [4, 9, 11] 3) [9, 4, 11] 4 ⟨2, [[1, 2], [3, 4], [5, 6]]⟩ = .ok s :=
  (accepted_iff_distinct exRing 3 4 [4, 9, 11] [9, 4, 11] _ (by decide) (by decide)).mpr (by decide)

/-- `run_refused_iff_collision`: the refused run of above, through the iff. -/
example : thresholdRun exRing 2 (zeroQP exRing 2) exDealers
    [⟨4, [4, 101], [101, 4]⟩, ⟨101, [4, 101], [4, 101]⟩] = .err :=
  (run_refused_iff_collision exRing 2 2 exDealers _ exRing_prime (by decide) exShaped
    (by decide) (by decide) (by decide) (by decide)).1.mpr (by decide)

example : genAdditiveShare (newCombiner exRing 4 [4, 9, 11] 3) [9, 4] 4 ⟨2, [[1, 2], [3, 4], [5, 6]]⟩ = .err :=
  too_few_err _ _ _ _ (by decide)

/-- `too_few_err_any_others`: t = N = 3, `others` = the two other points only, t − 1 = 2 listed. -/
example : genAdditiveShare (newCombiner exRing 4 [9, 11] 3) [9, 11] 4 ⟨2, [[1, 2], [3, 4], [5, 6]]⟩ = .err :=
  too_few_err_any_others _ _ _ _ _ _ _ (by decide)

/-- …while the full set of t = N = 3 parties is served by that combiner (`reconstruct` allows
`others` without the own point: `hoth` only asks for the *other* active points). -/
example : ∃ s, genAdditiveShare (newCombiner exRing 4 [9, 11] 3) [9, 4, 11] 4 ⟨2, [[1, 2], [3, 4], [5, 6]]⟩ = .ok s :=
  (accepted_iff_distinct exRing 3 4 [9, 11] [9, 4, 11] _ (by decide) (by decide)).mpr (by decide)

/-- `setup_aggregation_order_indep`: concrete instance. -/
example : aggregateAll exRing (zeroQP exRing 2) [⟨2, [[5, 6], [7, 8], [9, 10]]⟩, ⟨2, [[96, 0], [192, 1], [256, 2]]⟩] =
    aggregateAll exRing (zeroQP exRing 2) [⟨2, [[96, 0], [192, 1], [256, 2]]⟩, ⟨2, [[5, 6], [7, 8], [9, 10]]⟩] :=
  setup_aggregation_order_indep exRing 2 _ _ (by decide) (by decide)

/-- `share_receiver_independent`: a junk receiver and the previous recipient's share. -/
example := share_receiver_independent exRing 2 193 exDealer0 (by decide)
  ⟨2, [[96, 1], [2, 3], [4, 5]]⟩ ⟨2, [[4, 4], [7, 8], [203, 140]]⟩ (by decide) (by decide)

/-- `zero_point_share_is_secret`: the non-zero point `193` gets row 1 of the secret. -/
example : genShamirSecretShare exRing 193 exDealer0 = .ok ⟨2, [[4, 4], [7, 8], [203, 140]]⟩ := by decide

example : ent (⟨2, [[4, 4], [7, 8], [203, 140]]⟩ : QP).rows 1 1 % 193 = 8 % 193 :=
  zero_point_share_is_secret exRing 2 193 exDealer0 _ (by decide) (by decide) 1 1 (by decide) (by decide) (by decide)

end NonVacuity

end Lattigo.Props.C15

#print axioms Lattigo.Props.C15.reconstruct
#print axioms Lattigo.Props.C15.reconstruct_single
#print axioms Lattigo.Props.C15.order_indep_first_t
#print axioms Lattigo.Props.C15.order_indep
#print axioms Lattigo.Props.C15.too_few_err
#print axioms Lattigo.Props.C15.err_only_if
#print axioms Lattigo.Props.C15.newCombiner_threshold
#print axioms Lattigo.Props.C15.too_few_err_any_others
#print axioms Lattigo.Props.C15.enough_not_refused_any_others
#print axioms Lattigo.Props.C15.reconstruct_or_reject
#print axioms Lattigo.Props.C15.order_indep_ok
#print axioms Lattigo.Props.C15.collision_rejected
#print axioms Lattigo.Props.C15.collision_never_ok
#print axioms Lattigo.Props.C15.run_refused_of_collision
#print axioms Lattigo.Props.C15.run_refused_iff_collision
#print axioms Lattigo.Props.C15.pointsCollide_iff
#print axioms Lattigo.Props.C15.refused_iff_collision
#print axioms Lattigo.Props.C15.accepted_iff_distinct
#print axioms Lattigo.Props.C15.setup_aggregation_order_indep
#print axioms Lattigo.Props.C15.history_independent
#print axioms Lattigo.Props.C15.sequence_independent
#print axioms Lattigo.Props.C15.evalPolyScalar_receiver_independent
#print axioms Lattigo.Props.C15.share_receiver_independent
#print axioms Lattigo.Props.C15.zero_point_share_is_secret
#print axioms Lattigo.Props.C15.collision_example
