/-
  C15 — t-out-of-N threshold secret sharing (`multiparty/threshold.go`).

  All theorems are about the executable model `Lattigo.Model.Shamir` that the driver runs
  (`thresholdRun`, `genAdditiveShare`, `newCombiner`, `genShamirSecretShare`, `aggregateAll`), for
  all ring degrees, numbers of moduli, thresholds and party counts.

  The proof forces the hypothesis "the active public points are pairwise distinct MODULO EVERY
  PRIME of Q and P" (`DistinctMod`).  Non-zero-ness is *not* needed for reconstruction (it matters
  for secrecy only: `zero_point_share_is_secret`).  The Go API takes arbitrary `uint64` points and
  enforces neither; with points such as `x` and `x + q_0` the real code silently reconstructs a
  wrong key — `collision_counterexample` / `collision_zero_share` (harness probe
  `reconstruct_collide`, finding key `C15-collision-mod-prime`).
-/
import Lattigo.Proofs.ShamirOrder
import Mathlib.Tactic.NormNum.Prime

namespace Lattigo.Props.C15
open Lattigo.Model.Shamir Lattigo.Proofs.Shamir

/-- every word is a canonical residue. -/
def Reduced (r : RingQP) (N : ℕ) (x : QP) : Prop :=
  ∀ m, m < r.ms.length → ∀ k, k < N → ent x.rows m k < modAt r.ms m

instance (r : RingQP) (N : ℕ) (x : QP) : Decidable (Reduced r N x) := by unfold Reduced; infer_instance

/-! ## reconstruct -/

/-- **reconstruct.**  Setup: any number of dealers (the N parties of the setup), each with a Shamir
polynomial of `t ≥ 1` coefficient polynomials (degree `< t`, constant term = its secret key) over
the ring `r` (all moduli prime, any number of them, any ring degree `N`).  Reconstruction: exactly
`t` active parties whose public points are pairwise distinct modulo every prime; each built its
combiner with an `others` list containing the other active points, received one share from every
dealer, aggregated them, and calls `GenAdditiveShare` with an active list whose first `t` entries
are the active points *in any order* (each party may use its own order).
Then the run succeeds and the additive shares sum to the sum of the dealers' secrets (the ideal
secret key), computed with the same ring additions. -/
theorem reconstruct (r : RingQP) (N t : ℕ) (dealers : List ShamirPoly) (parties : List Party)
    (hprime : ∀ q ∈ r.ms, q.Prime) (ht : 1 ≤ t)
    (hd : ∀ sp ∈ dealers, sp.length = t ∧ ∀ c ∈ sp, ShapedQP r N c)
    (hdist : ∀ q ∈ r.ms, DistinctMod q (parties.map (·.own)))
    (hcount : parties.length = t)
    (hact : ∀ p ∈ parties, (p.actives.take t).Perm (parties.map (·.own)))
    (hoth : ∀ p ∈ parties, ∀ x ∈ parties.map (·.own), x ≠ p.own → x ∈ p.others) :
    thresholdRun r t (zeroQP r N) dealers parties =
      aggregateAll r (zeroQP r N) (dealers.map fun sp => sp.headD (zeroQP r N)) := by
  have hd' : ∀ sp ∈ dealers, sp ≠ [] ∧ ∀ c ∈ sp, ShapedQP r N c := by
    intro sp hsp
    refine ⟨?_, (hd sp hsp).2⟩
    intro h
    have := (hd sp hsp).1
    rw [h] at this
    simp at this
    omega
  have hp' : ∀ p ∈ parties, t ≤ p.actives.length ∧ ∀ a ∈ p.actives.take t, a ≠ p.own → a ∈ p.others := by
    intro p hp
    have hl := (hact p hp).length_eq
    rw [List.length_take, List.length_map, hcount] at hl
    refine ⟨by omega, ?_⟩
    intro a ha hne
    exact hoth p hp a ((hact p hp).mem_iff.mp ha) hne
  obtain ⟨out, ho, hsh, he⟩ := run_spec r N t dealers parties hd' hp'
  obtain ⟨out', ho', hsh', he'⟩ := aggregateAll_spec r N (dealers.map fun sp => sp.headD (zeroQP r N))
    (zeroQP r N) (shapedQP_zero r N)
    (by
      intro s hs
      rw [List.mem_map] at hs
      obtain ⟨sp, hsp, rfl⟩ := hs
      obtain ⟨hne, hall⟩ := hd' sp hsp
      cases sp with
      | nil => exact absurd rfl hne
      | cons c rest => exact hall c List.mem_cons_self)
  rw [ho, ho']
  have hrows : out.rows = out'.rows := by
    apply rows_ext hsh.2 hsh'.2
    intro m k hm hk
    rw [he m k hm hk, he' m k hm hk, ent_zero r N m k hm hk]
    have : Fact (modAt r.ms m).Prime := ⟨hprime _ (modAt_mem r.ms m hm)⟩
    have hS : DistinctMod (modAt r.ms m) ((parties.map fun p => (p.own, p.actives.take t)).map Prod.fst) := by
      rw [List.map_map]; exact hdist _ (modAt_mem r.ms m hm)
    have key := scalar_reconstruct_nat (q := modAt r.ms m)
      (parties.map fun p => (p.own, p.actives.take t)) hS
      (dealers.map fun sp => sp.map fun c => ent c.rows m k)
      (by
        intro cs hcs
        rw [List.mem_map] at hcs
        obtain ⟨sp, hsp, rfl⟩ := hcs
        rw [List.length_map, List.length_map, (hd sp hsp).1, hcount])
      (by
        intro p hp
        rw [List.mem_map] at hp
        obtain ⟨p', hp', rfl⟩ := hp
        rw [List.map_map]
        exact hact p' hp')
    rw [List.map_map] at key
    simp only [List.map_map, Function.comp_def] at key ⊢
    rw [key]
    congr 1
    apply List.map_congr_left
    intro sp hsp
    obtain ⟨hne, _⟩ := hd' sp hsp
    cases sp with
    | nil => exact absurd rfl hne
    | cons c rest => rfl
  cases out; cases out'
  simp only [ShapedQP] at hsh hsh'
  simp only at hrows
  rw [Outcome.ok.injEq, QP.mk.injEq]
  exact ⟨hsh.1.trans hsh'.1.symm, hrows⟩

/-- One dealer with a canonical secret: the additive shares of the `t` active parties sum to the
secret itself. -/
theorem reconstruct_single (r : RingQP) (N t : ℕ) (secret : QP) (rest : List QP) (parties : List Party)
    (hprime : ∀ q ∈ r.ms, q.Prime)
    (hlen : (secret :: rest).length = t)
    (hsh : ∀ c ∈ secret :: rest, ShapedQP r N c) (hred : Reduced r N secret)
    (hdist : ∀ q ∈ r.ms, DistinctMod q (parties.map (·.own)))
    (hcount : parties.length = t)
    (hact : ∀ p ∈ parties, (p.actives.take t).Perm (parties.map (·.own)))
    (hoth : ∀ p ∈ parties, ∀ x ∈ parties.map (·.own), x ≠ p.own → x ∈ p.others) :
    thresholdRun r t (zeroQP r N) [secret :: rest] parties = .ok secret := by
  have ht : 1 ≤ t := by rw [← hlen]; simp
  rw [reconstruct r N t [secret :: rest] parties hprime ht
    (by intro sp hsp; rw [List.mem_singleton] at hsp; subst hsp; exact ⟨hlen, hsh⟩)
    hdist hcount hact hoth]
  have hs : ShapedQP r N secret := hsh secret List.mem_cons_self
  obtain ⟨out, ho, hso, he⟩ := aggregateAll_spec r N [secret] (zeroQP r N) (shapedQP_zero r N)
    (by intro s h; rw [List.mem_singleton] at h; subst h; exact hs)
  simp only [List.map_cons, List.map_nil, List.headD_cons]
  rw [ho]
  have hrows : out.rows = secret.rows := by
    apply rows_ext hso.2 hs.2
    intro m k hm hk
    rw [he m k hm hk, ent_zero r N m k hm hk]
    simp only [List.map_cons, List.map_nil, sumMod, List.foldl_cons, List.foldl_nil, Nat.zero_add]
    exact Nat.mod_eq_of_lt (hred m hm k hk)
  cases out; cases secret
  simp only [ShapedQP] at hso hs
  simp only at hrows
  rw [Outcome.ok.injEq, QP.mk.injEq]
  exact ⟨hso.1.trans hs.1.symm, hrows⟩

/-! ## order independence -/

/-- **order_indep** (the code's "first t" rule): for every combiner, own point and share,
`GenAdditiveShare` depends only on the multiset of the first `threshold` active points. No
hypothesis on the points (holds at colliding points too). -/
theorem order_indep_first_t (cmb : Combiner) (a₁ a₂ : List ℕ) (own : ℕ) (share : QP)
    (hlen : a₁.length = a₂.length)
    (h : (a₁.take cmb.threshold.toNat).Perm (a₂.take cmb.threshold.toNat)) :
    genAdditiveShare cmb a₁ own share = genAdditiveShare cmb a₂ own share :=
  genAdditiveShare_perm cmb a₁ a₂ own share hlen h

/-- **order_indep**: listing at most `threshold` active points in another order gives the same
outcome (same additive share, or the same error). -/
theorem order_indep (cmb : Combiner) (a₁ a₂ : List ℕ) (own : ℕ) (share : QP)
    (h : a₁.Perm a₂) (hlen : (a₁.length : Int) ≤ cmb.threshold) :
    genAdditiveShare cmb a₁ own share = genAdditiveShare cmb a₂ own share := by
  apply genAdditiveShare_perm cmb a₁ a₂ own share h.length_eq
  have h1 : a₁.length ≤ cmb.threshold.toNat := by omega
  have h2 : a₂.length ≤ cmb.threshold.toNat := by rw [← h.length_eq]; exact h1
  rw [List.take_of_length_le h1, List.take_of_length_le h2]
  exact h

/-! ## too few active parties -/

/-- **too_few_err**: fewer than `threshold` active points ⇒ the error, whatever else. -/
theorem too_few_err (cmb : Combiner) (actives : List ℕ) (own : ℕ) (share : QP)
    (h : (actives.length : Int) < cmb.threshold) :
    genAdditiveShare cmb actives own share = .err := by
  unfold genAdditiveShare
  rw [if_pos h]

/-- …and the error is returned in no other case. -/
theorem err_only_if_too_few (cmb : Combiner) (actives : List ℕ) (own : ℕ) (share : QP)
    (h : genAdditiveShare cmb actives own share = .err) : (actives.length : Int) < cmb.threshold := by
  unfold genAdditiveShare at h
  by_contra hc
  rw [if_neg hc] at h
  split at h
  · exact absurd h (by simp)
  · simp only at h
    split at h <;> exact absurd h (by simp)

/-! ## setup aggregation -/

/-- **setup_aggregation_order_indep**: a party that aggregates the Shamir shares it received in any
order ends with the same aggregated share (any moduli, prime or not). -/
theorem setup_aggregation_order_indep (r : RingQP) (N : ℕ) (l₁ l₂ : List QP) (h : l₁.Perm l₂)
    (hl : ∀ s ∈ l₁, ShapedQP r N s) :
    aggregateAll r (zeroQP r N) l₁ = aggregateAll r (zeroQP r N) l₂ :=
  aggregateAll_perm r N (zeroQP r N) (shapedQP_zero r N) h hl

/-! ## the excluded points -/

/-- A recipient whose public point is `0` modulo the prime of row `m` (e.g. the point `0`, or the
non-zero `uint64` `q_m`) receives, in that row, the dealer's secret itself (mod `q_m`). -/
theorem zero_point_share_is_secret (r : RingQP) (N x : ℕ) (sp : ShamirPoly) (s : QP)
    (hsh : ∀ c ∈ sp, ShapedQP r N c) (hs : genShamirSecretShare r x sp = .ok s)
    (m k : ℕ) (hm : m < r.ms.length) (hk : k < N) (hx : x % modAt r.ms m = 0) :
    ent s.rows m k % modAt r.ms m = ent (sp.headD (zeroQP r N)).rows m k % modAt r.ms m := by
  have hne : sp ≠ [] := by
    intro h; subst h; simp [genShamirSecretShare, evalPolyScalarRows] at hs
  obtain ⟨s', hs', _, he⟩ := share_spec r N x sp hne hsh
  rw [hs] at hs'
  cases hs'
  rw [he m k hm hk, horner_zero_point _ _ hx]
  cases sp with
  | nil => exact absurd rfl hne
  | cons c rest => rfl

/-- Two active points that differ as `uint64` but coincide modulo a prime `q_m > 2`: `Inverse(0) = 0`,
the Lagrange factor is `0`, and row `m` of the party's additive share is identically `0`
(no error, no panic). -/
theorem collision_zero_share (r : RingQP) (N t : ℕ) (dealers : List ShamirPoly) (p : Party)
    (hd : ∀ sp ∈ dealers, sp ≠ [] ∧ ∀ c ∈ sp, ShapedQP r N c)
    (hlen : t ≤ p.actives.length) (hmem : ∀ a ∈ p.actives.take t, a ≠ p.own → a ∈ p.others)
    (m : ℕ) (hm : m < r.ms.length) (hprime : (modAt r.ms m).Prime) (h2 : 2 < modAt r.ms m)
    (a : ℕ) (ha : a ∈ p.actives.take t) (hne : a ≠ p.own) (hcol : a % modAt r.ms m = p.own % modAt r.ms m) :
    ∃ s, partyAdditiveShare r t (zeroQP r N) dealers p = .ok s ∧ ∀ k, k < N → ent s.rows m k = 0 := by
  obtain ⟨s, hs, _, he⟩ := party_spec r N t dealers p hd hlen hmem
  refine ⟨s, hs, ?_⟩
  intro k hk
  rw [he m k hm hk]
  have : Fact (modAt r.ms m).Prime := ⟨hprime⟩
  have hz : lagProdScalar (modAt r.ms m) p.own (p.actives.take t) (1 % modAt r.ms m) = 0 :=
    lagProdScalar_collide p.own (p.actives.take t) _ (Nat.mod_lt _ q_pos) h2 a ha hne hcol
  rw [hz, Nat.mul_zero, Nat.zero_mod]

/-- **Counterexample to reconstruction at colliding points** (`q = 97`, points `1` and `98 = 1 + q`,
`t = 2`, `f(X) = 5 + 7X`): the model — like the real code (probe `reconstruct_collide`) — returns
`0`, not the secret `5`; with the distinct points `1, 3` it returns `5`. -/
theorem collision_counterexample :
    thresholdRun ⟨1, [97]⟩ 2 (zeroQP ⟨1, [97]⟩ 1) [[⟨1, [[5]]⟩, ⟨1, [[7]]⟩]]
        [⟨1, [1, 98], [1, 98]⟩, ⟨98, [1, 98], [1, 98]⟩] = .ok ⟨1, [[0]]⟩
    ∧ thresholdRun ⟨1, [97]⟩ 2 (zeroQP ⟨1, [97]⟩ 1) [[⟨1, [[5]]⟩, ⟨1, [[7]]⟩]]
        [⟨1, [1, 3], [1, 3]⟩, ⟨3, [1, 3], [3, 1]⟩] = .ok ⟨1, [[5]]⟩ := by
  decide

/-! ## non-vacuity -/

section NonVacuity

def exRing : RingQP := ⟨2, [97, 193, 257]⟩
def exDealers : List ShamirPoly :=
  [[⟨2, [[5, 6], [7, 8], [9, 10]]⟩, ⟨2, [[1, 2], [3, 4], [5, 6]]⟩],
   [⟨2, [[96, 0], [192, 1], [256, 2]]⟩, ⟨2, [[11, 12], [13, 14], [15, 16]]⟩]]
def exDealer0 : ShamirPoly := [⟨2, [[5, 6], [7, 8], [9, 10]]⟩, ⟨2, [[1, 2], [3, 4], [5, 6]]⟩]
def exParties : List Party :=
  [⟨18446744073709551615, [4, 18446744073709551615, 4294967299], [4294967299, 18446744073709551615, 7]⟩,
   ⟨4294967299, [4, 18446744073709551615, 4294967299], [18446744073709551615, 4294967299]⟩]

theorem exRing_prime : ∀ q ∈ exRing.ms, q.Prime := by
  intro q hq
  simp only [exRing, List.mem_cons, List.not_mem_nil, or_false] at hq
  rcases hq with rfl | rfl | rfl <;> norm_num

theorem exShaped : ∀ sp ∈ exDealers, sp.length = 2 ∧ ∀ c ∈ sp, ShapedQP exRing 2 c := by
  decide

/-- the hypotheses of `reconstruct` are met by a concrete instance (2 dealers, 3 moduli, points
`2^64−1` and `2^32+3`, different orders, one active list longer than `t`). -/
example : thresholdRun exRing 2 (zeroQP exRing 2) exDealers exParties =
    aggregateAll exRing (zeroQP exRing 2) (exDealers.map fun sp => sp.headD (zeroQP exRing 2)) :=
  reconstruct exRing 2 2 exDealers exParties exRing_prime (by decide) exShaped
    (by decide) (by decide) (by decide) (by decide)

/-- …and the value is the sum of the two secrets. -/
example : thresholdRun exRing 2 (zeroQP exRing 2) exDealers exParties =
    .ok ⟨2, [[4, 6], [6, 9], [8, 12]]⟩ := by decide

/-- `reconstruct_single` is not vacuous. -/
example : thresholdRun exRing 2 (zeroQP exRing 2) [exDealer0] exParties = .ok ⟨2, [[5, 6], [7, 8], [9, 10]]⟩ :=
  reconstruct_single exRing 2 2 _ _ exParties exRing_prime (by decide) (by decide) (by decide)
    (by decide) (by decide) (by decide) (by decide)

/-- `order_indep`, `too_few_err`: concrete instances. -/
example : genAdditiveShare (newCombiner exRing 4 [4, 9, 11] 3) [9, 4, 11] 4 ⟨2, [[1, 2], [3, 4], [5, 6]]⟩ =
    genAdditiveShare (newCombiner exRing 4 [4, 9, 11] 3) [11, 9, 4] 4 ⟨2, [[1, 2], [3, 4], [5, 6]]⟩ :=
  order_indep _ _ _ _ _ (by decide) (by decide)

example : genAdditiveShare (newCombiner exRing 4 [4, 9, 11] 3) [9, 4] 4 ⟨2, [[1, 2], [3, 4], [5, 6]]⟩ = .err :=
  too_few_err _ _ _ _ (by decide)

/-- `setup_aggregation_order_indep`: concrete instance. -/
example : aggregateAll exRing (zeroQP exRing 2) [⟨2, [[5, 6], [7, 8], [9, 10]]⟩, ⟨2, [[96, 0], [192, 1], [256, 2]]⟩] =
    aggregateAll exRing (zeroQP exRing 2) [⟨2, [[96, 0], [192, 1], [256, 2]]⟩, ⟨2, [[5, 6], [7, 8], [9, 10]]⟩] :=
  setup_aggregation_order_indep exRing 2 _ _ (by decide) (by decide)

/-- `zero_point_share_is_secret`: the non-zero point `193` gets row 1 of the secret. -/
example : genShamirSecretShare exRing 193 exDealer0 = .ok ⟨2, [[4, 4], [7, 8], [203, 140]]⟩ := by decide

example : ent (⟨2, [[4, 4], [7, 8], [203, 140]]⟩ : QP).rows 1 1 % 193 = 8 % 193 :=
  zero_point_share_is_secret exRing 2 193 exDealer0 _ (by decide) (by decide) 1 1 (by decide) (by decide) (by decide)

/-- `collision_zero_share`: points `4` and `4 + 97`, row 0 of the additive share vanishes. -/
example : ∃ s, partyAdditiveShare exRing 2 (zeroQP exRing 2) exDealers ⟨4, [4, 101], [101, 4]⟩ = .ok s ∧
    ∀ k, k < 2 → ent s.rows 0 k = 0 :=
  collision_zero_share exRing 2 2 exDealers ⟨4, [4, 101], [101, 4]⟩ (by decide) (by decide) (by decide)
    0 (by decide) (by norm_num [modAt, exRing]) (by decide) 101 (by decide) (by decide) (by decide)

end NonVacuity

end Lattigo.Props.C15

#print axioms Lattigo.Props.C15.reconstruct
#print axioms Lattigo.Props.C15.reconstruct_single
#print axioms Lattigo.Props.C15.order_indep_first_t
#print axioms Lattigo.Props.C15.order_indep
#print axioms Lattigo.Props.C15.too_few_err
#print axioms Lattigo.Props.C15.err_only_if_too_few
#print axioms Lattigo.Props.C15.setup_aggregation_order_indep
#print axioms Lattigo.Props.C15.zero_point_share_is_secret
#print axioms Lattigo.Props.C15.collision_zero_share
#print axioms Lattigo.Props.C15.collision_counterexample
