/-
  C20 — sizes of the noise terms of the external product and of the blind-rotation accumulator.

  `Props/C20.lean` gives the exact identities: `extprod_phase_div`
  (`phase(ct ⊡ RGSW(g)) = g·phase(ct) + P⁻¹·(Σ_k d0_k e0_k + Σ_k d1_k e1_k − r₀ − r₁·s)`) and `blindrot_invariant`
  (`ph(acc) = φ_t(F)·X^u + noiseRun …`).  Here:

    * `extprod_noise_bound` (over `Z[X]/(X^N+1)` = `Lattigo.ZPoly`): with `P·ν = Σ d0 e0 + Σ d1 e1 − ρ₀ − s·ρ₁`,
      centred remainders, digits `‖d_k‖∞ ≤ D_k`, errors `≤ B`, `‖s‖₁ ≤ h`:
          2P‖ν‖∞ ≤ 2·N·B·(ΣD0 + ΣD1) + P·(1 + h)     (two gadget products: twice the key-switching numerator)
      `extprod_noise_bound_div`: ‖ν‖∞ ≤ ⌊N·B·(ΣD0+ΣD1)/P⌋ + ⌊(1+h)/2⌋ + 1;  `extprod_noise_bound_noP`: ≤ N·B·(ΣD0+ΣD1).
    * `noiseRun_norm_le` / `blindrot_noise_bound`: for ANY norm `nrm` on the phase ring that is subadditive and not
      increased by the automorphisms `φ_g` and by the monomials `X^u`, if every automorphism adds an error of norm
      `≤ B_ks` and every external product one of norm `≤ B_ep`, then after the schedule `st`
          nrm(noise) ≤ nrm(n₀) + #aut(st)·B_ks + #mul(st)·B_ep ≤ nrm(n₀) + |st|·(B_ks + B_ep)
      (induction over the schedule, on `noiseRun` of `blindrot_invariant`).  `zpoly_norm_hypotheses`: `‖·‖∞` on
      `ZPoly` with `autZ`, `monomialZ` satisfies the three norm hypotheses.

  Relation to the harness (harness/c20_util.go `extProdNoiseBound`, c20_br.go): the probe tests
      2·N·(B_e+1)·ΣD'/P + (1 + ‖s‖₁)/2 + 2,  D' = q_i − 1 (w = 0), 2^w − 1 (base two), ⌊Q_i/2⌋+1 (multi-prime)
  ≥ `extprod_noise_bound_div` with `D0 = D1 = D ≤ D'`; the blind-rotation probe tests `(#ops + 1)·` that bound,
  ≥ `#aut·B_ks + #mul·B_ep` since `B_ks ≤ B_ep ≤` the probe's per-product bound (the initial accumulator is
  noiseless).  No probe bound is below a theorem bound.
-/
import Lattigo.Proofs.NoiseNorm
import Lattigo.Proofs.BlindRotPhase

namespace Lattigo.Props.C20
open Lattigo Lattigo.ZPoly Lattigo.RGSW.BlindRot

/-! ## External product -/

/-- one gadget row respects its digit bounds -/
abbrev RowBounded (N : Nat) (d : List (List Int)) (D : List Nat) : Prop :=
  List.Forall₂ (fun d D => d.length ≤ N ∧ normInf d ≤ D) d D

/-- **extprod_noise_bound.** -/
theorem extprod_noise_bound (N P B h : Nat) (d0 d1 e0 e1 : List (List Int)) (D0 D1 : List Nat)
    (ν ρ0 ρ1 s : List Int) (hd0 : RowBounded N d0 D0) (hd1 : RowBounded N d1 D1)
    (he0 : ∀ e ∈ e0, normInf e ≤ B) (he1 : ∀ e ∈ e1, normInf e ≤ B)
    (hrel : smul P ν = sub (sub (add (dotZ N d0 e0) (dotZ N d1 e1)) ρ0) (mul s ρ1))
    (h0 : 2 * normInf ρ0 ≤ P) (h1 : 2 * normInf ρ1 ≤ P) (hs : norm1 s ≤ h) :
    2 * (P * normInf ν) ≤ 2 * (N * B * (D0.sum + D1.sum)) + P * (1 + h) := by
  apply rounding_bound P ν _ ρ0 ρ1 s _ h hrel h0 h1 _ hs
  have a := normInf_add_le (dotZ N d0 e0) (dotZ N d1 e1)
  have b := normInf_dotZ_le_of_bounds N B d0 e0 D0 hd0 he0
  have c := normInf_dotZ_le_of_bounds N B d1 e1 D1 hd1 he1
  rw [Nat.mul_add]
  omega

/-- floor form -/
theorem extprod_noise_bound_div (N P B h : Nat) (d0 d1 e0 e1 : List (List Int)) (D0 D1 : List Nat)
    (ν ρ0 ρ1 s : List Int) (hP : 0 < P) (hd0 : RowBounded N d0 D0) (hd1 : RowBounded N d1 D1)
    (he0 : ∀ e ∈ e0, normInf e ≤ B) (he1 : ∀ e ∈ e1, normInf e ≤ B)
    (hrel : smul P ν = sub (sub (add (dotZ N d0 e0) (dotZ N d1 e1)) ρ0) (mul s ρ1))
    (h0 : 2 * normInf ρ0 ≤ P) (h1 : 2 * normInf ρ1 ≤ P) (hs : norm1 s ≤ h) :
    normInf ν ≤ N * B * (D0.sum + D1.sum) / P + (1 + h) / 2 + 1 :=
  le_div_of_two_mul P _ _ h hP
    (extprod_noise_bound N P B h d0 d1 e0 e1 D0 D1 ν ρ0 ρ1 s hd0 hd1 he0 he1 hrel h0 h1 hs)

/-- without auxiliary modulus (`extprod_phase_noP`): `‖Σ d0 e0 + Σ d1 e1‖∞ ≤ N·B·(ΣD0 + ΣD1)` -/
theorem extprod_noise_bound_noP (N B : Nat) (d0 d1 e0 e1 : List (List Int)) (D0 D1 : List Nat)
    (hd0 : RowBounded N d0 D0) (hd1 : RowBounded N d1 D1)
    (he0 : ∀ e ∈ e0, normInf e ≤ B) (he1 : ∀ e ∈ e1, normInf e ≤ B) :
    normInf (add (dotZ N d0 e0) (dotZ N d1 e1)) ≤ N * B * (D0.sum + D1.sum) := by
  have a := normInf_add_le (dotZ N d0 e0) (dotZ N d1 e1)
  have b := normInf_dotZ_le_of_bounds N B d0 e0 D0 hd0 he0
  have c := normInf_dotZ_le_of_bounds N B d1 e1 D1 hd1 he1
  rw [Nat.mul_add]
  omega

/-- both components decomposed with the same gadget (`D0 = D1 = D`, `ℓ` digits all `≤ D`): `4·ℓ·N·D·B + P(1+h)` -/
theorem extprod_noise_bound_uniform (N P B h D : Nat) (d0 d1 e0 e1 : List (List Int))
    (ν ρ0 ρ1 s : List Int) (hlen : d1.length = d0.length)
    (hd0 : ∀ d ∈ d0, d.length ≤ N ∧ normInf d ≤ D) (hd1 : ∀ d ∈ d1, d.length ≤ N ∧ normInf d ≤ D)
    (he0 : ∀ e ∈ e0, normInf e ≤ B) (he1 : ∀ e ∈ e1, normInf e ≤ B)
    (hrel : smul P ν = sub (sub (add (dotZ N d0 e0) (dotZ N d1 e1)) ρ0) (mul s ρ1))
    (h0 : 2 * normInf ρ0 ≤ P) (h1 : 2 * normInf ρ1 ≤ P) (hs : norm1 s ≤ h) :
    2 * (P * normInf ν) ≤ 4 * (d0.length * (N * D * B)) + P * (1 + h) := by
  have hb := extprod_noise_bound N P B h d0 d1 e0 e1 _ _ ν ρ0 ρ1 s
    (forall₂_replicate _ d0 D hd0) (forall₂_replicate _ d1 D hd1) he0 he1 hrel h0 h1 hs
  rw [sum_replicate_nat, sum_replicate_nat, hlen] at hb
  have e : 2 * (N * B * (d0.length * D + d0.length * D)) = 4 * (d0.length * (N * D * B)) := by ring
  omega

/-! ## Blind rotation: accumulated noise, by induction over the schedule -/

def countAut : List Step → Nat
  | [] => 0
  | Step.aut _ :: r => countAut r + 1
  | Step.mul _ :: r => countAut r

def countMul : List Step → Nat
  | [] => 0
  | Step.aut _ :: r => countMul r
  | Step.mul _ :: r => countMul r + 1

theorem count_add_length : ∀ st : List Step, countAut st + countMul st = st.length
  | [] => rfl
  | Step.aut _ :: r => by simp only [countAut, countMul, List.length_cons]; have := count_add_length r; omega
  | Step.mul _ :: r => by simp only [countAut, countMul, List.length_cons]; have := count_add_length r; omega

section run
variable {m : Nat} {R γ : Type} [CommRing R]
variable (mono : ZMod m → R) (φ : ZMod m → R → R)
variable (ph : γ → R) (autOp : Nat → γ → γ) (mulOp : Nat → γ → γ) (s : Nat → ZMod m)

/-- **noiseRun_norm_le.**  `nrm` subadditive, not increased by `φ_g` nor by multiplication by a monomial;
    `Inv` any invariant of the accumulator preserved by the two operations (e.g. `fun _ => True`, or "well-formed at
    level ℓ"); each automorphism's key-switching error `≤ B_ks`, each external product's error `≤ B_ep`
    (`keyswitch_noise_bound`, `extprod_noise_bound`: both independent of the accumulator).  Then the noise
    accumulated along ANY schedule obeys `nrm ≤ nrm n₀ + #aut·B_ks + #mul·B_ep`. -/
theorem noiseRun_norm_le (nrm : R → Nat) (Bks Bep : Nat)
    (hadd : ∀ x y, nrm (x + y) ≤ nrm x + nrm y) (hφ : ∀ g n, nrm (φ g n) ≤ nrm n)
    (hmono : ∀ u n, nrm (n * mono u) ≤ nrm n)
    (Inv : γ → Prop) (hIa : ∀ g x, Inv x → Inv (autOp g x)) (hIm : ∀ j x, Inv x → Inv (mulOp j x))
    (hA : ∀ g x, Inv x → nrm (errAut φ ph autOp g x) ≤ Bks)
    (hM : ∀ j x, Inv x → nrm (errMul mono ph mulOp s j x) ≤ Bep) :
    ∀ (st : List Step) (x : γ) (n : R), Inv x →
      nrm (noiseRun mono φ ph autOp mulOp s st x n) ≤ nrm n + countAut st * Bks + countMul st * Bep
  | [], x, n, _ => by simp [noiseRun, countAut, countMul]
  | Step.aut g :: rest, x, n, hx => by
      simp only [noiseRun, countAut, countMul]
      have ih := noiseRun_norm_le nrm Bks Bep hadd hφ hmono Inv hIa hIm hA hM rest (autOp g x)
        (φ (g : ZMod m) n + errAut φ ph autOp g x) (hIa g x hx)
      have h1 := hadd (φ (g : ZMod m) n) (errAut φ ph autOp g x)
      have h2 := hφ (g : ZMod m) n
      have h3 := hA g x hx
      rw [Nat.add_mul]
      omega
  | Step.mul j :: rest, x, n, hx => by
      simp only [noiseRun, countAut, countMul]
      have ih := noiseRun_norm_le nrm Bks Bep hadd hφ hmono Inv hIa hIm hA hM rest (mulOp j x)
        (n * mono (s j) + errMul mono ph mulOp s j x) (hIm j x hx)
      have h1 := hadd (n * mono (s j)) (errMul mono ph mulOp s j x)
      have h2 := hmono (s j) n
      have h3 := hM j x hx
      rw [Nat.add_mul]
      omega

/-- "noise after `k` steps `≤ k·(extprod bound + keyswitch bound)`" (plus the initial noise) -/
theorem noiseRun_norm_le_length (nrm : R → Nat) (Bks Bep : Nat)
    (hadd : ∀ x y, nrm (x + y) ≤ nrm x + nrm y) (hφ : ∀ g n, nrm (φ g n) ≤ nrm n)
    (hmono : ∀ u n, nrm (n * mono u) ≤ nrm n)
    (Inv : γ → Prop) (hIa : ∀ g x, Inv x → Inv (autOp g x)) (hIm : ∀ j x, Inv x → Inv (mulOp j x))
    (hA : ∀ g x, Inv x → nrm (errAut φ ph autOp g x) ≤ Bks)
    (hM : ∀ j x, Inv x → nrm (errMul mono ph mulOp s j x) ≤ Bep)
    (st : List Step) (x : γ) (n : R) (hx : Inv x) :
    nrm (noiseRun mono φ ph autOp mulOp s st x n) ≤ nrm n + st.length * (Bks + Bep) := by
  have h := noiseRun_norm_le mono φ ph autOp mulOp s nrm Bks Bep hadd hφ hmono Inv hIa hIm hA hM st x n hx
  have hc := count_add_length st
  have h1 : countAut st * Bks ≤ st.length * Bks := Nat.mul_le_mul_right _ (by omega)
  have h2 : countMul st * Bep ≤ st.length * Bep := Nat.mul_le_mul_right _ (by omega)
  rw [Nat.mul_add]
  omega

/-- **blindrot_noise_bound**: `blindrot_invariant` + `noiseRun_norm_le`: the distance between the accumulator's
    phase after the schedule and the ideal `φ_{t'}(F)·X^{u'}` is at most `nrm n₀ + #aut·B_ks + #mul·B_ep`.
    (`U`: the multiplicatively closed set of admissible automorphism indices of `blindrot_invariant` — the odd
    residues modulo `2N`; it contains the schedule's Galois elements and the initial `t`.) -/
theorem blindrot_noise_bound (nrm : R → Nat) (Bks Bep : Nat)
    (U : ZMod m → Prop) (hU : ∀ g t, U g → U t → U (g * t))
    (hmono' : ∀ u v, mono (u + v) = mono u * mono v)
    (hφadd : ∀ g, U g → ∀ x y, φ g (x + y) = φ g x + φ g y)
    (hφmul : ∀ g, U g → ∀ x y, φ g (x * y) = φ g x * φ g y)
    (hφφ : ∀ g t, U g → U t → ∀ x, φ g (φ t x) = φ (g * t) x)
    (hφmono : ∀ g, U g → ∀ u, φ g (mono u) = mono (g * u))
    (hadd : ∀ x y, nrm (x + y) ≤ nrm x + nrm y) (hφ : ∀ g n, nrm (φ g n) ≤ nrm n)
    (hmono : ∀ u n, nrm (n * mono u) ≤ nrm n)
    (Inv : γ → Prop) (hIa : ∀ g x, Inv x → Inv (autOp g x)) (hIm : ∀ j x, Inv x → Inv (mulOp j x))
    (hA : ∀ g x, Inv x → nrm (errAut φ ph autOp g x) ≤ Bks)
    (hM : ∀ j x, Inv x → nrm (errMul mono ph mulOp s j x) ≤ Bep)
    (F : R) (st : List Step) (hst : ∀ g, Step.aut g ∈ st → U (g : ZMod m)) (x : γ) (t u : ZMod m) (ht : U t)
    (n : R) (hx : Inv x) (h : ph x = φ t F * mono u + n) :
    nrm (ph (runSteps autOp mulOp st x) - φ (runZ s st (t, u)).1 F * mono (runZ s st (t, u)).2)
      ≤ nrm n + countAut st * Bks + countMul st * Bep := by
  rw [blindrot_phase mono φ ph autOp mulOp s U hU hmono' hφadd hφmul hφφ hφmono F st hst x t u ht n h]
  have : φ (runZ s st (t, u)).1 F * mono (runZ s st (t, u)).2 + noiseRun mono φ ph autOp mulOp s st x n
      - φ (runZ s st (t, u)).1 F * mono (runZ s st (t, u)).2 = noiseRun mono φ ph autOp mulOp s st x n := by ring
  rw [this]
  exact noiseRun_norm_le mono φ ph autOp mulOp s nrm Bks Bep hadd hφ hmono Inv hIa hIm hA hM st x n hx

end run

/-- the three norm hypotheses of `noiseRun_norm_le` hold for `‖·‖∞` on `ZPoly` with the automorphisms `autZ g` and the
    monomials `monomialZ N k` (multiplication on the left: `mul` is the negacyclic product) -/
theorem zpoly_norm_hypotheses :
    (∀ a b : List Int, normInf (add a b) ≤ normInf a + normInf b)
    ∧ (∀ (g : Nat) (a : List Int), normInf (autZ g a) ≤ normInf a)
    ∧ (∀ (N k : Nat) (a : List Int), normInf (mul (monomialZ N k) a) ≤ normInf a) :=
  ⟨normInf_add_le, normInf_autZ_le, normInf_monomial_mul_le⟩

/-- explicit constants: with the floor forms of `keyswitch_noise_bound_div` (`S = ΣD` of the Galois keys) and of
    `extprod_noise_bound_div` (`S' = ΣD0 + ΣD1` of the blind-rotation keys), `k = |st|` operations starting from a
    noiseless accumulator leave a noise `≤ k·(⌊N·B·S/P⌋ + ⌊N·B·S'/P⌋ + 2·⌊(1+h)/2⌋ + 2)`. -/
theorem blindrot_noise_bound_explicit {m : Nat} {R γ : Type} [CommRing R]
    (mono : ZMod m → R) (φ : ZMod m → R → R) (ph : γ → R) (autOp : Nat → γ → γ) (mulOp : Nat → γ → γ)
    (s : Nat → ZMod m) (nrm : R → Nat) (N P B h S S' : Nat)
    (hadd : ∀ x y, nrm (x + y) ≤ nrm x + nrm y) (hφ : ∀ g n, nrm (φ g n) ≤ nrm n)
    (hmono : ∀ u n, nrm (n * mono u) ≤ nrm n) (hz : nrm 0 = 0)
    (hA : ∀ g x, nrm (errAut φ ph autOp g x) ≤ N * B * S / P + (1 + h) / 2 + 1)
    (hM : ∀ j x, nrm (errMul mono ph mulOp s j x) ≤ N * B * S' / P + (1 + h) / 2 + 1)
    (st : List Step) (x : γ) :
    nrm (noiseRun mono φ ph autOp mulOp s st x 0)
      ≤ st.length * (N * B * S / P + N * B * S' / P + 2 * ((1 + h) / 2) + 2) := by
  have hb := noiseRun_norm_le_length mono φ ph autOp mulOp s nrm _ _ hadd hφ hmono (fun _ => True)
    (fun _ _ _ => trivial) (fun _ _ _ => trivial) (fun g x _ => hA g x) (fun j x _ => hM j x) st x 0 trivial
  have e : N * B * S / P + (1 + h) / 2 + 1 + (N * B * S' / P + (1 + h) / 2 + 1)
      = N * B * S / P + N * B * S' / P + 2 * ((1 + h) / 2) + 2 := by ring
  rw [hz, e] at hb
  omega

/-! ## Non-vacuity -/

/-- external product, `N = 2`, `P = 5`, `B = 1`, one digit per component bounded by `D = 2`, `s = 1`:
    `Σ d0 e0 + Σ d1 e1 = [2,-2]·[1,-1] + [1,2]·[-1,1] = [0,-4] + [-3,-1] = [-3,-5] = 5·[-1,-1] + [1,2] + 1·[1,-2]`;
    the theorem gives `2·5·1 = 10 ≤ 2·(2·1·(2+2)) + 5·2 = 26`. -/
example :
    RowBounded 2 [[2, -2]] [2] ∧ RowBounded 2 [[1, 2]] [2]
    ∧ (∀ e ∈ [[(1 : Int), -1]], normInf e ≤ 1) ∧ (∀ e ∈ [[(-1 : Int), 1]], normInf e ≤ 1)
    ∧ smul (5 : Nat) [-1, -1]
        = sub (sub (add (dotZ 2 [[2, -2]] [[1, -1]]) (dotZ 2 [[1, 2]] [[-1, 1]])) [1, 2]) (mul [1, 0] [1, -2])
    ∧ 2 * normInf [1, 2] ≤ 5 ∧ 2 * normInf [1, -2] ≤ 5 ∧ norm1 [1, 0] ≤ 1 := by
  refine ⟨List.Forall₂.cons (by decide) List.Forall₂.nil, List.Forall₂.cons (by decide) List.Forall₂.nil,
    by decide, by decide, by decide, by decide, by decide, by decide⟩

/-- blind rotation, the negacyclic ring with `N = 1` (`Z[X]/(X+1) = ℤ`, `X = −1`): monomials `X^u = (−1)^u`,
    `u ∈ ZMod 2`, trivial automorphisms, `nrm = |·|`; an "automorphism" that adds the error `1` and an "external
    product" that multiplies by `X^{s_j}` and adds the error `2`: after `[aut, mul, aut]` the noise is
    `≤ 0 + 2·1 + 1·2`. -/
example :
    let mono : ZMod 2 → ℤ := fun u => if u = 0 then 1 else -1
    let φ : ZMod 2 → ℤ → ℤ := fun _ x => x
    let s : Nat → ZMod 2 := fun _ => 1
    let autOp : Nat → ℤ → ℤ := fun _ x => x + 1
    let mulOp : Nat → ℤ → ℤ := fun j x => x * mono (s j) + 2
    Int.natAbs (noiseRun mono φ (fun x : ℤ => x) autOp mulOp s [Step.aut 5, Step.mul 0, Step.aut 5] 7 0)
      ≤ Int.natAbs 0 + countAut [Step.aut 5, Step.mul 0, Step.aut 5] * 1
        + countMul [Step.aut 5, Step.mul 0, Step.aut 5] * 2 := by
  intro mono φ s autOp mulOp
  apply noiseRun_norm_le mono φ (fun x : ℤ => x) autOp mulOp s Int.natAbs 1 2
    (fun x y => Int.natAbs_add_le x y) (fun _ _ => Nat.le_refl _)
    (fun u n => by
      simp only [mono]
      split <;> simp)
    (fun _ => True) (fun _ _ _ => trivial) (fun _ _ _ => trivial)
    (fun g x _ => by simp [errAut, autOp, φ])
    (fun j x _ => by simp [errMul, mulOp])
  trivial

end Lattigo.Props.C20

#print axioms Lattigo.Props.C20.extprod_noise_bound
#print axioms Lattigo.Props.C20.extprod_noise_bound_div
#print axioms Lattigo.Props.C20.extprod_noise_bound_noP
#print axioms Lattigo.Props.C20.extprod_noise_bound_uniform
#print axioms Lattigo.Props.C20.noiseRun_norm_le
#print axioms Lattigo.Props.C20.noiseRun_norm_le_length
#print axioms Lattigo.Props.C20.blindrot_noise_bound
#print axioms Lattigo.Props.C20.blindrot_noise_bound_explicit
#print axioms Lattigo.Props.C20.zpoly_norm_hypotheses
